(* Proofs/AcctICache.v — property C11, program-level accounting: the instruction-cache access
   counter counts the fetches (one per executed instruction in single-cycle mode, one per
   non-stalled cycle with an instruction at pc in five-stage mode), and the cycle counter of a
   whole run is steps + penalty * misses for both caches. *)
From Coq Require Import Lia ZifyBool.
From ArchSim Require Import Model.Base Model.Mem Model.Cache Model.Fmt Model.RV Model.Single
  Model.RVSplit Model.Pipe
  Proofs.WordLemmas Proofs.C01Step Proofs.C02Split Proofs.PipeLaws Proofs.LiftSingle.
Open Scope Z_scope.
Local Arguments Z.mul : simpl never.
Local Arguments Z.add : simpl never.
Local Arguments Z.sub : simpl never.
Local Arguments Z.of_nat : simpl never.

(* 1 if the state has an instruction cache, else 0 *)
Definition ic1 (s : st) : Z := match icc (im s) with Some _ => 1 | None => 0 end.

Lemma ic1_im s s' : im s' = im s -> ic1 s' = ic1 s /\ iacc s' = iacc s.
Proof. intros H. unfold ic1, iacc. rewrite H. split; reflexivity. Qed.

(** * One fetch *)
Lemma fetch_iacc s a oi s' : fetch s a = (oi, s') ->
  iacc s' = iacc s + ic1 s /\ ic1 s' = ic1 s /\ icount s' = icount s.
Proof.
  unfold fetch, im_read, iacc, ic1. intros H. destruct (icc (im s)) as [c|] eqn:Ec.
  - destruct (cache_read_block (ic c) (cdecode (ic c) a)) as [[v|] c'].
    + injection H as _ <-. cbn [with_cycles with_im im icc iaccesses icount]. repeat split.
    + destruct (cache_write_block (ic c) (cdecode (ic c) a) _) as [[h dsp] c2].
      injection H as _ <-. cbn [with_cycles with_im im icc iaccesses icount]. repeat split.
  - injection H as _ <-. cbn [with_cycles with_im im icount]. rewrite Ec. repeat split; try lia.
Qed.

(** * [behavior] touches neither the instruction memory nor the retire counter *)
Lemma rset_frame s r v : im (rset s r v) = im s /\ icount (rset s r v) = icount s /\
  cycles (rset s r v) = cycles s /\ ms (rset s r v) = ms s.
Proof. unfold rset. destruct (_ && _); repeat split. Qed.

Lemma behavior_im i s : im (fst (behavior i s)) = im s /\ icount (fst (behavior i s)) = icount s.
Proof.
  destruct i; cbn [behavior fst]; cbv zeta;
    try (cbn [fst with_pc with_pcount with_bcount im icount]; split; apply rset_frame).
  - destruct (st_read s (load_bits o) (rget s rs1 + imm) true) as [r s1] eqn:Hr.
    apply st_read_law in Hr. destruct Hr as ((_ & _ & Him & _ & _ & Hic & _) & _).
    destruct r; cbn [fst]; [|split; assumption].
    split; [rewrite (proj1 (rset_frame _ _ _)); exact Him | rewrite (proj1 (proj2 (rset_frame _ _ _))); exact Hic].
  - destruct (process_ecall s) as [r s1] eqn:Hp. apply process_ecall_law in Hp.
    destruct Hp as ((_ & _ & Him & _ & _ & Hic & _) & _).
    destruct r as [[t|c]|e]; cbn [fst with_out with_exit im icount]; split; assumption.
  - split; reflexivity.
  - destruct (st_write s (store_bits o) _ _ false) as [e s1] eqn:Hw.
    apply st_write_law in Hw. destruct Hw as ((_ & _ & Him & _ & _ & Hic & _) & _).
    destruct e; cbn [fst]; split; assumption.
  - destruct (b_cond o (rget s rs1) (rget s rs2)); cbn [fst with_bcount with_pc im icount]; split; reflexivity.
  - split; reflexivity.
  - split; reflexivity.
  - split; reflexivity.
Qed.

Lemma reread_im i s la : im (fst (reread i s la)) = im s /\ icount (fst (reread i s la)) = icount s.
Proof.
  unfold reread. destruct i; try (split; reflexivity).
  destruct (st_read s (load_bits o) la false) as [r s1] eqn:Hr.
  apply st_read_law in Hr. destruct Hr as ((_ & _ & Him & _ & _ & Hic & _) & _).
  destruct r; cbn [fst]; split; assumption.
Qed.

(** * One single-cycle step: one fetch, one retirement *)
Lemma single_step_iacc s : single_done s = false ->
  let s1 := fst (single_pipeline_step s) in
  iacc s1 = iacc s + ic1 s /\ ic1 s1 = ic1 s /\ icount s1 = icount s + 1.
Proof.
  intros Hd. cbv zeta. unfold single_pipeline_step. rewrite single_stage_eq.
  set (s0 := with_cycles s (cycles s + 1)).
  assert (Hh : has_instr (im s0) (pc s0) = true).
  { unfold single_done in Hd. destruct (exitc s); [discriminate|]. destruct (has_instr (im s) (pc s)) eqn:E; [exact E | discriminate]. }
  rewrite Hh. cbv zeta. set (s1 := with_icount s0 (icount s0 + 1)).
  destruct (fetch s1 (pc s1)) as [oi s1f] eqn:Hf. destruct (fetch_iacc _ _ _ _ Hf) as (Ha & Hc & Hi).
  change (iacc s1) with (iacc s) in Ha. change (ic1 s1) with (ic1 s) in Ha, Hc.
  change (icount s1) with (icount s + 1) in Hi.
  assert (K : forall u, im u = im s1f -> icount u = icount s1f ->
            iacc u = iacc s + ic1 s /\ ic1 u = ic1 s /\ icount u = icount s + 1).
  { intros u E1 E2. destruct (ic1_im s1f u E1) as [E3 E4]. rewrite E3, E4, E2. repeat split; assumption. }
  destruct oi as [i|]; [|cbn [fst]; apply K; reflexivity].
  pose proof (behavior_im i s1f) as [B1 B2].
  destruct (behavior i s1f) as [s2 [e|]]; cbn [fst] in *.
  { apply K; assumption. }
  pose proof (reread_im i s2 (load_addr_pre i s1f)) as [R1 R2].
  destruct (reread i s2 (load_addr_pre i s1f)) as [s3 [e|]]; cbn [fst] in *;
    apply K; cbn [with_pc im icount]; congruence.
Qed.

Lemma single_run_iacc n : forall s,
  let s' := fst (single_run n s) in
  iacc s' - iacc s = ic1 s * (icount s' - icount s) /\ ic1 s' = ic1 s.
Proof.
  induction n as [|n IH]; intros s; cbv zeta; cbn [single_run].
  - destruct (single_done s); cbn [fst]; (split; [lia | reflexivity]).
  - destruct (single_done s) eqn:Hd; [cbn [fst]; split; [lia | reflexivity]|].
    pose proof (single_step_iacc s Hd) as H. cbv zeta in H.
    destruct (single_pipeline_step s) as [s1 [f|]]; cbn [fst] in *.
    + destruct H as (Ha & Hc & Hi). split; [|exact Hc]. rewrite Ha, Hi. lia.
    + destruct H as (Ha & Hc & Hi). specialize (IH s1). cbv zeta in IH. destruct IH as [IH1 IH2].
      rewrite Hc in IH1. split; [|rewrite IH2; exact Hc]. lia.
Qed.

(** * Five-stage mode: one fetch per non-stalled cycle with an instruction at pc *)
Definition pfetches (p : pstate) : bool :=
  match stalled p with Some _ => false | None => has_instr (im (pst p)) (pc (pst p)) end.

Lemma stage_if_iacc s n s' : stage_if s = (n, s') ->
  iacc s' = iacc s + (if has_instr (im s) (pc s) then ic1 s else 0) /\ ic1 s' = ic1 s.
Proof.
  unfold stage_if. intros H. destruct (has_instr (im s) (pc s)).
  - destruct (fetch s (pc s)) as [oi s1] eqn:Hf. destruct (fetch_iacc _ _ _ _ Hf) as (Ha & Hc & _).
    destruct oi; injection H as _ <-; cbn [with_pc]; (split; [exact Ha | exact Hc]).
  - injection H as _ <-. split; [lia | reflexivity].
Qed.

Lemma pipe_step_iacc p :
  let s' := pst (fst (pipe_step p)) in
  iacc s' = iacc (pst p) + (if pfetches p then ic1 (pst p) else 0) /\ ic1 s' = ic1 (pst p).
Proof.
  cbv zeta. rewrite pipe_step_eq. unfold pfetches.
  destruct (run_stages (bump p)) as [[next s] f] eqn:Hrs.
  assert (Hs : iacc s = iacc (pst p) + (if match stalled p with Some _ => false
                 | None => has_instr (im (pst p)) (pc (pst p)) end then ic1 (pst p) else 0) /\ ic1 s = ic1 (pst p)).
  { unfold run_stages in Hrs. change (stalled (bump p)) with (stalled p) in Hrs.
    destruct (match stalled p with Some _ => (lat_at (lat (bump p)) 0, pst (bump p))
              | None => stage_if (pst (bump p)) end) as [n0 s1] eqn:Hif.
    assert (H1 : iacc s1 = iacc (pst p) + (if match stalled p with Some _ => false
                 | None => has_instr (im (pst p)) (pc (pst p)) end then ic1 (pst p) else 0) /\ ic1 s1 = ic1 (pst p)).
    { destruct (stalled p).
      - injection Hif as _ <-. split; [cbn; unfold iacc; cbn; lia | reflexivity].
      - apply stage_if_iacc in Hif. exact Hif. }
    rewrite stage_wb_on in Hrs. destruct (wb_on _ s1) as [[n4 s2] o4] eqn:Hwb.
    pose proof (wb_on_law _ _ _ _ _ Hwb) as ((_ & Him2 & _) & _).
    destruct (ic1_im s1 s2 Him2) as [C2 A2].
    destruct o4; [injection Hrs as _ <- _; rewrite C2, A2; exact H1|].
    rewrite stage_ex_on in Hrs. destruct (ex_on _ _ _ s2) as [[n2 s3] o2] eqn:Hex.
    pose proof (ex_on_law _ _ _ _ _ _ _ Hex) as ((_ & Him3 & _) & _).
    destruct (ic1_im s2 s3 Him3) as [C3 A3].
    destruct o2; [injection Hrs as _ <- _; rewrite C3, A3, C2, A2; exact H1|].
    rewrite stage_mem_on in Hrs. destruct (mem_on _ s3) as [[n3 s4] o3] eqn:Hmem.
    pose proof (mem_on_law _ _ _ _ _ Hmem) as ((_ & Him4 & _) & _).
    destruct (ic1_im s3 s4 Him4) as [C4 A4].
    destruct o3; injection Hrs as _ <- _; rewrite C4, A4, C3, A3, C2, A2; exact H1. }
  destruct f as [f|]; cbn [fst].
  - cbn [faulted pst]. exact Hs.
  - rewrite post_pst. unfold flush_st, stall_st.
    destruct (first_flush next) as [[i a]|]; destruct (new_stall next (stalled p)) as [j|]; exact Hs.
Qed.

Fixpoint pipe_fetches (fuel : nat) (p : pstate) : nat :=
  match fuel with
  | O => O
  | S k => if pipe_done p then O
           else (if pfetches p then 1 else 0)%nat +
                match pipe_step p with
                | (_, Some _) => O
                | (p', None) => pipe_fetches k p'
                end
  end.

Lemma pipe_run_iacc f : forall p,
  let s' := pst (fst (pipe_run f p)) in
  iacc s' = iacc (pst p) + ic1 (pst p) * Z.of_nat (pipe_fetches f p) /\ ic1 s' = ic1 (pst p).
Proof.
  induction f as [|f IH]; intros p; cbv zeta; cbn [pipe_run pipe_fetches].
  - destruct (pipe_done p); cbn [fst]; (split; [lia | reflexivity]).
  - destruct (pipe_done p); [cbn [fst]; split; [lia | reflexivity]|].
    pose proof (pipe_step_iacc p) as H. cbv zeta in H.
    destruct (pipe_step p) as [p1 [g|]]; cbn [fst] in *; destruct H as [Ha Hc].
    + split; [|exact Hc]. rewrite Ha. destruct (pfetches p); lia.
    + specialize (IH p1). cbv zeta in IH. destruct IH as [I1 I2]. rewrite Hc in I1.
      split; [|rewrite I2; exact Hc]. rewrite I1, Ha. destruct (pfetches p); lia.
Qed.

(** * The cycle counter of whole runs *)
Lemma pipe_run_Phi f : forall p,
  let s' := pst (fst (pipe_run f p)) in
  Phi s' = Phi (pst p) + Z.of_nat (pipe_run_steps f p) /\ dpen s' = dpen (pst p) /\ ipen s' = ipen (pst p).
Proof.
  induction f as [|f IH]; intros p; cbv zeta; cbn [pipe_run pipe_run_steps].
  - destruct (pipe_done p); cbn [fst]; (split; [lia | split; reflexivity]).
  - destruct (pipe_done p); [cbn [fst]; split; [lia | split; reflexivity]|].
    pose proof (step_Phi p) as (HP & Hd & Hi).
    destruct (pipe_step p) as [p1 [g|]]; cbn [fst] in *.
    + split; [lia | split; assumption].
    + specialize (IH p1). cbv zeta in IH. destruct IH as (I1 & I2 & I3).
      split; [lia | split; congruence].
Qed.

Lemma cycles_of_Phi s s' k : Phi s' = Phi s + k -> dpen s' = dpen s -> ipen s' = ipen s ->
  cycles s' = cycles s + k + ipen s * ((iacc s' - iacc s) - (ihit s' - ihit s))
                           + dpen s * ((dacc s' - dacc s) - (dhit s' - dhit s)).
Proof.
  unfold Phi. intros H Hd Hi. rewrite Hd, Hi in H.
  rewrite !Z.mul_sub_distr_l. rewrite !Z.mul_sub_distr_l in H. lia.
Qed.

Lemma pipe_run_cycles_lem f p :
  let s := pst p in let s' := pst (fst (pipe_run f p)) in
  cycles s' = cycles s + Z.of_nat (pipe_run_steps f p)
              + ipen s * ((iacc s' - iacc s) - (ihit s' - ihit s))
              + dpen s * ((dacc s' - dacc s) - (dhit s' - dhit s)).
Proof. cbv zeta. destruct (pipe_run_Phi f p) as (H1 & H2 & H3). apply cycles_of_Phi; assumption. Qed.

(** * The same for the single-cycle machine *)
Lemma Phi_rset s r v : Phi (rset s r v) = Phi s /\ dpen (rset s r v) = dpen s /\ ipen (rset s r v) = ipen s.
Proof. unfold rset. destruct (_ && _); repeat split. Qed.

Lemma Phi_eq3 s s' : ms s' = ms s -> im s' = im s -> cycles s' = cycles s ->
  Phi s' = Phi s /\ dpen s' = dpen s /\ ipen s' = ipen s.
Proof. intros H1 H2 H3. unfold Phi, dpen, dacc, dhit, ipen, iacc, ihit. rewrite H1, H2, H3. repeat split. Qed.

Lemma behavior_Phi i s :
  Phi (fst (behavior i s)) = Phi s /\ dpen (fst (behavior i s)) = dpen s /\ ipen (fst (behavior i s)) = ipen s.
Proof.
  assert (Hip : forall u u', im u' = im u -> ipen u' = ipen u) by (intros u u' E; unfold ipen; rewrite E; reflexivity).
  destruct i; cbn [behavior fst]; cbv zeta;
    try (cbn [fst]; apply Phi_eq3; cbn [with_pc with_pcount with_bcount ms im cycles]; apply rset_frame);
    try (repeat split; reflexivity).
  - destruct (st_read s (load_bits o) (rget s rs1 + imm) true) as [r s1] eqn:Hr.
    pose proof (st_read_Phi _ _ _ _ _ _ Hr) as HP. apply st_read_law in Hr.
    destruct Hr as ((_ & _ & Him & _) & Hd & _).
    destruct r; cbn [fst]; [destruct (Phi_rset s1 rd (load_ext o a)) as (E1 & E2 & E3); rewrite E1, E2, E3|];
      (split; [exact HP | split; [exact Hd | apply Hip; exact Him]]).
  - destruct (process_ecall s) as [r s1] eqn:Hp. apply process_ecall_law in Hp.
    destruct Hp as ((_ & _ & Him & _) & Hc & Hd & Ha & Hh).
    assert (K : Phi s1 = Phi s /\ dpen s1 = dpen s /\ ipen s1 = ipen s).
    { split; [apply Phi_same; assumption | split; [exact Hd | apply Hip; exact Him]]. }
    destruct r as [[t|c]|e]; cbn [fst]; exact K.
  - destruct (st_write s (store_bits o) _ _ false) as [e s1] eqn:Hw.
    pose proof (st_write_Phi _ _ _ _ _ _ _ Hw) as HP. apply st_write_law in Hw.
    destruct Hw as ((_ & _ & Him & _) & Hd & _).
    destruct e; cbn [fst]; (split; [exact HP | split; [exact Hd | apply Hip; exact Him]]).
  - destruct (b_cond o (rget s rs1) (rget s rs2)); cbn [fst]; repeat split; reflexivity.
Qed.

Lemma reread_Phi i s la :
  Phi (fst (reread i s la)) = Phi s /\ dpen (fst (reread i s la)) = dpen s /\ ipen (fst (reread i s la)) = ipen s.
Proof.
  unfold reread. destruct i; try (repeat split; reflexivity).
  destruct (st_read s (load_bits o) la false) as [r s1] eqn:Hr.
  pose proof (st_read_Phi _ _ _ _ _ _ Hr) as HP. apply st_read_law in Hr.
  destruct Hr as ((_ & _ & Him & _) & Hd & _).
  assert (Hi : ipen s1 = ipen s) by (unfold ipen; rewrite Him; reflexivity).
  destruct r; cbn [fst]; (split; [exact HP | split; assumption]).
Qed.

Lemma single_step_Phi s :
  let s1 := fst (single_pipeline_step s) in
  Phi s1 = Phi s + 1 /\ dpen s1 = dpen s /\ ipen s1 = ipen s.
Proof.
  cbv zeta. unfold single_pipeline_step. rewrite single_stage_eq.
  set (s0 := with_cycles s (cycles s + 1)).
  assert (H0 : Phi s0 = Phi s + 1 /\ dpen s0 = dpen s /\ ipen s0 = ipen s).
  { split; [apply Phi_bump | split; reflexivity]. }
  destruct (has_instr (im s0) (pc s0)); [|cbn [fst]; exact H0]. cbv zeta.
  set (s1 := with_icount s0 (icount s0 + 1)).
  destruct (fetch s1 (pc s1)) as [oi s1f] eqn:Hf.
  pose proof (fetch_Phi _ _ _ _ Hf) as [F1 F2]. apply fetch_law in Hf. destruct Hf as (_ & F3 & _).
  change (Phi s1) with (Phi s0) in F1. change (dpen s1) with (dpen s0) in F2. change (ipen s1) with (ipen s0) in F3.
  destruct H0 as (A1 & A2 & A3).
  assert (K : forall u, Phi u = Phi s1f -> dpen u = dpen s1f -> ipen u = ipen s1f ->
            Phi u = Phi s + 1 /\ dpen u = dpen s /\ ipen u = ipen s).
  { intros u E1 E2 E3. split; [|split]; congruence. }
  destruct oi as [i|]; [|cbn [fst]; apply K; reflexivity].
  pose proof (behavior_Phi i s1f) as (B1 & B2 & B3).
  destruct (behavior i s1f) as [s2 [e|]]; cbn [fst] in *.
  { apply K; assumption. }
  pose proof (reread_Phi i s2 (load_addr_pre i s1f)) as (R1 & R2 & R3).
  destruct (reread i s2 (load_addr_pre i s1f)) as [s3 [e|]]; cbn [fst] in *;
    apply K; try (change (Phi (with_pc s3 (pc s3 + 4))) with (Phi s3));
    try (change (dpen (with_pc s3 (pc s3 + 4))) with (dpen s3));
    try (change (ipen (with_pc s3 (pc s3 + 4))) with (ipen s3)); congruence.
Qed.

(* number of single-cycle steps made by [single_run fuel s] *)
Fixpoint single_run_steps (fuel : nat) (s : st) : nat :=
  match fuel with
  | O => O
  | S k => if single_done s then O
           else match single_pipeline_step s with
                | (_, Some _) => 1%nat
                | (s', None) => S (single_run_steps k s')
                end
  end.

Lemma single_run_Phi n : forall s,
  let s' := fst (single_run n s) in
  Phi s' = Phi s + Z.of_nat (single_run_steps n s) /\ dpen s' = dpen s /\ ipen s' = ipen s.
Proof.
  induction n as [|n IH]; intros s; cbv zeta; cbn [single_run single_run_steps].
  - destruct (single_done s); cbn [fst]; (split; [lia | split; reflexivity]).
  - destruct (single_done s); [cbn [fst]; split; [lia | split; reflexivity]|].
    pose proof (single_step_Phi s) as H. cbv zeta in H. destruct H as (HP & Hd & Hi).
    destruct (single_pipeline_step s) as [s1 [g|]]; cbn [fst] in *.
    + split; [lia | split; assumption].
    + specialize (IH s1). cbv zeta in IH. destruct IH as (I1 & I2 & I3).
      split; [lia | split; congruence].
Qed.

Lemma single_run_cycles_lem n s :
  let s' := fst (single_run n s) in
  cycles s' = cycles s + Z.of_nat (single_run_steps n s)
              + ipen s * ((iacc s' - iacc s) - (ihit s' - ihit s))
              + dpen s * ((dacc s' - dacc s) - (dhit s' - dhit s)).
Proof. cbv zeta. destruct (single_run_Phi n s) as (H1 & H2 & H3). apply cycles_of_Phi; assumption. Qed.

(* in single-cycle mode every step executes one instruction: steps = retirements *)
Lemma single_run_steps_icount n : forall s,
  icount (fst (single_run n s)) = icount s + Z.of_nat (single_run_steps n s).
Proof.
  induction n as [|n IH]; intros s; cbn [single_run single_run_steps].
  - destruct (single_done s); cbn [fst]; lia.
  - destruct (single_done s) eqn:Hd; [cbn [fst]; lia|].
    pose proof (single_step_iacc s Hd) as H. cbv zeta in H. destruct H as (_ & _ & Hi).
    destruct (single_pipeline_step s) as [s1 [g|]]; cbn [fst] in *; [lia|]. rewrite IH. lia.
Qed.

(** * The instruction memory after a run is the instruction memory after the list of fetches *)
From ArchSim Require Import Spec.RefCache.

Fixpoint single_fetches (fuel : nat) (s : st) : list Z :=
  match fuel with
  | O => []
  | S k => if single_done s then []
           else pc s :: match single_pipeline_step s with
                        | (_, Some _) => []
                        | (s', None) => single_fetches k s'
                        end
  end.

Lemma fetch_im s a oi s' : fetch s a = (oi, s') -> im s' = snd (fst (im_read (im s) a)).
Proof.
  unfold fetch. intros H. destruct (im_read (im s) a) as [[oi0 im'] p]. injection H as _ <-. reflexivity.
Qed.

Lemma single_step_im s : single_done s = false ->
  im (fst (single_pipeline_step s)) = snd (fst (im_read (im s) (pc s))).
Proof.
  intros Hd. unfold single_pipeline_step. rewrite single_stage_eq.
  set (s0 := with_cycles s (cycles s + 1)).
  assert (Hh : has_instr (im s0) (pc s0) = true).
  { unfold single_done in Hd. destruct (exitc s); [discriminate|]. destruct (has_instr (im s) (pc s)) eqn:E; [exact E | discriminate]. }
  rewrite Hh. cbv zeta. set (s1 := with_icount s0 (icount s0 + 1)).
  destruct (fetch s1 (pc s1)) as [oi s1f] eqn:Hf. pose proof (fetch_im _ _ _ _ Hf) as Him.
  change (im s1) with (im s) in Him. change (pc s1) with (pc s) in Him. rewrite <- Him.
  destruct oi as [i|]; [|reflexivity].
  pose proof (behavior_im i s1f) as [B1 _].
  destruct (behavior i s1f) as [s2 [e|]]; cbn [fst] in *; [exact B1|].
  pose proof (reread_im i s2 (load_addr_pre i s1f)) as [R1 _].
  destruct (reread i s2 (load_addr_pre i s1f)) as [s3 [e|]]; cbn [fst with_pc im] in *; congruence.
Qed.

Lemma single_run_im n : forall s, im (fst (single_run n s)) = im_after (im s) (single_fetches n s).
Proof.
  induction n as [|n IH]; intros s; cbn [single_run single_fetches].
  - destruct (single_done s); reflexivity.
  - destruct (single_done s) eqn:Hd; [reflexivity|]. cbn [im_after].
    rewrite <- (single_step_im s Hd).
    destruct (single_pipeline_step s) as [s1 [g|]]; cbn [fst]; [reflexivity | apply IH].
Qed.

Lemma single_fetches_length n : forall s, length (single_fetches n s) = single_run_steps n s.
Proof.
  induction n as [|n IH]; intros s; cbn [single_fetches single_run_steps]; [reflexivity|].
  destruct (single_done s); [reflexivity|]. cbn [length].
  destruct (single_pipeline_step s) as [s1 [g|]]; [reflexivity | rewrite IH; reflexivity].
Qed.

(* the same for the pipeline: the fetch addresses are the pcs of the fetching cycles *)
Fixpoint pipe_fetch_addrs (fuel : nat) (p : pstate) : list Z :=
  match fuel with
  | O => []
  | S k => if pipe_done p then []
           else (if pfetches p then [pc (pst p)] else []) ++
                match pipe_step p with
                | (_, Some _) => []
                | (p', None) => pipe_fetch_addrs k p'
                end
  end.

Lemma stage_if_im s n s' : stage_if s = (n, s') ->
  im s' = if has_instr (im s) (pc s) then snd (fst (im_read (im s) (pc s))) else im s.
Proof.
  unfold stage_if. intros H. destruct (has_instr (im s) (pc s)).
  - destruct (fetch s (pc s)) as [oi s1] eqn:Hf. pose proof (fetch_im _ _ _ _ Hf) as E.
    destruct oi; injection H as _ <-; exact E.
  - injection H as _ <-. reflexivity.
Qed.

Lemma pipe_step_im p :
  im (pst (fst (pipe_step p))) =
  if pfetches p then snd (fst (im_read (im (pst p)) (pc (pst p)))) else im (pst p).
Proof.
  rewrite pipe_step_eq. unfold pfetches.
  destruct (run_stages (bump p)) as [[next s] f] eqn:Hrs.
  assert (Hs : im s = if match stalled p with Some _ => false | None => has_instr (im (pst p)) (pc (pst p)) end
                      then snd (fst (im_read (im (pst p)) (pc (pst p)))) else im (pst p)).
  { unfold run_stages in Hrs. change (stalled (bump p)) with (stalled p) in Hrs.
    destruct (match stalled p with Some _ => (lat_at (lat (bump p)) 0, pst (bump p))
              | None => stage_if (pst (bump p)) end) as [n0 s1] eqn:Hif.
    assert (H1 : im s1 = if match stalled p with Some _ => false | None => has_instr (im (pst p)) (pc (pst p)) end
                         then snd (fst (im_read (im (pst p)) (pc (pst p)))) else im (pst p)).
    { destruct (stalled p); [injection Hif as _ <-; reflexivity|]. apply stage_if_im in Hif. exact Hif. }
    rewrite stage_wb_on in Hrs. destruct (wb_on _ s1) as [[n4 s2] o4] eqn:Hwb.
    pose proof (wb_on_law _ _ _ _ _ Hwb) as ((_ & Him2 & _) & _).
    destruct o4; [injection Hrs as _ <- _; rewrite Him2; exact H1|].
    rewrite stage_ex_on in Hrs. destruct (ex_on _ _ _ s2) as [[n2 s3] o2] eqn:Hex.
    pose proof (ex_on_law _ _ _ _ _ _ _ Hex) as ((_ & Him3 & _) & _).
    destruct o2; [injection Hrs as _ <- _; rewrite Him3, Him2; exact H1|].
    rewrite stage_mem_on in Hrs. destruct (mem_on _ s3) as [[n3 s4] o3] eqn:Hmem.
    pose proof (mem_on_law _ _ _ _ _ Hmem) as ((_ & Him4 & _) & _).
    destruct o3; injection Hrs as _ <- _; rewrite Him4, Him3, Him2; exact H1. }
  destruct f as [f|]; cbn [fst].
  - cbn [faulted pst]. exact Hs.
  - rewrite post_pst. unfold flush_st, stall_st.
    destruct (first_flush next) as [[i a]|]; destruct (new_stall next (stalled p)) as [j|]; exact Hs.
Qed.

Lemma pipe_run_im f : forall p,
  im (pst (fst (pipe_run f p))) = im_after (im (pst p)) (pipe_fetch_addrs f p).
Proof.
  induction f as [|f IH]; intros p; cbn [pipe_run pipe_fetch_addrs].
  - destruct (pipe_done p); reflexivity.
  - destruct (pipe_done p); [reflexivity|]. pose proof (pipe_step_im p) as H.
    destruct (pipe_step p) as [p1 [g|]]; cbn [fst] in *.
    + destruct (pfetches p); cbn [app im_after]; rewrite H; reflexivity.
    + rewrite IH, H. destruct (pfetches p); reflexivity.
Qed.

Lemma pipe_fetch_addrs_length f : forall p, length (pipe_fetch_addrs f p) = pipe_fetches f p.
Proof.
  induction f as [|f IH]; intros p; cbn [pipe_fetch_addrs pipe_fetches]; [reflexivity|].
  destruct (pipe_done p); [reflexivity|]. rewrite app_length.
  destruct (pipe_step p) as [p1 [g|]]; destruct (pfetches p); cbn [length]; rewrite ?IH; lia.
Qed.
