(* SchedOffRun.v — timing with hazard detection OFF, part 2: every program without ecall (arbitrary,
   also stale, register dependencies).  The pipeline never stalls; along the simulation of
   Proofs/FlagOffControl.v ([CInvP]: invariant [DInvAt] + bubble pattern [PatC] + alignment [RelC]
   with the reference state) the next instruction of the reference run retires at step
   t + 1 + mu p, where t is the number of steps made and [mu p] the position of the oldest occupied
   latch; a retiring slot that redirects leaves mu = 3 behind, any other mu = 0. *)
From Coq Require Import Lia ZifyBool Wf_nat.
From ArchSim Require Import Model.Base Model.Mem Model.Cache Model.Fmt Model.RV Model.Single
  Model.RVSplit Model.Pipe Proofs.WordLemmas Proofs.C01Step Proofs.SplitExec Proofs.C02Split
  Proofs.PipeLaws Proofs.PipeShape Proofs.PipeInv Proofs.PipeInvBase Proofs.PipeInvStages
  Proofs.PipeInvStraight Proofs.PipeInvControl Proofs.FlagOffDwb Proofs.FlagOffInv
  Proofs.FlagOffStraight Proofs.FlagOffControl Proofs.SchedDefs Proofs.SchedOffDefs Proofs.SchedOffDwb
  Proofs.SchedLink.
Open Scope Z_scope.

Local Arguments Z.of_nat : simpl never.
Local Arguments Z.add : simpl never.
Local Arguments Z.sub : simpl never.
Local Arguments Z.mul : simpl never.

(** * The position of the oldest occupied latch after a step *)
Lemma mu_lat p l0 l1 l2 l3 l4 : lat p = [l0; l1; l2; l3; l4] -> stalled p = None ->
  mu p = if nonempty l3 then 0 else if nonempty l2 then 1 else if nonempty l1 then 2
         else if nonempty l0 then 3 else 4.
Proof. intros Hl Hs. unfold mu, dcount. rewrite Hl, Hs. lat5. destruct (nonempty l1); reflexivity. Qed.

Lemma not_done_occ p l0 l1 l2 l3 l4 : lat p = [l0; l1; l2; l3; l4] -> exitc (pst p) = None ->
  pipe_done p = false ->
  nonempty l3 = false -> nonempty l2 = false -> nonempty l1 = false -> nonempty l0 = false ->
  has_instr (im (pst p)) (pc (pst p)) = true.
Proof.
  intros Hl Hx Hd E3 E2 E1 E0. unfold pipe_done, pipe_empty in Hd. rewrite Hx, Hl in Hd. lat5h Hd.
  rewrite E3, E2, E1, E0 in Hd. cbn [orb negb andb] in Hd.
  destruct (has_instr _ _); [reflexivity|discriminate Hd].
Qed.

(* nothing retires: the oldest slot moves one latch closer to WB *)
Lemma mu_step_none p p' l0 l1 l2 l4 : lat p = [l0; l1; l2; None; l4] -> stalled p = None ->
  exitc (pst p) = None -> pipe_done p = false -> stepinfo p p' l0 l1 l2 None ->
  mu p' = mu p - 1.
Proof.
  intros Hl Hs Hx Hd (Hs' & n0 & n1 & n2 & n3 & n4 & Hl' & Hcase).
  rewrite (mu_lat p _ _ _ _ _ Hl Hs), (mu_lat p' _ _ _ _ _ Hl' Hs'). cbn [nonempty].
  destruct Hcase as [(_ & E3 & E2 & E1 & E0 & _)|(Hf & -> & -> & -> & H2)].
  - rewrite E3, E2, E1, E0.
    destruct (nonempty l2) eqn:B2; [reflexivity|]. destruct (nonempty l1) eqn:B1; [reflexivity|].
    destruct (nonempty l0) eqn:B0; [reflexivity|].
    rewrite (not_done_occ p _ _ _ _ _ Hl Hx Hd eq_refl B2 B1 B0). reflexivity.
  - rewrite H2. destruct n3; [reflexivity|exfalso; apply Hf; reflexivity].
Qed.

(* a slot retires: the next one is right behind it, or four steps away behind a redirect *)
Lemma mu_step_some p p' l0 l1 l2 x3 l4 : lat p = [l0; l1; l2; Some x3; l4] ->
  PatC p l0 l1 l2 (Some x3) -> stepinfo p p' l0 l1 l2 (Some x3) ->
  exitc (pst p') = None -> pipe_done p' = false ->
  mu p' = if has_flush (Some x3) then 3 else 0.
Proof.
  intros Hl (_ & Hfl & Hm) (Hs' & n0 & n1 & n2 & n3 & n4 & Hl' & Hcase) Hx' Hd'.
  rewrite (mu_lat p' _ _ _ _ _ Hl' Hs'). unfold has_flush.
  destruct (flush_of (Some x3)) as [a|] eqn:F3.
  - destruct (Hfl ltac:(discriminate)) as (-> & -> & ->).
    destruct Hcase as [(_ & E3 & E2 & E1 & E0 & Ef)|(_ & _ & _ & _ & H)]; [|discriminate H].
    rewrite E3, E2, E1. cbn [nonempty]. destruct (nonempty n0) eqn:B0; [reflexivity|exfalso].
    cbn [nonempty] in E3, E2, E1.
    pose proof (not_done_occ p' _ _ _ _ _ Hl' Hx' Hd' E3 E2 E1 B0) as H. rewrite (Ef eq_refl) in H. discriminate H.
  - specialize (Hm eq_refl). cbv zeta in Hm. cbn [nonempty] in Hm.
    destruct Hcase as [(_ & E3 & E2 & E1 & E0 & Ef)|(Hf & _ & _ & _ & _)].
    + destruct (nonempty l2) eqn:B2; [rewrite E3; reflexivity|exfalso].
      destruct (nonempty l1) eqn:B1, (nonempty l0) eqn:B0, (has_instr (im (pst p)) (pc (pst p))) eqn:Bf;
        cbn in Hm; try discriminate Hm.
      rewrite E0 in Ef.
      pose proof (not_done_occ p' _ _ _ _ _ Hl' Hx' Hd' E3 E2 E1 E0) as H. rewrite (Ef eq_refl) in H. discriminate H.
    + destruct n3; [reflexivity|exfalso; apply Hf; reflexivity].
Qed.

Lemma last_indep {A} (l : list A) d d' : l <> [] -> last l d = last l d'.
Proof.
  induction l as [|a l IH]; intros H; [congruence|]. destruct l as [|b l]; [reflexivity|].
  change (last (a :: b :: l) d) with (last (b :: l) d). change (last (a :: b :: l) d') with (last (b :: l) d').
  apply IH. discriminate.
Qed.

Section Run.
Variable P : list instr.
Hypothesis HC : Forall (fun i => noecall i = true) P.
Let Hsup : Forall (fun i => supported i = true) P := Hsupc P HC.

(* the events of the reference run on a program without ecall (cf. [lagc_run], [lagc_trace]) *)
Fixpoint lagc_events (fuel : nat) (L : lag) : list event :=
  match fuel with
  | O => []
  | S k => if single_done (lt L) then []
           else match lstep L with
                | (_, Some _) => []
                | (L', None) => ev_of (uview L) :: lagc_events k (after_red (cur_red L) L')
                end
  end.

Lemma lagc_events_done n L : single_done (lt L) = true -> lagc_events n L = [].
Proof. intros H. destruct n; cbn [lagc_events]; [|rewrite H]; reflexivity. Qed.
Lemma lagc_events_step k L L' : single_done (lt L) = false -> lstep L = (L', None) ->
  lagc_events (S k) L = ev_of (uview L) :: lagc_events k (after_red (cur_red L) L').
Proof. intros H E. cbn [lagc_events]. rewrite H, E. reflexivity. Qed.

(* the redirect flag of the event is the redirect of the reference machine; no ecall *)
Lemma ev_uview L x3 : prog (im (lt L)) = P -> lv3 P (uview L) (Some x3) ->
  ev_redirect (ev_of (uview L)) = cur_red L /\ ev_ecall (ev_of (uview L)) = false.
Proof.
  intros HP (Wu & (Hx & _ & Hi) & _ & Hok & Hxn). change (pc (uview L)) with (pc (lt L)) in Hi.
  assert (Hi' : instr_at (prog (im (uview L))) (pc (uview L)) = Some (sl_instr x3)).
  { change (prog (im (uview L))) with (prog (im (lt L))). rewrite HP. exact Hi. }
  unfold ev_of. rewrite Hi'. pose proof (ne_at P HC _ _ Hi) as Hn. split.
  - rewrite (ev_redirect_eq _ _ Wu Hi' (noecall_supported _ Hn) Hok), Hxn. cbn [is_some].
    rewrite Bool.orb_false_r. unfold cur_red. rewrite HP, Hi. reflexivity.
  - cbn [ev_instr ev_ecall]. apply noecall_not_ecall. exact Hn.
Qed.

Definition tsim_goal (n : nat) (M : lag) (p : pstate) (t : nat) : Prop :=
  match lagc_run n M with
  | (s', Done) => exists c p', pipe_run c p = (p', PDone) /\ pipe_run_steps c p = c /\
      pipe_retire_from t c p =
        combine (lagc_trace n M) (woff (t + 1 + Z.to_nat (mu p)) (lagc_events n M)) /\
      (t + c)%nat = last (woff (t + 1 + Z.to_nat (mu p)) (lagc_events n M)) t
  | _ => True
  end.

Lemma tsim_done n M p t : CInvP P p M -> single_done (lt M) = true -> tsim_goal n M p t.
Proof.
  intros (L & l0 & l1 & l2 & l3 & l4 & dead & I & _ & HR) Hd. unfold tsim_goal.
  pose proof (RelC_lt _ _ _ _ _ _ _ HR) as Hlt.
  destruct (lagc_run_done n M Hd) as [-> ->]. rewrite (lagc_events_done n M Hd).
  exists 0%nat, p. cbn [pipe_run pipe_run_steps pipe_retire_from combine woff last].
  rewrite (ddone_iff P _ _ _ _ _ _ _ _ I), <- Hlt, Hd. repeat split. lia.
Qed.

Lemma tsim n : forall M p t, CInvP P p M -> tsim_goal n M p t.
Proof.
  induction n as [|k IHk]; intros M p t Hinv.
  { destruct (single_done (lt M)) eqn:Hd; [apply tsim_done; assumption|].
    unfold tsim_goal. cbn [lagc_run]. rewrite Hd. exact Logic.I. }
  remember (Z.to_nat (mu p)) as m eqn:Hm. revert p t Hinv Hm.
  induction m as [m IHm] using lt_wf_ind. intros p t Hinv Hm.
  destruct (single_done (lt M)) eqn:Hd; [apply tsim_done; assumption|].
  destruct Hinv as (L & l0 & l1 & l2 & l3 & l4 & dead & I & HPat & HR).
  pose proof (RelC_lt _ _ _ _ _ _ _ HR) as Hlt.
  pose proof (dv_shape _ _ _ _ _ _ _ _ _ I) as Sh. pose proof (mu_bounds p Sh) as Hmu.
  assert (Hpd : pipe_done p = false) by (rewrite (ddone_iff P _ _ _ _ _ _ _ _ I), <- Hlt; exact Hd).
  assert (HRM : M = leadb [nonempty l3; nonempty l2; nonempty l1; nonempty l0] L).
  { destruct HR as [HR|(_ & E3 & E2 & E1 & E0 & Ef)]; [exact HR|]. exfalso.
    unfold pipe_done, pipe_empty in Hpd.
    rewrite (dv_exitc _ _ _ _ _ _ _ _ _ I), (dv_lat _ _ _ _ _ _ _ _ _ I) in Hpd. lat5h Hpd.
    rewrite E3, E2, E1, E0, Ef in Hpd. discriminate Hpd. }
  pose proof HPat as (Hst & _ & _).
  pose proof (cstep_normal P HC _ _ _ _ _ _ _ _ I Hst Hpd) as Hstep. unfold cstep_goal in Hstep.
  assert (H3 : forall x3, l3 = Some x3 -> lstep L = (lnxt L, None) /\ sl_addr x3 = pc (lt L) /\
                M = L /\ cur_red L = has_flush l3 /\
                ev_redirect (ev_of (uview L)) = cur_red L).
  { intros x3 E. subst l3. pose proof (dv_l3 _ _ _ _ _ _ _ _ _ I) as L3.
    pose proof L3 as (_ & (_ & Ha & _) & _ & Hok & _).
    pose proof (dv_progs _ _ _ _ _ _ _ _ _ I) as HPs.
    split; [|split; [exact Ha|split; [exact HRM|split;
      [apply (cur_red_flush P HC); [exact HPs|exact L3]|apply (ev_uview L x3 HPs L3)]]]].
    unfold lnxt. destruct (lstep L) as [L1 o] eqn:E. cbn [fst].
    assert (Ho : o = snd (single_pipeline_step (uview L))) by (unfold lstep, vstep in E; injection E as _ <-; reflexivity).
    rewrite Ho, Hok. reflexivity. }
  assert (Hnext : forall p', stepinfo p p' l0 l1 l2 l3 -> DInv P p' (advL l3 L) ->
            CInvP P p' (match l3 with None => M | Some _ => after_red (has_flush l3) (lnxt L) end)).
  { intros p' Hsi (m0 & m1 & m2 & m3 & m4 & dd & I'). exists (advL l3 L), m0, m1, m2, m3, m4, dd.
    pose proof (dv_lat _ _ _ _ _ _ _ _ _ I') as Hl'.
    split; [exact I'|]. split; [eapply PatC_step; eassumption|]. eapply RelC_next; eassumption. }
  destruct (pipe_step p) as [p' [f|]] eqn:Hps.
  - (* the step faults: the reference run does not end Done *)
    destruct Hstep as (Lm & Hss & Hnd & Hl2 & _).
    destruct l3 as [x3|]; cbn [advL nonempty] in *.
    + destruct (H3 x3 eq_refl) as (Hs3 & _ & HML & Hred & _). clear HRM. subst M. unfold tsim_goal.
      destruct (lagc_run_step k L _ Hd Hs3) as [-> _].
      assert (Hnr : has_flush (Some x3) = false).
      { unfold has_flush. destruct (flush_of (Some x3)) eqn:F; [|reflexivity]. exfalso.
        destruct HPat as (_ & Hfl & _). destruct (Hfl ltac:(rewrite F; discriminate)) as (E2 & _).
        rewrite E2 in Hl2. discriminate Hl2. }
      rewrite Hred, Hnr. cbn [after_red].
      destruct k as [|k']; [cbn [lagc_run]; rewrite Hnd; exact Logic.I|].
      rewrite (lagc_run_fault k' _ _ _ Hnd Hss). exact Logic.I.
    + cbn [leadb] in HRM. rewrite Hl2 in HRM. cbn [leadb] in HRM. subst M.
      unfold tsim_goal. rewrite (lagc_run_fault k _ _ _ Hd Hss). exact Logic.I.
  - destruct Hstep as (Hinv' & Hl4 & Hmu' & Hsi).
    pose proof (Hnext p' Hsi Hinv') as HinvP'.
    assert (Hx' : exitc (pst p') = None).
    { destruct Hinv' as (? & ? & ? & ? & ? & ? & I'). apply (dv_exitc _ _ _ _ _ _ _ _ _ I'). }
    assert (Hmu4 : 0 <= mu p' <= 4).
    { destruct Hinv' as (? & ? & ? & ? & ? & ? & I'). apply mu_bounds. apply (dv_shape _ _ _ _ _ _ _ _ _ I'). }
    pose proof (dv_lat _ _ _ _ _ _ _ _ _ I) as Hlat.
    destruct l3 as [x3|]; cbn [advL nonempty option_map] in *.
    + (* the slot of latch 3 retires at step t + 1 *)
      destruct (H3 x3 eq_refl) as (Hs3 & Ha3 & HML & Hred & Hev). clear HRM. subst M.
      assert (Hmu0 : mu p = 0) by (rewrite (mu_lat p _ _ _ _ _ Hlat Hst); reflexivity).
      specialize (IHk _ p' (S t) HinvP').
      unfold tsim_goal in *. destruct (lagc_run_step k L _ Hd Hs3) as [-> ->].
      rewrite (lagc_events_step k L _ Hd Hs3), Hred. rewrite Hred in Hev.
      set (M' := after_red (has_flush (Some x3)) (lnxt L)) in *.
      destruct (lagc_run k M') as [s' [|f|]] eqn:Hrun'; [|exact Logic.I|exact Logic.I].
      destruct IHk as (c & p'' & Hrun & Hsteps & Hret & Hlast). exists (S c), p''.
      cbn [pipe_run pipe_run_steps pipe_retire_from]. rewrite Hpd, Hps, Hl4, Hsteps.
      split; [exact Hrun|]. split; [reflexivity|].
      cbn [some_ret wb_slot sl_addr app woff combine]. rewrite Hmu0, Hret, Ha3.
      (* the write-back cycle of the next instruction *)
      assert (Hw : woff (t + 1 + Z.to_nat 0 + (if ev_redirect (ev_of (uview L)) then 4 else 1)) (lagc_events k M') =
                   woff (S t + 1 + Z.to_nat (mu p')) (lagc_events k M')).
      { destruct (single_done (lt M')) eqn:Hd'; [rewrite (lagc_events_done k M' Hd'); reflexivity|].
        assert (Hpd' : pipe_done p' = false).
        { destruct HinvP' as (L' & ? & ? & ? & ? & ? & ? & I' & _ & HR').
          rewrite (ddone_iff P _ _ _ _ _ _ _ _ I'), <- (RelC_lt _ _ _ _ _ _ _ HR'). exact Hd'. }
        rewrite (mu_step_some p p' _ _ _ _ _ Hlat HPat Hsi Hx' Hpd'), Hev.
        destruct (has_flush (Some x3)); f_equal; lia. }
      rewrite Hw. split; [f_equal; f_equal; lia|].
      destruct (lagc_events k M') as [|e evs'] eqn:Ee.
      * cbn [woff last] in *. lia.
      * replace (t + S c)%nat with (S t + c)%nat by lia. rewrite Hlast. cbn [woff]. set (w := (S t + 1 + Z.to_nat (mu p'))%nat).
        change (last (?a :: w :: ?l) t) with (last (w :: l) t). apply last_indep. discriminate.
    + (* nothing retires *)
      assert (Hmu1 : mu p' = mu p - 1) by (apply (mu_step_none p p' _ _ _ _ Hlat Hst (dv_exitc _ _ _ _ _ _ _ _ _ I) Hpd Hsi)).
      assert (Hlt' : (Z.to_nat (mu p') < m)%nat) by lia.
      specialize (IHm _ Hlt' p' (S t) HinvP' eq_refl). unfold tsim_goal in *.
      destruct (lagc_run (S k) M) as [s' [|f|]] eqn:HrunM; [|exact Logic.I|exact Logic.I].
      destruct IHm as (c & p'' & Hrun & Hsteps & Hret & Hlast). exists (S c), p''.
      cbn [pipe_run pipe_run_steps pipe_retire_from]. rewrite Hpd, Hps, Hl4, Hsteps.
      split; [exact Hrun|]. split; [reflexivity|]. cbn [some_ret app].
      replace (t + 1 + Z.to_nat (mu p))%nat with (S t + 1 + Z.to_nat (mu p'))%nat by lia.
      split; [exact Hret|]. replace (t + S c)%nat with (S t + c)%nat by lia. rewrite Hlast.
      assert (Hne : lagc_events (S k) M <> []).
      { cbn [lagc_run lagc_events] in *. rewrite Hd in *. destruct (lstep M) as [M1 [g|]]; [discriminate HrunM|discriminate]. }
      destruct (lagc_events (S k) M) as [|e evs']; [congruence|]. apply last_indep. discriminate.
Qed.

(** * [dwb_events] on a program without ecall *)
Lemma dwb_events_noecall n : forall d, wfL (dl d) -> prog (im (lt (dl d))) = P ->
  dwb_events_from n d = lagc_events n (dl d) /\
  Forall (fun e => ev_ecall e = false) (lagc_events n (dl d)).
Proof.
  induction n as [|k IH]; intros d WL HP; cbn [dwb_events_from lagc_events]; [split; [reflexivity|constructor]|].
  destruct (single_done (lt (dl d))) eqn:Hd; [split; [reflexivity|constructor]|].
  unfold single_done, has_instr in Hd. destruct (exitc (lt (dl d))) eqn:Hex; [discriminate Hd|].
  destruct (instr_at (prog (im (lt (dl d)))) (pc (lt (dl d)))) as [i|] eqn:Hi; [|discriminate Hd].
  assert (Hn : noecall i = true) by (apply (ne_at P HC (pc (lt (dl d)))); rewrite <- HP; exact Hi).
  destruct (wfL_lnxt (dl d) i WL Hex Hi) as [WL' HP']. unfold lnxt in *.
  assert (Hev : dwb_ev d = ev_of (uview (dl d)) /\ ev_ecall (ev_of (uview (dl d))) = false).
  { unfold dwb_ev. rewrite Hi, (noecall_not_ecall i Hn). cbn [andb]. split; [reflexivity|].
    unfold ev_of. change (prog (im (uview (dl d)))) with (prog (im (lt (dl d)))).
    change (pc (uview (dl d))) with (pc (lt (dl d))). rewrite Hi. apply (noecall_not_ecall i Hn). }
  destruct Hev as [Hev Hec]. rewrite Hev.
  unfold dwb_step, cur_red. rewrite Hi, (noecall_not_ecall i Hn). cbn [andb].
  destruct (lstep (dl d)) as [L' [f|]]; cbn [fst snd dl lt] in *; [split; [reflexivity|constructor]|].
  destruct (redirects i (uview (dl d))); cbn [after_red].
  - destruct (IH (dbub (dbub (dbub {| dl := L'; do1 := true; do2 := do1 d |})))) as [A B].
    + cbn [dbub dl]. do 3 apply wfL_bub. exact WL'.
    + cbn [dbub dl bub lt]. congruence.
    + cbn [dbub dl] in *. rewrite A. split; [reflexivity|constructor; assumption].
  - destruct (IH {| dl := L'; do1 := true; do2 := do1 d |} WL' ltac:(cbn [dl]; congruence)) as [A B].
    cbn [dl] in *. rewrite A. split; [reflexivity|constructor; assumption].
Qed.

End Run.

(** * The theorem for programs without ecall *)
Theorem flagoff_schedule_noecall_lem P s n s' :
  Forall (fun i => noecall i = true) P -> wf s -> prog (im s) = P ->
  dwb_run n s = (s', Done) ->
  exists c p,
    pipe_run c (pipe_init s false) = (p, PDone) /\
    pipe_run_steps c (pipe_init s false) = c /\
    pipe_retire c (pipe_init s false) = combine (dwb_trace n s) (schedule_off (dwb_events n s)) /\
    c = total_cycles (schedule_off (dwb_events n s)) /\
    cycles (pst p) = cycles s + Z.of_nat c.
Proof.
  intros HC W HP Hrun.
  assert (WL : wfL (lag_init s)) by (split; [exact W|split; apply (wf_r _ W)]).
  unfold dwb_run, dwb_trace, dwb_events in *.
  destruct (dwb_run_noecall P HC n (dwb_init s) WL HP) as [Er Et]. rewrite Er in Hrun. rewrite Et.
  destruct (dwb_events_noecall P HC n (dwb_init s) WL HP) as [Ee Hne]. rewrite Ee.
  change (dl (dwb_init s)) with (lag_init s) in *.
  rewrite (schedule_off_woff _ Hne). unfold total_cycles.
  assert (Hcyc : forall c p, pipe_run c (pipe_init s false) = (p, PDone) ->
            pipe_run_steps c (pipe_init s false) = c -> cycles (pst p) = cycles s + Z.of_nat c).
  { intros c p Hr Hs. destruct (wf_flat s W) as [mm Hm].
    pose proof (pipe_run_cycles_flat c (pipe_init s false) mm Hm (wf_noic s W)) as Hc.
    rewrite Hr, Hs in Hc. exact Hc. }
  destruct (exitc s) as [c0|] eqn:Hex.
  - assert (Hd : single_done (lt (lag_init s)) = true) by (unfold single_done; cbn [lag_init lt]; rewrite Hex; reflexivity).
    destruct (lagc_run_done n _ Hd) as [_ ->]. rewrite (lagc_events_done n _ Hd).
    assert (Hpd : pipe_done (pipe_init s false) = true) by (unfold pipe_done; cbn [pipe_init pst]; rewrite Hex; reflexivity).
    exists 0%nat, (pipe_init s false). unfold pipe_retire. cbn [pipe_run pipe_run_steps pipe_retire_from]. rewrite Hpd.
    repeat split. cbn [pipe_init pst]. lia.
  - assert (HI : CInvP P (pipe_init s false) (lag_init s)).
    { destruct (dinv_init P s W HP Hex) as (l0 & l1 & l2 & l3 & l4 & dead & I).
      exists (lag_init s), l0, l1, l2, l3, l4, dead. split; [exact I|].
      pose proof (dv_lat _ _ _ _ _ _ _ _ _ I) as Hl. cbn [pipe_init lat] in Hl. injection Hl as <- <- <- <- <-.
      split.
      - split; [reflexivity|]. cbv zeta. cbn [nonempty flush_of].
        split; [intros H; exfalso; apply H; reflexivity|]. intros _. destruct (has_instr _ _); reflexivity.
      - left. reflexivity. }
    pose proof (tsim P HC n _ _ 0%nat HI) as H. unfold tsim_goal in H. rewrite Hrun in H.
    assert (Hmu : mu (pipe_init s false) = 4) by reflexivity. rewrite Hmu in H.
    change (0 + 1 + Z.to_nat 4)%nat with 5%nat in H.
    destruct H as (c & p & Hr & Hs & Hret & Hlast). exists c, p.
    split; [exact Hr|]. split; [exact Hs|]. split; [exact Hret|]. split; [exact Hlast|].
    apply Hcyc; assumption.
Qed.
Print Assumptions flagoff_schedule_noecall_lem.
