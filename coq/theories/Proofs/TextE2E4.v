(* TextE2E4.v — property C05 from SOURCE TEXT: li, la, loads by name, the help-page example. *)
From Coq Require Import String.
From Coq Require Import ZArith List Bool Lia ZifyBool.
From ArchSim Require Import Model.Base Model.Mem Model.Cache Model.Fmt Model.RV Model.Single Model.Toy Model.Asm.
From ArchSim Require Model.ToyLex.
From ArchSim Require Import Model.Lex Model.LexText Proofs.C01Step Proofs.C05Proofs Proofs.LexProofs1 Proofs.LexProofs2
  Proofs.LexErr3 Proofs.LexText1 Proofs.TextE2E1 Proofs.TextE2E2 Proofs.TextE2E3.
Import ListNotations.
Open Scope Z_scope.

(* the initial state: registers well-formed (32-bit values, x0 = 0), pc 0, not exited, no instruction cache *)
Definition start_ok (s : st) : Prop := wf_regs (regs s) /\ pc s = 0 /\ exitc s = None /\ icc (im s) = None.
Definition one_line (text : str) : Prop := forallb okc text = true.      (* no separator of str.splitlines *)

(** (1) li *)
Theorem li_text_lem s ind mn ws1 sp ws2 ws3 lit trail cmt r c n :
  all_space ind = true -> all_space trail = true -> is_comment cmt = true ->
  is_li mn -> blanks ws1 = true -> ws1 <> [] -> blanks ws2 = true -> blanks ws3 = true ->
  0 < r < 32 -> reg_sp r sp -> lit_ok lit -> py_int0 lit = Some c ->
  let text := ind ++ (mn ++ ws1 ++ sp ++ ws2 ++ 44 :: ws3 ++ lit) ++ trail ++ cmt in
  one_line text -> start_ok s -> (2 <= n)%nat ->
  exists s1 img, rv_load_program_text s text = (s1, None, Some img) /\
    snd (single_run n s1) = Done /\
    rget (fst (single_run n s1)) r = c mod 2 ^ 32 /\
    (forall k, k <> r -> rget (fst (single_run n s1)) k = rget s k) /\
    List.length (i_instrs img) = (if (-2048 <=? c) && (c <=? 2047) then 1%nat else 2%nat).
Proof.
  intros Hi Ht Hc Hmn H1 N1 H2 H3 Hr Hsp Hlit Hval text Hone (Hw & Hpc & Hex & Hic) Hn.
  destruct (lex_line_li ind mn ws1 sp ws2 ws3 lit trail cmt r Hi Ht Hc Hmn H1 N1 H2 H3 ltac:(lia) Hsp Hlit) as (rt & Hnum & Hlex).
  assert (Hne : text <> []).
  { unfold text. destruct Hmn as [_ Hml]. destruct mn; [discriminate|]. intros E. apply app_eq_nil in E as [_ E]. discriminate. }
  exact (li_run s text text rt lit r c n (rv_lines_one text Hone Hne) Hlex Hnum Hr Hval Hw Hpc Hex Hic Hn).
Qed.

(** (2) a data segment and one la / load-by-name line *)
Lemma rv_labels_one ln b addr last : rv_labels [(ln, EBody b)] [] addr [] last = POk [].
Proof. reflexivity. Qed.

Lemma assemble_data_line a b ln D i m m' vars ins :
  Forall plain_rline D -> ~ In b (map fst D) ->
  write_data D m 16384 [] = POk (m', vars) ->
  assemble_line vars [] 0 ln (BIns i) = POk ins -> 4 * Z.of_nat (List.length ins) <= imem_limit ->
  assemble ((a, RDirective 1) :: D ++ [(b, RDirective 0); (ln, RInstr None (BIns i))]) m =
  POk (m', {| i_instrs := ins; i_labels := []; i_vars := vars |}).
Proof.
  intros HD Hb Hw Ha Hl. unfold assemble.
  rewrite (segment_rv_data_text a b D [(ln, RInstr None (BIns i))] HD); [|repeat constructor|exact Hb].
  cbn [pbind split_inline]. rewrite Hw. cbn [pbind expand_all]. unfold assemble_line in Ha.
  destruct (expand_one vars ln (BIns i)) as [bs|]; [|discriminate]. cbn [pbind]. rewrite app_nil_r, rv_labels_bodies. cbn [pbind].
  rewrite Ha. cbn [pbind]. destruct (4 * Z.of_nat (List.length ins) >? imem_limit) eqn:E; [lia|reflexivity].
Qed.

Definition loaded2 (s : st) (m' : memsys) (ins : list instr) : st :=
  with_im (with_ms (reset_state s) m') {| prog := ins; icc := icc (im (reset_state s)) |}.
Lemma loaded2_facts s m' ins : regs (loaded2 s m' ins) = regs s /\ pc (loaded2 s m' ins) = pc s /\
  exitc (loaded2 s m' ins) = exitc s /\ prog (im (loaded2 s m' ins)) = ins /\ ms (loaded2 s m' ins) = m' /\
  (icc (im s) = None -> icc (im (loaded2 s m' ins)) = None).
Proof. destruct s as [? ? ? [p c] ? ? ? ? ? ? ? ?]; cbn. repeat split. intros ->. reflexivity. Qed.

Section ByName.
  Variables (s : st) (text : str) (a b ln : Z) (D : list (Z * rline)) (i : itok).
  Variables (m0 m' : zmap) (vars : vartab) (nm : Z) (idx : option str) (rt : regtok) (r target : Z).
  Hypothesis Hlex : lex_text (rv_lines text) = LTOk ((a, RDirective 1) :: D ++ [(b, RDirective 0); (ln, RInstr None (BIns i))]).
  Hypothesis HD : Forall plain_rline D.
  Hypothesis Hb : ~ In b (map fst D).
  Hypothesis Hflat : ms s = MFlat m0.
  Hypothesis Hdata : write_data D (MFlat []) 16384 [] = POk (MFlat m', vars).
  Hypothesis Hvar : k_var i = Some (nm, idx).
  Hypothesis Hreg : k_reg1 i = Some rt.
  Hypothesis Hnum : reg_num rt = Some r.
  Hypothesis Hr : 0 < r < 32.
  Hypothesis Haddr : var_address vars (nm, idx) ln = POk target.
  Hypothesis Hstart : start_ok s.

  Lemma load_by_name_text ins : assemble_line vars [] 0 ln (BIns i) = POk ins -> (List.length ins <= 3)%nat ->
    rv_load_program_text s text = (loaded2 s (MFlat m') ins, None, Some {| i_instrs := ins; i_labels := []; i_vars := vars |}).
  Proof.
    intros Ha Hl. unfold rv_load_program_text, rv_load_text. rewrite Hlex. unfold rv_load. fold (reset_state s).
    assert (E : ms (reset_state s) = MFlat []) by (unfold reset_state; destruct s; cbn in *; subst; reflexivity).
    rewrite E. rewrite (assemble_data_line a b ln D i (MFlat []) (MFlat m') vars ins HD Hb Hdata Ha); [reflexivity|].
    unfold imem_limit. lia.
  Qed.

  (* la rd, name[i] *)
  Theorem la_text n : k_mn i = MN_LA -> (2 <= n)%nat ->
    exists s1 img, rv_load_program_text s text = (s1, None, Some img) /\ i_vars img = vars /\
      snd (single_run n s1) = Done /\
      rget (fst (single_run n s1)) r = target mod 2 ^ 32 /\
      (forall k, k <> r -> rget (fst (single_run n s1)) k = rget s k) /\
      ms (fst (single_run n s1)) = MFlat m'.
  Proof.
    intros Hmn Hn. destruct Hstart as (Hw & Hpc & Hex & Hic).
    set (t0 := loaded2 s (MFlat m') []).
    destruct (la_correct_lem vars [] 0 ln i (nm, idx) rt target r t0 Hmn Hvar Hreg Haddr Hnum Hr) as (ins & Ha & Hins & Hexec).
    exists (loaded2 s (MFlat m') ins), {| i_instrs := ins; i_labels := []; i_vars := vars |}.
    split; [apply load_by_name_text; [exact Ha|subst ins; cbn; lia]|]. split; [reflexivity|].
    destruct (loaded2_facts s (MFlat m') ins) as (Lr & Lpc & Lex & Lp & Lm & Lic). specialize (Lic Hic).
    assert (HA0 : A (loaded2 s (MFlat m') ins) t0) by (destruct s as [? ? ? [p cc] ? ? ? ? ? ? ? ?]; split; reflexivity).
    subst ins. set (i1 := mk (ILui r (fst (hi_lo target)))) in *. set (i2 := mk (II ADDI r r (snd (hi_lo target)))) in *.
    destruct n as [|[|n]]; try lia.
    destruct (pure_step i1 _ t0 (Datatypes.S n) HA0) as (s' & R & HA' & Hnone & Hex' & Him & Hpc');
      [rewrite Lex; exact Hex|exact Lic|rewrite Lp, Lpc, Hpc; reflexivity|exact Logic.I|].
    rewrite R.
    destruct (pure_step i2 s' (fst (behavior i1 t0)) n HA') as (s'' & R2 & HA'' & Hnone2 & Hex'' & Him2 & Hpc'');
      [exact Hex'|rewrite Him; exact Lic|rewrite Him, Lp, Hpc', Lpc, Hpc; reflexivity|exact Logic.I|].
    rewrite R2. rewrite run_end; [|exact Hex''|rewrite Him2, Him, Lp, Hpc'', Hpc', Lpc, Hpc; reflexivity].
    cbn [fst snd]. split; [reflexivity|]. cbn [exec_list] in Hexec.
    destruct (behavior i1 t0) as [b1 [e1|]] eqn:Eb1; [cbn in Hnone; discriminate|]. cbn [fst] in *.
    destruct (behavior i2 b1) as [b2 [e2|]] eqn:Eb2; [cbn in Hnone2; discriminate|]. cbn [fst] in *.
    inversion Hexec; subst b2.
    destruct (rset_meaning_lem t0 r (U32 target)) as (R1 & R2' & R3 & _).
    split; [rewrite (A_rget _ _ r HA''); apply R1, Hr|]. split.
    - intros k Hk. rewrite (A_rget _ _ k HA''), (R2' k Hk). unfold rget, t0. destruct (loaded2_facts s (MFlat m') []) as (E & _). rewrite E. reflexivity.
    - destruct HA'' as [_ Hms]. rewrite Hms, R3. unfold t0. destruct (loaded2_facts s (MFlat m') []) as (_ & _ & _ & _ & E & _). exact E.
  Qed.

  (* l{b,h,w,bu,hu} rd, name[i] *)
  Theorem load_text n w : 27 <= k_mn i <= 31 -> (3 <= n)%nat ->
    mem_read rv_memcfg m' (load_bits (lop_of_mn (k_mn i))) (U32 target) = Ok w ->
    exists s1 img, rv_load_program_text s text = (s1, None, Some img) /\ i_vars img = vars /\
      snd (single_run n s1) = Done /\
      rget (fst (single_run n s1)) r = load_ext (lop_of_mn (k_mn i)) w /\
      (forall k, k <> r -> rget (fst (single_run n s1)) k = rget s k).
  Proof.
    intros Hmn Hn Hread. destruct Hstart as (Hw & Hpc & Hex & Hic).
    set (t0 := loaded2 s (MFlat m') []).
    destruct (load_by_name_correct_lem vars [] 0 ln i (nm, idx) rt target r t0 Hmn Hvar Hreg Haddr Hnum Hr)
      as (ins & Ha & Hins & Hexec & _).
    destruct (la_correct_lem vars [] 0 ln {| k_mn := MN_LA; k_rd := None; k_rs1 := None; k_rs2 := None; k_reg1 := Some rt;
        k_reg2 := None; k_rs := None; k_imm := None; k_csr := None; k_uimm := None; k_offset := None; k_label := None;
        k_var := Some (nm, idx) |} (nm, idx) rt target r t0 eq_refl eq_refl eq_refl Haddr Hnum Hr) as (ins2 & _ & Hins2 & Hexec2).
    exists (loaded2 s (MFlat m') ins), {| i_instrs := ins; i_labels := []; i_vars := vars |}.
    split; [apply load_by_name_text; [exact Ha|subst ins; cbn; lia]|]. split; [reflexivity|].
    destruct (loaded2_facts s (MFlat m') ins) as (Lr & Lpc & Lex & Lp & Lm & Lic). specialize (Lic Hic).
    assert (HA0 : A (loaded2 s (MFlat m') ins) t0) by (destruct s as [? ? ? [p cc] ? ? ? ? ? ? ? ?]; split; reflexivity).
    subst ins ins2. set (i1 := mk (ILui r (fst (hi_lo target)))) in *. set (i2 := mk (II ADDI r r (snd (hi_lo target)))) in *.
    destruct n as [|[|[|n]]]; try lia.
    destruct (pure_step i1 _ t0 (Datatypes.S (Datatypes.S n)) HA0) as (s' & R & HA' & Hnone & Hex' & Him & Hpc');
      [rewrite Lex; exact Hex|exact Lic|rewrite Lp, Lpc, Hpc; reflexivity|exact Logic.I|].
    rewrite R.
    destruct (pure_step i2 s' (fst (behavior i1 t0)) (Datatypes.S n) HA') as (s'' & R2 & HA'' & Hnone2 & Hex'' & Him2 & Hpc'');
      [exact Hex'|rewrite Him; exact Lic|rewrite Him, Lp, Hpc', Lpc, Hpc; reflexivity|exact Logic.I|].
    rewrite R2. cbn [exec_list] in Hexec2.
    destruct (behavior i1 t0) as [b1 [e1|]] eqn:Eb1; [cbn in Hnone; discriminate|]. cbn [fst] in *.
    destruct (behavior i2 b1) as [b2 [e2|]] eqn:Eb2; [cbn in Hnone2; discriminate|]. cbn [fst] in *.
    inversion Hexec2; subst b2. clear Hexec2.
    destruct (rset_meaning_lem t0 r (U32 target)) as (R1 & R2' & R3 & _). specialize (R1 Hr).
    assert (Tm : ms (rset t0 r (U32 target)) = MFlat m').
    { rewrite R3. unfold t0. destruct (loaded2_facts s (MFlat m') []) as (_ & _ & _ & _ & E & _). exact E. }
    assert (P1 : icc (im s'') = None) by (rewrite Him2, Him; exact Lic).
    assert (P2 : instr_at (prog (im s'')) (pc s'') = Some (ILoad (lop_of_mn (k_mn i)) r r 0))
      by (rewrite Him2, Him, Lp, Hpc'', Hpc', Lpc, Hpc; reflexivity).
    assert (P3 : in32 (rget (rset t0 r (U32 target)) r))
      by (rewrite R1; unfold in32, U32, U; change (2 ^ 32) with 4294967296; apply Z.mod_pos_bound; lia).
    assert (P4 : mem_read rv_memcfg m' (load_bits (lop_of_mn (k_mn i))) (rget (rset t0 r (U32 target)) r + 0) = Ok w)
      by (rewrite R1, Z.add_0_r; exact Hread).
    destruct (load_step (lop_of_mn (k_mn i)) r r 0 s'' (rset t0 r (U32 target)) m' n HA'' Tm Hex'' P1 P2 P3 w P4)
      as (s3 & R3' & HA3 & Hex3 & Him3 & Hpc3).
    rewrite R3'. rewrite run_end; [|exact Hex3|rewrite Him3, Him2, Him, Lp, Hpc3, Hpc'', Hpc', Lpc, Hpc; reflexivity].
    cbn [fst snd]. split; [reflexivity|].
    destruct (rset_meaning_lem (rset t0 r (U32 target)) r (load_ext (lop_of_mn (k_mn i)) w)) as (Q1 & Q2 & _).
    split; [rewrite (A_rget _ _ r HA3); apply Q1, Hr|].
    intros k Hk. rewrite (A_rget _ _ k HA3), (Q2 k Hk), (R2' k Hk). unfold rget, t0.
    destruct (loaded2_facts s (MFlat m') []) as (E & _). rewrite E. reflexivity.
  Qed.
End ByName.

(** * closed examples *)
Definition S (x : string) : str := codes x.
Definition nl : str := [10].
Definition text_of (ls : list string) : str := concat (map (fun l => codes l ++ nl) ls).
Definition st0 : st := init_st [] (MFlat []) None.
Definition st1 : st := init_st [IEcall] (MFlat [(16384, 255)]) None.     (* an earlier program and its data *)

Lemma start_st0 : start_ok st0.
Proof. repeat split; try reflexivity; try discriminate. Qed.
Lemma start_st1 : start_ok st1.
Proof. repeat split; try reflexivity; try discriminate. Qed.

(* (3) the data-segment example of the help page (RiscvHelp.vue, lines 266-281), as text *)
Definition help_text : str := text_of [
  ".data";
  "    empty_array: .zero 64 # reserves space for 64 words (256 bytes)";
  "    # The following two declarations of 'my_var1' are equivalent,";
  "    # since zero padding is used to ensure word alignment of new variables/arrays.";
  "    my_var1: .byte -128";
  "    # my_var1: .byte -128, 0, 0, 0";
  "    my_var2: .half 0x1234, 0b1010, 999";
  "    my_var3: .word 0x12345678, 0b111";
  "    text1:   .string ""Hello, World!""  # ASCII byte array";
  ".text";
  "    la x1, my_var1     # load address of my_var1 into x1";
  "    lh x2, my_var2     # load halfword from my_var2 into x2";
  "    lh x3, my_var2[0]  # same effect as above";
  "    lh x4, my_var2[2]  # x4 = 999";
  "    lw x5, my_var3[1]  # x5 = 0b111";
  "    lb x6, text1[12]   # x6 = '!'" ]%string.

Example ex_help :
  match rv_load_program_text st1 help_text with
  | (s1, None, Some img) =>
      let r := single_run 100 s1 in
      snd r = Done /\
      map (rget (fst r)) [1; 2; 3; 4; 5; 6] = [16384 + 256; 4660; 4660; 999; 7; 33] /\
      i_vars img = [(1, (16384, 4)); (2, (16640, 1)); (3, (16644, 2)); (4, (16652, 4)); (5, (16660, 1))] /\
      List.length (i_instrs img) = 17%nat
  | _ => False
  end.
Proof. vm_compute. repeat split; reflexivity. Qed.

(* (1) an instance of li_text_lem: "  LI  t0 ,<tab>-0x12345  # c" *)
Example ex_li_instance : exists s1 img,
  rv_load_program_text st1 (S "  " ++ (S "LI" ++ S "  " ++ S "t0" ++ S " " ++ 44 :: [9] ++ S "-0x12345") ++ S " " ++ S "# c") = (s1, None, Some img) /\
  snd (single_run 5 s1) = Done /\
  rget (fst (single_run 5 s1)) 5 = (-74565) mod 2 ^ 32 /\
  (forall k, k <> 5 -> rget (fst (single_run 5 s1)) k = rget st1 k) /\
  List.length (i_instrs img) = 2%nat.
Proof.
  apply (li_text_lem st1 (S "  ") (S "LI") (S "  ") (S "t0") (S " ") [9] (S "-0x12345") (S " ") (S "# c") 5 (-74565) 5);
    try reflexivity; try discriminate; try lia.
  - split; reflexivity.
  - left. vm_compute. tauto.
  - exists [45], (S "0x12345"). split; [reflexivity|]. split; [reflexivity|]. left. exists (S "12345"). repeat split; discriminate.
  - exact start_st1.
Qed.
Example ex_li_values :
  map (fun t => rget (fst (single_run 5 (fst (fst (rv_load_program_text st0 (S t))))) ) 7)
    [ "li x7, 2047"; "li t2, -2049"; "LI x7,0xFFFFFFFF"; "li x7, -0b1"; "li x7, 4294967301"; "Li t2 , 0x12345" ]%string =
  [2047; 4294965247; 4294967295; 4294967295; 5; 74565].
Proof. vm_compute. reflexivity. Qed.

(* (2) instances of la_text and load_text: the help page's data segment (declarations of all five kinds) and one line *)
Definition data_lines : list string := [
  ".data"; "empty_array: .zero 64"; "my_var1: .byte -128"; "my_var2: .half 0x1234, 0b1010, 999";
  "my_var3: .word 0x12345678, 0b111"; "text1: .string ""Hello, World!"""; ".text" ]%string.
Definition by_name_tok (mn : Z) (reg : str) (name : Z) (idx : option str) : itok :=
  {| k_mn := mn; k_rd := None; k_rs1 := None; k_rs2 := None; k_reg1 := Some (RX reg); k_reg2 := None; k_rs := None;
     k_imm := None; k_csr := None; k_uimm := None; k_offset := None; k_label := None; k_var := Some (name, idx) |}.
Definition data_toks : list (Z * rline) :=
  [ (2, RZeroDecl 1 (S "64")); (3, RVarDecl 2 0 [S "-128"]); (4, RVarDecl 3 1 [S "0x1234"; S "0b1010"; S "999"]);
    (5, RVarDecl 4 2 [S "0x12345678"; S "0b111"]); (6, RStrDecl 5 (S """Hello, World!""")) ].
Definition data_mem : zmap :=
  match write_data data_toks (MFlat []) 16384 [] with POk (MFlat m, _) => m | _ => [] end.
Definition data_vars : vartab := [(1, (16384, 4)); (2, (16640, 1)); (3, (16644, 2)); (4, (16652, 4)); (5, (16660, 1))].

Example ex_load_instance : exists s1 img,
  rv_load_program_text st1 (text_of (data_lines ++ ["lw x5, my_var3[1]"%string])) = (s1, None, Some img) /\
  i_vars img = data_vars /\ snd (single_run 3 s1) = Done /\
  rget (fst (single_run 3 s1)) 5 = 7 /\ (forall k, k <> 5 -> rget (fst (single_run 3 s1)) k = rget st1 k).
Proof.
  apply (load_text st1 _ 1 7 8 data_toks (by_name_tok 29 (S "5") 4 (Some (S "1"))) [(16384, 255)] data_mem data_vars
           4 (Some (S "1")) (RX (S "5")) 5 16656); try reflexivity; try lia.
  - repeat constructor.
  - vm_compute. intuition discriminate.
  - exact start_st1.
  - vm_compute. split; discriminate.
Qed.
Example ex_la_instance : exists s1 img,
  rv_load_program_text st1 (text_of (data_lines ++ ["LA a0, text1[12]"%string])) = (s1, None, Some img) /\
  i_vars img = data_vars /\ snd (single_run 2 s1) = Done /\
  rget (fst (single_run 2 s1)) 10 = 16672 mod 2 ^ 32 /\ (forall k, k <> 10 -> rget (fst (single_run 2 s1)) k = rget st1 k) /\
  ms (fst (single_run 2 s1)) = MFlat data_mem.
Proof.
  apply (la_text st1 _ 1 7 8 data_toks
           {| k_mn := 55; k_rd := None; k_rs1 := None; k_rs2 := None; k_reg1 := Some (RAbi (S "a0")); k_reg2 := None;
              k_rs := None; k_imm := None; k_csr := None; k_uimm := None; k_offset := None; k_label := None;
              k_var := Some (5, Some (S "12")) |} [(16384, 255)] data_mem data_vars
           5 (Some (S "12")) (RAbi (S "a0")) 10 16672); try reflexivity; try lia.
  - repeat constructor.
  - vm_compute. intuition discriminate.
  - exact start_st1.
Qed.
