(* Proofs/AcctExec.v — the effect of one instruction on the DATA MEMORY SYSTEM (directory,
   replacement state, lower memory, counters), as a function [bms i u] of the instruction, the
   registers and the memory system: the single-cycle step, the pipeline's MEM stage and the
   pipeline's EX stage (ecall) all realise it. *)
From Coq Require Import Lia ZifyBool.
From ArchSim Require Import Spec.RefCache.
From ArchSim Require Import Model.Base Model.Mem Model.Cache Model.Fmt Model.RV Model.Single
  Model.RVSplit Model.Pipe
  Proofs.WordLemmas Proofs.C01Step Proofs.SplitExec Proofs.C02Split Proofs.C16Proofs
  Proofs.PipeLaws Proofs.PipeShape Proofs.PipeInv Proofs.PipeInvBase
  Proofs.CacheArith Proofs.CacheInv Proofs.C03Proofs
  Proofs.LiftFlat Proofs.LiftAccess Proofs.LiftSim Proofs.LiftEcall Proofs.LiftSingle Proofs.LiftPipe
  Proofs.LiftPipeRun Proofs.LiftRefineBase Proofs.AcctRead.
Open Scope Z_scope.
Local Arguments Z.mul : simpl never.
Local Arguments Z.add : simpl never.
Local Arguments Z.sub : simpl never.
Local Arguments Z.pow : simpl never.
Local Arguments Z.modulo : simpl never.
Local Arguments Z.of_nat : simpl never.
Local Arguments Z.to_nat : simpl never.

(* the data memory system after [behavior i] *)
Definition bms (i : instr) (u : st) : memsys := ms (fst (behavior i u)).

(** * Congruence: only the registers and the memory system matter *)
Lemma read_cstring_cong_ms f : forall s s' a acc, ms s = ms s' ->
  fst (read_cstring f s a acc) = fst (read_cstring f s' a acc) /\
  ms (snd (read_cstring f s a acc)) = ms (snd (read_cstring f s' a acc)).
Proof.
  induction f as [|f IH]; intros s s' a acc Hm; cbn [read_cstring]; [split; [reflexivity | exact Hm]|].
  destruct (st_read s 8 a false) as [r s1] eqn:Hr.
  destruct (st_read_cong _ s' _ _ _ _ _ Hm Hr) as (s1' & -> & Hm1).
  destruct r as [b|e]; [|split; [reflexivity | symmetry; exact Hm1]].
  destruct (b =? 0); [split; [reflexivity | symmetry; exact Hm1]|]. apply IH. symmetry. exact Hm1.
Qed.

Lemma cstring_fuel_cong s s' : ms s = ms s' -> cstring_fuel s = cstring_fuel s'.
Proof. intros H. unfold cstring_fuel. rewrite H. reflexivity. Qed.

Lemma process_ecall_cong_ms s s' : regs s = regs s' -> ms s = ms s' ->
  fst (process_ecall s) = fst (process_ecall s') /\ ms (snd (process_ecall s)) = ms (snd (process_ecall s')).
Proof.
  intros Hr Hm. unfold process_ecall, rget. rewrite <- Hr, <- (cstring_fuel_cong s s' Hm).
  repeat match goal with |- context [if ?c then _ else _] => destruct c end;
    try (split; [reflexivity | exact Hm]).
  destruct (read_cstring_cong_ms (cstring_fuel s) s s' (mget (regs s) 10) [] Hm) as [E1 E2].
  destruct (read_cstring (cstring_fuel s) s (mget (regs s) 10) []) as [[t|e] s1];
    destruct (read_cstring (cstring_fuel s) s' (mget (regs s) 10) []) as [[t'|e'] s1'];
    cbn [fst snd] in *; try discriminate; injection E1 as <-; (split; [reflexivity | exact E2]).
Qed.

Lemma bms_cong i s s' : regs s = regs s' -> ms s = ms s' -> bms i s = bms i s'.
Proof.
  intros Hr Hm. unfold bms.
  destruct i; cbn [behavior]; unfold rget; rewrite <- ?Hr;
    try (cbn [fst]; rewrite ?rset_ms; cbn [with_pc with_pcount with_bcount ms]; rewrite ?rset_ms; exact Hm).
  - (* load *)
    destruct (st_read s (load_bits o) (mget (regs s) rs1 + imm) true) as [r s1] eqn:E.
    destruct (st_read_cong _ s' _ _ _ _ _ Hm E) as (s1' & -> & Hm1).
    destruct r; cbn [fst]; rewrite ?rset_ms; symmetry; exact Hm1.
  - (* ecall *)
    destruct (process_ecall_cong_ms s s' Hr Hm) as [E1 E2].
    destruct (process_ecall s) as [[[t|c]|e] s1], (process_ecall s') as [[[t'|c']|e'] s1'];
      cbn [fst snd] in *; try discriminate; exact E2.
  - (* store *)
    destruct (st_write s (store_bits o) _ _ false) as [e s1] eqn:E.
    destruct (st_write_cong_ms _ s' _ _ _ _ _ _ Hm E) as (s1' & -> & Hm1).
    destruct e; cbn [fst]; symmetry; exact Hm1.
  - (* branch *)
    destruct (b_cond o (mget (regs s) rs1) (mget (regs s) rs2)); cbn [fst with_bcount with_pc ms]; exact Hm.
Qed.

(** * The pipeline's EX stage: a firing ecall *)
Lemma ecall_bms u r u' : process_ecall u = (r, u') -> ms u' = bms IEcall u.
Proof. intros H. unfold bms. cbn [behavior]. rewrite H. destruct r as [[t|c]|e]; reflexivity. Qed.

(** * The single-cycle step *)
Lemma single_step_ms tc t i : sim tc t -> instr_at (prog (im t)) (pc t) = Some i ->
  ms (fst (single_pipeline_step tc)) = bms i tc.
Proof.
  intros S Hi. unfold single_pipeline_step. rewrite single_stage_eq.
  set (s0 := with_cycles tc (cycles tc + 1)).
  assert (Hh : has_instr (im s0) (pc s0) = true).
  { unfold has_instr. change (im s0) with (im tc). change (pc s0) with (pc tc).
    rewrite (sm_prog _ _ S), (sm_pc _ _ S), Hi. reflexivity. }
  rewrite Hh. cbv zeta. set (s1 := with_icount s0 (icount s0 + 1)).
  assert (S1 : sim s1 (with_icount t (icount s0 + 1))).
  { apply sim_with_icount; [apply sim_cycles_l; exact S | reflexivity]. }
  destruct (fetch s1 (pc s1)) as [oi s1f] eqn:Hf.
  destruct (sim_fetch_l s1 _ _ oi s1f S1 Hh Hf) as (S1f & Eoi & Hms & Hrg & _).
  change (prog (im s1)) with (prog (im tc)) in Eoi. change (pc s0) with (pc tc) in Eoi.
  rewrite (sm_prog _ _ S), (sm_pc _ _ S), Hi in Eoi. subst oi.
  assert (Hb : bms i tc = bms i s1f) by (apply bms_cong; [rewrite Hrg | rewrite Hms]; reflexivity).
  rewrite Hb. unfold bms. destruct (behavior i s1f) as [s2 [e|]] eqn:Hbeh; [reflexivity|]. cbn [fst].
  assert (Hre : ms (fst (reread i s2 (load_addr_pre i s1f))) = ms s2).
  { unfold reread. destruct i; try reflexivity. cbn [behavior] in Hbeh.
    destruct (st_read s1f (load_bits o) (rget s1f rs1 + imm) true) as [[v|e] s'] eqn:Hr; [|discriminate].
    injection Hbeh as <-. rewrite rset_ms.
    assert (Hok : ms_ok (ms s1f)) by (apply (sim_cache_ok _ _ S1f)).
    pose proof (st_reread s1f (load_bits o) _ (load_addr_pre (ILoad o rd rs1 imm) s1f) true v s'
                  (rset s' rd (load_ext o v)) Hok Hr) as E.
    assert (Ha : U32 (load_addr_pre (ILoad o rd rs1 imm) s1f) = U32 (rget s1f rs1 + imm)).
    { cbn [load_addr_pre]. rewrite !U32_eq. rewrite Z.add_mod_idemp_l by lia. reflexivity. }
    specialize (E Ha (rset_ms _ _ _)).
    destruct (st_read (rset s' rd (load_ext o v)) (load_bits o) _ false) as [[v2|e2] s3]; exact E. }
  destruct (reread i s2 (load_addr_pre i s1f)) as [s3 [e|]]; cbn [fst] in *; exact Hre.
Qed.

(** * The pipeline's MEM stage on a slot that satisfies [Eok t] *)
Lemma U_idem o z : U (store_bits o) (U (store_bits o) z) = U (store_bits o) z.
Proof. unfold U. destruct o; cbn [store_bits]; apply Z.mod_mod; lia. Qed.

Lemma bms_noaccess i u : access_of i u = None -> is_ecall i = false -> bms i u = ms u.
Proof.
  intros Ha He. unfold bms. destruct i; try discriminate; cbn [behavior fst];
    rewrite ?rset_ms; cbn [with_pc with_pcount with_bcount ms]; rewrite ?rset_ms; try reflexivity.
  destruct (b_cond o (rget u rs1) (rget u rs2)); reflexivity.
Qed.

Lemma mem_bms t tc x u : Eok t x -> sl_stall x = false -> is_ecall (sl_instr x) = false ->
  regs tc = regs t -> ms u = ms tc ->
  ms (snd (memory_access (sl_instr x) (sl_result x) (sl_rd2 x) u)) = bms (sl_instr x) tc.
Proof.
  intros He Hst Hec Hr Hm. unfold Eok in He. rewrite Hst in He. destruct He as [te He].
  destruct (ex_out_fields _ _ _ _ _ _ He) as (cmp & Ha & _ & Hd).
  change (sl_instr (dsl t (sl_instr x))) with (sl_instr x) in Ha.
  revert Ha Hd. generalize (sl_result x) (sl_rd2 x). intros res rd2.
  destruct (sl_instr x) eqn:Ei; try discriminate Hec;
    try (intros _ _; rewrite bms_noaccess by reflexivity; cbn [memory_access snd]; exact Hm).
  - (* load *)
    cbn [dsl id_slot slot_if ex_in1 ex_in2 sl_instr sl_rd1 sl_rd2 sl_imm signals sig c_src1 c_src2
         rf_rd1 rf_rd2 rf_imm access_rf fst snd alu_compute].
    intros Ha _. injection Ha as _ <-. cbn [memory_access]. unfold bms. cbn [behavior].
    assert (Ea : rget (pre t) rs1 = rget tc rs1) by (unfold rget; rewrite Hr; reflexivity).
    rewrite Ea.
    rewrite (st_read_mod u (load_bits o) (U32 (rget tc rs1) + imm) (rget tc rs1 + imm) true)
      by (rewrite !U32_eq; rewrite Z.add_mod_idemp_l by lia; reflexivity).
    destruct (st_read u (load_bits o) (rget tc rs1 + imm) true) as [r u1] eqn:E.
    destruct (st_read_cong _ tc _ _ _ _ _ Hm E) as (s1 & -> & Hm1).
    destruct r; cbn [fst snd]; rewrite ?rset_ms; symmetry; exact Hm1.
  - (* store *)
    cbn [dsl id_slot slot_if ex_in1 ex_in2 sl_instr sl_rd1 sl_rd2 sl_imm signals sig c_src1 c_src2
         rf_rd1 rf_rd2 rf_imm access_rf fst snd alu_compute].
    intros Ha Hd. injection Ha as _ <-. subst rd2. cbn [memory_access]. unfold bms. cbn [behavior].
    assert (Ea : rget (pre t) rs1 = rget tc rs1) by (unfold rget; rewrite Hr; reflexivity).
    assert (Eb : rget (pre t) rs2 = rget tc rs2) by (unfold rget; rewrite Hr; reflexivity).
    rewrite Ea, Eb, U_idem.
    rewrite (st_write_cong u (store_bits o) (rget tc rs1 + imm) (U32 (rget tc rs1 + U32 imm)))
      by (rewrite !U32_eq; rewrite Z.mod_mod by lia; rewrite Z.add_mod_idemp_r by lia; reflexivity).
    destruct (st_write u (store_bits o) (U32 (rget tc rs1 + U32 imm)) (U (store_bits o) (rget tc rs2)) false)
      as [e u1] eqn:E.
    destruct (st_write_cong_ms _ tc _ _ _ _ _ _ Hm E) as (s1 & -> & Hm1).
    destruct e; cbn [fst snd]; symmetry; exact Hm1.
Qed.

(* an ecall passes the MEM stage without touching the memory system *)
Lemma mem_ecall_ms i a d u : is_ecall i = true -> ms (snd (memory_access i a d u)) = ms u.
Proof. intros H. destruct i; try discriminate. reflexivity. Qed.
