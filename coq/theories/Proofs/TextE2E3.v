(* TextE2E3.v — the source lines "li <reg>, <literal>" in every spelling and layout lex to the li token record. *)
From Coq Require Import String.
From Coq Require Import ZArith List Bool Lia ZifyBool.
From ArchSim Require Import Model.Base Model.Mem Model.Cache Model.Fmt Model.RV Model.Toy Model.Asm Model.Lex
  Proofs.LexProofs1 Proofs.LexProofs2 Proofs.LexProofs3 Proofs.LexProofs6 Proofs.LexProofs7 Proofs.LexProofs8
  Proofs.LexProofs9 Proofs.LexRepr1 Proofs.LexRepr2.
Import ListNotations.
Open Scope Z_scope.

(** * spellings *)
(* a register: an ABI name of the table, or x followed by the decimal number *)
Definition reg_sp (r : Z) (sp : str) : Prop := In (sp, r) abi_table \/ (0 <= r < 32 /\ sp = xreg r).
(* a literal of the grammar: optional '-', then 0x<hex digits> | 0b<bits> | <decimal digits> *)
Definition num_body (b : str) : Prop :=
  (exists h, b = 48 :: 120 :: h /\ h <> [] /\ forallb is_hex h = true) \/
  (exists d, b = 48 :: 98 :: d /\ d <> [] /\ forallb is_bin d = true) \/
  (b <> [] /\ forallb is_digit b = true).
Definition lit_ok (lit : str) : Prop := exists sign body, lit = sign ++ body /\ is_sign sign = true /\ num_body body.

(* characters of operands: no blank, no '#', no tab, no separator of str.splitlines *)
Definition opc (c : Z) : bool := is_labn c || (c =? 45).
Lemma opc_facts c : opc c = true -> py_isspace c = false /\ (c =? 35) = false /\ (c =? 9) = false /\ Lex.is_linebreak c = false.
Proof. unfold opc, is_labn, is_alpha, is_upper, is_lower, is_digit, py_isspace, Lex.is_linebreak. lia. Qed.

Lemma abi_opc : forallb (forallb opc) abi_names = true.   Proof. vm_compute. reflexivity. Qed.
Lemma abi_nonempty : forallb (fun w => negb (match w with [] => true | _ => false end)) abi_names = true.
Proof. vm_compute. reflexivity. Qed.
Lemma in_abi_names sp r : In (sp, r) abi_table -> In sp abi_names.
Proof. intros H. unfold abi_names. change sp with (fst (sp, r)). apply in_map, H. Qed.

Lemma reg_sp_chars r sp : reg_sp r sp -> forallb opc sp = true /\ sp <> [] /\
  match sp with c :: _ => is_alpha c = true | [] => False end.
Proof.
  intros [H|[Hr ->]].
  - apply in_abi_names in H. pose proof abi_opc as A1. pose proof abi_nonempty as A2. pose proof abi_alpha_first as A3.
    rewrite forallb_forall in A1, A2, A3. specialize (A1 _ H). specialize (A2 _ H). specialize (A3 _ H).
    destruct sp as [|c t]; [discriminate|]. repeat split; [exact A1|discriminate|exact A3].
  - destruct (str_dec_nat_digits r (proj1 Hr)) as [_ Hd]. unfold xreg. repeat split; [|discriminate].
    cbn [forallb]. replace (opc 120) with true by reflexivity. cbn [andb]. rewrite forallb_forall in *.
    intros x Hx. specialize (Hd x Hx). unfold opc, is_labn. rewrite Hd. rewrite orb_true_r. reflexivity.
Qed.

Lemma p_reg_spelled ws r sp rest : blanks ws = true -> 0 <= r < 32 -> reg_sp r sp -> stops is_digit rest = true ->
  exists rt, p_reg (ws ++ sp ++ rest) = Some (rt, rest) /\ reg_num rt = Some r.
Proof.
  intros Hw Hr [H|[_ ->]] Hs.
  - exists (RAbi sp). rewrite p_reg_blanks by exact Hw. split; [apply p_reg_abi; [eapply in_abi_names, H|exact Hs]|apply reg_num_abi, H].
  - exists (xtok r). split; [apply p_reg_xreg; assumption|]. unfold xtok. apply reg_num_x, Hr.
Qed.

Lemma num_body_raw b rest : num_body b -> stops is_labn rest = true ->
  num_raw (b ++ rest) = Some (b, rest) /\ match b with c :: _ => c <> 45 | [] => False end.
Proof.
  intros [(h & -> & Hn & Hh)|[(d & -> & Hn & Hd)|[Hn Hd]]] Hr.
  - split; [apply num_raw_hex; [exact Hn|exact Hh|apply stops_labn_hex, Hr]|cbn; congruence].
  - split; [apply num_raw_bin; [exact Hn|exact Hd|apply stops_labn_bin, Hr]|cbn; congruence].
  - split; [apply num_raw_dec; assumption|apply digit_first_not_minus; assumption].
Qed.
Lemma p_imm_lit ws lit rest : blanks ws = true -> lit_ok lit -> stops is_labn rest = true ->
  p_imm (ws ++ lit ++ rest) = Some (lit, rest).
Proof.
  intros Hw (sign & body & -> & Hs & Hb) Hr. destruct (num_body_raw body rest Hb Hr) as [H1 H2].
  rewrite <- app_assoc. apply p_imm_signed; assumption.
Qed.

Lemma hexc_opc c : is_hex c = true -> opc c = true.
Proof. unfold opc, is_hex, is_labn, is_alpha, is_upper, is_lower, is_digit. lia. Qed.
Lemma lit_chars lit : lit_ok lit -> forallb opc lit = true /\ lit <> [].
Proof.
  intros (sign & body & -> & Hs & Hb).
  assert (B : forallb opc body = true /\ body <> []).
  { destruct Hb as [(h & -> & Hn & Hh)|[(d & -> & Hn & Hd)|[Hn Hd]]].
    - split; [|discriminate]. cbn [forallb]. replace (opc 48) with true by reflexivity. replace (opc 120) with true by reflexivity.
      cbn [andb]. rewrite forallb_forall in *. intros x Hx. apply hexc_opc, Hh, Hx.
    - split; [|discriminate]. cbn [forallb]. replace (opc 48) with true by reflexivity. replace (opc 98) with true by reflexivity.
      cbn [andb]. rewrite forallb_forall in *. intros x Hx. specialize (Hd x Hx). unfold is_bin in Hd. unfold opc, is_labn, is_digit. lia.
    - split; [|exact Hn]. rewrite forallb_forall in *. intros x Hx. specialize (Hd x Hx). unfold opc, is_labn. rewrite Hd, orb_true_r. reflexivity. }
  destruct B as [B1 B2]. destruct (is_sign_inv _ Hs) as [->| ->]; cbn [app].
  - split; assumption.
  - split; [cbn [forallb]; rewrite B1; reflexivity|discriminate].
Qed.

(** * the core line: li, blanks, register, blanks "," blanks, literal *)
Lemma lex_core_li ws1 ws2 ws3 r sp lit :
  blanks ws1 = true -> ws1 <> [] -> blanks ws2 = true -> blanks ws3 = true ->
  0 <= r < 32 -> reg_sp r sp -> lit_ok lit ->
  exists rt, reg_num rt = Some r /\
    lex_core (codes "li" ++ ws1 ++ sp ++ ws2 ++ 44 :: ws3 ++ lit ++ []) =
    LexOk (NInstr None (NIns (tok_rd_imm MN_LI rt lit))).
Proof.
  intros H1 N1 H2 H3 Hr Hsp Hlit.
  destruct (p_reg_spelled ws1 r sp (ws2 ++ 44 :: ws3 ++ lit ++ []) H1 Hr Hsp) as (rt & Preg & Hnum).
  { destruct ws2 as [|c t]; [reflexivity|]. cbn [blanks forallb] in H2. apply andb_true_iff in H2 as [Hc _].
    cbn [app stops]. unfold is_ws, is_digit in *. lia. }
  exists rt. split; [exact Hnum|].
  set (post := ws1 ++ sp ++ ws2 ++ 44 :: ws3 ++ lit ++ []) in *.
  assert (Hp : hd_ws post = true).
  { unfold post. destruct ws1 as [|c t]; [congruence|]. cbn [blanks forallb] in H1. apply andb_true_iff in H1 as [Hc _]. exact Hc. }
  assert (Hcol : colon post = None).
  { unfold post, colon. rewrite tlit_blanks by exact H1. unfold tlit.
    destruct (reg_sp_chars r sp Hsp) as (_ & _ & Hf). destruct sp as [|c t]; [contradiction|].
    rewrite skip_ws_stop by (cbn [app stops]; unfold is_alpha, is_upper, is_lower, is_ws in *; lia).
    cbn [app Lex.lit]. replace (c =? 58) with false by (unfold is_alpha, is_upper, is_lower in Hf; lia). reflexivity. }
  rewrite plain_core by (first [reflexivity|discriminate|assumption]). unfold plain_shape.
  unfold instr_alts; cbn [map];
  unfold alt_r, alt_u, alt_b, alt_mem, alt_memp, alt_sp, alt_csr, alt_csri, alt_rri, alt_rr, alt_fence, alt_jal,
    alt_ecall, alt_nop, alt_li, ins.
  rewrite !kw_eval by side. rewrite !clit_mn by side. kwsels. precis. cbv beta iota. rewrite ?app_nil_l.
  rewrite Preg. unfold comma. rewrite tlit_blanks by exact H2. change (tlit [44] (44 :: ws3 ++ lit ++ [])) with (Some (ws3 ++ lit ++ [])).
  cbv beta iota. rewrite (p_imm_lit ws3 lit [] H3 Hlit eq_refl). cbv beta iota.
  cbn [or_longest fold_left better List.length Nat.ltb Nat.leb fst snd skip_ws]. reflexivity.
Qed.

(** * the source line with its layout *)
Lemma et_notab a x : no_tab a = true -> forall col, (col < 8)%nat ->
  exists col', (col' < 8)%nat /\ expandtabs col (a ++ x) = a ++ expandtabs col' x.
Proof.
  induction a as [|c t IH]; intros H col Hc; [exists col; split; [exact Hc|reflexivity]|].
  cbn [no_tab forallb] in H. apply andb_true_iff in H as [H9 Ht]. cbn [app expandtabs].
  destruct (c =? 9); [discriminate|]. destruct ((c =? 10) || (c =? 13)).
  - destruct (IH Ht 0%nat ltac:(lia)) as (col' & L & E). exists col'. split; [exact L|]. rewrite E. reflexivity.
  - destruct (IH Ht (if Nat.eqb col 7 then 0 else Datatypes.S col)%nat) as (col' & L & E).
    { destruct (Nat.eqb col 7) eqn:E7; [lia|]. apply Nat.eqb_neq in E7. lia. }
    exists col'. split; [exact L|]. rewrite E. reflexivity.
Qed.
Lemma et_blanks ws : blanks ws = true -> forall col, (col < 8)%nat ->
  exists ws' col', (col' < 8)%nat /\ blanks ws' = true /\ (ws <> [] -> ws' <> []) /\
    forall x, expandtabs col (ws ++ x) = ws' ++ expandtabs col' x.
Proof.
  induction ws as [|c t IH]; intros H col Hc.
  - exists [], col. repeat split; auto.
  - cbn [blanks forallb] in H. apply andb_true_iff in H as [Hw Ht]. destruct (c =? 9) eqn:E9.
    + destruct (IH Ht 0%nat ltac:(lia)) as (w & col' & L & Bw & _ & E). exists (repeat 32 (8 - col) ++ w), col'.
      split; [exact L|]. split; [rewrite blanks_app, blanks_repeat, Bw; reflexivity|]. split.
      * intros _. destruct (8 - col)%nat eqn:E8; [lia|discriminate].
      * intros x. cbn [app expandtabs]. rewrite E9, E, app_assoc. reflexivity.
    + destruct ((c =? 10) || (c =? 13)) eqn:Enl.
      * destruct (IH Ht 0%nat ltac:(lia)) as (w & col' & L & Bw & _ & E). exists (c :: w), col'.
        split; [exact L|]. split; [cbn [blanks forallb]; rewrite Hw; exact Bw|]. split; [discriminate|].
        intros x. cbn [app expandtabs]. rewrite E9, Enl, E. reflexivity.
      * destruct (IH Ht (if Nat.eqb col 7 then 0 else Datatypes.S col)%nat) as (w & col' & L & Bw & _ & E).
        { destruct (Nat.eqb col 7) eqn:E7; [lia|]. apply Nat.eqb_neq in E7. lia. }
        exists (c :: w), col'. split; [exact L|]. split; [cbn [blanks forallb]; rewrite Hw; exact Bw|]. split; [discriminate|].
        intros x. cbn [app expandtabs]. rewrite E9, Enl, E. reflexivity.
Qed.

Lemma opc_no_tab s : forallb opc s = true -> no_tab s = true /\ no_hash s = true.
Proof.
  intros H. unfold no_tab, no_hash. rewrite forallb_forall in H. split; apply forallb_forall; intros x Hx;
    destruct (opc_facts x (H x Hx)) as (_ & E1 & E2 & _); rewrite ?E1, ?E2; reflexivity.
Qed.
Lemma opc_ends s : forallb opc s = true -> s <> [] -> ends_nonspace s = true.
Proof.
  intros H Hn. unfold ends_nonspace. assert (Hr : forallb opc (rev s) = true).
  { rewrite forallb_forall in *. intros x Hx. apply H. rewrite in_rev. exact Hx. }
  destruct (rev s) as [|c t] eqn:E; [exfalso; apply Hn; rewrite <- (rev_involutive s), E; reflexivity|].
  cbn [forallb] in Hr. apply andb_true_iff in Hr as [Hc _]. cbn. destruct (opc_facts c Hc) as (E1 & _). rewrite E1. reflexivity.
Qed.
Lemma alpha_opc m : alpha m = true -> forallb opc m = true.
Proof.
  unfold alpha. rewrite !forallb_forall. intros H x Hx. specialize (H x Hx). unfold opc, is_labn. rewrite H. reflexivity.
Qed.

(* "li" in any case *)
Definition is_li (mn : str) : Prop := alpha mn = true /\ map lower mn = codes "li".

Theorem lex_line_li ind mn ws1 sp ws2 ws3 lit trail cmt r :
  all_space ind = true -> all_space trail = true -> is_comment cmt = true ->
  is_li mn -> blanks ws1 = true -> ws1 <> [] -> blanks ws2 = true -> blanks ws3 = true ->
  0 <= r < 32 -> reg_sp r sp -> lit_ok lit ->
  exists rt, reg_num rt = Some r /\
    lex_line (ind ++ (mn ++ ws1 ++ sp ++ ws2 ++ 44 :: ws3 ++ lit) ++ trail ++ cmt) =
    LexOk (NInstr None (NIns (tok_rd_imm MN_LI rt lit))).
Proof.
  intros Hi Ht Hc [Hma Hml] H1 N1 H2 H3 Hr Hsp Hlit.
  destruct (reg_sp_chars r sp Hsp) as (Sp1 & Sp2 & Sp3). destruct (lit_chars lit Hlit) as (L1 & L2).
  destruct (opc_no_tab sp Sp1) as [Spt Sph]. destruct (opc_no_tab lit L1) as [Lt Lh].
  destruct (opc_no_tab mn (alpha_opc mn Hma)) as [Mt Mh].
  assert (Mn : mn <> []) by (intros ->; discriminate Hml).
  set (core := mn ++ ws1 ++ sp ++ ws2 ++ 44 :: ws3 ++ lit).
  assert (NH : no_hash core = true).
  { unfold core. change (44 :: ws3 ++ lit) with ([44] ++ ws3 ++ lit).
    rewrite !no_hash_app, Mh, Sph, Lh, !(blanks_no_hash _ H1), !(blanks_no_hash _ H2), !(blanks_no_hash _ H3). reflexivity. }
  rewrite lex_outer_layout by assumption.
  unfold lex_line. rewrite sanitize_core; [|apply alpha_starts; assumption| |exact NH].
  2:{ unfold core. apply ends_app, ends_app, ends_app, ends_app. change (44 :: ws3 ++ lit) with ([44] ++ ws3 ++ lit).
      apply ends_app, ends_app, opc_ends; assumption. }
  (* tabs *)
  unfold core.
  destruct (et_notab mn (ws1 ++ sp ++ ws2 ++ 44 :: ws3 ++ lit) Mt 0%nat ltac:(lia)) as (c1 & C1 & E1). rewrite E1.
  destruct (et_blanks ws1 H1 c1 C1) as (w1 & c2 & C2 & B1 & Nw1 & E2). rewrite E2. specialize (Nw1 N1).
  destruct (et_notab sp (ws2 ++ 44 :: ws3 ++ lit) Spt c2 C2) as (c3 & C3 & E3). rewrite E3.
  destruct (et_blanks ws2 H2 c3 C3) as (w2 & c4 & C4 & B2 & _ & E4). rewrite E4.
  change (44 :: ws3 ++ lit) with ([44] ++ ws3 ++ lit).
  destruct (et_notab [44] (ws3 ++ lit) eq_refl c4 C4) as (c5 & C5 & E5). rewrite E5.
  destruct (et_blanks ws3 H3 c5 C5) as (w3 & c6 & C6 & B3 & _ & E6). rewrite E6.
  rewrite (expandtabs_notab lit Lt). cbn [app].
  (* case *)
  destruct (lex_core_li w1 w2 w3 r sp lit B1 Nw1 B2 B3 Hr Hsp Hlit) as (rt & Hnum & Hlex).
  exists rt. split; [exact Hnum|]. rewrite <- Hlex. rewrite app_nil_r.
  apply lex_core_case_plain. constructor; try assumption; try reflexivity.
  - rewrite Hml. vm_compute. tauto.
  - destruct w1 as [|c t]; [congruence|]. cbn [blanks forallb] in B1. apply andb_true_iff in B1 as [Hc1 _]. exact Hc1.
  - unfold colon. rewrite tlit_blanks by exact B1. unfold tlit. destruct sp as [|c t]; [contradiction|].
    rewrite skip_ws_stop by (cbn [app stops]; unfold is_alpha, is_upper, is_lower, is_ws in *; lia).
    cbn [app Lex.lit]. replace (c =? 58) with false by (unfold is_alpha, is_upper, is_lower in Sp3; lia). reflexivity.
Qed.
