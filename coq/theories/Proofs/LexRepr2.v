(* LexRepr2.v — Model/Lex.v: the text printed for an instruction (Asm.instr_repr) is lexed to the token record
   Asm.repr_tokens: evaluation of all line and instruction patterns on the printed forms. *)
From Coq Require Import String.
From Coq Require Import ZArith List Bool Lia ZifyBool.
From ArchSim Require Import Model.Base Model.Mem Model.Cache Model.Fmt Model.RV Model.Toy Model.Asm Model.Lex
  Proofs.LexProofs1 Proofs.LexProofs2 Proofs.LexProofs3 Proofs.LexProofs6
  Proofs.LexProofs7 Proofs.LexProofs8 Proofs.LexProofs9 Proofs.LexRepr1.
Import ListNotations.
Open Scope Z_scope.

(** * correspondence between the lexer's token trees (names as strings) and Asm's (names interned) for
    trees without names *)
Definition ntok_of (t : itok) : ntok :=
  {| n_mn := k_mn t; n_rd := k_rd t; n_rs1 := k_rs1 t; n_rs2 := k_rs2 t; n_reg1 := k_reg1 t; n_reg2 := k_reg2 t;
     n_rs := k_rs t; n_imm := k_imm t; n_csr := k_csr t; n_uimm := k_uimm t; n_offset := k_offset t;
     n_label := None; n_var := None |}.
Definition nbody_of (b : tbody) : nbody :=
  match b with BStr k => NStr k | BIns t => NIns (ntok_of t) | BOther => NStr 2 end.
Definition nameless (b : tbody) : Prop :=
  match b with BStr _ => True | BIns t => k_label t = None /\ k_var t = None | BOther => False end.

Lemma intern_nameless names b : nameless b -> intern_line names (NInstr None (nbody_of b)) = (names, RInstr None b).
Proof.
  destruct b as [k|t|]; cbn [nameless nbody_of intern_line intern_opt]; [reflexivity| |contradiction].
  intros [H1 H2]. unfold intern_tok, ntok_of. cbn [n_label n_var intern_opt n_mn n_rd n_rs1 n_rs2 n_reg1 n_reg2
    n_rs n_imm n_csr n_uimm n_offset]. destruct t. cbn in *. subst. reflexivity.
Qed.

(** * evaluation lemmas *)
Lemma kw_eval T m post : kws_ok T = true -> alpha m = true -> m <> [] -> hd_ws post = true ->
  kw T (m ++ post) = match kwsel T m with Some (n, lo) => Some (n, true, lo ++ post) | None => None end.
Proof. intros HT Hm Hn Hp. unfold kw. rewrite (alpha_skip m post Hm Hn). apply kw_best_mn; assumption. Qed.
Lemma comma_c r : comma (44 :: r) = Some r.
Proof. unfold comma, tlit. rewrite skip_ws_stop by reflexivity. cbn [lit]. rewrite Z.eqb_refl. reflexivity. Qed.
Lemma p_reg_sp r rest : 0 <= r < 32 -> stops is_digit rest = true -> p_reg (32 :: xreg r ++ rest) = Some (xtok r, rest).
Proof. intros. apply (p_reg_xreg [32]); auto. Qed.
Lemma p_reg_lo lo post : lo <> [] -> alpha lo = true -> hd_ws post = true -> regfree (map lower lo) = true ->
  p_reg (lo ++ post) = None.
Proof. apply p_reg_leftover. Qed.
Lemma tl40 r : tlit [40] (40 :: r) = Some r.   Proof. reflexivity. Qed.
Lemma tl41 r : tlit [41] (41 :: r) = Some r.   Proof. reflexivity. Qed.
Lemma p_reg_ns r rest : 0 <= r < 32 -> stops is_digit rest = true -> p_reg (xreg r ++ rest) = Some (xtok r, rest).
Proof. intros. apply (p_reg_xreg []); auto. Qed.
Lemma p_imm_sp z rest : stops is_labn rest = true -> p_imm (32 :: str_dec z ++ rest) = Some (str_dec z, rest).
Proof. intros. apply (p_imm_dec [32]); auto. Qed.
Lemma p_imm_sph c rest : 0 <= c -> stops is_labn rest = true -> p_imm (32 :: py_hex c ++ rest) = Some (py_hex c, rest).
Proof. intros. apply (p_imm_hex [32]); auto. Qed.
Lemma p_reg_num s : numfirst s = true -> p_reg (32 :: s) = None.
Proof. intros. apply (p_reg_numfirst [32]); auto. Qed.
Lemma p_var_num s : numfirst s = true -> p_var (32 :: s) = None.
Proof. intros. apply (p_var_numfirst [32]); auto. Qed.
Lemma p_label_num s : numfirst s = true -> p_label (32 :: s) = None.
Proof. intros. apply (p_label_numfirst [32]); auto. Qed.
Lemma p_imm_x r rest : p_imm (32 :: xreg r ++ rest) = None.
Proof. apply (p_imm_xreg [32]). reflexivity. Qed.
Lemma p_var_x r rest : 0 <= r -> stops is_labn rest = true -> stops (fun c => c =? 91) rest = true ->
  p_var (32 :: xreg r ++ rest) = Some ((xreg r, None), rest).
Proof. intros. apply (p_var_xreg [32]); auto. Qed.

Lemma plain_core m post : alpha m = true -> m <> [] -> hd_ws post = true -> colon post = None ->
  lex_core (m ++ post) = plain_shape post m.
Proof.
  intros Ha Hn Hp Hc. apply (lex_core_plain (codes "nop") (codes "nop") post); try assumption.
  constructor; try reflexivity; try assumption. vm_compute. tauto.
Qed.

Ltac kwsels := repeat match goal with |- context [kwsel ?T ?m] =>
   let v := eval vm_compute in (kwsel T m) in change (kwsel T m) with v end.
Ltac precis := repeat match goal with |- context [pre_ci ?w ?m] =>
   let v := eval vm_compute in (pre_ci w m) in change (pre_ci w m) with v end.
Ltac side := first [reflexivity|discriminate|assumption|lia|apply numfirst_str_dec|apply numfirst_py_hex|vm_compute; reflexivity].
Ltac ops := repeat (progress (
   rewrite ?comma_c, ?tl40, ?tl41, ?p_imm_x;
   rewrite ?p_reg_sp by side; rewrite ?p_reg_ns by side; rewrite ?p_imm_sp by side; rewrite ?p_imm_sph by side;
   rewrite ?p_reg_num by side; rewrite ?p_var_num by side; rewrite ?p_label_num by side; rewrite ?p_var_x by side;
   cbv beta iota)).
Ltac alts :=
  unfold instr_alts; cbn [map];
  unfold alt_r, alt_u, alt_b, alt_mem, alt_memp, alt_sp, alt_csr, alt_csri, alt_rri, alt_rr, alt_fence, alt_jal,
    alt_ecall, alt_nop, alt_li, ins;
  rewrite !kw_eval by side; rewrite !clit_mn by side; kwsels; precis; cbv beta iota;
  rewrite ?app_nil_l; repeat rewrite p_reg_lo by side; cbn [app]; ops.
(* lex_core of mnemonic ++ operands *)
Ltac core :=
  rewrite plain_core by side; unfold plain_shape; alts;
  cbn [or_longest fold_left better List.length Nat.ltb Nat.leb fst snd skip_ws]; try reflexivity.

(** * the printed forms, with the operand text in cons form *)
Definition post_rrr (a b c : Z) : str := 32 :: xreg a ++ 44 :: 32 :: xreg b ++ 44 :: 32 :: xreg c ++ [].
Definition post_rri (a b i : Z) : str := 32 :: xreg a ++ 44 :: 32 :: xreg b ++ 44 :: 32 :: str_dec i ++ [].
Definition post_mem (a i b : Z) : str := 32 :: xreg a ++ 44 :: 32 :: str_dec i ++ 40 :: xreg b ++ 41 :: [].
Definition post_ri (a i : Z) : str := 32 :: xreg a ++ 44 :: 32 :: str_dec i ++ [].
Definition post_csr (a c b : Z) : str := 32 :: xreg a ++ 44 :: 32 :: py_hex c ++ 44 :: 32 :: xreg b ++ [].
Definition post_csri (a c u : Z) : str := 32 :: xreg a ++ 44 :: 32 :: py_hex c ++ 44 :: 32 :: str_dec u ++ [].

Lemma core_R o rd rs1 rs2 : 0 <= rd < 32 -> 0 <= rs1 < 32 -> 0 <= rs2 < 32 ->
  lex_core (mn_name (instr_mn (IR o rd rs1 rs2)) ++ post_rrr rd rs1 rs2) =
  LexOk (NInstr None (nbody_of (repr_tokens (IR o rd rs1 rs2)))).
Proof. intros H1 H2 H3. unfold post_rrr. destruct o; cbn [instr_mn]; core. Qed.
Lemma core_I o rd rs1 imm : 0 <= rd < 32 -> 0 <= rs1 < 32 ->
  lex_core (mn_name (instr_mn (II o rd rs1 imm)) ++ post_rri rd rs1 imm) =
  LexOk (NInstr None (nbody_of (repr_tokens (II o rd rs1 imm)))).
Proof. intros H1 H2. unfold post_rri. destruct o; cbn [instr_mn]; core. Qed.
Lemma core_Sh o rd rs1 imm : 0 <= rd < 32 -> 0 <= rs1 < 32 ->
  lex_core (mn_name (instr_mn (ISh o rd rs1 imm)) ++ post_rri rd rs1 imm) =
  LexOk (NInstr None (nbody_of (repr_tokens (ISh o rd rs1 imm)))).
Proof. intros H1 H2. unfold post_rri. destruct o; cbn [instr_mn]; core. Qed.
Lemma core_Jalr rd rs1 imm : 0 <= rd < 32 -> 0 <= rs1 < 32 ->
  lex_core (mn_name (instr_mn (IJalr rd rs1 imm)) ++ post_rri rd rs1 imm) =
  LexOk (NInstr None (nbody_of (repr_tokens (IJalr rd rs1 imm)))).
Proof. intros H1 H2. unfold post_rri. cbn [instr_mn]; core. Qed.
Lemma core_Branch o rs1 rs2 imm : 0 <= rs1 < 32 -> 0 <= rs2 < 32 ->
  lex_core (mn_name (instr_mn (IBranch o rs1 rs2 imm)) ++ post_rri rs1 rs2 imm) =
  LexOk (NInstr None (nbody_of (repr_tokens (IBranch o rs1 rs2 imm)))).
Proof. intros H1 H2. unfold post_rri. destruct o; cbn [instr_mn]; core. Qed.
