(* PipeInv.v — stage 1 of the control-path proof of C02: the simulation invariant [Inv p σ]
   between a five-stage pipeline state [p] (hazard detection on, flat memory, no instruction
   cache) and the single-cycle state [σ] reached after the instructions that have left WB.
   Definitions only, plus [inv_init].

   Vocabulary
     nxt τ            the single-cycle state after one [single_pipeline_step]
     sigma j σ        j-fold [nxt]                       (σ_j of DESIGN.md)
     inflight p       the non-empty slots of latches 3,2,1,0, oldest first
     adv l τ          τ if latch l is a bubble, nxt τ otherwise: the pre-state of the next younger
                      slot.  With τ3 = σ, τ2 = adv l3 τ3, τ1 = adv l2 τ2, τ0 = adv l1 τ1,
                      τF = adv l0 τ0 the slot in latch k is instruction number
                      (#non-empty older latches + 1) and its pre-state is τk = σ_(that number - 1).
     pre τ            the state the single-cycle machine hands to [behavior] (counted, fetched)
     dsl τ i          the decoded slot of instruction i with the operands of τ
     plain τ i        the single step from τ neither faults, nor exits, nor transfers control
     dead             how many of the positions [fetch pc; latch 0; latch 1] are wrong-path:
                      dead = k+1 > 0 means latch k (k <= 2) holds the (on-path) barrier — a slot
                      that is not plain — and everything younger is unconstrained.  Latch 3 is
                      never wrong-path; a redirecting slot there has already flushed. *)
From Coq Require Import Lia ZifyBool.
From ArchSim Require Import Model.Base Model.Mem Model.Cache Model.Fmt Model.RV Model.Single
  Model.RVSplit Model.Pipe Proofs.WordLemmas Proofs.C01Step Proofs.SplitExec
  Proofs.PipeLaws Proofs.PipeShape.
Open Scope Z_scope.

(** * Iterated single-cycle states *)
Definition nxt (t : st) : st := fst (single_pipeline_step t).
Fixpoint sigma (j : nat) (s : st) : st :=
  match j with O => s | S k => sigma k (nxt s) end.
Definition adv (l : latch) (t : st) : st := if nonempty l then nxt t else t.

(** * The in-flight view *)
Definition some_list (l : latch) : list slot := match l with Some x => [x] | None => [] end.
Definition inflight (p : pstate) : list slot :=
  some_list (lat_at (lat p) 3) ++ some_list (lat_at (lat p) 2) ++
  some_list (lat_at (lat p) 1) ++ some_list (lat_at (lat p) 0).
Definition ne (l : latch) : nat := if nonempty l then 1%nat else 0%nat.

(** * What the single-cycle machine executes, in pipeline vocabulary *)
(* the state passed to [behavior]: cycle and instruction counted, fetched (no instruction cache) *)
Definition pre (t : st) : st :=
  let s0 := with_icount (with_cycles t (cycles t + 1)) (icount t + 1) in
  with_cycles (with_im s0 (im s0)) (cycles s0 + 0).

(* the decoded slot of instruction i with the operands of t (stall flag off) *)
Definition dsl (t : st) (i : instr) : slot := id_slot false (slot_if i (pc t)) None None (pre t).

Definition set_stall (y : slot) (b : bool) : slot :=
  {| sl_instr := sl_instr y; sl_addr := sl_addr y; sl_ra1 := sl_ra1 y; sl_ra2 := sl_ra2 y;
     sl_rd1 := sl_rd1 y; sl_rd2 := sl_rd2 y; sl_imm := sl_imm y; sl_wreg := sl_wreg y;
     sl_result := sl_result y; sl_cmp := sl_cmp y; sl_pcimm := sl_pcimm y; sl_exit := sl_exit y;
     sl_memdata := sl_memdata y; sl_wdata := sl_wdata y; sl_flush := sl_flush y;
     sl_stall := b; sl_saved := sl_saved y |}.

(* a decode-shaped slot: what ID writes into latch 1, whatever the register values were
   (holds for wrong-path slots too: their EX must not raise) *)
Definition Dsh (x : slot) : Prop :=
  exists s b, x = set_stall (id_slot false (slot_if (sl_instr x) (sl_addr x)) None None s) b.
Definition Dsh_latch (l : latch) : Prop := match l with Some x => Dsh x | None => True end.

(* control transfer as the single-cycle machine sees it *)
Definition redirects (i : instr) (t : st) : bool :=
  match i with
  | IBranch o rs1 rs2 _ => b_cond o (rget t rs1) (rget t rs2)
  | IJal _ _ _ | IJalr _ _ _ => true
  | _ => false
  end.

(* the step from t neither faults nor exits *)
Definition okstep (t : st) : Prop := snd (single_pipeline_step t) = None /\ exitc (nxt t) = None.
(* the step from t is an ordinary one: the next instruction is the sequential successor *)
Definition plain (t : st) (i : instr) : Prop :=
  snd (single_pipeline_step t) = None /\ exitc (nxt t) = None /\ redirects i t = false.

Section WithProgram.
Variable P : list instr.

(* the slot is the instruction the single-cycle machine executes next from t *)
Definition onp (t : st) (x : slot) : Prop :=
  exitc t = None /\ sl_addr x = pc t /\ instr_at P (pc t) = Some (sl_instr x).

(** contents of on-path slots *)
(* latch 1: decoded with the operands of its pre-state (the stall flag is not meaningful) *)
Definition Dok (t : st) (x : slot) : Prop := exists b, x = set_stall (dsl t (sl_instr x)) b.
(* latch 2: the EX result from those operands; an ecall that still carries its stall flag has
   not fired *)
Definition Eok (t : st) (x : slot) : Prop :=
  let d := dsl t (sl_instr x) in
  if sl_stall x then sl_instr x = IEcall /\ x = ex_slot d None (Some 0) true None None
  else exists te, ex_on (Some d) None None (pre t) = (Some x, te, None).
(* latch 3: the MEM result of the EX result *)
Definition Mok (t : st) (x : slot) : Prop :=
  let d := dsl t (sl_instr x) in
  exists e te tm, ex_on (Some d) None None (pre t) = (Some e, te, None) /\
                  mem_on (Some e) te = (Some x, tm, None).

Definition fired (l : latch) : bool :=
  match l with Some x => negb (sl_stall x) | None => false end.

(* one latch: [live] = on path, [bar] = it is the barrier *)
Definition lv (live bar : Prop) (t : st) (l : latch) (C : st -> slot -> Prop) : Prop :=
  match l with
  | None => ~ bar
  | Some x => live -> wf t /\ onp t x /\ C t x /\
                      (bar -> ~ plain t (sl_instr x)) /\ (~ bar -> plain t (sl_instr x))
  end.

(* latch 3: always on path, its redirect (if any) already done; it neither faults nor exits *)
Definition lv3 (t : st) (l : latch) : Prop :=
  match l with
  | None => True
  | Some x => wf t /\ onp t x /\ Mok t x /\ okstep t
  end.

Record InvAt (p : pstate) (s : st) (l0 l1 l2 l3 l4 : latch) (dead : nat) : Prop := mkInvAt {
  iv_lat : lat p = [l0; l1; l2; l3; l4];
  iv_shape : Shape no_icache p;
  iv_hz : hazards p = true;
  iv_progp : prog (im (pst p)) = P;
  iv_progs : prog (im s) = P;
  iv_wf : wf s;
  iv_exit_s : exitc s = None;
  iv_dead : (dead <= 3)%nat;
  iv_d1 : Dsh_latch l1;
  (* the slots, oldest first *)
  iv_l3 : lv3 s l3;
  iv_l2 : lv True (dead = 3%nat) (adv l3 s) l2 Eok;
  iv_l1 : lv (dead <= 2)%nat (dead = 2%nat) (adv l2 (adv l3 s)) l1
             (fun t x => stalled p = None -> Dok t x);
  iv_l0 : lv (dead <= 1)%nat (dead = 1%nat) (adv l1 (adv l2 (adv l3 s))) l0 (fun _ _ => True);
  iv_fetch : dead = 0%nat ->
             let tF := adv l0 (adv l1 (adv l2 (adv l3 s))) in
             wf tF /\ prog (im tF) = P /\ exitc tF = None /\ pc (pst p) = pc tF;
  (* the architectural state *)
  iv_regs : regs (pst p) = regs s;
  iv_ms : ms (pst p) = ms (adv l3 s);
  iv_bcount : bcount (pst p) = bcount (adv l3 s);
  iv_pcount : pcount (pst p) = pcount (adv l3 s);
  iv_out : out (pst p) = out (if fired l2 then adv l2 (adv l3 s) else adv l3 s);
  iv_exitc : exitc (pst p) = None;
  iv_icount : icount (pst p) = icount s;
  (* the slot in latch 2 has fired, except the ecall that stalls the pipeline at EX *)
  iv_fired : fired l2 = match stalled p with
                        | Some (k, _) => if k =? 2 then false else nonempty l2
                        | None => nonempty l2
                        end }.

Definition Inv (p : pstate) (s : st) : Prop :=
  exists l0 l1 l2 l3 l4 dead, InvAt p s l0 l1 l2 l3 l4 dead.

Lemma inv_init s : wf s -> prog (im s) = P -> exitc s = None -> Inv (pipe_init s true) s.
Proof.
  intros W HP Hex. exists None, None, None, None, None, 0%nat.
  constructor; cbn [pipe_init pst lat stalled saved hazards adv nonempty fired lv];
    try reflexivity; try assumption; try lia.
  - apply shape_init. unfold no_icache. apply (wf_noic s W).
  - intros _. split; [exact W|split; [exact HP|split; [exact Hex|reflexivity]]].
Qed.

End WithProgram.

(* [adv] is [sigma] by the number of occupied latches *)
Lemma adv_sigma l t : adv l t = sigma (ne l) t.
Proof. unfold adv, ne. destruct (nonempty l); reflexivity. Qed.

Lemma sigma_add a : forall b t, sigma (a + b) t = sigma b (sigma a t).
Proof. induction a as [|a IH]; intros b t; cbn [sigma Nat.add]; [reflexivity|apply IH]. Qed.

(** * Vocabulary of the refinement theorem *)
(* addresses in latch 4 (WB output) after each step of the run, in order *)
Definition some_addr (l : latch) : list Z := match l with Some x => [sl_addr x] | None => [] end.
Fixpoint pipe_trace (fuel : nat) (p : pstate) : list Z :=
  match fuel with
  | O => []
  | S k => if pipe_done p then []
           else match pipe_step p with
                | (_, Some _) => []
                | (p', None) => some_addr (lat_at (lat p') 4) ++ pipe_trace k p'
                end
  end.
(* the pcs at which the single-cycle run executed an instruction *)
Fixpoint single_trace (fuel : nat) (s : st) : list Z :=
  match fuel with
  | O => []
  | S k => if single_done s then []
           else match single_pipeline_step s with
                | (_, Some _) => []
                | (s', None) => pc s :: single_trace k s'
                end
  end.

(* agreement of the architectural state at the end of a run *)
Definition arch_agree (p : pstate) (s : st) : Prop :=
  regs (pst p) = regs s /\ ms (pst p) = ms s /\ out (pst p) = out s /\ exitc (pst p) = exitc s /\
  bcount (pst p) = bcount s /\ pcount (pst p) = pcount s /\ icount (pst p) = icount s.
