(* FlagOffEcallNormal.v — property C08, phase B, part 10: one cycle of the flag-off pipeline in
   the mode "not stalled", for ALL supported instructions: the invariant of FlagOffEcallInv.v is
   kept (or the state is the last cycle of an exiting ecall), the slot of latch 3 is the
   instruction the reference machine executes next, faults coincide.  Port of [step_normal_e]
   (PipeInvEcall.v) to the lag chain. *)
From Coq Require Import Lia ZifyBool.
From ArchSim Require Import Model.Base Model.Mem Model.Cache Model.Fmt Model.RV Model.Single
  Model.RVSplit Model.Pipe Proofs.WordLemmas Proofs.C01Step Proofs.SplitExec Proofs.C02Split
  Proofs.PipeLaws Proofs.PipeShape Proofs.PipeInv Proofs.PipeInvBase Proofs.PipeInvStages
  Proofs.PipeInvStraight Proofs.PipeInvControl Proofs.PipeInvEcall
  Proofs.FlagOffSim Proofs.FlagOffDwb Proofs.FlagOffInv Proofs.FlagOffEcallInv.
Open Scope Z_scope.

Local Arguments Z.mul : simpl never.
Local Arguments Z.add : simpl never.
Local Arguments Z.sub : simpl never.
Local Arguments Z.of_nat : simpl never.

(** * The instruction step of the reference machine with the drain absorbed *)
Definition next_ec (L : lag) : bool :=
  match instr_at (prog (im (lt L))) (pc (lt L)) with Some i => is_ecall i | None => false end.
Definition normE (L : lag) : lag := if next_ec L then settle L else L.
Definition estep (L : lag) : lag * option fault := lstep (normE L).

Lemma lt_normE L : lt (normE L) = lt L.
Proof. unfold normE. destruct (next_ec L); reflexivity. Qed.
Lemma next_ec_bub L : next_ec (bub L) = next_ec L. Proof. reflexivity. Qed.
Lemma normE_bub L : next_ec L = true -> normE (bub L) = normE L.
Proof. unfold normE. rewrite next_ec_bub. intros ->. reflexivity. Qed.

Section Step.
Variable P : list instr.
Hypothesis Hsup : Forall (fun i => supported i = true) P.

(* an on-path slot executes from [normE] of its chain state *)
Lemma normE_preE l M x : l = Some x -> prog (im (lt M)) = P -> onp P (uview (preE l M)) x ->
  normE M = preE l M.
Proof.
  intros -> HP Ho. apply onp_pc in Ho. destruct Ho as [Hi _].
  unfold normE, next_ec, preE. rewrite HP, Hi. reflexivity.
Qed.

(* the last cycle of an exiting ecall: it sits in latch 3, everything younger has been flushed *)
Definition EExiting (p : pstate) (L : lag) : Prop :=
  exists l0 x3 l4, lat p = [l0; None; None; Some x3; l4] /\ Shape no_icache p /\ hazards p = false /\
    stalled p = None /\ prog (im (pst p)) = P /\ prog (im (lt L)) = P /\ wfL L /\ exitc (lt L) = None /\
    onp P (uview (preE (Some x3) L)) x3 /\ Mok (uview (preE (Some x3) L)) x3 /\
    snd (single_pipeline_step (uview (preE (Some x3) L))) = None /\
    exitc (nxt (uview (preE (Some x3) L))) <> None /\
    regs (pst p) = regs (lt L) /\ ms (pst p) = ms (lt (advE (Some x3) L)) /\
    bcount (pst p) = bcount (lt (advE (Some x3) L)) /\ pcount (pst p) = pcount (lt (advE (Some x3) L)) /\
    out (pst p) = out (lt (advE (Some x3) L)) /\ exitc (pst p) = None /\ icount (pst p) = icount (lt L).

(* how the latches moved *)
Inductive emove (p p' : pstate) (l0 l1 l2 l3 : latch) : Prop :=
| EShift n0 n1 n2 n3 n4 : lat p' = [n0; n1; n2; n3; n4] -> flush_of n3 = None -> flush_of n2 = None ->
    flush_of l2 = None ->
    nonempty n3 = nonempty l2 -> nonempty n2 = nonempty l1 -> nonempty n1 = nonempty l0 ->
    nonempty n0 = has_instr (im (pst p)) (pc (pst p)) ->
    (nonempty n0 = false -> has_instr (im (pst p')) (pc (pst p')) = false) -> emove p p' l0 l1 l2 l3
| EMemFlush n3 n4 : lat p' = [None; None; None; n3; n4] -> flush_of n3 <> None ->
    nonempty l2 = true -> emove p p' l0 l1 l2 l3
| EExFlush x2 n4 : lat p' = [None; None; Some x2; None; n4] -> sl_instr x2 = IEcall ->
    flush_of (Some x2) <> None -> l3 = None -> (l2 = None \/ is_ec l2 = true) -> emove p p' l0 l1 l2 l3
| EHold n1 x2 n4 : lat p' = [l0; n1; Some x2; None; n4] -> sl_instr x2 = IEcall ->
    flush_of (Some x2) = None -> is_ec l2 = true -> flush_of l2 = None -> nonempty n1 = nonempty l1 ->
    has_instr (im (pst p')) (pc (pst p')) = has_instr (im (pst p)) (pc (pst p)) ->
    emove p p' l0 l1 l2 l3.

Definition estep_goal (p : pstate) (L : lag) (l0 l1 l2 l3 : latch) : Prop :=
  match pipe_step p with
  | (p', None) => (EInv P p' (advE l3 L) \/ EExiting p' (advE l3 L)) /\
                  lat_at (lat p') 4 = option_map wb_slot l3 /\ (l3 = None -> mu4 p' < mu4 p) /\
                  nost1 p' /\ emove p p' l0 l1 l2 l3
  | (p', Some f) => exists Lm, estep (advE l3 L) = (Lm, Some f) /\
                  single_done (lt (advE l3 L)) = false /\
                  (nonempty l2 = true \/ (l2 = None /\ l3 = None /\ is_ec l1 = true)) /\
                  regs (pst p') = regs (lt Lm) /\ ms (pst p') = ms (lt Lm) /\ out (pst p') = out (lt Lm)
  end.

(* a faulting step of the view state is a faulting step of the reference machine *)
Lemma lstep_fault M tm f : single_pipeline_step (uview M) = (tm, Some f) ->
  lstep M = ({| lt := with_regs tm (regs (lt M)); lr1 := regs (lt M); lr2 := lr1 M |}, Some f).
Proof. intros H. unfold lstep, vstep. fold (uview M). rewrite H. reflexivity. Qed.

(* decode of an ecall reads x0 only *)
Lemma Dok_ecall t y hz w1 w2 s : sl_instr y = IEcall -> wf t -> wf_regs (regs s) -> sl_addr y = pc t ->
  Dok t (id_slot hz y w1 w2 s).
Proof.
  intros Hi W Ws Ha. unfold Dok. eexists.
  change (sl_instr (id_slot hz y w1 w2 s)) with (sl_instr y).
  apply id_slot_agree; [|exact Ha]. rewrite Hi. intros r [H|H]; cbn in H; [|discriminate H].
  injection H as <-. unfold rget. destruct Ws as [_ ->]. destruct (wf_r _ W) as [_ ->]. reflexivity.
Qed.

Lemma is_ec_some x : is_ec (Some x) = is_ecall (sl_instr x). Proof. reflexivity. Qed.
Lemma is_ec_instr (l n : latch) : match l, n with
    | Some x, Some y => sl_instr y = sl_instr x | None, None => True | _, _ => False end ->
  is_ec n = is_ec l /\ nonempty n = nonempty l.
Proof. destruct l, n; cbn; try contradiction; [intros ->|]; split; reflexivity. Qed.

Lemma estep_normal p L l0 l1 l2 l3 l4 dead : EInvAt P p L l0 l1 l2 l3 l4 dead -> stalled p = None ->
  pipe_done p = false -> estep_goal p L l0 l1 l2 l3.
Proof.
  intros [Hl Sh Hz HPp HPs WL Hexs Hd D1 L3 L2 L1 L0 HF Hrg Hms Hbc Hpcn Hout Hexc Hic Hfd] Hst Hnd.
  unfold estep_goal.
  pose proof (shape_step no_icache p no_icache_faithful Sh) as Sh'.
  assert (Hsv : saved p = None) by (apply (shape_saved_iff no_icache p Sh); exact Hst).
  rewrite (pipe_step_normal p _ _ _ _ _ Hl Hst) in *. unfold run_normal in *. rewrite Hz in *.
  destruct (if_stage P (bumped (pst p)) (sh_im _ _ Sh) HPp)
    as (n0 & s1 & HIF & Hr1 & Hm1 & Ho1 & He1 & Hi1 & Hb1 & Hp1 & HP1 & Hnc1 & Hs0 & Hf0 & Hn0).
  rewrite HIF in *. clear HIF.
  destruct (wb_stageL P Hsup (preE l3 L) l3 s1 ltac:(rewrite lt_preE; exact HPs) L3 (wfL_preE _ _ WL)
              ltac:(rewrite lt_preE; exact Hexs) ltac:(rewrite lt_preE, Hr1; exact Hrg))
    as (s2 & HWB & Hf4 & Hr2 & Hm2 & Ho2 & Hb2 & Hp2 & He2 & Hpc2 & Him2 & Hi2 & WL2 & HP2 & Hex2).
  rewrite lt_preE in Hi2. change (advL l3 (preE l3 L)) with (advE l3 L) in *.
  rewrite HWB in *. clear HWB. unfold bumped in *. stf.
  set (L' := advE l3 L) in *.
  destruct (shape_at p _ _ _ _ _ Sh Hl) as (K0 & K1 & K2 & K3 & K4 & KM). rewrite HPp in *.
  assert (Hfd2 : fired l2 = nonempty l2) by (rewrite Hfd, Hst; reflexivity).
  set (X1 := advE l2 L') in *.
  assert (HX1 : wfL X1 /\ prog (im (lt X1)) = P).
  { apply wfL_advE; auto. destruct l2; [apply (L2 Logic.I)|exact Logic.I]. }
  destruct HX1 as [WX1 HPX1].
  assert (Hout1 : out s2 = out (lt X1)).
  { rewrite Ho2, Ho1, Hout, Hfd2. subst X1. destruct l2; reflexivity. }
  assert (Hms2 : ms s2 = ms (lt L')) by congruence.
  set (t1 := uview (preE l1 X1)) in *.
  pose proof (ex_latch_e P Hsup t1 l1 l2 l3 s2 D1 K1) as HEX.
  assert (HFIRE : forall x1, l1 = Some x1 -> sl_instr x1 = IEcall -> l2 = None -> l3 = None ->
     wf t1 /\ exitc t1 = None /\ prog (im t1) = P /\ onp P t1 x1 /\ Dok t1 x1 /\
     regs s2 = regs t1 /\ ms s2 = ms t1 /\ out s2 = out t1).
  { intros x1 E1 Hec E2 E3. subst l1 l2 l3. cbn [lv] in L1, L2.
    assert (Hd2 : (dead <= 2)%nat) by lia. destruct (L1 Hd2) as (Wt & Hon & Hdk & _). pose proof Hon as (Hx & _).
    split; [exact Wt|]. split; [exact Hx|].
    split; [change (prog (im (lt (preE (Some x1) X1))) = P); rewrite lt_preE; exact HPX1|].
    split; [exact Hon|]. split; [apply Hdk; exact Hst|].
    subst t1. unfold preE. rewrite is_ec_some, Hec.
    split; [rewrite Hr2; reflexivity|]. split; [rewrite Hms2; reflexivity|]. rewrite Hout1. reflexivity. }
  specialize (HEX HFIRE). clear HFIRE.
  destruct (ex_on l1 l2 l3 s2) as [[n2 s3] [e|]] eqn:HEXeq.
  { (* the ecall faults when it fires *)
    destruct HEX as (x1 & tm & E1 & E2 & E3 & Hss & F1 & F2 & F3). subst l1 l2 l3.
    cbn [finish fst snd faulted pst fault_at fault_of lat_at nthZ nth Z.to_nat] in *.
    cbn [lv] in L1, L2. destruct (L1 ltac:(lia)) as (Wt & Hon & _). pose proof Hon as (Hx & _).
    destruct (onp_pc P _ _ _ Hon) as [Hix Hax].
    assert (Hec : is_ecall (sl_instr x1) = true).
    { destruct (is_ecall (sl_instr x1)) eqn:E; [reflexivity|]. exfalso.
      destruct K1 as (R & _). pose proof (instr_supported P Hsup _ _ R) as Hs.
      destruct (ex_stage x1 None None s2 D1 Hs E) as (x2 & He & _). rewrite He in HEXeq. discriminate HEXeq. }
    assert (Hn : normE L' = preE (Some x1) X1).
    { unfold normE, next_ec, preE. rewrite HP2. change (pc (lt L')) with (pc (lt X1)). rewrite Hix, is_ec_some, Hec. reflexivity. }
    unfold estep. rewrite Hn. fold t1 in Hss. rewrite (lstep_fault _ _ _ Hss).
    eexists. split; [reflexivity|].
    split; [unfold single_done, has_instr; rewrite Hex2, HP2; change (pc (lt L')) with (pc (lt X1)); rewrite Hix; reflexivity|].
    split; [right; repeat split; rewrite is_ec_some; exact Hec|].
    cbn [lt regs ms out with_regs].
    pose proof (ex_on_law _ _ _ _ _ _ _ HEXeq) as (_ & Hr3 & _).
    split; [rewrite Hr3, Hr2, lt_preE; reflexivity|]. split; assumption. }
  destruct HEX as (Hne2 & Fr3 & Fm3 & Fe3 & Fi3 & Fb3 & Fp3 & Fpc3 & Fim3 & Hrel2 & Hcase2).
  set (t2 := uview (preE l2 L')) in *.
  assert (HP2u : prog (im t2) = P). { change (prog (im (lt (preE l2 L'))) = P). rewrite lt_preE; exact HP2. }
  assert (Hms3 : ms s3 = ms t2).
  { change (ms s3 = ms (lt (preE l2 L'))). rewrite lt_preE. congruence. }
  destruct (mem_on l2 s3) as [[n3 s4] oe] eqn:HM.
  pose proof (mem_stage P Hsup _ t2 _ _ _ _ _ HP2u L2 Hfd2 Hms3 HM)
    as (Hr4 & Ho4 & He4 & Hi4 & Hpc4 & Him4 & HMEM).
  destruct oe as [e|].
  { destruct HMEM as (x2 & tm & E2 & Hstep & Hm4 & Hrtm). subst l2.
    cbn [finish fst snd faulted pst fault_at fault_of lat_at nthZ nth Z.to_nat].
    cbn [lv] in L2. destruct (L2 Logic.I) as (_ & Hon & _). pose proof Hon as (Hx & _).
    destruct (onp_pc P _ _ _ Hon) as [Hix Hax].
    unfold estep. rewrite (normE_preE _ _ x2 eq_refl HP2 Hon). fold t2. rewrite (lstep_fault _ _ _ Hstep).
    eexists. split; [rewrite Hax; reflexivity|].
    split; [unfold single_done, has_instr; rewrite Hex2, HP2, Hix; reflexivity|].
    split; [left; reflexivity|].
    cbn [lt regs ms out with_regs].
    split; [rewrite Hr4, Fr3, Hr2, lt_preE; reflexivity|]. split; [exact Hm4|].
    assert (Ho3 : out s3 = out s2).
    { destruct Hcase2 as [(H & _)|[(H & _)|(H & _)]]; [exact H|exact H|discriminate H]. }
    rewrite Ho4, Ho3, Hout1. subst X1. rewrite advE_out. fold t2. cbn [adv nonempty]. unfold nxt. rewrite Hstep. reflexivity. }
  destruct HMEM as (Hne3 & Hm4 & Hs3 & Hb4 & Hp4 & Hrel3).
  set (n1 := id_on false l0 l1 l2 s2) in *. set (n4 := option_map wb_slot l3) in *.
  assert (Hs4 : has_stall n4 = false) by (subst n4; destruct l3; reflexivity).
  assert (Hne1 : nonempty n1 = nonempty l0) by apply nonempty_id_on.
  assert (Hf1 : flush_of n1 = None) by apply id_on_flags.
  assert (Hs1 : has_stall n1 = false) by apply nohaz_id_no_stall.
  assert (HE3 : is_ec n3 = is_ec l2).
  { destruct l2 as [x2|], n3 as [x3|]; try contradiction; [|reflexivity].
    destruct Hrel3 as (_ & Hi & _). cbn [is_ec]. rewrite Hi. reflexivity. }
  assert (HE2 : is_ec n2 = is_ec l1).
  { destruct l1 as [x1|], n2 as [x2|]; try contradiction; [|reflexivity].
    destruct Hrel2 as (Hi & _). cbn [is_ec]. rewrite Hi. reflexivity. }
  assert (HE1 : is_ec n1 = is_ec l0).
  { subst n1. destruct l0 as [y|]; [rewrite id_on_some|]; reflexivity. }
  cbn [finish]. cbn [finish fst] in Sh'.
  pose proof (post_normal p n0 n1 n2 n3 n4 s4 Hst Hsv Hs0 Hs3 Hs4 Hf0 Hf1 Hf4) as HPOST. cbv zeta in HPOST.
  destruct (post_fields p [n0; n1; n2; n3; n4] s4) as (Fr & Fm & Fo & Fe & Fi & Fb & Fp & Fim & _).
  pose proof (post_hazards p [n0; n1; n2; n3; n4] s4) as Hhz'. rewrite Hz in Hhz'.
  assert (Hns1 : nost1 (post p [n0; n1; n2; n3; n4] s4)).
  { apply nost1_post; [intros d H; rewrite Hst in H; discriminate H|].
    rewrite new_stall_5 by assumption. rewrite Hs1. destruct (has_stall n2 && above (stalled p) 2); discriminate. }
  match goal with |- context [post p ?nx s4] => set (p' := post p nx s4) in * end.
  change (post p [n0; n1; n2; n3; n4] s4) with p' in HPOST, Fr, Fm, Fo, Fe, Fi, Fb, Fp, Fim, Hhz', Hns1.
  assert (Hregs' : regs (pst p') = regs (lt L')) by congruence.
  assert (Hms' : ms (pst p') = ms (lt X1)) by (subst X1; rewrite advE_ms; fold t2; congruence).
  assert (Hbc' : bcount (pst p') = bcount (lt X1)).
  { subst X1. rewrite advE_bcount. fold t2. rewrite Fb.
    change (bcount t2) with (bcount (lt (preE l2 L'))) in Hb4. rewrite lt_preE in Hb4. lia. }
  assert (Hpcn' : pcount (pst p') = pcount (lt X1)).
  { subst X1. rewrite advE_pcount. fold t2. rewrite Fp.
    change (pcount t2) with (pcount (lt (preE l2 L'))) in Hp4. rewrite lt_preE in Hp4. lia. }
  assert (Hexc' : exitc (pst p') = None) by congruence.
  assert (Hic' : icount (pst p') = icount (lt L')) by (rewrite Fi; lia).
  assert (Hprog' : prog (im (pst p')) = P) by (rewrite Fim, Him4, Fim3, Him2; exact HP1).
  assert (Hout' : out (pst p') = out s3) by congruence.
  assert (Hbf : nonempty n0 = has_instr (im (pst p)) (pc (pst p)) /\
                (nonempty n0 = false -> pc s1 = pc (pst p) /\ instr_at P (pc (pst p)) = None)).
  { unfold has_instr. rewrite HPp. destruct n0 as [x|]; cbn [nonempty].
    - destruct Hn0 as (_ & _ & Hix & _). rewrite Hix. split; [reflexivity|intros E; discriminate E].
    - destruct Hn0 as [Hpc0 Hix]. rewrite Hix. split; [reflexivity|]. intros _. split; [exact Hpc0|reflexivity]. }
  destruct Hbf as [Hbf0 Hbf1].
  destruct (mem_ok_cases_e P Hsup dead _ _ _ K2 HP2u L2 Hfd2 Hrel3)
    as (O2 & [(Hf3 & Hd3 & L3') | [(a & Hf3 & Hn3 & L3' & Hpca & Wn & HPn & Hexn) |
                                  (a & x3 & Hn3 & Hf3 & Wt & Hxt & Hon3 & HM3 & Hok3 & Hexn)]]).
  3:{ (* an exiting ecall moves to latch 3 *)
      rewrite Hf3 in HPOST. destruct HPOST as (Hlat' & Hstl' & Hpc').
      assert (Hl2ne : nonempty l2 = true) by (rewrite <- Hne3, Hn3; reflexivity).
      assert (Ho3 : out s3 = out s2).
      { destruct Hcase2 as [(H & _)|[(H & _)|(H & _)]]; [exact H|exact H|subst l2; discriminate Hl2ne]. }
      assert (Ha3 : advE (Some x3) L' = X1) by (subst X1; apply advE_eq; [rewrite Hl2ne; reflexivity|rewrite <- Hn3; exact HE3]).
      assert (Hp3 : preE (Some x3) L' = preE l2 L') by (apply preE_eq; rewrite <- Hn3; exact HE3).
      split; [|split; [|split; [|split]]].
      - right. exists None, x3, n4. rewrite Hn3 in Hlat'. rewrite Ha3, Hp3. fold t2.
        csplit; try assumption; try congruence.
      - rewrite Hlat'. reflexivity.
      - intros ->. unfold mu4. rewrite Hlat', Hl. lat5. rewrite Hn3. cbn [nonempty]. rewrite Hl2ne, Hst. lia.
      - exact Hns1.
      - eapply EMemFlush; [exact Hlat'|rewrite Hf3; discriminate|exact Hl2ne]. }
  2:{ (* a control transfer redirects from latch 3 *)
      rewrite Hf3 in HPOST. destruct HPOST as (Hlat' & Hstl' & Hpc').
      assert (Hl2ne : nonempty l2 = true) by (rewrite <- Hne3; exact Hn3).
      assert (Ho3 : out s3 = out s2).
      { destruct Hcase2 as [(H & _)|[(H & _)|(H & _)]]; [exact H|exact H|subst l2; discriminate Hl2ne]. }
      assert (Ha3 : advE n3 L' = X1) by (subst X1; apply advE_eq; assumption).
      assert (Hp3 : preE n3 L' = preE l2 L') by (apply preE_eq; exact HE3).
      assert (Hnx : exitc (lt X1) = None /\ pc (lt X1) = a).
      { subst X1. rewrite advE_exitc, advE_pc. fold t2. unfold adv. rewrite Hl2ne. split; assumption. }
      destruct Hnx as [HexX1 HpcX1].
      split; [|split; [|split; [|split]]].
      - left. exists None, None, None, n3, n4, 0%nat. constructor; try assumption; try lia.
        + exact Logic.I.
        + rewrite Hp3. exact L3'.
        + cbn [lv]. lia.
        + cbn [lv]. lia.
        + cbn [lv]. lia.
        + intros _. cbv zeta. rewrite Ha3, !advE_none.
          split; [do 3 apply wfL_bub; exact WX1|]. split; [exact HPX1|]. split; [exact HexX1|].
          change (pc (pst p') = pc (lt X1)). congruence.
        + rewrite Ha3. exact Hms'.
        + rewrite Ha3. exact Hbc'.
        + rewrite Ha3. exact Hpcn'.
        + cbn [fired]. rewrite Ha3. congruence.
        + rewrite Hstl'. reflexivity.
      - rewrite Hlat'. reflexivity.
      - intros ->. unfold mu4. rewrite Hlat', Hl. lat5. rewrite Hn3. cbn [nonempty]. rewrite Hl2ne, Hst. lia.
      - exact Hns1.
      - eapply EMemFlush; [exact Hlat'|rewrite Hf3; discriminate|exact Hl2ne]. }
  rewrite Hf3 in HPOST.
  assert (Hd2 : (dead <= 2)%nat) by lia.
  assert (Ha3 : advE n3 L' = X1) by (subst X1; apply advE_eq; assumption).
  assert (Hp3 : preE n3 L' = preE l2 L') by (apply preE_eq; exact HE3).
  assert (Hl1live : match l1 with Some x1 => wf t1 /\ onp P t1 x1 /\ Dok t1 x1 | None => True end).
  { destruct l1 as [x1|]; [|exact Logic.I]. cbn [lv] in L1. destruct (L1 Hd2) as (a & b & c & _).
    split; [exact a|]. split; [exact b|]. apply c. exact Hst. }
  set (X0 := advE l1 X1) in *.
  assert (HX0 : wfL X0 /\ prog (im (lt X0)) = P).
  { apply wfL_advE; auto.
    - subst X1. rewrite advE_exitc. fold t2. destruct l2 as [x2|]; cbn [adv nonempty]; [|exact Hex2].
      destruct O2 as (_ & _ & Hok2). cbn [lv] in L2. destruct (L2 Logic.I) as (_ & _ & _ & _ & Hpl).
      apply Hpl. exact Hd3.
    - destruct l1 as [x1|]; [apply Hl1live|exact Logic.I]. }
  destruct HX0 as [WX0 HPX0].
  assert (HI : (l2 = None /\ l3 = None /\ has_stall n2 = false /\ fired n2 = true /\
                out s3 = out (nxt t1) /\
                exists a c, flush_of n2 = Some a /\ exitc (nxt t1) = Some c) \/
               (flush_of n2 = None /\
                out s3 = out (lt (if fired n2 then X0 else X1)) /\
                fired n2 = (if has_stall n2 then false else nonempty n2) /\
                (has_stall n2 = true -> nonempty l2 = true \/ nonempty l3 = true) /\
                (is_ec l1 = true -> l2 <> None -> has_stall n2 = true))).
  { destruct Hcase2 as [(Ho3 & Hs2 & Hf2 & Hfd2' & Hnec) | [(Ho3 & Hs2 & Hf2 & Hfd2' & Hbusy) |
        (Hl2 & Hl3 & Hs2 & Hfd2' & Hok1 & Ho3 & [(Hf2 & Hpl1) | (a & c & Hf2 & Hxn1)])]].
    - right. rewrite Hs2, Hfd2', Hne2. csplit; try assumption; try reflexivity; [|intros H; discriminate H|].
      + rewrite Ho3, Hout1. destruct l1 as [x1|]; cbn [nonempty]; [|reflexivity].
        subst X0. rewrite advE_out. fold t1. symmetry.
        replace (out (lt X1)) with (out t1)
          by (change (out t1) with (out (lt (preE (Some x1) X1))); rewrite lt_preE; reflexivity).
        apply (adv_out_ne P Hsup); [apply Hl1live| |].
        * change (prog (im (lt (preE (Some x1) X1))) = P). rewrite lt_preE. exact HPX1.
        * destruct Hl1live as (_ & Hon & _). split; [exact Hon|apply Hnec; reflexivity].
      + intros He _. destruct l1 as [x1|]; [|discriminate He]. rewrite is_ec_some, (Hnec x1 eq_refl) in He. discriminate He.
    - right. rewrite Hs2, Hfd2'. csplit; try assumption; try reflexivity; [|intros _; exact Hbusy].
      rewrite Ho3, Hout1. reflexivity.
    - right. rewrite Hs2, Hfd2'. csplit; try assumption; try reflexivity; [| |intros H; discriminate H|intros _ H; contradiction].
      + rewrite Ho3. destruct l1 as [x1|], n2 as [x2|]; try contradiction; try discriminate Hfd2'.
        subst X0. rewrite advE_out. reflexivity.
      + destruct n2; [reflexivity|discriminate Hfd2'].
    - left. csplit; try assumption. exists a, c. split; assumption. }
  destruct HI as [(Hl2 & Hl3 & Hs2 & Hfd2' & Ho3 & a & c & Hf2 & Hxn1) | (Hf2 & HoutI & HfI & HbusyI & HbusyE)].
  { (* the ecall fires and exits: flush from latch 2 *)
      subst l2 l3. rewrite Hf2 in HPOST. destruct HPOST as (Hlat' & Hpc' & Hstl'). specialize (Hstl' Hs2).
      destruct n3 as [?|]; [discriminate Hne3|]. subst n4. cbn [option_map] in *.
      destruct l1 as [x1|], n2 as [x2|]; try contradiction; try discriminate Hfd2'.
      destruct Hl1live as (Wt & Hon1 & Hdk1). destruct Hrel2 as (Hix2 & Hax2 & HEk2).
      assert (Hpe2 : preE (Some x2) (advE None L') = preE (Some x1) X1) by (apply preE_eq; exact HE2).
      assert (Hec2 : sl_instr x2 = IEcall).
      { destruct K1 as (R1 & _). destruct (is_ecall (sl_instr x1)) eqn:E; [rewrite Hix2; apply is_ecall_true; exact E|].
        exfalso. pose proof (instr_supported P Hsup _ _ R1) as Hs.
        destruct (ex_stage x1 None None s2 D1 Hs E) as (y2 & He & _ & _ & _ & Hfy & _).
        rewrite He in HEXeq. injection HEXeq as E2 _. subst y2. cbn [flush_of] in Hf2. rewrite Hfy in Hf2. discriminate Hf2. }
      split; [|split; [|split; [|split]]].
      - left. exists None, None, (Some x2), None, None, 3%nat. constructor; try assumption; try lia.
        + rewrite Hpe2. fold t1. cbn [lv]. intros _. split; [exact Wt|].
          split; [unfold onp; rewrite Hix2, Hax2; exact Hon1|]. split; [apply HEk2; exact Hdk1|].
          split; [|intros H; exfalso; apply H; reflexivity].
          intros _ (_ & Hx & _). rewrite Hxn1 in Hx. discriminate Hx.
        + cbn [lv]. lia.
        + cbn [lv]. lia.
        + rewrite Hfd2'. unfold advE at 1. rewrite Hpe2. rewrite advL_out. fold t1. cbn [adv nonempty]. congruence.
        + rewrite Hstl', Hfd2'. reflexivity.
      - rewrite Hlat'. reflexivity.
      - intros _. unfold mu4, dcount. rewrite Hlat', Hl, Hst, Hstl'. lat5. cbn [nonempty]. lia.
      - exact Hns1.
      - eapply EExFlush; [exact Hlat'|exact Hec2|cbn [flush_of] in *; rewrite Hf2; discriminate|reflexivity|left; reflexivity]. }
  rewrite Hf2 in HPOST. destruct HPOST as (Hlat' & Hpc' & Hstl'). rewrite Hs1 in Hstl'.
  assert (Hfl2 : flush_of l2 = None).
  { destruct l2 as [x2|]; [|reflexivity]. destruct n3 as [x3|]; [|contradiction].
    destruct Hrel3 as (_ & Hi3 & _ & Hfl3 & _). destruct K2 as (_ & _ & Hfw & Hexi & _).
    cbn [flush_of] in *. rewrite Hfw. unfold wb_flush. destruct (sl_exit x2) eqn:E; [|reflexivity]. exfalso.
    pose proof (Hexi ltac:(discriminate)) as Hec.
    rewrite Hfl3, (mem_flush_ecall x2 Hec) in Hf3. unfold wb_flush in Hf3. rewrite E in Hf3. discriminate Hf3. }
  set (LF := advE l0 X0) in *.
  destruct (new_fetch P dead (uview (preE n0 LF)) n0 (pc (pst p)) (pc s1)) as (dead' & Hdd & L0' & HF').
  { intros H0. destruct (HF H0) as (a & b & c & d).
    split; [apply wfL_uview, wfL_preE; exact a|].
    split; [change (prog (im (lt (preE n0 LF))) = P); rewrite lt_preE; exact b|].
    split; [change (exitc (lt (preE n0 LF)) = None); rewrite lt_preE; exact c|].
    change (pc (pst p) = pc (lt (preE n0 LF))). rewrite lt_preE. exact d. }
  { destruct n0; [destruct Hn0 as (a & b & c & _); csplit; assumption|apply Hn0]. }
  assert (Ha2 : advE n2 X1 = X0) by (subst X0; apply advE_eq; assumption).
  assert (Hpe2 : preE n2 X1 = preE l1 X1) by (apply preE_eq; exact HE2).
  assert (Ha1 : advE n1 X0 = LF) by (subst LF; apply advE_eq; assumption).
  assert (Hp1' : preE n1 X0 = preE l0 X0) by (apply preE_eq; exact HE1).
  split; [|split; [|split; [|split]]].
  - left. exists n0, n1, n2, n3, n4, dead'. constructor; try assumption; try lia.
    + subst n1. destruct l0; [rewrite id_on_some; apply id_slot_Dsh|exact Logic.I].
    + rewrite Hp3. exact L3'.
    + rewrite Ha3, Hpe2. fold t1.
      apply (lv_map P _ _ _ _ _ _ _ _ _ L1); try lia.
      destruct l1 as [x1|], n2 as [x2|]; try contradiction; [|exact Logic.I].
      destruct Hrel2 as (a & b & c). split; [exact a|]. split; [exact b|]. intros _ _ _ Hc. apply c, Hc, Hst.
    + rewrite Ha3, Ha2, Hp1'.
      apply (lv_map P _ _ _ _ _ _ _ _ _ L0); try lia.
      subst n1. destruct l0 as [y|]; [rewrite id_on_some|exact Logic.I].
      split; [reflexivity|]. split; [reflexivity|]. intros Hlv Wt0 (_ & Hay & _) _ Hstl.
      destruct (is_ecall (sl_instr y)) eqn:Ey.
      * apply Dok_ecall; [apply is_ecall_true; exact Ey|exact Wt0| |exact Hay].
        rewrite Hr2. apply (wf_r _ (proj1 WL2)).
      * apply id_operands_exact; [|exact Hay].
        change (regs s2 = lr2 (preE (Some y) X0)). unfold preE. rewrite is_ec_some, Ey.
        subst X0 X1. rewrite Hr2. symmetry. apply lr2_advE2.
        destruct (is_ec l1) eqn:E1; [|left; reflexivity]. destruct l2 as [x2|]; [|right; reflexivity].
        exfalso. rewrite (HbusyE eq_refl ltac:(discriminate)) in Hstl'. rewrite Hstl' in Hstl. discriminate Hstl.
    + rewrite Ha3, Ha2, Ha1. exact L0'.
    + rewrite Ha3, Ha2, Ha1. intros H0. cbv zeta. destruct (HF' H0) as (a & b & c & d).
      assert (Hd0 : dead = 0%nat) by lia. destruct (HF Hd0) as (WLF & HPF & HexF & HpcF).
      assert (WLF' : wfL (advE n0 LF) /\ prog (im (lt (advE n0 LF))) = P).
      { apply wfL_advE; auto. destruct n0 as [x|]; [|exact Logic.I]. cbn [lv] in L0'. apply (L0' ltac:(lia)). }
      destruct WLF' as [WLF' HPF'].
      split; [exact WLF'|]. split; [exact HPF'|].
      split; [rewrite advE_exitc; exact c|]. rewrite advE_pc. congruence.
    + rewrite Ha3. exact Hms'.
    + rewrite Ha3. exact Hbc'.
    + rewrite Ha3. exact Hpcn'.
    + rewrite Ha3, Ha2, Hout'. exact HoutI.
    + rewrite Hstl', HfI. destruct (has_stall n2); reflexivity.
  - rewrite Hlat'. reflexivity.
  - intros ->. unfold mu4, dcount. rewrite Hlat', Hl, Hst, Hstl'. lat5.
    rewrite Hne3, Hne2, Hne1. cbn [nonempty].
    destruct l2 as [x2|]; cbn [nonempty]; [lia|].
    assert (Hs2 : has_stall n2 = false).
    { destruct (has_stall n2); [|reflexivity]. destruct (HbusyI eq_refl) as [H|H]; discriminate H. }
    rewrite Hs2.
    destruct l1 as [x1|]; cbn [nonempty]; [lia|].
    destruct l0 as [x0|]; cbn [nonempty]; [lia|].
    destruct n0 as [x|]; cbn [nonempty]; [lia|]. exfalso.
    destruct Hn0 as [_ Hn0]. unfold pipe_done, pipe_empty in Hnd. rewrite Hexc, Hl in Hnd. lat5h Hnd.
    cbn [nonempty orb negb andb] in Hnd. unfold has_instr in Hnd. rewrite HPp in Hnd.
    rewrite Hn0 in Hnd. discriminate Hnd.
  - exact Hns1.
  - eapply EShift; try eassumption. intros E0. destruct (Hbf1 E0) as [Hq1 Hq2].
    unfold has_instr. rewrite Hprog', Hpc', Hpc4, Fpc3, Hpc2, Hq1, Hq2. reflexivity.
Qed.

End Step.
