(* SchedPrefixLink.v — the timing invariant of Proofs/SchedLink.v without the hypothesis that the
   single-cycle run terminates: the single-cycle run from s0 makes N steps without fault and is not
   done before; either nothing is known about step N (BN = false: the invariant is then used only
   while every instruction in flight has index < N), or step N faults (BN = true).  In the second
   case instruction N is the barrier of the simulation invariant behind which slots are wrong-path;
   the event stream [evm] marks it as redirecting, which does not change its own execute cycle. *)
From Coq Require Import Lia ZifyBool.
From ArchSim Require Import Model.Base Model.Mem Model.Cache Model.Fmt Model.RV Model.Single
  Model.RVSplit Model.Pipe Proofs.WordLemmas Proofs.C01Step Proofs.SplitExec Proofs.C02Split
  Proofs.PipeLaws Proofs.PipeShape Proofs.PipeInv Proofs.PipeInvBase Proofs.PipeInvStages
  Proofs.PipeInvStraight Proofs.PipeInvControl Proofs.PipeInvEcall Proofs.SchedDefs Proofs.SchedRec
  Proofs.SchedStep Proofs.SchedInv Proofs.SchedLink Proofs.SchedPrefixFault.
Open Scope Z_scope.

Ltac Zify.zify_post_hook ::= Z.to_euclidean_division_equations.
Local Arguments Z.mul : simpl never.
Local Arguments Z.add : simpl never.
Local Arguments Z.sub : simpl never.
Local Arguments Z.of_nat : simpl never.

Definition mark (e : event) : event :=
  {| ev_addr := ev_addr e; ev_srcs := ev_srcs e; ev_dst := ev_dst e; ev_redirect := true;
     ev_ecall := ev_ecall e |}.

(* [T] bounds the time by the execute cycle of the oldest instruction not yet retired (any stream) *)
Lemma T_bound_gen ev N t o0 o1 o2 o3 md k : T ev N t o0 o1 o2 o3 md k -> (k < N)%nat -> (t <= X ev k + 1)%nat.
Proof.
  intros [R H3 H2 H1 H0 HF] Hk.
  destruct o3; [specialize (H3 eq_refl); lia|].
  destruct o2; [specialize (H2 eq_refl); unfold j2 in H2; cbn [b2n] in H2; rewrite Nat.add_0_r in H2; lia|].
  destruct o1.
  { unfold deadf, j1, j2 in H1. cbn [b2n andb] in H1. rewrite !Nat.add_0_r in H1.
    assert (Hd : ((if rd ev k then 2 else if o0 && rd ev (j0 true false false k) then 1 else 0) <= 2)%nat)
      by (destruct (rd ev k); [lia|]; destruct (o0 && _); lia).
    specialize (H1 eq_refl Hd). lia. }
  destruct o0.
  { unfold deadf, j0, j1, j2 in H0. cbn [b2n andb] in H0. rewrite !Nat.add_0_r in H0.
    assert (Hd : ((if rd ev k then 1 else 0) <= 1)%nat) by (destruct (rd ev k); lia).
    destruct (H0 eq_refl Hd eq_refl) as (Hx & _). lia. }
  unfold deadf, jF, j0, j1, j2 in HF. cbn [b2n andb] in HF. rewrite !Nat.add_0_r in HF.
  destruct (HF eq_refl eq_refl Hk) as (Hx & _). lia.
Qed.

Section Link.
Variable P : list instr.
Hypothesis Hsup : Forall (fun i => supported i = true) P.
Variable s0 : st.
Variable N : nat.
Hypothesis HN1 : forall j, (j < N)%nat ->
  single_done (sigma j s0) = false /\ snd (single_pipeline_step (sigma j s0)) = None.
Variable BN : bool.
Hypothesis HNb : BN = true ->
  single_done (sigma N s0) = false /\ snd (single_pipeline_step (sigma N s0)) <> None.

Notation evo := (ev s0).
Definition evm (j : nat) : event := if BN && (j =? N)%nat then mark (evo j) else evo j.
Definition NT : nat := (N + b2n BN)%nat.
(* the states in which the invariant is used: k instructions retired *)
Definition inr (k : nat) : Prop := if BN then (k <= N)%nat else (k + 5 <= N)%nat.

Lemma evm_ec j : ec evm j = ec evo j.
Proof. unfold ec, evm. destruct (BN && (j =? N)%nat); reflexivity. Qed.
Lemma evm_dst a b : dst_in (evm a) (evm b) = dst_in (evo a) (evo b).
Proof. unfold evm. destruct (BN && (a =? N)%nat), (BN && (b =? N)%nat); reflexivity. Qed.
Lemma evm_rd j : rd evm j = (BN && (j =? N)%nat) || rd evo j.
Proof. unfold rd, evm. destruct (BN && (j =? N)%nat); reflexivity. Qed.
Lemma evm_nodst j e : ev_ecall (evm j) = true -> dst_in (evm j) e = false.
Proof.
  unfold evm. destruct (BN && (j =? N)%nat); [|apply ev_ecall_nodst].
  intros H. apply (ev_ecall_nodst s0 j e) in H. exact H.
Qed.

Notation lat_ := (live_at P s0).

(* a live slot whose single-cycle step is fine is not instruction N when that one faults *)
Lemma ok_lt j : snd (single_pipeline_step (sigma j s0)) = None ->
  (if BN then (j <= N)%nat else (j < N)%nat) -> (j < N)%nat.
Proof.
  intros Hok Hj. destruct BN eqn:E; [|exact Hj].
  destruct (Nat.eq_dec j N) as [->|]; [|lia]. destruct (HNb eq_refl) as [_ Hf]. congruence.
Qed.

(* one latch of the invariant: its slot is live; it is the barrier iff its event redirects *)
Lemma lv_bar' j l (live bar : Prop) C : bar \/ ~ bar -> lv P live bar (sigma j s0) l C -> live ->
  prog (im (sigma j s0)) = P -> (if BN then (j <= N)%nat else (j < N)%nat) ->
  (forall x, l = Some x -> lat_ j x) /\ (bar <-> oc l && rd evm j = true) /\
  (~ bar -> oc l = true -> (j < N)%nat).
Proof.
  intros Hdec L Hlv HP Hj. destruct l as [x|]; cbn [lv oc nonempty andb] in *.
  - destruct (L Hlv) as (W & Hon & _ & Hb & Hnb).
    assert (Lx : lat_ j x) by (split; [exact W|split; [exact HP|exact Hon]]).
    split; [intros y Hy; injection Hy as <-; exact Lx|].
    assert (Hpl : (j < N)%nat -> (plain (sigma j s0) (sl_instr x) <-> rd evm j = false)).
    { intros Hlt. rewrite evm_rd. replace (j =? N)%nat with false by lia. rewrite Bool.andb_false_r. cbn [orb].
      apply (live_plain P Hsup s0 N HN1 j x Lx Hlt). }
    assert (Hnp : ~ bar -> (j < N)%nat).
    { intros NB. apply Hnb in NB. apply ok_lt; [apply NB|exact Hj]. }
    split; [|intros NB _; apply Hnp; exact NB].
    split.
    + intros B. destruct (rd evm j) eqn:E; [reflexivity|]. exfalso.
      assert (Hlt : (j < N)%nat).
      { destruct (Nat.eq_dec j N) as [->|]; [|destruct BN; lia].
        rewrite evm_rd, Nat.eqb_refl in E. destruct BN; [discriminate E|lia]. }
      apply (Hb B). apply (Hpl Hlt). reflexivity.
    + intros E. destruct Hdec as [B|NB]; [exact B|]. pose proof (Hnp NB) as Hlt.
      apply Hnb in NB. apply (Hpl Hlt) in NB. congruence.
  - split; [intros y Hy; discriminate Hy|]. split; [|intros _ H; discriminate H].
    split; [intros B; exfalso; exact (L B)|intros E; discriminate E].
Qed.

Definition bnd (j : nat) : Prop := if BN then (j <= N)%nat else (j < N)%nat.

Lemma b2n_le1 b : (b2n b <= 1)%nat. Proof. destruct b; cbn; lia. Qed.

Lemma inr_t k : BN = true -> inr k -> (k <= N)%nat.
Proof. unfold inr. intros ->. exact (fun H => H). Qed.
Lemma inr_f k : BN = false -> inr k -> (k + 5 <= N)%nat.
Proof. unfold inr. intros ->. exact (fun H => H). Qed.
Lemma bnd_intro j : (BN = true -> (j <= N)%nat) -> (BN = false -> (j < N)%nat) -> bnd j.
Proof. unfold bnd. destruct BN; intros A B; [apply A|apply B]; reflexivity. Qed.
Lemma bnd_ok j : bnd j -> if BN then (j <= N)%nat else (j < N)%nat.
Proof. exact (fun H => H). Qed.
Lemma inr_intro k : (BN = true -> (k <= N)%nat) -> (BN = false -> (k + 5 <= N)%nat) -> inr k.
Proof. unfold inr. destruct BN; intros A B; [apply A|apply B]; reflexivity. Qed.
Lemma BN_dec : {BN = true} + {BN = false}.
Proof. destruct BN; [left|right]; reflexivity. Qed.
Lemma inr_bnd k : inr k -> bnd k.
Proof. unfold inr, bnd. destruct BN; lia. Qed.

Section Facts.
Variables (p : pstate) (k : nat) (l0 l1 l2 l3 l4 : latch) (dead : nat).
Hypothesis IV : InvAt P p (sigma k s0) l0 l1 l2 l3 l4 dead.
Hypothesis Hk : inr k.

Let o0 := oc l0. Let o1 := oc l1. Let o2 := oc l2. Let o3 := oc l3.
Let J2 := j2 o3 k. Let J1 := j1 o2 o3 k. Let J0 := j0 o1 o2 o3 k. Let JF := jF o0 o1 o2 o3 k.

Lemma pfact3 : forall x, l3 = Some x -> lat_ k x /\ (k < N)%nat.
Proof.
  clear o0 o1 o2 o3 J2 J1 J0 JF.
  intros x E. pose proof (iv_l3 _ _ _ _ _ _ _ _ _ IV) as L3. rewrite E in L3. cbn [lv3] in L3.
  destruct L3 as (W & Hon & _ & Hok & _).
  split; [split; [exact W|split; [exact (iv_progs _ _ _ _ _ _ _ _ _ IV)|exact Hon]]|].
  apply ok_lt; [exact Hok|]. apply bnd_ok, inr_bnd, Hk.
Qed.

Lemma pfact_J2 : bnd J2 /\ wf (sigma J2 s0) /\ prog (im (sigma J2 s0)) = P.
Proof.
  subst J2 o3. unfold j2. split.
  - pose proof (b2n_le1 (oc l3)) as B3.
    apply bnd_intro; intros EB; [pose proof (inr_t _ EB Hk)|pose proof (inr_f _ EB Hk); lia].
    destruct (oc l3) eqn:E; cbn [b2n]; [|lia].
    destruct (oc_some _ E) as [x Hx]. destruct (pfact3 x Hx) as [_ Hlt]. lia.
  - apply (adv_live P s0 N HN1); [exact (iv_wf _ _ _ _ _ _ _ _ _ IV)|exact (iv_progs _ _ _ _ _ _ _ _ _ IV)|].
    intros x Hx. apply (pfact3 x Hx).
Qed.

Lemma pfact2 : (forall x, l2 = Some x -> lat_ J2 x) /\ (dead = 3%nat <-> o2 && rd evm J2 = true) /\
  (dead <> 3%nat -> o2 = true -> (J2 < N)%nat).
Proof.
  destruct pfact_J2 as (Hj & W & HP).
  pose proof (iv_l2 _ _ _ _ _ _ _ _ _ IV) as L2. rewrite (adv_idx s0 N HN1) in L2. fold o3 in L2. fold (j2 o3 k) in L2.
  apply (lv_bar' J2 l2 True (dead = 3%nat) Eok); try assumption; [lia|exact Logic.I].
Qed.

Lemma pfact_J1 : (dead <= 2)%nat -> bnd J1 /\ wf (sigma J1 s0) /\ prog (im (sigma J1 s0)) = P.
Proof.
  intros Hd. destruct pfact_J2 as (Hj & W & HP). destruct pfact2 as (F2 & _ & Hlt). subst J1 o2. unfold j1. fold J2. split.
  - pose proof (b2n_le1 (oc l3)) as B3. pose proof (b2n_le1 (oc l2)) as B2.
    apply bnd_intro; intros EB; [|pose proof (inr_f _ EB Hk); subst J2 o3; unfold j2 in *; lia].
    pose proof Hj as Hj'. unfold bnd in Hj'. rewrite EB in Hj'.
    destruct (oc l2) eqn:E; cbn [b2n]; [|lia]. specialize (Hlt ltac:(lia) eq_refl). lia.
  - apply (adv_live P s0 N HN1); assumption.
Qed.

Lemma pfact1 : (dead <= 2)%nat ->
  (forall x, l1 = Some x -> lat_ J1 x) /\ (dead = 2%nat <-> o1 && rd evm J1 = true) /\
  (dead <> 2%nat -> o1 = true -> (J1 < N)%nat).
Proof.
  intros Hd. destruct (pfact_J1 Hd) as (Hj & W & HP).
  pose proof (iv_l1 _ _ _ _ _ _ _ _ _ IV) as L1. rewrite !(adv_idx s0 N HN1) in L1.
  fold o3 o2 in L1. fold (j2 o3 k) (j1 o2 o3 k) in L1.
  apply (lv_bar' J1 l1 _ (dead = 2%nat) _ ltac:(lia) L1); assumption.
Qed.

Lemma pfact_J0 : (dead <= 1)%nat -> bnd J0 /\ wf (sigma J0 s0) /\ prog (im (sigma J0 s0)) = P.
Proof.
  intros Hd. destruct (pfact_J1 ltac:(lia)) as (Hj & W & HP). destruct (pfact1 ltac:(lia)) as (F1 & _ & Hlt).
  subst J0 o1. unfold j0. fold J1. split.
  - pose proof (b2n_le1 (oc l3)) as B3. pose proof (b2n_le1 (oc l2)) as B2.
    pose proof (b2n_le1 (oc l1)) as B1.
    apply bnd_intro; intros EB; [|pose proof (inr_f _ EB Hk); subst J1 J2 o2 o3; unfold j1, j2 in *; lia].
    pose proof Hj as Hj'. unfold bnd in Hj'. rewrite EB in Hj'.
    destruct (oc l1) eqn:E; cbn [b2n]; [|lia]. specialize (Hlt ltac:(lia) eq_refl). lia.
  - apply (adv_live P s0 N HN1); assumption.
Qed.

Lemma pfact0 : (dead <= 1)%nat ->
  (forall x, l0 = Some x -> lat_ J0 x) /\ (dead = 1%nat <-> o0 && rd evm J0 = true) /\
  (dead <> 1%nat -> o0 = true -> (J0 < N)%nat).
Proof.
  intros Hd. destruct (pfact_J0 Hd) as (Hj & W & HP).
  pose proof (iv_l0 _ _ _ _ _ _ _ _ _ IV) as L0. rewrite !(adv_idx s0 N HN1) in L0.
  fold o3 o2 o1 in L0. fold (j2 o3 k) (j1 o2 o3 k) (j0 o1 o2 o3 k) in L0.
  apply (lv_bar' J0 l0 _ (dead = 1%nat) _ ltac:(lia) L0); assumption.
Qed.

Lemma pfact_dead : dead = deadf evm o0 o1 o2 o3 k.
Proof.
  pose proof (iv_dead _ _ _ _ _ _ _ _ _ IV) as Hd3. destruct pfact2 as (_ & H2 & _).
  unfold deadf. fold J2 J1 J0.
  destruct (o2 && rd evm J2); [apply H2; reflexivity|].
  assert (Hd2 : (dead <= 2)%nat) by (destruct (Nat.eq_dec dead 3) as [E|]; [apply H2 in E; discriminate E|lia]).
  destruct (pfact1 Hd2) as (_ & H1 & _).
  destruct (o1 && rd evm J1); [apply H1; reflexivity|].
  assert (Hd1 : (dead <= 1)%nat) by (destruct (Nat.eq_dec dead 2) as [E|]; [apply H1 in E; discriminate E|lia]).
  destruct (pfact0 Hd1) as (_ & H0 & _).
  destruct (o0 && rd evm J0); [apply H0; reflexivity|].
  destruct (Nat.eq_dec dead 1) as [E|]; [apply H0 in E; discriminate E|lia].
Qed.

Lemma pfactF : dead = 0%nat ->
  bnd JF /\ wf (sigma JF s0) /\ prog (im (sigma JF s0)) = P /\ exitc (sigma JF s0) = None /\
  pc (pst p) = pc (sigma JF s0).
Proof.
  intros Hd. destruct (pfact_J0 ltac:(lia)) as (Hj & W & HP). destruct (pfact0 ltac:(lia)) as (F0 & _ & Hlt).
  pose proof (iv_fetch _ _ _ _ _ _ _ _ _ IV Hd) as HF. cbv zeta in HF. rewrite !(adv_idx s0 N HN1) in HF.
  fold o3 o2 o1 o0 in HF. fold (j2 o3 k) (j1 o2 o3 k) (j0 o1 o2 o3 k) (jF o0 o1 o2 o3 k) in HF. fold JF in HF.
  destruct HF as (WF & HPF & HexF & HpcF). split; [|split; [exact WF|split; [exact HPF|split; [exact HexF|exact HpcF]]]].
  subst JF o0. unfold jF. fold J0.
  pose proof (b2n_le1 (oc l3)) as B3. pose proof (b2n_le1 (oc l2)) as B2.
  pose proof (b2n_le1 (oc l1)) as B1. pose proof (b2n_le1 (oc l0)) as B0.
  apply bnd_intro; intros EB; [|pose proof (inr_f _ EB Hk); subst J0 J1 J2 o1 o2 o3; unfold j0, j1, j2 in *; lia].
  pose proof Hj as Hj'. unfold bnd in Hj'. rewrite EB in Hj'.
  destruct (oc l0) eqn:E; cbn [b2n]; [|lia]. specialize (Hlt ltac:(lia) eq_refl). lia.
Qed.

End Facts.

(** * The flags of SchedStep.v in terms of the events *)
Section Flags.
Variables (p : pstate) (k : nat) (l0 l1 l2 l3 l4 : latch) (dead : nat).
Hypothesis IV : InvAt P p (sigma k s0) l0 l1 l2 l3 l4 dead.
Hypothesis Hk : inr k.
Let o0 := oc l0. Let o1 := oc l1. Let o2 := oc l2. Let o3 := oc l3.

Lemma pbusy_link : (dead <= 2)%nat ->
  busyf l1 l2 l3 = o1 && ec evm (j1 o2 o3 k) && (o2 || o3).
Proof.
  intros Hd. destruct (pfact1 p k l0 l1 l2 l3 l4 dead IV Hk Hd) as [F1 _].
  subst o1 o2 o3. unfold busyf. fold (oc l2) (oc l3). f_equal. rewrite evm_ec.
  destruct (oc l1) eqn:E; cbn [andb].
  - destruct (oc_some _ E) as [x Hx]. unfold ec. rewrite (live_ev P s0 _ x (F1 x Hx)), Hx. reflexivity.
  - destruct l1; [discriminate E|reflexivity].
Qed.

Lemma phz_link : (dead <= 1)%nat -> o0 = true ->
  hzflag l0 l1 l2 = (o1 && dst_in (evm (j1 o2 o3 k)) (evm (j0 o1 o2 o3 k))) ||
                    (o2 && dst_in (evm (j2 o3 k)) (evm (j0 o1 o2 o3 k))).
Proof.
  intros Hd Ho0. destruct (pfact0 p k l0 l1 l2 l3 l4 dead IV Hk Hd) as [F0 _].
  destruct (pfact1 p k l0 l1 l2 l3 l4 dead IV Hk ltac:(lia)) as [F1 _].
  destruct (pfact2 p k l0 l1 l2 l3 l4 dead IV Hk) as [F2 _].
  subst o0 o1 o2 o3. destruct (oc_some _ Ho0) as [y Hy]. rewrite !evm_dst.
  rewrite (live_ev P s0 _ y (F0 y Hy)). rewrite Hy. cbn [hzflag]. f_equal.
  - destruct (oc l1) eqn:E; cbn [andb].
    + destruct (oc_some _ E) as [x Hx]. rewrite (live_ev P s0 _ x (F1 x Hx)), dst_in_reads, Hx. reflexivity.
    + destruct l1; [discriminate E|reflexivity].
  - destruct (oc l2) eqn:E; cbn [andb].
    + destruct (oc_some _ E) as [x Hx]. rewrite (live_ev P s0 _ x (F2 x Hx)), dst_in_reads, Hx. reflexivity.
    + destruct l2; [discriminate E|reflexivity].
Qed.

Lemma pfetch_link : dead = 0%nat ->
  is_some (instr_at P (pc (pst p))) = (jF o0 o1 o2 o3 k <? NT)%nat.
Proof.
  intros Hd. destruct (pfactF p k l0 l1 l2 l3 l4 dead IV Hk Hd) as (Hj & W & HP & Hex & Hpc).
  fold o0 o1 o2 o3 in Hj, W, HP, Hex, Hpc. set (JF := jF o0 o1 o2 o3 k) in *. rewrite Hpc.
  assert (Hnd : single_done (sigma JF s0) = false /\ (JF < NT)%nat).
  { unfold NT. apply bnd_ok in Hj. destruct BN eqn:EB; cbn [b2n].
    - destruct (Nat.eq_dec JF N) as [E|NE]; [rewrite E; split; [apply (HNb eq_refl)|lia]|].
      split; [apply (HN1 JF); lia|lia].
    - split; [apply (HN1 JF Hj)|lia]. }
  destruct Hnd as [Hnd Hlt]. replace (JF <? NT)%nat with true by lia.
  unfold single_done, has_instr in Hnd. rewrite Hex, HP in Hnd.
  destruct (instr_at P (pc (sigma JF s0))); [reflexivity|discriminate Hnd].
Qed.

Lemma pexit_redirect j x : lat_ j x -> exitc (nxt (sigma j s0)) <> None -> rd evm j = true.
Proof. intros L Hx. rewrite evm_rd, (exit_redirect P s0 j x L Hx). apply Bool.orb_true_r. Qed.

End Flags.

(** * One cycle: the view of the new state satisfies [T] one step later *)
Lemma pview_step t p k l0 l1 l2 l3 l4 dead p' :
  InvAt P p (sigma k s0) l0 l1 l2 l3 l4 dead -> inr k ->
  T evm NT t (oc l0) (oc l1) (oc l2) (oc l3) (stalled p) k ->
  pipe_step p = (p', None) ->
  exists n0 n1 n2 n3 n4, lat p' = [n0; n1; n2; n3; n4] /\
    T evm NT (S t) (oc n0) (oc n1) (oc n2) (oc n3) (stalled p') (k + b2n (oc l3)).
Proof.
  intros IV Hk HT Hps. pose proof (iv_shape _ _ _ _ _ _ _ _ _ IV) as Sh.
  pose proof (pfact_dead p k l0 l1 l2 l3 l4 dead IV Hk) as Hdead.
  destruct (pfact2 p k l0 l1 l2 l3 l4 dead IV Hk) as (F2 & Hd3 & _).
  (* the cycle redirects from MEM *)
  assert (HA : forall md, stalled p = md -> m2 md = 0%nat -> flush3 p' l2 dead ->
            exists n0 n1 n2 n3 n4, lat p' = [n0; n1; n2; n3; n4] /\
              T evm NT (S t) (oc n0) (oc n1) (oc n2) (oc n3) (stalled p') (k + b2n (oc l3))).
  { intros md Hmd Hm2 (n3 & n4 & Hlat & Hn3 & Hn2 & Hd & Hst').
    exists None, None, None, n3, n4. split; [exact Hlat|]. rewrite Hst'. cbn [oc nonempty]. fold (oc n3).
    rewrite (oc_true_some _ Hn3). rewrite Hmd in HT. fold (oc l2) in Hn2. rewrite Hn2 in HT, Hd3.
    apply (T_flush3 evm NT evm_nodst t (oc l0) (oc l1) (oc l3) md k HT); [|exact Hm2].
    cbn [andb] in Hd3. apply Hd3. exact Hd. }
  destruct (shape_mode_cases no_icache p Sh) as [Hst|(km & d & Hst & [-> | ->])].
  - (* not stalled *)
    destruct (ctl_normal P Hsup p _ l0 l1 l2 l3 l4 dead p' IV Hst Hps)
      as [HF3 | [(Hl2 & Hl3 & Hec & (n2 & n4 & Hlat & Hn2 & Hst' & Hfd & Hex)) |
              (n0 & n1 & n2 & n3 & n4 & Hlat & Hdn3 & Hn0 & Hn1 & Hn2 & Hn3 & Hst')]].
    + apply (HA None Hst eq_refl HF3).
    + (* an ecall fires and exits *)
      exists None, None, n2, None, n4. split; [exact Hlat|]. rewrite Hst'. cbn [oc nonempty]. fold (oc n2).
      rewrite (oc_true_some _ Hn2). rewrite Hst in HT. subst l2 l3. cbn [oc nonempty b2n] in *.
      rewrite Nat.add_0_r.
      assert (Ho1 : oc l1 = true) by (destruct l1; [reflexivity|discriminate Hec]).
      rewrite Ho1 in HT. apply (T_exit_normal evm NT evm_nodst t (oc l0) k HT).
      destruct (oc_some _ Ho1) as [x1 Hx1].
      destruct (pfact1 p k l0 l1 None None l4 dead IV Hk) as [F1 _].
      { destruct (Nat.eq_dec dead 3) as [E|]; [apply Hd3 in E; discriminate E|].
        pose proof (iv_dead _ _ _ _ _ _ _ _ _ IV). lia. }
      specialize (F1 x1 Hx1). unfold j1, j2 in F1. cbn [oc nonempty b2n] in F1. rewrite !Nat.add_0_r in F1.
      apply (pexit_redirect k x1 F1 Hex).
    + (* every slot moves on *)
      exists n0, n1, n2, n3, n4. split; [exact Hlat|]. unfold oc at 1 2 3 4. rewrite Hn1, Hn2, Hn3, Hst'.
      fold (oc l0) (oc l1) (oc l2). fold (oc n0). rewrite Hst in HT.
      assert (Hd2 : (dead <= 2)%nat) by (pose proof (iv_dead _ _ _ _ _ _ _ _ _ IV); lia).
      apply (T_shift evm NT evm_nodst t (oc l0) (oc l1) (oc l2) (oc l3) k (oc n0)
               (hzflag l0 l1 l2) (busyf l1 l2 l3) HT).
      * rewrite <- Hdead. exact Hdn3.
      * apply (pbusy_link p k l0 l1 l2 l3 l4 dead IV Hk Hd2).
      * intros Ho0 Hd1. rewrite <- Hdead in Hd1. apply (phz_link p k l0 l1 l2 l3 l4 dead IV Hk Hd1 Ho0).
      * intros Ho0. destruct l0; [discriminate Ho0|reflexivity].
      * intros Hd0. rewrite <- Hdead in Hd0. unfold oc at 1. rewrite Hn0.
        apply (pfetch_link p k l0 l1 l2 l3 l4 dead IV Hk Hd0).
  - (* stalled at ID *)
    destruct (ctl_stall1 P Hsup p _ l0 l1 l2 l3 l4 dead d p' IV Hst Hps)
      as (Hd12 & Hl1 & Hd1 & [HF3 | (n1 & n3 & n4 & Hlat & Hdn3 & Hn1 & Hn3 & Hst')]).
    + apply (HA (Some (1, d)) Hst eq_refl HF3).
    + exists l0, n1, None, n3, n4. split; [exact Hlat|]. unfold oc at 2 3 4. rewrite Hn1, Hn3, Hst'.
      cbn [nonempty]. fold (oc l2). rewrite Hst in HT. fold (oc l1) in Hl1. rewrite Hl1 in HT.
      apply (T_stall1 evm NT evm_nodst t (oc l0) (oc l2) (oc l3) d k HT Hd12).
      * intros Hd. rewrite (Hd1 Hd). reflexivity.
      * rewrite <- Hl1, <- Hdead. exact Hdn3.
  - (* stalled at EX *)
    destruct (ctl_stall2 P Hsup p _ l0 l1 l2 l3 l4 dead d p' IV Hst Hps)
      as (Hl2 & [(-> & Hl3 & n1 & n4 & Hlat & Hn1 & Hst') |
                 [(-> & Hl3 & n1 & n2 & Hlat & Hn1 & Hn2 & Hfd & Hst') |
                  (-> & Hl3 & n2 & n4 & Hlat & Hn2 & Hst' & Hfd & Hex)]]).
    + exists l0, n1, l2, None, n4. split; [exact Hlat|]. unfold oc at 2. rewrite Hn1, Hst'.
      fold (oc l1). fold (oc l2) in Hl2. fold (oc l3) in Hl3. rewrite Hst, Hl2, Hl3 in HT. rewrite Hl2, Hl3.
      cbn [oc nonempty b2n]. rewrite Nat.add_1_r. apply (T_stall2_wait evm NT evm_nodst t _ _ k HT).
    + exists l0, n1, n2, None, None. split; [exact Hlat|]. unfold oc at 2 3. rewrite Hn1, Hn2, Hst'.
      fold (oc l1). fold (oc l2) in Hl2. subst l3. rewrite Hst, Hl2 in HT.
      cbn [oc nonempty b2n] in *. rewrite Nat.add_0_r. apply (T_stall2_fire evm NT evm_nodst t _ _ k HT).
    + exists None, None, n2, None, n4. split; [exact Hlat|]. unfold oc at 3. rewrite Hn2, Hst'.
      fold (oc l2) in Hl2. subst l3. rewrite Hst, Hl2 in HT.
      cbn [oc nonempty b2n] in *. rewrite Nat.add_0_r. apply (T_exit_stall2 evm NT evm_nodst t _ _ k HT).
      destruct (oc_some _ Hl2) as [x2 Hx2]. specialize (F2 x2 Hx2).
      unfold j2 in F2. cbn [oc nonempty b2n] in F2. rewrite Nat.add_0_r in F2.
      apply (pexit_redirect k x2 F2 Hex).
Qed.


(** * The invariant *)
Definition J' (t : nat) (p : pstate) (k : nat) : Prop :=
  exists l0 l1 l2 l3 l4 dead, InvAt P p (sigma k s0) l0 l1 l2 l3 l4 dead /\
    T evm NT t (oc l0) (oc l1) (oc l2) (oc l3) (stalled p) k.

Lemma J'_bound t p k : J' t p k -> (k < NT)%nat -> (t <= X evm k + 1)%nat.
Proof. intros (l0 & l1 & l2 & l3 & l4 & dead & _ & HT) Hk. exact (T_bound_gen _ _ _ _ _ _ _ _ _ HT Hk). Qed.
Lemma J'_retired t p k : J' t p k -> (0 < k)%nat -> (X evm (k - 1) + 2 <= t)%nat.
Proof. intros (l0 & l1 & l2 & l3 & l4 & dead & _ & HT) Hk. exact (T_R _ _ _ _ _ _ _ _ _ HT Hk). Qed.

Lemma J'_init : wf s0 -> prog (im s0) = P -> exitc s0 = None -> inr 0 -> J' 0 (pipe_init s0 true) 0.
Proof.
  intros W HP Hex Hr. exists None, None, None, None, None, 0%nat.
  split; [|apply T_init; exact evm_nodst].
  destruct (inv_init P s0 W HP Hex) as (l0 & l1 & l2 & l3 & l4 & dead & IV).
  pose proof (iv_lat _ _ _ _ _ _ _ _ _ IV) as Hl. cbn [pipe_init lat] in Hl.
  injection Hl as <- <- <- <- <-.
  pose proof (pfact_dead _ 0 _ _ _ _ _ _ IV Hr) as Hd. cbn in Hd. subst dead. exact IV.
Qed.

(* the state after a step is never the last cycle of an exiting ecall: the run goes on *)
Lemma no_exiting p k : Exiting P p (sigma k s0) -> inr k -> (BN = false -> (k + 2 <= N)%nat) -> False.
Proof.
  intros E Hk Hk2. destruct (exiting_step P Hsup _ _ E) as (_ & Hsd & Hss & Hsd' & _).
  assert (Hok : snd (single_pipeline_step (sigma k s0)) = None) by (rewrite Hss; reflexivity).
  pose proof (ok_lt k Hok (bnd_ok _ (inr_bnd _ Hk))) as Hlt.
  rewrite <- (sigma_S s0 N HN1) in Hsd'.
  destruct (Nat.eq_dec (S k) N) as [EN|NN].
  - destruct BN eqn:EB; [destruct (HNb eq_refl) as [Hc _]; rewrite EN in Hsd'; congruence|specialize (Hk2 eq_refl); lia].
  - destruct (HN1 (S k) ltac:(lia)) as [Hc _]. congruence.
Qed.

(* the cycle at which the faulting instruction N raises: its execute cycle if it is an ecall, its
   memory cycle otherwise *)
Definition fault_step : nat := if ec evo N then X evm N else (X evm N + 1)%nat.

Lemma icount_nxt t i : wf t -> instr_at (prog (im t)) (pc t) = Some i -> supported i = true ->
  icount (nxt t) = icount t + 1.
Proof.
  intros W Hi Hs. unfold nxt. rewrite (sstep_eq t i W Hi).
  assert (Hb : icount (fst (behavior i (pre t))) = icount (pre t)).
  { destruct i; try discriminate Hs; cbn [behavior fst];
      first
      [ match goal with |- context [st_read ?a ?b ?c ?d] =>
          destruct (st_read a b c d) as [[v|e] s'] eqn:E end;
          apply st_read_mframe, mframe_icount in E; cbn [fst]; [|exact E];
          match goal with |- context [rset ?s2 ?r ?v] =>
            destruct (rset_fields s2 r v) as (_ & _ & _ & _ & _ & Hb & _) end; congruence
      | destruct (process_ecall (pre t)) as [[[tt|c]|e] s'] eqn:E;
          apply process_ecall_mframe, mframe_icount in E; cbn [fst]; stf; exact E
      | match goal with |- context [st_write ?a ?b ?c ?d ?g] =>
          destruct (st_write a b c d g) as [[e|] s'] eqn:E end;
          apply st_write_mframe, mframe_icount in E; cbn [fst]; exact E
      | destruct (b_cond _ _ _); cbn [fst]; stf; reflexivity
      | match goal with |- context [rset ?s ?r ?v] =>
          destruct (rset_fields s r v) as (_ & _ & _ & _ & _ & Hb & _) end; stf; exact Hb ]. }
  rewrite pre_icount in Hb. destruct (behavior i (pre t)) as [s2 [e|]]; cbn [fst] in *; stf; exact Hb.
Qed.

(** * One cycle of the pipeline from a state in [J'] *)
Lemma J'_step t p k : J' t p k -> inr k -> (BN = false -> (k + 6 <= N)%nat) ->
  pipe_done p = false /\
  match pipe_step p with
  | (p', None) =>
      (lat_at (lat p') 4 = None /\ J' (S t) p' k) \/
      (exists x, lat_at (lat p') 4 = Some x /\ sl_addr x = pc (sigma k s0) /\ S t = (X evm k + 2)%nat /\
                 (k < N)%nat /\ J' (S t) p' (S k))
  | (p', Some f) =>
      BN = true /\ (exists tm, single_pipeline_step (sigma N s0) = (tm, Some f)) /\ S t = fault_step /\
      icount (pst p') = icount (sigma N s0) /\ (k = N \/ S k = N)
  end.
Proof.
  intros (l0 & l1 & l2 & l3 & l4 & dead & IV & HT) Hk Hk6.
  destruct (pfact_J2 p k l0 l1 l2 l3 l4 dead IV Hk) as (Hj2 & W2 & HP2). unfold j2 in Hj2, W2, HP2.
  assert (Hnd : pipe_done p = false).
  { rewrite (done_iff P _ _ _ _ _ _ _ _ IV).
    destruct (Nat.lt_ge_cases k N) as [Hlt|Hge]; [apply (HN1 k Hlt)|].
    destruct BN_dec as [EB|EB]; [|specialize (Hk6 EB); lia].
    assert (k = N) by (pose proof (inr_t k EB Hk); lia). subst k. apply (HNb EB). }
  split; [exact Hnd|].
  pose proof (inv_step_e P Hsup _ _ _ _ _ _ _ _ IV Hnd) as Hstep. unfold step_goal in Hstep.
  destruct (pipe_step p) as [p' [f|]] eqn:Hps.
  - (* a fault: the single-cycle machine faults at the instruction behind latch 3, which is N *)
    destruct Hstep as (tm & Hss & Hnd2 & _). rewrite (adv_idx s0 N HN1) in Hss, Hnd2.
    assert (HJN : BN = true /\ (k + b2n (oc l3))%nat = N).
    { destruct (Nat.lt_ge_cases (k + b2n (oc l3)) N) as [Hlt|Hge].
      - destruct (HN1 _ Hlt) as [_ Hok]. rewrite Hss in Hok. discriminate Hok.
      - unfold bnd in Hj2. destruct BN_dec as [EB|EB]; rewrite EB in Hj2; [split; [exact EB|lia]|lia]. }
    destruct HJN as [EB HJN]. split; [exact EB|]. split; [exists tm; rewrite <- HJN; exact Hss|].
    destruct (ctl_fault P Hsup p _ _ _ _ _ _ _ p' f IV Hps) as (Hic & Hkind).
    pose proof (pfact_dead p k l0 l1 l2 l3 l4 dead IV Hk) as Hdead.
    destruct (pfact2 p k l0 l1 l2 l3 l4 dead IV Hk) as (F2 & Hd3 & _).
    assert (Hfs : S t = fault_step).
    { unfold fault_step. destruct Hkind as [(B2 & Hf2 & He2 & Hmd)|[(Hmd & -> & -> & He1)|(Hmd & -> & B2 & He2)]].
      - (* MEM: the fired slot of latch 2 *)
        destruct (oc_some _ B2) as [x2 Hx2]. fold (oc l2) in B2.
        pose proof (T_2 _ _ _ _ _ _ _ _ _ HT B2) as H2. unfold j2 in H2. rewrite HJN in H2.
        assert (Hm2 : m2 (stalled p) = 0%nat) by (destruct Hmd as [->|[d ->]]; reflexivity).
        assert (Hec : ec evo N = false).
        { pose proof (F2 x2 Hx2) as L2. unfold j2 in L2. rewrite HJN in L2.
          unfold ec. rewrite (live_ev P s0 _ x2 L2). subst l2. exact He2. }
        rewrite Hec, H2, Hm2. lia.
      - (* EX: an ecall fires with MEM and WB empty *)
        cbn [oc nonempty b2n] in *. rewrite Nat.add_0_r in HJN. subst k.
        assert (B1 : oc l1 = true) by (destruct l1; [reflexivity|discriminate He1]).
        assert (Hd2 : (dead <= 2)%nat).
        { destruct (Nat.eq_dec dead 3) as [E|]; [apply Hd3 in E; discriminate E|].
          pose proof (iv_dead _ _ _ _ _ _ _ _ _ IV). lia. }
        destruct (pfact1 p N l0 l1 None None l4 dead IV Hk Hd2) as (F1 & _).
        destruct (oc_some _ B1) as [x1 Hx1]. specialize (F1 x1 Hx1).
        unfold j1, j2 in F1. cbn [oc nonempty b2n] in F1. rewrite !Nat.add_0_r in F1.
        assert (Hec : ec evo N = true) by (unfold ec; rewrite (live_ev P s0 _ x1 F1); subst l1; exact He1).
        pose proof (T_1 _ _ _ _ _ _ _ _ _ HT B1) as H1. rewrite <- Hdead in H1.
        specialize (H1 Hd2). unfold j1, j2 in H1. cbn [b2n] in H1. rewrite !Nat.add_0_r in H1.
        rewrite Hmd in H1. cbn [dm bz orb] in H1. rewrite Bool.andb_false_r in H1.
        rewrite Hec, H1. lia.
      - (* EX: the last cycle of the drain *)
        cbn [oc nonempty b2n] in *. rewrite Nat.add_0_r in HJN. subst k. fold (oc l2) in B2.
        destruct (oc_some _ B2) as [x2 Hx2].
        pose proof (T_2 _ _ _ _ _ _ _ _ _ HT B2) as H2. unfold j2 in H2. cbn [b2n] in H2. rewrite Nat.add_0_r in H2.
        rewrite Hmd in H2. cbn in H2.
        specialize (F2 x2 Hx2). unfold j2 in F2. cbn [b2n] in F2. rewrite Nat.add_0_r in F2.
        assert (Hec : ec evo N = true) by (unfold ec; rewrite (live_ev P s0 _ x2 F2); subst l2; exact He2).
        rewrite Hec, H2. lia. }
    split; [exact Hfs|].
    rewrite Hic, (iv_icount _ _ _ _ _ _ _ _ _ IV). fold (oc l3).
    destruct (oc l3) eqn:E3; cbn [b2n] in HJN.
    + destruct (oc_some _ E3) as [x3 Hx3]. destruct (pfact3 p k l0 l1 l2 l3 l4 dead IV Hk x3 Hx3) as [(Wk & HPk & (_ & _ & Hi)) Hlt].
      assert (HNk : N = S k) by lia. rewrite HNk at 1. rewrite (sigma_S s0 N HN1). rewrite <- HPk in Hi.
      rewrite (icount_nxt _ _ Wk Hi (sup_at P Hsup _ _ ltac:(rewrite <- HPk; exact Hi))).
      split; [reflexivity|right; lia].
    + assert (HNk : N = k) by lia. rewrite HNk at 1. split; [lia|left; lia].
  - destruct Hstep as (Hinv' & Hl4 & _). rewrite (adv_idx s0 N HN1) in Hinv'.
    destruct (pview_step t p k l0 l1 l2 l3 l4 dead p' IV Hk HT Hps)
      as (n0 & n1 & n2 & n3 & n4 & Hlat & HT').
    assert (HJ' : forall k', (k + b2n (oc l3))%nat = k' -> inr k' -> J' (S t) p' k').
    { intros k' <- Hk'. destruct Hinv' as [(m0 & m1 & m2' & m3 & m4 & dd & IV')|E'].
      - exists m0, m1, m2', m3, m4, dd. split; [exact IV'|].
        pose proof (iv_lat _ _ _ _ _ _ _ _ _ IV') as Hl. rewrite Hlat in Hl. injection Hl as -> -> -> -> ->. exact HT'.
      - exfalso. apply (no_exiting p' _ E' Hk'). intros EB. specialize (Hk6 EB).
        pose proof (b2n_le1 (oc l3)). lia. }
    destruct (oc l3) eqn:Ho3; cbn [b2n] in *.
    + right. destruct (oc_some _ Ho3) as [x3 Hx3]. rewrite Hx3 in Hl4. cbn [option_map] in Hl4.
      exists (wb_slot x3). split; [exact Hl4|].
      destruct (pfact3 p k l0 l1 l2 l3 l4 dead IV Hk x3 Hx3) as ((_ & _ & (_ & Ha & _)) & Hlt).
      split; [exact Ha|]. pose proof (T_3 _ _ _ _ _ _ _ _ _ HT eq_refl) as H3. split; [lia|].
      split; [exact Hlt|]. apply HJ'; [lia|].
      apply inr_intro; intros EB; [lia|specialize (Hk6 EB); lia].
    + left. destruct l3; [discriminate Ho3|]. split; [exact Hl4|]. apply HJ'; [lia|exact Hk].
Qed.

End Link.
