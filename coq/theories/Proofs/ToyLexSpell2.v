(* ToyLexSpell2.v — texts that agree line by line up to the spelling of numeric literals load identically;
   corollaries on printed sources: number base, mnemonic case, layout and comments. *)
From Coq Require Import Lia ZifyBool.
From ArchSim Require Import Model.Base Model.Mem Model.Fmt Model.Toy Model.ToyLex Proofs.C19Proofs
  Proofs.ToyLexProofs1 Proofs.ToyLexProofs2 Proofs.ToyLexProofs3 Proofs.ToyLexProofs4 Proofs.ToyLexProofs5
  Proofs.ToyLexSpell1.
Open Scope Z_scope.

(** * the relation on texts *)
Definition ropnd_equiv (p q : rtoperand) : Prop :=
  match p, q with
  | RAddrLit v1, RAddrLit v2 => lit_eq v1 v2
  | RLabel a, RLabel b => a = b
  | RNoOperand, RNoOperand => True
  | _, _ => False
  end.
Definition rt_equiv (x y : rtline) : Prop :=
  match x, y with
  | RLDirective d1, RLDirective d2 => d1 = d2
  | RLVar n1 v1, RLVar n2 v2 => n1 = n2 /\ Forall2 lit_eq v1 v2
  | RLInstr i1 o1 p1, RLInstr i2 o2 p2 => i1 = i2 /\ o1 = o2 /\ ropnd_equiv p1 p2
  | RLLabel a, RLLabel b => a = b
  | _, _ => False
  end.
Definition line_equiv (l1 l2 : str) : Prop :=
  match toy_lex_line l1, toy_lex_line l2 with
  | LBlank, LBlank => True
  | LErr, LErr => True
  | LTok a, LTok b => rt_equiv a b
  | _, _ => False
  end.
Definition toy_same_up_to_spelling (t1 t2 : str) : Prop := Forall2 line_equiv (splitlines t1) (splitlines t2).

Lemma intern_line_rel tb a b : rt_equiv a b ->
  snd (intern_line tb a) = snd (intern_line tb b) /\ tl_equiv (fst (intern_line tb a)) (fst (intern_line tb b)).
Proof.
  destruct a as [d1|n1 v1|i1 o1 p1|n1], b as [d2|n2 v2|i2 o2 p2|n2]; cbn [rt_equiv]; try contradiction.
  - intros ->. split; reflexivity.
  - intros [<- Hv]. cbn [intern_line]. destruct (intern tb n1). cbn [fst snd tl_equiv]. split; [reflexivity | split; [reflexivity | exact Hv]].
  - intros (<- & <- & Hp). cbn [intern_line].
    destruct (match i1 with Some n => let '(i, tb0) := intern tb n in (Some i, tb0) | None => (None, tb) end) as [il tb1].
    destruct p1 as [x|x|], p2 as [y|y|]; cbn [ropnd_equiv] in Hp; try contradiction.
    + cbn [fst snd tl_equiv opnd_equiv]. repeat split. exact Hp.
    + subst y. destruct (intern tb1 x). cbn [fst snd tl_equiv opnd_equiv]. repeat split.
    + cbn [fst snd tl_equiv opnd_equiv]. repeat split.
  - intros <-. cbn [intern_line]. destruct (intern tb n1). split; reflexivity.
Qed.

Definition lex_rel (r1 r2 : pres (list (Z * tline))) : Prop :=
  match r1, r2 with POk a, POk b => lrel a b | PErr e1, PErr e2 => e1 = e2 | _, _ => False end.

Lemma lex_lines_rel : forall ls1 ls2, Forall2 line_equiv ls1 ls2 -> forall ln tbl,
  lex_rel (lex_lines ls1 ln tbl) (lex_lines ls2 ln tbl).
Proof.
  induction 1 as [|l1 l2 ls1 ls2 Hl _ IH]; intros ln tbl; cbn [lex_lines]; [constructor|].
  unfold line_equiv in Hl.
  destruct (toy_lex_line l1) as [| |a], (toy_lex_line l2) as [| |b]; try contradiction; [apply IH | reflexivity|].
  destruct (intern_line_rel tbl a b Hl) as [Htb Ht].
  destruct (intern_line tbl a) as [a' tb1], (intern_line tbl b) as [b' tb2]. cbn [fst snd] in Htb, Ht. subst tb2.
  specialize (IH (ln + 1) tb1).
  destruct (lex_lines ls1 (ln + 1) tb1) as [r1|e1], (lex_lines ls2 (ln + 1) tb1) as [r2|e2]; cbn [lex_rel] in *; try contradiction.
  - constructor; [split; [reflexivity | exact Ht] | exact IH].
  - exact IH.
Qed.

Theorem load_text_spelling_independent s t1 t2 : toy_same_up_to_spelling t1 t2 ->
  toy_load_text s t1 = toy_load_text s t2.
Proof.
  intros H. unfold toy_load_text, toy_lex_text. pose proof (lex_lines_rel _ _ H 1 []) as Hr.
  destruct (lex_lines (splitlines t1) 1 []) as [a|e1], (lex_lines (splitlines t2) 1 []) as [b|e2]; cbn [lex_rel] in Hr; try contradiction.
  - apply toy_load_rel, Hr.
  - subst e2. reflexivity.
Qed.

(** * printed sources *)
Definition opt_equiv (o1 o2 : option rtline) : Prop :=
  match o1, o2 with Some a, Some b => rt_equiv a b | None, None => True | _, _ => False end.

Lemma intern_lines_rel : forall ts1 ts2, Forall2 opt_equiv ts1 ts2 -> forall ln tbl,
  lrel (intern_lines ts1 ln tbl) (intern_lines ts2 ln tbl).
Proof.
  induction 1 as [|o1 o2 ts1 ts2 Ho _ IH]; intros ln tbl; cbn [intern_lines]; [constructor|].
  destruct o1 as [a|], o2 as [b|]; cbn [opt_equiv] in Ho; try contradiction; [|apply IH].
  destruct (intern_line_rel tbl a b Ho) as [Htb Ht].
  destruct (intern_line tbl a) as [a' tb1], (intern_line tbl b) as [b' tb2]. cbn [fst snd] in Htb, Ht. subst tb2.
  constructor; [split; [reflexivity | exact Ht] | apply IH].
Qed.

Definition wf_source (ls : list (srcline * str)) (fin : option srcline) : Prop :=
  Forall (fun p => wf_src (fst p) /\ is_nl (snd p)) ls /\ match fin with Some l => wf_src l | None => True end.

(* master statement: any layout, comments, terminators, mnemonic case; literals of equal value *)
Theorem source_respelling s ls1 fin1 ls2 fin2 : wf_source ls1 fin1 -> wf_source ls2 fin2 ->
  Forall2 opt_equiv (map tok_of (src_lines ls1 fin1)) (map tok_of (src_lines ls2 fin2)) ->
  toy_load_text s (render_text ls1 fin1) = toy_load_text s (render_text ls2 fin2).
Proof.
  intros [H1 F1] [H2 F2] E. rewrite !load_text_render by assumption. apply toy_load_rel, intern_lines_rel, E.
Qed.
