(* Proofs/C10Proofs.v — replacement policies: the model's LRU list and PLRU bit array
   against Spec/Policy.v.  Statements used by Props/C10.v are at the end of each part. *)
From Coq Require Import Lia ZifyBool Sorted Permutation.
From ArchSim Require Import Model.Base Model.Cache Spec.Policy.
Open Scope Z_scope.
Ltac Zify.zify_post_hook ::= Z.to_euclidean_division_equations.
Local Arguments Z.mul : simpl never.
Local Arguments Z.add : simpl never.
Local Arguments Z.sub : simpl never.
Local Arguments Z.pow : simpl never.
Local Arguments Z.div : simpl never.
Local Arguments Z.modulo : simpl never.

(** * Part 0: histories *)
Lemma run_snoc p h k : run p (h ++ [k]) = pol_access (run p h) k.
Proof. unfold run. rewrite fold_left_app. reflexivity. Qed.

Lemma in_range_snoc n h k : in_range n (h ++ [k]) <-> in_range n h /\ 0 <= k < n.
Proof.
  unfold in_range. rewrite Forall_app. split.
  - intros [Hh Hk]. split; [exact Hh|]. inversion Hk; assumption.
  - intros [Hh Hk]. split; [exact Hh|]. constructor; [exact Hk | constructor].
Qed.

(** * Part 1: the spec's [last_access] and [older] *)
Lemma last_access_snoc h k i :
  last_access (h ++ [k]) i = if k =? i then Some (length h) else last_access h i.
Proof.
  induction h as [|x t IH]; cbn [app last_access length].
  - reflexivity.
  - rewrite IH. destruct (k =? i); reflexivity.
Qed.

Lemma last_access_lt h i p : last_access h i = Some p -> (p < length h)%nat.
Proof.
  revert p; induction h as [|x t IH]; intros p; cbn [last_access length].
  - discriminate.
  - destruct (last_access t i) as [q|].
    + intros [= <-]. specialize (IH q eq_refl). lia.
    + destruct (x =? i); [intros [= <-]; lia | discriminate].
Qed.

Lemma last_access_None h i : last_access h i = None <-> ~ In i h.
Proof.
  induction h as [|x t IH]; cbn [last_access In].
  - tauto.
  - destruct (last_access t i) as [q|].
    + split; [discriminate|]. intros Hn. exfalso. apply Hn. right.
      destruct (in_dec Z.eq_dec i t) as [Hin|Hnin]; [exact Hin|].
      apply IH in Hnin. discriminate.
    + destruct (Z.eqb_spec x i) as [E|E].
      * split; [discriminate|]. intros Hn; exfalso; apply Hn; left; exact E.
      * split; [|reflexivity]. intros _ [Hx|Ht]; [contradiction|].
        apply (proj1 IH eq_refl). exact Ht.
Qed.

(* the position really holds i, and i does not occur later *)
Lemma last_access_Some h i p : last_access h i = Some p ->
  nth_error h p = Some i /\ forall q, (p < q)%nat -> nth_error h q <> Some i.
Proof.
  revert p; induction h as [|x t IH]; intros p; cbn [last_access].
  - discriminate.
  - destruct (last_access t i) as [q0|] eqn:Elt.
    + intros [= <-]. destruct (IH q0 eq_refl) as [Hn Hl]. split; [exact Hn|].
      intros q Hq. destruct q as [|q]; [lia|]. cbn [nth_error]. apply Hl. lia.
    + destruct (Z.eqb_spec x i) as [E|E]; [|discriminate].
      intros [= <-]. split; [cbn [nth_error]; congruence|].
      intros q Hq. destruct q as [|q]; [lia|]. cbn [nth_error].
      intros Hn. apply nth_error_In in Hn. apply last_access_None in Elt. contradiction.
Qed.

Lemma last_access_inj h i j p : last_access h i = Some p -> last_access h j = Some p -> i = j.
Proof.
  intros Hi Hj. apply last_access_Some in Hi. apply last_access_Some in Hj.
  destruct Hi as [Hi _]. destruct Hj as [Hj _]. congruence.
Qed.

Lemma older_irrefl h i : ~ older h i i.
Proof. unfold older. destruct (last_access h i); lia. Qed.

Lemma older_asym h i j : older h i j -> older h j i -> False.
Proof. unfold older. destruct (last_access h i), (last_access h j); lia. Qed.

Lemma older_total h i j : i <> j -> older h i j \/ older h j i.
Proof.
  intros Hne. unfold older.
  destruct (last_access h i) as [a|] eqn:Ei, (last_access h j) as [b|] eqn:Ej; try tauto; [|lia].
  destruct (Nat.eq_dec a b) as [->|Hab]; [|lia].
  exfalso. apply Hne. eapply last_access_inj; eassumption.
Qed.

(* one more access to k: k becomes the youngest, the others keep their relative order *)
Lemma older_snoc_other h k i j : i <> k -> j <> k -> (older (h ++ [k]) i j <-> older h i j).
Proof.
  intros Hi Hj. unfold older. rewrite !last_access_snoc.
  destruct (Z.eqb_spec k i) as [E|_]; [congruence|].
  destruct (Z.eqb_spec k j) as [E|_]; [congruence|]. tauto.
Qed.

Lemma older_snoc_last h k i : i <> k -> older (h ++ [k]) i k.
Proof.
  intros Hi. unfold older. rewrite !last_access_snoc. rewrite Z.eqb_refl.
  destruct (Z.eqb_spec k i) as [E|_]; [congruence|].
  destruct (last_access h i) as [a|] eqn:Ea; [|exact Logic.I].
  apply last_access_lt in Ea. exact Ea.
Qed.

(** * Part 2: list helpers *)
Lemma zrange_In s m x : In x (zrange_from s m) <-> s <= x < s + Z.of_nat m.
Proof.
  revert s; induction m as [|m IH]; intros s; cbn [zrange_from In].
  - lia.
  - rewrite IH. lia.
Qed.

Lemma zrange_length s m : length (zrange_from s m) = m.
Proof. revert s; induction m as [|m IH]; intros s; cbn [zrange_from length]; [|rewrite IH]; reflexivity. Qed.

Lemma zrange_NoDup s m : NoDup (zrange_from s m).
Proof.
  revert s; induction m as [|m IH]; intros s; cbn [zrange_from]; constructor.
  - rewrite zrange_In. lia.
  - apply IH.
Qed.

Lemma zrange_sorted s m : StronglySorted Z.lt (zrange_from s m).
Proof.
  revert s; induction m as [|m IH]; intros s; cbn [zrange_from]; constructor.
  - apply IH.
  - apply Forall_forall. intros x Hx. apply zrange_In in Hx. lia.
Qed.

Lemma zrange_nth s m p d : (p < m)%nat -> nth p (zrange_from s m) d = s + Z.of_nat p.
Proof.
  revert s p; induction m as [|m IH]; intros s p Hp; [lia|].
  cbn [zrange_from]. destruct p as [|p]; cbn [nth]; [lia|].
  rewrite IH by lia. lia.
Qed.

Lemma remove_first_In x k l : In x (remove_first k l) -> In x l.
Proof.
  induction l as [|y t IH]; cbn [remove_first In]; [tauto|].
  destruct (y =? k); cbn [In]; tauto.
Qed.

Lemma remove_first_notin k l : ~ In k l -> remove_first k l = l.
Proof.
  induction l as [|y t IH]; cbn [remove_first In]; [reflexivity|].
  intros Hn. destruct (Z.eqb_spec y k) as [E|E]; [tauto|]. rewrite IH by tauto. reflexivity.
Qed.

Lemma remove_first_In_iff x k l : NoDup l -> (In x (remove_first k l) <-> In x l /\ x <> k).
Proof.
  induction 1 as [|y t Hy Hnd IH]; cbn [remove_first In]; [tauto|].
  destruct (Z.eqb_spec y k) as [E|E]; cbn [In].
  - subst y. split.
    + intros Hx. split; [tauto|]. intros ->. contradiction.
    + intros [[E|Hx] Hne]; [congruence | exact Hx].
  - rewrite IH. split.
    + intros [->|[Hx Hne]]; tauto.
    + intros [[->|Hx] Hne]; tauto.
Qed.

Lemma remove_first_NoDup k l : NoDup l -> NoDup (remove_first k l).
Proof.
  induction 1 as [|y t Hy Hnd IH]; cbn [remove_first]; [constructor|].
  destruct (y =? k); [exact Hnd|]. constructor; [|exact IH].
  intros Hin. apply Hy. eapply remove_first_In; exact Hin.
Qed.

Lemma remove_first_length k l : In k l -> S (length (remove_first k l)) = length l.
Proof.
  induction l as [|y t IH]; cbn [remove_first In length]; [tauto|].
  intros Hin. destruct (Z.eqb_spec y k) as [E|E]; [reflexivity|].
  cbn [length]. rewrite IH; [reflexivity | tauto].
Qed.

Lemma remove_first_sorted (R : Z -> Z -> Prop) k l :
  StronglySorted R l -> StronglySorted R (remove_first k l).
Proof.
  induction 1 as [|y t Hs IH Hf]; cbn [remove_first]; [constructor|].
  destruct (y =? k); [exact Hs|]. constructor; [exact IH|].
  rewrite Forall_forall in *. intros x Hx. apply Hf. eapply remove_first_In; exact Hx.
Qed.

Lemma remove_first_snoc k l : ~ In k l -> remove_first k (l ++ [k]) = l.
Proof.
  induction l as [|y t IH]; cbn [app remove_first In].
  - intros _. rewrite Z.eqb_refl. reflexivity.
  - intros Hn. destruct (Z.eqb_spec y k) as [E|E]; [tauto|]. rewrite IH by tauto. reflexivity.
Qed.

Lemma sorted_transfer (R R' : Z -> Z -> Prop) l :
  (forall x y, In x l -> In y l -> R x y -> R' x y) -> StronglySorted R l -> StronglySorted R' l.
Proof.
  intros Himp Hs. induction Hs as [|y t Hs IH Hf]; constructor.
  - apply IH. intros x z Hx Hz. apply Himp; right; assumption.
  - rewrite Forall_forall in *. intros x Hx. apply Himp; [left; reflexivity | right; exact Hx | apply Hf; exact Hx].
Qed.

Lemma sorted_snoc (R : Z -> Z -> Prop) l x :
  StronglySorted R l -> Forall (fun y => R y x) l -> StronglySorted R (l ++ [x]).
Proof.
  induction 1 as [|y t Hs IH Hf]; intros Hall; cbn [app].
  - constructor; constructor.
  - inversion Hall as [|? ? Hy Ht]; subst. constructor; [apply IH; exact Ht|].
    apply Forall_app. split; [exact Hf | constructor; [exact Hy | constructor]].
Qed.

Lemma NoDup_snoc (l : list Z) x : NoDup l -> ~ In x l -> NoDup (l ++ [x]).
Proof.
  induction 1 as [|y t Hy Hnd IH]; intros Hx; cbn [app].
  - constructor; [intros [] | constructor].
  - constructor.
    + rewrite in_app_iff. cbn [In]. intros [Hin|[E|[]]]; [contradiction|].
      apply Hx. left. symmetry; exact E.
    + apply IH. intros Hin. apply Hx. right. exact Hin.
Qed.

Lemma sorted_nth (R : Z -> Z -> Prop) l p q d :
  StronglySorted R l -> (p < q < length l)%nat -> R (nth p l d) (nth q l d).
Proof.
  intros Hs. revert p q. induction Hs as [|y t Hs IH Hf]; intros p q Hpq; cbn [length] in Hpq; [lia|].
  destruct q as [|q]; [lia|]. destruct p as [|p]; cbn [nth].
  - rewrite Forall_forall in Hf. apply Hf. apply nth_In. lia.
  - apply IH. lia.
Qed.

Lemma index_of_shift x l a : index_of x l a = a + index_of x l 0.
Proof.
  revert a; induction l as [|y t IH]; intros a; cbn [index_of]; [lia|].
  destruct (y =? x); [lia|]. rewrite (IH (a + 1)), (IH (0 + 1)). lia.
Qed.

Lemma index_of_In x l : In x l ->
  0 <= index_of x l 0 < Z.of_nat (length l) /\ nth (Z.to_nat (index_of x l 0)) l 0 = x.
Proof.
  induction l as [|y t IH]; cbn [In index_of length]; [tauto|].
  intros Hin. destruct (Z.eqb_spec y x) as [E|E].
  - split; [lia|]. exact E.
  - destruct IH as [Hr Hn]; [tauto|]. rewrite index_of_shift.
    split; [lia|]. replace (Z.to_nat (0 + 1 + index_of x t 0)) with (S (Z.to_nat (index_of x t 0))) by lia.
    exact Hn.
Qed.

Lemma index_of_nth l p : NoDup l -> (p < length l)%nat -> index_of (nth p l 0) l 0 = Z.of_nat p.
Proof.
  intros Hnd. revert p. induction Hnd as [|y t Hy Hnd IH]; intros p Hp; cbn [length] in Hp; [lia|].
  destruct p as [|p]; cbn [nth index_of].
  - rewrite Z.eqb_refl. reflexivity.
  - destruct (Z.eqb_spec y (nth p t 0)) as [E|E].
    + exfalso. apply Hy. rewrite E. apply nth_In. lia.
    + rewrite index_of_shift, IH by lia. lia.
Qed.

(** * Part 3: LRU — the order list is sorted by the spec's recency order *)
Definition lru_inv (n : Z) (h o : list Z) : Prop :=
  NoDup o /\ length o = Z.to_nat n /\ (forall x, In x o <-> 0 <= x < n) /\ StronglySorted (older h) o.

Lemma lru_inv_init n : 0 <= n -> lru_inv n [] (zrange_from 0 (Z.to_nat n)).
Proof.
  intros Hn. split; [apply zrange_NoDup|]. split; [apply zrange_length|]. split.
  - intros x. rewrite zrange_In. lia.
  - eapply sorted_transfer; [|apply zrange_sorted]. intros x y _ _ Hlt. exact Hlt.
Qed.

Lemma lru_inv_step n h o k : lru_inv n h o -> 0 <= k < n ->
  lru_inv n (h ++ [k]) (remove_first k o ++ [k]).
Proof.
  intros (Hnd & Hlen & Hin & Hs) Hk.
  assert (Hko : In k o) by (apply Hin; exact Hk).
  assert (Hnk : ~ In k (remove_first k o)) by (rewrite remove_first_In_iff by exact Hnd; tauto).
  split; [apply NoDup_snoc; [apply remove_first_NoDup; exact Hnd | exact Hnk]|].
  split.
  { rewrite app_length. cbn [length]. pose proof (remove_first_length k o Hko). lia. }
  split.
  { intros x. rewrite in_app_iff, remove_first_In_iff by exact Hnd. cbn [In]. rewrite Hin.
    destruct (Z.eq_dec x k); lia. }
  apply sorted_snoc.
  - eapply sorted_transfer; [|apply remove_first_sorted; exact Hs].
    intros x y Hx Hy Hxy. apply older_snoc_other; [| |exact Hxy]; intros ->; contradiction.
  - apply Forall_forall. intros y Hy. apply older_snoc_last. intros ->. contradiction.
Qed.

Lemma lru_run_inv n h : 0 <= n -> in_range n h ->
  exists o, run (pol_init false n) h = LRU o /\ lru_inv n h o.
Proof.
  intros Hn. induction h as [|k h IH] using rev_ind; intros Hr.
  - exists (zrange_from 0 (Z.to_nat n)). split; [reflexivity | apply lru_inv_init; exact Hn].
  - apply in_range_snoc in Hr. destruct Hr as [Hr Hk].
    destruct (IH Hr) as (o & Ho & Hinv). exists (remove_first k o ++ [k]). split.
    + rewrite run_snoc, Ho. reflexivity.
    + apply lru_inv_step; assumption.
Qed.

(* 1. permutation *)
Lemma lru_perm_proof : forall n h, 0 <= n -> in_range n h ->
  exists o, run (pol_init false n) h = LRU o /\
    NoDup o /\ length o = Z.to_nat n /\ (forall x, In x o <-> 0 <= x < n) /\
    Permutation o (zrange_from 0 (Z.to_nat n)).
Proof.
  intros n h Hn Hr. destruct (lru_run_inv n h Hn Hr) as (o & Ho & Hnd & Hlen & Hin & Hs).
  exists o. repeat split; try assumption; try (apply Hin; assumption).
  apply NoDup_Permutation; [exact Hnd | apply zrange_NoDup|].
  intros x. rewrite Hin, zrange_In. lia.
Qed.

(* 2. victim *)
Lemma lru_victim_proof : forall n h, 1 <= n -> in_range n h ->
  let v := pol_victim (run (pol_init false n) h) in
  0 <= v < n /\
  ((exists j, 0 <= j < n /\ last_access h j = None) ->
     last_access h v = None /\ forall j, 0 <= j < n -> last_access h j = None -> v <= j) /\
  ((forall j, 0 <= j < n -> last_access h j <> None) ->
     forall j, 0 <= j < n -> j <> v ->
       exists a b, last_access h v = Some a /\ last_access h j = Some b /\ (a < b)%nat).
Proof.
  intros n h Hn Hr. destruct (lru_run_inv n h ltac:(lia) Hr) as (o & Ho & Hnd & Hlen & Hin & Hs).
  rewrite Ho. cbn [pol_victim]. unfold nthZ. change (Z.to_nat 0) with O.
  destruct o as [|v t]; [cbn [length] in Hlen; lia|]. cbn [nth]. cbv zeta.
  assert (Hv : 0 <= v < n) by (apply Hin; left; reflexivity).
  assert (Hold : forall j, 0 <= j < n -> j <> v -> older h v j).
  { intros j Hj Hne. apply Hin in Hj. destruct Hj as [E|Hj]; [congruence|].
    inversion Hs as [|? ? _ Hf]; subst. rewrite Forall_forall in Hf. apply Hf. exact Hj. }
  split; [exact Hv|]. split.
  - intros (j0 & Hj0 & Hnone).
    assert (Hvn : last_access h v = None).
    { destruct (Z.eq_dec j0 v) as [->|Hne]; [exact Hnone|].
      specialize (Hold j0 Hj0 Hne). unfold older in Hold. rewrite Hnone in Hold.
      destruct (last_access h v); [contradiction | reflexivity]. }
    split; [exact Hvn|]. intros j Hj Hjn.
    destruct (Z.eq_dec j v) as [->|Hne]; [lia|].
    specialize (Hold j Hj Hne). unfold older in Hold. rewrite Hvn, Hjn in Hold. lia.
  - intros Hall j Hj Hne. specialize (Hold j Hj Hne). unfold older in Hold.
    pose proof (Hall v Hv) as Hv1. pose proof (Hall j Hj) as Hj1.
    destruct (last_access h v) as [a|]; [|congruence].
    destruct (last_access h j) as [b|]; [|congruence].
    exists a, b. repeat split; exact Hold.
Qed.

(* 3. ages *)
Lemma repr_nth o i : 0 <= i < Z.of_nat (length o) -> nthZ (pol_repr (LRU o)) i 0 = index_of i o 0.
Proof.
  intros Hi. cbn [pol_repr]. unfold nthZ.
  rewrite (nth_indep _ 0 (index_of 0 o 0)) by (rewrite map_length, zrange_length; lia).
  rewrite (map_nth (fun i => index_of i o 0)). rewrite zrange_nth by lia. f_equal. lia.
Qed.

Lemma lru_ages_proof : forall n h, 0 <= n -> in_range n h ->
  exists o, run (pol_init false n) h = LRU o /\
  let r := pol_repr (LRU o) in
  length r = Z.to_nat n /\
  (forall i, 0 <= i < n -> 0 <= nthZ r i 0 < n /\ nthZ o (nthZ r i 0) 0 = i) /\
  (forall p, 0 <= p < n -> nthZ r (nthZ o p 0) 0 = p) /\
  (forall i j, 0 <= i < n -> 0 <= j < n -> (nthZ r i 0 < nthZ r j 0 <-> older h i j)).
Proof.
  intros n h Hn Hr. destruct (lru_run_inv n h Hn Hr) as (o & Ho & Hnd & Hlen & Hin & Hs).
  exists o. split; [exact Ho|]. cbv zeta.
  assert (Hrn : forall i, 0 <= i < n -> nthZ (pol_repr (LRU o)) i 0 = index_of i o 0)
    by (intros i Hi; apply repr_nth; lia).
  assert (Hidx : forall i, 0 <= i < n ->
            0 <= index_of i o 0 < n /\ nth (Z.to_nat (index_of i o 0)) o 0 = i).
  { intros i Hi. destruct (index_of_In i o) as [H1 H2]; [apply Hin; exact Hi|]. split; [lia | exact H2]. }
  split; [cbn [pol_repr]; rewrite map_length, zrange_length; exact Hlen|].
  split; [intros i Hi; rewrite (Hrn i Hi); unfold nthZ; apply Hidx; exact Hi|].
  split.
  { intros p Hp. unfold nthZ at 2.
    assert (Hpin : 0 <= nth (Z.to_nat p) o 0 < n) by (apply Hin; apply nth_In; lia).
    rewrite (Hrn _ Hpin). rewrite index_of_nth by (assumption || lia). lia. }
  assert (Hfwd : forall i j, 0 <= i < n -> 0 <= j < n -> index_of i o 0 < index_of j o 0 -> older h i j).
  { intros i j Hi Hj Hlt. destruct (Hidx i Hi) as [Hri Hni]. destruct (Hidx j Hj) as [Hrj Hnj].
    rewrite <- Hni at 1. rewrite <- Hnj at 1. apply sorted_nth; [exact Hs | lia]. }
  intros i j Hi Hj. rewrite (Hrn i Hi), (Hrn j Hj). split; [apply Hfwd; assumption|].
  intros Hold.
  destruct (Z.lt_trichotomy (index_of i o 0) (index_of j o 0)) as [Hlt|[Heq|Hgt]]; [exact Hlt| |].
  - exfalso. destruct (Hidx i Hi) as [_ Hni]. destruct (Hidx j Hj) as [_ Hnj].
    rewrite Heq in Hni. assert (i = j) by congruence. subst j. exact (older_irrefl h i Hold).
  - exfalso. exact (older_asym h i j Hold (Hfwd j i Hj Hi Hgt)).
Qed.

(* 5a. LRU idempotence *)
Lemma lru_idem_NoDup o i : NoDup o ->
  pol_access (pol_access (LRU o) i) i = pol_access (LRU o) i.
Proof.
  intros Hnd. cbn [pol_access]. f_equal. f_equal.
  apply remove_first_snoc. destruct (in_dec Z.eq_dec i o) as [Hin|Hnin].
  - rewrite remove_first_In_iff by exact Hnd. tauto.
  - rewrite remove_first_notin by exact Hnin. exact Hnin.
Qed.

Lemma lru_idem_reachable n h i : 0 <= n -> in_range n h ->
  pol_access (pol_access (run (pol_init false n) h) i) i = pol_access (run (pol_init false n) h) i.
Proof.
  intros Hn Hr. destruct (lru_run_inv n h Hn Hr) as (o & Ho & Hnd & _).
  rewrite Ho. apply lru_idem_NoDup. exact Hnd.
Qed.
