(* Proofs/C10Proofs.v — replacement policies: the model's LRU list and PLRU bit array
   against Spec/Policy.v.  Statements used by Props/C10.v are at the end of each part. *)
From Coq Require Import Lia ZifyBool Sorted Permutation.
From ArchSim Require Import Model.Base Model.Cache Spec.Policy.
Open Scope Z_scope.
Ltac Zify.zify_post_hook ::= Z.to_euclidean_division_equations.
Local Arguments Z.mul : simpl never.
Local Arguments Z.add : simpl never.
Local Arguments Z.sub : simpl never.
Local Arguments Z.pow : simpl never.
Local Arguments Z.div : simpl never.
Local Arguments Z.modulo : simpl never.

(** * Part 0: histories *)
Lemma run_snoc p h k : run p (h ++ [k]) = pol_access (run p h) k.
Proof. unfold run. rewrite fold_left_app. reflexivity. Qed.

Lemma in_range_snoc n h k : in_range n (h ++ [k]) <-> in_range n h /\ 0 <= k < n.
Proof.
  unfold in_range. rewrite Forall_app. split.
  - intros [Hh Hk]. split; [exact Hh|]. inversion Hk; assumption.
  - intros [Hh Hk]. split; [exact Hh|]. constructor; [exact Hk | constructor].
Qed.

(** * Part 1: the spec's [last_access] and [older] *)
Lemma last_access_snoc h k i :
  last_access (h ++ [k]) i = if k =? i then Some (length h) else last_access h i.
Proof.
  induction h as [|x t IH]; cbn [app last_access length].
  - reflexivity.
  - rewrite IH. destruct (k =? i); reflexivity.
Qed.

Lemma last_access_lt h i p : last_access h i = Some p -> (p < length h)%nat.
Proof.
  revert p; induction h as [|x t IH]; intros p; cbn [last_access length].
  - discriminate.
  - destruct (last_access t i) as [q|].
    + intros [= <-]. specialize (IH q eq_refl). lia.
    + destruct (x =? i); [intros [= <-]; lia | discriminate].
Qed.

Lemma last_access_None h i : last_access h i = None <-> ~ In i h.
Proof.
  induction h as [|x t IH]; cbn [last_access In].
  - tauto.
  - destruct (last_access t i) as [q|].
    + split; [discriminate|]. intros Hn. exfalso. apply Hn. right.
      destruct (in_dec Z.eq_dec i t) as [Hin|Hnin]; [exact Hin|].
      apply IH in Hnin. discriminate.
    + destruct (Z.eqb_spec x i) as [E|E].
      * split; [discriminate|]. intros Hn; exfalso; apply Hn; left; exact E.
      * split; [|reflexivity]. intros _ [Hx|Ht]; [contradiction|].
        apply (proj1 IH eq_refl). exact Ht.
Qed.

(* the position really holds i, and i does not occur later *)
Lemma last_access_Some h i p : last_access h i = Some p ->
  nth_error h p = Some i /\ forall q, (p < q)%nat -> nth_error h q <> Some i.
Proof.
  revert p; induction h as [|x t IH]; intros p; cbn [last_access].
  - discriminate.
  - destruct (last_access t i) as [q0|] eqn:Elt.
    + intros [= <-]. destruct (IH q0 eq_refl) as [Hn Hl]. split; [exact Hn|].
      intros q Hq. destruct q as [|q]; [lia|]. cbn [nth_error]. apply Hl. lia.
    + destruct (Z.eqb_spec x i) as [E|E]; [|discriminate].
      intros [= <-]. split; [cbn [nth_error]; congruence|].
      intros q Hq. destruct q as [|q]; [lia|]. cbn [nth_error].
      intros Hn. apply nth_error_In in Hn. apply last_access_None in Elt. contradiction.
Qed.

Lemma last_access_inj h i j p : last_access h i = Some p -> last_access h j = Some p -> i = j.
Proof.
  intros Hi Hj. apply last_access_Some in Hi. apply last_access_Some in Hj.
  destruct Hi as [Hi _]. destruct Hj as [Hj _]. congruence.
Qed.

Lemma older_irrefl h i : ~ older h i i.
Proof. unfold older. destruct (last_access h i); lia. Qed.

Lemma older_asym h i j : older h i j -> older h j i -> False.
Proof. unfold older. destruct (last_access h i), (last_access h j); lia. Qed.

Lemma older_total h i j : i <> j -> older h i j \/ older h j i.
Proof.
  intros Hne. unfold older.
  destruct (last_access h i) as [a|] eqn:Ei, (last_access h j) as [b|] eqn:Ej; try tauto; [|lia].
  destruct (Nat.eq_dec a b) as [->|Hab]; [|lia].
  exfalso. apply Hne. eapply last_access_inj; eassumption.
Qed.

(* one more access to k: k becomes the youngest, the others keep their relative order *)
Lemma older_snoc_other h k i j : i <> k -> j <> k -> (older (h ++ [k]) i j <-> older h i j).
Proof.
  intros Hi Hj. unfold older. rewrite !last_access_snoc.
  destruct (Z.eqb_spec k i) as [E|_]; [congruence|].
  destruct (Z.eqb_spec k j) as [E|_]; [congruence|]. tauto.
Qed.

Lemma older_snoc_last h k i : i <> k -> older (h ++ [k]) i k.
Proof.
  intros Hi. unfold older. rewrite !last_access_snoc. rewrite Z.eqb_refl.
  destruct (Z.eqb_spec k i) as [E|_]; [congruence|].
  destruct (last_access h i) as [a|] eqn:Ea; [|exact Logic.I].
  apply last_access_lt in Ea. exact Ea.
Qed.

(** * Part 2: list helpers *)
Lemma zrange_In s m x : In x (zrange_from s m) <-> s <= x < s + Z.of_nat m.
Proof.
  revert s; induction m as [|m IH]; intros s; cbn [zrange_from In].
  - lia.
  - rewrite IH. lia.
Qed.

Lemma zrange_length s m : length (zrange_from s m) = m.
Proof. revert s; induction m as [|m IH]; intros s; cbn [zrange_from length]; [|rewrite IH]; reflexivity. Qed.

Lemma zrange_NoDup s m : NoDup (zrange_from s m).
Proof.
  revert s; induction m as [|m IH]; intros s; cbn [zrange_from]; constructor.
  - rewrite zrange_In. lia.
  - apply IH.
Qed.

Lemma zrange_sorted s m : StronglySorted Z.lt (zrange_from s m).
Proof.
  revert s; induction m as [|m IH]; intros s; cbn [zrange_from]; constructor.
  - apply IH.
  - apply Forall_forall. intros x Hx. apply zrange_In in Hx. lia.
Qed.

Lemma zrange_nth s m p d : (p < m)%nat -> nth p (zrange_from s m) d = s + Z.of_nat p.
Proof.
  revert s p; induction m as [|m IH]; intros s p Hp; [lia|].
  cbn [zrange_from]. destruct p as [|p]; cbn [nth]; [lia|].
  rewrite IH by lia. lia.
Qed.

Lemma remove_first_In x k l : In x (remove_first k l) -> In x l.
Proof.
  induction l as [|y t IH]; cbn [remove_first In]; [tauto|].
  destruct (y =? k); cbn [In]; tauto.
Qed.

Lemma remove_first_notin k l : ~ In k l -> remove_first k l = l.
Proof.
  induction l as [|y t IH]; cbn [remove_first In]; [reflexivity|].
  intros Hn. destruct (Z.eqb_spec y k) as [E|E]; [tauto|]. rewrite IH by tauto. reflexivity.
Qed.

Lemma remove_first_In_iff x k l : NoDup l -> (In x (remove_first k l) <-> In x l /\ x <> k).
Proof.
  induction 1 as [|y t Hy Hnd IH]; cbn [remove_first In]; [tauto|].
  destruct (Z.eqb_spec y k) as [E|E]; cbn [In].
  - subst y. split.
    + intros Hx. split; [tauto|]. intros ->. contradiction.
    + intros [[E|Hx] Hne]; [congruence | exact Hx].
  - rewrite IH. split.
    + intros [->|[Hx Hne]]; tauto.
    + intros [[->|Hx] Hne]; tauto.
Qed.

Lemma remove_first_NoDup k l : NoDup l -> NoDup (remove_first k l).
Proof.
  induction 1 as [|y t Hy Hnd IH]; cbn [remove_first]; [constructor|].
  destruct (y =? k); [exact Hnd|]. constructor; [|exact IH].
  intros Hin. apply Hy. eapply remove_first_In; exact Hin.
Qed.

Lemma remove_first_length k l : In k l -> S (length (remove_first k l)) = length l.
Proof.
  induction l as [|y t IH]; cbn [remove_first In length]; [tauto|].
  intros Hin. destruct (Z.eqb_spec y k) as [E|E]; [reflexivity|].
  cbn [length]. rewrite IH; [reflexivity | tauto].
Qed.

Lemma remove_first_sorted (R : Z -> Z -> Prop) k l :
  StronglySorted R l -> StronglySorted R (remove_first k l).
Proof.
  induction 1 as [|y t Hs IH Hf]; cbn [remove_first]; [constructor|].
  destruct (y =? k); [exact Hs|]. constructor; [exact IH|].
  rewrite Forall_forall in *. intros x Hx. apply Hf. eapply remove_first_In; exact Hx.
Qed.

Lemma remove_first_snoc k l : ~ In k l -> remove_first k (l ++ [k]) = l.
Proof.
  induction l as [|y t IH]; cbn [app remove_first In].
  - intros _. rewrite Z.eqb_refl. reflexivity.
  - intros Hn. destruct (Z.eqb_spec y k) as [E|E]; [tauto|]. rewrite IH by tauto. reflexivity.
Qed.

Lemma sorted_transfer (R R' : Z -> Z -> Prop) l :
  (forall x y, In x l -> In y l -> R x y -> R' x y) -> StronglySorted R l -> StronglySorted R' l.
Proof.
  intros Himp Hs. induction Hs as [|y t Hs IH Hf]; constructor.
  - apply IH. intros x z Hx Hz. apply Himp; right; assumption.
  - rewrite Forall_forall in *. intros x Hx. apply Himp; [left; reflexivity | right; exact Hx | apply Hf; exact Hx].
Qed.

Lemma sorted_snoc (R : Z -> Z -> Prop) l x :
  StronglySorted R l -> Forall (fun y => R y x) l -> StronglySorted R (l ++ [x]).
Proof.
  induction 1 as [|y t Hs IH Hf]; intros Hall; cbn [app].
  - constructor; constructor.
  - inversion Hall as [|? ? Hy Ht]; subst. constructor; [apply IH; exact Ht|].
    apply Forall_app. split; [exact Hf | constructor; [exact Hy | constructor]].
Qed.

Lemma NoDup_snoc (l : list Z) x : NoDup l -> ~ In x l -> NoDup (l ++ [x]).
Proof.
  induction 1 as [|y t Hy Hnd IH]; intros Hx; cbn [app].
  - constructor; [intros [] | constructor].
  - constructor.
    + rewrite in_app_iff. cbn [In]. intros [Hin|[E|[]]]; [contradiction|].
      apply Hx. left. symmetry; exact E.
    + apply IH. intros Hin. apply Hx. right. exact Hin.
Qed.

Lemma sorted_nth (R : Z -> Z -> Prop) l p q d :
  StronglySorted R l -> (p < q < length l)%nat -> R (nth p l d) (nth q l d).
Proof.
  intros Hs. revert p q. induction Hs as [|y t Hs IH Hf]; intros p q Hpq; cbn [length] in Hpq; [lia|].
  destruct q as [|q]; [lia|]. destruct p as [|p]; cbn [nth].
  - rewrite Forall_forall in Hf. apply Hf. apply nth_In. lia.
  - apply IH. lia.
Qed.

Lemma index_of_shift x l a : index_of x l a = a + index_of x l 0.
Proof.
  revert a; induction l as [|y t IH]; intros a; cbn [index_of]; [lia|].
  destruct (y =? x); [lia|]. rewrite (IH (a + 1)), (IH (0 + 1)). lia.
Qed.

Lemma index_of_In x l : In x l ->
  0 <= index_of x l 0 < Z.of_nat (length l) /\ nth (Z.to_nat (index_of x l 0)) l 0 = x.
Proof.
  induction l as [|y t IH]; cbn [In index_of length]; [tauto|].
  intros Hin. destruct (Z.eqb_spec y x) as [E|E].
  - split; [lia|]. exact E.
  - destruct IH as [Hr Hn]; [tauto|]. rewrite index_of_shift.
    split; [lia|]. replace (Z.to_nat (0 + 1 + index_of x t 0)) with (S (Z.to_nat (index_of x t 0))) by lia.
    exact Hn.
Qed.

Lemma index_of_nth l p : NoDup l -> (p < length l)%nat -> index_of (nth p l 0) l 0 = Z.of_nat p.
Proof.
  intros Hnd. revert p. induction Hnd as [|y t Hy Hnd IH]; intros p Hp; cbn [length] in Hp; [lia|].
  destruct p as [|p]; cbn [nth index_of].
  - rewrite Z.eqb_refl. reflexivity.
  - destruct (Z.eqb_spec y (nth p t 0)) as [E|E].
    + exfalso. apply Hy. rewrite E. apply nth_In. lia.
    + rewrite index_of_shift, IH by lia. lia.
Qed.

(** * Part 3: LRU — the order list is sorted by the spec's recency order *)
Definition lru_inv (n : Z) (h o : list Z) : Prop :=
  NoDup o /\ length o = Z.to_nat n /\ (forall x, In x o <-> 0 <= x < n) /\ StronglySorted (older h) o.

Lemma lru_inv_init n : 0 <= n -> lru_inv n [] (zrange_from 0 (Z.to_nat n)).
Proof.
  intros Hn. split; [apply zrange_NoDup|]. split; [apply zrange_length|]. split.
  - intros x. rewrite zrange_In. lia.
  - eapply sorted_transfer; [|apply zrange_sorted]. intros x y _ _ Hlt. exact Hlt.
Qed.

Lemma lru_inv_step n h o k : lru_inv n h o -> 0 <= k < n ->
  lru_inv n (h ++ [k]) (remove_first k o ++ [k]).
Proof.
  intros (Hnd & Hlen & Hin & Hs) Hk.
  assert (Hko : In k o) by (apply Hin; exact Hk).
  assert (Hnk : ~ In k (remove_first k o)) by (rewrite remove_first_In_iff by exact Hnd; tauto).
  split; [apply NoDup_snoc; [apply remove_first_NoDup; exact Hnd | exact Hnk]|].
  split.
  { rewrite app_length. cbn [length]. pose proof (remove_first_length k o Hko). lia. }
  split.
  { intros x. rewrite in_app_iff, remove_first_In_iff by exact Hnd. cbn [In]. rewrite Hin.
    destruct (Z.eq_dec x k); lia. }
  apply sorted_snoc.
  - eapply sorted_transfer; [|apply remove_first_sorted; exact Hs].
    intros x y Hx Hy Hxy. apply older_snoc_other; [| |exact Hxy]; intros ->; contradiction.
  - apply Forall_forall. intros y Hy. apply older_snoc_last. intros ->. contradiction.
Qed.

Lemma lru_run_inv n h : 0 <= n -> in_range n h ->
  exists o, run (pol_init false n) h = LRU o /\ lru_inv n h o.
Proof.
  intros Hn. induction h as [|k h IH] using rev_ind; intros Hr.
  - exists (zrange_from 0 (Z.to_nat n)). split; [reflexivity | apply lru_inv_init; exact Hn].
  - apply in_range_snoc in Hr. destruct Hr as [Hr Hk].
    destruct (IH Hr) as (o & Ho & Hinv). exists (remove_first k o ++ [k]). split.
    + rewrite run_snoc, Ho. reflexivity.
    + apply lru_inv_step; assumption.
Qed.

(* 1. permutation *)
Lemma lru_perm_proof : forall n h, 0 <= n -> in_range n h ->
  exists o, run (pol_init false n) h = LRU o /\
    NoDup o /\ length o = Z.to_nat n /\ (forall x, In x o <-> 0 <= x < n) /\
    Permutation o (zrange_from 0 (Z.to_nat n)).
Proof.
  intros n h Hn Hr. destruct (lru_run_inv n h Hn Hr) as (o & Ho & Hnd & Hlen & Hin & Hs).
  exists o. repeat split; try assumption; try (apply Hin; assumption).
  apply NoDup_Permutation; [exact Hnd | apply zrange_NoDup|].
  intros x. rewrite Hin, zrange_In. lia.
Qed.

(* 2. victim *)
Lemma lru_victim_proof : forall n h, 1 <= n -> in_range n h ->
  let v := pol_victim (run (pol_init false n) h) in
  0 <= v < n /\
  ((exists j, 0 <= j < n /\ last_access h j = None) ->
     last_access h v = None /\ forall j, 0 <= j < n -> last_access h j = None -> v <= j) /\
  ((forall j, 0 <= j < n -> last_access h j <> None) ->
     forall j, 0 <= j < n -> j <> v ->
       exists a b, last_access h v = Some a /\ last_access h j = Some b /\ (a < b)%nat).
Proof.
  intros n h Hn Hr. destruct (lru_run_inv n h ltac:(lia) Hr) as (o & Ho & Hnd & Hlen & Hin & Hs).
  rewrite Ho. cbn [pol_victim]. unfold nthZ. change (Z.to_nat 0) with O.
  destruct o as [|v t]; [cbn [length] in Hlen; lia|]. cbn [nth]. cbv zeta.
  assert (Hv : 0 <= v < n) by (apply Hin; left; reflexivity).
  assert (Hold : forall j, 0 <= j < n -> j <> v -> older h v j).
  { intros j Hj Hne. apply Hin in Hj. destruct Hj as [E|Hj]; [congruence|].
    inversion Hs as [|? ? _ Hf]; subst. rewrite Forall_forall in Hf. apply Hf. exact Hj. }
  split; [exact Hv|]. split.
  - intros (j0 & Hj0 & Hnone).
    assert (Hvn : last_access h v = None).
    { destruct (Z.eq_dec j0 v) as [->|Hne]; [exact Hnone|].
      specialize (Hold j0 Hj0 Hne). unfold older in Hold. rewrite Hnone in Hold.
      destruct (last_access h v); [contradiction | reflexivity]. }
    split; [exact Hvn|]. intros j Hj Hjn.
    destruct (Z.eq_dec j v) as [->|Hne]; [lia|].
    specialize (Hold j Hj Hne). unfold older in Hold. rewrite Hvn, Hjn in Hold. lia.
  - intros Hall j Hj Hne. specialize (Hold j Hj Hne). unfold older in Hold.
    pose proof (Hall v Hv) as Hv1. pose proof (Hall j Hj) as Hj1.
    destruct (last_access h v) as [a|]; [|congruence].
    destruct (last_access h j) as [b|]; [|congruence].
    exists a, b. repeat split; exact Hold.
Qed.

(* 3. ages *)
Lemma repr_nth o i : 0 <= i < Z.of_nat (length o) -> nthZ (pol_repr (LRU o)) i 0 = index_of i o 0.
Proof.
  intros Hi. cbn [pol_repr]. unfold nthZ.
  rewrite (nth_indep _ 0 (index_of 0 o 0)) by (rewrite map_length, zrange_length; lia).
  rewrite (map_nth (fun i => index_of i o 0)). rewrite zrange_nth by lia. f_equal. lia.
Qed.

Lemma lru_ages_proof : forall n h, 0 <= n -> in_range n h ->
  exists o, run (pol_init false n) h = LRU o /\
  let r := pol_repr (LRU o) in
  length r = Z.to_nat n /\
  (forall i, 0 <= i < n -> 0 <= nthZ r i 0 < n /\ nthZ o (nthZ r i 0) 0 = i) /\
  (forall p, 0 <= p < n -> nthZ r (nthZ o p 0) 0 = p) /\
  (forall i j, 0 <= i < n -> 0 <= j < n -> (nthZ r i 0 < nthZ r j 0 <-> older h i j)).
Proof.
  intros n h Hn Hr. destruct (lru_run_inv n h Hn Hr) as (o & Ho & Hnd & Hlen & Hin & Hs).
  exists o. split; [exact Ho|]. cbv zeta.
  assert (Hrn : forall i, 0 <= i < n -> nthZ (pol_repr (LRU o)) i 0 = index_of i o 0)
    by (intros i Hi; apply repr_nth; lia).
  assert (Hidx : forall i, 0 <= i < n ->
            0 <= index_of i o 0 < n /\ nth (Z.to_nat (index_of i o 0)) o 0 = i).
  { intros i Hi. destruct (index_of_In i o) as [H1 H2]; [apply Hin; exact Hi|]. split; [lia | exact H2]. }
  split; [cbn [pol_repr]; rewrite map_length, zrange_length; exact Hlen|].
  split; [intros i Hi; rewrite (Hrn i Hi); unfold nthZ; apply Hidx; exact Hi|].
  split.
  { intros p Hp. unfold nthZ at 2.
    assert (Hpin : 0 <= nth (Z.to_nat p) o 0 < n) by (apply Hin; apply nth_In; lia).
    rewrite (Hrn _ Hpin). rewrite index_of_nth by (assumption || lia). lia. }
  assert (Hfwd : forall i j, 0 <= i < n -> 0 <= j < n -> index_of i o 0 < index_of j o 0 -> older h i j).
  { intros i j Hi Hj Hlt. destruct (Hidx i Hi) as [Hri Hni]. destruct (Hidx j Hj) as [Hrj Hnj].
    rewrite <- Hni at 1. rewrite <- Hnj at 1. apply sorted_nth; [exact Hs | lia]. }
  intros i j Hi Hj. rewrite (Hrn i Hi), (Hrn j Hj). split; [apply Hfwd; assumption|].
  intros Hold.
  destruct (Z.lt_trichotomy (index_of i o 0) (index_of j o 0)) as [Hlt|[Heq|Hgt]]; [exact Hlt| |].
  - exfalso. destruct (Hidx i Hi) as [_ Hni]. destruct (Hidx j Hj) as [_ Hnj].
    rewrite Heq in Hni. assert (i = j) by congruence. subst j. exact (older_irrefl h i Hold).
  - exfalso. exact (older_asym h i j Hold (Hfwd j i Hj Hi Hgt)).
Qed.

(* 5a. LRU idempotence *)
Lemma lru_idem_NoDup o i : NoDup o ->
  pol_access (pol_access (LRU o) i) i = pol_access (LRU o) i.
Proof.
  intros Hnd. cbn [pol_access]. f_equal. f_equal.
  apply remove_first_snoc. destruct (in_dec Z.eq_dec i o) as [Hin|Hnin].
  - rewrite remove_first_In_iff by exact Hnd. tauto.
  - rewrite remove_first_notin by exact Hnin. exact Hnin.
Qed.

Lemma lru_idem_reachable n h i : 0 <= n -> in_range n h ->
  pol_access (pol_access (run (pol_init false n) h) i) i = pol_access (run (pol_init false n) h) i.
Proof.
  intros Hn Hr. destruct (lru_run_inv n h Hn Hr) as (o & Ho & Hnd & _).
  rewrite Ho. apply lru_idem_NoDup. exact Hnd.
Qed.

(** * Part 4: PLRU victim — the descent loop follows the tree bits *)
Lemma pow2_S d : 2 ^ Z.of_nat (S d) = 2 * 2 ^ Z.of_nat d.
Proof. rewrite Nat2Z.inj_succ, Z.pow_succ_r by lia. reflexivity. Qed.

Lemma pow2_pos d : 0 < 2 ^ Z.of_nat d.
Proof. apply Z.pow_pos_nonneg; lia. Qed.

Lemma plru_depth_pow2 d : plru_depth (2 ^ Z.of_nat d) = d.
Proof. unfold plru_depth. rewrite Z.log2_pow2 by lia. apply Nat2Z.id. Qed.

Lemma tree_victim_range d t : 0 <= tree_victim d t < 2 ^ Z.of_nat d.
Proof.
  revert t; induction d as [|d IH]; intros t.
  - cbn [tree_victim]. change (2 ^ Z.of_nat 0) with 1. destruct t; lia.
  - pose proof (pow2_pos d) as HP. rewrite pow2_S. destruct t as [|b l r]; cbn [tree_victim]; [lia|].
    pose proof (IH l). pose proof (IH r). destruct b; lia.
Qed.

Lemma victim_loop_tree bits d : forall i,
  plru_victim_loop d i bits = 2 ^ Z.of_nat d * (i + 1) - 1 + tree_victim d (heap_tree bits d i).
Proof.
  induction d as [|d IH]; intros i.
  - cbn [plru_victim_loop heap_tree tree_victim]. change (2 ^ Z.of_nat 0) with 1. lia.
  - cbn [plru_victim_loop heap_tree tree_victim]. rewrite pow2_S.
    set (P := 2 ^ Z.of_nat d) in *. rewrite IH.
    destruct (nthZ bits i false); lia.
Qed.

Lemma plru_victim_proof d bits :
  pol_victim (PLRU (2 ^ Z.of_nat d) bits) = tree_victim d (heap_tree bits d 0).
Proof. cbn [pol_victim]. rewrite plru_depth_pow2, victim_loop_tree. lia. Qed.

(** * Part 5: PLRU access — the bottom-up loop is the top-down tree update *)
(* 1-based node numbers: node j has children 2j, 2j+1 and parent j/2 *)
Definition upd (f : Z -> bool) (c : Z) (v : bool) : Z -> bool := fun j => if j =? c then v else f j.

Fixpoint acc1 (d : nat) (x : Z) (f : Z -> bool) : Z -> bool :=
  match d with
  | O => f
  | S d' => acc1 d' (x / 2) (upd f (x / 2) (x mod 2 =? 0))
  end.

Fixpoint ht1 (f : Z -> bool) (d : nat) (c : Z) : ptree :=
  match d with
  | O => Leaf
  | S d' => Node (f c) (ht1 f d' (2 * c)) (ht1 f d' (2 * c + 1))
  end.

Definition fbits (bits : list bool) : Z -> bool := fun j => nthZ bits (j - 1) false.

(* j lies in the subtree of depth d rooted at c (leaf level excluded) *)
Definition insub (d : nat) (c j : Z) : Prop :=
  exists e, (e < d)%nat /\ 2 ^ Z.of_nat e * c <= j < 2 ^ Z.of_nat e * (c + 1).

Lemma insub_root d c : insub (S d) c c.
Proof. exists O. change (2 ^ Z.of_nat 0) with 1. split; lia. Qed.

Lemma insub_left d c j : insub d (2 * c) j -> insub (S d) c j.
Proof.
  intros (e & He & Hj). exists (S e). split; [lia|]. rewrite pow2_S.
  pose proof (pow2_pos e). set (P := 2 ^ Z.of_nat e) in *. lia.
Qed.

Lemma insub_right d c j : insub d (2 * c + 1) j -> insub (S d) c j.
Proof.
  intros (e & He & Hj). exists (S e). split; [lia|]. rewrite pow2_S.
  pose proof (pow2_pos e). set (P := 2 ^ Z.of_nat e) in *. lia.
Qed.

Lemma insub_mono d c j : insub d c j -> insub (S d) c j.
Proof. intros (e & He & Hj). exists e. split; [lia | exact Hj]. Qed.

Lemma insub_ge d c j : 1 <= c -> insub d c j -> c <= j.
Proof.
  intros Hc (e & He & Hj). pose proof (pow2_pos e). set (P := 2 ^ Z.of_nat e) in *. nia.
Qed.

Lemma pow2_lt e e' : (e < e')%nat -> 2 * 2 ^ Z.of_nat e <= 2 ^ Z.of_nat e'.
Proof.
  intros Hlt. rewrite <- pow2_S. apply Z.pow_le_mono_r; lia.
Qed.

Lemma insub_siblings d c j : 1 <= c -> insub d (2 * c) j -> insub d (2 * c + 1) j -> False.
Proof.
  intros Hc (e & He & Hj) (e' & He' & Hj').
  pose proof (pow2_pos e) as HP. pose proof (pow2_pos e') as HQ.
  destruct (lt_eq_lt_dec e e') as [[Hlt|Heq]|Hgt].
  - pose proof (pow2_lt e e' Hlt) as Hle.
    set (P := 2 ^ Z.of_nat e) in *. set (Q := 2 ^ Z.of_nat e') in *. nia.
  - subst e'. lia.
  - pose proof (pow2_lt e' e Hgt) as Hle.
    set (P := 2 ^ Z.of_nat e) in *. set (Q := 2 ^ Z.of_nat e') in *. nia.
Qed.

Lemma ht1_ext d : forall c f g, (forall j, insub d c j -> f j = g j) -> ht1 f d c = ht1 g d c.
Proof.
  induction d as [|d IH]; intros c f g Hfg; cbn [ht1]; [reflexivity|].
  rewrite (Hfg c (insub_root d c)). f_equal; apply IH; intros j Hj; apply Hfg.
  - apply insub_left; exact Hj.
  - apply insub_right; exact Hj.
Qed.

Lemma acc1_ext d : forall x f g, (forall j, 1 <= j -> f j = g j) ->
  forall j, 1 <= j -> acc1 d x f j = acc1 d x g j.
Proof.
  induction d as [|d IH]; intros x f g Hfg j Hj; cbn [acc1]; [apply Hfg; exact Hj|].
  apply IH; [|exact Hj]. intros j' Hj'. unfold upd. destruct (j' =? x / 2); [reflexivity | apply Hfg; exact Hj'].
Qed.

Lemma div2_pow x d : x / 2 / 2 ^ Z.of_nat d = x / 2 ^ Z.of_nat (S d).
Proof. pose proof (pow2_pos d). rewrite Z.div_div by lia. rewrite pow2_S. reflexivity. Qed.

Lemma div_uniq a b q r : 0 <= r < b -> a = b * q + r -> a / b = q.
Proof. intros Hr E. symmetry. apply Z.div_unique with r; [left; exact Hr | exact E]. Qed.

(* the last iteration of the loop writes the topmost node *)
Lemma acc1_snoc d : forall x f j,
  acc1 (S d) x f j = upd (acc1 d x f) (x / 2 ^ Z.of_nat (S d)) (x / 2 ^ Z.of_nat d mod 2 =? 0) j.
Proof.
  induction d as [|d IH]; intros x f j.
  - cbn [acc1]. change (2 ^ Z.of_nat 1) with 2. change (2 ^ Z.of_nat 0) with 1.
    rewrite Z.div_1_r. reflexivity.
  - change (acc1 (S (S d)) x f j) with (acc1 (S d) (x / 2) (upd f (x / 2) (x mod 2 =? 0)) j).
    rewrite IH. rewrite !div2_pow. reflexivity.
Qed.

(* the loop only writes inside the subtree that contains its starting node *)
Lemma acc1_frame d : forall c x f j,
  2 ^ Z.of_nat d * c <= x < 2 ^ Z.of_nat d * (c + 1) -> ~ insub d c j -> acc1 d x f j = f j.
Proof.
  induction d as [|d IH]; intros c x f j Hx Hj; cbn [acc1]; [reflexivity|].
  rewrite pow2_S in Hx. pose proof (pow2_pos d) as HP.
  assert (Hx2 : 2 ^ Z.of_nat d * c <= x / 2 < 2 ^ Z.of_nat d * (c + 1)).
  { set (P := 2 ^ Z.of_nat d) in *. lia. }
  rewrite (IH c) by (try exact Hx2; intros Hin; apply Hj; apply insub_mono; exact Hin).
  unfold upd. destruct (Z.eqb_spec j (x / 2)) as [E|E]; [|reflexivity].
  exfalso. apply Hj. exists d. split; [lia|]. rewrite E. exact Hx2.
Qed.

Lemma acc1_tree d : forall f c k, 1 <= c -> 0 <= k < 2 ^ Z.of_nat d ->
  ht1 (acc1 d (2 ^ Z.of_nat d * c + k) f) d c = tree_access d k (ht1 f d c).
Proof.
  induction d as [|d IH]; intros f c k Hc Hk; [reflexivity|].
  rewrite pow2_S in *. pose proof (pow2_pos d) as HP.
  cbn [ht1 tree_access].
  set (x := 2 * 2 ^ Z.of_nat d * c + k).
  assert (Hsub : forall c', 2 * c <= c' -> ht1 (acc1 (S d) x f) d c' = ht1 (acc1 d x f) d c').
  { intros c' Hc'. apply ht1_ext. intros j Hj. rewrite acc1_snoc. unfold upd.
    apply insub_ge in Hj; [|lia]. rewrite pow2_S.
    destruct (Z.eqb_spec j (x / (2 * 2 ^ Z.of_nat d))) as [E|E]; [|reflexivity].
    exfalso. subst x. set (P := 2 ^ Z.of_nat d) in *.
    assert ((2 * P * c + k) / (2 * P) = c) by (apply div_uniq with k; lia). lia. }
  rewrite !Hsub by lia.
  assert (Hroot : acc1 (S d) x f c = (k <? 2 ^ Z.of_nat d)).
  { rewrite acc1_snoc. unfold upd. rewrite pow2_S. subst x. set (P := 2 ^ Z.of_nat d) in *.
    assert (E1 : (2 * P * c + k) / (2 * P) = c) by (apply div_uniq with k; lia).
    rewrite E1, Z.eqb_refl.
    destruct (Z.ltb_spec k P) as [Hlt|Hge].
    - assert (E2 : (2 * P * c + k) / P = 2 * c) by (apply div_uniq with k; lia).
      rewrite E2. replace (2 * c) with (c * 2) by lia. rewrite Z.mod_mul by lia. reflexivity.
    - assert (E2 : (2 * P * c + k) / P = 2 * c + 1) by (apply div_uniq with (k - P); lia).
      rewrite E2. replace (2 * c + 1) with (1 + c * 2) by lia. rewrite Z.mod_add by lia. reflexivity. }
  rewrite Hroot. destruct (Z.ltb_spec k (2 ^ Z.of_nat d)) as [Hlt|Hge]; f_equal.
  - replace x with (2 ^ Z.of_nat d * (2 * c) + k) by (subst x; lia). apply IH; lia.
  - apply ht1_ext. intros j Hj. apply (acc1_frame d (2 * c)).
    + subst x. set (P := 2 ^ Z.of_nat d) in *. lia.
    + intros Hj'. exact (insub_siblings d c j Hc Hj' Hj).
  - apply ht1_ext. intros j Hj. apply (acc1_frame d (2 * c + 1)).
    + subst x. set (P := 2 ^ Z.of_nat d) in *. lia.
    + intros Hj'. exact (insub_siblings d c j Hc Hj Hj').
  - replace x with (2 ^ Z.of_nat d * (2 * c + 1) + (k - 2 ^ Z.of_nat d)) by (subst x; lia).
    apply IH; lia.
Qed.

(** the model's array against the 1-based function view *)
Lemma set_nth_length {A} (l : list A) p x : length (set_nth l p x) = length l.
Proof.
  revert p; induction l as [|y t IH]; intros p; [reflexivity|].
  destruct p; cbn [set_nth length]; [|rewrite IH]; reflexivity.
Qed.

Lemma nth_set_nth {A} (l : list A) p x j d : (p < length l)%nat ->
  nth j (set_nth l p x) d = if Nat.eqb j p then x else nth j l d.
Proof.
  revert p j; induction l as [|y t IH]; intros p j Hp; cbn [length] in Hp; [lia|].
  destruct p as [|p], j as [|j]; cbn [set_nth nth Nat.eqb]; try reflexivity.
  apply IH. lia.
Qed.

Lemma access_loop_length d : forall i bits, length (plru_access_loop d i bits) = length bits.
Proof.
  induction d as [|d IH]; intros i bits; cbn [plru_access_loop]; [reflexivity|].
  rewrite IH. apply set_nth_length.
Qed.

Lemma heap_tree_ht1 bits d : forall i, heap_tree bits d i = ht1 (fbits bits) d (i + 1).
Proof.
  induction d as [|d IH]; intros i; cbn [heap_tree ht1]; [reflexivity|].
  f_equal.
  - unfold fbits. rewrite Z.add_simpl_r. reflexivity.
  - rewrite IH. f_equal. lia.
  - rewrite IH. f_equal. lia.
Qed.

Lemma access_loop_acc1 d : forall i bits j,
  2 ^ Z.of_nat d <= i + 1 -> i + 1 < 2 * (Z.of_nat (length bits) + 1) -> 1 <= j ->
  fbits (plru_access_loop d i bits) j = acc1 d (i + 1) (fbits bits) j.
Proof.
  induction d as [|d IH]; intros i bits j Hlo Hhi Hj; cbn [plru_access_loop acc1]; [reflexivity|].
  rewrite pow2_S in Hlo. pose proof (pow2_pos d) as HP.
  assert (Ep : (i - 1) / 2 + 1 = (i + 1) / 2) by lia.
  rewrite IH; [| | |exact Hj].
  - rewrite Ep. apply acc1_ext; [|exact Hj]. intros j' Hj'.
    unfold fbits, upd, nthZ, set_nthZ. rewrite nth_set_nth by lia.
    destruct (Nat.eqb_spec (Z.to_nat (j' - 1)) (Z.to_nat ((i - 1) / 2))) as [E|E];
      destruct (Z.eqb_spec j' ((i + 1) / 2)) as [E'|E']; try (exfalso; lia); [|reflexivity].
    destruct (Z.eqb_spec (i mod 2) 1), (Z.eqb_spec ((i + 1) mod 2) 0); try reflexivity; lia.
  - set (P := 2 ^ Z.of_nat d) in *. lia.
  - unfold set_nthZ. rewrite set_nth_length. lia.
Qed.

(* 4b. one access *)
Lemma plru_access_proof d bits k :
  length bits = Z.to_nat (2 ^ Z.of_nat d - 1) -> 0 <= k < 2 ^ Z.of_nat d ->
  exists bits', pol_access (PLRU (2 ^ Z.of_nat d) bits) k = PLRU (2 ^ Z.of_nat d) bits' /\
    length bits' = length bits /\
    heap_tree bits' d 0 = tree_access d k (heap_tree bits d 0).
Proof.
  intros Hlen Hk. pose proof (pow2_pos d) as HP. cbn [pol_access]. rewrite plru_depth_pow2.
  eexists. split; [reflexivity|]. split; [apply access_loop_length|].
  rewrite !heap_tree_ht1. change (0 + 1) with 1.
  rewrite <- (acc1_tree d (fbits bits) 1 k) by lia.
  apply ht1_ext. intros j Hj. apply insub_ge in Hj; [|lia].
  rewrite access_loop_acc1 by (set (P := 2 ^ Z.of_nat d) in *; lia).
  f_equal. lia.
Qed.

(** * Part 6: spec-level facts about the tree, and runs of the model *)
Lemma heap_tree_complete bits d : forall i, complete d (heap_tree bits d i).
Proof. induction d as [|d IH]; intros i; cbn [heap_tree]; constructor; apply IH. Qed.

Lemma tree_access_complete d : forall k t, complete d t -> complete d (tree_access d k t).
Proof.
  induction d as [|d IH]; intros k t Hc; inversion Hc; subst; cbn [tree_access]; [constructor|].
  destruct (k <? 2 ^ Z.of_nat d); constructor; try assumption; apply IH; assumption.
Qed.

Lemma tree_access_idem d : forall k t, tree_access d k (tree_access d k t) = tree_access d k t.
Proof.
  induction d as [|d IH]; intros k t; [reflexivity|]. destruct t as [|b l r]; [reflexivity|].
  change (tree_access (S d) k (Node b l r)) with
    (if k <? 2 ^ Z.of_nat d then Node true (tree_access d k l) r
     else Node false l (tree_access d (k - 2 ^ Z.of_nat d) r)).
  destruct (k <? 2 ^ Z.of_nat d) eqn:E; cbn [tree_access]; rewrite E, IH; reflexivity.
Qed.

(* the block just accessed is never the next victim *)
Lemma tree_victim_access d k t : complete (S d) t -> 0 <= k < 2 ^ Z.of_nat (S d) ->
  tree_victim (S d) (tree_access (S d) k t) <> k.
Proof.
  intros Hc Hk. inversion Hc as [|? b l r Hl Hr]; subst. cbn [tree_access].
  destruct (Z.ltb_spec k (2 ^ Z.of_nat d)) as [Hlt|Hge]; cbn [tree_victim].
  - pose proof (tree_victim_range d r). lia.
  - pose proof (tree_victim_range d l). lia.
Qed.

Lemma repeat_false_nthZ m i : nthZ (repeat false m) i false = false.
Proof. unfold nthZ. apply nth_repeat. Qed.

Lemma heap_tree_init m d : forall i, heap_tree (repeat false m) d i = tree_init d.
Proof.
  induction d as [|d IH]; intros i; cbn [heap_tree tree_init]; [reflexivity|].
  rewrite repeat_false_nthZ, !IH. reflexivity.
Qed.

Lemma plru_run_proof : forall d h, in_range (2 ^ Z.of_nat d) h ->
  exists bits, run (pol_init true (2 ^ Z.of_nat d)) h = PLRU (2 ^ Z.of_nat d) bits /\
    length bits = Z.to_nat (2 ^ Z.of_nat d - 1) /\
    heap_tree bits d 0 = fold_left (fun t k => tree_access d k t) h (tree_init d) /\
    complete d (heap_tree bits d 0) /\
    0 <= pol_victim (run (pol_init true (2 ^ Z.of_nat d)) h) < 2 ^ Z.of_nat d.
Proof.
  intros d h. 
  assert (Hmain : in_range (2 ^ Z.of_nat d) h ->
    exists bits, run (pol_init true (2 ^ Z.of_nat d)) h = PLRU (2 ^ Z.of_nat d) bits /\
    length bits = Z.to_nat (2 ^ Z.of_nat d - 1) /\
    heap_tree bits d 0 = fold_left (fun t k => tree_access d k t) h (tree_init d)).
  { induction h as [|k h IH] using rev_ind; intros Hr.
    - eexists. split; [reflexivity|]. split; [apply repeat_length|]. apply heap_tree_init.
    - apply in_range_snoc in Hr. destruct Hr as [Hr Hk].
      destruct (IH Hr) as (bits & Hrun & Hlen & Htree).
      destruct (plru_access_proof d bits k Hlen Hk) as (bits' & Hacc & Hlen' & Htree').
      exists bits'. split; [rewrite run_snoc, Hrun; exact Hacc|].
      split; [congruence|]. rewrite fold_left_app. cbn [fold_left]. rewrite <- Htree. exact Htree'. }
  intros Hr. destruct (Hmain Hr) as (bits & Hrun & Hlen & Htree).
  exists bits. repeat split; try assumption; [apply heap_tree_complete| |];
    rewrite Hrun, plru_victim_proof; apply tree_victim_range.
Qed.

(** * Part 7: PLRU idempotence, for every associativity, array and index *)
(* the access loop is a sequence of writes that does not depend on the array *)
Fixpoint writes (d : nat) (i : Z) : list (nat * bool) :=
  match d with
  | O => []
  | S d' => (Z.to_nat ((i - 1) / 2), i mod 2 =? 1) :: writes d' ((i - 1) / 2)
  end.

Definition apply_writes {A} (ws : list (nat * A)) (l : list A) : list A :=
  fold_left (fun l w => set_nth l (fst w) (snd w)) ws l.

Fixpoint lookup {A} (ws : list (nat * A)) (j : nat) (x : A) : A :=
  match ws with
  | [] => x
  | w :: t => lookup t j (if Nat.eqb j (fst w) then snd w else x)
  end.

Lemma access_loop_writes d : forall i bits, plru_access_loop d i bits = apply_writes (writes d i) bits.
Proof.
  induction d as [|d IH]; intros i bits; cbn [plru_access_loop writes]; [reflexivity|].
  rewrite IH. reflexivity.
Qed.

Lemma apply_writes_length {A} (ws : list (nat * A)) : forall l, length (apply_writes ws l) = length l.
Proof.
  induction ws as [|w t IH]; intros l; [reflexivity|].
  unfold apply_writes in *. cbn [fold_left]. rewrite IH. apply set_nth_length.
Qed.

Lemma apply_writes_nth {A} (ws : list (nat * A)) (d : A) : forall l j, (j < length l)%nat ->
  nth j (apply_writes ws l) d = lookup ws j (nth j l d).
Proof.
  induction ws as [|w t IH]; intros l j Hj; [reflexivity|].
  unfold apply_writes in *. cbn [fold_left lookup]. rewrite IH by (rewrite set_nth_length; exact Hj).
  f_equal. destruct (Nat.lt_ge_cases (fst w) (length l)) as [Hlt|Hge].
  - apply nth_set_nth. exact Hlt.
  - destruct (Nat.eqb_spec j (fst w)) as [E|E]; [lia|]. f_equal.
    clear -Hge. revert Hge. generalize (fst w) as p. induction l as [|y l IHl]; intros p Hp; [reflexivity|].
    destruct p; cbn [length] in Hp; [lia|]. cbn [set_nth]. rewrite IHl by lia. reflexivity.
Qed.

Lemma lookup_cases {A} (ws : list (nat * A)) j :
  (forall x, lookup ws j x = x) \/ (exists v, forall x, lookup ws j x = v).
Proof.
  induction ws as [|w t IH]; [left; reflexivity|]. cbn [lookup].
  destruct IH as [Hid|[v Hv]].
  - destruct (Nat.eqb j (fst w)).
    + right. exists (snd w). intros x. apply Hid.
    + left. intros x. apply Hid.
  - right. exists v. intros x. apply Hv.
Qed.

Lemma apply_writes_idem {A} (ws : list (nat * A)) (l : list A) :
  apply_writes ws (apply_writes ws l) = apply_writes ws l.
Proof.
  destruct l as [|y l].
  { assert (Hnil : apply_writes ws (@nil A) = []).
    { pose proof (apply_writes_length ws (@nil A)) as Hl.
      destruct (apply_writes ws []); [reflexivity | discriminate]. }
    rewrite !Hnil. reflexivity. }
  apply (nth_ext _ _ y y); [rewrite !apply_writes_length; reflexivity|].
  intros j Hj. rewrite !apply_writes_length in Hj.
  rewrite apply_writes_nth by (rewrite apply_writes_length; exact Hj).
  rewrite apply_writes_nth by exact Hj.
  destruct (lookup_cases ws j) as [Hid|[v Hv]]; [rewrite !Hid | rewrite !Hv]; reflexivity.
Qed.

(* 5b. *)
Lemma plru_idem a bits k :
  pol_access (pol_access (PLRU a bits) k) k = pol_access (PLRU a bits) k.
Proof. cbn [pol_access]. f_equal. rewrite !access_loop_writes. apply apply_writes_idem. Qed.

(* 5, both policies *)
Lemma access_idem_proof : forall p i,
  (match p with LRU o => NoDup o | PLRU _ _ => True end) ->
  pol_access (pol_access p i) i = pol_access p i.
Proof. intros [o|a bits] i H; [apply lru_idem_NoDup; exact H | apply plru_idem]. Qed.

Lemma access_idem_reachable : forall plru n h i, 0 <= n -> in_range n h ->
  let p := run (pol_init plru n) h in pol_access (pol_access p i) i = pol_access p i.
Proof.
  intros [|] n h i Hn Hr; cbv zeta.
  - assert (Hp : exists a bits, run (pol_init true n) h = PLRU a bits).
    { clear Hr. induction h as [|k h IH] using rev_ind; [eexists; eexists; reflexivity|].
      destruct IH as (a & bits & E). rewrite run_snoc, E. eexists; eexists; reflexivity. }
    destruct Hp as (a & bits & E). rewrite E. apply plru_idem.
  - apply lru_idem_reachable; assumption.
Qed.

(** * Part 8: packaged statements for Props/C10.v *)
Lemma plru_tree_refines_proof : forall (d : nat) (bits : list bool),
  let a := 2 ^ Z.of_nat d in
  pol_victim (PLRU a bits) = tree_victim d (heap_tree bits d 0) /\
  0 <= pol_victim (PLRU a bits) < a /\
  (length bits = Z.to_nat (a - 1) ->
   forall k, 0 <= k < a ->
     exists bits', pol_access (PLRU a bits) k = PLRU a bits' /\
       length bits' = length bits /\
       heap_tree bits' d 0 = tree_access d k (heap_tree bits d 0)).
Proof.
  intros d bits a. subst a. split; [apply plru_victim_proof|]. split.
  - rewrite plru_victim_proof. apply tree_victim_range.
  - intros Hlen k Hk. apply plru_access_proof; assumption.
Qed.

Lemma last_access_meaning_proof : forall h i,
  (last_access h i = None <-> ~ In i h) /\
  (forall p, last_access h i = Some p ->
     nth_error h p = Some i /\ forall q, (p < q)%nat -> nth_error h q <> Some i).
Proof. intros h i. split; [apply last_access_None | intros p; apply last_access_Some]. Qed.

Lemma older_strict_total_proof : forall h i j,
  ~ older h i i /\ (older h i j -> older h j i -> False) /\ (i <> j -> older h i j \/ older h j i).
Proof.
  intros h i j. split; [apply older_irrefl|]. split; [apply older_asym | apply older_total].
Qed.
