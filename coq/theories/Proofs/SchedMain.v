(* SchedMain.v — the timing theorem of property C07: the retire cycles of the five-stage pipeline
   with hazard detection are those of the documented recurrence. *)
From Coq Require Import Lia ZifyBool.
From ArchSim Require Import Model.Base Model.Mem Model.Cache Model.Fmt Model.RV Model.Single
  Model.RVSplit Model.Pipe Proofs.WordLemmas Proofs.C01Step Proofs.SplitExec Proofs.C02Split
  Proofs.PipeLaws Proofs.PipeShape Proofs.PipeInv Proofs.PipeInvBase Proofs.PipeInvStages
  Proofs.PipeInvStraight Proofs.PipeInvControl Proofs.PipeInvEcall Proofs.SchedDefs Proofs.SchedRec
  Proofs.SchedStep Proofs.SchedInv Proofs.SchedLink.
Open Scope Z_scope.

Local Arguments Z.of_nat : simpl never.
Local Arguments Z.add : simpl never.

(** * The single-cycle run as a sequence of states *)
Lemma sigma_nxt j s : sigma (S j) s = sigma j (nxt s).
Proof. reflexivity. Qed.

Lemma run_states n : forall s s', single_run n s = (s', Done) ->
  exists N, (N <= n)%nat /\
    (forall j, (j < N)%nat -> single_done (sigma j s) = false /\ snd (single_pipeline_step (sigma j s)) = None) /\
    single_done (sigma N s) = true /\
    single_trace n s = map (fun j => pc (sigma j s)) (seq 0 N) /\
    single_events n s = map (fun j => ev_of (sigma j s)) (seq 0 N).
Proof.
  induction n as [|n IH]; intros s s' H; cbn [single_run single_trace single_events] in *.
  - destruct (single_done s) eqn:Hd; [|discriminate H].
    exists 0%nat. split; [lia|]. split; [intros j Hj; lia|]. split; [exact Hd|split; reflexivity].
  - destruct (single_done s) eqn:Hd.
    + exists 0%nat. split; [lia|]. split; [intros j Hj; lia|]. split; [exact Hd|split; reflexivity].
    + destruct (single_pipeline_step s) as [s1 [f|]] eqn:Hs; [discriminate H|].
      destruct (IH s1 s' H) as (N & Hle & H1 & H2 & Ht & He).
      assert (Hn : nxt s = s1) by (unfold nxt; rewrite Hs; reflexivity).
      exists (S N). split; [lia|]. split; [|split; [rewrite sigma_nxt, Hn; exact H2|]].
      * intros [|j] Hj; [cbn [sigma]; rewrite Hs; split; [exact Hd|reflexivity]|].
        rewrite sigma_nxt, Hn. apply H1. lia.
      * rewrite Ht, He. cbn [seq map sigma]. rewrite <- !seq_shift, !map_map.
        split; f_equal; apply map_ext; intros j; rewrite sigma_nxt, Hn; reflexivity.
Qed.

Lemma combine_map {A B C} (f : A -> B) (g : A -> C) l :
  combine (map f l) (map g l) = map (fun a => (f a, g a)) l.
Proof. induction l as [|a l IH]; cbn [map combine]; [reflexivity|rewrite IH; reflexivity]. Qed.

Lemma last_map_seq (g : nat -> nat) m : last (map g (seq 0 (S m))) 0%nat = g m.
Proof. rewrite seq_S, map_app. cbn [map Nat.add]. apply last_last. Qed.

(* the documented schedule of the run, by index *)
Lemma schedule_events n s N :
  single_events n s = map (fun j => ev_of (sigma j s)) (seq 0 N) ->
  schedule (single_events n s) = map (fun j => (X (ev s) j + 2)%nat) (seq 0 N).
Proof.
  intros ->. rewrite schedule_xsched. change (fun j => ev_of (sigma j s)) with (ev s).
  rewrite xsched_X, map_map. reflexivity.
Qed.

(** * The theorem *)
Theorem pipe_schedule_lem P s n s' :
  Forall (fun i => supported i = true) P -> wf s -> prog (im s) = P ->
  single_run n s = (s', Done) ->
  exists c p,
    pipe_run c (pipe_init s true) = (p, PDone) /\
    pipe_retire c (pipe_init s true) = combine (single_trace n s) (schedule (single_events n s)) /\
    c = total_cycles (schedule (single_events n s)) /\
    cycles (pst p) = cycles s + Z.of_nat c.
Proof.
  intros HS W HP Hrun. destruct (run_states n s s' Hrun) as (N & _ & H1 & H2 & Ht & He).
  rewrite (schedule_events n s N He), Ht, combine_map. unfold total_cycles.
  destruct N as [|m].
  - (* the machine is done at once *)
    exists 0%nat, (pipe_init s true). cbn [sigma] in H2.
    assert (Hpd : pipe_done (pipe_init s true) = true).
    { unfold pipe_done, pipe_empty, single_done in *. cbn [pipe_init pst lat]. lat5. cbn [nonempty orb negb andb].
      exact H2. }
    cbn [pipe_run seq map last]. unfold pipe_retire. cbn [pipe_retire_from]. rewrite Hpd.
    repeat split. cbn [pipe_init pst]. lia.
  - destruct (H1 0%nat ltac:(lia)) as [Hnd _]. cbn [sigma] in Hnd.
    assert (Hex : exitc s = None).
    { unfold single_done in Hnd. destruct (exitc s); [discriminate Hnd|reflexivity]. }
    pose proof (J_init P HS s (S m) H1 H2 W HP Hex) as HJ.
    destruct (run_sched P HS s (S m) H1 H2 (X (ev s) m + 2)%nat 0%nat (pipe_init s true) 0%nat HJ ltac:(lia))
      as (p & Hr & Hret & Hsteps).
    { replace (S m - 1)%nat with m by lia. lia. }
    exists (X (ev s) m + 2)%nat, p. split; [exact Hr|].
    split; [unfold pipe_retire; rewrite Hret; replace (S m - 0)%nat with (S m) by lia; reflexivity|].
    split; [rewrite (last_map_seq (fun j => (X (ev s) j + 2)%nat) m); reflexivity|].
    destruct (wf_flat s W) as [mm Hm].
    pose proof (pipe_run_cycles_flat (X (ev s) m + 2) (pipe_init s true) mm Hm (wf_noic s W)) as Hc.
    rewrite Hr, Hsteps in Hc. exact Hc.
Qed.
Print Assumptions pipe_schedule_lem.
