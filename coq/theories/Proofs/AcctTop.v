(* Proofs/AcctTop.v — corollaries packaged for Props/C09Programs.v and Props/C11Accounting.v *)
From Coq Require Import Lia ZifyBool.
From ArchSim Require Import Spec.RefCache.
From ArchSim Require Import Model.Base Model.Mem Model.Cache Model.Fmt Model.RV Model.Single
  Model.RVSplit Model.Pipe
  Proofs.C01Step Proofs.SplitExec Proofs.PipeLaws Proofs.PipeInv Proofs.C11Proofs
  Proofs.LiftSim Proofs.LiftSingle Proofs.LiftRefine
  Proofs.AcctRead Proofs.AcctExec Proofs.AcctStep Proofs.AcctRefine Proofs.AcctCount Proofs.AcctICache.
Open Scope Z_scope.

(* C09: identical counters in both modes, counting each executed load/store once *)
Lemma counters_both_modes_lem s n s' d :
  cwf s -> Forall (fun i => supported i = true) (prog (im s)) -> ms s = MCache d ->
  single_run n s = (s', Done) ->
  exists c p, (c <= 8 * n + 8)%nat /\ pipe_run c (pipe_init s true) = (p, PDone) /\
    dacc (pst p) = dacc s' /\ dhit (pst p) = dhit s' /\
    dacc s' = dacc s + count_ldst (single_instrs n s).
Proof.
  intros HW HS Hm Hrun.
  destruct (pipe_single_same_dcache_lem s n s' HW HS Hrun) as (c & p & Hc & Hp & Hms & _).
  exists c, p. split; [exact Hc|]. split; [exact Hp|].
  split; [unfold dacc; rewrite Hms; reflexivity|]. split; [unfold dhit; rewrite Hms; reflexivity|].
  apply (dcache_counts_lem n s d s' Done (cwf_cache_ok s HW) Hm Hrun). intros f E. discriminate.
Qed.

Lemma single_instrs_eq k s :
  single_instrs 0 s = [] /\
  single_instrs (S k) s =
    if single_done s then []
    else match single_pipeline_step s with
         | (_, Some _) => []
         | (s', None) => match instr_at (prog (im s)) (pc s) with Some i => [i] | None => [] end
                         ++ single_instrs k s'
         end.
Proof. split; reflexivity. Qed.


(* C11: single-cycle mode, with an instruction cache *)
Lemma icache_single_lem n s c : icc (im s) = Some c ->
  let s' := fst (single_run n s) in
  iacc s' - iacc s = icount s' - icount s /\ icount s' - icount s = Z.of_nat (single_run_steps n s).
Proof.
  intros Hc. cbv zeta. destruct (single_run_iacc n s) as [H _]. cbv zeta in H.
  assert (E : ic1 s = 1) by (unfold ic1; rewrite Hc; reflexivity). rewrite E in H.
  pose proof (single_run_steps_icount n s). split; lia.
Qed.

Lemma icache_pipe_lem f p c : icc (im (pst p)) = Some c ->
  iacc (pst (fst (pipe_run f p))) = iacc (pst p) + Z.of_nat (pipe_fetches f p).
Proof.
  intros Hc. destruct (pipe_run_iacc f p) as [H _]. cbv zeta in H.
  assert (E : ic1 (pst p) = 1) by (unfold ic1; rewrite Hc; reflexivity). rewrite E in H. lia.
Qed.

(* the counters are those of the reference cache fed the fetch addresses of the run *)
Lemma icache_single_ref_lem n s c : icc (im s) = Some c ->
  let g := cfg (ic c) in 0 <= ibits g -> 0 <= bbits g ->
  let addrs := single_fetches n s in
  im (fst (single_run n s)) = im_after (im s) addrs /\ length addrs = single_run_steps n s /\
  im_counters (im s) addrs = map fst (ref_fetch_run g (ipenalty c) (iref_of c) addrs) /\
  map snd (im_run (im s) addrs) = map snd (ref_fetch_run g (ipenalty c) (iref_of c) addrs).
Proof.
  intros Hc g Hi Hb addrs. split; [apply single_run_im|]. split; [apply single_fetches_length|].
  destruct (icache_run_proof addrs (im s) c Hc Hi Hb) as (H1 & H2 & _). split; assumption.
Qed.

Lemma icache_pipe_ref_lem f p c : icc (im (pst p)) = Some c ->
  let g := cfg (ic c) in 0 <= ibits g -> 0 <= bbits g ->
  let addrs := pipe_fetch_addrs f p in
  im (pst (fst (pipe_run f p))) = im_after (im (pst p)) addrs /\ length addrs = pipe_fetches f p /\
  im_counters (im (pst p)) addrs = map fst (ref_fetch_run g (ipenalty c) (iref_of c) addrs) /\
  map snd (im_run (im (pst p)) addrs) = map snd (ref_fetch_run g (ipenalty c) (iref_of c) addrs).
Proof.
  intros Hc g Hi Hb addrs. split; [apply pipe_run_im|]. split; [apply pipe_fetch_addrs_length|].
  destruct (icache_run_proof addrs (im (pst p)) c Hc Hi Hb) as (H1 & H2 & _). split; assumption.
Qed.

Lemma count_ldst_eq l :
  count_ldst l =
  Z.of_nat (length (filter (fun i => match i with ILoad _ _ _ _ | IStore _ _ _ _ => true | _ => false end) l)).
Proof. reflexivity. Qed.

Lemma pfetches_eq p :
  pfetches p = match stalled p with Some _ => false | None => has_instr (im (pst p)) (pc (pst p)) end.
Proof. reflexivity. Qed.

Lemma pipe_fetches_eq k p :
  pipe_fetches 0 p = 0%nat /\
  pipe_fetches (S k) p =
    if pipe_done p then 0%nat
    else ((if pfetches p then 1 else 0) +
          match pipe_step p with (_, Some _) => 0 | (p', None) => pipe_fetches k p' end)%nat.
Proof. split; reflexivity. Qed.

Lemma single_fetches_eq k s :
  single_fetches 0 s = [] /\
  single_fetches (S k) s =
    if single_done s then []
    else pc s :: match single_pipeline_step s with (_, Some _) => [] | (s', None) => single_fetches k s' end.
Proof. split; reflexivity. Qed.

Lemma pipe_fetch_addrs_eq k p :
  pipe_fetch_addrs 0 p = [] /\
  pipe_fetch_addrs (S k) p =
    if pipe_done p then []
    else (if pfetches p then [pc (pst p)] else []) ++
         match pipe_step p with (_, Some _) => [] | (p', None) => pipe_fetch_addrs k p' end.
Proof. split; reflexivity. Qed.

Lemma single_run_steps_eq k s :
  single_run_steps 0 s = 0%nat /\
  single_run_steps (S k) s =
    if single_done s then 0%nat
    else match single_pipeline_step s with (_, Some _) => 1%nat | (s', None) => S (single_run_steps k s') end.
Proof. split; reflexivity. Qed.
