(* IndepRefCacheSim.v — properties C09 / C11, spec independence, part 2: the reference of
   Spec/RefCache.v (which runs the MODEL's replacement policy functions) and the reference of
   IndepRefPolicy.v (which runs the SPECIFICATION policies of Spec/Policy.v) make the same hit /
   miss decisions, counters and penalties along every history; composed with the theorems of
   Props/C09.v and Props/C11.v: so do the model's data cache and instruction cache. *)
From Coq Require Import Lia ZifyBool.
From ArchSim Require Import Model.Base Model.Mem Model.Cache Model.RV Spec.Policy Spec.RefCache
  Proofs.CacheArith Proofs.C10Proofs Proofs.C09Proofs Proofs.C11Proofs Proofs.IndepRefPolicy.
Open Scope Z_scope.

Definition sg_of (g : ccfg) : sgeom :=
  {| s_ibits := ibits g; s_bbits := bbits g; s_assoc := assoc g; s_plru := plru g |}.
Definition sacc_of (x : access) : sacc :=
  match x with ARead a c => SRead a c | AWrite a d => SWrite a d end.
Definition flat4 (kp : counters * Z) : Z * Z * bool * Z :=
  (c_hits (fst kp), c_accesses (fst kp), c_lasthit (fst kp), snd kp).

(** * The relation *)
Definition RelSet (n : Z) (s : rset) (ss : sset) : Prop :=
  rtags s = stags ss /\ length (rtags s) = Z.to_nat n /\ Rpol n (rpol s) (spl ss).
Definition RelC (g : ccfg) (r : rcache) (sr : scache) : Prop :=
  Forall2 (RelSet (assoc g)) (r_dir r) (sc_dir sr) /\ length (r_dir r) = Z.to_nat (2 ^ ibits g) /\
  c_hits (r_cnt r) = sc_hits sr /\ c_accesses (r_cnt r) = sc_acc sr /\ c_lasthit (r_cnt r) = sc_last sr.

Lemma way_eq ways tag : forall i, ref_way ways tag i = s_way ways tag i.
Proof. induction ways as [|[t|] rest IH]; intros i; cbn [ref_way s_way]; [reflexivity| |apply IH]. destruct (t =? tag); [reflexivity|apply IH]. Qed.
Lemma way_bound ways tag : forall i w, s_way ways tag i = Some w -> i <= w < i + Z.of_nat (length ways).
Proof.
  induction ways as [|[t|] rest IH]; intros i w; cbn [s_way length]; [discriminate| |].
  - destruct (t =? tag); [intros H; injection H as <-; lia|]. intros H. apply IH in H. lia.
  - intros H. apply IH in H. lia.
Qed.
Lemma lookup_way ways tag : forall i,
  existsb (fun w => match w with Some t => t =? tag | None => false end) ways =
  match s_way ways tag i with Some _ => true | None => false end.
Proof.
  induction ways as [|[t|] rest IH]; intros i; cbn [existsb s_way]; [reflexivity| |apply IH].
  destruct (t =? tag); [reflexivity|apply IH].
Qed.

Lemma F2_nth {A B} (R : A -> B -> Prop) l l' d d' : Forall2 R l l' ->
  forall i, (i < length l)%nat -> R (nth i l d) (nth i l' d').
Proof. induction 1 as [|x y l l' Hxy H IH]; intros i Hi; [cbn in Hi; lia|]. destruct i; cbn [nth]; [exact Hxy|apply IH; cbn in Hi; lia]. Qed.
Lemma F2_set {A B} (R : A -> B -> Prop) l l' x x' : Forall2 R l l' -> R x x' ->
  forall i, Forall2 R (set_nth l i x) (set_nth l' i x').
Proof.
  induction 1 as [|a b l l' Hab H IH]; intros Hx i; [destruct i; constructor|].
  destruct i; cbn [set_nth]; constructor; auto.
Qed.

Lemma set_touch_rel n al s ss tag : 1 <= n -> RelSet n s ss ->
  RelSet n (ref_set_touch al s tag) (s_set_touch al ss tag).
Proof.
  intros Hn (Ht & Hl & Hp). unfold ref_set_touch, s_set_touch. rewrite way_eq, Ht.
  destruct (s_way (stags ss) tag 0) as [w|] eqn:Ew.
  - apply way_bound in Ew. rewrite <- Ht, Hl in Ew.
    split; [reflexivity|]. split; [cbn [rtags]; rewrite <- Ht; exact Hl|]. cbn [rpol spl]. apply Rpol_access; [lia|exact Hp].
  - destruct al; [|split; [cbn [rtags]; exact Ht|split; assumption]].
    destruct (Rpol_victim n _ _ Hn Hp) as [Hv Hr]. rewrite <- Hv.
    split; [reflexivity|].
    split; [cbn [rtags]; rewrite set_nthZ_length, <- Ht; exact Hl|]. cbn [rpol spl]. apply Rpol_access; assumption.
Qed.

Section Step.
Variable g : ccfg.
Hypothesis Hg : RefCache.geom_ok g.

Lemma idx_range a : 0 <= ref_idx g a < 2 ^ ibits g.
Proof. unfold ref_idx. apply Z.mod_pos_bound. destruct Hg as (H & _). apply Z.pow_pos_nonneg; lia. Qed.

Lemma dir_rel r sr a : RelC g r sr ->
  ref_lookup (r_dir r) (ref_idx g a) (ref_tag g a) = s_lookup (sc_dir sr) (s_idx (sg_of g) a) (s_tag (sg_of g) a) /\
  forall al, Forall2 (RelSet (assoc g)) (ref_touch al (r_dir r) (ref_idx g a) (ref_tag g a))
                     (s_touch al (sc_dir sr) (s_idx (sg_of g) a) (s_tag (sg_of g) a)) /\
             length (ref_touch al (r_dir r) (ref_idx g a) (ref_tag g a)) = Z.to_nat (2 ^ ibits g).
Proof.
  intros (HF & Hlen & _). pose proof (idx_range a) as Hi.
  change (s_idx (sg_of g) a) with (ref_idx g a). change (s_tag (sg_of g) a) with (ref_tag g a).
  assert (Hnth : RelSet (assoc g) (nthZ (r_dir r) (ref_idx g a) ref_dummy) (nthZ (sc_dir sr) (ref_idx g a) s_dummy)).
  { unfold nthZ. apply F2_nth; [exact HF|lia]. }
  split.
  - unfold ref_lookup, s_lookup. destruct Hnth as (Ht & _). rewrite Ht. apply lookup_way.
  - intros al. unfold ref_touch, s_touch, set_nthZ. split.
    + apply F2_set; [exact HF|]. apply set_touch_rel; [destruct Hg as (_ & _ & _ & H & _); exact H|exact Hnth].
    + rewrite set_nth_len. exact Hlen.
Qed.

Lemma step_sim wt pen r sr x : RelC g r sr ->
  RelC g (fst (ref_step g wt pen r x)) (fst (s_step (sg_of g) wt pen sr (sacc_of x))) /\
  snd (ref_step g wt pen r x) = snd (s_step (sg_of g) wt pen sr (sacc_of x)).
Proof.
  intros HR. pose proof HR as (HF & Hlen & Hh & Ha & Hl).
  destruct x as [a counted|a direct]; cbn [ref_step s_step sacc_of].
  - destruct (dir_rel r sr a HR) as [Hlk Ht]. destruct (Ht true) as [Ht1 Ht2]. rewrite <- Hlk.
    destruct counted; cbn [fst snd]; (split; [|reflexivity]).
    + split; [exact Ht1|]. split; [exact Ht2|]. cbn. rewrite Hh, Ha. repeat split.
    + split; [exact Ht1|]. split; [exact Ht2|]. cbn. repeat split; assumption.
  - destruct direct; cbn [fst snd]; [split; [exact HR|reflexivity]|].
    destruct (dir_rel r sr a HR) as [Hlk Ht]. destruct (Ht (negb wt)) as [Ht1 Ht2]. rewrite <- Hlk.
    split; [|reflexivity]. split; [exact Ht1|]. split; [exact Ht2|]. cbn. rewrite Hh, Ha. repeat split.
Qed.

Lemma run_sim wt pen xs : forall r sr, RelC g r sr ->
  map flat4 (ref_run g wt pen r xs) = s_run (sg_of g) wt pen sr (map sacc_of xs).
Proof.
  induction xs as [|x t IH]; intros r sr HR; [reflexivity|]. cbn [ref_run s_run map].
  destruct (step_sim wt pen r sr x HR) as [HR' Hp].
  destruct (ref_step g wt pen r x) as [r' p]. destruct (s_step (sg_of g) wt pen sr (sacc_of x)) as [sr' p'].
  cbn [fst snd] in *. subst p'. cbn [map]. rewrite (IH r' sr' HR').
  unfold flat4. cbn [fst snd]. destruct HR' as (_ & _ & -> & -> & ->). reflexivity.
Qed.

Lemma F2_repeat {A B} (R : A -> B -> Prop) x y n : R x y -> Forall2 R (repeat x n) (repeat y n).
Proof. intros H. induction n; cbn [repeat]; constructor; assumption. Qed.

Lemma init_rel : RelC g (rcache_init g) (scache_init (sg_of g)).
Proof.
  destruct Hg as (Hi & Hb & _ & Ha & Hp).
  split; [|split; [apply repeat_length|repeat split]].
  unfold rcache_init, scache_init, ref_init, s_init. cbn [r_dir sc_dir sg_of s_ibits].
  apply F2_repeat. split; [reflexivity|]. split; [apply repeat_length|].
  cbn [ref_init_set s_init_set rpol spl sg_of s_plru s_assoc]. apply Rpol_init; assumption.
Qed.

End Step.

(** * The model's caches against the specification-policy reference *)
Definition sacc_of_dop (o : dop) : sacc := sacc_of (acc_of o).

Theorem dcache_matches_spec_reference_lem g wt pen m os : RefCache.geom_ok g ->
  all_accepted (dc_start g wt pen m) os ->
  map flat4 (dc_run (dc_start g wt pen m) os) =
  s_run (sg_of g) wt pen (scache_init (sg_of g)) (map sacc_of_dop os).
Proof.
  intros Hg Hacc. rewrite (counters_match_reference_proof g wt pen m os Hg Hacc).
  rewrite (run_sim g Hg wt pen _ _ _ (init_rel g Hg)). rewrite map_map. reflexivity.
Qed.

Theorem icache_matches_spec_reference_lem g pen p addrs : RefCache.geom_ok g ->
  let im := {| prog := p; icc := Some (icache_init g pen) |} in
  let ref := s_run (sg_of g) false pen (scache_init (sg_of g)) (map (fun a => SRead a true) addrs) in
  map (fun k => (c_hits k, c_accesses k, c_lasthit k)) (im_counters im addrs) = map (fun x => fst x) ref /\
  map snd (im_run im addrs) = map (fun x => snd x) ref.
Proof.
  intros Hg. cbv zeta. destruct Hg as (Hi & Hb & Hrest).
  destruct (icache_init_run_proof g pen p addrs Hi Hb) as (Hc & Hp & _).
  assert (Hg : RefCache.geom_ok g) by (split; [exact Hi|split; [exact Hb|exact Hrest]]).
  unfold ref_fetch_run in Hc, Hp.
  pose proof (run_sim g Hg false pen (map (fun a => ARead a true) addrs) _ _ (init_rel g Hg)) as Hs.
  rewrite map_map in Hs. cbn [sacc_of] in Hs. rewrite <- Hs. rewrite !map_map. rewrite Hc, Hp. rewrite !map_map.
  split; reflexivity.
Qed.
