(* ToyLexProofs3.v — _sanitize on one line; the line-level theorems: layout, mnemonic case,
   blank and comment lines. *)
From Coq Require Import Lia ZifyBool.
From ArchSim Require Import Model.Base Model.Fmt Model.Toy Model.ToyLex Proofs.ToyLexProofs1 Proofs.ToyLexProofs2.
Open Scope Z_scope.

Definition spaces (w : str) : bool := forallb is_pyspace w.          (* anything str.strip() removes *)
Definition nohash (s : str) : bool := forallb (fun c => negb (c =? 35)) s.
Definition ends_ok (b : str) : bool := match rev b with c :: _ => negb (is_pyspace c) | [] => false end.

(** * rstrip / strip *)
Lemma rstrip_spaces t : spaces t = true -> rstrip t = [].
Proof.
  induction t as [|c t IH]; [reflexivity|]. cbn [spaces forallb rstrip]. intros H.
  apply andb_prop in H as [Hc Ht]. rewrite (IH Ht), Hc. reflexivity.
Qed.
Lemma rstrip_app_spaces b t : spaces t = true -> rstrip (b ++ t) = rstrip b.
Proof.
  intros Ht. induction b as [|c b IH]; [cbn [app]; rewrite rstrip_spaces by exact Ht; reflexivity|].
  cbn [app rstrip]. rewrite IH. reflexivity.
Qed.
Lemma rstrip_fixed_app a b : b <> [] -> rstrip b = b -> rstrip (a ++ b) = a ++ b.
Proof.
  intros Hne Hb. induction a as [|c a IH]; [exact Hb|]. cbn [app rstrip]. rewrite IH.
  destruct (a ++ b) eqn:E; [|reflexivity]. apply app_eq_nil in E as [_ E]. contradiction.
Qed.
Lemma rstrip_ends_ok b : ends_ok b = true -> rstrip b = b.
Proof.
  unfold ends_ok. intros H. rewrite <- (rev_involutive b). destruct (rev b) as [|c l]; [discriminate|].
  cbn [rev]. apply rstrip_fixed_app; [discriminate|]. cbn [rstrip].
  destruct (is_pyspace c); [discriminate | reflexivity].
Qed.
Lemma rstrip_head c x : is_pyspace c = false -> exists r, rstrip (c :: x) = c :: r.
Proof. intros H. cbn [rstrip]. destruct (rstrip x) as [|d r]; [rewrite H; exists []|exists (d :: r)]; reflexivity. Qed.

Lemma ends_ok_app x y : ends_ok y = true -> ends_ok (x ++ y) = true.
Proof.
  unfold ends_ok. rewrite rev_app_distr. destruct (rev y) as [|c l]; [discriminate|]. cbn [app]. intros H; exact H.
Qed.
Lemma ends_ok_alnums b : b <> [] -> forallb is_alnum_ b = true -> ends_ok b = true.
Proof.
  intros Hne Hb. unfold ends_ok. destruct (rev b) as [|c l] eqn:E.
  - exfalso. apply Hne. rewrite <- (rev_involutive b), E. reflexivity.
  - rewrite forallb_forall in Hb. assert (Hin : In c b) by (apply in_rev; rewrite E; left; reflexivity).
    rewrite (alnum_not_pyspace c (Hb c Hin)). reflexivity.
Qed.

Lemma spaces_nohash w : spaces w = true -> nohash w = true.
Proof. apply forallb_impl. intros c H. cls. lia. Qed.
Lemma nohash_app a b : nohash (a ++ b) = nohash a && nohash b.
Proof. apply forallb_app. Qed.

Definition render_comment (cmt : option str) : str := match cmt with Some c => 35 :: c | None => [] end.

(* a stripped, comment-free body survives _sanitize unchanged, whatever surrounds it *)
Lemma sanitise_body lead c b trail cmt : spaces lead = true -> spaces trail = true ->
  is_pyspace c = false -> c <> 35 -> ends_ok (c :: b) = true -> nohash (c :: b) = true ->
  sanitise_line (lead ++ (c :: b) ++ trail ++ render_comment cmt) = Some (c :: b).
Proof.
  intros Hl Ht Hc H35 He Hn. unfold sanitise_line, py_strip.
  rewrite drop_while_app by exact Hl. cbn [app]. rewrite drop_while_stop by exact Hc.
  destruct (rstrip_head c (b ++ trail ++ render_comment cmt) Hc) as [r ->].
  replace (c =? 35) with false by lia. f_equal.
  assert (Hb : before_hash (lead ++ c :: b ++ trail ++ render_comment cmt) = lead ++ (c :: b) ++ trail).
  { unfold before_hash.
    replace (lead ++ c :: b ++ trail ++ render_comment cmt) with ((lead ++ (c :: b) ++ trail) ++ render_comment cmt)
      by (rewrite <- !app_assoc; reflexivity).
    rewrite span_app; [reflexivity | |destruct cmt; [reflexivity|constructor]].
    change (nohash (lead ++ (c :: b) ++ trail) = true). rewrite !nohash_app, Hn, (spaces_nohash _ Hl), (spaces_nohash _ Ht).
    reflexivity. }
  rewrite Hb. rewrite drop_while_app by exact Hl. cbn [app]. rewrite drop_while_stop by exact Hc.
  change (c :: b ++ trail) with ((c :: b) ++ trail). rewrite rstrip_app_spaces by exact Ht.
  apply rstrip_ends_ok, He.
Qed.

(** * blank and comment lines *)
Lemma blank_line w : spaces w = true -> toy_lex_line w = LBlank.
Proof.
  intros H. unfold toy_lex_line, sanitise_line, py_strip. rewrite <- (app_nil_r w).
  rewrite drop_while_app by exact H. reflexivity.
Qed.
Lemma comment_line w c : spaces w = true -> toy_lex_line (w ++ 35 :: c) = LBlank.
Proof.
  intros H. unfold toy_lex_line, sanitise_line, py_strip. rewrite drop_while_app by exact H.
  rewrite drop_while_stop by reflexivity. destruct (rstrip_head 35 c eq_refl) as [r ->]. reflexivity.
Qed.

(** * what a rendered body looks like *)
Definition bodyc (c : Z) : bool := plainc c || (c =? 58) || (c =? 46) || (c =? 44).
Definition bodychars (s : str) : bool := forallb bodyc s.
Lemma bodychars_app a b : bodychars (a ++ b) = bodychars a && bodychars b.
Proof. apply forallb_app. Qed.
Lemma plain_bodychars s : plain s = true -> bodychars s = true.
Proof. apply forallb_impl. intros c H. unfold bodyc. rewrite H. reflexivity. Qed.
Lemma bodychars_nohash s : bodychars s = true -> nohash s = true.
Proof. apply forallb_impl. intros c H. unfold bodyc, plainc in H. cls. lia. Qed.
Lemma word_body n : is_word n = true -> bodychars n = true.
Proof. intros H. apply plain_bodychars, alnums_plain, word_alnums, H. Qed.
Lemma value_body v : is_value v = true -> bodychars v = true.
Proof. intros H. apply plain_bodychars, alnums_plain, value_alnums, H. Qed.
Lemma blanks_body w : blanks w = true -> bodychars w = true.
Proof. intros H. apply plain_bodychars, blanks_plain, H. Qed.

Lemma render_more_body g k vs : gaps_ok g -> forallb is_value vs = true -> bodychars (render_more g k vs) = true.
Proof.
  intros Hg. revert k. induction vs as [|v t IH]; intros k Hv; [reflexivity|]. cbn [forallb] in Hv.
  apply andb_prop in Hv as [Hv Ht]. cbn [render_more]. rewrite !bodychars_app.
  rewrite (blanks_body _ (Hg k)), (blanks_body _ (Hg (S k))), (value_body _ Hv), (IH _ Ht). reflexivity.
Qed.
Lemma value_ends v : is_value v = true -> ends_ok v = true.
Proof.
  intros H. apply ends_ok_alnums; [|apply value_alnums, H]. destruct (is_value_head v H) as (c & t & -> & _). discriminate.
Qed.
Lemma word_ends n : is_word n = true -> ends_ok n = true.
Proof.
  intros H. apply ends_ok_alnums; [|apply word_alnums, H]. destruct (is_word_head n H) as (c & t & -> & _). discriminate.
Qed.
Lemma render_more_ends g vs : forall k v, is_value v = true -> forallb is_value vs = true ->
  ends_ok (v ++ render_more g k vs) = true.
Proof.
  induction vs as [|v' t IH]; intros k v Hv Hvs.
  - cbn [render_more]. rewrite app_nil_r. apply value_ends, Hv.
  - cbn [forallb] in Hvs. apply andb_prop in Hvs as [Hv' Ht]. cbn [render_more].
    rewrite !app_assoc. rewrite <- app_assoc. apply ends_ok_app. apply IH; assumption.
Qed.

Ltac gaps_body Hg :=
  rewrite ?(blanks_body _ (Hg 0%nat)), ?(blanks_body _ (Hg 1%nat)), ?(blanks_body _ (Hg 2%nat)), ?(blanks_body _ (Hg 3%nat)).

Lemma body_facts g sp t : gaps_ok g -> wf_rtline sp t ->
  exists c b, render_body g sp t = c :: b /\ is_pyspace c = false /\ c <> 35 /\
              ends_ok (c :: b) = true /\ bodychars (c :: b) = true.
Proof.
  intros Hg Hwf.
  assert (Hhead : forall c, is_alpha_ c = true -> is_pyspace c = false /\ c <> 35) by (intros c H; cls; lia).
  destruct t as [d|n vals|il op opnd|n]; cbn [wf_rtline render_body] in *.
  - exists 46, (g 0%nat ++ (if d =? 0 then kw_text else kw_data)). split; [reflexivity|].
    split; [reflexivity|]. split; [lia|]. split.
    + change (46 :: g 0%nat ++ (if d =? 0 then kw_text else kw_data))
        with (([46] ++ g 0%nat) ++ (if d =? 0 then kw_text else kw_data)).
      apply ends_ok_app. destruct (d =? 0); reflexivity.
    + change (46 :: ?x) with ([46] ++ x). rewrite !bodychars_app, (blanks_body _ (Hg 0%nat)).
      destruct (d =? 0); reflexivity.
  - destruct Hwf as (Hn & Hne & Hv). destruct vals as [|v vs]; [contradiction|]. clear Hne.
    cbn [forallb] in Hv. apply andb_prop in Hv as [Hv Hvs].
    destruct (is_word_head n Hn) as (c & nt & En & Hc). destruct (Hhead c Hc) as [Hs H35].
    exists c, (nt ++ g 0%nat ++ [58] ++ g 1%nat ++ [46] ++ g 2%nat ++ kw_word ++ g 3%nat ++ v ++ render_more g 4 vs).
    split; [rewrite En; reflexivity|]. split; [exact Hs|]. split; [exact H35|].
    change (c :: nt ++ ?x) with ((c :: nt) ++ x). rewrite <- En. split.
    + do 8 (rewrite app_assoc). rewrite <- app_assoc. apply ends_ok_app, render_more_ends; assumption.
    + rewrite !bodychars_app.
      rewrite (word_body _ Hn), (value_body _ Hv), (render_more_body g 4 vs Hg Hvs). gaps_body Hg.
      reflexivity.
  - destruct Hwf as (Hil & Hop & Hsp & Hopnd).
    assert (Hends : ends_ok (sp ++ render_operand g opnd) = true).
    { destruct opnd as [v|n|]; cbn [render_operand wf_operand] in *.
      - rewrite !app_assoc. apply ends_ok_app, value_ends, Hopnd.
      - rewrite !app_assoc. apply ends_ok_app, word_ends, Hopnd.
      - rewrite app_nil_r. apply ends_ok_alnums; [|apply (spells_alnums sp op Hsp)].
        destruct (spells_head sp op Hsp) as (a & t & -> & _). discriminate. }
    assert (Hbody : bodychars (sp ++ render_operand g opnd) = true).
    { apply plain_bodychars. rewrite plain_app, (alnums_plain _ (spells_alnums sp op Hsp)).
      rewrite (render_operand_plain g op opnd Hg Hopnd). reflexivity. }
    destruct il as [n|]; cbn [render_inline].
    + destruct (is_word_head n Hil) as (c & nt & En & Hc). destruct (Hhead c Hc) as [Hs H35].
      exists c, ((nt ++ g 0%nat ++ [58] ++ g 1%nat) ++ sp ++ render_operand g opnd).
      split; [rewrite En; reflexivity|]. split; [exact Hs|]. split; [exact H35|].
      change (c :: (nt ++ ?x) ++ ?y) with (((c :: nt) ++ x) ++ y). rewrite <- En. split.
      * apply ends_ok_app, Hends.
      * rewrite bodychars_app, Hbody, !bodychars_app, (word_body _ Hil). gaps_body Hg. reflexivity.
    + destruct (spells_head sp op Hsp) as (a & t & Esp & Ha). destruct (Hhead a Ha) as [Hs H35].
      exists a, (t ++ render_operand g opnd). split; [rewrite Esp; reflexivity|]. split; [exact Hs|]. split; [exact H35|].
      change (a :: t ++ ?x) with ((a :: t) ++ x). rewrite <- Esp. cbn [app].
      split; [exact Hends | exact Hbody].
  - destruct (is_word_head n Hwf) as (c & nt & En & Hc). destruct (Hhead c Hc) as [Hs H35].
    exists c, (nt ++ g 0%nat ++ [58]). split; [rewrite En; reflexivity|]. split; [exact Hs|]. split; [exact H35|].
    change (c :: nt ++ ?x) with ((c :: nt) ++ x). rewrite <- En. split.
    + rewrite app_assoc. apply ends_ok_app. reflexivity.
    + rewrite !bodychars_app, (word_body _ Hwf), (blanks_body _ (Hg 0%nat)). reflexivity.
Qed.

(** * (a) layout is ignored: indentation, blanks/tabs at every token boundary, trailing blanks, comment *)
Definition render_line (lead trail : str) (cmt : option str) (g : nat -> str) (sp : str) (t : rtline) : str :=
  lead ++ render_body g sp t ++ trail ++ render_comment cmt.

Theorem lex_render_line lead trail cmt g sp t :
  spaces lead = true -> spaces trail = true -> gaps_ok g -> wf_rtline sp t ->
  toy_lex_line (render_line lead trail cmt g sp t) = LTok t.
Proof.
  intros Hl Ht Hg Hwf. unfold toy_lex_line, render_line.
  destruct (body_facts g sp t Hg Hwf) as (c & b & Eb & Hc & H35 & He & Hn).
  rewrite Eb. rewrite (sanitise_body lead c b trail cmt Hl Ht Hc H35 He (bodychars_nohash _ Hn)). rewrite <- Eb.
  rewrite (lex_body g sp t Hg Hwf). reflexivity.
Qed.
