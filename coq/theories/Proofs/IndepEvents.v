(* IndepEvents.v — spec-independence of the events of the schedule theorem (property C07).
   The events of Proofs/SchedDefs.v take their source registers from [rf_ra1]/[rf_ra2] (the
   model's [access_rf]) and the destination from the model's [write_reg].  Here they are shown to
   be the registers the ISA names (Spec/IsaRegs.v), for every instruction except the CSR classes —
   for which the model's decode names no register at all (a finding, harmless for the schedule
   theorem: a CSR instruction raises "not implemented" in every mode, so it never produces an
   event) — and [pipe_schedule] is restated over ISA-level events. *)
From Coq Require Import Lia ZifyBool.
From ArchSim Require Import Model.Base Model.Mem Model.Cache Model.Fmt Model.RV Model.Single
  Model.RVSplit Model.Pipe Spec.IsaRegs Proofs.C01Step Proofs.SplitExec Proofs.PipeLaws Proofs.PipeShape
  Proofs.PipeInv Proofs.PipeInvBase Proofs.SchedDefs Proofs.SchedMain.
Open Scope Z_scope.

(** * The event of one instruction from the ISA tables *)
Definition isa_ev_instr (i : instr) (t : st) : event :=
  {| ev_addr := pc t;
     ev_srcs := regs_read i;
     ev_dst := reg_written i;
     ev_redirect := negb (bcount (nxt t) =? bcount t) || isa_is_jump i || is_some (exitc (nxt t));
     ev_ecall := isa_is_ecall i |}.

Lemma events_from_isa_lem i t : isa_is_csr i = false ->
  ev_srcs (ev_instr i t) = regs_read i /\ ev_dst (ev_instr i t) = reg_written i /\
  ev_ecall (ev_instr i t) = isa_is_ecall i /\ ev_instr i t = isa_ev_instr i t.
Proof. destruct i; intros H; try discriminate H; repeat split. Qed.

(* what the model's decode says for the remaining classes, against the ISA *)
Lemma decode_vs_isa_lem :
  (forall i s, isa_is_csr i = false -> isa_is_ecall i = false -> i <> IEbreak ->
     rf_ra1 i s = isa_src1 i /\ rf_ra2 i s = isa_src2 i /\ write_reg i = isa_dst i) /\
  (forall s, rf_ra1 IEcall s = Some 0 /\ rf_ra2 IEcall s = None /\ write_reg IEcall = Some 0 /\
             rf_ra1 IEbreak s = Some 0 /\ write_reg IEbreak = Some 0) /\
  (forall o rd csr rs1 s, rf_ra1 (ICsr o rd csr rs1) s = None /\ write_reg (ICsr o rd csr rs1) = None) /\
  (forall o rd csr u, write_reg (ICsri o rd csr u) = None).
Proof.
  split; [|repeat split].
  intros i s H1 H2 H3. destruct i; try discriminate H1; try discriminate H2; try (exfalso; apply H3; reflexivity);
    repeat split.
Qed.

(* for a CSR instruction the events differ: witness *)
Lemma events_from_isa_csr_refuted_lem : exists i t,
  ev_srcs (ev_instr i t) <> regs_read i /\ ev_dst (ev_instr i t) <> reg_written i.
Proof.
  exists (ICsr CSRRW 1 0 2), (init_st [] (MFlat []) None). vm_compute. split; discriminate.
Qed.

(* ... but a CSR instruction (like ebreak and fence) faults in the single-cycle machine *)
Lemma csr_faults t i : wf t -> instr_at (prog (im t)) (pc t) = Some i -> supported i = false ->
  snd (single_pipeline_step t) <> None.
Proof.
  intros W Hi Hs. rewrite (sstep_eq t i W Hi).
  destruct i; try discriminate Hs; cbn [behavior]; discriminate.
Qed.

(** * The event list of the single-cycle run over the ISA tables *)
Definition isa_ev_of (t : st) : event :=
  match instr_at (prog (im t)) (pc t) with
  | Some i => isa_ev_instr i t
  | None => {| ev_addr := pc t; ev_srcs := []; ev_dst := None; ev_redirect := false; ev_ecall := false |}
  end.

Fixpoint isa_events (fuel : nat) (s : st) : list event :=
  match fuel with
  | O => []
  | S k => if single_done s then []
           else match single_pipeline_step s with
                | (_, Some _) => []
                | (s', None) => isa_ev_of s :: isa_events k s'
                end
  end.

Lemma isa_events_eq n : forall s, wf s -> isa_events n s = single_events n s.
Proof.
  induction n as [|k IH]; intros s W; cbn [isa_events single_events]; [reflexivity|].
  destruct (single_done s) eqn:Hd; [reflexivity|].
  destruct (step_refines s W Hd) as (_ & _ & W' & _).
  destruct (single_pipeline_step s) as [s' [f|]] eqn:Hst; [reflexivity|]. cbn [fst] in W'.
  rewrite (IH s' W'). f_equal.
  unfold isa_ev_of, ev_of. destruct (instr_at (prog (im s)) (pc s)) as [i|] eqn:Hi; [|reflexivity].
  symmetry. apply events_from_isa_lem.
  destruct (supported i) eqn:Hs; [destruct i; try discriminate Hs; reflexivity|].
  exfalso. apply (csr_faults s i W Hi Hs). rewrite Hst. reflexivity.
Qed.

Theorem pipe_schedule_isa_lem P s n s' :
  Forall (fun i => supported i = true) P -> wf s -> prog (im s) = P ->
  single_run n s = (s', Done) ->
  exists c p,
    pipe_run c (pipe_init s true) = (p, PDone) /\
    pipe_retire c (pipe_init s true) = combine (single_trace n s) (schedule (isa_events n s)) /\
    c = total_cycles (schedule (isa_events n s)) /\
    cycles (pst p) = cycles s + Z.of_nat c.
Proof. intros HS W HP Hr. rewrite (isa_events_eq n s W). exact (pipe_schedule_lem P s n s' HS W HP Hr). Qed.
