(* SchedOffDwb.v — timing with hazard detection OFF, part 2 (definitions and pure facts):
   the events of the delayed-write-back reference run [dwb_run] (Proofs/FlagOffDwb.v), as
   [delayed_wb] of harness/sched.py collects them: the instruction at the pc of the in-order state,
   executed from the operand view (registers two slots ago — after the drain bubbles, for an ecall
   that drains); redirect = branch counter moved, or jal / jalr, or exit code set.
   For event lists without ecall the hazard-free schedule is a running sum: first write-back at
   cycle 5, then +4 behind a redirecting instruction and +1 otherwise ([woff]). *)
From Coq Require Import Lia ZifyBool.
From ArchSim Require Import Model.Base Model.Mem Model.Cache Model.Fmt Model.RV Model.Single
  Model.RVSplit Model.Pipe Proofs.PipeLaws Proofs.PipeShape Proofs.PipeInv Proofs.FlagOffDwb
  Proofs.SchedDefs Proofs.SchedRec Proofs.SchedOffDefs.
Open Scope nat_scope.

(** * The dynamic instruction stream of the reference machine *)
(* the event of the instruction [dwb_step d] executes *)
Definition dwb_ev (d : dwb) : event :=
  let t := lt (dl d) in
  match instr_at (prog (im t)) (pc t) with
  | None => ev_of t
  | Some i => let d1 := if is_ecall i && (do1 d || do2 d) then dbub (dbub d) else d in
              ev_of (uview (dl d1))
  end.

Fixpoint dwb_events_from (fuel : nat) (d : dwb) : list event :=
  match fuel with
  | O => []
  | S k =>
      if single_done (lt (dl d)) then []
      else match dwb_step d with
           | (_, Some _) => []
           | (d', None) => dwb_ev d :: dwb_events_from k d'
           end
  end.
Definition dwb_events (fuel : nat) (s : st) : list event := dwb_events_from fuel (dwb_init s).

(** * The hazard-free schedule of an ecall-free stream *)
Fixpoint woff (w : nat) (evs : list event) : list nat :=
  match evs with
  | [] => []
  | e :: tl => w :: woff (w + (if ev_redirect e then 4 else 1)) tl
  end.

Lemma xgo_off_noecall evs : forall x1 e1 p2,
  Forall (fun e => ev_ecall e = false) evs ->
  map (fun x => x + 2) (xgo (Some (x1, nosrc e1)) p2 (map nosrc evs)) =
  woff (x1 + 2 + (if ev_redirect e1 then 4 else 1)) evs.
Proof.
  induction evs as [|e tl IH]; intros x1 e1 p2 Hne; cbn [map xgo woff]; [reflexivity|].
  inversion Hne as [|? ? He Htl]; subst.
  assert (Hx : xnext (Some (x1, nosrc e1)) p2 (nosrc e) = x1 + (if ev_redirect e1 then 4 else 1)).
  { cbn [xnext nosrc ev_redirect ev_ecall]. destruct (ev_redirect e1); [reflexivity|].
    rewrite dst_in_nosrc. cbn [orb].
    replace (match p2 with Some (x2, e2) => dst_in e2 (nosrc e) && (x2 + 1 =? x1) | None => false end) with false
      by (destruct p2 as [[x2 e2]|]; [rewrite dst_in_nosrc|]; reflexivity).
    rewrite He. lia. }
  rewrite Hx. f_equal; [lia|]. rewrite (IH _ e _ Htl). f_equal; lia.
Qed.

Theorem schedule_off_woff evs : Forall (fun e => ev_ecall e = false) evs ->
  schedule_off evs = woff 5 evs.
Proof.
  intros Hne. rewrite schedule_off_nosrc, schedule_xsched. unfold xsched.
  destruct evs as [|e tl]; [reflexivity|]. cbn [map xgo xnext woff]. f_equal.
  inversion Hne as [|? ? _ Htl]; subst. rewrite (xgo_off_noecall tl 3 e None Htl).
  destruct (ev_redirect e); reflexivity.
Qed.

Lemma woff_last w evs d : evs <> [] ->
  last (woff w evs) d = w + length evs - 1 + 3 * length (filter ev_redirect (removelast evs)).
Proof.
  revert w. induction evs as [|e tl IH]; intros w Hne; [congruence|].
  destruct tl as [|e' tl'].
  - cbn. lia.
  - change (last (woff w (e :: e' :: tl')) d) with (last (woff (w + (if ev_redirect e then 4 else 1)) (e' :: tl')) d).
    rewrite IH by discriminate. change (removelast (e :: e' :: tl')) with (e :: removelast (e' :: tl')).
    cbn [filter length]. destruct (ev_redirect e); cbn [length]; lia.
Qed.
