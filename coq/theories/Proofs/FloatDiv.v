(* DIV/REM of the Python simulator: int(left / right) with binary64 division
   equals Z.quot (and the derived remainder equals Z.rem). *)
From Coq Require Import ZArith Reals Lia Lra.
From Flocq Require Import Core Relative.

Local Open Scope Z_scope.

Definition b64_exp := FLT_exp (-1074) 53.
Definition b64_round (x : R) : R := round radix2 (FLT_exp (-1074) 53) ZnearestE x.

Local Instance b64_prec_gt_0 : Prec_gt_0 53.
Proof. unfold Prec_gt_0. lia. Qed.

Lemma b64_format_IZR : forall k : Z, Z.abs k < 2^53 ->
  generic_format radix2 (FLT_exp (-1074) 53) (IZR k).
Proof.
  intros k Hk.
  apply generic_format_FLT.
  apply (FLT_spec radix2 (-1074) 53 (IZR k) (Float radix2 k 0)).
  - unfold F2R. cbn [Fnum Fexp bpow]. lra.
  - cbn [Fnum]. exact Hk.
  - cbn [Fexp]. lia.
Qed.

(* Non-negative case. *)
Lemma float_div_nonneg : forall a b : Z,
  0 <= a < 2^53 -> 0 < b <= 2^53 ->
  Ztrunc (b64_round (IZR a / IZR b)) = a / b.
Proof.
  intros a b Ha Hb.
  set (k := a / b).
  assert (Hdiv : a = b * k + a mod b) by (apply Z.div_mod; lia).
  assert (Hmod : 0 <= a mod b < b) by (apply Z.mod_pos_bound; lia).
  set (r := a mod b) in *.
  assert (Hk0 : 0 <= k) by (apply Z.div_pos; lia).
  assert (Hka : k <= a) by nia.
  assert (HbR : (0 < IZR b)%R) by (apply IZR_lt; lia).
  assert (HbR1 : (1 <= IZR b)%R) by (apply IZR_le; lia).
  assert (Hq : (IZR a / IZR b = IZR k + IZR r / IZR b)%R).
  { rewrite Hdiv at 1. rewrite plus_IZR, mult_IZR. field. lra. }
  assert (Hr0 : (0 <= IZR r / IZR b)%R).
  { apply Rmult_le_pos. apply IZR_le; lia. apply Rlt_le, Rinv_0_lt_compat; exact HbR. }
  assert (Hr1 : (IZR r / IZR b <= 1 - / IZR b)%R).
  { assert (H1 : (IZR r <= IZR b - 1)%R) by (rewrite <- minus_IZR; apply IZR_le; lia).
    unfold Rdiv. replace (1 - / IZR b)%R with ((IZR b - 1) * / IZR b)%R by (field; lra).
    apply Rmult_le_compat_r; [apply Rlt_le, Rinv_0_lt_compat; exact HbR | exact H1]. }
  set (q := (IZR a / IZR b)%R) in *.
  assert (Hlow : (IZR k <= b64_round q)%R).
  { unfold b64_round. apply round_ge_generic; auto with typeclass_instances.
    apply b64_format_IZR; lia. lra. }
  assert (Hup : (b64_round q < IZR (k + 1))%R).
  { rewrite plus_IZR.
    destruct (Z.eq_dec a 0) as [Ha0 | Ha0].
    - unfold q, b64_round. rewrite Ha0. unfold Rdiv. rewrite Rmult_0_l, round_0; auto with typeclass_instances.
      assert (0 <= IZR k)%R by (apply IZR_le; lia). lra.
    - assert (Ha1 : (1 <= IZR a)%R) by (apply IZR_le; lia).
      assert (HaU : (IZR a < bpow radix2 53)%R).
      { change (bpow radix2 53) with (IZR (2^53)). apply IZR_lt; lia. }
      assert (HbU : (IZR b <= bpow radix2 53)%R).
      { change (bpow radix2 53) with (IZR (2^53)). apply IZR_le; lia. }
      assert (Hqpos : (0 < q)%R) by (unfold q; apply Rdiv_lt_0_compat; lra).
      assert (Hqlow : (bpow radix2 (-1074 + 53 - 1) <= Rabs q)%R).
      { rewrite Rabs_pos_eq by lra.
        apply Rle_trans with (bpow radix2 (-53)).
        - apply bpow_le; lia.
        - change (-53) with (Z.opp 53). rewrite bpow_opp. unfold q, Rdiv.
          apply Rle_trans with (/ IZR b)%R.
          + apply Rinv_le; lra.
          + rewrite <- (Rmult_1_l (/ IZR b)) at 1.
            apply Rmult_le_compat_r; [apply Rlt_le, Rinv_0_lt_compat; lra | lra]. }
      pose proof (relative_error_N_FLT radix2 (-1074) 53 b64_prec_gt_0 (fun x => negb (Z.even x)) q Hqlow) as Herr.
      fold (b64_round q) in Herr.
      rewrite (Rabs_pos_eq q) in Herr by lra.
      assert (Herr' : (b64_round q - q <= / 2 * bpow radix2 (-53 + 1) * q)%R).
      { eapply Rle_trans; [apply Rle_abs | exact Herr]. }
      assert (Hlt : (/ 2 * bpow radix2 (-53 + 1) * q < / IZR b)%R).
      { replace (/ 2 * bpow radix2 (-53 + 1))%R with (/ bpow radix2 53)%R.
        2:{ change (-53 + 1) with (Z.opp 52). rewrite bpow_opp.
            change (bpow radix2 53) with (IZR (2^53)). change (bpow radix2 52) with (IZR (2^52)).
            change (2^53) with (2 * 2^52). rewrite mult_IZR. field.
            apply not_0_IZR. discriminate. }
        unfold q, Rdiv. rewrite <- Rmult_assoc.
        rewrite <- (Rmult_1_l (/ IZR b)) at 2.
        apply Rmult_lt_compat_r; [apply Rinv_0_lt_compat; lra |].
        apply Rmult_lt_reg_l with (bpow radix2 53); [apply bpow_gt_0 |].
        rewrite <- Rmult_assoc, Rinv_r, Rmult_1_l, Rmult_1_r; [exact HaU |].
        apply Rgt_not_eq, bpow_gt_0. }
      lra. }
  rewrite Ztrunc_floor.
  - apply Zfloor_imp. split; assumption.
  - assert (0 <= IZR k)%R by (apply IZR_le; lia). lra.
Qed.

Lemma b64_round_opp : forall x : R, b64_round (- x) = (- b64_round x)%R.
Proof. intros x. unfold b64_round. apply round_NE_opp. Qed.

Lemma float_div_opp_l : forall a b k : Z, b <> 0 ->
  Ztrunc (b64_round (IZR a / IZR b)) = k ->
  Ztrunc (b64_round (IZR (- a) / IZR b)) = - k.
Proof.
  intros a b k Hb H.
  assert (HbR : IZR b <> 0%R) by (apply not_0_IZR; exact Hb).
  replace (IZR (- a) / IZR b)%R with (- (IZR a / IZR b))%R by (rewrite opp_IZR; field; exact HbR).
  rewrite b64_round_opp, Ztrunc_opp, H. reflexivity.
Qed.

Lemma float_div_opp_r : forall a b k : Z, b <> 0 ->
  Ztrunc (b64_round (IZR a / IZR b)) = k ->
  Ztrunc (b64_round (IZR a / IZR (- b))) = - k.
Proof.
  intros a b k Hb H.
  assert (HbR : IZR b <> 0%R) by (apply not_0_IZR; exact Hb).
  replace (IZR a / IZR (- b))%R with (- (IZR a / IZR b))%R by (rewrite opp_IZR; field; exact HbR).
  rewrite b64_round_opp, Ztrunc_opp, H. reflexivity.
Qed.

(* General form: any dividend below 2^53 in magnitude, any non-zero divisor up to 2^53. *)
Theorem float_div_trunc_is_quot_53 : forall a b : Z,
  Z.abs a < 2^53 -> Z.abs b <= 2^53 -> b <> 0 ->
  Ztrunc (b64_round (IZR a / IZR b)) = Z.quot a b.
Proof.
  intros a b Ha Hb Hb0.
  assert (Hpos : forall a' b', 0 <= a' < 2^53 -> 0 < b' <= 2^53 ->
            Ztrunc (b64_round (IZR a' / IZR b')) = Z.quot a' b').
  { intros a' b' Ha' Hb'. rewrite Z.quot_div_nonneg by lia. apply float_div_nonneg; assumption. }
  destruct (Z_le_gt_dec 0 a) as [Hsa | Hsa]; destruct (Z_lt_le_dec 0 b) as [Hsb | Hsb].
  - apply Hpos; lia.
  - replace b with (- (- b)) by lia.
    rewrite Z.quot_opp_r by lia.
    apply float_div_opp_r; [lia |]. apply Hpos; lia.
  - replace a with (- (- a)) by lia.
    rewrite Z.quot_opp_l by lia.
    apply float_div_opp_l; [lia |]. apply Hpos; lia.
  - replace a with (- (- a)) by lia. replace b with (- (- b)) by lia.
    rewrite Z.quot_opp_l, Z.quot_opp_r by lia.
    apply float_div_opp_l; [lia |]. apply float_div_opp_r; [lia |]. apply Hpos; lia.
Qed.

(* The statement needed for the simulator: signed 32-bit operands. *)
Theorem float_div_trunc_is_quot : forall a b : Z,
  (Z.abs a <= 2^31)%Z -> (Z.abs b <= 2^31)%Z -> b <> 0%Z ->
  Ztrunc (round radix2 (FLT_exp (-1074) 53) ZnearestE (IZR a / IZR b)) = Z.quot a b.
Proof.
  intros a b Ha Hb Hb0.
  apply float_div_trunc_is_quot_53; [| | exact Hb0].
  - eapply Z.le_lt_trans; [exact Ha | reflexivity].
  - eapply Z.le_trans; [exact Hb | discriminate].
Qed.

(* REM as the code computes it: left - int(left / right) * right. *)
Theorem float_rem_is_rem : forall a b : Z,
  (Z.abs a <= 2^31)%Z -> (Z.abs b <= 2^31)%Z -> b <> 0%Z ->
  a - Ztrunc (round radix2 (FLT_exp (-1074) 53) ZnearestE (IZR a / IZR b)) * b = Z.rem a b.
Proof.
  intros a b Ha Hb Hb0.
  rewrite float_div_trunc_is_quot by assumption.
  pose proof (Z.quot_rem' a b) as H. lia.
Qed.

(* Non-vacuity: -7 / 2 is -3.5, which truncates to -3 (floor would give -4). *)
Example float_div_m7_2 :
  Ztrunc (round radix2 (FLT_exp (-1074) 53) ZnearestE (IZR (-7) / IZR 2)) = -3
  /\ -7 - Ztrunc (round radix2 (FLT_exp (-1074) 53) ZnearestE (IZR (-7) / IZR 2)) * 2 = -1.
Proof.
  split.
  - rewrite float_div_trunc_is_quot; [reflexivity | vm_compute; discriminate | vm_compute; discriminate | discriminate].
  - rewrite float_rem_is_rem; [reflexivity | vm_compute; discriminate | vm_compute; discriminate | discriminate].
Qed.

(* Extreme operands: INT_MIN / -1 and INT_MIN / 1 (magnitude 2^31). *)
Example float_div_int_min :
  Ztrunc (round radix2 (FLT_exp (-1074) 53) ZnearestE (IZR (-2147483648) / IZR (-1))) = 2147483648.
Proof.
  rewrite float_div_trunc_is_quot; [reflexivity | vm_compute; discriminate | vm_compute; discriminate | discriminate].
Qed.
