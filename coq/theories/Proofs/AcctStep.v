(* Proofs/AcctStep.v — what one non-faulting pipeline cycle does to the data memory system:
   only the EX stage (a firing ecall) and the MEM stage touch it; plus the latch bookkeeping of
   the cycle needed to line this up with the single-cycle machine. *)
From Coq Require Import Lia ZifyBool.
From ArchSim Require Import Spec.RefCache.
From ArchSim Require Import Model.Base Model.Mem Model.Cache Model.Fmt Model.RV Model.Single
  Model.RVSplit Model.Pipe
  Proofs.WordLemmas Proofs.C01Step Proofs.SplitExec Proofs.PipeLaws Proofs.PipeShape Proofs.PipeInv
  Proofs.PipeInvBase
  Proofs.LiftSim Proofs.LiftSingle Proofs.LiftPipe Proofs.LiftPipeRun Proofs.LiftRefineBase
  Proofs.AcctRead Proofs.AcctExec.
Open Scope Z_scope.
Local Arguments Z.mul : simpl never.
Local Arguments Z.add : simpl never.
Local Arguments Z.sub : simpl never.
Local Arguments Z.of_nat : simpl never.
Local Arguments Z.to_nat : simpl never.

(* the slot is an ecall that has fired in EX (its string scan, if any, has been performed) *)
Definition efired (l : latch) : bool :=
  match l with Some x => is_ecall (sl_instr x) && negb (sl_stall x) | None => false end.

(** * The cycle, stage by stage *)
Lemma post_ms p next s : ms (pst (post p next s)) = ms s.
Proof.
  rewrite post_pst. unfold flush_st, stall_st.
  destruct (first_flush next) as [[i a]|]; destruct (new_stall next (stalled p)); reflexivity.
Qed.

Lemma step_decomp qc qc' : pipe_step qc = (qc', None) ->
  exists n0 n1 n2 n3 n4 u1 u2 u3 u4,
    ms u1 = ms (pst qc) /\ regs u1 = regs (pst qc) /\
    wb_on (lat_at (regs_for qc 4) 3) u1 = (n4, u2, None) /\
    ex_on (lat_at (regs_for qc 2) 1) (lat_at (regs_for qc 2) 2) (lat_at (regs_for qc 2) 3) u2 = (n2, u3, None) /\
    mem_on (lat_at (regs_for qc 3) 2) u3 = (n3, u4, None) /\
    ms (pst qc') = ms u4 /\
    lat qc' = match first_flush [n0; n1; n2; n3; n4] with
              | Some (i, _) => clear_prefix [n0; n1; n2; n3; n4] (Z.to_nat i)
              | None => [n0; n1; n2; n3; n4]
              end.
Proof.
  intros H. rewrite pipe_step_eq in H.
  destruct (run_stages (bump qc)) as [[next s] [f|]] eqn:Hrs; [discriminate|]. injection H as <-.
  unfold run_stages in Hrs. change (regs_for (bump qc)) with (regs_for qc) in Hrs.
  destruct (match stalled (bump qc) with Some _ => (lat_at (lat (bump qc)) 0, pst (bump qc))
            | None => stage_if (pst (bump qc)) end) as [n0 u1] eqn:Hif.
  assert (H1 : ms u1 = ms (pst qc) /\ regs u1 = regs (pst qc)).
  { destruct (stalled (bump qc)).
    - injection Hif as _ <-. split; reflexivity.
    - apply stage_if_law in Hif. destruct Hif as (Hr & Hm & _). split; assumption. }
  destruct H1 as [Hm1 Hr1].
  rewrite stage_wb_on in Hrs. destruct (wb_on (lat_at (regs_for qc 4) 3) u1) as [[n4 u2] [e|]] eqn:Hwb.
  { exfalso. destruct (fault_of_cases (regs_for qc 4) 3 e) as (f & Ef & _). rewrite Ef in Hrs. discriminate. }
  rewrite stage_ex_on in Hrs.
  destruct (ex_on (lat_at (regs_for qc 2) 1) (lat_at (regs_for qc 2) 2) (lat_at (regs_for qc 2) 3) u2)
    as [[n2 u3] [e|]] eqn:Hex.
  { exfalso. destruct (fault_of_cases (regs_for qc 2) 1 e) as (f & Ef & _). rewrite Ef in Hrs. discriminate. }
  rewrite stage_mem_on in Hrs. destruct (mem_on (lat_at (regs_for qc 3) 2) u3) as [[n3 u4] [e|]] eqn:Hmem.
  { exfalso. destruct (fault_of_cases (regs_for qc 3) 2 e) as (f & Ef & _). rewrite Ef in Hrs. discriminate. }
  injection Hrs as <- <-.
  eexists n0, _, n2, n3, n4, u1, u2, u3, u4.
  split; [exact Hm1|]. split; [exact Hr1|]. split; [exact Hwb|]. split; [exact Hex|]. split; [exact Hmem|].
  split; [apply post_ms | apply post_lat].
Qed.

(** * EX: either an ecall fires, or nothing happens to the memory system *)
Lemma ex_on_cases x l2 l3 u n u' : ex_on x l2 l3 u = (n, u', None) ->
  (efired n = false /\ ms u' = ms u) \/
  (efired n = true /\ exists y, x = Some y /\ sl_instr y = IEcall /\ ex_busy y l2 l3 = false /\
                                ms u' = bms IEcall u).
Proof.
  intros H. destruct x as [y|]; [|rewrite ex_on_none in H; injection H as <- <-; left; split; reflexivity].
  rewrite ex_on_some in H. destruct (alu_compute _ _ _) as [[cmp res]|e]; [|discriminate].
  destruct (is_ecall (sl_instr y)) eqn:Eec.
  - destruct (ex_busy y l2 l3) eqn:Eb.
    + injection H as <- <-. left. cbn [efired ex_slot sl_instr sl_stall]. rewrite Eec. split; reflexivity.
    + assert (Hi : sl_instr y = IEcall) by (destruct (sl_instr y); try discriminate; reflexivity).
      destruct (process_ecall u) as [r u1] eqn:Hp. pose proof (ecall_bms u r u1 Hp) as Hb.
      destruct r as [[t|c]|e]; [| |discriminate]; injection H as <- <-; right;
        cbn [efired ex_slot sl_instr sl_stall]; rewrite Eec;
        (split; [reflexivity|]; exists y; split; [reflexivity|]; split; [exact Hi|]; split; [exact Eb|]; exact Hb).
  - injection H as <- <-. left. cbn [efired ex_slot sl_instr sl_stall]. rewrite Eec. split; reflexivity.
Qed.

(** * MEM *)
Lemma mem_on_cases x u n u' : mem_on x u = (n, u', None) ->
  match x with
  | None => n = None /\ u' = u
  | Some y => nonempty n = true /\
              ms u' = ms (snd (memory_access (sl_instr y) (sl_result y) (sl_rd2 y) u))
  end.
Proof.
  intros H. destruct x as [y|]; [|rewrite mem_on_none in H; injection H as <- <-; split; reflexivity].
  rewrite mem_on_some in H.
  destruct (memory_access (sl_instr y) (sl_result y) (sl_rd2 y) u) as [[rd|e] u1]; [|discriminate].
  injection H as <- <-. cbn [nonempty snd]. rewrite mem_count_ms. split; reflexivity.
Qed.

(** * The latches after the cycle *)
Definition lat_after (n0 n1 n2 n3 n4 : latch) : list latch :=
  match first_flush [n0; n1; n2; n3; n4] with
  | Some (i, _) => clear_prefix [n0; n1; n2; n3; n4] (Z.to_nat i)
  | None => [n0; n1; n2; n3; n4]
  end.

Lemma lat_after_3 n0 n1 n2 n3 n4 : flush_of n4 = None -> lat_at (lat_after n0 n1 n2 n3 n4) 3 = n3.
Proof.
  intros H4. unfold lat_after, first_flush.
  change (lat_at [n0; n1; n2; n3; n4] 4) with n4. change (lat_at [n0; n1; n2; n3; n4] 3) with n3.
  change (lat_at [n0; n1; n2; n3; n4] 2) with n2. change (lat_at [n0; n1; n2; n3; n4] 1) with n1.
  change (lat_at [n0; n1; n2; n3; n4] 0) with n0. rewrite H4.
  destruct (flush_of n3); [reflexivity|]. destruct (flush_of n2); [reflexivity|].
  destruct (flush_of n1); [reflexivity|]. destruct (flush_of n0); reflexivity.
Qed.

Lemma lat_after_2 n0 n1 n2 n3 n4 :
  (lat_at (lat_after n0 n1 n2 n3 n4) 2 = n2 \/ lat_at (lat_after n0 n1 n2 n3 n4) 2 = None) /\
  (flush_of n4 = None -> flush_of n3 = None -> lat_at (lat_after n0 n1 n2 n3 n4) 2 = n2).
Proof.
  unfold lat_after, first_flush.
  change (lat_at [n0; n1; n2; n3; n4] 4) with n4. change (lat_at [n0; n1; n2; n3; n4] 3) with n3.
  change (lat_at [n0; n1; n2; n3; n4] 2) with n2. change (lat_at [n0; n1; n2; n3; n4] 1) with n1.
  change (lat_at [n0; n1; n2; n3; n4] 0) with n0.
  destruct (flush_of n4); [split; [right; reflexivity | discriminate]|].
  destruct (flush_of n3); [split; [right; reflexivity | intros _ E; discriminate]|].
  destruct (flush_of n2); [split; [left; reflexivity | reflexivity]|].
  destruct (flush_of n1); [split; [left; reflexivity | reflexivity]|].
  destruct (flush_of n0); (split; [left; reflexivity | reflexivity]).
Qed.

(* the views of the stalled pipeline: EX sees latches 2 and 3 as they are, WB sees latch 3 *)
Lemma views p l0 l1 l2 l3 l4 : lat p = [l0; l1; l2; l3; l4] ->
  (stalled p = None \/ exists k d, stalled p = Some (k, d) /\ (k = 1 \/ k = 2)) ->
  lat_at (regs_for p 4) 3 = l3 /\ lat_at (regs_for p 2) 2 = l2 /\ lat_at (regs_for p 2) 3 = l3 /\
  ((stalled p = None /\ lat_at (regs_for p 2) 1 = l1 /\ mem_input p = l2) \/
   (exists d, stalled p = Some (1, d) /\ lat_at (regs_for p 2) 1 = None /\ mem_input p = l2) \/
   (exists d, stalled p = Some (2, d) /\ mem_input p = None)).
Proof.
  intros Hl Hs. unfold mem_input, regs_for. rewrite Hl.
  destruct Hs as [E|(k & d & E & [-> | ->])]; rewrite E.
  - repeat (split; [reflexivity|]). left. repeat split.
  - repeat (split; [reflexivity|]). right. left. exists d. repeat split.
  - repeat (split; [reflexivity|]). right. right. exists d. repeat split.
Qed.
