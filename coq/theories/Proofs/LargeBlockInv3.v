(* Proofs/LargeBlockInv3.v — copy of the corresponding part of Proofs/CacheInv.v for cache geometries
   WITHOUT the bound bbits <= 12 ([cfg_ok] below, [geom_ok] of Proofs/LargeBlockArith.v): the data
   cache invariant, the logical contents and the master lemmas of the accesses, with the side
   condition "block base >= 2^14" where the original used "address >= 2^14" (the two coincide
   for bbits <= 12).  Same definition and lemma names as in CacheInv.v; do not import both. *)
From Coq Require Import Lia ZifyBool.
From ArchSim Require Import Model.Base Model.Mem Model.Cache Spec.Policy
  Proofs.WordLemmas Proofs.MapLemmas Proofs.C10Proofs Proofs.CacheArith Proofs.LargeBlockArith Proofs.LargeBlockInv1 Proofs.LargeBlockInv2.
Open Scope Z_scope.
Ltac Zify.zify_post_hook ::= Z.to_euclidean_division_equations.
Local Arguments Z.mul : simpl never.
Local Arguments Z.add : simpl never.
Local Arguments Z.sub : simpl never.
Local Arguments Z.pow : simpl never.
Local Arguments Z.div : simpl never.
Local Arguments Z.modulo : simpl never.
Local Arguments Z.land : simpl never.
Local Arguments Z.lor : simpl never.
Local Arguments Z.lnot : simpl never.
Local Arguments Z.shiftl : simpl never.
Local Arguments Z.shiftr : simpl never.
Local Arguments Z.of_nat : simpl never.
Local Arguments Z.to_nat : simpl never.

(** * dc_write: what every variant guarantees *)
Definition write_post (d : dcache) (nbits a v : Z) (e : option err) (d' : dcache) : Prop :=
  let x := a mod 4294967296 in
  let o := da_byoff (cdecode (dc d) a) in
  let k := Z.of_nat (kof nbits) in
  let T := if wthrough d then x else da_balign (cdecode (dc d) a) in
  CInv d' /\ wthrough d' = wthrough d /\ cfg (dc d') = cfg (dc d) /\
  (o + k <= 4 -> 16384 <= T ->
     e = None /\
     forall a', in32b a' ->
       logical d' a' = if (x <=? a') && (a' <? x + k) then byte_of v (a' - x) else logical d a') /\
  (o + k <= 4 -> T < 16384 ->
     e = Some (aerr T) /\ same_logical d d') /\
  (o + k > 4 ->
     same_logical d d' /\ exists e0, e = Some e0 /\ (16384 <= T -> e0 = EOffset o (4 - k))).

Lemma dc_write_wt_eq d nbits a v : wthrough d = true ->
  dc_write d nbits a v false =
  let da := cdecode (dc d) a in
  if (nbits =? 16) && (da_byoff da >? 2) then (Some (EOffset (da_byoff da) 2), d, 0)
  else if (nbits =? 32) && negb (da_byoff da =? 0) then (Some (EOffset (da_byoff da) 0), d, 0)
  else
    match cache_read_block (dc d) da with
    | (ob, c1) =>
        let d1 := upd_dc d c1 in
        let hit := match ob with Some _ => true | None => false end in
        let '(d2, pen) := upd_stats d1 hit in
        let merged :=
          match ob with
          | Some blk =>
              match into_block nbits da blk v with
              | Ok blk' => let '(_, _, c2) := cache_write_block (dc d2) da blk' in Ok (upd_dc d2 c2)
              | Err e => Err e
              end
          | None => Ok d2
          end in
        match merged with
        | Err e => (Some e, d2, pen)
        | Ok d3 => let '(m', e) := mem_write rv_memcfg (lower d3) nbits a v in (e, upd_lower d3 m', pen)
        end
    end.
Proof. intros H. unfold dc_write. rewrite H. reflexivity. Qed.

Lemma dc_write_wb_eq d nbits a v : wthrough d = false ->
  dc_write d nbits a v false =
  let da := cdecode (dc d) a in
    match cache_read_block (dc d) da with
    | (ob, c1) =>
        let d1 := upd_dc d c1 in
        let hit := match ob with Some _ => true | None => false end in
        let fetched := match ob with
                       | Some blk => Ok blk
                       | None => read_words (lower d1) (da_balign da) (block_words d1)
                       end in
        match fetched with
        | Err e => (Some e, d1, 0)
        | Ok blk =>
            match into_block nbits da blk v with
            | Err e => (Some e, d1, 0)
            | Ok blk' =>
                let '(_, displaced, c2) := cache_write_block (dc d1) da blk' in
                let d2 := upd_dc d1 c2 in
                let d3 := match displaced with
                          | Some (ba, ws) => upd_lower d2 (write_words (lower d2) ba ws)
                          | None => d2
                          end in
                let '(d4, pen) := upd_stats d3 hit in
                (None, d4, pen)
            end
        end
    end.
Proof. intros H. unfold dc_write. rewrite H. reflexivity. Qed.

Lemma find_touch (c : cache Z) m a bi r : SInvC c m ->
  find_block (blocks (get_set c (da_idx (cdecode c a)))) (da_tag (cdecode c a)) 0 = r ->
  find_block (blocks (get_set (touch c (da_idx (cdecode c a)) bi)
                        (da_idx (cdecode (touch c (da_idx (cdecode c a)) bi) a))))
             (da_tag (cdecode (touch c (da_idx (cdecode c a)) bi) a)) 0 = r.
Proof.
  intros HS Hf. change (cdecode (touch c (da_idx (cdecode c a)) bi) a) with (cdecode c a).
  pose proof (sinv_idx c m a HS) as Hi. destruct HS as (_ & H2 & _).
  rewrite get_touch by lia. exact Hf.
Qed.

(* hit + merge, shared by write-through and write-back: touch, then replace the block *)
Lemma write_hit_ok c m nbits a v bi : SInvC c m -> okw nbits -> 0 <= v < 2 ^ nbits ->
  da_byoff (cdecode c a) + Z.of_nat (kof nbits) <= 4 ->
  find_block (blocks (get_set c (da_idx (cdecode c a)))) (da_tag (cdecode c a)) 0 = Some bi ->
  let c1 := touch c (da_idx (cdecode c a)) bi in
  let old := nthZ (blocks (get_set c (da_idx (cdecode c a)))) bi empty_block in
  exists blk',
    into_block nbits (cdecode c a) (vals old) v = Ok blk' /\
    cache_write_block c1 (cdecode c a) blk' =
      (true, None, install c1 (da_idx (cdecode c a)) bi (mkblock (cdecode c a) blk')) /\
    let c2 := install c1 (da_idx (cdecode c a)) bi (mkblock (cdecode c a) blk') in
    SInvC c2 m /\ 16384 <= a mod 4294967296 /\
    forall a', in32b a' ->
      logicalC c2 m a' =
      if (a mod 4294967296 <=? a') && (a' <? a mod 4294967296 + Z.of_nat (kof nbits))
      then byte_of v (a' - a mod 4294967296) else logicalC c m a'.
Proof.
  intros HS Hw Hv Hin Hf. cbv zeta.
  destruct (find_hit_facts c m a bi HS Hf) as (Hbi & Hvo & _ & _ & _ & H14 & Hvals & _).
  pose proof (sinv_idx c m a HS) as Hi.
  destruct (inword_range c m a HS) as (_ & Ho & _ & Hx14 & _).
  set (old := nthZ (blocks (get_set c (da_idx (cdecode c a)))) bi empty_block) in *.
  destruct (into_block_in nbits (cdecode c a) (vals old) v Hw ltac:(lia) Hin Hv) as (w' & Hib & Hw'r & Hw'b).
  exists (set_nthZ (vals old) (da_boff (cdecode c a)) w'). split; [exact Hib|].
  pose proof (sinv_touch c m _ bi HS Hi Hbi) as HS1.
  pose proof (find_touch c m a bi _ HS Hf) as Hf1.
  set (c1 := touch c (da_idx (cdecode c a)) bi) in *.
  split.
  { rewrite cache_write_block_eq. change (cdecode c1 a) with (cdecode c a) in Hf1. rewrite Hf1. reflexivity. }
  pose proof (merged_vals_ok c m a (vals old) w' HS Hvals Hw'r) as Hvals'.
  destruct (hit_update c1 m a bi _ HS1 Hf1 Hvals') as [HS2 L2].
  change (cdecode c1 a) with (cdecode c a) in HS2, L2.
  split; [exact HS2|]. split; [lia|].
  intros a' Ha'. rewrite (L2 a' Ha'). change (cdecode c1 a') with (cdecode c a').
  assert (LT: logicalC c1 m a' = logicalC c m a') by (apply (logical_touch c m _ bi a' HS Hi)).
  rewrite LT.
  rewrite (merged_formula c m a (vals old) w' v (Z.of_nat (kof nbits)) (logicalC c m) HS ltac:(lia) Hin
             (proj1 Hvals) Hw'b (hit_blk_formula c m a bi HS Hf) a' Ha').
  reflexivity.
Qed.

Lemma in32b_unfold a : in32b a <-> 0 <= a < 4294967296.
Proof. reflexivity. Qed.

(* a successful in-word write to lower memory under an unchanged cache, block not resident *)
Lemma lower_write_miss c m m' a k v : SInvC c m ->
  find_block (blocks (get_set c (da_idx (cdecode c a)))) (da_tag (cdecode c a)) 0 = None ->
  0 <= k -> da_byoff (cdecode c a) + k <= 4 ->
  (forall z, mget m' z = if (a mod 4294967296 <=? z) && (z <? a mod 4294967296 + k)
                         then byte_of v (z - a mod 4294967296) else mget m z) ->
  forall a', in32b a' ->
    logicalC c m' a' = if (a mod 4294967296 <=? a') && (a' <? a mod 4294967296 + k)
                       then byte_of v (a' - a mod 4294967296) else logicalC c m a'.
Proof.
  intros HS Hf Hk Hin Hm' a' Ha'. rewrite (logical_lower c m m' a').
  destruct (inword_iff c m a a' k HS Ha' Hk Hin) as [I1 _].
  destruct ((a mod 4294967296 <=? a') && (a' <? a mod 4294967296 + k)) eqn:E.
  - destruct I1 as (E1 & _); [lia|]. rewrite (miss_block c m a a' HS Hf E1). rewrite Hm', E. reflexivity.
  - destruct (res_block c a') eqn:Er; [reflexivity|]. rewrite Hm', E. unfold logicalC. rewrite Er. reflexivity.
Qed.

Lemma dc_write_wt_ok d nbits a v e d' p : CInv d -> okw nbits -> 0 <= v < 2 ^ nbits ->
  wthrough d = true ->
  dc_write d nbits a v false = (e, d', p) -> write_post d nbits a v e d'.
Proof.
  intros HC Hw Hv Hwt H. pose proof (cinv_sinv d HC) as HS. pose proof HC as [_ HW]. specialize (HW Hwt).
  rewrite (dc_write_wt_eq d nbits a v Hwt) in H. cbv zeta in H.
  destruct (inword_range _ _ a HS) as (Hx & Ho & _ & H14 & _).
  destruct (okw_kof nbits Hw) as (Hn & Hk & _).
  pose proof (wt_precheck nbits (da_byoff (cdecode (dc d) a)) Hw Ho) as Hpre.
  pose proof (byoff_eq _ _ a HS) as Hbo.
  unfold write_post. cbv zeta. rewrite Hwt.
  destruct (Z_le_gt_dec (da_byoff (cdecode (dc d) a) + Z.of_nat (kof nbits)) 4) as [Hin|Hcross].
  - (* inside one word *)
    destruct ((nbits =? 16) && (da_byoff (cdecode (dc d) a) >? 2)) eqn:P1; [exfalso; lia|].
    destruct ((nbits =? 32) && negb (da_byoff (cdecode (dc d) a) =? 0)) eqn:P2; [exfalso; lia|].
    rewrite cache_read_block_eq in H.
    destruct (find_block (blocks (get_set (dc d) (da_idx (cdecode (dc d) a)))) (da_tag (cdecode (dc d) a)) 0)
      as [bi|] eqn:Hf.
    + (* hit *)
      destruct (write_hit_ok _ _ nbits a v bi HS Hw Hv Hin Hf) as (blk' & Hib & Hcw & HS2 & Hlo & L2).
      unfold upd_stats in H. cbv beta iota zeta in H. cbn [dc upd_dc] in H.
      rewrite Hib, Hcw in H. cbn [lower upd_dc] in H.
      destruct (mem_write_inword (lower d) nbits a v Hw) as [Wok _]; [lia|].
      destruct (Wok Hlo) as [We Wm]. clear Wok.
      pose proof (mem_write_bytes (lower d) nbits a v (sinv_bytes _ _ HS)) as Wb.
      destruct (mem_write rv_memcfg (lower d) nbits a v) as [m' e'] eqn:Emw. cbn [fst snd] in We, Wm, Wb.
      apply pair_eq in H. destruct H as [H <-]. apply pair_eq in H. destruct H as [<- <-].
      set (c2 := install (touch (dc d) (da_idx (cdecode (dc d) a)) bi) (da_idx (cdecode (dc d) a)) bi
                   (mkblock (cdecode (dc d) a) blk')) in *.
      assert (LF: forall a', in32b a' ->
                logicalC c2 m' a' =
                if (a mod 4294967296 <=? a') && (a' <? a mod 4294967296 + Z.of_nat (kof nbits))
                then byte_of v (a' - a mod 4294967296) else logicalC (dc d) (lower d) a').
      { intros a' Ha'. rewrite (logical_lower c2 (lower d) m' a'). destruct (res_block c2 a').
        - apply L2; exact Ha'.
        - rewrite Wm. destruct ((a mod 4294967296 <=? a') && _); [reflexivity|]. apply HW. exact Ha'. }
      split.
      { split.
        - unfold SInv. cbn [dc lower upd_lower upd_dc]. apply (sinv_lower _ _ _ HS2 Wb).
        - intros _ a' Ha'. unfold logical. cbn [dc lower upd_lower upd_dc].
          rewrite (LF a' Ha'), Wm. destruct ((a mod 4294967296 <=? a') && _); [reflexivity|]. apply HW. exact Ha'. }
      split; [cbn [wthrough upd_lower upd_dc]; exact Hwt|]. split; [reflexivity|].
      split; [|split; [intros _ Hlt; exfalso; lia | intros Hc; exfalso; lia]].
      intros _ _. split; [exact We|]. intros a' Ha'. unfold logical. cbn [dc lower upd_lower upd_dc].
      apply LF; exact Ha'.
    + (* miss *)
      unfold upd_stats in H. cbv beta iota zeta in H. cbn [lower upd_dc] in H.
      pose proof (mem_write_bytes (lower d) nbits a v (sinv_bytes _ _ HS)) as Wb.
      destruct (mem_write_inword (lower d) nbits a v Hw) as [Wok Wbad]; [lia|].
      destruct (mem_write rv_memcfg (lower d) nbits a v) as [m' e'] eqn:Emw. cbn [fst snd] in Wok, Wb.
      apply pair_eq in H. destruct H as [H <-]. apply pair_eq in H. destruct H as [<- <-].
      destruct (Z_le_gt_dec 16384 (a mod 4294967296)) as [Hlo|Hlt].
      * destruct (Wok Hlo) as [We Wm].
        pose proof (lower_write_miss _ _ m' a (Z.of_nat (kof nbits)) v HS Hf ltac:(lia) Hin Wm) as LF.
        split.
        { split.
          - unfold SInv. cbn [dc lower upd_lower upd_dc]. apply (sinv_lower _ _ _ HS Wb).
          - intros _ a' Ha'. unfold logical. cbn [dc lower upd_lower upd_dc].
            rewrite (LF a' Ha'), Wm. destruct ((a mod 4294967296 <=? a') && _); [reflexivity|]. apply HW. exact Ha'. }
        split; [cbn [wthrough upd_lower upd_dc]; exact Hwt|]. split; [reflexivity|].
        split; [|split; [intros _ Hlt; exfalso; lia | intros Hc; exfalso; lia]].
        intros _ _. split; [exact We|]. intros a' Ha'. unfold logical. cbn [dc lower upd_lower upd_dc].
        apply LF; exact Ha'.
      * pose proof (Wbad ltac:(lia)) as Eb. apply pair_eq in Eb. destruct Eb as [-> ->].
        split; [exact (core_cinv d _ (conj eq_refl (conj eq_refl eq_refl)) HC)|].
        split; [exact Hwt|]. split; [reflexivity|].
        split; [intros _ Hge; exfalso; lia|]. split; [|intros Hc; exfalso; lia].
        intros _ _. split; [reflexivity|]. intros a' _. reflexivity.
  - (* across a word boundary: rejected before anything happens *)
    assert (Hor: (nbits =? 16) && (da_byoff (cdecode (dc d) a) >? 2) = true \/
                 (nbits =? 32) && negb (da_byoff (cdecode (dc d) a) =? 0) = true) by (apply Hpre; exact Hcross).
    assert (He: e = Some (EOffset (da_byoff (cdecode (dc d) a)) (4 - Z.of_nat (kof nbits))) /\ d' = d).
    { destruct ((nbits =? 16) && (da_byoff (cdecode (dc d) a) >? 2)) eqn:P1.
      - apply pair_eq in H. destruct H as [H _]. apply pair_eq in H. destruct H as [<- <-].
        apply andb_true_iff in P1. destruct P1 as [P1 _]. apply Z.eqb_eq in P1. subst nbits.
        split; reflexivity.
      - destruct Hor as [Hor|Hor]; [discriminate|]. rewrite Hor in H.
        apply pair_eq in H. destruct H as [H _]. apply pair_eq in H. destruct H as [<- <-].
        apply andb_true_iff in Hor. destruct Hor as [P2 _]. apply Z.eqb_eq in P2. subst nbits.
        split; reflexivity. }
    destruct He as [-> ->].
    split; [exact HC|]. split; [exact Hwt|]. split; [reflexivity|].
    split; [intros Hc; exfalso; lia|]. split; [intros Hc; exfalso; lia|].
    intros _. split; [intros a' _; reflexivity|]. eexists. split; [reflexivity|]. intros _. reflexivity.
Qed.

Lemma dc_write_wb_ok d nbits a v e d' p : CInv d -> okw nbits -> 0 <= v < 2 ^ nbits ->
  wthrough d = false ->
  dc_write d nbits a v false = (e, d', p) -> write_post d nbits a v e d'.
Proof.
  intros HC Hw Hv Hwt H. pose proof (cinv_sinv d HC) as HS.
  rewrite (dc_write_wb_eq d nbits a v Hwt) in H. cbv zeta in H.
  destruct (inword_range _ _ a HS) as (Hx & Ho & _ & H14 & _).
  destruct (okw_kof nbits Hw) as (Hn & Hk & _).
  pose proof (sinv_idx _ _ a HS) as Hi.
  unfold write_post. cbv zeta. rewrite Hwt.
  rewrite cache_read_block_eq in H.
  destruct (find_block (blocks (get_set (dc d) (da_idx (cdecode (dc d) a)))) (da_tag (cdecode (dc d) a)) 0)
    as [bi|] eqn:Hf.
  - (* hit *)
    cbv beta iota in H. cbn [dc upd_dc] in H.
    destruct (find_hit_facts _ _ a bi HS Hf) as (Hbi & _ & _ & _ & _ & Hlo & _).
    destruct (Z_le_gt_dec (da_byoff (cdecode (dc d) a) + Z.of_nat (kof nbits)) 4) as [Hin|Hcross].
    + destruct (write_hit_ok _ _ nbits a v bi HS Hw Hv Hin Hf) as (blk' & Hib & Hcw & HS2 & _ & L2).
      rewrite Hib, Hcw in H. unfold upd_stats in H. cbv beta iota zeta in H.
      apply pair_eq in H. destruct H as [H <-]. apply pair_eq in H. destruct H as [<- <-].
      split.
      { split; [exact HS2|]. cbn [wthrough upd_dc]. rewrite Hwt. discriminate. }
      split; [exact Hwt|]. split; [reflexivity|].
      split; [|split; [intros _ Hlt; exfalso; lia | intros Hc; exfalso; lia]].
      intros _ _. split; [reflexivity|]. exact L2.
    + rewrite (into_block_cross nbits _ _ v Hw Ho Hcross) in H.
      apply pair_eq in H. destruct H as [H <-]. apply pair_eq in H. destruct H as [<- <-].
      assert (SL: same_logical d (upd_dc d (touch (dc d) (da_idx (cdecode (dc d) a)) bi))).
      { intros a' Ha'. unfold logical. cbn [dc lower upd_dc]. apply (logical_touch _ _ _ _ _ HS Hi). }
      split.
      { split; [apply sinv_touch; assumption|]. cbn [wthrough upd_dc]. rewrite Hwt. discriminate. }
      split; [exact Hwt|]. split; [reflexivity|].
      split; [intros Hc; exfalso; lia|]. split; [intros Hc; exfalso; lia|].
      intros _. split; [exact SL|]. eexists. split; [reflexivity|]. intros _. reflexivity.
  - (* miss *)
    cbv beta iota in H. cbn [dc lower upd_dc] in H. unfold block_words in H. cbn [dc upd_dc] in H.
    assert (Core: same_core d (upd_dc d (dc d))) by (repeat split; reflexivity).
    destruct (Z_le_gt_dec 16384 (da_balign (cdecode (dc d) a))) as [Hlo|Hlt].
    + destruct (read_block_lower _ _ a HS Hlo) as (blk & Hr & Hvok & Hbytes).
      rewrite Hr in H.
      destruct (Z_le_gt_dec (da_byoff (cdecode (dc d) a) + Z.of_nat (kof nbits)) 4) as [Hin|Hcross].
      * destruct (into_block_in nbits (cdecode (dc d) a) blk v Hw ltac:(lia) Hin Hv) as (w' & Hib & Hw'r & Hw'b).
        rewrite Hib in H. rewrite cache_write_block_eq, Hf in H. cbv zeta in H.
        pose proof (merged_vals_ok _ _ a blk w' HS Hvok Hw'r) as Hvals'.
        destruct (fill_wb _ _ a _ HS Hf Hlo Hvals') as [S' L'].
        set (blk' := set_nthZ blk (da_boff (cdecode (dc d) a)) w') in *.
        set (c' := install (dc d) (da_idx (cdecode (dc d) a))
                     (pol_victim (policy (get_set (dc d) (da_idx (cdecode (dc d) a)))))
                     (mkblock (cdecode (dc d) a) blk')) in *.
        set (old := nthZ (blocks (get_set (dc d) (da_idx (cdecode (dc d) a))))
                      (pol_victim (policy (get_set (dc d) (da_idx (cdecode (dc d) a))))) empty_block) in *.
        assert (E': e = None /\ dc d' = c' /\
                    lower d' = (if dirty old then write_words (lower d) (baddr old) (vals old) else lower d)
                    /\ wthrough d' = false).
        { destruct (dirty old) in H |- *; unfold upd_stats in H; cbv beta iota zeta in H;
            apply pair_eq in H; destruct H as [H _]; apply pair_eq in H; destruct H as [<- <-];
            cbn [dc lower wthrough upd_dc upd_lower]; repeat split; try reflexivity; exact Hwt. }
        destruct E' as (-> & E1 & E2 & E3).
        split.
        { split; [unfold SInv; rewrite E1, E2; exact S'|]. rewrite E3. discriminate. }
        split; [exact E3|]. split; [rewrite E1; reflexivity|].
        split; [|split; [intros _ Hc; exfalso; lia | intros Hc; exfalso; lia]].
        intros _ _. split; [reflexivity|]. intros a' Ha'. unfold logical. rewrite E1, E2.
        rewrite (L' a' Ha'). unfold blk'.
        apply (merged_formula _ _ a blk w' v (Z.of_nat (kof nbits)) (logicalC (dc d) (lower d)) HS ltac:(lia) Hin
                 (proj1 Hvok) Hw'b).
        -- intros a2 Ha2 E. rewrite (Hbytes a2 Ha2 E). unfold logicalC.
           rewrite (miss_block _ _ a a2 HS Hf E). reflexivity.
        -- exact Ha'.
      * rewrite (into_block_cross nbits _ _ v Hw Ho Hcross) in H.
        apply pair_eq in H. destruct H as [H <-]. apply pair_eq in H. destruct H as [<- <-].
        split; [exact (core_cinv d _ Core HC)|]. split; [exact Hwt|]. split; [reflexivity|].
        split; [intros Hc; exfalso; lia|]. split; [intros Hc; exfalso; lia|].
        intros _. split; [intros a' _; reflexivity|]. eexists. split; [reflexivity|]. intros _. reflexivity.
    + rewrite (read_block_lower_bad _ _ a HS ltac:(lia)) in H.
      apply pair_eq in H. destruct H as [H <-]. apply pair_eq in H. destruct H as [<- <-].
      split; [exact (core_cinv d _ Core HC)|]. split; [exact Hwt|]. split; [reflexivity|].
      split; [intros _ Hc; exfalso; lia|]. split.
      * intros _ _. split; [reflexivity|]. intros a' _. reflexivity.
      * intros _. split; [intros a' _; reflexivity|]. eexists. split; [reflexivity|].
        intros Hc. exfalso. lia.
Qed.

Lemma dc_write_ok d nbits a v e d' p : CInv d -> okw nbits -> 0 <= v < 2 ^ nbits ->
  dc_write d nbits a v false = (e, d', p) -> write_post d nbits a v e d'.
Proof.
  intros HC Hw Hv H. destruct (wthrough d) eqn:Hwt.
  - apply (dc_write_wt_ok d nbits a v e d' p HC Hw Hv Hwt H).
  - apply (dc_write_wb_ok d nbits a v e d' p HC Hw Hv Hwt H).
Qed.

(** * Direct (parser preload) writes *)
Lemma dc_write_direct_eq d nbits a v :
  dc_write d nbits a v true =
  (snd (mem_write rv_memcfg (lower d) nbits a v),
   upd_lower d (fst (mem_write rv_memcfg (lower d) nbits a v)), 0).
Proof. unfold dc_write. destruct (mem_write rv_memcfg (lower d) nbits a v). reflexivity. Qed.

(* the structural invariant survives ANY direct write (any width, any address, any outcome) *)
Lemma sinv_direct d nbits a v e d' p : SInv d -> dc_write d nbits a v true = (e, d', p) -> SInv d'.
Proof.
  intros HS H. rewrite dc_write_direct_eq in H. apply pair_eq in H. destruct H as [H _].
  apply pair_eq in H. destruct H as [_ <-]. unfold SInv. cbn [dc lower upd_lower].
  apply (sinv_lower _ _ _ HS). apply mem_write_bytes. apply (sinv_bytes _ _ HS).
Qed.

Lemma cinv_direct_wb d nbits a v e d' p : CInv d -> wthrough d = false ->
  dc_write d nbits a v true = (e, d', p) -> CInv d'.
Proof.
  intros [HS _] Hwt H. split; [apply (sinv_direct d nbits a v e d' p HS H)|].
  rewrite dc_write_direct_eq in H. apply pair_eq in H. destruct H as [H _].
  apply pair_eq in H. destruct H as [_ <-]. cbn [wthrough upd_lower]. rewrite Hwt. discriminate.
Qed.

Lemma res_none_find (c : cache Z) a : res_block c a = None ->
  find_block (blocks (get_set c (da_idx (cdecode c a)))) (da_tag (cdecode c a)) 0 = None.
Proof. unfold res_block. intros H. apply lookup_None in H. apply H. Qed.

(* guard: within one word and the block of a is not resident *)
Lemma dc_write_direct_ok d nbits a v e d' p : CInv d -> okw nbits ->
  da_byoff (cdecode (dc d) a) + Z.of_nat (kof nbits) <= 4 ->
  res_block (dc d) a = None ->
  dc_write d nbits a v true = (e, d', p) ->
  let x := a mod 4294967296 in
  CInv d' /\ wthrough d' = wthrough d /\ cfg (dc d') = cfg (dc d) /\
  (16384 <= x ->
     e = None /\
     forall a', in32b a' ->
       logical d' a' = if (x <=? a') && (a' <? x + Z.of_nat (kof nbits)) then byte_of v (a' - x)
                       else logical d a') /\
  (x < 16384 -> e = Some (aerr x) /\ same_logical d d').
Proof.
  intros HC Hw Hin Hres H. cbv zeta. pose proof (cinv_sinv d HC) as HS. pose proof HC as [_ HW].
  pose proof (res_none_find _ a Hres) as Hf.
  pose proof (byoff_eq _ _ a HS) as Hbo.
  rewrite dc_write_direct_eq in H.
  pose proof (mem_write_bytes (lower d) nbits a v (sinv_bytes _ _ HS)) as Wb.
  destruct (mem_write_inword (lower d) nbits a v Hw) as [Wok Wbad]; [lia|].
  destruct (mem_write rv_memcfg (lower d) nbits a v) as [m' e'] eqn:Emw. cbn [fst snd] in *.
  apply pair_eq in H. destruct H as [H <-]. apply pair_eq in H. destruct H as [<- <-].
  destruct (Z_le_gt_dec 16384 (a mod 4294967296)) as [Hlo|Hlt].
  - destruct (Wok Hlo) as [We Wm].
    pose proof (lower_write_miss _ _ m' a (Z.of_nat (kof nbits)) v HS Hf ltac:(lia) Hin Wm) as LF.
    split.
    { split.
      - unfold SInv. cbn [dc lower upd_lower]. apply (sinv_lower _ _ _ HS Wb).
      - cbn [wthrough upd_lower]. intros Hwt a' Ha'. unfold logical. cbn [dc lower upd_lower].
        rewrite (LF a' Ha'), Wm. destruct ((a mod 4294967296 <=? a') && _); [reflexivity|].
        apply (HW Hwt). exact Ha'. }
    split; [reflexivity|]. split; [reflexivity|].
    split; [|intros Hc; exfalso; lia].
    intros _. split; [exact We|]. intros a' Ha'. unfold logical. cbn [dc lower upd_lower].
    apply LF; exact Ha'.
  - pose proof (Wbad ltac:(lia)) as Eb. apply pair_eq in Eb. destruct Eb as [-> ->].
    split; [exact (core_cinv d _ (conj eq_refl (conj eq_refl eq_refl)) HC)|].
    split; [reflexivity|]. split; [reflexivity|].
    split; [intros Hc; exfalso; lia|]. intros _. split; [reflexivity|]. intros a' _. reflexivity.
Qed.

(** * Initial state *)
Lemma lookup_empty n t : lookup (repeat (@empty_block Z) n) t = None.
Proof.
  apply lookup_miss. intros k Hk. rewrite repeat_length in Hk. rewrite nthZ_repeat by lia. reflexivity.
Qed.

Lemma get_set_init c i : 0 <= i < 2 ^ ibits c -> get_set (cache_init c) i = empty_set Z c.
Proof. intros Hi. unfold get_set, cache_init. cbn [sets]. apply nthZ_repeat. lia. Qed.

Lemma sinv_init c m : cfg_ok c -> bytes_ok m -> SInvC (cache_init c) m.
Proof.
  intros Hc Hm. pose proof Hc as (Hib & Hbb & Hs & Ha & _). pose proof (p2pos (ibits c) Hib) as HP.
  unfold SInvC. change (cfg (cache_init c)) with c.
  split; [exact Hc|]. split.
  { unfold cache_init. cbn [sets]. rewrite repeat_length. lia. }
  split; [|exact Hm]. intros i Hi. rewrite get_set_init by exact Hi.
  unfold set_ok, empty_set. cbn [blocks policy].
  split; [rewrite repeat_length; lia|]. split; [apply pol_init_ok; exact Hc|]. split.
  - intros bi Hbi. rewrite nthZ_repeat by lia. split; [reflexivity|]. intros Hv. discriminate.
  - intros bi bj Hbi Hbj Hv. rewrite repeat_length in Hbi. rewrite nthZ_repeat in Hv by lia. discriminate.
Qed.

Lemma init_logical c m a : cfg_ok c -> logicalC (cache_init c) m a = mget m a.
Proof.
  intros Hc. unfold logicalC, res_block.
  pose proof (sinv_idx (cache_init c) [] a (sinv_init c [] Hc ltac:(intros k; cbv; split; [discriminate | reflexivity]))) as Hi.
  change (cfg (cache_init c)) with c in Hi. rewrite get_set_init by exact Hi.
  unfold empty_set. cbn [blocks]. rewrite lookup_empty. reflexivity.
Qed.

Lemma bytes_ok_nil : bytes_ok [].
Proof. intros k. rewrite mget_nil. lia. Qed.

Lemma cinv_init_proof c wt pen : cfg_ok c -> CInv (dcache_init c wt pen).
Proof.
  intros Hc. split.
  - apply (sinv_init c [] Hc bytes_ok_nil).
  - intros _ a Ha. unfold logical. cbn [dc lower dcache_init]. rewrite init_logical by exact Hc. reflexivity.
Qed.

Lemma cinv_init_lower_proof c wt pen m : cfg_ok c -> bytes_ok m ->
  CInv (upd_lower (dcache_init c wt pen) m) /\ Flat m (upd_lower (dcache_init c wt pen) m).
Proof.
  intros Hc Hm. split; [split|].
  - apply (sinv_init c m Hc Hm).
  - intros _ a Ha. unfold logical. cbn [dc lower dcache_init upd_lower]. rewrite init_logical by exact Hc. reflexivity.
  - intros a Ha. unfold logical. cbn [dc lower dcache_init upd_lower]. rewrite init_logical by exact Hc. reflexivity.
Qed.
