(* C01Mem.v — the model's flat memory loops equal the reference's byte-wise load/store *)
From Coq Require Import Lia ZifyBool.
From ArchSim Require Import Model.Base Model.Mem Model.Fmt Model.RV Spec.RV32IM
  Proofs.WordLemmas Proofs.MapLemmas Proofs.C01Arith.
Open Scope Z_scope.
Local Arguments Z.mul : simpl never.
Local Arguments Z.add : simpl never.
Local Arguments Z.pow : simpl never.
Local Arguments Z.div : simpl never.
Local Arguments Z.modulo : simpl never.

Definition wf_mem (m : zmap) : Prop := forall k, 0 <= mget m k < 256.
Definition aerr (a : Z) : err := EAddr a 16384 4294967295 false.

Lemma read_cell_rv m a :
  read_cell rv_memcfg m a = if valid_addr (wrap a) then Ok (mget m (wrap a)) else Err (aerr (wrap a)).
Proof. reflexivity. Qed.

Lemma write_cell_rv m a v :
  write_cell rv_memcfg m a v = if valid_addr (wrap a) then Ok (mset m (wrap a) v) else Err (aerr (wrap a)).
Proof. reflexivity. Qed.

Lemma pow256 i : 0 <= i -> 2 ^ (8 * (i + 1)) = 256 * 2 ^ (8 * i).
Proof. intros. replace (8 * (i + 1)) with (8 + 8 * i) by lia. rewrite Z.pow_add_r by lia. reflexivity. Qed.

Lemma spec_load_range m : wf_mem m -> forall k a v,
  spec_load m a k = inl v -> 0 <= v < 2 ^ (8 * Z.of_nat k).
Proof.
  intros Hm. induction k as [|k IH]; intros a v H; cbn [spec_load] in H.
  - injection H as <-. cbn; lia.
  - destruct (valid_addr (wrap a)); [|discriminate].
    destruct (spec_load m (a + 1) k) as [hi|] eqn:E; [|discriminate].
    injection H as <-. specialize (IH _ _ E). pose proof (Hm (wrap a)).
    replace (Z.of_nat (S k)) with (Z.of_nat k + 1) by lia. rewrite pow256 by lia.
    set (P := 2 ^ (8 * Z.of_nat k)) in *. lia.
Qed.

Lemma read_mult_spec m : wf_mem m -> forall k a i acc,
  0 <= i -> 0 <= acc < 2 ^ (8 * i) ->
  read_mult rv_memcfg m a k i acc =
  match spec_load m (a + i) k with
  | inl v => Ok (acc + v * 2 ^ (8 * i))
  | inr f => Err (aerr f)
  end.
Proof.
  intros Hm. induction k as [|k IH]; intros a i acc Hi Hacc; cbn [read_mult spec_load].
  - f_equal. lia.
  - rewrite read_cell_rv. destruct (valid_addr (wrap (a + i))); [|reflexivity].
    pose proof (Hm (wrap (a + i))) as Hb.
    change (cw rv_memcfg) with 8.
    rewrite lor_add_disjoint; [| lia | replace (i * 8) with (8 * i) by lia; assumption | lia].
    replace (i * 8) with (8 * i) by lia.
    assert (P: 0 < 2 ^ (8 * i)) by (apply pow2_pos; lia).
    rewrite IH; [| lia | rewrite pow256 by lia; nia].
    replace (a + (i + 1)) with (a + i + 1) by lia.
    destruct (spec_load m (a + i + 1) k); [|reflexivity].
    f_equal. rewrite pow256 by lia. ring.
Qed.

Lemma ncells_lop o : ncells rv_memcfg (load_bits o) = lop_bytes o.
Proof. destruct o; reflexivity. Qed.
Lemma ncells_sop o : ncells rv_memcfg (store_bits o) = sop_bytes o.
Proof. destruct o; reflexivity. Qed.
Lemma load_bits_bytes o : load_bits o = 8 * Z.of_nat (lop_bytes o).
Proof. destruct o; reflexivity. Qed.

Lemma mem_read_spec m o a : wf_mem m ->
  mem_read rv_memcfg m (load_bits o) a =
  match spec_load m a (lop_bytes o) with
  | inl v => Ok v
  | inr f => Err (aerr f)
  end.
Proof.
  intros Hm. unfold mem_read. rewrite ncells_lop.
  rewrite (read_mult_spec m Hm) by (cbn; lia).
  replace (a + 0) with a by lia.
  destruct (spec_load m a (lop_bytes o)) as [v|f] eqn:E; [|reflexivity].
  apply (spec_load_range m Hm) in E. rewrite <- load_bits_bytes in E.
  f_equal. unfold U. change (2 ^ (8 * 0)) with 1. rewrite Z.mul_1_r, Z.add_0_l.
  apply Z.mod_small; assumption.
Qed.

Lemma mem_read_byte_spec m a : wf_mem m ->
  mem_read rv_memcfg m 8 a = if valid_addr (wrap a) then Ok (mget m (wrap a)) else Err (aerr (wrap a)).
Proof.
  intros Hm. change 8 with (load_bits LBU). rewrite mem_read_spec by assumption.
  cbn [lop_bytes spec_load]. destruct (valid_addr (wrap a)); [|reflexivity]. f_equal. lia.
Qed.

Lemma write_mult_spec : forall k m a i v,
  write_mult rv_memcfg m a k i v =
  (fst (spec_store m (a + i) k v), option_map aerr (snd (spec_store m (a + i) k v))).
Proof.
  induction k as [|k IH]; intros m a i v; cbn [write_mult spec_store].
  - reflexivity.
  - rewrite write_cell_rv. destruct (valid_addr (wrap (a + i))); [|reflexivity].
    change (cw rv_memcfg) with 8. change (2 ^ 8 - 1) with 255.
    rewrite land_255, shr_div by lia. change (2 ^ 8) with 256.
    rewrite IH. replace (a + (i + 1)) with (a + i + 1) by lia. reflexivity.
Qed.

Lemma spec_store_trunc : forall k m a v,
  spec_store m a k (v mod 2 ^ (8 * Z.of_nat k)) = spec_store m a k v.
Proof.
  induction k as [|k IH]; intros m a v; cbn [spec_store]; [reflexivity|].
  destruct (valid_addr (wrap a)); [|reflexivity].
  replace (Z.of_nat (S k)) with (Z.of_nat k + 1) by lia. rewrite pow256 by lia.
  assert (P: 0 < 2 ^ (8 * Z.of_nat k)) by (apply pow2_pos; lia).
  set (M := 2 ^ (8 * Z.of_nat k)) in *.
  rewrite (Z.rem_mul_r v 256 M) by lia.
  assert (H1: (v mod 256 + 256 * ((v / 256) mod M)) mod 256 = v mod 256).
  { replace (v mod 256 + 256 * ((v / 256) mod M)) with (v mod 256 + ((v / 256) mod M) * 256) by ring.
    rewrite Z.mod_add by lia. apply Z.mod_mod; lia. }
  assert (H2: (v mod 256 + 256 * ((v / 256) mod M)) / 256 = (v / 256) mod M).
  { replace (v mod 256 + 256 * ((v / 256) mod M)) with (v mod 256 + ((v / 256) mod M) * 256) by ring.
    rewrite Z.div_add by lia.
    rewrite (Z.div_small (v mod 256)) by (apply Z.mod_pos_bound; lia). apply Z.add_0_l. }
  rewrite H1, H2. apply IH.
Qed.

Lemma spec_store_wf : forall k m a v, wf_mem m -> wf_mem (fst (spec_store m a k v)).
Proof.
  induction k as [|k IH]; intros m a v Hm; cbn [spec_store]; [exact Hm|].
  destruct (valid_addr (wrap a)); [|exact Hm].
  apply IH. intros x. rewrite mget_mset. destruct (_ =? _); [|apply Hm].
  apply Z.mod_pos_bound; lia.
Qed.

Lemma mem_write_spec m o a v :
  mem_write rv_memcfg m (store_bits o) a (U (store_bits o) v) =
  (fst (spec_store m a (sop_bytes o) v), option_map aerr (snd (spec_store m a (sop_bytes o) v))).
Proof.
  unfold mem_write. rewrite ncells_sop, write_mult_spec. replace (a + 0) with a by lia.
  unfold U. replace (store_bits o) with (8 * Z.of_nat (sop_bytes o)) by (destruct o; reflexivity).
  rewrite spec_store_trunc. reflexivity.
Qed.
