(* SchedPrefixTrace.v — the retire trace of a pipeline run that ends in a fault (the Faulted branch of
   [pipe_refines_single], Props/C02Refine.v): every instruction the single-cycle machine executed
   before the faulting one has left WB when the fault is raised — the retire counter says so — but the
   last of them does so in the very cycle of the fault when the faulting load / store executes
   directly behind it; [pipe_trace] records the WB output after steps that do not fault, so in that
   case it lacks this one instruction. *)
From Coq Require Import Lia ZifyBool.
From ArchSim Require Import Model.Base Model.Mem Model.Cache Model.Fmt Model.RV Model.Single
  Model.RVSplit Model.Pipe Proofs.WordLemmas Proofs.C01Step Proofs.SplitExec Proofs.C02Split
  Proofs.PipeLaws Proofs.PipeShape Proofs.PipeInv Proofs.PipeInvBase Proofs.PipeInvStages
  Proofs.PipeInvStraight Proofs.PipeInvControl Proofs.PipeInvEcall Proofs.PipeRefine Proofs.SchedDefs Proofs.SchedRec
  Proofs.SchedStep Proofs.SchedInv Proofs.SchedLink Proofs.SchedMain Proofs.SchedCor Proofs.SchedPrefixFault
  Proofs.SchedPrefixLink Proofs.SchedPrefixRun Proofs.SchedPrefixMain.
Open Scope Z_scope.

Local Arguments Z.of_nat : simpl never.
Local Arguments Z.add : simpl never.
Local Arguments Z.sub : simpl never.

(* the faulting instruction is a load / store that executes in the cycle right after its
   predecessor (no redirect, no interlock in between), by the documented schedule *)
Definition fault_b2b (n : nat) (s : st) : bool :=
  let e := ev_of (single_last n s) in
  let ws := schedule (single_events n s ++ [e]) in
  negb (ev_ecall e) &&
  match length (single_events n s) with
  | O => false
  | S h => (nth (S h) ws 0 =? nth h ws 0 + 1)%nat
  end.

(* an ecall never executes in the two cycles behind its predecessor *)
Lemma X_ecall_gap ev i : ev_ecall (ev (S i)) = true -> (X ev i + 3 <= X ev (S i))%nat.
Proof.
  intros He. destruct (ev_redirect (ev i)) eqn:Hr; [rewrite (X_red ev i Hr); lia|].
  rewrite (X_seq ev i Hr), He. destruct (hazard ev i); lia.
Qed.

Theorem pipe_faulted_trace_lem P s n s' f :
  Forall (fun i => supported i = true) P -> wf s -> prog (im s) = P ->
  single_run n s = (s', Faulted f) ->
  forall c p g, pipe_run c (pipe_init s true) = (p, PFaulted g) ->
    g = f /\
    pipe_trace c (pipe_init s true) =
      firstn (length (single_trace n s) - (if fault_b2b n s then 1 else 0)) (single_trace n s) /\
    icount (pst p) + 1 = icount s' /\
    icount (pst p) = icount s + Z.of_nat (length (single_trace n s)).
Proof.
  intros HS W HP Hrun c p g Hp. destruct (run_states_gen n s) as (N & HNn & H1 & Ht & He & Hl & Hend).
  rewrite Hrun in Hend. cbn [snd fst] in Hend. destruct Hend as [HNd HNf].
  destruct (fault_core P HS s W HP N H1 s' f HNd HNf c p g Hp)
    as (Eg & A & B & Hic & m & HmN & Hlist & Hsame & _ & Hb1 & Hb2).
  split; [exact Eg|].
  assert (Hlen : length (single_trace n s) = N) by (rewrite Ht, map_length, seq_length; reflexivity).
  (* the exact number of recorded retirements *)
  assert (Hcf : fault_step s N true = if ev_ecall (ev s N) then X (ev s) N else (X (ev s) N + 1)%nat).
  { unfold fault_step, ec. rewrite (X_evm s N H1 true N) by lia. reflexivity. }
  assert (Hb : fault_b2b n s = negb (ev_ecall (ev s N)) &&
                 match N with O => false | S h => (X (ev s) (S h) =? X (ev s) h + 1)%nat end).
  { unfold fault_b2b. rewrite Hl, He, map_length, seq_length.
    change (fun j => ev_of (sigma j s)) with (ev s). change (ev_of (sigma N s)) with (ev s N). f_equal.
    destruct N as [|h]; [reflexivity|].
    replace (map (ev s) (seq 0 (S h)) ++ [ev s (S h)]) with (map (ev s) (seq 0 (S (S h)))) by (rewrite (seq_S (S h)), map_app; reflexivity).
    rewrite schedule_xsched, xsched_X, map_map.
    rewrite (nth_map_seq (fun j => (X (ev s) j + 2)%nat) (S (S h)) (S h) 0%nat) by lia.
    rewrite (nth_map_seq (fun j => (X (ev s) j + 2)%nat) (S (S h)) h 0%nat) by lia.
    destruct (X (ev s) (S h) =? X (ev s) h + 1)%nat eqn:E; lia. }
  assert (Hm : m = (N - (if fault_b2b n s then 1 else 0))%nat).
  { rewrite Hb. rewrite Hcf in Hb1, Hb2. destruct N as [|h]; [destruct HmN; [subst m; destruct (negb _); reflexivity|lia]|].
    pose proof (X_lt (ev s) h) as Hlt.
    destruct (ev_ecall (ev s (S h))) eqn:Hec; cbn [negb andb].
    - pose proof (X_ecall_gap (ev s) h Hec). destruct HmN as [->|Hm]; [lia|].
      injection Hm as ->. lia.
    - destruct (X (ev s) (S h) =? X (ev s) h + 1)%nat eqn:E.
      + destruct HmN as [->|Hm]; [|injection Hm as ->; lia]. specialize (Hb2 ltac:(lia)).
        replace (S h - 1)%nat with h in Hb2 by lia. lia.
      + destruct HmN as [->|Hm]; [lia|]. injection Hm as ->. lia. }
  split.
  { rewrite (trace_of_retire c 0%nat). fold (pipe_retire c (pipe_init s true)). rewrite Hsame, Hlist, map_map. cbn [fst].
    rewrite Hlen, <- Hm, Ht, firstn_map. f_equal. symmetry.
    assert (Hle : (m <= N)%nat) by (destruct HmN; lia).
    clear - Hle. revert m Hle. generalize 0%nat. induction N as [|N' IH]; intros a m Hle.
    - assert (m = 0)%nat by lia. subst m. reflexivity.
    - destruct m as [|m']; [reflexivity|]. cbn [seq firstn]. f_equal. apply IH. lia. }
  split; [exact Hic|].
  (* the retire counter *)
  rewrite Hlen.
  assert (Hcnt : forall j, (j <= N)%nat -> icount (sigma j s) = icount s + Z.of_nat j).
  { induction j as [|j IHj]; intros Hj; [cbn [sigma]; lia|].
    destruct (sig_wf P s W HP N H1 j ltac:(lia)) as [Wj HPj]. destruct (H1 j ltac:(lia)) as [Hnd _].
    unfold single_done, has_instr in Hnd. destruct (exitc (sigma j s)); [discriminate Hnd|].
    destruct (instr_at (prog (im (sigma j s))) (pc (sigma j s))) as [i|] eqn:Hi; [|discriminate Hnd].
    assert (Hsi : supported i = true) by (apply (sup_at P HS (pc (sigma j s))); rewrite <- HPj; exact Hi).
    rewrite (sigma_S s N H1), (icount_nxt _ i Wj Hi Hsi), (IHj ltac:(lia)). lia. }
  pose proof (Hcnt N ltac:(lia)) as HcN.
  destruct (sig_wf P s W HP N H1 N ltac:(lia)) as [WN HPN].
  pose proof HNd as Hd. unfold single_done, has_instr in Hd. destruct (exitc (sigma N s)); [discriminate Hd|].
  destruct (instr_at (prog (im (sigma N s))) (pc (sigma N s))) as [i|] eqn:Hi; [|discriminate Hd].
  assert (Hsf : s' = nxt (sigma N s)) by (unfold nxt; rewrite HNf; reflexivity).
  assert (Hs1 : icount s' = icount (sigma N s) + 1).
  { rewrite Hsf. apply (icount_nxt _ i WN Hi). apply (sup_at P HS (pc (sigma N s))). rewrite <- HPN. exact Hi. }
  lia.
Qed.
Print Assumptions pipe_faulted_trace_lem.
