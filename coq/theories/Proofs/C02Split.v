(* C02Split.v — data-path half of property C02: an instruction flowing alone through the stages
   ID, EX, MEM, WB of the modelled five-stage pipeline ([flow], Proofs/SplitExec.v) has exactly the
   architectural effect of [behavior], for every supported instruction and every operand, register,
   memory-system and pc value.
     1. word arithmetic: U32 of the raw split ALU result = the single-cycle ALU result
     2. the memory system: accesses only change (ms, cycles); writes depend on the address
        modulo 2^32 only; 32-bit reads return 32-bit words
     3. [flow] instruction by instruction (closed forms)
     4. the agreement theorem
     5. corollaries (JALR target, branches, loads, stores, x0) *)
From Coq Require Import Lia ZifyBool.
From ArchSim Require Import Model.Base Model.Mem Model.Cache Model.Fmt Model.RV Model.Single
  Model.RVSplit Model.Pipe Spec.RV32IM
  Proofs.WordLemmas Proofs.MapLemmas Proofs.C01Arith Proofs.C01Step Proofs.SplitExec.
Open Scope Z_scope.
Ltac Zify.zify_post_hook ::= Z.to_euclidean_division_equations.
Local Arguments Z.mul : simpl never.
Local Arguments Z.add : simpl never.
Local Arguments Z.sub : simpl never.
Local Arguments Z.pow : simpl never.
Local Arguments Z.div : simpl never.
Local Arguments Z.modulo : simpl never.
Local Arguments Z.quot : simpl never.
Local Arguments Z.land : simpl never.
Local Arguments Z.lor : simpl never.
Local Arguments Z.lxor : simpl never.
Local Arguments Z.shiftl : simpl never.
Local Arguments Z.shiftr : simpl never.

(** * 1. Word arithmetic *)

Lemma U32_idem x : U32 (U32 x) = U32 x.
Proof. apply U32_id, U32_range. Qed.

Lemma U_idem n x : U n (U n x) = U n x.
Proof. unfold U. apply Zmod_mod. Qed.

Lemma b2z_in32 b : in32 (b2z b).
Proof. unfold in32, b2z. destruct b; lia. Qed.

Lemma I32_eqb0 b : in32 b -> (I32 b =? 0) = (b =? 0).
Proof.
  unfold in32. intros Hb. rewrite I32_eq; cbv zeta.
  destruct (b mod 4294967296 <? 2147483648) eqn:E; lia.
Qed.

(* R-type: write_back's UInt32 of the raw ALU result is behavior()'s result *)
Lemma r_alu_agrees o a b : in32 a -> in32 b -> U32 (r_alu o a b) = r_behavior o a b.
Proof.
  intros Ha Hb.
  assert (Ea : U32 a = a) by (apply U32_id; assumption).
  assert (Eb : U32 b = b) by (apply U32_id; assumption).
  assert (Esh : U32 (b mod 32) = b mod 32) by (apply U32_id; unfold in32 in *; lia).
  destruct o; cbn [r_alu r_behavior]; cbv zeta; rewrite ?Ea, ?Eb, ?Esh, ?U32_idem; try reflexivity.
  - (* SLT *) apply U32_id, b2z_in32.
  - (* SLTU *) apply U32_id, b2z_in32.
  - (* DIV *) rewrite I32_eqb0 by assumption. destruct (b =? 0); reflexivity.
  - (* DIVU *) destruct (b =? 0); reflexivity.
  - (* REM *) rewrite I32_eqb0 by assumption. destruct (b =? 0); [|reflexivity].
    rewrite U32_I32. exact Ea.
  - (* REMU *) destruct (b =? 0); [exact Ea | reflexivity].
Qed.

Lemma i_alu_agrees o a imm : in32 a -> U32 (i_alu o a imm) = i_behavior o a imm.
Proof.
  intros Ha. assert (Ea : U32 a = a) by (apply U32_id; assumption).
  destruct o; cbn [i_alu i_behavior]; rewrite ?Ea, ?U32_idem; try reflexivity;
    apply U32_id, b2z_in32.
Qed.

Lemma sh_alu_agrees o a sh : in32 a -> 0 <= sh < 32 -> U32 (sh_alu o a sh) = sh_behavior o a sh.
Proof.
  intros Ha Hs. assert (Ea : U32 a = a) by (apply U32_id; assumption).
  assert (E16 : U16 sh = sh) by (rewrite U16_eq; lia).
  destruct o; cbn [sh_alu sh_behavior]; rewrite ?Ea, ?E16, ?U32_idem; reflexivity.
Qed.

Lemma b_alu_cond o a b : b_alu o a b = b_cond o a b.
Proof. destruct o; reflexivity. Qed.

(* loads: memory_access returns a raw (possibly negative) integer, write_back casts it *)
Lemma load_raw_agrees o v : (o = LW -> in32 v) ->
  U32 (match o with LB => I8 v | LH => I16 v | _ => v end) = load_ext o v.
Proof.
  intros Hv. destruct o; cbn [load_ext]; try reflexivity.
  apply U32_id. apply Hv. reflexivity.
Qed.

(* JALR: the split machine computes (rs1 + imm) & (2^32 - 2) on the unsigned register value,
   behavior() on the signed readings; the results are the same integer *)
Lemma jalr_agrees a imm : -2048 <= imm < 2048 ->
  Z.land (a + imm) (2 ^ 32 - 2) = Z.land (I32 (I32 a + I16 imm)) (2 ^ 32 - 2).
Proof.
  intros Hi. rewrite !land_clear_bit0. rewrite I32_mod. rewrite (I16_small imm) by lia.
  f_equal. f_equal.
  rewrite (Zplus_mod (I32 a)). rewrite I32_mod. rewrite <- Zplus_mod. reflexivity.
Qed.

Lemma store_addr_wrap x imm : U32 (U32 (x + U32 imm)) = U32 (x + imm).
Proof. rewrite !U32_eq. lia. Qed.

(** * 2. The memory system *)

(* a memory access changes the memory system and the cycle counter, nothing else *)
Definition mframe (s s' : st) : Prop := exists m c, s' = with_cycles (with_ms s m) c.

Lemma mframe_refl s : mframe s s.
Proof. exists (ms s), (cycles s). destruct s; reflexivity. Qed.

Lemma mframe_trans s1 s2 s3 : mframe s1 s2 -> mframe s2 s3 -> mframe s1 s3.
Proof. intros (m & c & ->) (m' & c' & ->). exists m', c'. reflexivity. Qed.

Lemma st_read_mframe s nb a cnt r s' : st_read s nb a cnt = (r, s') -> mframe s s'.
Proof.
  unfold st_read. destruct (ms_read (ms s) nb a cnt) as [[r0 m'] p]. intros H.
  injection H as _ <-. eexists _, _. reflexivity.
Qed.

Lemma st_write_mframe s nb a v d e s' : st_write s nb a v d = (e, s') -> mframe s s'.
Proof.
  unfold st_write. destruct (ms_write (ms s) nb a v d) as [[e0 m'] p]. intros H.
  injection H as _ <-. eexists _, _. reflexivity.
Qed.

Lemma read_cstring_mframe f : forall s a acc r s', read_cstring f s a acc = (r, s') -> mframe s s'.
Proof.
  induction f as [|f IH]; intros s a acc r s' H; cbn [read_cstring] in H.
  - injection H as _ <-. apply mframe_refl.
  - destruct (st_read s 8 a false) as [[b|e] s1] eqn:E.
    + pose proof (st_read_mframe _ _ _ _ _ _ E) as F1.
      destruct (b =? 0).
      * injection H as _ <-. exact F1.
      * eapply mframe_trans; [exact F1 | eapply IH; exact H].
    + injection H as _ <-. eapply st_read_mframe; exact E.
Qed.

Lemma process_ecall_mframe s r s' : process_ecall s = (r, s') -> mframe s s'.
Proof.
  unfold process_ecall. intros H.
  repeat match type of H with
         | (if ?c then _ else _) = _ => destruct c
         end;
    try (injection H as _ <-; apply mframe_refl).
  destruct (read_cstring (cstring_fuel s) s (rget s 10) []) as [[t|e] s1] eqn:E;
    injection H as _ <-; eapply read_cstring_mframe; exact E.
Qed.

Lemma mframe_pc s s' : mframe s s' -> pc s' = pc s.
Proof. intros (m & c & ->). reflexivity. Qed.
Lemma mframe_icount s s' : mframe s s' -> icount s' = icount s.
Proof. intros (m & c & ->). reflexivity. Qed.
Lemma mframe_regs s s' : mframe s s' -> regs s' = regs s.
Proof. intros (m & c & ->). reflexivity. Qed.

(** writes: only the address modulo 2^32 matters (flat memory wraps it, the cache decodes
    UInt32(address)) — the split machine passes rs1 + imm, behavior() passes UInt32 of it *)
Lemma write_cell_cong m a a' v : U32 a = U32 a' ->
  write_cell rv_memcfg m a v = write_cell rv_memcfg m a' v.
Proof.
  intros H. unfold write_cell, eff_addr. cbn [aovf alen rv_memcfg].
  change (a mod 2 ^ 32) with (U32 a). change (a' mod 2 ^ 32) with (U32 a'). rewrite H. reflexivity.
Qed.

Lemma write_mult_cong a a' : U32 a = U32 a' -> forall k m i v,
  write_mult rv_memcfg m a k i v = write_mult rv_memcfg m a' k i v.
Proof.
  intros H. induction k as [|k IH]; intros m i v; cbn [write_mult]; [reflexivity|].
  rewrite (write_cell_cong m (a + i) (a' + i)) by (rewrite !U32_eq in *; lia).
  destruct (write_cell rv_memcfg m (a' + i) _); [apply IH | reflexivity].
Qed.

Lemma mem_write_cong m nb a a' v : U32 a = U32 a' ->
  mem_write rv_memcfg m nb a v = mem_write rv_memcfg m nb a' v.
Proof. intros H. unfold mem_write. apply write_mult_cong. exact H. Qed.

Lemma decode_addr_cong ib bb a a' : U32 a = U32 a' -> decode_addr ib bb a = decode_addr ib bb a'.
Proof. intros H. unfold decode_addr. rewrite H. reflexivity. Qed.

Lemma dc_write_cong d nb a a' v dir : U32 a = U32 a' -> dc_write d nb a v dir = dc_write d nb a' v dir.
Proof.
  intros H. unfold dc_write, cdecode.
  rewrite (decode_addr_cong _ _ a a' H).
  set (da := decode_addr (ibits (cfg (dc d))) (bbits (cfg (dc d))) a').
  destruct dir.
  { rewrite (mem_write_cong _ _ a a') by exact H. reflexivity. }
  destruct (wthrough d); [|reflexivity].
  destruct ((nb =? 16) && (da_byoff da >? 2)); [reflexivity|].
  destruct ((nb =? 32) && negb (da_byoff da =? 0)); [reflexivity|].
  destruct (cache_read_block (dc d) da) as [ob c1].
  destruct (upd_stats (upd_dc d c1) match ob with Some _ => true | None => false end) as [d2 pen].
  match goal with |- context [match ?x with Ok _ => _ | Err _ => _ end] => destruct x as [d3|e] end;
    [|reflexivity].
  rewrite (mem_write_cong _ _ a a') by exact H. reflexivity.
Qed.

Lemma ms_write_cong m nb a a' v dir : U32 a = U32 a' -> ms_write m nb a v dir = ms_write m nb a' v dir.
Proof.
  intros H. destruct m as [fm|d]; cbn [ms_write].
  - rewrite (mem_write_cong _ _ a a') by exact H. reflexivity.
  - rewrite (dc_write_cong _ _ a a') by exact H. reflexivity.
Qed.

Lemma st_write_cong s nb a a' v dir : U32 a = U32 a' -> st_write s nb a v dir = st_write s nb a' v dir.
Proof. intros H. unfold st_write. rewrite (ms_write_cong _ _ a a') by exact H. reflexivity. Qed.

(** 32-bit reads return 32-bit words *)
Lemma mem_read_word_in32 m a v : mem_read rv_memcfg m 32 a = Ok v -> in32 v.
Proof.
  unfold mem_read. destruct (read_mult _ _ _ _ _ _) as [w|e]; [|discriminate].
  intros H. injection H as <-. apply (U32_range w).
Qed.

Lemma read_words_in32 m : forall n a ws, read_words m a n = Ok ws -> Forall in32 ws.
Proof.
  induction n as [|n IH]; intros a ws H; cbn [read_words] in H.
  - injection H as <-. constructor.
  - destruct (mem_read rv_memcfg m 32 a) as [w|e] eqn:Ew; [|discriminate].
    destruct (read_words m (a + 4) n) as [t|e] eqn:Et; [|discriminate].
    injection H as <-. constructor; [eapply mem_read_word_in32; exact Ew | eapply IH; exact Et].
Qed.

Lemma Forall_nthZ {A} (P : A -> Prop) (l : list A) i d : Forall P l -> P d -> P (nthZ l i d).
Proof.
  intros Hl Hd. unfold nthZ. generalize (Z.to_nat i) as n.
  induction Hl as [|x t Hx Ht IH]; intros [|n]; cbn [nth]; auto.
Qed.

Lemma cache_read_block_in32 c da blk c' : cache_words_ok c ->
  cache_read_block c da = (Some blk, c') -> Forall in32 blk.
Proof.
  intros Hc. unfold cache_read_block.
  destruct (find_block (blocks (get_set c (da_idx da))) (da_tag da) 0) as [bi|]; [|discriminate].
  intros H. injection H as <- _.
  assert (Hs : set_words_ok (get_set c (da_idx da))).
  { unfold get_set. apply Forall_nthZ; [exact Hc | constructor]. }
  change (block_words_ok (nthZ (blocks (get_set c (da_idx da))) bi empty_block)).
  apply Forall_nthZ; [exact Hs | constructor].
Qed.

Lemma dc_read_word_in32 d a cnt v d' p : cache_words_ok (dc d) ->
  dc_read d 32 a cnt = (Ok v, d', p) -> in32 v.
Proof.
  intros Hc. unfold dc_read. set (da := cdecode (dc d) a).
  destruct (dc_read_block d da) as [[[blk hit]|e] d1] eqn:Eb; [|discriminate].
  assert (Hblk : Forall in32 blk).
  { unfold dc_read_block in Eb.
    destruct (cache_read_block (dc d) da) as [[vb|] c1] eqn:Ec.
    - injection Eb as <- _ _. eapply cache_read_block_in32; [exact Hc | exact Ec].
    - destruct (read_words (lower d) (da_balign da) (block_words d)) as [ws|e] eqn:Ew; [|discriminate].
      destruct (cache_write_block (dc d) da ws) as [[h disp] c2].
      injection Eb as <- _ _. eapply read_words_in32; exact Ew. }
  destruct (if cnt then upd_stats d1 hit else (d1, 0)) as [d2 pen].
  unfold from_block. cbn [Z.eqb Pos.eqb].
  destruct (negb (da_byoff da =? 0)); [discriminate|].
  intros H. injection H as <- _ _.
  apply Forall_nthZ; [exact Hblk | unfold in32; lia].
Qed.

Lemma st_read_word_in32 s a cnt v s' : mem_words_ok (ms s) ->
  st_read s 32 a cnt = (Ok v, s') -> in32 v.
Proof.
  unfold st_read, ms_read, mem_words_ok. destruct (ms s) as [fm|d]; intros Hok.
  - destruct (mem_read rv_memcfg fm 32 a) as [w|e] eqn:E; intros H; [|discriminate].
    injection H as <- _. eapply mem_read_word_in32; exact E.
  - destruct (dc_read d 32 a cnt) as [[r d'] p] eqn:E. intros H. injection H as -> _.
    eapply dc_read_word_in32; [exact Hok | exact E].
Qed.

(** * 3. [flow], instruction by instruction *)

(* the hazard flag of the decode stage is irrelevant when the later latches are empty *)
Lemma stage_id_alone hz x s :
  stage_id hz [Some x; None; None; None; None] 0 s =
  stage_id false [Some x; None; None; None; None] 0 s.
Proof.
  unfold stage_id. change (lat_at [Some x; None; None; None; None] 0) with (Some x).
  change (lat_at [Some x; None; None; None; None] (0 + 1)) with (@None slot).
  change (lat_at [Some x; None; None; None; None] (0 + 2)) with (@None slot).
  destruct (access_rf (sl_instr x) s) as [[[[ra1 ra2] rd1] rd2] imm].
  cbn [latch_wreg orb andb]. rewrite andb_false_r. reflexivity.
Qed.

Lemma flow_hz_eq hz i s : flow_hz hz i s = flow i s.
Proof. unfold flow_hz, flow. rewrite stage_id_alone. reflexivity. Qed.

(* unfolds the four stages on the one occupied latch, keeping the ALU, the register file, the
   memory system and the ecall handler folded *)
Ltac expose :=
  unfold flow;
  cbv beta iota zeta delta
    [stage_id stage_ex stage_mem stage_wb lat_at nthZ nth Z.to_nat Pos.to_nat Pos.iter_op Init.Nat.add
     slot_if sl_instr sl_addr sl_ra1 sl_ra2 sl_rd1 sl_rd2 sl_imm sl_wreg sl_result sl_cmp sl_pcimm
     sl_exit sl_memdata sl_wdata sl_flush sl_stall sl_saved
     access_rf write_reg signals sig sig_default c_src1 c_src2 c_wb c_branch c_jump c_alu_to_pc
     alu_compute memory_access write_back is_ecall is_btype is_jal flush_of nonempty
     andb orb latch_wreg opt_eqb].

Lemma flow_IR o rd rs1 rs2 s :
  flow (IR o rd rs1 rs2) s =
  (rset (with_icount s (icount s + 1)) rd (U32 (r_alu o (rget s rs1) (rget s rs2))), None, None).
Proof. reflexivity. Qed.

Lemma flow_II o rd rs1 imm s :
  flow (II o rd rs1 imm) s =
  (rset (with_icount s (icount s + 1)) rd (U32 (i_alu o (rget s rs1) imm)), None, None).
Proof. reflexivity. Qed.

Lemma flow_ISh o rd rs1 imm s :
  flow (ISh o rd rs1 imm) s =
  (rset (with_icount s (icount s + 1)) rd (U32 (sh_alu o (rget s rs1) imm)), None, None).
Proof. reflexivity. Qed.

Lemma flow_ILoad o rd rs1 imm s :
  flow (ILoad o rd rs1 imm) s =
  match st_read s (load_bits o) (U32 (rget s rs1) + imm) true with
  | (Ok v, s') =>
      (rset (with_icount s' (icount s' + 1)) rd
         (U32 (match o with LB => I8 v | LH => I16 v | _ => v end)), None, None)
  | (Err e, s') => (s', None, Some e)
  end.
Proof.
  expose. destruct (st_read s (load_bits o) (U32 (rget s rs1) + imm) true) as [[v|e] s']; reflexivity.
Qed.

Lemma flow_IJalr rd rs1 imm s :
  flow (IJalr rd rs1 imm) s =
  (rset (with_icount s (icount s + 1)) rd (U32 (pc s + 4)),
   Some (Z.land (rget s rs1 + imm) (2 ^ 32 - 2)), None).
Proof. reflexivity. Qed.

Lemma flow_IEcall s :
  flow IEcall s =
  match process_ecall s with
  | (Ok (EPrint t), s') => (with_icount (with_out s' (out s' ++ t)) (icount s' + 1), None, None)
  | (Ok (EExit c), s') => (with_exit (with_icount s' (icount s' + 1)) (Some c), Some (pc s + 4), None)
  | (Err e, s') => (s', None, Some e)
  end.
Proof.
  expose. destruct (process_ecall s) as [[[t|c]|e] s']; reflexivity.
Qed.

Lemma flow_IStore o rs1 rs2 imm s :
  flow (IStore o rs1 rs2 imm) s =
  match st_write s (store_bits o) (rget s rs1 + imm)
          (U (store_bits o) (U (store_bits o) (rget s rs2))) false with
  | (None, s') => (with_icount s' (icount s' + 1), None, None)
  | (Some e, s') => (s', None, Some e)
  end.
Proof.
  expose.
  destruct (st_write s (store_bits o) (rget s rs1 + imm)
              (U (store_bits o) (U (store_bits o) (rget s rs2))) false) as [[e|] s']; reflexivity.
Qed.

Lemma flow_IBranch o rs1 rs2 imm s :
  flow (IBranch o rs1 rs2 imm) s =
  if b_alu o (rget s rs1) (rget s rs2)
  then (with_icount (with_bcount s (bcount s + 1)) (icount s + 1), Some (imm + pc s), None)
  else (with_icount s (icount s + 1), None, None).
Proof.
  expose. destruct (b_alu o (rget s rs1) (rget s rs2)); reflexivity.
Qed.

Lemma flow_ILui rd imm s :
  flow (ILui rd imm) s =
  (rset (with_icount s (icount s + 1)) rd (U32 (Z.shiftl imm 12)), None, None).
Proof. reflexivity. Qed.

Lemma flow_IAuipc rd imm s :
  flow (IAuipc rd imm) s =
  (rset (with_icount s (icount s + 1)) rd (U32 (pc s + Z.shiftl imm 12)), None, None).
Proof. reflexivity. Qed.

Lemma flow_IJal rd imm ab s :
  flow (IJal rd imm ab) s =
  (rset (with_icount (with_pcount s (pcount s + 1)) (icount s + 1)) rd (U32 (pc s + 4)),
   Some (imm + pc s), None).
Proof. reflexivity. Qed.

(* the unsupported classes, for the record: the two machines raise different things *)
Lemma flow_IEbreak s : flow IEbreak s = (with_icount s (icount s + 1), None, Some (EOther 7)).
Proof. reflexivity. Qed.
Lemma flow_IFence s : flow IFence s = (with_icount s (icount s + 1), None, None).
Proof. reflexivity. Qed.
Lemma flow_ICsr o rd c r s : flow (ICsr o rd c r) s = (with_icount s (icount s + 1), None, None).
Proof. reflexivity. Qed.
Lemma flow_ICsri o rd c u s : flow (ICsri o rd c u) s = (with_icount s (icount s + 1), None, None).
Proof. reflexivity. Qed.

(** * 4. Agreement *)

(* a register write commutes with the bookkeeping the pipeline does around it *)
Lemma rset_frame s n rd v :
  rset (with_icount s n) rd v = with_icount (with_pc (rset s rd v) (pc s)) n.
Proof. unfold rset. destruct ((0 <? rd) && (rd <? 32)); destruct s; reflexivity. Qed.

Lemma icount_rset s rd v : icount (rset s rd v) = icount s.
Proof. unfold rset. destruct (_ && _); reflexivity. Qed.

Lemma st_eta s : with_icount (with_pc s (pc s)) (icount s) = s.
Proof. destruct s; reflexivity. Qed.

(* compact form: the pipeline's final state is behavior()'s with the pc left alone and the
   instruction counted; a fault leaves literally the same state *)
Lemma split_core i s :
  wf_instr i -> wf_regs (regs s) -> mem_words_ok (ms s) -> supported i = true ->
  match behavior i s with
  | (s_b, None) =>
      exists r, flow i s = (with_icount (with_pc s_b (pc s)) (icount s + 1), r, None) /\
                next_pc s r = pc s_b + 4 /\ icount s_b = icount s
  | (s_b, Some e) => flow i s = (s_b, None, Some e)
  end.
Proof.
  intros Hi [Hr _] Hm Hs.
  assert (Hreg : forall r, in32 (rget s r)) by (intros r; apply Hr).
  destruct i; cbn [supported] in Hs; try discriminate Hs; cbn [behavior wf_instr] in *.
  - (* R *)
    exists None. rewrite flow_IR, r_alu_agrees by apply Hreg. rewrite rset_frame.
    cbn [next_pc]. rewrite pc_rset, icount_rset. auto.
  - (* I *)
    exists None. rewrite flow_II, i_alu_agrees by apply Hreg. rewrite rset_frame.
    cbn [next_pc]. rewrite pc_rset, icount_rset. auto.
  - (* shift *)
    destruct Hi as (_ & _ & Hsh).
    exists None. rewrite flow_ISh, sh_alu_agrees by (try apply Hreg; exact Hsh). rewrite rset_frame.
    cbn [next_pc]. rewrite pc_rset, icount_rset. auto.
  - (* load *)
    rewrite flow_ILoad. rewrite (U32_id (rget s rs1)) by apply Hreg.
    destruct (st_read s (load_bits o) (rget s rs1 + imm) true) as [[v|e] s'] eqn:E; [|reflexivity].
    pose proof (st_read_mframe _ _ _ _ _ _ E) as F.
    exists None. rewrite load_raw_agrees.
    + rewrite rset_frame. cbn [next_pc].
      rewrite pc_rset, icount_rset, (mframe_pc _ _ F), (mframe_icount _ _ F). auto.
    + intros ->. cbn [load_bits] in E. eapply st_read_word_in32; [exact Hm | exact E].
  - (* jalr *)
    destruct Hi as (_ & _ & Himm).
    exists (Some (Z.land (rget s rs1 + imm) (2 ^ 32 - 2))). rewrite flow_IJalr, rset_frame.
    cbn [next_pc pc with_pc icount]. rewrite icount_rset.
    split; [reflexivity|]. split; [|reflexivity].
    rewrite (jalr_agrees _ _ Himm). lia.
  - (* ecall *)
    rewrite flow_IEcall.
    destruct (process_ecall s) as [[[t|c]|e] s'] eqn:E; [| |reflexivity];
      pose proof (process_ecall_mframe _ _ _ E) as F;
      pose proof (mframe_pc _ _ F) as Fp; pose proof (mframe_icount _ _ F) as Fi.
    + exists None. cbn [next_pc pc with_out icount]. rewrite Fp, Fi.
      split; [|auto]. destruct s'; cbn in *; subst; reflexivity.
    + exists (Some (pc s + 4)). cbn [next_pc pc with_exit icount]. rewrite Fp, Fi.
      split; [|auto]. destruct s'; cbn in *; subst; reflexivity.
  - (* store *)
    rewrite flow_IStore, U_idem.
    rewrite (st_write_cong s _ (U32 (rget s rs1 + U32 imm)) (rget s rs1 + imm))
      by apply store_addr_wrap.
    destruct (st_write s (store_bits o) (rget s rs1 + imm) (U (store_bits o) (rget s rs2)) false)
      as [[e|] s'] eqn:E; [reflexivity|].
    pose proof (st_write_mframe _ _ _ _ _ _ _ E) as F.
    exists None. cbn [next_pc]. rewrite <- (mframe_pc _ _ F), <- (mframe_icount _ _ F).
    split; [destruct s'; reflexivity | auto].
  - (* branch *)
    rewrite flow_IBranch.
    change (b_alu o (rget s rs1) (rget s rs2)) with (b_cond o (rget s rs1) (rget s rs2)).
    destruct (b_cond o (rget s rs1) (rget s rs2)).
    + exists (Some (imm + pc s)). cbn [next_pc pc with_pc with_bcount icount].
      split; [destruct s; reflexivity|]. split; [lia | reflexivity].
    + exists None. cbn [next_pc]. split; [destruct s; reflexivity | auto].
  - (* lui *)
    exists None. rewrite flow_ILui, rset_frame. cbn [next_pc]. rewrite pc_rset, icount_rset. auto.
  - (* auipc *)
    exists None. rewrite flow_IAuipc, rset_frame. cbn [next_pc]. rewrite pc_rset, icount_rset. auto.
  - (* jal *)
    exists (Some (imm + pc s)). rewrite flow_IJal.
    cbn [next_pc pc with_pc with_pcount icount]. rewrite pc_rset, icount_rset.
    split; [|split; [lia | reflexivity]].
    unfold rset. destruct ((0 <? rd) && (rd <? 32)); destruct s; reflexivity.
Qed.

Lemma split_agrees_lem : forall i s,
  wf_instr i -> wf_regs (regs s) -> mem_words_ok (ms s) -> supported i = true ->
  let '(s_b, err_b) := behavior i s in
  let '(s_f, redirect, err_f) := flow i s in
  err_f = err_b /\
  match err_b with
  | None =>
      regs s_f = regs s_b /\ ms s_f = ms s_b /\ out s_f = out s_b /\ exitc s_f = exitc s_b /\
      cycles s_f = cycles s_b /\ bcount s_f = bcount s_b /\ pcount s_f = pcount s_b /\
      im s_f = im s_b /\ stalls s_f = stalls s_b /\ flushes s_f = flushes s_b /\
      icount s_f = icount s + 1 /\ icount s_b = icount s /\
      pc s_f = pc s /\ next_pc s redirect = pc s_b + 4
  | Some _ => s_f = s_b /\ redirect = None
  end.
Proof.
  intros i s Hi Hr Hm Hs. pose proof (split_core i s Hi Hr Hm Hs) as X.
  destruct (behavior i s) as [s_b [e|]].
  - rewrite X. auto.
  - destruct X as (r & -> & Hn & Hc). cbn. repeat split; auto.
Qed.

(* the statement with the pc hypothesis of the property (not needed, see above) *)
Lemma split_agrees_pc : forall i s,
  wf_instr i -> wf_regs (regs s) -> mem_words_ok (ms s) -> 0 <= pc s < 2 ^ 14 -> supported i = true ->
  let '(s_b, err_b) := behavior i s in
  let '(s_f, redirect, err_f) := flow i s in
  err_f = err_b /\
  match err_b with
  | None =>
      regs s_f = regs s_b /\ ms s_f = ms s_b /\ out s_f = out s_b /\ exitc s_f = exitc s_b /\
      cycles s_f = cycles s_b /\ bcount s_f = bcount s_b /\ pcount s_f = pcount s_b /\
      icount s_f = icount s + 1 /\
      U32 (next_pc s redirect) = U32 (pc s_b + 4)
  | Some _ => regs s_f = regs s_b /\ ms s_f = ms s_b /\ out s_f = out s_b
  end.
Proof.
  intros i s Hi Hr Hm _ Hs. pose proof (split_agrees_lem i s Hi Hr Hm Hs) as X.
  destruct (behavior i s) as [s_b [e|]]; destruct (flow i s) as [[s_f r] ef].
  - destruct X as (-> & -> & _). auto.
  - destruct X as (-> & X). repeat split; try apply X.
    f_equal. apply X.
Qed.

(** * 5. Corollaries *)

(* D1: the JALR redirect is the 32-bit wrapped sum with bit 0 cleared *)
Lemma jalr_target_wraps_lem : forall rd rs1 imm s,
  flow_redirect (IJalr rd rs1 imm) s = Some (2 * (((rget s rs1 + imm) mod 2 ^ 32) / 2)).
Proof.
  intros. unfold flow_redirect. rewrite flow_IJalr. cbn [fst snd].
  rewrite land_clear_bit0. reflexivity.
Qed.

Lemma jalr_target_in32 : forall rd rs1 imm s a,
  flow_redirect (IJalr rd rs1 imm) s = Some a -> in32 a /\ a mod 2 = 0.
Proof.
  intros rd rs1 imm s a H. rewrite jalr_target_wraps_lem in H. injection H as <-.
  change (2 ^ 32) with 4294967296. unfold in32. lia.
Qed.

Lemma jalr_target_behavior : forall rd rs1 imm s, -2048 <= imm < 2048 ->
  flow_redirect (IJalr rd rs1 imm) s = Some (pc (fst (behavior (IJalr rd rs1 imm) s)) + 4).
Proof.
  intros rd rs1 imm s Hi. unfold flow_redirect. rewrite flow_IJalr.
  cbn [fst snd behavior pc with_pc]. rewrite (jalr_agrees _ _ Hi). f_equal. lia.
Qed.

(* a branch redirects exactly when the reference condition holds, to pc + imm *)
Lemma branch_redirect_lem : forall o rs1 rs2 imm s, wf_regs (regs s) ->
  let taken := spec_cond o (rget s rs1) (rget s rs2) in
  flow_redirect (IBranch o rs1 rs2 imm) s = (if taken then Some (pc s + imm) else None) /\
  bcount (flow_state (IBranch o rs1 rs2 imm) s) = bcount s + (if taken then 1 else 0) /\
  flow_err (IBranch o rs1 rs2 imm) s = None.
Proof.
  intros o rs1 rs2 imm s [Hr _]. cbv zeta.
  unfold flow_redirect, flow_state, flow_err. rewrite flow_IBranch.
  change (b_alu o (rget s rs1) (rget s rs2)) with (b_cond o (rget s rs1) (rget s rs2)).
  rewrite b_cond_spec by apply Hr.
  destruct (spec_cond o (rget s rs1) (rget s rs2)); cbn [fst snd bcount with_icount with_bcount].
  - split; [f_equal; lia | split; reflexivity].
  - split; [reflexivity | split; [lia | reflexivity]].
Qed.

Lemma branch_redirect_iff_taken_lem : forall o rs1 rs2 imm s, wf_regs (regs s) ->
  (flow_redirect (IBranch o rs1 rs2 imm) s <> None <->
   spec_cond o (rget s rs1) (rget s rs2) = true) /\
  (forall a, flow_redirect (IBranch o rs1 rs2 imm) s = Some a -> a = pc s + imm).
Proof.
  intros o rs1 rs2 imm s W. destruct (branch_redirect_lem o rs1 rs2 imm s W) as (-> & _).
  destruct (spec_cond o (rget s rs1) (rget s rs2)); split.
  - split; [reflexivity | discriminate].
  - intros a H. injection H as <-. reflexivity.
  - split; [intros H; exfalso; apply H; reflexivity | discriminate].
  - discriminate.
Qed.

(* loads: MEM hands on a raw, possibly negative integer; WB's UInt32 of it is the reference's
   sign / zero extension *)
Lemma load_value_agrees_lem : forall o rd rs1 imm a s v s',
  st_read s (load_bits o) a true = (Ok v, s') -> 0 <= v < 2 ^ load_bits o ->
  let raw := match o with LB => I8 v | LH => I16 v | _ => v end in
  memory_access (ILoad o rd rs1 imm) (Some a) None s = (Ok (Some raw), s') /\
  U32 raw = load_ext o v /\ U32 raw = lop_value o v /\
  (raw < 0 <-> (o = LB /\ 128 <= v) \/ (o = LH /\ 32768 <= v)).
Proof.
  intros o rd rs1 imm a s v s' E Hv. cbv zeta.
  split; [cbn [memory_access]; rewrite E; reflexivity|].
  assert (H1 : U32 (match o with LB => I8 v | LH => I16 v | _ => v end) = load_ext o v).
  { apply load_raw_agrees. intros ->. exact Hv. }
  split; [exact H1|]. split; [rewrite H1; apply load_ext_spec; exact Hv|].
  destruct o; cbn [load_bits] in Hv; rewrite ?I8_eq, ?I16_eq; cbv zeta;
    change (2 ^ 8) with 256 in *; change (2 ^ 16) with 65536 in *;
    change (2 ^ 32) with 4294967296 in *.
  - destruct (v mod 256 <? 128) eqn:Ev;
      (split; [intros H; left; split; [reflexivity | lia]
              | intros [[_ H]|[H _]]; [lia | discriminate H]]).
  - destruct (v mod 65536 <? 32768) eqn:Ev;
      (split; [intros H; right; split; [reflexivity | lia]
              | intros [[H _]|[_ H]]; [discriminate H | lia]]).
  - split; [lia | intros [[H _]|[H _]]; discriminate].
  - split; [lia | intros [[H _]|[H _]]; discriminate].
  - split; [lia | intros [[H _]|[H _]]; discriminate].
Qed.

(* stores: both machines perform the same write — address wrapped to 32 bits, value masked to the
   access width (the pipeline masks twice, in ID and in MEM) *)
Lemma store_masks_agree_lem : forall o rs1 rs2 imm s,
  let w := st_write s (store_bits o) (U32 (rget s rs1 + imm))
             (rget s rs2 mod 2 ^ store_bits o) false in
  behavior (IStore o rs1 rs2 imm) s = (snd w, fst w) /\
  flow (IStore o rs1 rs2 imm) s =
    match w with
    | (None, s') => (with_icount s' (icount s' + 1), None, None)
    | (Some e, s') => (s', None, Some e)
    end.
Proof.
  intros o rs1 rs2 imm s. cbv zeta. change (rget s rs2 mod 2 ^ store_bits o) with (U (store_bits o) (rget s rs2)).
  split.
  - cbn [behavior].
    rewrite (st_write_cong s _ (U32 (rget s rs1 + U32 imm)) (U32 (rget s rs1 + imm)))
      by (rewrite store_addr_wrap; symmetry; apply U32_idem).
    destruct (st_write s (store_bits o) (U32 (rget s rs1 + imm)) (U (store_bits o) (rget s rs2)) false)
      as [[e|] s']; reflexivity.
  - rewrite flow_IStore, U_idem.
    rewrite (st_write_cong s _ (rget s rs1 + imm) (U32 (rget s rs1 + imm)))
      by (symmetry; apply U32_idem).
    reflexivity.
Qed.

(* registers: only the destination register can change, and never x0 *)
Lemma mget_rset s rd v k : k = 0 \/ k <> rd -> mget (regs (rset s rd v)) k = mget (regs s) k.
Proof.
  intros Hk. unfold rset. destruct ((0 <? rd) && (rd <? 32)) eqn:E; [|reflexivity].
  cbn [regs with_regs]. apply mget_mset_neq. lia.
Qed.

Lemma flow_regs_frame : forall i s k, k = 0 \/ write_reg i <> Some k ->
  mget (regs (flow_state i s)) k = mget (regs s) k.
Proof.
  intros i s k Hk. unfold flow_state.
  assert (Hk' : forall rd, write_reg i = Some rd -> k = 0 \/ k <> rd).
  { intros rd E. destruct Hk as [->|Hk]; [left; reflexivity|].
    right. intros ->. apply Hk. exact E. }
  destruct i; cbn [write_reg] in Hk'.
  - rewrite flow_IR. cbn [fst]. rewrite mget_rset by (apply Hk'; reflexivity). reflexivity.
  - rewrite flow_II. cbn [fst]. rewrite mget_rset by (apply Hk'; reflexivity). reflexivity.
  - rewrite flow_ISh. cbn [fst]. rewrite mget_rset by (apply Hk'; reflexivity). reflexivity.
  - rewrite flow_ILoad.
    destruct (st_read s (load_bits o) (U32 (rget s rs1) + imm) true) as [[v|e] s'] eqn:E;
      pose proof (mframe_regs _ _ (st_read_mframe _ _ _ _ _ _ E)) as F; cbn [fst].
    + rewrite mget_rset by (apply Hk'; reflexivity). cbn [regs with_icount]. rewrite F. reflexivity.
    + rewrite F. reflexivity.
  - rewrite flow_IJalr. cbn [fst]. rewrite mget_rset by (apply Hk'; reflexivity). reflexivity.
  - rewrite flow_IEcall.
    destruct (process_ecall s) as [[[t|c]|e] s'] eqn:E;
      pose proof (mframe_regs _ _ (process_ecall_mframe _ _ _ E)) as F; cbn [fst];
      cbn [regs with_icount with_out with_exit]; rewrite F; reflexivity.
  - rewrite flow_IEbreak. reflexivity.
  - rewrite flow_IStore.
    destruct (st_write s (store_bits o) (rget s rs1 + imm) _ false) as [[e|] s'] eqn:E;
      pose proof (mframe_regs _ _ (st_write_mframe _ _ _ _ _ _ _ E)) as F; cbn [fst];
      cbn [regs with_icount]; rewrite F; reflexivity.
  - rewrite flow_IBranch. destruct (b_alu o (rget s rs1) (rget s rs2)); reflexivity.
  - rewrite flow_ILui. cbn [fst]. rewrite mget_rset by (apply Hk'; reflexivity). reflexivity.
  - rewrite flow_IAuipc. cbn [fst]. rewrite mget_rset by (apply Hk'; reflexivity). reflexivity.
  - rewrite flow_IJal. cbn [fst]. rewrite mget_rset by (apply Hk'; reflexivity). reflexivity.
  - rewrite flow_IFence. reflexivity.
  - rewrite flow_ICsr. reflexivity.
  - rewrite flow_ICsri. reflexivity.
Qed.

Lemma x0_never_written_lem : forall i s, mget (regs (flow_state i s)) 0 = mget (regs s) 0.
Proof. intros i s. apply flow_regs_frame. left. reflexivity. Qed.

(* the register file stays well-formed across a supported instruction *)
Lemma flow_wf_regs : forall i s, wf_regs (regs s) -> wf_regs (regs (flow_state i s)).
Proof.
  intros i s [Hr H0].
  assert (R : forall s0 rd v, regs s0 = regs s -> wf_regs (regs (rset s0 rd (U32 v)))).
  { intros s0 rd v E. unfold rset. destruct ((0 <? rd) && (rd <? 32)) eqn:Erd; cbn [regs with_regs].
    - rewrite E. apply wf_regs_set; [split; assumption | apply U32_range | lia].
    - rewrite E. split; assumption. }
  unfold flow_state. destruct i.
  - rewrite flow_IR. apply R. reflexivity.
  - rewrite flow_II. apply R. reflexivity.
  - rewrite flow_ISh. apply R. reflexivity.
  - rewrite flow_ILoad.
    destruct (st_read s (load_bits o) (U32 (rget s rs1) + imm) true) as [[v|e] s'] eqn:E;
      pose proof (mframe_regs _ _ (st_read_mframe _ _ _ _ _ _ E)) as F; cbn [fst].
    + apply R. exact F.
    + rewrite F. split; assumption.
  - rewrite flow_IJalr. apply R. reflexivity.
  - rewrite flow_IEcall.
    destruct (process_ecall s) as [[[t|c]|e] s'] eqn:E;
      pose proof (mframe_regs _ _ (process_ecall_mframe _ _ _ E)) as F; cbn [fst];
      cbn [regs with_icount with_out with_exit]; rewrite F; split; assumption.
  - rewrite flow_IEbreak. split; assumption.
  - rewrite flow_IStore.
    destruct (st_write s (store_bits o) (rget s rs1 + imm) _ false) as [[e|] s'] eqn:E;
      pose proof (mframe_regs _ _ (st_write_mframe _ _ _ _ _ _ _ E)) as F; cbn [fst];
      cbn [regs with_icount]; rewrite F; split; assumption.
  - rewrite flow_IBranch. destruct (b_alu o (rget s rs1) (rget s rs2)); split; assumption.
  - rewrite flow_ILui. apply R. reflexivity.
  - rewrite flow_IAuipc. apply R. reflexivity.
  - rewrite flow_IJal. apply R. reflexivity.
  - rewrite flow_IFence. split; assumption.
  - rewrite flow_ICsr. split; assumption.
  - rewrite flow_ICsri. split; assumption.
Qed.

(** * 6. The cache-word invariant is preserved (so the hypotheses of the agreement theorem hold
      again after the instruction, and instructions can be chained) *)

Lemma Forall_set_nth {A} (P : A -> Prop) (l : list A) x : Forall P l -> P x ->
  forall n, Forall P (set_nth l n x).
Proof.
  intros Hl Hx. induction Hl as [|y t Hy Ht IH]; intros [|n]; cbn [set_nth]; constructor; auto.
Qed.

Lemma get_set_ok c i : cache_words_ok c -> set_words_ok (get_set c i).
Proof. intros Hc. unfold get_set. apply Forall_nthZ; [exact Hc | constructor]. Qed.

Lemma put_set_ok c i cs : cache_words_ok c -> set_words_ok cs -> cache_words_ok (put_set Z c i cs).
Proof.
  intros Hc Hs. unfold cache_words_ok, put_set, set_nthZ. cbn [sets].
  apply Forall_set_nth; assumption.
Qed.

Lemma cache_read_block_ok c da ob c' : cache_words_ok c ->
  cache_read_block c da = (ob, c') -> cache_words_ok c'.
Proof.
  intros Hc. unfold cache_read_block.
  destruct (find_block (blocks (get_set c (da_idx da))) (da_tag da) 0) as [bi|]; intros H;
    injection H as _ <-; [|exact Hc].
  apply put_set_ok; [exact Hc|]. exact (get_set_ok c (da_idx da) Hc).
Qed.

Lemma cache_write_block_ok c da v h disp c' : cache_words_ok c -> Forall in32 v ->
  cache_write_block c da v = (h, disp, c') -> cache_words_ok c'.
Proof.
  intros Hc Hv. unfold cache_write_block.
  pose proof (get_set_ok c (da_idx da) Hc) as Hs.
  destruct (find_block (blocks (get_set c (da_idx da))) (da_tag da) 0) as [bi|]; intros H;
    injection H as _ _ <-; apply put_set_ok; try exact Hc;
    unfold set_words_ok, set_nthZ; cbn [blocks]; apply Forall_set_nth; try exact Hs; exact Hv.
Qed.

Lemma into_block_ok nb da blk v blk' : Forall in32 blk -> (nb <> 8 -> nb <> 16 -> in32 v) ->
  into_block nb da blk v = Ok blk' -> Forall in32 blk'.
Proof.
  intros Hb Hv. unfold into_block, set_nthZ.
  destruct (nb =? 8) eqn:E8.
  { intros H. injection H as <-. apply Forall_set_nth; [exact Hb | apply U32_range]. }
  destruct (nb =? 16) eqn:E16.
  { destruct (da_byoff da >? 2); [discriminate|].
    intros H. injection H as <-. apply Forall_set_nth; [exact Hb | apply U32_range]. }
  destruct (negb (da_byoff da =? 0)); [discriminate|].
  intros H. injection H as <-. apply Forall_set_nth; [exact Hb | apply Hv; lia].
Qed.

Lemma dc_read_block_ok d da r d' : cache_words_ok (dc d) ->
  dc_read_block d da = (r, d') -> cache_words_ok (dc d').
Proof.
  intros Hc. unfold dc_read_block.
  destruct (cache_read_block (dc d) da) as [[vb|] c1] eqn:Ec.
  - intros H. injection H as _ <-. cbn [dc upd_dc]. eapply cache_read_block_ok; [exact Hc | exact Ec].
  - destruct (read_words (lower d) (da_balign da) (block_words d)) as [ws|e] eqn:Ew.
    + destruct (cache_write_block (dc d) da ws) as [[h disp] c2] eqn:Ecw.
      intros H. injection H as _ <-.
      assert (Hc2 : cache_words_ok c2).
      { eapply cache_write_block_ok; [exact Hc | eapply read_words_in32; exact Ew | exact Ecw]. }
      destruct disp as [[ba ws']|]; [destruct (wthrough d)|]; exact Hc2.
    + intros H. injection H as _ <-. exact Hc.
Qed.

Lemma dc_read_ok d nb a cnt r d' p : cache_words_ok (dc d) ->
  dc_read d nb a cnt = (r, d', p) -> cache_words_ok (dc d').
Proof.
  intros Hc. unfold dc_read.
  destruct (dc_read_block d (cdecode (dc d) a)) as [[[blk hit]|e] d1] eqn:Eb;
    pose proof (dc_read_block_ok _ _ _ _ Hc Eb) as H1.
  - destruct cnt; cbn [upd_stats]; intros H; injection H as _ <- _; exact H1.
  - intros H. injection H as _ <- _. exact H1.
Qed.

Lemma dc_write_ok d nb a v dir e d' p : cache_words_ok (dc d) -> (nb <> 8 -> nb <> 16 -> in32 v) ->
  dc_write d nb a v dir = (e, d', p) -> cache_words_ok (dc d').
Proof.
  intros Hc Hv. unfold dc_write. set (da := cdecode (dc d) a).
  destruct dir.
  { destruct (mem_write rv_memcfg (lower d) nb a v) as [m' e0]. intros H. injection H as _ <- _. exact Hc. }
  destruct (wthrough d).
  - destruct ((nb =? 16) && (da_byoff da >? 2)); [intros H; injection H as _ <- _; exact Hc|].
    destruct ((nb =? 32) && negb (da_byoff da =? 0)); [intros H; injection H as _ <- _; exact Hc|].
    destruct (cache_read_block (dc d) da) as [ob c1] eqn:Ec.
    pose proof (cache_read_block_ok _ _ _ _ Hc Ec) as Hc1.
    cbn [upd_stats].
    destruct ob as [blk|].
    + assert (Hblk : Forall in32 blk) by (eapply cache_read_block_in32; [exact Hc | exact Ec]).
      destruct (into_block nb da blk v) as [blk'|e0] eqn:Ei.
      * cbn [dc upd_dc].
        destruct (cache_write_block c1 da blk') as [[h disp] c2] eqn:Ecw.
        destruct (mem_write rv_memcfg _ nb a v) as [m' e1]. intros H. injection H as _ <- _.
        cbn [dc upd_lower upd_dc].
        eapply cache_write_block_ok; [exact Hc1 | eapply into_block_ok; [exact Hblk | exact Hv | exact Ei] | exact Ecw].
      * intros H. injection H as _ <- _. exact Hc1.
    + destruct (mem_write rv_memcfg _ nb a v) as [m' e1]. intros H. injection H as _ <- _. exact Hc1.
  - destruct (cache_read_block (dc d) da) as [ob c1] eqn:Ec.
    pose proof (cache_read_block_ok _ _ _ _ Hc Ec) as Hc1.
    assert (Hf : forall blk, match ob with
                             | Some b => Ok b
                             | None => read_words (lower (upd_dc d c1)) (da_balign da) (block_words (upd_dc d c1))
                             end = Ok blk -> Forall in32 blk).
    { intros blk. destruct ob as [b|].
      - intros H. injection H as <-. eapply cache_read_block_in32; [exact Hc | exact Ec].
      - apply read_words_in32. }
    destruct (match ob with Some b => Ok b | None => _ end) as [blk|e0];
      [|intros H; injection H as _ <- _; exact Hc1].
    specialize (Hf blk eq_refl).
    destruct (into_block nb da blk v) as [blk'|e0] eqn:Ei; [|intros H; injection H as _ <- _; exact Hc1].
    cbn [dc upd_dc].
    destruct (cache_write_block c1 da blk') as [[h disp] c2] eqn:Ecw.
    assert (Hc2 : cache_words_ok c2).
    { eapply cache_write_block_ok; [exact Hc1 | eapply into_block_ok; [exact Hf | exact Hv | exact Ei] | exact Ecw]. }
    cbn [upd_stats]. intros H. injection H as _ <- _.
    destruct disp as [[ba ws]|]; exact Hc2.
Qed.

Lemma st_read_ok s nb a cnt r s' : mem_words_ok (ms s) -> st_read s nb a cnt = (r, s') -> mem_words_ok (ms s').
Proof.
  unfold st_read, ms_read. destruct (ms s) as [fm|d]; intros Hok H.
  - injection H as _ <-. exact Logic.I.
  - destruct (dc_read d nb a cnt) as [[r0 d'] p] eqn:E. injection H as _ <-.
    cbn [ms with_cycles with_ms mem_words_ok]. eapply dc_read_ok; [exact Hok | exact E].
Qed.

Lemma st_write_ok s nb a v dir e s' : mem_words_ok (ms s) -> (nb <> 8 -> nb <> 16 -> in32 v) ->
  st_write s nb a v dir = (e, s') -> mem_words_ok (ms s').
Proof.
  unfold st_write, ms_write. destruct (ms s) as [fm|d]; intros Hok Hv H.
  - destruct (mem_write rv_memcfg fm nb a v) as [m' e0]. injection H as _ <-. exact Logic.I.
  - destruct (dc_write d nb a v dir) as [[e0 d'] p] eqn:E. injection H as _ <-.
    cbn [ms with_cycles with_ms mem_words_ok]. eapply dc_write_ok; [exact Hok | exact Hv | exact E].
Qed.

Lemma read_cstring_ok f : forall s a acc r s', mem_words_ok (ms s) ->
  read_cstring f s a acc = (r, s') -> mem_words_ok (ms s').
Proof.
  induction f as [|f IH]; intros s a acc r s' Hok H; cbn [read_cstring] in H.
  - injection H as _ <-. exact Hok.
  - destruct (st_read s 8 a false) as [[b|e] s1] eqn:E;
      pose proof (st_read_ok _ _ _ _ _ _ Hok E) as H1.
    + destruct (b =? 0); [injection H as _ <-; exact H1 | eapply IH; [exact H1 | exact H]].
    + injection H as _ <-. exact H1.
Qed.

Lemma process_ecall_ok s r s' : mem_words_ok (ms s) -> process_ecall s = (r, s') -> mem_words_ok (ms s').
Proof.
  unfold process_ecall. intros Hok H.
  repeat match type of H with
         | (if ?c then _ else _) = _ => destruct c
         end;
    try (injection H as _ <-; exact Hok).
  destruct (read_cstring (cstring_fuel s) s (rget s 10) []) as [[t|e] s1] eqn:E;
    injection H as _ <-; eapply read_cstring_ok; [exact Hok | exact E | exact Hok | exact E].
Qed.

Lemma ms_rset_any s rd v : ms (rset s rd v) = ms s.
Proof. unfold rset. destruct (_ && _); reflexivity. Qed.

Lemma flow_words_ok : forall i s, mem_words_ok (ms s) -> mem_words_ok (ms (flow_state i s)).
Proof.
  intros i s Hok. unfold flow_state. destruct i.
  - rewrite flow_IR. cbn [fst]. rewrite ms_rset_any. exact Hok.
  - rewrite flow_II. cbn [fst]. rewrite ms_rset_any. exact Hok.
  - rewrite flow_ISh. cbn [fst]. rewrite ms_rset_any. exact Hok.
  - rewrite flow_ILoad.
    destruct (st_read s (load_bits o) (U32 (rget s rs1) + imm) true) as [[v|e] s'] eqn:E;
      pose proof (st_read_ok _ _ _ _ _ _ Hok E) as H1; cbn [fst]; [rewrite ms_rset_any|]; exact H1.
  - rewrite flow_IJalr. cbn [fst]. rewrite ms_rset_any. exact Hok.
  - rewrite flow_IEcall.
    destruct (process_ecall s) as [[[t|c]|e] s'] eqn:E;
      pose proof (process_ecall_ok _ _ _ Hok E) as H1; exact H1.
  - rewrite flow_IEbreak. exact Hok.
  - rewrite flow_IStore.
    destruct (st_write s (store_bits o) (rget s rs1 + imm) _ false) as [[e|] s'] eqn:E; cbn [fst];
      change (mem_words_ok (ms s'));
      (eapply st_write_ok; [exact Hok | | exact E]);
      intros H8 H16; destruct o; cbn [store_bits] in *; try contradiction; apply (U32_range _).
  - rewrite flow_IBranch. destruct (b_alu o (rget s rs1) (rget s rs2)); exact Hok.
  - rewrite flow_ILui. cbn [fst]. rewrite ms_rset_any. exact Hok.
  - rewrite flow_IAuipc. cbn [fst]. rewrite ms_rset_any. exact Hok.
  - rewrite flow_IJal. cbn [fst]. rewrite ms_rset_any. exact Hok.
  - rewrite flow_IFence. exact Hok.
  - rewrite flow_ICsr. exact Hok.
  - rewrite flow_ICsri. exact Hok.
Qed.

(* a freshly initialised cache satisfies the invariant *)
Lemma cache_init_words_ok c : cache_words_ok (cache_init c).
Proof.
  unfold cache_words_ok, cache_init. cbn [sets].
  apply Forall_forall. intros cs Hin. apply repeat_spec in Hin. subst cs.
  unfold set_words_ok, empty_set. cbn [blocks].
  apply Forall_forall. intros b Hb. apply repeat_spec in Hb. subst b. constructor.
Qed.

Lemma init_words_ok m c wt pen : mem_words_ok (MFlat m) /\ mem_words_ok (MCache (dcache_init c wt pen)).
Proof. split; [exact Logic.I | apply cache_init_words_ok]. Qed.
