(* PipeRefine.v — stage 5 of the control-path proof of C02: from the one-step lemma
   ([inv_step_e], PipeInvEcall.v) to the refinement theorem for every program of supported
   instructions: liveness (the measure [mu4] bounds the cycles between two retirements by 5),
   the final cycle of an exiting ecall, and the assembly along [single_run]. *)
From Coq Require Import Lia ZifyBool Wf_nat.
From ArchSim Require Import Model.Base Model.Mem Model.Cache Model.Fmt Model.RV Model.Single
  Model.RVSplit Model.Pipe Proofs.WordLemmas Proofs.C01Step Proofs.SplitExec Proofs.C02Split
  Proofs.PipeLaws Proofs.PipeShape Proofs.PipeInv Proofs.PipeInvBase Proofs.PipeInvStages
  Proofs.PipeInvStraight Proofs.PipeInvControl Proofs.PipeInvEcall.
Open Scope Z_scope.

Ltac Zify.zify_post_hook ::= Z.to_euclidean_division_equations.
Local Arguments Z.mul : simpl never.
Local Arguments Z.add : simpl never.
Local Arguments Z.sub : simpl never.
Local Arguments Z.of_nat : simpl never.

Lemma mu4_bounds p : Shape no_icache p -> 0 <= mu4 p <= 4.
Proof.
  intros Sh. unfold mu4, dcount.
  destruct (shape_stalled no_icache p Sh) as [[-> _]|(k & d & sv & -> & _ & _ & Hd & _)];
    repeat match goal with |- context [if ?c then _ else _] => destruct c end; lia.
Qed.

Definition sim_goal4 (n : nat) (s : st) (p : pstate) : Prop :=
  match single_run n s with
  | (s', Done) => exists c p', Z.of_nat c <= 5 * Z.of_nat n + mu4 p /\
      pipe_run c p = (p', PDone) /\ arch_agree p' s' /\ pipe_trace c p = single_trace n s
  | (s', Faulted f) => exists c p', Z.of_nat c <= 5 * Z.of_nat n + mu4 p + 1 /\
      pipe_run c p = (p', PFaulted f) /\
      regs (pst p') = regs s' /\ ms (pst p') = ms s' /\ out (pst p') = out s'
  | (_, OutOfFuel) => True
  end.

Section Refine.
Variable P : list instr.
Hypothesis Hsup : Forall (fun i => supported i = true) P.

Lemma sim_done4 n s p : Inv P p s -> single_done s = true -> sim_goal4 n s p.
Proof.
  intros (l0 & l1 & l2 & l3 & l4 & dead & I) Hd. unfold sim_goal4.
  destruct (single_run_done n s Hd) as [-> ->].
  destruct (done_empty P _ _ _ _ _ _ _ _ I Hd) as [-> ->].
  exists 0%nat, p. pose proof (mu4_bounds p (iv_shape _ _ _ _ _ _ _ _ _ I)).
  split; [lia|]. split; [cbn [pipe_run]; rewrite (done_iff P _ _ _ _ _ _ _ _ I), Hd; reflexivity|].
  split; [eapply inv_empty_agree; eauto|reflexivity].
Qed.

(* the last cycle of an exiting ecall *)
Lemma sim_exiting n s p : Exiting P p s -> sim_goal4 n s p.
Proof.
  intros E. pose proof E as (l0 & x3 & l4 & _ & Sh & _).
  destruct (exiting_step P Hsup p s E) as (Hpd & Hsd & Hss & Hsd' & p' & Hps & Hpd' & Hag & Htr).
  pose proof (mu4_bounds p Sh) as Hmu. unfold sim_goal4.
  destruct n as [|k]; [cbn [single_run]; rewrite Hsd; exact Logic.I|].
  destruct (single_run_step k s _ Hsd Hss) as [-> ->].
  destruct (single_run_done k (nxt s) Hsd') as [-> ->].
  exists 1%nat, p'. split; [lia|].
  destruct (pipe_run_step 0 p p' Hpd Hps) as [-> ->]. cbn [pipe_run pipe_trace]. rewrite Hpd', Htr.
  split; [reflexivity|]. split; [exact Hag|reflexivity].
Qed.

(** * The simulation *)
Lemma sim4 n : forall s p, Inv P p s -> sim_goal4 n s p.
Proof.
  induction n as [|k IHk]; intros s p Hinv.
  { destruct (single_done s) eqn:Hd; [apply sim_done4; assumption|].
    unfold sim_goal4. cbn [single_run]. rewrite Hd. exact Logic.I. }
  remember (Z.to_nat (mu4 p)) as m eqn:Hm. revert p Hinv Hm.
  induction m as [m IHm] using lt_wf_ind. intros p Hinv Hm.
  destruct (single_done s) eqn:Hd; [apply sim_done4; assumption|].
  destruct Hinv as (l0 & l1 & l2 & l3 & l4 & dead & I).
  pose proof (iv_shape _ _ _ _ _ _ _ _ _ I) as Sh. pose proof (mu4_bounds p Sh) as Hmu.
  assert (Hpd : pipe_done p = false) by (rewrite (done_iff P _ _ _ _ _ _ _ _ I); exact Hd).
  pose proof (inv_step_e P Hsup _ _ _ _ _ _ _ _ I Hpd) as Hstep. unfold step_goal in Hstep.
  assert (H3 : forall x3, l3 = Some x3 ->
             single_pipeline_step s = (nxt s, None) /\ sl_addr x3 = pc s).
  { intros x3 ->. destruct (iv_l3 _ _ _ _ _ _ _ _ _ I) as (_ & (_ & Ha & _) & _ & Hok & _).
    split; [|exact Ha].
    unfold nxt. destruct (single_pipeline_step s) as [s' o]. cbn [snd fst] in *. rewrite Hok. reflexivity. }
  (* the state after the step, whichever of the two forms it has *)
  assert (Hboth : forall j t q, (Inv P q t \/ Exiting P q t) ->
            (Inv P q t -> sim_goal4 j t q) -> sim_goal4 j t q /\ 0 <= mu4 q <= 4).
  { intros j t q [Hq|Hq] Hrec.
    - split; [apply Hrec; exact Hq|]. destruct Hq as (? & ? & ? & ? & ? & ? & Iq).
      apply mu4_bounds. apply (iv_shape _ _ _ _ _ _ _ _ _ Iq).
    - split; [apply sim_exiting; exact Hq|]. destruct Hq as (? & ? & ? & _ & Shq & _).
      apply mu4_bounds. exact Shq. }
  destruct (pipe_step p) as [p' [f|]] eqn:Hps.
  - destruct Hstep as (tm & Hss & Hnd & Hr & Hms & Ho).
    destruct l3 as [x3|]; cbn [adv nonempty] in *.
    + destruct (H3 x3 eq_refl) as [Hs3 _]. unfold sim_goal4.
      destruct (single_run_step k s _ Hd Hs3) as [-> _].
      destruct k as [|k']; [cbn [single_run]; rewrite Hnd; exact Logic.I|].
      rewrite (single_run_fault k' _ _ _ Hnd Hss).
      exists 1%nat, p'. split; [lia|]. split; [apply pipe_run_fault; assumption|]. repeat split; assumption.
    + unfold sim_goal4. rewrite (single_run_fault k _ _ _ Hd Hss).
      exists 1%nat, p'. split; [lia|]. split; [apply pipe_run_fault; assumption|]. repeat split; assumption.
  - destruct Hstep as (Hinv' & Hl4 & Hmu').
    destruct l3 as [x3|]; cbn [adv nonempty option_map] in *.
    + destruct (H3 x3 eq_refl) as [Hs3 Ha3].
      destruct (Hboth k (nxt s) p' Hinv' (IHk (nxt s) p')) as [Hrec Hmu4].
      unfold sim_goal4 in *. destruct (single_run_step k s _ Hd Hs3) as [-> ->].
      destruct (single_run k (nxt s)) as [s' [|f|]]; [| |exact Logic.I].
      * destruct Hrec as (c & p'' & Hc & Hrun & Hag & Htr). exists (S c), p''.
        destruct (pipe_run_step c p p' Hpd Hps) as [-> ->]. rewrite Hl4. cbn [some_addr wb_slot sl_addr app].
        split; [lia|]. split; [exact Hrun|]. split; [exact Hag|]. rewrite Htr, Ha3. reflexivity.
      * destruct Hrec as (c & p'' & Hc & Hrun & Hag). exists (S c), p''.
        destruct (pipe_run_step c p p' Hpd Hps) as [-> _]. split; [lia|]. split; assumption.
    + specialize (Hmu' eq_refl).
      assert (Hrec : sim_goal4 (S k) s p' /\ 0 <= mu4 p' <= 4).
      { apply Hboth; [exact Hinv'|]. intros Hq. apply (IHm (Z.to_nat (mu4 p'))); [|exact Hq|reflexivity].
        destruct Hq as (? & ? & ? & ? & ? & ? & Iq).
        pose proof (mu4_bounds p' (iv_shape _ _ _ _ _ _ _ _ _ Iq)). lia. }
      destruct Hrec as [Hrec Hmu4]. unfold sim_goal4 in *.
      destruct (single_run (S k) s) as [s' [|f|]]; [| |exact Logic.I].
      * destruct Hrec as (c & p'' & Hc & Hrun & Hag & Htr). exists (S c), p''.
        destruct (pipe_run_step c p p' Hpd Hps) as [-> ->]. rewrite Hl4. cbn [some_addr app].
        split; [lia|]. split; [exact Hrun|]. split; assumption.
      * destruct Hrec as (c & p'' & Hc & Hrun & Hag). exists (S c), p''.
        destruct (pipe_run_step c p p' Hpd Hps) as [-> _]. split; [lia|]. split; assumption.
Qed.

End Refine.

(** * The refinement theorem *)
Theorem pipe_refines_single_lem P s n :
  Forall (fun i => supported i = true) P -> wf s -> prog (im s) = P ->
  match single_run n s with
  | (s', Done) => exists c p, (c <= 8 * n + 8)%nat /\
      pipe_run c (pipe_init s true) = (p, PDone) /\ arch_agree p s' /\
      pipe_trace c (pipe_init s true) = single_trace n s
  | (s', Faulted f) => exists c p, (c <= 8 * n + 8)%nat /\
      pipe_run c (pipe_init s true) = (p, PFaulted f) /\
      regs (pst p) = regs s' /\ ms (pst p) = ms s' /\ out (pst p) = out s'
  | (_, OutOfFuel) => True
  end.
Proof.
  intros HS W HP. destruct (exitc s) as [c0|] eqn:Hex.
  - assert (Hd : single_done s = true) by (unfold single_done; rewrite Hex; reflexivity).
    destruct (single_run_done n s Hd) as [-> ->].
    exists 0%nat, (pipe_init s true). split; [lia|].
    split; [cbn [pipe_run]; unfold pipe_done; cbn [pipe_init pst]; rewrite Hex; reflexivity|].
    split; [unfold arch_agree; cbn [pipe_init pst]; repeat split|reflexivity].
  - pose proof (sim4 P HS n s _ (inv_init P s W HP Hex)) as H. unfold sim_goal4 in H.
    assert (Hmu : mu4 (pipe_init s true) = 4) by reflexivity. rewrite Hmu in H.
    destruct (single_run n s) as [s' [|f|]]; [| |exact Logic.I].
    + destruct H as (c & p & Hc & Hrun & Hag & Htr). exists c, p. split; [lia|]. split; [exact Hrun|split; assumption].
    + destruct H as (c & p & Hc & Hrun & Hag). exists c, p. split; [lia|]. split; assumption.
Qed.
Print Assumptions pipe_refines_single_lem.
