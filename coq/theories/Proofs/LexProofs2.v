(* LexProofs2.v — Model/Lex.v, token level: blanks before a token, register spellings, number spellings. *)
From Coq Require Import ZArith List Bool Lia ZifyBool.
From ArchSim Require Import Model.Base Model.Fmt Model.Toy Model.Asm Model.Lex.
Import ListNotations.
Open Scope Z_scope.

Definition blanks (ws : str) : bool := forallb is_ws ws.
(* the rest does not continue a token made of [p]-characters *)
Definition stops (p : Z -> bool) (rest : str) : bool := match rest with [] => true | c :: _ => negb (p c) end.

Lemma skip_ws_app ws s : blanks ws = true -> skip_ws (ws ++ s) = skip_ws s.
Proof.
  induction ws as [|c ws IH]; intros H; [reflexivity|].
  cbn [blanks forallb] in H. apply andb_true_iff in H as [Hc Hw]. cbn [app skip_ws]. rewrite Hc. apply IH, Hw.
Qed.
Lemma skip_ws_stop s : stops is_ws s = true -> skip_ws s = s.
Proof. destruct s as [|c t]; [reflexivity|]. cbn [stops skip_ws]. destruct (is_ws c); [discriminate|reflexivity]. Qed.
Lemma skip_ws_idem s : skip_ws (skip_ws s) = skip_ws s.
Proof. induction s as [|c t IH]; [reflexivity|]. cbn [skip_ws]. destruct (is_ws c) eqn:E; [exact IH|]. cbn [skip_ws]. rewrite E. reflexivity. Qed.

(* every token reader of the grammar that starts with skip_ws ignores leading blanks *)
Lemma tlit_blanks w ws s : blanks ws = true -> tlit w (ws ++ s) = tlit w s.
Proof. intros H. unfold tlit. rewrite skip_ws_app by exact H. reflexivity. Qed.
Lemma p_reg_blanks ws s : blanks ws = true -> p_reg (ws ++ s) = p_reg s.
Proof. intros H. unfold p_reg. rewrite skip_ws_app by exact H. reflexivity. Qed.
Lemma p_imm_blanks ws s : blanks ws = true -> p_imm (ws ++ s) = p_imm s.
Proof. intros H. unfold p_imm. rewrite skip_ws_app by exact H. reflexivity. Qed.
Lemma p_label_blanks ws s : blanks ws = true -> p_label (ws ++ s) = p_label s.
Proof. intros H. unfold p_label. rewrite skip_ws_app by exact H. reflexivity. Qed.
Lemma p_var_blanks ws s : blanks ws = true -> p_var (ws ++ s) = p_var s.
Proof. intros H. unfold p_var. rewrite skip_ws_app by exact H. reflexivity. Qed.
Lemma p_quoted_blanks ws s : blanks ws = true -> p_quoted (ws ++ s) = p_quoted s.
Proof. intros H. unfold p_quoted. rewrite skip_ws_app by exact H. reflexivity. Qed.
Lemma kw_blanks syms ws s : blanks ws = true -> kw syms (ws ++ s) = kw syms s.
Proof. intros H. unfold kw. rewrite skip_ws_app by exact H. reflexivity. Qed.
Lemma clit_blanks w ws s : blanks ws = true -> clit w (ws ++ s) = clit w s.
Proof. intros H. unfold clit. rewrite skip_ws_app by exact H. reflexivity. Qed.

(** * literal prefixes *)
Lemma lit_app w r : lit w (w ++ r) = Some r.
Proof. induction w as [|a w IH]; [reflexivity|]. cbn [app lit]. rewrite Z.eqb_refl. exact IH. Qed.
Lemma lit_inv w : forall s r, lit w s = Some r -> s = w ++ r.
Proof.
  induction w as [|a w IH]; intros s r H; [cbn in H; inversion H; reflexivity|].
  destruct s as [|c t]; [discriminate|]. cbn [lit] in H. destruct (c =? a) eqn:E; [|discriminate].
  apply Z.eqb_eq in E. subst. cbn [app]. f_equal. apply IH, H.
Qed.

Lemma lit_best_spec syms s :
  match lit_best syms s with
  | Some (w, r) => In w syms /\ lit w s = Some r /\
                   forall w' r', In w' syms -> lit w' s = Some r' -> (List.length w' <= List.length w)%nat
  | None => forall w', In w' syms -> lit w' s = None
  end.
Proof.
  induction syms as [|w ws IH]; [intros w' []|].
  cbn [lit_best]. destruct (lit w s) as [r|] eqn:Hw.
  - destruct (lit_best ws s) as [[w1 r1]|].
    + destruct IH as (Hin & Hl & Hmax). destruct (Nat.ltb (List.length w) (List.length w1)) eqn:E.
      * apply Nat.ltb_lt in E. split; [right; exact Hin|]. split; [exact Hl|].
        intros w' r' [<-|Hi] Hm; [lia|]. eapply Hmax; eassumption.
      * apply Nat.ltb_ge in E. split; [left; reflexivity|]. split; [exact Hw|].
        intros w' r' [<-|Hi] Hm; [lia|]. specialize (Hmax _ _ Hi Hm). lia.
    + split; [left; reflexivity|]. split; [exact Hw|].
      intros w' r' [<-|Hi] Hm; [lia|]. rewrite (IH _ Hi) in Hm. discriminate.
  - destruct (lit_best ws s) as [[w1 r1]|].
    + destruct IH as (Hin & Hl & Hmax). split; [right; exact Hin|]. split; [exact Hl|].
      intros w' r' [<-|Hi] Hm; [congruence|]. eapply Hmax; eassumption.
    + intros w' [<-|Hi]; [exact Hw|]. apply IH, Hi.
Qed.

(* extension check: whenever one symbol is a proper prefix of another, the next character satisfies [p] *)
Definition ext_ok (p : Z -> bool) (syms : list str) : bool :=
  forallb (fun a => forallb (fun w => match lit a w with Some (c :: _) => p c | _ => true end) syms) syms.

Lemma lit_best_exact p syms w rest :
  ext_ok p syms = true -> In w syms -> stops p rest = true -> lit_best syms (w ++ rest) = Some (w, rest).
Proof.
  intros Hext Hin Hstop. pose proof (lit_best_spec syms (w ++ rest)) as S.
  destruct (lit_best syms (w ++ rest)) as [[w1 r1]|].
  - destruct S as (Hin1 & Hl1 & Hmax). specialize (Hmax w rest Hin (lit_app _ _)).
    apply lit_inv in Hl1.
    assert (exists e, w1 = w ++ e /\ rest = e ++ r1) as (e & -> & Hr).
    { clear - Hl1 Hmax. revert w1 Hl1 Hmax. induction w as [|a w IH]; intros w1 H L.
      - exists w1. split; [reflexivity|exact H].
      - destruct w1 as [|b w1]; [cbn in L; lia|]. cbn [app] in H. inversion H; subst.
        destruct (IH w1 H2) as (e & -> & Hr); [cbn in L; lia|]. exists e. split; [reflexivity|exact Hr]. }
    destruct e as [|c e].
    + rewrite app_nil_r. cbn in Hr. subst. reflexivity.
    + exfalso. unfold ext_ok in Hext. rewrite forallb_forall in Hext. specialize (Hext _ Hin).
      rewrite forallb_forall in Hext. specialize (Hext _ Hin1). rewrite lit_app in Hext.
      subst rest. cbn [app stops] in Hstop. rewrite Hext in Hstop. discriminate.
  - pose proof (S w Hin) as X. rewrite lit_app in X. discriminate.
Qed.

(** * (c) registers *)
Definition starts_with (c : Z) (w : str) : bool := match w with d :: _ => d =? c | [] => false end.

Lemma abi_ext : ext_ok is_digit abi_names = true.      Proof. vm_compute. reflexivity. Qed.
Lemma regnum_ext : ext_ok is_digit reg_numbers = true. Proof. vm_compute. reflexivity. Qed.
Lemma abi_first : forallb (fun w => match w with c :: _ => negb (is_ws c) && negb (c =? 120) | [] => false end) abi_names = true.
Proof. vm_compute. reflexivity. Qed.
Lemma regnum_first : forallb (fun w => match w with c :: _ => negb (is_ws c) | [] => false end) reg_numbers = true.
Proof. vm_compute. reflexivity. Qed.

Lemma lit_first_ne a w c t : (c =? a) = false -> lit (a :: w) (c :: t) = None.
Proof. intros H. cbn [lit]. rewrite H. reflexivity. Qed.

Lemma p_reg_abi name rest :
  In name abi_names -> stops is_digit rest = true -> p_reg (name ++ rest) = Some (RAbi name, rest).
Proof.
  intros Hin Hs. unfold p_reg.
  pose proof abi_first as F. rewrite forallb_forall in F. specialize (F _ Hin).
  destruct name as [|c nm]; [discriminate|]. apply andb_true_iff in F as [F1 _].
  rewrite skip_ws_stop by (cbn [app stops]; exact F1).
  rewrite (lit_best_exact is_digit _ _ _ abi_ext Hin Hs). reflexivity.
Qed.

Lemma p_reg_x d rest :
  In d reg_numbers -> stops is_digit rest = true -> p_reg (120 :: d ++ rest) = Some (RX d, rest).
Proof.
  intros Hin Hs. unfold p_reg. rewrite skip_ws_stop by reflexivity.
  pose proof (lit_best_spec abi_names (120 :: d ++ rest)) as S.
  destruct (lit_best abi_names (120 :: d ++ rest)) as [[w r]|].
  - exfalso. destruct S as (Hw & Hl & _). pose proof abi_first as F. rewrite forallb_forall in F.
    specialize (F _ Hw). destruct w as [|c w]; [discriminate|]. apply andb_true_iff in F as [_ F].
    cbn [lit] in Hl. rewrite Z.eqb_sym in F. destruct (120 =? c); [discriminate|discriminate].
  - cbn [lit]. rewrite Z.eqb_refl.
    pose proof regnum_first as F. rewrite forallb_forall in F. specialize (F _ Hin).
    destruct d as [|c dd]; [discriminate|].
    rewrite skip_ws_stop by (cbn [app stops]; exact F).
    rewrite (lit_best_exact is_digit _ _ _ regnum_ext Hin Hs). reflexivity.
Qed.

Lemma regnum_in n : 0 <= n < 32 -> In (str_dec n) reg_numbers.
Proof.
  intros H. unfold reg_numbers. apply in_map. 
  assert (E : n = 0 \/ n = 1 \/ n = 2 \/ n = 3 \/ n = 4 \/ n = 5 \/ n = 6 \/ n = 7 \/ n = 8 \/ n = 9 \/ n = 10 \/
              n = 11 \/ n = 12 \/ n = 13 \/ n = 14 \/ n = 15 \/ n = 16 \/ n = 17 \/ n = 18 \/ n = 19 \/ n = 20 \/
              n = 21 \/ n = 22 \/ n = 23 \/ n = 24 \/ n = 25 \/ n = 26 \/ n = 27 \/ n = 28 \/ n = 29 \/ n = 30 \/
              n = 31) by lia.
  repeat (destruct E as [->|E]; [vm_compute; tauto|]). subst. vm_compute. tauto.
Qed.

Lemma reg_num_abi name n : In (name, n) abi_table -> reg_num (RAbi name) = Some n.
Proof.
  intros H. unfold abi_table in H. cbn [map fst snd] in H.
  repeat (destruct H as [H|H]; [inversion H; subst; vm_compute; reflexivity|]). destruct H.
Qed.
Lemma reg_num_x n : 0 <= n < 32 -> reg_num (RX (str_dec n)) = Some n.
Proof.
  intros H.
  assert (E : n = 0 \/ n = 1 \/ n = 2 \/ n = 3 \/ n = 4 \/ n = 5 \/ n = 6 \/ n = 7 \/ n = 8 \/ n = 9 \/ n = 10 \/
              n = 11 \/ n = 12 \/ n = 13 \/ n = 14 \/ n = 15 \/ n = 16 \/ n = 17 \/ n = 18 \/ n = 19 \/ n = 20 \/
              n = 21 \/ n = 22 \/ n = 23 \/ n = 24 \/ n = 25 \/ n = 26 \/ n = 27 \/ n = 28 \/ n = 29 \/ n = 30 \/
              n = 31) by lia.
  repeat (destruct E as [->|E]; [vm_compute; reflexivity|]). subst. vm_compute. reflexivity.
Qed.

(* ABI spelling and xN spelling of register n (blanks before, anything but a digit after): both are read as
   one register token that consumes exactly the spelling, and both tokens denote register n *)
Theorem reg_spellings n name ws rest :
  0 <= n < 32 -> In (name, n) abi_table -> blanks ws = true -> stops is_digit rest = true ->
  exists t1 t2,
    p_reg (ws ++ name ++ rest) = Some (t1, rest) /\
    p_reg (ws ++ 120 :: str_dec n ++ rest) = Some (t2, rest) /\
    reg_num t1 = Some n /\ reg_num t2 = Some n.
Proof.
  intros Hn Hin Hws Hs. exists (RAbi name), (RX (str_dec n)).
  assert (Hin' : In name abi_names) by (unfold abi_names; change name with (fst (name, n)); apply in_map, Hin).
  split; [rewrite p_reg_blanks by exact Hws; apply p_reg_abi; assumption|].
  split; [rewrite p_reg_blanks by exact Hws; apply p_reg_x; [apply regnum_in, Hn|exact Hs]|].
  split; [apply reg_num_abi, Hin|apply reg_num_x, Hn].
Qed.

(** * (d) number spellings: tokenisation *)
Lemma span_all p a rest : forallb p a = true -> stops p rest = true -> span p (a ++ rest) = (a, rest).
Proof.
  induction a as [|c a IH]; intros Ha Hr.
  - destruct rest as [|c t]; [reflexivity|]. cbn [app span]. cbn [stops] in Hr.
    destruct (p c); [discriminate|reflexivity].
  - cbn [forallb] in Ha. apply andb_true_iff in Ha as [Hc Ha]. cbn [app span]. rewrite Hc, (IH Ha Hr). reflexivity.
Qed.
Lemma span1_all p a rest :
  a <> [] -> forallb p a = true -> stops p rest = true -> span1 p (a ++ rest) = Some (a, rest).
Proof. intros Hn Ha Hr. unfold span1. rewrite (span_all _ _ _ Ha Hr). destruct a; [congruence|reflexivity]. Qed.

Definition is_sign (s : str) : bool := match s with [] => true | [45] => true | _ => false end.

Lemma is_sign_inv sign : is_sign sign = true -> sign = [] \/ sign = [45].
Proof.
  destruct sign as [|m t]; intros H; [left; reflexivity|]. right. unfold is_sign in H.
  destruct m as [|p|p]; try discriminate.
  do 6 (destruct p as [p|p|]; try discriminate). destruct t; [reflexivity|discriminate].
Qed.

Lemma imm_raw_not_minus c t : c <> 45 -> imm_raw (c :: t) = num_raw (c :: t).
Proof.
  intros H. unfold imm_raw. destruct c as [|p|p]; try reflexivity.
  do 6 (destruct p as [p|p|]; try reflexivity). congruence.
Qed.

Lemma hex_raw_ok h rest :
  h <> [] -> forallb is_hex h = true -> stops is_hex rest = true ->
  hex_raw (48 :: 120 :: h ++ rest) = Some (48 :: 120 :: h, rest).
Proof.
  intros Hn Hh Hr. unfold hex_raw. change (48 :: 120 :: h ++ rest) with ([48; 120] ++ (h ++ rest)).
  rewrite lit_app, (span1_all _ _ _ Hn Hh Hr). reflexivity.
Qed.
Lemma bin_raw_ok b rest :
  b <> [] -> forallb is_bin b = true -> stops is_bin rest = true ->
  bin_raw (48 :: 98 :: b ++ rest) = Some (48 :: 98 :: b, rest).
Proof.
  intros Hn Hb Hr. unfold bin_raw. change (48 :: 98 :: b ++ rest) with ([48; 98] ++ (b ++ rest)).
  rewrite lit_app, (span1_all _ _ _ Hn Hb Hr). reflexivity.
Qed.

Lemma num_raw_hex h rest :
  h <> [] -> forallb is_hex h = true -> stops is_hex rest = true ->
  num_raw (48 :: 120 :: h ++ rest) = Some (48 :: 120 :: h, rest).
Proof. intros. unfold num_raw. rewrite hex_raw_ok by assumption. reflexivity. Qed.
Lemma num_raw_bin b rest :
  b <> [] -> forallb is_bin b = true -> stops is_bin rest = true ->
  num_raw (48 :: 98 :: b ++ rest) = Some (48 :: 98 :: b, rest).
Proof.
  intros. unfold num_raw. replace (hex_raw (48 :: 98 :: b ++ rest)) with (@None (str * str)) by reflexivity.
  rewrite bin_raw_ok by assumption. reflexivity.
Qed.

(* a decimal numeral never looks like a 0x/0b literal when no label character follows it *)
Lemma lit2_none a b s :
  match s with _ :: c :: _ => (c =? b) = false | _ => True end -> lit [a; b] s = None.
Proof.
  destruct s as [|c1 [|c2 t]]; intros H; cbn [lit].
  - reflexivity.
  - destruct (c1 =? a); reflexivity.
  - destruct (c1 =? a); [rewrite H|]; reflexivity.
Qed.
Lemma dec_second d rest b :
  d <> [] -> forallb is_digit d = true -> stops is_labn rest = true -> is_labn b = true -> is_digit b = false ->
  match d ++ rest with _ :: c :: _ => (c =? b) = false | _ => True end.
Proof.
  intros Hn Hd Hr Hb1 Hb2.
  assert (K : forall c, (is_digit c = true \/ is_labn c = false) -> (c =? b) = false).
  { intros c [H|H]; destruct (c =? b) eqn:E; try reflexivity; apply Z.eqb_eq in E; subst; congruence. }
  destruct d as [|c1 [|c2 d]]; [congruence| |]; cbn [app].
  - destruct rest as [|r1 rest]; [exact Logic.I|]. apply K. right. cbn [stops] in Hr.
    destruct (is_labn r1); [discriminate|reflexivity].
  - apply K. left. cbn [forallb] in Hd. apply andb_true_iff in Hd as [_ Hd].
    apply andb_true_iff in Hd as [Hd _]. exact Hd.
Qed.

Lemma labn_digit c : is_digit c = true -> is_labn c = true.
Proof. unfold is_labn. intros ->. rewrite orb_true_r. reflexivity. Qed.
Lemma stops_labn_digit rest : stops is_labn rest = true -> stops is_digit rest = true.
Proof.
  destruct rest as [|c t]; [reflexivity|]. cbn [stops]. destruct (is_digit c) eqn:E; [|reflexivity].
  rewrite (labn_digit _ E). discriminate.
Qed.

Lemma num_raw_dec d rest :
  d <> [] -> forallb is_digit d = true -> stops is_labn rest = true -> num_raw (d ++ rest) = Some (d, rest).
Proof.
  intros Hn Hd Hr. unfold num_raw, hex_raw, bin_raw.
  rewrite (lit2_none 48 120) by (apply dec_second; try assumption; reflexivity).
  rewrite (lit2_none 48 98) by (apply dec_second; try assumption; reflexivity).
  apply span1_all; [exact Hn|exact Hd|apply stops_labn_digit, Hr].
Qed.

Lemma stops_labn_hex rest : stops is_labn rest = true -> stops is_hex rest = true.
Proof.
  destruct rest as [|c t]; [reflexivity|]. cbn [stops]. unfold is_labn, is_hex, is_alpha, is_upper, is_lower, is_digit. lia.
Qed.
Lemma stops_labn_bin rest : stops is_labn rest = true -> stops is_bin rest = true.
Proof.
  destruct rest as [|c t]; [reflexivity|]. cbn [stops]. unfold is_labn, is_bin, is_alpha, is_upper, is_lower, is_digit. lia.
Qed.

(* the three spellings with an optional sign, blanks before, no label character after: one token each *)
Lemma p_imm_signed (body : str) ws sign rest :
  blanks ws = true -> is_sign sign = true ->
  match body with c :: _ => c <> 45 | [] => False end ->
  num_raw (body ++ rest) = Some (body, rest) ->
  p_imm (ws ++ sign ++ body ++ rest) = Some (sign ++ body, rest).
Proof.
  intros Hws Hs Hb Hnum. rewrite p_imm_blanks by exact Hws. unfold p_imm.
  destruct body as [|c body]; [contradiction|].
  destruct (is_sign_inv _ Hs) as [->| ->].
  - cbn [app] in *. rewrite skip_ws_stop.
    + rewrite imm_raw_not_minus by exact Hb. exact Hnum.
    + cbn [stops]. destruct (is_ws c) eqn:E; [|reflexivity]. exfalso.
      unfold num_raw, hex_raw, bin_raw, span1 in Hnum.
      assert (X : lit [48; 120] (c :: body ++ rest) = None /\ lit [48; 98] (c :: body ++ rest) = None /\ is_digit c = false).
      { unfold is_ws, is_digit in *. cbn [lit]. repeat split; try lia.
        - destruct (c =? 48) eqn:E2; [lia|reflexivity].
        - destruct (c =? 48) eqn:E2; [lia|reflexivity]. }
      destruct X as (X1 & X2 & X3). rewrite X1, X2 in Hnum. cbn [span] in Hnum. rewrite X3 in Hnum. discriminate.
  - cbn [app] in *. rewrite skip_ws_stop by reflexivity.
    change (imm_raw (45 :: c :: body ++ rest)) with
      (match num_raw (c :: body ++ rest) with Some (n, r) => Some (45 :: n, r) | None => None end).
    rewrite Hnum. reflexivity.
Qed.

(** * (d) number spellings: values under int(text, 0) *)
Definition sgn (sign : str) (n : Z) : Z := match sign with [] => n | _ => - n end.
(* decimal numeral Python accepts: digits, at most 4300 of them, no leading zero except "0" itself *)
Definition dec_ok (d : str) : bool :=
  forallb is_digit d && (Z.of_nat (List.length d) <=? max_str_digits) &&
  match d with [] => false | c :: t => negb (c =? 48) || match t with [] => true | _ => false end end.

Lemma py_int0_unsigned_nz c t : c <> 48 ->
  py_int0_unsigned (c :: t) =
  if Z.of_nat (List.length (c :: t)) >? max_str_digits then None else Some (digits_value 10 (c :: t)).
Proof.
  intros Hc. destruct c as [|p|p]; try reflexivity.
  do 6 (destruct p as [p|p|]; try reflexivity). exfalso; apply Hc; reflexivity.
Qed.
Lemma py_int0_not_minus c t : c <> 45 -> py_int0 (c :: t) = py_int0_unsigned (c :: t).
Proof.
  intros Hc. destruct c as [|p|p]; try reflexivity.
  do 6 (destruct p as [p|p|]; try reflexivity). exfalso; apply Hc; reflexivity.
Qed.

Lemma py_int0_unsigned_dec d : dec_ok d = true -> py_int0_unsigned d = Some (digits_value 10 d).
Proof.
  unfold dec_ok. intros H. apply andb_true_iff in H as [H H3]. apply andb_true_iff in H as [H1 H2].
  destruct d as [|c t]; [discriminate|].
  destruct (c =? 48) eqn:E.
  - apply Z.eqb_eq in E. subst c. destruct t; [reflexivity|discriminate].
  - rewrite py_int0_unsigned_nz by lia.
    destruct (Z.of_nat (List.length (c :: t)) >? max_str_digits) eqn:E2; [lia|reflexivity].
Qed.
Lemma dec_ok_first d : dec_ok d = true -> match d with c :: _ => c <> 45 | [] => False end.
Proof.
  unfold dec_ok. intros H. apply andb_true_iff in H as [H H3]. apply andb_true_iff in H as [H _].
  destruct d as [|c t]; [discriminate|]. cbn [forallb] in H. apply andb_true_iff in H as [H _].
  unfold is_digit in H. lia.
Qed.
Lemma py_int0_signed sign body z :
  is_sign sign = true -> match body with c :: _ => c <> 45 | [] => False end ->
  py_int0_unsigned body = Some z -> py_int0 (sign ++ body) = Some (sgn sign z).
Proof.
  intros Hs Hb Hz. destruct body as [|c body]; [contradiction|].
  destruct (is_sign_inv _ Hs) as [->| ->]; cbn [app sgn].
  - rewrite py_int0_not_minus by exact Hb. exact Hz.
  - change (py_int0 (45 :: c :: body)) with
      (match py_int0_unsigned (c :: body) with Some z => Some (- z) | None => None end).
    rewrite Hz. reflexivity.
Qed.

(* decimal, 0x and 0b spellings of the same magnitude, with the same optional sign: each is read as ONE
   immediate token (blanks before it are skipped, [rest] untouched) and all three tokens have the same value
   under int(text, 0) — the conversion the assembler applies (Asm.py_int0) *)
Theorem number_spellings ws sign h b d rest n :
  blanks ws = true -> is_sign sign = true -> stops is_labn rest = true ->
  h <> [] -> forallb is_hex h = true -> digits_value 16 h = n ->
  b <> [] -> forallb is_bin b = true -> digits_value 2 b = n ->
  dec_ok d = true -> digits_value 10 d = n ->
  exists t1 t2 t3,
    p_imm (ws ++ sign ++ (48 :: 120 :: h) ++ rest) = Some (t1, rest) /\
    p_imm (ws ++ sign ++ (48 :: 98 :: b) ++ rest) = Some (t2, rest) /\
    p_imm (ws ++ sign ++ d ++ rest) = Some (t3, rest) /\
    py_int0 t1 = Some (sgn sign n) /\ py_int0 t2 = Some (sgn sign n) /\ py_int0 t3 = Some (sgn sign n).
Proof.
  intros Hws Hs Hr Hh1 Hh2 Hh3 Hb1 Hb2 Hb3 Hd Hd3.
  exists (sign ++ 48 :: 120 :: h), (sign ++ 48 :: 98 :: b), (sign ++ d).
  assert (Hdn : d <> []) by (destruct d; [discriminate|congruence]).
  assert (Hdd : forallb is_digit d = true).
  { unfold dec_ok in Hd. apply andb_true_iff in Hd as [Hd _]. apply andb_true_iff in Hd as [Hd _]. exact Hd. }
  split; [apply p_imm_signed; try assumption; [cbn; congruence|]; apply num_raw_hex; try assumption; apply stops_labn_hex, Hr|].
  split; [apply p_imm_signed; try assumption; [cbn; congruence|]; apply num_raw_bin; try assumption; apply stops_labn_bin, Hr|].
  split; [apply p_imm_signed; try assumption; [apply dec_ok_first, Hd|]; apply num_raw_dec; assumption|].
  split; [apply py_int0_signed; [exact Hs|cbn; congruence|rewrite <- Hh3; reflexivity]|].
  split; [apply py_int0_signed; [exact Hs|cbn; congruence|rewrite <- Hb3; reflexivity]|].
  apply py_int0_signed; [exact Hs|apply dec_ok_first, Hd|rewrite <- Hd3; apply py_int0_unsigned_dec, Hd].
Qed.
