(* FlagOffStraight.v — property C08, phase B, part 6: the invariant of FlagOffInv.v is kept by
   every step of the flag-off pipeline on programs WITHOUT control transfers and ecalls
   (R/I/shift/lui/auipc/load/store, arbitrary register dependencies — stale reads included —,
   faulting loads and stores).  With the flag off such a pipeline never stalls and never
   flushes, so only the not-stalled mode occurs. *)
From Coq Require Import Lia ZifyBool Wf_nat.
From ArchSim Require Import Model.Base Model.Mem Model.Cache Model.Fmt Model.RV Model.Single
  Model.RVSplit Model.Pipe Proofs.WordLemmas Proofs.C01Step Proofs.SplitExec Proofs.C02Split
  Proofs.PipeLaws Proofs.PipeShape Proofs.PipeInv Proofs.PipeInvBase Proofs.PipeInvStages
  Proofs.PipeInvStraight Proofs.FlagOffDwb Proofs.FlagOffInv.
Open Scope Z_scope.

Local Arguments Z.mul : simpl never.
Local Arguments Z.add : simpl never.
Local Arguments Z.sub : simpl never.

Section Straight.
Variable P : list instr.
Hypothesis HS : Forall (fun i => straight i = true) P.

Let Hsup : Forall (fun i => supported i = true) P := PipeInvStraight.Hsup P HS.

(* straight-line instructions do not touch the output *)
Lemma advL_out_straight L l : wfL L -> prog (im (lt L)) = P ->
  match l with Some x => onp P (uview L) x | None => True end -> out (lt (advL l L)) = out (lt L).
Proof.
  intros WL HP Hl. rewrite advL_out. change (out (lt L)) with (out (uview L)).
  apply (PipeInvStraight.adv_out P HS); [apply wfL_uview; exact WL|exact HP|exact Hl].
Qed.

(* what a step does to the occupancy of the latches (used for the bubble pattern) *)
Definition shifted (p p' : pstate) (l0 l1 l2 l3 : latch) : Prop :=
  stalled p' = None /\ exists n0 n1 n2 n3 n4, lat p' = [n0; n1; n2; n3; n4] /\
    nonempty n3 = nonempty l2 /\ nonempty n2 = nonempty l1 /\ nonempty n1 = nonempty l0 /\
    nonempty n0 = has_instr (im (pst p)) (pc (pst p)) /\
    (nonempty n0 = false -> has_instr (im (pst p')) (pc (pst p')) = false).

Definition dstep_goal (p : pstate) (L : lag) (l0 l1 l2 l3 : latch) : Prop :=
  match pipe_step p with
  | (p', None) => DInv P p' (advL l3 L) /\ lat_at (lat p') 4 = option_map wb_slot l3 /\
                  (l3 = None -> mu p' < mu p) /\ shifted p p' l0 l1 l2 l3
  | (p', Some f) => exists Lm, lstep (advL l3 L) = (Lm, Some f) /\
                  single_done (lt (advL l3 L)) = false /\
                  regs (pst p') = regs (lt Lm) /\ ms (pst p') = ms (lt Lm) /\ out (pst p') = out (lt Lm)
  end.

Lemma dstep_normal p L l0 l1 l2 l3 l4 dead : DInvAt P p L l0 l1 l2 l3 l4 dead -> stalled p = None ->
  pipe_done p = false -> dstep_goal p L l0 l1 l2 l3.
Proof.
  intros [Hl Sh Hz HPp HPs WL Hexs Hd D1 L3 L2 L1 L0 HF Hrg Hms Hbc Hpcn Hout Hexc Hic Hfd] Hst Hnd.
  pose proof (shape_step no_icache p no_icache_faithful Sh) as Sh'.
  assert (Hsv : saved p = None) by (apply (shape_saved_iff no_icache p Sh); exact Hst).
  unfold dstep_goal.
  rewrite (pipe_step_normal p _ _ _ _ _ Hl Hst) in *. unfold run_normal in *. rewrite Hz in *.
  destruct (if_stage P (bumped (pst p)) (sh_im _ _ Sh) HPp)
    as (n0 & s1 & HIF & Hr1 & Hm1 & Ho1 & He1 & Hi1 & Hb1 & Hp1 & HP1 & Hnc1 & Hs0 & Hf0 & Hn0).
  rewrite HIF in *.
  destruct (wb_stageL P Hsup L l3 s1 HPs L3 WL Hexs ltac:(rewrite Hr1; exact Hrg))
    as (s2 & HWB & Hf4 & Hr2 & Hm2 & Ho2 & Hb2 & Hp2 & He2 & Hpc2 & Him2 & Hi2 & WL2 & HP2 & Hex2).
  rewrite HWB in *.
  set (L' := advL l3 L) in *.
  destruct (shape_at p _ _ _ _ _ Sh Hl) as (K0 & K1 & K2 & K3 & K4 & KM). rewrite HPp in *.
  destruct (ex_latch P HS l1 l2 l3 s2 D1 K1) as (n2 & HEX & Hne2 & Hs2 & Hf2 & Hfd2 & Hrel2).
  rewrite HEX in *.
  destruct (mem_on l2 s2) as [[n3 s4] oe] eqn:HM.
  assert (HP2u : prog (im (uview L')) = P) by exact HP2.
  pose proof (mem_stage P Hsup _ _ _ _ _ _ _ HP2u L2 (fired_straight P HS l2 K2)
                ltac:(rewrite Hm2, Hm1; exact Hms) HM) as (Hr4 & Ho4 & He4 & Hi4 & Hpc4 & Him4 & HMEM).
  destruct oe as [e|].
  - (* the slot in MEM faults: so does the reference machine, at the same instruction *)
    destruct HMEM as (x2 & tm & -> & Hstep & Hm4 & Hrtm).
    cbn [finish fst snd faulted pst fault_at fault_of lat_at nthZ nth Z.to_nat].
    cbn [lv] in L2. destruct (L2 Logic.I) as (_ & (Hx & Ha2 & Hi2') & _).
    eexists. split.
    { unfold lstep, vstep. fold (uview L'). rewrite Hstep. cbn [fst snd]. rewrite Ha2. reflexivity. }
    split; [apply (not_done (uview L') (sl_instr x2)); [exact Hx|rewrite HP2u; exact Hi2']|].
    cbn [lt regs ms out with_regs].
    split; [rewrite Hr4, Hr2; reflexivity|]. split; [exact Hm4|].
    rewrite Ho4, Ho2, Ho1. change (out (bumped (pst p))) with (out (pst p)). rewrite Hout.
    rewrite (fired_straight P HS _ K2). cbn [nonempty]. rewrite advL_out. cbn [adv nonempty].
    unfold nxt. rewrite Hstep. reflexivity.
  - destruct HMEM as (Hne3 & Hm4 & Hs3 & Hb4 & Hp4 & Hrel3).
    set (n1 := id_on false l0 l1 l2 s2) in *.
    set (n4 := option_map wb_slot l3) in *.
    assert (Hs4 : has_stall n4 = false) by (subst n4; destruct l3; reflexivity).
    assert (Hs1 : has_stall n1 = false) by apply nohaz_id_no_stall.
    destruct (mem_ok_plain P HS dead _ _ _ K2 HP2u L2 Hrel3) as (Hf3 & L3' & O2 & Hd3).
    cbn [finish]. cbn [finish fst] in Sh'.
    match goal with |- context [post p ?nx s4] =>
    assert (Hpost : post p nx s4 =
              {| pst := s4; lat := nx; stalled := None; saved := None; hazards := false |}) end.
    { assert (Hff : first_flush [n0; n1; n2; n3; n4] = None).
      { rewrite first_flush_5 by (assumption || apply id_on_flags). rewrite Hf4, Hf3, Hf2. reflexivity. }
      assert (Hns : new_stall [n0; n1; n2; n3; n4] None = None).
      { rewrite new_stall_5 by assumption. rewrite Hs2, Hs1. reflexivity. }
      unfold post. rewrite Hst, Hsv, Hz.
      rewrite (stall_part_idle _ _ _ Hns), (flush_part_none _ _ _ _ _ Hff). reflexivity. }
    rewrite Hpost in *.
    set (LF := advL l0 (advL l1 (advL l2 L'))) in *.
    destruct (new_fetch P dead (uview LF) n0 (pc (pst p)) (pc s1)) as (dead' & Hdd & L0' & HF').
    { intros H0. destruct (HF H0) as (a & b & c & d). split; [apply wfL_uview; exact a|]. csplit; assumption. }
    { destruct n0; [destruct Hn0 as (a & b & c & _);
        change (pc (bumped (pst p))) with (pc (pst p)) in *; csplit; assumption|apply Hn0]. }
    assert (Hne1 : nonempty n1 = nonempty l0) by apply nonempty_id_on.
    split; [|split; [reflexivity|split]].
    + exists n0, n1, n2, n3, n4, dead'. constructor; cbn [pst lat stalled saved hazards].
      * reflexivity.
      * exact Sh'.
      * reflexivity.
      * rewrite Him4, Him2. exact HP1.
      * exact HP2.
      * exact WL2.
      * exact Hex2.
      * lia.
      * subst n1. destruct l0; [rewrite id_on_some; apply id_slot_Dsh|exact Logic.I].
      * exact L3'.
      * rewrite (advL_ne n3 l2) by exact Hne3.
        apply (lv_map P _ _ _ _ _ _ _ _ _ L1); try lia.
        destruct l1 as [x1|], n2 as [x2|]; try contradiction; [|exact Logic.I].
        destruct Hrel2 as (a & b & c). split; [exact a|]. split; [exact b|]. intros _ _ _ Hc. apply c, Hc.
      * rewrite (advL_ne n3 l2), (advL_ne n2 l1) by assumption.
        apply (lv_map P _ _ _ _ _ _ _ _ _ L0); try lia.
        subst n1. destruct l0 as [y|]; [rewrite id_on_some|exact Logic.I].
        split; [reflexivity|]. split; [reflexivity|]. intros Hlv _ (_ & Hay & _) _.
        apply id_operands_exact; [|exact Hay].
        change (regs (uview (advL l1 (advL l2 L')))) with (lr2 (advL l1 (advL l2 L'))).
        rewrite lr2_adv2. exact Hr2.
      * rewrite (advL_ne n3 l2), (advL_ne n2 l1), (advL_ne n1 l0) by assumption. exact L0'.
      * rewrite (advL_ne n3 l2), (advL_ne n2 l1), (advL_ne n1 l0) by assumption. fold LF.
        intros H0. destruct (HF' H0) as (a & b & c & d).
        assert (Hd0 : dead = 0%nat) by lia. destruct (HF Hd0) as (WLF & HPF & HexF & HpcF).
        assert (WLF' : wfL (advL n0 LF) /\ prog (im (lt (advL n0 LF))) = P).
        { destruct n0 as [x|]; [|split; [apply wfL_bub; exact WLF|exact HPF]].
          cbn [lv] in L0'. destruct (L0' ltac:(lia)) as (_ & (_ & _ & Hix) & _).
          change (pc (uview LF)) with (pc (lt LF)) in Hix.
          destruct (wfL_lnxt LF (sl_instr x) WLF HexF ltac:(rewrite HPF; exact Hix)) as [A B].
          rewrite advL_some. split; [exact A|congruence]. }
        destruct WLF' as [WLF' HPF'].
        split; [exact WLF'|]. split; [exact HPF'|].
        split; [rewrite advL_exitc; exact c|]. rewrite advL_pc. congruence.
      * congruence.
      * rewrite (advL_ne n3 l2) by assumption. rewrite advL_ms. exact Hm4.
      * rewrite (advL_ne n3 l2) by assumption. rewrite advL_bcount.
        change (bcount (bumped (pst p))) with (bcount (pst p)) in Hb1.
        change (bcount (uview L')) with (bcount (lt L')) in Hb4. lia.
      * rewrite (advL_ne n3 l2) by assumption. rewrite advL_pcount.
        change (pcount (bumped (pst p))) with (pcount (pst p)) in Hp1.
        change (pcount (uview L')) with (pcount (lt L')) in Hp4. lia.
      * rewrite (advL_ne n3 l2), (advL_ne n2 l1) by assumption.
        assert (WL1 : wfL (advL l2 L') /\ prog (im (lt (advL l2 L'))) = P).
        { destruct l2 as [x2|]; [|split; [apply wfL_bub; exact WL2|exact HP2]].
          cbn [lv] in L2. destruct (L2 Logic.I) as (_ & (_ & _ & Hix) & _).
          change (pc (uview L')) with (pc (lt L')) in Hix.
          destruct (wfL_lnxt L' (sl_instr x2) WL2 Hex2 ltac:(rewrite HP2; exact Hix)) as [A B].
          rewrite advL_some. split; [exact A|congruence]. }
        destruct WL1 as [WL1 HP1'].
        assert (Ho_l2 : out (lt (advL l2 L')) = out (lt L')).
        { apply advL_out_straight; try assumption. destruct l2; [apply (L2 Logic.I)|exact Logic.I]. }
        assert (Hlhs : out s4 = out (lt L')).
        { rewrite Ho4, Ho2, Ho1. change (out (bumped (pst p))) with (out (pst p)). rewrite Hout.
          destruct (fired l2); [exact Ho_l2|reflexivity]. }
        rewrite Hlhs, Hfd2, Hne2. destruct l1 as [x1|]; cbn [nonempty]; [|symmetry; exact Ho_l2].
        transitivity (out (lt (advL l2 L'))); [symmetry; exact Ho_l2|].
        symmetry. apply advL_out_straight; [exact WL1|exact HP1'|].
        cbn [lv] in L1. apply L1. lia.
      * change (exitc (bumped (pst p))) with (exitc (pst p)) in He1. congruence.
      * change (icount (bumped (pst p))) with (icount (pst p)) in Hi1. lia.
      * exact Hfd2.
    + intros ->. unfold mu, dcount. cbn [lat stalled]. rewrite Hl, Hst. lat5.
      rewrite Hne3, Hne2, Hne1. cbn [nonempty].
      destruct l2 as [x2|]; cbn [nonempty]; [lia|].
      destruct l1 as [x1|]; cbn [nonempty]; [lia|].
      destruct l0 as [x0|]; cbn [nonempty]; [lia|].
      destruct n0 as [x|]; cbn [nonempty]; [lia|]. exfalso.
      destruct Hn0 as [_ Hn0]. unfold pipe_done, pipe_empty in Hnd. rewrite Hexc, Hl in Hnd. lat5h Hnd.
      cbn [nonempty orb negb andb] in Hnd. unfold has_instr in Hnd. rewrite HPp in Hnd.
      change (pc (bumped (pst p))) with (pc (pst p)) in Hn0. rewrite Hn0 in Hnd. discriminate Hnd.
    + split; [reflexivity|]. exists n0, n1, n2, n3, n4. cbn [lat pst]. split; [reflexivity|].
      split; [exact Hne3|]. split; [exact Hne2|]. split; [exact Hne1|].
      unfold has_instr. rewrite Him4, Him2, HP1, Hpc4, Hpc2, HPp.
      change (pc (bumped (pst p))) with (pc (pst p)) in Hn0.
      destruct n0 as [x|]; cbn [nonempty].
      * destruct Hn0 as (_ & _ & Hix & _). rewrite Hix. split; [reflexivity|intros E; discriminate E].
      * destruct Hn0 as [Hpc0 Hix]. rewrite Hix. split; [reflexivity|]. intros _. rewrite Hpc0, Hix. reflexivity.
Qed.

(** * The bubble pattern of a straight-line run: bubbles, then instructions, then bubbles *)
Definition mono5 (b3 b2 b1 b0 bf : bool) : bool :=
  (* no occupied position behind an empty one behind an occupied one, oldest first *)
  negb (b3 && negb b2 && (b1 || b0 || bf)) && negb (b3 && negb b1 && (b0 || bf)) &&
  negb (b3 && negb b0 && bf) && negb (b2 && negb b1 && (b0 || bf)) &&
  negb (b2 && negb b0 && bf) && negb (b1 && negb b0 && bf).

Definition settled (L : lag) : Prop := lr1 L = regs (lt L) /\ lr2 L = regs (lt L).

Lemma settled_bub L : settled L -> bub L = L.
Proof. destruct L as [t r1 r2]. unfold settled, bub. cbn. intros [-> ->]. reflexivity. Qed.

Definition Pat (p : pstate) (L : lag) (l0 l1 l2 l3 : latch) : Prop :=
  let bf := has_instr (im (pst p)) (pc (pst p)) in
  stalled p = None /\
  mono5 (nonempty l3) (nonempty l2) (nonempty l1) (nonempty l0) bf = true /\
  (settled L \/ nonempty l3 = true \/
   (nonempty l2 = false /\ nonempty l1 = false /\ nonempty l0 = false /\ bf = false)).

Lemma Pat_step p p' L l0 l1 l2 l3 n0 n1 n2 n3 n4 : Pat p L l0 l1 l2 l3 -> shifted p p' l0 l1 l2 l3 ->
  lat p' = [n0; n1; n2; n3; n4] -> Pat p' (advL l3 L) n0 n1 n2 n3.
Proof.
  intros (_ & Hm & Hs) (Hst & m0 & m1 & m2 & m3 & m4 & Hl' & E3 & E2 & E1 & E0 & Ef) Hl.
  rewrite Hl in Hl'. injection Hl' as <- <- <- <- <-.
  unfold Pat. cbv zeta in *. split; [exact Hst|]. rewrite E3, E2, E1, E0.
  destruct (nonempty l3) eqn:B3, (nonempty l2) eqn:B2, (nonempty l1) eqn:B1, (nonempty l0) eqn:B0,
    (has_instr (im (pst p)) (pc (pst p))) eqn:Bf; cbn in Hm; try discriminate Hm;
    rewrite E0 in Ef; try rewrite (Ef eq_refl);
    (split; [destruct (has_instr (im (pst p')) (pc (pst p'))); reflexivity|]);
    try (right; left; reflexivity);
    try (right; right; repeat split; reflexivity);
    destruct Hs as [Hs|[Hs|(H2 & H1 & H0 & Hf)]]; try discriminate;
    left; destruct l3; try discriminate B3; cbn [advL nonempty]; rewrite (settled_bub _ Hs); exact Hs.
Qed.

(** * The reference run without bubbles (what [dwb_run] is on a straight-line program) *)
Fixpoint lag_run (fuel : nat) (L : lag) : st * run_end :=
  match fuel with
  | O => (lt L, if single_done (lt L) then Done else OutOfFuel)
  | S k => if single_done (lt L) then (lt L, Done)
           else match lstep L with
                | (L', Some f) => (lt L', Faulted f)
                | (L', None) => lag_run k L'
                end
  end.
Fixpoint lag_trace (fuel : nat) (L : lag) : list Z :=
  match fuel with
  | O => []
  | S k => if single_done (lt L) then []
           else match lstep L with
                | (_, Some _) => []
                | (L', None) => pc (lt L) :: lag_trace k L'
                end
  end.

Lemma lag_run_done n L : single_done (lt L) = true -> lag_run n L = (lt L, Done) /\ lag_trace n L = [].
Proof. intros H. destruct n; cbn [lag_run lag_trace]; rewrite H; split; reflexivity. Qed.
Lemma lag_run_step k L L' : single_done (lt L) = false -> lstep L = (L', None) ->
  lag_run (S k) L = lag_run k L' /\ lag_trace (S k) L = pc (lt L) :: lag_trace k L'.
Proof. intros H E. cbn [lag_run lag_trace]. rewrite H, E. split; reflexivity. Qed.
Lemma lag_run_fault k L L' f : single_done (lt L) = false -> lstep L = (L', Some f) ->
  lag_run (S k) L = (lt L', Faulted f).
Proof. intros H E. cbn [lag_run]. rewrite H, E. reflexivity. Qed.

Definition dsim_goal (n : nat) (L : lag) (p : pstate) : Prop :=
  match lag_run n L with
  | (s', Done) => exists c p', Z.of_nat c <= 5 * Z.of_nat n + mu p /\
      pipe_run c p = (p', PDone) /\ arch_agree p' s' /\ pipe_trace c p = lag_trace n L
  | (s', Faulted f) => exists c p', Z.of_nat c <= 5 * Z.of_nat n + mu p + 1 /\
      pipe_run c p = (p', PFaulted f) /\
      regs (pst p') = regs s' /\ ms (pst p') = ms s' /\ out (pst p') = out s'
  | (_, OutOfFuel) => True
  end.

Definition DInvP (p : pstate) (L : lag) : Prop :=
  exists l0 l1 l2 l3 l4 dead, DInvAt P p L l0 l1 l2 l3 l4 dead /\ Pat p L l0 l1 l2 l3.

Lemma dsim_done n L p : DInvP p L -> single_done (lt L) = true -> dsim_goal n L p.
Proof.
  intros (l0 & l1 & l2 & l3 & l4 & dead & I & _) Hd. unfold dsim_goal.
  destruct (lag_run_done n L Hd) as [-> ->].
  destruct (ddone_empty P _ _ _ _ _ _ _ _ I Hd) as [-> ->].
  exists 0%nat, p. pose proof (mu_bounds p (dv_shape _ _ _ _ _ _ _ _ _ I)).
  split; [lia|]. split; [cbn [pipe_run]; rewrite (ddone_iff P _ _ _ _ _ _ _ _ I), Hd; reflexivity|].
  split; [eapply dinv_empty_agree; eauto|reflexivity].
Qed.

Lemma dsim n : forall L p, DInvP p L -> dsim_goal n L p.
Proof.
  induction n as [|k IHk]; intros L p Hinv.
  { destruct (single_done (lt L)) eqn:Hd; [apply dsim_done; assumption|].
    unfold dsim_goal. cbn [lag_run]. rewrite Hd. exact Logic.I. }
  remember (Z.to_nat (mu p)) as m eqn:Hm. revert p Hinv Hm.
  induction m as [m IHm] using lt_wf_ind. intros p Hinv Hm.
  destruct (single_done (lt L)) eqn:Hd; [apply dsim_done; assumption|].
  destruct Hinv as (l0 & l1 & l2 & l3 & l4 & dead & I & HPat).
  pose proof (dv_shape _ _ _ _ _ _ _ _ _ I) as Sh. pose proof (mu_bounds p Sh) as Hmu.
  assert (Hpd : pipe_done p = false) by (rewrite (ddone_iff P _ _ _ _ _ _ _ _ I); exact Hd).
  pose proof HPat as (Hst & _ & HPs).
  pose proof (dstep_normal _ _ _ _ _ _ _ _ I Hst Hpd) as Hstep. unfold dstep_goal in Hstep.
  (* what the retirement of latch 3 means for the reference machine *)
  assert (H3 : forall x3, l3 = Some x3 -> lstep L = (lnxt L, None) /\ sl_addr x3 = pc (lt L)).
  { intros x3 ->. destruct (dv_l3 _ _ _ _ _ _ _ _ _ I) as (_ & (_ & Ha & _) & _ & Hok & _).
    split; [|exact Ha]. unfold lnxt. destruct (lstep L) as [L1 o] eqn:E. cbn [fst].
    assert (Ho : o = snd (single_pipeline_step (uview L))) by (unfold lstep, vstep in E; injection E as _ <-; reflexivity).
    rewrite Ho, Hok. reflexivity. }
  assert (Hnext : forall p', shifted p p' l0 l1 l2 l3 -> DInv P p' (advL l3 L) -> DInvP p' (advL l3 L)).
  { intros p' Hsh (m0 & m1 & m2 & m3 & m4 & dd & I'). exists m0, m1, m2, m3, m4, dd. split; [exact I'|].
    eapply Pat_step; [exact HPat|exact Hsh|apply (dv_lat _ _ _ _ _ _ _ _ _ I')]. }
  destruct (pipe_step p) as [p' [f|]] eqn:Hps.
  - destruct Hstep as (Lm & Hss & Hnd & Hr & Hms & Ho).
    destruct l3 as [x3|]; cbn [advL nonempty] in *.
    + destruct (H3 x3 eq_refl) as [Hs3 _]. unfold dsim_goal.
      destruct (lag_run_step k L _ Hd Hs3) as [-> _].
      destruct k as [|k']; [cbn [lag_run]; rewrite Hnd; exact Logic.I|].
      rewrite (lag_run_fault k' _ _ _ Hnd Hss).
      exists 1%nat, p'. split; [lia|]. split; [apply pipe_run_fault; assumption|]. repeat split; assumption.
    + (* a bubble retires: the pipeline is filling, the reference state is settled *)
      assert (Hset : bub L = L).
      { destruct HPs as [Hs|[Hs|(H2 & H1 & H0 & Hf)]]; [apply settled_bub; exact Hs|discriminate Hs|].
        exfalso. unfold pipe_done, pipe_empty in Hpd.
        rewrite (dv_exitc _ _ _ _ _ _ _ _ _ I), (dv_lat _ _ _ _ _ _ _ _ _ I) in Hpd. lat5h Hpd.
        rewrite H2, H1, H0, Hf in Hpd. discriminate Hpd. }
      rewrite Hset in *. unfold dsim_goal. rewrite (lag_run_fault k _ _ _ Hd Hss).
      exists 1%nat, p'. split; [lia|]. split; [apply pipe_run_fault; assumption|]. repeat split; assumption.
  - destruct Hstep as (Hinv' & Hl4 & Hmu' & Hsh).
    pose proof (Hnext p' Hsh Hinv') as HinvP'.
    destruct l3 as [x3|]; cbn [advL nonempty option_map] in *.
    + destruct (H3 x3 eq_refl) as [Hs3 Ha3]. specialize (IHk (lnxt L) p' HinvP').
      unfold dsim_goal in *. destruct (lag_run_step k L _ Hd Hs3) as [-> ->].
      assert (Hmu4 : 0 <= mu p' <= 4).
      { destruct Hinv' as (? & ? & ? & ? & ? & ? & I'). apply mu_bounds. apply (dv_shape _ _ _ _ _ _ _ _ _ I'). }
      destruct (lag_run k (lnxt L)) as [s' [|f|]]; [| |exact Logic.I].
      * destruct IHk as (c & p'' & Hc & Hrun & Hag & Htr). exists (S c), p''.
        destruct (pipe_run_step c p p' Hpd Hps) as [-> ->]. rewrite Hl4. cbn [some_addr wb_slot sl_addr app].
        split; [lia|]. split; [exact Hrun|]. split; [exact Hag|]. rewrite Htr, Ha3. reflexivity.
      * destruct IHk as (c & p'' & Hc & Hrun & Hag). exists (S c), p''.
        destruct (pipe_run_step c p p' Hpd Hps) as [-> _]. split; [lia|]. split; assumption.
    + specialize (Hmu' eq_refl).
      assert (Hset : bub L = L).
      { destruct HPs as [Hs|[Hs|(H2 & H1 & H0 & Hf)]]; [apply settled_bub; exact Hs|discriminate Hs|].
        exfalso. unfold pipe_done, pipe_empty in Hpd.
        rewrite (dv_exitc _ _ _ _ _ _ _ _ _ I), (dv_lat _ _ _ _ _ _ _ _ _ I) in Hpd. lat5h Hpd.
        rewrite H2, H1, H0, Hf in Hpd. discriminate Hpd. }
      rewrite Hset in *.
      assert (Hlt : (Z.to_nat (mu p') < m)%nat).
      { destruct Hinv' as (? & ? & ? & ? & ? & ? & I'). pose proof (mu_bounds p' (dv_shape _ _ _ _ _ _ _ _ _ I')). lia. }
      specialize (IHm _ Hlt p' HinvP' eq_refl). unfold dsim_goal in *.
      destruct (lag_run (S k) L) as [s' [|f|]]; [| |exact Logic.I].
      * destruct IHm as (c & p'' & Hc & Hrun & Hag & Htr). exists (S c), p''.
        destruct (pipe_run_step c p p' Hpd Hps) as [-> ->]. rewrite Hl4. cbn [some_addr app].
        split; [lia|]. split; [exact Hrun|]. split; assumption.
      * destruct IHm as (c & p'' & Hc & Hrun & Hag). exists (S c), p''.
        destruct (pipe_run_step c p p' Hpd Hps) as [-> _]. split; [lia|]. split; assumption.
Qed.

(** * [dwb_run] on a straight-line program: no bubbles *)
Lemma dwb_step_straight d i : instr_at (prog (im (lt (dl d)))) (pc (lt (dl d))) = Some i ->
  straight i = true ->
  dwb_step d = ({| dl := lnxt (dl d); do1 := true; do2 := do1 d |}, snd (lstep (dl d))).
Proof.
  intros Hi Hs. unfold dwb_step. rewrite Hi, (straight_not_ecall i Hs). cbn [andb].
  rewrite (straight_no_redirect i _ Hs). fold (lnxt (dl d)).
  destruct (snd (lstep (dl d))); reflexivity.
Qed.

Lemma dwb_run_straight n : forall d, wfL (dl d) -> prog (im (lt (dl d))) = P ->
  dwb_run_from n d = lag_run n (dl d) /\ dwb_trace_from n d = lag_trace n (dl d).
Proof.
  induction n as [|k IH]; intros d WL HP; cbn [dwb_run_from lag_run dwb_trace_from lag_trace];
    [split; reflexivity|].
  destruct (single_done (lt (dl d))) eqn:Hd; [split; reflexivity|].
  unfold single_done, has_instr in Hd. destruct (exitc (lt (dl d))) eqn:Hex; [discriminate Hd|].
  destruct (instr_at (prog (im (lt (dl d)))) (pc (lt (dl d)))) as [i|] eqn:Hi; [|discriminate Hd].
  assert (Hs : straight i = true) by (apply (str_at P HS (pc (lt (dl d)))); rewrite <- HP; exact Hi).
  rewrite (dwb_step_straight d i Hi Hs).
  destruct (wfL_lnxt (dl d) i WL Hex Hi) as [WL' HP']. unfold lnxt in *.
  destruct (lstep (dl d)) as [L' [f|]]; cbn [fst snd dl lt] in *; [split; reflexivity|].
  destruct (IH {| dl := L'; do1 := true; do2 := do1 d |} WL' ltac:(cbn [dl]; congruence)) as [A B].
  cbn [dl] in *. rewrite A, B. split; reflexivity.
Qed.

End Straight.

(** * The characterisation for straight-line programs *)
Theorem flagoff_is_dwb_straight P s n :
  Forall (fun i => straight i = true) P -> wf s -> prog (im s) = P ->
  match dwb_run n s with
  | (s', Done) => exists c p, (c <= 8 * n + 8)%nat /\
      pipe_run c (pipe_init s false) = (p, PDone) /\ arch_agree p s' /\
      pipe_trace c (pipe_init s false) = dwb_trace n s
  | (s', Faulted f) => exists c p, (c <= 8 * n + 8)%nat /\
      pipe_run c (pipe_init s false) = (p, PFaulted f) /\
      regs (pst p) = regs s' /\ ms (pst p) = ms s' /\ out (pst p) = out s'
  | (_, OutOfFuel) => True
  end.
Proof.
  intros HS W HP.
  assert (WL : wfL (lag_init s)) by (split; [exact W|split; apply (wf_r _ W)]).
  unfold dwb_run, dwb_trace.
  destruct (dwb_run_straight P HS n (dwb_init s) WL HP) as [-> ->]. change (dl (dwb_init s)) with (lag_init s).
  destruct (exitc s) as [c0|] eqn:Hex.
  - assert (Hd : single_done (lt (lag_init s)) = true) by (unfold single_done; cbn [lag_init lt]; rewrite Hex; reflexivity).
    destruct (lag_run_done n _ Hd) as [-> ->].
    exists 0%nat, (pipe_init s false). split; [lia|].
    split; [cbn [pipe_run]; unfold pipe_done; cbn [pipe_init pst]; rewrite Hex; reflexivity|].
    split; [unfold arch_agree; cbn [pipe_init pst lag_init lt]; repeat split|reflexivity].
  - assert (HI : DInvP P (pipe_init s false) (lag_init s)).
    { destruct (dinv_init P s W HP Hex) as (l0 & l1 & l2 & l3 & l4 & dead & I).
      exists l0, l1, l2, l3, l4, dead. split; [exact I|].
      pose proof (dv_lat _ _ _ _ _ _ _ _ _ I) as Hl. cbn [pipe_init lat] in Hl. injection Hl as <- <- <- <- <-.
      split; [reflexivity|]. cbv zeta. cbn [nonempty].
      split; [destruct (has_instr _ _); reflexivity|]. left. split; reflexivity. }
    pose proof (dsim P HS n _ _ HI) as H. unfold dsim_goal in H.
    assert (Hmu : mu (pipe_init s false) = 4) by reflexivity. rewrite Hmu in H.
    destruct (lag_run n (lag_init s)) as [s' [|f|]]; [| |exact Logic.I].
    + destruct H as (c & p & Hc & Hrun & Hag & Htr). exists c, p. split; [lia|]. split; [exact Hrun|split; assumption].
    + destruct H as (c & p & Hc & Hrun & Hag). exists c, p. split; [lia|]. split; assumption.
Qed.
Print Assumptions flagoff_is_dwb_straight.
