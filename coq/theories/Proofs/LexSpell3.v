(* LexSpell3.v — from source lines: texts that lex, line by line, to token lines equal up to the spelling of
   registers and numbers load identically (error, image, state). *)
From Coq Require Import String.
From Coq Require Import ZArith List Bool Lia.
From ArchSim Require Import Model.Base Model.Mem Model.Cache Model.Fmt Model.RV Model.Toy Model.Asm Model.Lex
  Proofs.LexSpell1 Proofs.LexSpell2.
Import ListNotations.
Open Scope Z_scope.

(** * the relation on the lexer's token lines (names are strings) *)
Definition nvar_eq (a b : str * option str) : Prop := fst a = fst b /\ orel lit10_eq (snd a) (snd b).
Definition ntok_rel (i j : ntok) : Prop :=
  n_mn i = n_mn j /\
  orel reg_eq (n_rd i) (n_rd j) /\ orel reg_eq (n_rs1 i) (n_rs1 j) /\ orel reg_eq (n_rs2 i) (n_rs2 j) /\
  orel reg_eq (n_reg1 i) (n_reg1 j) /\ orel reg_eq (n_reg2 i) (n_reg2 j) /\ orel reg_eq (n_rs i) (n_rs j) /\
  orel lit0_eq (n_imm i) (n_imm j) /\ orel lit0_eq (n_csr i) (n_csr j) /\ orel lit0_eq (n_uimm i) (n_uimm j) /\
  orel lit0_eq (n_offset i) (n_offset j) /\
  n_label i = n_label j /\ orel nvar_eq (n_var i) (n_var j).
Definition nbody_rel (a b : nbody) : Prop :=
  match a, b with NStr k, NStr k' => k = k' | NIns i, NIns j => ntok_rel i j | _, _ => False end.
Definition nline_rel (a b : nline) : Prop :=
  match a, b with
  | NDirective d, NDirective d' => d = d'
  | NVarDecl n ty v, NVarDecl n' ty' v' => n = n' /\ ty = ty' /\ Forall2 lit0_eq v v'
  | NStrDecl n s, NStrDecl n' s' => n = n' /\ s = s'
  | NZeroDecl n v, NZeroDecl n' v' => n = n' /\ lit10_eq v v'
  | NLabelDecl n, NLabelDecl n' => n = n'
  | NInstr il b, NInstr il' b' => il = il' /\ nbody_rel b b'
  | _, _ => False
  end.
(* two source lines *)
Definition line_rel (l l' : str) : Prop :=
  match lex_line l, lex_line l' with
  | LexSkip, LexSkip => True                 (* both blank or comment *)
  | LexSyntax, LexSyntax => True             (* both rejected by the grammar *)
  | LexOk n, LexOk n' => nline_rel n n'
  | _, _ => False
  end.
Definition same_up_to_spelling : list str -> list str -> Prop := Forall2 line_rel.

Lemma ntok_rel_refl i : ntok_rel i i.
Proof.
  unfold ntok_rel. repeat split; try (apply orel_refl; intros x; reflexivity).
  apply orel_refl. intros [n idx]. split; [reflexivity|]. apply orel_refl. intros x; reflexivity.
Qed.
Lemma nline_rel_refl n : nline_rel n n.
Proof.
  destruct n as [d|n ty v|n s|n v|n|il b]; cbn; auto.
  - repeat split. apply Forall2_refl. intros x; reflexivity.
  - split; reflexivity.
  - split; [reflexivity|]. destruct b; cbn; [reflexivity|apply ntok_rel_refl].
Qed.
Lemma line_rel_of_eq l l' : lex_line l = lex_line l' -> line_rel l l'.
Proof. unfold line_rel. intros <-. destruct (lex_line l); auto. apply nline_rel_refl. Qed.

(** * interning *)
Lemma intern_tok_rel names i j : ntok_rel i j ->
  fst (intern_tok names i) = fst (intern_tok names j) /\ itok_rel (snd (intern_tok names i)) (snd (intern_tok names j)).
Proof.
  intros (Hmn & Hrd & Hrs1 & Hrs2 & Hr1 & Hr2 & Hrs & Himm & Hcsr & Hu & Hoff & Hlab & Hvar).
  unfold intern_tok. rewrite <- Hlab. destruct (intern_opt names (n_label i)) as [t1 lab].
  destruct (n_var i) as [[v idx]|], (n_var j) as [[v' idx']|]; cbn in Hvar; try contradiction.
  - destruct Hvar as [Hv Hi]. cbn [fst snd] in Hv, Hi. subst v'. destruct (intern t1 v) as [t' k]. cbn [fst snd].
    split; [reflexivity|]. unfold itok_rel; cbn. repeat split; auto.
  - cbn [fst snd]. split; [reflexivity|]. unfold itok_rel; cbn. repeat split; auto.
Qed.
Lemma intern_line_rel names n n' : nline_rel n n' ->
  fst (intern_line names n) = fst (intern_line names n') /\ rline_rel (snd (intern_line names n)) (snd (intern_line names n')).
Proof.
  destruct n as [d|n ty v|n s|n v|n|il b], n' as [d'|n' ty' v'|n' s'|n' v'|n'|il' b']; cbn [nline_rel]; intros H;
    try contradiction; cbn [intern_line].
  - subst. split; reflexivity.
  - destruct H as (<- & <- & Hv). destruct (intern names n) as [t k]. cbn. auto.
  - destruct H as (<- & <-). destruct (intern names n) as [t k]. cbn. auto.
  - destruct H as (<- & Hv). destruct (intern names n) as [t k]. cbn. auto.
  - subst n'. destruct (intern names n) as [t k]. cbn. auto.
  - destruct H as (<- & Hb). destruct (intern_opt names il) as [t1 il1].
    destruct b as [k|i], b' as [k'|j]; cbn in Hb; try contradiction.
    + subst k'. cbn. auto.
    + destruct (intern_tok_rel t1 i j Hb) as [E1 E2].
      destruct (intern_tok t1 i) as [t2 i2], (intern_tok t1 j) as [t2' j2]. cbn [fst snd] in *. subst t2'. cbn. auto.
Qed.

(** * the text pipeline *)
Definition ltres_rel (a b : ltres) : Prop :=
  match a, b with LTOk t, LTOk t' => toks_rel t t' | LTSyntax k, LTSyntax k' => k = k' | _, _ => False end.
Lemma lex_lines_rel ls ls' : same_up_to_spelling ls ls' -> forall ln names,
  ltres_rel (lex_lines ln names ls) (lex_lines ln names ls').
Proof.
  induction 1 as [|l l' ls ls' Hl _ IH]; intros ln names; [constructor|].
  cbn [lex_lines]. unfold line_rel in Hl.
  destruct (lex_line l) as [| |n], (lex_line l') as [| |n']; try contradiction.
  - apply IH.
  - reflexivity.
  - destruct (intern_line_rel names n n' Hl) as [E1 E2].
    destruct (intern_line names n) as [t rl], (intern_line names n') as [t' rl']. cbn [fst snd] in E1, E2. subst t'.
    specialize (IH (ln + 1) t). destruct (lex_lines (ln + 1) t ls), (lex_lines (ln + 1) t ls'); cbn in IH; try contradiction; cbn.
    + constructor; [split; [reflexivity|exact E2]|exact IH].
    + exact IH.
Qed.

(** G1: spelling of registers and numbers, layout, comments and mnemonic case do not influence load_program *)
Theorem rv_load_text_spelling s ls ls' : same_up_to_spelling ls ls' -> rv_load_text s ls = rv_load_text s ls'.
Proof.
  intros H. unfold rv_load_text, lex_text. pose proof (lex_lines_rel ls ls' H 1 []) as R.
  destruct (lex_lines 1 [] ls) as [t|k], (lex_lines 1 [] ls') as [t'|k']; cbn in R; try contradiction.
  - apply rv_load_rel, R.
  - subst k'. reflexivity.
Qed.

(** * a decision procedure for the relation (for closed examples) *)
Definition oeqb (a b : option Z) : bool :=
  match a, b with Some x, Some y => x =? y | None, None => true | _, _ => false end.
Lemma oeqb_eq a b : oeqb a b = true -> a = b.
Proof. destruct a, b; cbn; intros H; try discriminate; [apply Z.eqb_eq in H; subst|]; reflexivity. Qed.
Definition orelb {A} (f : A -> A -> bool) (a b : option A) : bool :=
  match a, b with Some x, Some y => f x y | None, None => true | _, _ => false end.
Lemma orelb_ok {A} (f : A -> A -> bool) (R : A -> A -> Prop) : (forall x y, f x y = true -> R x y) ->
  forall a b, orelb f a b = true -> orel R a b.
Proof. intros H [x|] [y|]; cbn; intros E; try discriminate; auto. Qed.
Definition regb (a b : regtok) := oeqb (reg_num a) (reg_num b).
Definition lit0b (a b : str) := oeqb (py_int0 a) (py_int0 b).
Definition lit10b (a b : str) := oeqb (py_int10 a) (py_int10 b).
Lemma str_eqb_eq a : forall b, str_eqb a b = true -> a = b.
Proof.
  induction a as [|x a IH]; intros [|y b] H; try discriminate; [reflexivity|]. cbn [str_eqb] in H.
  apply andb_true_iff in H as [H1 H2]. apply Z.eqb_eq in H1. subst. f_equal. apply IH, H2.
Qed.
Definition ostrb := orelb str_eqb.
Lemma ostrb_eq a b : ostrb a b = true -> a = b.
Proof. destruct a, b; cbn; intros H; try discriminate; [f_equal; apply str_eqb_eq, H|reflexivity]. Qed.
Definition nvarb (a b : str * option str) := str_eqb (fst a) (fst b) && orelb lit10b (snd a) (snd b).
Definition ntok_relb (i j : ntok) : bool :=
  (n_mn i =? n_mn j) && orelb regb (n_rd i) (n_rd j) && orelb regb (n_rs1 i) (n_rs1 j) && orelb regb (n_rs2 i) (n_rs2 j)
  && orelb regb (n_reg1 i) (n_reg1 j) && orelb regb (n_reg2 i) (n_reg2 j) && orelb regb (n_rs i) (n_rs j)
  && orelb lit0b (n_imm i) (n_imm j) && orelb lit0b (n_csr i) (n_csr j) && orelb lit0b (n_uimm i) (n_uimm j)
  && orelb lit0b (n_offset i) (n_offset j) && ostrb (n_label i) (n_label j) && orelb nvarb (n_var i) (n_var j).
Fixpoint forall2b {A} (f : A -> A -> bool) (l l' : list A) : bool :=
  match l, l' with [], [] => true | x :: t, y :: t' => f x y && forall2b f t t' | _, _ => false end.
Lemma forall2b_ok {A} (f : A -> A -> bool) (R : A -> A -> Prop) : (forall x y, f x y = true -> R x y) ->
  forall l l', forall2b f l l' = true -> Forall2 R l l'.
Proof.
  intros H. induction l as [|x t IH]; intros [|y t'] E; try discriminate; [constructor|].
  cbn in E. apply andb_true_iff in E as [E1 E2]. constructor; [apply H, E1|apply IH, E2].
Qed.
Definition nline_relb (a b : nline) : bool :=
  match a, b with
  | NDirective d, NDirective d' => d =? d'
  | NVarDecl n ty v, NVarDecl n' ty' v' => str_eqb n n' && (ty =? ty') && forall2b lit0b v v'
  | NStrDecl n s, NStrDecl n' s' => str_eqb n n' && str_eqb s s'
  | NZeroDecl n v, NZeroDecl n' v' => str_eqb n n' && lit10b v v'
  | NLabelDecl n, NLabelDecl n' => str_eqb n n'
  | NInstr il b, NInstr il' b' =>
      ostrb il il' && match b, b' with NStr k, NStr k' => k =? k' | NIns i, NIns j => ntok_relb i j | _, _ => false end
  | _, _ => false
  end.
Definition line_relb (l l' : str) : bool :=
  match lex_line l, lex_line l' with
  | LexSkip, LexSkip => true | LexSyntax, LexSyntax => true | LexOk n, LexOk n' => nline_relb n n' | _, _ => false
  end.
Definition spelling_check (ls ls' : list str) : bool := forall2b line_relb ls ls'.

Lemma ntok_relb_ok i j : ntok_relb i j = true -> ntok_rel i j.
Proof.
  unfold ntok_relb, ntok_rel. intros H. repeat (apply andb_true_iff in H as [H ?]).
  assert (Rg : forall a b, orelb regb a b = true -> orel reg_eq a b) by (apply orelb_ok; intros x y E; apply oeqb_eq, E).
  assert (L0 : forall a b, orelb lit0b a b = true -> orel lit0_eq a b) by (apply orelb_ok; intros x y E; apply oeqb_eq, E).
  repeat split; auto using ostrb_eq. - apply Z.eqb_eq, H.
  - eapply orelb_ok; [|eassumption]. intros [n a] [n' b] E. unfold nvarb in E. apply andb_true_iff in E as [E1 E2].
    split; [apply str_eqb_eq, E1|]. cbn [snd] in *. eapply orelb_ok; [|exact E2]. intros x y E; apply oeqb_eq, E.
Qed.
Lemma nline_relb_ok a b : nline_relb a b = true -> nline_rel a b.
Proof.
  destruct a as [d|n ty v|n s|n v|n|il x], b as [d'|n' ty' v'|n' s'|n' v'|n'|il' y]; cbn; intros H; try discriminate.
  - apply Z.eqb_eq, H.
  - apply andb_true_iff in H as [H H3]. apply andb_true_iff in H as [H1 H2].
    split; [apply str_eqb_eq, H1|]. split; [apply Z.eqb_eq, H2|]. eapply forall2b_ok; [|exact H3]. intros x y E; apply oeqb_eq, E.
  - apply andb_true_iff in H as [H1 H2]. split; apply str_eqb_eq; assumption.
  - apply andb_true_iff in H as [H1 H2]. split; [apply str_eqb_eq, H1|apply oeqb_eq, H2].
  - apply str_eqb_eq, H.
  - apply andb_true_iff in H as [H1 H2]. split; [apply ostrb_eq, H1|].
    destruct x, y; try discriminate; [apply Z.eqb_eq, H2|apply ntok_relb_ok, H2].
Qed.
Lemma spelling_check_ok ls ls' : spelling_check ls ls' = true -> same_up_to_spelling ls ls'.
Proof.
  apply forall2b_ok. intros l l' H. unfold line_relb, line_rel in *.
  destruct (lex_line l), (lex_line l'); try discriminate; auto. apply nline_relb_ok, H.
Qed.
