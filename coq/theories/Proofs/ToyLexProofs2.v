(* ToyLexProofs2.v — a printer of token lines with arbitrary layout and mnemonic spelling, and
   the round trip  lex_sanitised (render_body …) = Some t  for every well-formed token line. *)
From Coq Require Import Lia ZifyBool.
From ArchSim Require Import Model.Base Model.Fmt Model.Toy Model.ToyLex Proofs.ToyLexProofs1.
Open Scope Z_scope.

(** * printer: [g k] is the run of blanks/tabs put at the k-th token boundary, [sp] the spelling
      of the mnemonic *)
Fixpoint render_more (g : nat -> str) (k : nat) (vs : list str) : str :=
  match vs with
  | [] => []
  | v :: t => g k ++ [44] ++ g (S k) ++ v ++ render_more g (S (S k)) t
  end.
Definition kw_text : str := [116; 101; 120; 116].
Definition kw_data : str := [100; 97; 116; 97].
Definition kw_word : str := [119; 111; 114; 100].
Definition render_inline (g : nat -> str) (il : option str) : str :=
  match il with Some n => n ++ g 0%nat ++ [58] ++ g 1%nat | None => [] end.
Definition render_operand (g : nat -> str) (o : rtoperand) : str :=
  match o with RAddrLit v => g 2%nat ++ v | RLabel n => g 2%nat ++ n | RNoOperand => [] end.
Definition render_body (g : nat -> str) (sp : str) (t : rtline) : str :=
  match t with
  | RLDirective d => [46] ++ g 0%nat ++ (if d =? 0 then kw_text else kw_data)
  | RLVar n vals =>
      match vals with
      | [] => []
      | v :: vs => n ++ g 0%nat ++ [58] ++ g 1%nat ++ [46] ++ g 2%nat ++ kw_word ++ g 3%nat ++ v
                   ++ render_more g 4 vs
      end
  | RLInstr il op opnd => render_inline g il ++ sp ++ render_operand g opnd
  | RLLabel n => n ++ g 0%nat ++ [58]
  end.

(** * well-formed token lines (what the grammar can produce) *)
Definition wf_operand (op : Z) (o : rtoperand) : Prop :=
  match o with
  | RAddrLit v => op <= 7 /\ is_value v = true
  | RLabel n => op <= 7 /\ is_word n = true
  | RNoOperand => 8 <= op
  end.
Definition wf_rtline (sp : str) (t : rtline) : Prop :=
  match t with
  | RLDirective d => d = 0 \/ d = 1
  | RLVar n vals => is_word n = true /\ vals <> [] /\ forallb is_value vals = true
  | RLInstr il op opnd =>
      match il with Some n => is_word n = true | None => True end /\
      0 <= op <= 12 /\ spells sp op /\ wf_operand op opnd
  | RLLabel n => is_word n = true
  end.
Definition gaps_ok (g : nat -> str) : Prop := forall k, blanks (g k) = true.

(** * failing alternatives *)
Lemma alpha_facts c : is_alpha_ c = true -> is_pws c = false /\ c <> 46 /\ c <> 58 /\ is_digit c = false.
Proof. cls. lia. Qed.

Lemma lex_directive_alpha c r : is_alpha_ c = true -> lex_directive (c :: r) = None.
Proof.
  intros H. destruct (alpha_facts c H) as (Hp & H46 & _). unfold lex_directive.
  rewrite lex_lit_fail by assumption. reflexivity.
Qed.
Lemma lex_vardecl_nolabel s : lex_label_decl s = None -> lex_vardecl s = None.
Proof. intros H. unfold lex_vardecl. rewrite H. reflexivity. Qed.
Lemma lex_labelline_nolabel s : lex_label_decl s = None -> lex_labelline s = None.
Proof. intros H. unfold lex_labelline. rewrite H. reflexivity. Qed.

Lemma prefix_ci_nonletter p pt d s : is_upper p = true -> is_alpha_ d = false -> prefix_ci (p :: pt) (d :: s) = None.
Proof.
  intros Hp Hd. cbn [prefix_ci]. replace (to_upper d =? p) with false; [reflexivity|].
  unfold to_upper. cls. destruct ((97 <=? d) && (d <=? 122)) eqn:E; lia.
Qed.
Lemma lex_mnemonic_nonletter tbl d s : (tbl = addr_mnemonics \/ tbl = noaddr_mnemonics) ->
  is_pws d = false -> is_alpha_ d = false -> lex_mnemonic tbl (d :: s) = None.
Proof.
  intros Ht Hp Hd. unfold lex_mnemonic. rewrite skip_ws_stop by exact Hp.
  destruct Ht as [-> | ->]; cbv [addr_mnemonics noaddr_mnemonics codes first_ci Ascii.nat_of_ascii Ascii.N_of_ascii Ascii.N_of_digits];
    cbn [N.to_nat Pos.to_nat Pos.iter_op Nat.add Z.of_nat Pos.of_succ_nat Pos.succ N.add N.mul Pos.add Pos.mul];
    repeat (rewrite prefix_ci_nonletter by (try reflexivity; exact Hd)); reflexivity.
Qed.
Lemma lex_mnemonic_nil_addr : lex_mnemonic addr_mnemonics [] = None.   Proof. reflexivity. Qed.
Lemma lex_mnemonic_nil_noaddr : lex_mnemonic noaddr_mnemonics [] = None. Proof. reflexivity. Qed.

(** * character inventory of the pieces *)
Definition plainc (c : Z) : bool := is_alnum_ c || blank c.
Definition plain (s : str) : bool := forallb plainc s.

Lemma forallb_impl (p q : Z -> bool) s : (forall c, p c = true -> q c = true) -> forallb p s = true -> forallb q s = true.
Proof.
  intros Hpq. induction s as [|c s IH]; [reflexivity|]. cbn [forallb]. intros H.
  apply andb_prop in H as [Hc Hs]. rewrite (Hpq c Hc), (IH Hs). reflexivity.
Qed.
Lemma plain_app a b : plain (a ++ b) = plain a && plain b.
Proof. apply forallb_app. Qed.
Lemma alnums_plain s : forallb is_alnum_ s = true -> plain s = true.
Proof. apply forallb_impl. intros c H. unfold plainc. rewrite H. reflexivity. Qed.
Lemma blanks_plain s : blanks s = true -> plain s = true.
Proof. apply forallb_impl. intros c H. unfold plainc. rewrite H. apply orb_true_r. Qed.
Lemma word_alnums n : is_word n = true -> forallb is_alnum_ n = true.
Proof.
  destruct n as [|c w]; [discriminate|]. cbn [is_word forallb]. intros H. apply andb_prop in H as [Hc Hw].
  rewrite (alpha_alnum c Hc), Hw. reflexivity.
Qed.
Lemma value_alnums v : is_value v = true -> forallb is_alnum_ v = true.
Proof.
  unfold is_value. intros H. apply orb_prop in H as [H|H].
  - destruct v as [|c1 [|c2 h]]; try discriminate. cbn [is_hexlit] in H.
    apply andb_prop in H as [H Hh]. apply andb_prop in H as [H _]. apply andb_prop in H as [H1 H2].
    cbn [forallb]. rewrite (forallb_impl _ _ h hexdigit_alnum Hh).
    assert (c1 = 48) by lia. assert (c2 = 120) by lia. subst. reflexivity.
  - destruct v as [|c v]; [discriminate|]. cbn [is_dec] in H. exact (forallb_impl _ _ _ digit_alnum H).
Qed.
Lemma upper_of_alpha c : is_upper (to_upper c) = true -> is_alpha_ c = true.
Proof. unfold to_upper. cls. destruct ((97 <=? c) && (c <=? 122)) eqn:E; lia. Qed.
Lemma mnemonic_upper op : forallb is_upper (mnemonic_of op) = true.
Proof.
  unfold mnemonic_of. destruct op as [|p|p]; try reflexivity.
  do 4 (destruct p as [p|p|]; try reflexivity).
Qed.
Lemma spells_alphas sp op : spells sp op -> forallb is_alpha_ sp = true.
Proof.
  unfold spells. intros H. pose proof (mnemonic_upper op) as Hu. rewrite <- H in Hu. clear H.
  induction sp as [|c sp IH]; [reflexivity|]. cbn [map forallb] in *. apply andb_prop in Hu as [Hc Hs].
  rewrite (upper_of_alpha c Hc), (IH Hs). reflexivity.
Qed.
Lemma spells_head sp op : spells sp op -> exists a t, sp = a :: t /\ is_alpha_ a = true.
Proof.
  intros H. pose proof (spells_alphas sp op H) as Ha. destruct sp as [|a t].
  - exfalso. unfold spells, mnemonic_of in H. cbn [map] in H.
    destruct op as [|p|p]; try discriminate H. do 4 (destruct p as [p|p|]; try discriminate H).
  - cbn [forallb] in Ha. apply andb_prop in Ha as [Ha _]. exists a, t. split; [reflexivity | exact Ha].
Qed.
Lemma spells_alnums sp op : spells sp op -> forallb is_alnum_ sp = true.
Proof. intros H. exact (forallb_impl _ _ _ alpha_alnum (spells_alphas sp op H)). Qed.

Lemma plain_nocolon s : plain s = true -> ~ In 58 s.
Proof.
  intros H Hin. unfold plain in H. rewrite forallb_forall in H. specialize (H 58 Hin). discriminate H.
Qed.

(** * the value list of a declaration *)
Lemma stop_render_more g k vs : gaps_ok g -> stop (render_more g k vs) = true.
Proof.
  intros Hg. destruct vs as [|v t]; [reflexivity|]. cbn [render_more].
  apply stop_blanks; [apply Hg | reflexivity].
Qed.
Lemma render_more_length g k vs : (length vs <= length (render_more g k vs))%nat.
Proof.
  revert k. induction vs as [|v t IH]; intros k; [apply Nat.le_refl|]. cbn [render_more length].
  rewrite !app_length. cbn [length]. specialize (IH (S (S k))). lia.
Qed.
Lemma lex_more_values_render g : gaps_ok g -> forall vs k fuel, forallb is_value vs = true ->
  (length vs <= fuel)%nat -> lex_more_values fuel (render_more g k vs) = (vs, []).
Proof.
  intros Hg. induction vs as [|v t IH]; intros k fuel Hv Hf.
  - destruct fuel; reflexivity.
  - destruct fuel as [|f]; [cbn [length] in Hf; lia|]. cbn [forallb] in Hv. apply andb_prop in Hv as [Hv Ht].
    cbn [render_more lex_more_values].
    rewrite (lex_lit_app 44 [] (g k) _ (Hg k) eq_refl).
    rewrite (lex_value_app (g (S k)) v _ (Hg (S k)) Hv (stop_render_more g _ t Hg)).
    rewrite IH; [reflexivity | exact Ht | cbn [length] in Hf; lia].
Qed.

(** * the alternatives on each kind of body *)
Lemma lex_value_skip w s : blanks w = true -> lex_value (w ++ s) = lex_value s.
Proof. intros H. unfold lex_value, lex_hex, lex_dec. rewrite skip_ws_blanks by exact H. reflexivity. Qed.
Lemma lex_mnemonic_skip tbl w s : blanks w = true -> lex_mnemonic tbl (w ++ s) = lex_mnemonic tbl s.
Proof. intros H. unfold lex_mnemonic. rewrite skip_ws_blanks by exact H. reflexivity. Qed.
Lemma lex_lit_skip l w s : blanks w = true -> lex_lit l (w ++ s) = lex_lit l s.
Proof. intros H. unfold lex_lit. rewrite skip_ws_blanks by exact H. reflexivity. Qed.

(* mnemonic + operand, after an optional in-line label and blanks *)
Lemma lex_instr_core il w g sp op opnd : gaps_ok g -> blanks w = true -> 0 <= op <= 12 -> spells sp op ->
  wf_operand op opnd ->
  longer (lex_addr_instr il (w ++ sp ++ render_operand g opnd))
         (lex_noaddr_instr il (w ++ sp ++ render_operand g opnd)) = Some (RLInstr il op opnd, []).
Proof.
  intros Hg Hw Hop Hsp Hwf.
  destruct (lex_mnemonic_spelled op sp w (render_operand g opnd) Hop Hsp Hw) as [Hm Ho].
  unfold lex_addr_instr, lex_noaddr_instr, table_of, other_table_of in *.
  destruct opnd as [v|n|]; cbn [wf_operand render_operand] in *.
  - destruct Hwf as [Hle Hv]. replace (op <=? 7) with true in * by lia. rewrite Hm, Ho.
    pose proof (lex_value_app (g 2%nat) v [] (Hg 2%nat) Hv eq_refl) as Hv'. rewrite app_nil_r in Hv'.
    rewrite Hv'. reflexivity.
  - destruct Hwf as [Hle Hn]. replace (op <=? 7) with true in * by lia. rewrite Hm, Ho.
    rewrite lex_value_skip by apply Hg.
    destruct (is_word_head n Hn) as (c & t & -> & Hc). destruct (alpha_facts c Hc) as (Hp & _ & _ & Hd).
    rewrite lex_value_fail by assumption.
    pose proof (lex_word_app (g 2%nat) (c :: t) [] (Hg 2%nat) Hn eq_refl) as Hw'. rewrite app_nil_r in Hw'.
    rewrite Hw'. reflexivity.
  - replace (op <=? 7) with false in * by lia. rewrite Hm, Ho. reflexivity.
Qed.

Lemma render_operand_plain g op opnd : gaps_ok g -> wf_operand op opnd -> plain (render_operand g opnd) = true.
Proof.
  intros Hg H. destruct opnd as [v|n|]; cbn [wf_operand render_operand] in *; [| |reflexivity];
    destruct H as [_ H]; rewrite plain_app, (blanks_plain _ (Hg 2%nat)); cbn [andb]; apply alnums_plain.
  - apply value_alnums, H.
  - apply word_alnums, H.
Qed.

Lemma lex_lit_here c l r : is_pws c = false -> lex_lit (c :: l) ((c :: l) ++ r) = Some r.
Proof. intros H. exact (lex_lit_app c l [] r eq_refl H). Qed.

Lemma lex_lit_dot w r : blanks w = true -> lex_lit [46] (w ++ 46 :: r) = Some r.
Proof. intros H. exact (lex_lit_app 46 [] w r H eq_refl). Qed.
Lemma lex_lit_kw_word w r : blanks w = true -> lex_lit kw_word (w ++ kw_word ++ r) = Some r.
Proof. intros H. exact (lex_lit_app 119 [111; 114; 100] w r H eq_refl). Qed.

Lemma longer_first_nil {A} (x : A) (b : option (A * str)) : longer (Some (x, [])) b = Some (x, []).
Proof. destruct b as [[y rb]|]; [|reflexivity]. cbn [longer length]. destruct rb; reflexivity. Qed.

Theorem lex_body g sp t : gaps_ok g -> wf_rtline sp t -> lex_sanitised (render_body g sp t) = Some t.
Proof.
  intros Hg Hwf. unfold lex_sanitised. destruct t as [d|n vals|il op opnd|n]; cbn [wf_rtline render_body] in *.
  - (* directive *)
    assert (Hd : lex_directive ([46] ++ g 0%nat ++ (if d =? 0 then kw_text else kw_data)) = Some (RLDirective d, [])).
    { unfold lex_directive. rewrite (lex_lit_here 46 [] _ eq_refl).
      rewrite skip_ws_blanks by apply Hg. destruct Hwf as [-> | ->]; reflexivity. }
    rewrite Hd. rewrite !longer_first_nil. reflexivity.
  - (* variable declaration *)
    destruct Hwf as (Hn & Hne & Hv). destruct vals as [|v vs]; [contradiction|]. clear Hne.
    cbn [forallb] in Hv. apply andb_prop in Hv as [Hv Hvs].
    destruct (is_word_head n Hn) as (c & nt & -> & Hc).
    cbn [app]. rewrite lex_directive_alpha by exact Hc. cbn [longer].
    set (tail1 := g 1%nat ++ 46 :: g 2%nat ++ kw_word ++ g 3%nat ++ v ++ render_more g 4 vs).
    assert (Hl : lex_label_decl (c :: nt ++ g 0%nat ++ 58 :: tail1) = Some (c :: nt, tail1)).
    { exact (lex_label_decl_app [] (c :: nt) (g 0%nat) tail1 eq_refl Hn (Hg 0%nat)). }
    assert (Hvar : lex_vardecl (c :: nt ++ g 0%nat ++ 58 :: tail1) = Some (RLVar (c :: nt) (v :: vs), [])).
    { unfold lex_vardecl. rewrite Hl. unfold tail1. change (codes _) with kw_word.
      rewrite (lex_lit_dot (g 1%nat) _ (Hg 1%nat)).
      rewrite (lex_lit_kw_word (g 2%nat) _ (Hg 2%nat)).
      rewrite (lex_value_app (g 3%nat) v _ (Hg 3%nat) Hv (stop_render_more g _ vs Hg)).
      rewrite (lex_more_values_render g Hg vs 4 _ Hvs (render_more_length g 4 vs)). reflexivity. }
    rewrite Hvar. rewrite !longer_first_nil. reflexivity.
  - (* instruction *)
    destruct Hwf as (Hil & Hop & Hsp & Hopnd).
    destruct (spells_head sp op Hsp) as (a & spt & Esp & Ha).
    destruct il as [n|]; cbn [render_inline].
    + destruct (is_word_head n Hil) as (c & nt & -> & Hc).
      set (tail1 := g 1%nat ++ sp ++ render_operand g opnd).
      replace (((c :: nt) ++ g 0%nat ++ [58] ++ g 1%nat) ++ sp ++ render_operand g opnd)
        with (c :: nt ++ g 0%nat ++ 58 :: tail1) by (unfold tail1; cbn [app]; rewrite <- !app_assoc; reflexivity).
      assert (Hl : lex_label_decl (c :: nt ++ g 0%nat ++ 58 :: tail1) = Some (c :: nt, tail1)).
      { exact (lex_label_decl_app [] (c :: nt) (g 0%nat) tail1 eq_refl Hil (Hg 0%nat)). }
      rewrite lex_directive_alpha by exact Hc.
      assert (Hvar : lex_vardecl (c :: nt ++ g 0%nat ++ 58 :: tail1) = None).
      { unfold lex_vardecl. rewrite Hl. unfold tail1. rewrite lex_lit_skip by apply Hg. rewrite Esp.
        destruct (alpha_facts a Ha) as (Hp & H46 & _). cbn [app]. rewrite lex_lit_fail by assumption. reflexivity. }
      rewrite Hvar. cbn [longer].
      assert (Hi : lex_instr (c :: nt ++ g 0%nat ++ 58 :: tail1) = Some (RLInstr (Some (c :: nt)) op opnd, [])).
      { unfold lex_instr. rewrite Hl. unfold tail1. apply lex_instr_core; try assumption. apply Hg. }
      rewrite Hi. rewrite longer_first_nil. reflexivity.
    + cbn [app].
      assert (Hnc : lex_label_decl (sp ++ render_operand g opnd) = None).
      { apply lex_label_decl_nocolon, plain_nocolon. rewrite plain_app.
        rewrite (alnums_plain _ (spells_alnums sp op Hsp)), (render_operand_plain g op opnd Hg Hopnd). reflexivity. }
      rewrite (lex_vardecl_nolabel _ Hnc), (lex_labelline_nolabel _ Hnc).
      assert (Hd : lex_directive (sp ++ render_operand g opnd) = None).
      { rewrite Esp. cbn [app]. apply lex_directive_alpha, Ha. }
      rewrite Hd. cbn [longer].
      assert (Hi : lex_instr (sp ++ render_operand g opnd) = Some (RLInstr None op opnd, [])).
      { unfold lex_instr. rewrite Hnc. exact (lex_instr_core None [] g sp op opnd Hg eq_refl Hop Hsp Hopnd). }
      rewrite Hi. reflexivity.
  - (* label *)
    destruct (is_word_head n Hwf) as (c & nt & -> & Hc).
    assert (Hl : lex_label_decl ((c :: nt) ++ g 0%nat ++ [58]) = Some (c :: nt, [])).
    { exact (lex_label_decl_app [] (c :: nt) (g 0%nat) [] eq_refl Hwf (Hg 0%nat)). }
    cbn [app] in *. rewrite lex_directive_alpha by exact Hc.
    unfold lex_vardecl, lex_instr, lex_labelline. rewrite Hl. reflexivity.
Qed.
