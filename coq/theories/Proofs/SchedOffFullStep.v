(* SchedOffFullStep.v — timing with hazard detection OFF, all supported programs (ecall included),
   part 1: what one [pipe_step] does to the occupancy of the latches and to the stall register,
   from the shape invariant alone (Proofs/PipeShape.v) — no stall at ID ever (hazards = false);
   the only stall is the drain of an ecall at EX. *)
From Coq Require Import Lia ZifyBool.
From ArchSim Require Import Model.Base Model.Mem Model.Cache Model.Fmt Model.RV Model.Single
  Model.RVSplit Model.Pipe Proofs.WordLemmas Proofs.C01Step Proofs.SplitExec Proofs.C02Split
  Proofs.PipeLaws Proofs.PipeShape Proofs.PipeInv Proofs.PipeInvBase Proofs.PipeInvStages
  Proofs.PipeInvStraight Proofs.PipeInvControl Proofs.PipeInvEcall Proofs.FlagOffSim
  Proofs.FlagOffDwb Proofs.FlagOffInv Proofs.FlagOffEcallInv Proofs.SchedDefs Proofs.SchedStep.
Open Scope Z_scope.

Local Arguments Z.add : simpl never.
Local Arguments Z.sub : simpl never.
Local Arguments Z.of_nat : simpl never.

Lemma is_ec_ecall_in l : is_ec l = ecall_in l. Proof. reflexivity. Qed.

Lemma ex_on_occ l1 l2 l3 s n2 s3 : ex_on l1 l2 l3 s = (n2, s3, None) ->
  nonempty n2 = nonempty l1 /\ is_ec n2 = is_ec l1.
Proof.
  intros H. apply ex_on_shape in H. destruct l1 as [y|]; [|subst n2; split; reflexivity].
  destruct H as (cmp & res & st & ex & fl & -> & _). split; reflexivity.
Qed.
Lemma mem_on_occ l2 s n3 s4 : mem_on l2 s = (n3, s4, None) -> nonempty n3 = nonempty l2.
Proof.
  intros H. apply mem_on_shape in H. destruct l2 as [y|]; [destruct H as [rd ->]|subst n3]; reflexivity.
Qed.

(* a flush raised in EX: an ecall that found MEM and WB empty *)
Lemma ex_on_flush l1 l2 l3 s n2 s3 : (match l1 with Some y => sl_saved y = false | None => True end) ->
  ex_on l1 l2 l3 s = (n2, s3, None) -> flush_of n2 <> None -> l2 = None /\ l3 = None.
Proof.
  intros Hsv H Hf. apply ex_on_shape in H. destruct l1 as [y|]; [|subst n2; exfalso; apply Hf; reflexivity].
  destruct H as (cmp & res & st & ex & fl & -> & _ & [[_ ->]|(_ & Hb & _)]); [exfalso; apply Hf; reflexivity|].
  unfold ex_busy in Hb. rewrite Hsv in Hb. destruct l2, l3; try discriminate Hb. split; reflexivity.
Qed.

Section Off.
Variable P : list instr.

(** * Not stalled *)
Lemma off_normal p p' l0 l1 l2 l3 l4 : Shape no_icache p -> prog (im (pst p)) = P ->
  lat p = [l0; l1; l2; l3; l4] -> hazards p = false -> stalled p = None ->
  flush_of (option_map wb_slot l3) = None -> pipe_step p = (p', None) ->
  exists n0 n1 n2 n3 n4,
    nonempty n0 = has_instr (im (pst p)) (pc (pst p)) /\ nonempty n1 = nonempty l0 /\
    nonempty n2 = nonempty l1 /\ nonempty n3 = nonempty l2 /\ is_ec n2 = is_ec l1 /\
    ((flush_of n3 <> None /\ lat p' = [None; None; None; n3; n4] /\ stalled p' = None) \/
     (flush_of n3 = None /\ flush_of n2 <> None /\ l2 = None /\ l3 = None /\
      lat p' = [None; None; n2; n3; n4] /\ stalled p' = None) \/
     (flush_of n3 = None /\ flush_of n2 = None /\ lat p' = [n0; n1; n2; n3; n4] /\
      stalled p' = (if busyf l1 l2 l3 then Some (2, 2) else None) /\
      (nonempty n0 = false -> has_instr (im (pst p')) (pc (pst p')) = false))).
Proof.
  intros Sh HPp Hl Hz Hst Hf4 Hps.
  assert (Hsv : saved p = None) by (apply (shape_saved_iff no_icache p Sh); exact Hst).
  destruct (shape_at p _ _ _ _ _ Sh Hl) as (K0 & K1 & K2 & K3 & K4 & KM). rewrite HPp in *.
  rewrite (pipe_step_normal p _ _ _ _ _ Hl Hst) in Hps. unfold run_normal in Hps. rewrite Hz in Hps.
  destruct (if_stage P (bumped (pst p)) (sh_im _ _ Sh) HPp)
    as (n0 & s1 & HIF & _ & _ & _ & _ & _ & _ & _ & HP1 & _ & Hs0 & Hf0 & Hn0).
  rewrite HIF in Hps. clear HIF.
  destruct (wb_on l3 s1) as [[n4 s2] [e|]] eqn:HWB; [nf Hps|].
  pose proof (wb_on_flags _ _ _ _ _ HWB) as Hs4. pose proof (wb_on_law _ _ _ _ _ HWB) as ((Kp2 & Ki2 & _) & _).
  apply wb_on_shape in HWB. subst n4.
  destruct (ex_on l1 l2 l3 s2) as [[n2 s3] [e|]] eqn:HE; [nf Hps|].
  pose proof (ex_on_law _ _ _ _ _ _ _ HE) as ((Kp3 & Ki3 & _) & _).
  destruct (mem_on l2 s3) as [[n3 s4] [e|]] eqn:HM; [nf Hps|].
  pose proof (mem_on_flags _ _ _ _ _ HM) as Hs3. pose proof (mem_on_law _ _ _ _ _ HM) as ((Kp4 & Ki4 & _) & _).
  set (n1 := id_on false l0 l1 l2 s2) in *. set (n4 := option_map wb_slot l3) in *.
  assert (Hf1 : flush_of n1 = None) by apply id_on_flags.
  assert (Hs1 : has_stall n1 = false) by (apply id_on_flags; reflexivity).
  cbn [finish] in Hps. injection Hps as Hp'.
  pose proof (post_normal p n0 n1 n2 n3 n4 s4 Hst Hsv Hs0 Hs3 Hs4 Hf0 Hf1 Hf4) as HPOST. cbv zeta in HPOST.
  subst p'.
  match goal with |- context [post p ?nx s4] =>
    destruct (post_fields p nx s4) as (_ & _ & _ & _ & _ & _ & _ & Fim & _) end.
  destruct (ex_on_occ _ _ _ _ _ _ HE) as [Hne2 Hec2].
  exists n0, n1, n2, n3, n4.
  split. { unfold bumped in Hn0. stf. unfold has_instr. rewrite HPp.
           destruct n0 as [x|]; [destruct Hn0 as (_ & _ & -> & _)|destruct Hn0 as (_ & ->)]; reflexivity. }
  split; [apply nonempty_id_on|]. split; [exact Hne2|]. split; [apply (mem_on_occ _ _ _ _ HM)|]. split; [exact Hec2|].
  destruct (flush_of n3) as [a|] eqn:F3.
  - left. destruct HPOST as (A & B & _). split; [discriminate|]. split; assumption.
  - destruct (flush_of n2) as [a|] eqn:F2.
    + right; left. destruct HPOST as (A & _ & B).
      assert (Hsv1 : match l1 with Some y => sl_saved y = false | None => True end)
        by (destruct l1; [apply K1|exact Logic.I]).
      destruct (ex_on_flush _ _ _ _ _ _ Hsv1 HE ltac:(rewrite F2; discriminate)) as [E2 E3].
      split; [reflexivity|]. split; [discriminate|]. split; [exact E2|]. split; [exact E3|]. split; [exact A|].
      apply B. rewrite (has_stall_ex P _ _ _ _ _ _ K1 HE). subst l2 l3. unfold busyf. cbn [nonempty orb].
      apply Bool.andb_false_r.
    + right; right. destruct HPOST as (A & Bpc & B). split; [reflexivity|]. split; [reflexivity|].
      split; [exact A|]. split; [rewrite B, (has_stall_ex P _ _ _ _ _ _ K1 HE), Hs1; reflexivity|].
      intros E0. destruct n0 as [x|]; [discriminate E0|]. destruct Hn0 as [Hpc1 Hni].
      unfold has_instr. rewrite Fim, Ki4, Ki3, Ki2, HP1, Bpc, Kp4, Kp3, Kp2, Hpc1, Hni.
      reflexivity.
Qed.

(** * Stalled at EX: the drain of an ecall *)
Lemma off_stall2 p p' l0 l1 l2 l3 l4 d : Shape no_icache p -> prog (im (pst p)) = P ->
  lat p = [l0; l1; l2; l3; l4] -> hazards p = false -> stalled p = Some (2, d) ->
  flush_of (option_map wb_slot l3) = None -> pipe_step p = (p', None) ->
  nonempty l2 = true /\ is_ec l2 = true /\ ((d = 2 /\ nonempty l3 = true) \/ (d = 1 /\ l3 = None)) /\
  exists n1 n2 n4, nonempty n1 = nonempty l1 /\ nonempty n2 = true /\ is_ec n2 = true /\
    ((flush_of n2 <> None /\ d = 1 /\ lat p' = [None; None; n2; None; n4] /\ stalled p' = None) \/
     (flush_of n2 = None /\ lat p' = [l0; n1; n2; None; n4] /\
      stalled p' = if d =? 1 then None else Some (2, 1))).
Proof.
  intros Sh HPp Hl Hz Hst Hf4 Hps.
  destruct (shape_at p _ _ _ _ _ Sh Hl) as (K0 & K1 & K2 & K3 & K4 & KM). rewrite HPp in *.
  rewrite Hst in KM. unfold ModeInv in KM. destruct (saved p) as [svl|] eqn:Hsv; [|contradiction].
  destruct KM as [Hd12 [(Habs & _)|(_ & m0 & y1 & x2 & -> & Hsk0 & -> & Hsk1 & _ & _ & Hd2 & Hd1)]];
    [discriminate Habs|].
  destruct Hsk1 as (Hy1i & Hy1s & _ & _ & Hx2i & _).
  split; [reflexivity|]. split; [cbn [is_ec]; rewrite Hx2i; reflexivity|].
  split. { destruct Hd12 as [-> | ->]; [left; split; [reflexivity|]; destruct l3; [reflexivity|exfalso; apply Hd2; reflexivity]
                                       |right; split; [reflexivity|apply Hd1; reflexivity]]. }
  rewrite (pipe_step_stall2 p _ _ _ _ _ d Hl Hst) in Hps. unfold run_stall2, sv_at in Hps. rewrite Hz, Hsv in Hps.
  change (lat_at [m0; Some y1] 0) with m0 in Hps. change (lat_at [m0; Some y1] 1) with (Some y1) in Hps.
  destruct (wb_on l3 (bumped (pst p))) as [[n4 s2] [e|]] eqn:HWB; [nf Hps|].
  pose proof (wb_on_flags _ _ _ _ _ HWB) as Hs4. apply wb_on_shape in HWB. subst n4.
  destruct (ex_on (Some y1) (Some x2) l3 s2) as [[n2 s3] [e|]] eqn:HE; [nf Hps|].
  set (n1 := id_on false m0 l1 (Some x2) s2) in *. set (n4 := option_map wb_slot l3) in *.
  assert (Hne1 : nonempty n1 = nonempty l1).
  { subst n1. rewrite nonempty_id_on. destruct m0, l1; cbn in Hsk0 |- *; tauto. }
  assert (Hfl1 : flush_of n1 = None) by apply id_on_flags.
  destruct (L0ok_flags _ _ K0) as [Hs0 Hf0].
  destruct (ex_on_occ _ _ _ _ _ _ HE) as [Hne2 Hec2]. cbn [nonempty is_ec] in Hne2, Hec2. rewrite Hy1i in Hec2.
  cbn [finish] in Hps. injection Hps as Hp'.
  pose proof (post_stalled p l0 n1 n2 None n4 s3 2 d _ Hst Hsv Hd12 (or_intror eq_refl)
                Hs0 eq_refl Hs4 ltac:(intros H; discriminate H) Hf0 Hfl1 Hf4) as HPOST.
  cbv zeta in HPOST. cbn [flush_of] in HPOST. subst p'.
  exists n1, n2, n4. split; [exact Hne1|]. split; [exact Hne2|]. split; [exact Hec2|].
  destruct (flush_of n2) as [a|] eqn:F2.
  - left. destruct HPOST as (A & _ & B). split; [discriminate|].
    (* the ecall fired: WB was empty, the countdown is 1 *)
    assert (Hl3 : l3 = None).
    { pose proof HE as HE'. apply ex_on_shape in HE'.
      destruct HE' as (cmp & res & st & ex & fl & E & _ & [[_ Ef]|(_ & Hb & _)]).
      - subst n2 fl. discriminate F2.
      - unfold ex_busy in Hb. rewrite Hy1s in Hb. destruct l3; [discriminate Hb|reflexivity]. }
    assert (Hd : d = 1).
    { destruct Hd12 as [-> | ->]; [exfalso; apply Hd2; [reflexivity|exact Hl3]|reflexivity]. }
    split; [exact Hd|]. split; [exact A|]. rewrite Hd in B. exact B.
  - right. destruct HPOST as (A & _ & B). split; [reflexivity|]. split; [exact A|exact B].
Qed.

End Off.

(** * The distance of the oldest slot in flight from write-back *)
Lemma mu4_lat p l0 l1 l2 l3 l4 : lat p = [l0; l1; l2; l3; l4] ->
  mu4 p = if nonempty l3 then 0
          else if nonempty l2
               then 1 + match stalled p with Some (k, d) => if k =? 2 then d else 0 | None => 0 end
          else if nonempty l1 then 2 + dcount p else if nonempty l0 then 3 else 4.
Proof. intros Hl. unfold mu4. rewrite Hl. lat5. reflexivity. Qed.

Section Mu.
Variable P : list instr.

(* nothing retires: the oldest slot gets one cycle closer to write-back — also while it drains *)
Lemma mu4_step_none p p' l0 l1 l2 l4 : Shape no_icache p -> prog (im (pst p)) = P ->
  lat p = [l0; l1; l2; None; l4] -> hazards p = false -> nost1 p ->
  exitc (pst p) = None -> pipe_done p = false -> pipe_step p = (p', None) ->
  mu4 p' = mu4 p - 1.
Proof.
  intros Sh HPp Hl Hz Hns Hx Hd Hps. rewrite (mu4_lat p _ _ _ _ _ Hl). cbn [nonempty]. unfold dcount.
  destruct (stalled p) as [[k d]|] eqn:Hst.
  - destruct (shape_stalled no_icache p Sh) as [[E _]|(k' & d' & sv & E & _ & Hk & _)]; rewrite Hst in E; [discriminate|].
    injection E as <- <-. destruct Hk as [-> | ->]; [exfalso; exact (Hns d Hst)|].
    destruct (off_stall2 P p p' _ _ _ _ _ d Sh HPp Hl Hz Hst eq_refl Hps)
      as (B2 & _ & [[_ H3]|[-> _]] & n1 & n2 & n4 & _ & Bn2 & _ & Hcase); [discriminate H3|].
    rewrite B2. change (2 =? 2) with true. cbv iota.
    destruct Hcase as [(_ & _ & Hl' & Hs')|(_ & Hl' & Hs')];
      rewrite (mu4_lat p' _ _ _ _ _ Hl'), Hs'; cbn [nonempty]; rewrite Bn2; reflexivity.
  - destruct (off_normal P p p' _ _ _ _ _ Sh HPp Hl Hz Hst eq_refl Hps)
      as (n0 & n1 & n2 & n3 & n4 & E0 & E1 & E2 & E3 & Ec &
          [(Hf3 & Hl' & Hs')|[(_ & Hf2 & -> & _ & Hl' & Hs')|(_ & _ & Hl' & Hs' & _)]]);
      rewrite (mu4_lat p' _ _ _ _ _ Hl'); unfold dcount; rewrite Hs'.
    + assert (B3 : nonempty n3 = true) by (destruct n3; [reflexivity|exfalso; apply Hf3; reflexivity]).
      rewrite B3, <- E3, B3. reflexivity.
    + assert (B2 : nonempty n2 = true) by (destruct n2; [reflexivity|exfalso; apply Hf2; reflexivity]).
      cbn [nonempty] in *. rewrite E3, B2, <- E2, B2. reflexivity.
    + rewrite E3, E2, E1, E0. unfold busyf. cbn [nonempty]. rewrite Bool.orb_false_r.
      destruct (nonempty l2) eqn:B2; [reflexivity|]. rewrite Bool.andb_false_r.
      destruct (nonempty l1) eqn:B1; [reflexivity|]. destruct (nonempty l0) eqn:B0; [reflexivity|].
      assert (Hh : has_instr (im (pst p)) (pc (pst p)) = true).
      { unfold pipe_done, pipe_empty in Hd. rewrite Hx, Hl in Hd. lat5h Hd. cbn [nonempty] in Hd.
        rewrite B2, B1, B0 in Hd. cbn [orb negb andb] in Hd. destruct (has_instr _ _); [reflexivity|discriminate Hd]. }
      rewrite Hh. reflexivity.
Qed.

End Mu.
