(* ToyLexProofs5.v — whole texts: splitlines of rendered lines, line numbering, blank/comment lines
   leave no entry, and (e) the load of a lexed text depends on the token lines only. *)
From Coq Require Import Lia ZifyBool.
From ArchSim Require Import Model.Base Model.Mem Model.Fmt Model.Toy Model.ToyLex
  Proofs.ToyLexProofs1 Proofs.ToyLexProofs2 Proofs.ToyLexProofs3.
Open Scope Z_scope.

(** * general: the text matters only through the per-line results *)
Lemma lex_lines_ext : forall l1 l2 ln tbl, map toy_lex_line l1 = map toy_lex_line l2 ->
  lex_lines l1 ln tbl = lex_lines l2 ln tbl.
Proof.
  induction l1 as [|a l1 IH]; intros l2 ln tbl H; destruct l2 as [|b l2]; try discriminate; [reflexivity|].
  cbn [map] in H. injection H as Hab Hl. cbn [lex_lines]. rewrite Hab.
  destruct (toy_lex_line b) as [| |t]; [apply IH, Hl | reflexivity|].
  destruct (intern_line tbl t) as [t' tbl']. rewrite (IH l2 (ln + 1) tbl' Hl). reflexivity.
Qed.

Theorem load_depends_on_line_results s t1 t2 :
  map toy_lex_line (splitlines t1) = map toy_lex_line (splitlines t2) ->
  toy_lex_text t1 = toy_lex_text t2 /\ toy_load_text s t1 = toy_load_text s t2.
Proof.
  intros H. assert (E : toy_lex_text t1 = toy_lex_text t2) by (unfold toy_lex_text; apply lex_lines_ext, H).
  split; [exact E|]. unfold toy_load_text. rewrite E. reflexivity.
Qed.

(* blank and comment lines leave no entry but count as lines *)
Lemma lex_lines_skip l rest ln tbl : toy_lex_line l = LBlank -> lex_lines (l :: rest) ln tbl = lex_lines rest (ln + 1) tbl.
Proof. intros H. cbn [lex_lines]. rewrite H. reflexivity. Qed.

(** * source lines *)
Inductive srcline :=
| SBlank (w : str)
| SComment (w c : str)
| STok (lead trail : str) (cmt : option str) (g : nat -> str) (sp : str) (t : rtline).
Definition render_src (l : srcline) : str :=
  match l with
  | SBlank w => w
  | SComment w c => w ++ 35 :: c
  | STok lead trail cmt g sp t => render_line lead trail cmt g sp t
  end.
Definition tok_of (l : srcline) : option rtline := match l with STok _ _ _ _ _ t => Some t | _ => None end.
Definition nobreak (s : str) : bool := forallb (fun c => negb (is_linebreak c)) s.
Definition wf_src (l : srcline) : Prop :=
  match l with
  | SBlank w => blanks w = true
  | SComment w c => blanks w = true /\ nobreak c = true
  | STok lead trail cmt g sp t =>
      blanks lead = true /\ blanks trail = true /\
      match cmt with Some c => nobreak c = true | None => True end /\ gaps_ok g /\ wf_rtline sp t
  end.

Lemma blanks_spaces w : blanks w = true -> spaces w = true.
Proof. apply blanks_pyspace. Qed.
Lemma lex_src l : wf_src l -> toy_lex_line (render_src l) = match tok_of l with Some t => LTok t | None => LBlank end.
Proof.
  destruct l as [w|w c|lead trail cmt g sp t]; cbn [wf_src render_src tok_of].
  - intros H. apply blank_line, blanks_spaces, H.
  - intros [H _]. apply comment_line, blanks_spaces, H.
  - intros (Hl & Ht & _ & Hg & Hwf). apply lex_render_line; try assumption; apply blanks_spaces; assumption.
Qed.

Lemma nobreak_app a b : nobreak (a ++ b) = nobreak a && nobreak b.
Proof. apply forallb_app. Qed.
Lemma blanks_nobreak w : blanks w = true -> nobreak w = true.
Proof. apply forallb_impl. intros c H. cls. lia. Qed.
Lemma bodychars_nobreak s : bodychars s = true -> nobreak s = true.
Proof. apply forallb_impl. intros c H. unfold bodyc, plainc in H. cls. lia. Qed.

Lemma render_src_nobreak l : wf_src l -> nobreak (render_src l) = true.
Proof.
  destruct l as [w|w c|lead trail cmt g sp t]; cbn [wf_src render_src].
  - apply blanks_nobreak.
  - intros [Hw Hc]. rewrite nobreak_app, (blanks_nobreak _ Hw). change (nobreak (35 :: c)) with (nobreak c). rewrite Hc. reflexivity.
  - intros (Hl & Ht & Hc & Hg & Hwf). unfold render_line.
    destruct (body_facts g sp t Hg Hwf) as (c & b & Eb & _ & _ & _ & Hn).
    rewrite !nobreak_app, (blanks_nobreak _ Hl), (blanks_nobreak _ Ht), Eb, (bodychars_nobreak _ Hn).
    destruct cmt as [x|]; [|reflexivity]. cbn [render_comment]. change (nobreak (35 :: x)) with (nobreak x). rewrite Hc. reflexivity.
Qed.

(** * splitlines of terminated lines *)
Definition lines_of (s : str) : list str := let '(h, t) := pieces s in h :: t.
Definition is_nl (nl : str) : Prop := nl = [13; 10] \/ exists c, nl = [c] /\ is_linebreak c = true /\ c <> 13.

Lemma splitlines_lines_of s : splitlines s = drop_last_empty (lines_of s).
Proof. unfold splitlines, lines_of. destruct (pieces s). reflexivity. Qed.

Lemma lines_of_nobreak l : nobreak l = true -> lines_of l = [l].
Proof.
  unfold lines_of. induction l as [|c l IH]; [reflexivity|]. cbn [nobreak forallb]. intros H.
  apply andb_prop in H as [Hc Hl]. specialize (IH Hl). cbn [pieces].
  replace (c =? 13) with false by (cls; lia). destruct (is_linebreak c); [discriminate|].
  destruct (pieces l) as [h t]. injection IH as -> ->. reflexivity.
Qed.
Lemma lines_of_line l nl rest : nobreak l = true -> is_nl nl -> lines_of (l ++ nl ++ rest) = l :: lines_of rest.
Proof.
  intros Hl Hnl. unfold lines_of. induction l as [|c l IH].
  - cbn [app]. destruct Hnl as [-> | (c & -> & Hc & H13)]; cbn [app pieces].
    + cbn [Z.eqb Pos.eqb]. destruct (pieces rest). reflexivity.
    + replace (c =? 13) with false by lia. rewrite Hc. destruct (pieces rest). reflexivity.
  - cbn [nobreak forallb] in Hl. apply andb_prop in Hl as [Hc Hl]. specialize (IH Hl). cbn [app pieces].
    replace (c =? 13) with false by (cls; lia). destruct (is_linebreak c); [discriminate|].
    destruct (pieces (l ++ nl ++ rest)) as [h t]. injection IH as -> ->. reflexivity.
Qed.

(* a text: terminated source lines, then possibly one last line without terminator *)
Definition render_text (ls : list (srcline * str)) (fin : option srcline) : str :=
  concat (map (fun p => render_src (fst p) ++ snd p) ls) ++ match fin with Some l => render_src l | None => [] end.
Definition src_lines (ls : list (srcline * str)) (fin : option srcline) : list srcline :=
  map fst ls ++ match fin with Some l => [l] | None => [] end.

Lemma drop_last_empty_cons x l : l <> [] -> drop_last_empty (x :: l) = x :: drop_last_empty l.
Proof. destruct l; [congruence | reflexivity]. Qed.
Lemma lines_of_nonempty s : lines_of s <> [].
Proof. unfold lines_of. destruct (pieces s). discriminate. Qed.

(* the lines Python sees: all of them, except that an empty unterminated last line does not exist *)
Lemma splitlines_render ls fin :
  Forall (fun p => wf_src (fst p) /\ is_nl (snd p)) ls ->
  match fin with Some l => wf_src l | None => True end ->
  splitlines (render_text ls fin) =
  map render_src (map fst ls) ++ match fin with
                                 | Some l => match render_src l with [] => [] | x => [x] end
                                 | None => []
                                 end.
Proof.
  intros Hls Hfin. rewrite splitlines_lines_of. unfold render_text. induction Hls as [|[l nl] ls [Hl Hnl] _ IH].
  - cbn [map concat app]. destruct fin as [l|]; [|reflexivity].
    rewrite lines_of_nobreak by (apply render_src_nobreak, Hfin). destruct (render_src l); reflexivity.
  - cbn [map concat fst snd]. rewrite <- !app_assoc.
    rewrite lines_of_line by (try apply render_src_nobreak; assumption).
    rewrite drop_last_empty_cons by apply lines_of_nonempty. rewrite IH. reflexivity.
Qed.

(** * the token lines of a text: numbered from 1, names interned in order *)
Fixpoint intern_lines (ts : list (option rtline)) (ln : Z) (tbl : list str) : list (Z * tline) :=
  match ts with
  | [] => []
  | None :: r => intern_lines r (ln + 1) tbl
  | Some t :: r => let '(t', tbl') := intern_line tbl t in (ln, t') :: intern_lines r (ln + 1) tbl'
  end.

Lemma lex_lines_src ls : Forall wf_src ls -> forall ln tbl,
  lex_lines (map render_src ls) ln tbl = POk (intern_lines (map tok_of ls) ln tbl).
Proof.
  induction 1 as [|l ls Hl _ IH]; intros ln tbl; [reflexivity|]. cbn [map lex_lines intern_lines].
  rewrite (lex_src l Hl). destruct (tok_of l) as [t|]; [|apply IH].
  destruct (intern_line tbl t) as [t' tbl']. rewrite IH. reflexivity.
Qed.
Lemma intern_lines_app_none ts : forall ln tbl, intern_lines (ts ++ [None]) ln tbl = intern_lines ts ln tbl.
Proof.
  induction ts as [|[t|] r IH]; intros ln tbl; cbn [app intern_lines]; [reflexivity| |apply IH].
  destruct (intern_line tbl t). rewrite IH. reflexivity.
Qed.

Theorem lex_text_render ls fin :
  Forall (fun p => wf_src (fst p) /\ is_nl (snd p)) ls ->
  match fin with Some l => wf_src l | None => True end ->
  toy_lex_text (render_text ls fin) = POk (intern_lines (map tok_of (src_lines ls fin)) 1 []).
Proof.
  intros Hls Hfin. unfold toy_lex_text, src_lines. rewrite (splitlines_render ls fin Hls Hfin).
  assert (Hwf : Forall wf_src (map fst ls)).
  { apply Forall_forall. intros l Hin. apply in_map_iff in Hin as (p & <- & Hp).
    rewrite Forall_forall in Hls. apply (Hls p Hp). }
  destruct fin as [l|]; [|rewrite !app_nil_r; apply lex_lines_src, Hwf].
  destruct (render_src l) as [|x r] eqn:E.
  - rewrite app_nil_r, lex_lines_src by exact Hwf. rewrite map_app. cbn [map].
    assert (Ht : tok_of l = None).
    { pose proof (lex_src l Hfin) as H. rewrite E in H. destruct (tok_of l); [discriminate H | reflexivity]. }
    rewrite Ht, intern_lines_app_none. reflexivity.
  - rewrite <- E. change [render_src l] with (map render_src [l]). rewrite <- map_app.
    apply lex_lines_src. apply Forall_app. split; [exact Hwf | constructor; [exact Hfin | constructor]].
Qed.

(* (e) the load of a rendered text is the load of its token lines *)
Theorem load_text_render s ls fin :
  Forall (fun p => wf_src (fst p) /\ is_nl (snd p)) ls ->
  match fin with Some l => wf_src l | None => True end ->
  toy_load_text s (render_text ls fin) = toy_load s (intern_lines (map tok_of (src_lines ls fin)) 1 []).
Proof. intros Hls Hfin. unfold toy_load_text. rewrite (lex_text_render ls fin Hls Hfin). reflexivity. Qed.
