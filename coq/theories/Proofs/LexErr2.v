(* LexErr2.v — the text pipeline Lex.lex_text: which line every token line / every lexical error comes from;
   the token lines satisfy the tokenizer guarantee rv_tokens_wf of Props/C15.v. *)
From Coq Require Import String.
From Coq Require Import ZArith List Bool Lia ZifyBool.
From ArchSim Require Import Model.Base Model.Mem Model.Cache Model.Fmt Model.RV Model.Toy Model.Asm Model.Lex
  Proofs.C15Proofs Proofs.LexErr1.
Import ListNotations.
Open Scope Z_scope.

(* the ln-th line (1-based) of the text *)
Definition nth_line (ls : list str) (ln : Z) (l : str) : Prop :=
  1 <= ln /\ nth_error ls (Z.to_nat (ln - 1)) = Some l.
(* no line is rejected by the grammar *)
Definition all_lex (ls : list str) : Prop := forall l, In l ls -> lex_line l <> LexSyntax.
(* the token line [rl] is the (interned) result of lexing [l] *)
Definition lexes_to (l : str) (rl : rline) : Prop :=
  exists nl names, lex_line l = LexOk nl /\ rl = snd (intern_line names nl).

Lemma nth_line_range ls ln l : nth_line ls ln l -> 1 <= ln <= Z.of_nat (List.length ls).
Proof.
  intros [H1 H2]. split; [exact H1|]. assert (Z.to_nat (ln - 1) < List.length ls)%nat by (apply nth_error_Some; congruence). lia.
Qed.

Lemma lex_lines_ok : forall ls ln0 names toks, lex_lines ln0 names ls = LTOk toks ->
  all_lex ls /\
  forall k rl, In (k, rl) toks ->
    exists i l, nth_error ls i = Some l /\ k = ln0 + Z.of_nat i /\ lexes_to l rl.
Proof.
  induction ls as [|l ls IH]; intros ln0 names toks H; cbn [lex_lines] in H.
  - inversion H; subst. split; [intros x []|intros k rl []].
  - destruct (lex_line l) as [| |nl] eqn:El; [|discriminate|].
    + destruct (IH _ _ _ H) as [A B]. split.
      * intros x [<-|Hx]; [congruence|apply A, Hx].
      * intros k rl Hin. destruct (B k rl Hin) as (i & x & Hi & Hk & Hl). exists (Datatypes.S i), x.
        split; [exact Hi|]. split; [lia|exact Hl].
    + destruct (intern_line names nl) as [names' rl0] eqn:Ei.
      destruct (lex_lines (ln0 + 1) names' ls) as [r|] eqn:Er; [|discriminate]. inversion H; subst.
      destruct (IH _ _ _ Er) as [A B]. split.
      * intros x [<-|Hx]; [congruence|apply A, Hx].
      * intros k rl [Hin|Hin].
        -- inversion Hin; subst. exists 0%nat, l. split; [reflexivity|]. split; [lia|].
           exists nl, names. split; [exact El|]. rewrite Ei. reflexivity.
        -- destruct (B k rl Hin) as (i & x & Hi & Hk & Hl). exists (Datatypes.S i), x.
           split; [exact Hi|]. split; [lia|exact Hl].
Qed.

Lemma lex_lines_err : forall ls ln0 names k, lex_lines ln0 names ls = LTSyntax k ->
  exists i l, nth_error ls i = Some l /\ k = ln0 + Z.of_nat i /\ lex_line l = LexSyntax /\
    forall j l', (j < i)%nat -> nth_error ls j = Some l' -> lex_line l' <> LexSyntax.
Proof.
  induction ls as [|l ls IH]; intros ln0 names k H; cbn [lex_lines] in H; [discriminate|].
  destruct (lex_line l) as [| |nl] eqn:El.
  - destruct (IH _ _ _ H) as (i & x & Hi & Hk & Hx & Hj). exists (Datatypes.S i), x.
    split; [exact Hi|]. split; [lia|]. split; [exact Hx|]. intros j l' Hlt Hn. destruct j; [cbn in Hn; congruence|].
    apply (Hj j l'); [lia|exact Hn].
  - inversion H; subst. exists 0%nat, l. split; [reflexivity|]. split; [lia|]. split; [exact El|]. intros j l' Hlt; lia.
  - destruct (intern_line names nl) as [names' rl0]. destruct (lex_lines (ln0 + 1) names' ls) as [r|k'] eqn:Er; [discriminate|].
    inversion H; subst. destruct (IH _ _ _ Er) as (i & x & Hi & Hk & Hx & Hj). exists (Datatypes.S i), x.
    split; [exact Hi|]. split; [lia|]. split; [exact Hx|]. intros j l' Hlt Hn. destruct j; [cbn in Hn; congruence|].
    apply (Hj j l'); [lia|exact Hn].
Qed.

(* in terms of 1-based line numbers *)
Lemma lex_text_ok ls toks : lex_text ls = LTOk toks ->
  all_lex ls /\ forall k rl, In (k, rl) toks -> exists l, nth_line ls k l /\ lexes_to l rl.
Proof.
  intros H. destruct (lex_lines_ok _ _ _ _ H) as [A B]. split; [exact A|]. intros k rl Hin.
  destruct (B k rl Hin) as (i & l & Hi & Hk & Hl). exists l. split; [|exact Hl]. split; [lia|].
  replace (Z.to_nat (k - 1)) with i by lia. exact Hi.
Qed.
Lemma lex_text_err ls k : lex_text ls = LTSyntax k ->
  exists l, nth_line ls k l /\ lex_line l = LexSyntax /\
    forall k' l', k' < k -> nth_line ls k' l' -> lex_line l' <> LexSyntax.
Proof.
  intros H. destruct (lex_lines_err _ _ _ _ H) as (i & l & Hi & Hk & Hl & Hj). exists l. split.
  - split; [lia|]. replace (Z.to_nat (k - 1)) with i by lia. exact Hi.
  - split; [exact Hl|]. intros k' l' Hlt [H1 H2]. apply (Hj (Z.to_nat (k' - 1)) l'); [lia|exact H2].
Qed.

(** the tokenizer guarantee *)
Lemma lexes_to_wf l il i : lexes_to l (RInstr il (BIns i)) -> itok_wf i.
Proof.
  intros (nl & names & Hl & E). destruct nl as [d|n ty v|n s|n v|n|il0 b]; cbn [intern_line] in E;
    try (destruct (intern names n) as [t' k]; discriminate E); try discriminate E.
  destruct (intern_opt names il0) as [t1 il']. destruct b as [k|t].
  - discriminate E.
  - pose proof (intern_tok_wf t1 t (lex_line_wf l il0 t Hl)) as W.
    destruct (intern_tok t1 t) as [t2 i']. cbn [snd] in E, W. inversion E; subst. exact W.
Qed.
Lemma lex_text_wf ls toks : lex_text ls = LTOk toks -> rv_tokens_wf toks.
Proof.
  intros H ln il i Hin. destruct (lex_text_ok ls toks H) as [_ B]. destruct (B _ _ Hin) as (l & _ & Hl).
  eapply lexes_to_wf, Hl.
Qed.
