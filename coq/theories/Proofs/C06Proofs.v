(* C06Proofs.v — the TOY model (Model/Toy.v) against the documented machine (Spec/ToyRef.v).
   The implementation keeps a pre-incremented pc and an already fetched instruction register;
   [tabs] forgets both.  "execute, then fetch the next instruction" (model) is shown equal to
   "fetch, then execute" (reference), which is the self-modifying-code clause. *)
From Coq Require Import Lia ZifyBool.
From ArchSim Require Import Model.Base Model.Mem Model.Toy Spec.ToyRef Proofs.MapLemmas.
Open Scope Z_scope.

Ltac Zify.zify_post_hook ::= Z.to_euclidean_division_equations.

Local Arguments Z.mul : simpl never.
Local Arguments Z.add : simpl never.
Local Arguments Z.sub : simpl never.
Local Arguments Z.pow : simpl never.
Local Arguments Z.div : simpl never.
Local Arguments Z.modulo : simpl never.
Local Arguments Z.land : simpl never.
Local Arguments Z.lor : simpl never.
Local Arguments Z.lxor : simpl never.
Local Arguments Z.shiftl : simpl never.
Local Arguments Z.shiftr : simpl never.
Local Arguments Z.lnot : simpl never.

(** * 16-bit facts *)
Lemma small16_log2 a : 0 <= a -> (a < 65536 <-> Z.log2 a < 16).
Proof.
  intros Ha. destruct (Z.eq_dec a 0) as [->|Hnz].
  - change (Z.log2 0) with 0. lia.
  - change 65536 with (2 ^ 16). apply Z.log2_lt_pow2. lia.
Qed.

Lemma lor16 a b : 0 <= a < 65536 -> 0 <= b < 65536 -> 0 <= Z.lor a b < 65536.
Proof.
  intros Ha Hb.
  assert (Hn : 0 <= Z.lor a b) by (apply Z.lor_nonneg; lia).
  split; [exact Hn|]. apply small16_log2; [exact Hn|].
  rewrite Z.log2_lor by lia. apply Z.max_lub_lt; apply small16_log2; lia.
Qed.

Lemma land16 a b : 0 <= a < 65536 -> 0 <= b < 65536 -> 0 <= Z.land a b < 65536.
Proof.
  intros Ha Hb.
  assert (Hn : 0 <= Z.land a b) by (apply Z.land_nonneg; lia).
  split; [exact Hn|]. apply small16_log2; [exact Hn|].
  pose proof (Z.log2_land a b ltac:(lia) ltac:(lia)) as Hl.
  assert (Z.log2 a < 16) by (apply small16_log2; lia).
  lia.
Qed.

Lemma lxor16 a b : 0 <= a < 65536 -> 0 <= b < 65536 -> 0 <= Z.lxor a b < 65536.
Proof.
  intros Ha Hb.
  assert (Hn : 0 <= Z.lxor a b) by (apply Z.lxor_nonneg; lia).
  split; [exact Hn|]. apply small16_log2; [exact Hn|].
  pose proof (Z.log2_lxor a b ltac:(lia) ltac:(lia)) as Hl.
  assert (Z.log2 a < 16) by (apply small16_log2; lia).
  assert (Z.log2 b < 16) by (apply small16_log2; lia).
  lia.
Qed.

Lemma land_65535 v : Z.land v 65535 = v mod 65536.
Proof. change 65535 with (Z.ones 16). rewrite Z.land_ones by lia. reflexivity. Qed.

Lemma lnot16 a : 0 <= a < 65536 -> U16 (Z.lnot a) = 65535 - a.
Proof. intros Ha. unfold U16, U, Z.lnot, Z.pred. change (2 ^ 16) with 65536. lia. Qed.

(** * The two facts about the flat memory at TOY's configuration (one 16-bit cell per access) *)
Lemma toy_read_ok m a : 0 <= a < 4096 ->
  mem_read (toy_memcfg 4096) m 16 a = Ok (U 16 (mget m a)).
Proof.
  intros Ha. unfold mem_read, ncells. cbn [cw toy_memcfg].
  change (Z.to_nat (16 / 16)) with 1%nat. cbn [read_mult].
  unfold read_cell, eff_addr, in_range. cbn [aovf alo ahi cw toy_memcfg].
  rewrite Z.add_0_r.
  destruct (0 <=? a) eqn:E1; [|lia]. destruct (a <? 4096) eqn:E2; [|lia]. cbn [andb].
  change (0 * 16) with 0. rewrite Z.shiftl_0_r, Z.lor_0_l. reflexivity.
Qed.

Lemma toy_write_ok m a v : 0 <= a < 4096 ->
  mem_write (toy_memcfg 4096) m 16 a v = (mset m a (Z.land v 65535), None).
Proof.
  intros Ha. unfold mem_write, ncells. cbn [cw toy_memcfg].
  change (Z.to_nat (16 / 16)) with 1%nat. cbn [write_mult].
  unfold write_cell, eff_addr, in_range. cbn [aovf alo ahi cw toy_memcfg].
  rewrite Z.add_0_r.
  destruct (0 <=? a) eqn:E1; [|lia]. destruct (a <? 4096) eqn:E2; [|lia]. cbn [andb].
  change (2 ^ 16 - 1) with 65535. reflexivity.
Qed.

(** * Decoding a 16-bit word *)
Lemma toy_decode_eq w : 0 <= w < 65536 ->
  toy_decode w = {| top := if w / 4096 <=? 11 then w / 4096 else 12; taddr := w mod 4096 |}.
Proof.
  intros Hw. unfold toy_decode, mk_tinstr. cbv zeta.
  rewrite Z.shiftr_div_pow2 by lia.
  change 15 with (Z.ones 4). change 4095 with (Z.ones 12).
  rewrite !Z.land_ones by lia. change (2 ^ 12) with 4096. change (2 ^ 4) with 16.
  replace ((w / 4096) mod 16) with (w / 4096) by lia.
  f_equal.
  - destruct (_ <=? 11) eqn:E; lia.
  - lia.
Qed.

(* opcodes 12..15 all decode to NOP *)
Lemma toy_decode_nop w : 0 <= w < 65536 -> 12 <= w / 4096 ->
  toy_decode w = {| top := 12; taddr := w mod 4096 |}.
Proof.
  intros Hw Hop. rewrite toy_decode_eq by exact Hw.
  destruct (_ <=? 11) eqn:E; [lia | reflexivity].
Qed.

(** * Invariant and abstraction *)
Definition mem16 (m : zmap) : Prop := forall k, 0 <= mget m k < 65536.

Record TInv (m : Z) (s : tstate) : Prop := {
  inv_size : t_size s = 4096;
  inv_maxpc : t_maxpc s = Some m;
  inv_m : -1 <= m <= 4095;
  inv_pc : 0 <= t_pc s < 4096;
  inv_accu : 0 <= t_accu s < 65536;
  inv_mem : mem16 (t_mem s);
  inv_nc : t_nextcycle s = 1;
  inv_loaded : t_loaded s =
               if (t_pc s - 1) mod 4096 <=? m
               then Some (toy_decode (mget (t_mem s) ((t_pc s - 1) mod 4096)))
               else None }.

Definition tabs (s : tstate) : tref :=
  {| r_acc := t_accu s; r_pc := (t_pc s - 1) mod 4096; r_mem := t_mem s;
     r_count := t_icount s; r_branches := t_bcount s |}.

Lemma mem16_mset m k v : mem16 m -> 0 <= v < 65536 -> mem16 (mset m k v).
Proof.
  intros Hm Hv j. rewrite mget_mset. destruct (k =? j); [exact Hv | apply Hm].
Qed.

(* a checkable sufficient condition for [mem16], for concrete images *)
Definition mem16b (m : zmap) : bool :=
  forallb (fun kv : Z * Z => (0 <=? snd kv) && (snd kv <? 65536)) m.

Lemma mem16b_ok m : mem16b m = true -> mem16 m.
Proof.
  unfold mem16, mget. induction m as [|[k v] t IH]; intros H j; cbn [mget_opt].
  - lia.
  - unfold mem16b in H. cbn [forallb snd] in H. apply andb_true_iff in H. destruct H as [Hv Ht].
    destruct (k =? j); [lia | apply IH; exact Ht].
Qed.

(** * The two half cycles, named *)
Definition fh_pre (s : tstate) : tstate :=
  {| t_pc := t_pc s; t_accu := t_accu s; t_mem := t_mem s; t_size := t_size s;
     t_loaded := t_loaded s; t_maxpc := t_maxpc s; t_cur := t_cur s; t_next := t_next s;
     t_vis := t_vis s; t_icount := t_icount s; t_cycles := t_cycles s;
     t_bcount := t_bcount s; t_nextcycle := 2; t_started := true |}.
Definition fh_post (s2 : tstate) : tstate :=
  {| t_pc := t_pc s2; t_accu := t_accu s2; t_mem := t_mem s2; t_size := t_size s2;
     t_loaded := t_loaded s2; t_maxpc := t_maxpc s2;
     t_cur := Some (t_next s2); t_next := t_pc s2;
     t_vis := t_vis s2; t_icount := t_icount s2; t_cycles := t_cycles s2 + 1;
     t_bcount := t_bcount s2; t_nextcycle := t_nextcycle s2; t_started := t_started s2 |}.

Lemma first_half_eq s :
  first_half s =
  if toy_done s then (s, TNone)
  else if negb (t_nextcycle s =? 1) then (s, TSeqErr)
  else match t_loaded s with
       | None => (fh_pre s, TNone)
       | Some i => match toy_behavior i (fh_pre s) with
                   | (s2, Some e) => (s2, TMemErr e)
                   | (s2, None) => (fh_post s2, TNone)
                   end
       end.
Proof. reflexivity. Qed.

Ltac proj :=
  cbn [t_pc t_accu t_mem t_size t_loaded t_maxpc t_cur t_next t_vis t_icount t_cycles t_bcount
       t_nextcycle t_started t_with_core fh_pre fh_post].
Ltac proj_in H :=
  cbn [t_pc t_accu t_mem t_size t_loaded t_maxpc t_cur t_next t_vis t_icount t_cycles t_bcount
       t_nextcycle t_started t_with_core fh_pre fh_post] in H.

(** * One instruction: behavior() of the decoded word = the reference step *)
Ltac lits := cbn [top taddr Z.eqb Z.leb Z.compare Pos.eqb Pos.compare Pos.compare_cont].
Ltac fin16 :=
  unfold U16, U12, U, w16 in *;
  change (2 ^ 16) with 65536 in *; change (2 ^ 12) with 4096 in *.

Lemma beh_ref (s : tstate) (mx w c : Z) :
  t_size s = 4096 -> 0 <= t_pc s < 4096 -> 0 <= t_accu s < 65536 -> mem16 (t_mem s) ->
  (t_pc s - 1) mod 4096 <= mx -> mget (t_mem s) ((t_pc s - 1) mod 4096) = w ->
  exists pc' acc' m' v bc',
    toy_behavior (toy_decode w) s = (t_with_core s pc' acc' m' v bc', None) /\
    0 <= pc' < 4096 /\ 0 <= acc' < 65536 /\ mem16 m' /\
    ref_step mx {| r_acc := t_accu s; r_pc := (t_pc s - 1) mod 4096; r_mem := t_mem s;
                   r_count := c; r_branches := t_bcount s |}
    = {| r_acc := acc'; r_pc := pc'; r_mem := m'; r_count := c + 1; r_branches := bc' |}.
Proof.
  intros Hsz Hpc Hacc Hmem Hp Hw.
  set (p := (t_pc s - 1) mod 4096) in *.
  assert (Hwr : 0 <= w < 65536) by (rewrite <- Hw; apply Hmem).
  assert (Hnp : next_pc p = t_pc s) by (unfold next_pc, p; lia).
  assert (Ha : 0 <= w mod 4096 < 4096) by lia.
  pose proof (Hmem (w mod 4096)) as Hv.
  assert (HU : U 16 (mget (t_mem s) (w mod 4096)) = mget (t_mem s) (w mod 4096))
    by (unfold U; change (2 ^ 16) with 65536; lia).
  pose proof (lor16 _ _ Hacc Hv) as Hlor.
  pose proof (land16 _ _ Hacc Hv) as Hland.
  pose proof (lxor16 _ _ Hacc Hv) as Hlxor.
  pose proof (lnot16 _ Hacc) as Hlnot.
  assert (Hst : Z.land (t_accu s) 65535 = t_accu s) by (rewrite land_65535; lia).
  unfold ref_step, ref_halted. cbn [r_pc r_mem r_acc r_count r_branches].
  destruct (p >? mx) eqn:Eh; [lia|].
  rewrite Hw. cbv zeta. rewrite Hnp.
  rewrite (toy_decode_eq w Hwr).
  assert (Hcases : w / 4096 = 0 \/ w / 4096 = 1 \/ w / 4096 = 2 \/ w / 4096 = 3 \/
                   w / 4096 = 4 \/ w / 4096 = 5 \/ w / 4096 = 6 \/ w / 4096 = 7 \/
                   w / 4096 = 8 \/ w / 4096 = 9 \/ w / 4096 = 10 \/ w / 4096 = 11 \/
                   w / 4096 = 12 \/ w / 4096 = 13 \/ w / 4096 = 14 \/ w / 4096 = 15) by lia.
  unfold toy_behavior. cbv zeta. cbn [top taddr]. unfold t_read, tcfg. rewrite Hsz.
  rewrite (toy_read_ok (t_mem s) _ Ha), (toy_write_ok (t_mem s) _ (t_accu s) Ha), HU, Hst.
  unfold toy_alu.
  repeat match type of Hcases with _ \/ _ => destruct Hcases as [Hk|Hcases] end;
    try rename Hcases into Hk; rewrite Hk; lits.
  - (* STO *)
    do 5 eexists. split; [reflexivity|].
    repeat split; try lia; try (apply mem16_mset; assumption); try apply Hmem.
    f_equal; lia.
  - (* LDA *)
    do 5 eexists. split; [reflexivity|].
    repeat split; try lia; try apply Hmem. f_equal; lia.
  - (* BRZ *)
    destruct (t_accu s =? 0) eqn:Ez.
    + do 5 eexists. split; [reflexivity|].
      fin16. repeat split; try lia; try apply Hmem. f_equal; lia.
    + do 5 eexists. split; [reflexivity|].
      repeat split; try lia; try apply Hmem. f_equal; lia.
  - (* ADD *)
    do 5 eexists. split; [reflexivity|].
    fin16. repeat split; try lia; try apply Hmem. f_equal; lia.
  - (* SUB *)
    do 5 eexists. split; [reflexivity|].
    fin16. repeat split; try lia; try apply Hmem. f_equal; lia.
  - (* OR *)
    do 5 eexists. split; [reflexivity|].
    fin16. repeat split; try lia; try apply Hmem. f_equal; lia.
  - (* AND *)
    do 5 eexists. split; [reflexivity|].
    fin16. repeat split; try lia; try apply Hmem. f_equal; lia.
  - (* XOR *)
    do 5 eexists. split; [reflexivity|].
    fin16. repeat split; try lia; try apply Hmem. f_equal; lia.
  - (* NOT *)
    do 5 eexists. split; [reflexivity|].
    rewrite Hlnot. repeat split; try lia; try apply Hmem. f_equal; lia.
  - (* INC *)
    do 5 eexists. split; [reflexivity|].
    fin16. repeat split; try lia; try apply Hmem. f_equal; lia.
  - (* DEC *)
    do 5 eexists. split; [reflexivity|].
    fin16. repeat split; try lia; try apply Hmem. f_equal; lia.
  - (* ZRO *)
    do 5 eexists. split; [reflexivity|].
    repeat split; try lia; try apply Hmem. f_equal; lia.
  - (* NOP 12 *)
    do 5 eexists. split; [reflexivity|].
    repeat split; try lia; try apply Hmem. f_equal; lia.
  - do 5 eexists. split; [reflexivity|].
    repeat split; try lia; try apply Hmem. f_equal; lia.
  - do 5 eexists. split; [reflexivity|].
    repeat split; try lia; try apply Hmem. f_equal; lia.
  - do 5 eexists. split; [reflexivity|].
    repeat split; try lia; try apply Hmem. f_equal; lia.
Qed.

(** * One whole step *)
Definition toy_step_done_noop s : toy_done s = true -> t_nextcycle s = 1 -> toy_step s = (s, TNone).
Proof.
  intros Hd Hn. unfold toy_step, first_half, second_half. rewrite Hn, Hd.
  change (negb (1 =? 1)) with false. cbv iota. rewrite Hd. reflexivity.
Qed.

Lemma halted_of_done m s : TInv m s -> toy_done s = ref_halted m (tabs s).
Proof.
  intros Inv. destruct Inv as [_ _ _ _ _ _ _ Hl].
  unfold toy_done, ref_halted, tabs. cbn [r_pc]. rewrite Hl.
  destruct (_ <=? m) eqn:E; destruct (_ >? m) eqn:E2; try reflexivity; lia.
Qed.

Lemma toy_step_not_done m s : TInv m s -> toy_done s = false ->
  exists s', toy_step s = (s', TNone) /\ TInv m s' /\ tabs s' = ref_step m (tabs s) /\
             t_cycles s' = t_cycles s + 2 /\ t_icount s' = t_icount s + 1.
Proof.
  intros Inv Hnd. destruct Inv as [Hsz Hmx Hm Hpc Hacc Hmem Hnc Hl].
  unfold toy_done in Hnd. destruct (t_loaded s) as [i|] eqn:Hli; [|discriminate].
  destruct ((t_pc s - 1) mod 4096 <=? m) eqn:Ep; [|discriminate].
  injection Hl as Hi.
  destruct (beh_ref (fh_pre s) m (mget (t_mem s) ((t_pc s - 1) mod 4096)) (t_icount s))
    as (pc' & acc' & m' & v & bc' & Hb & Hpc' & Hacc' & Hmem' & Href);
    proj; try assumption; try lia; try reflexivity.
  proj_in Href. proj_in Hb. rewrite <- Hi in Hb.
  unfold toy_step. rewrite Hnc. change (negb (1 =? 1)) with false. cbv iota.
  rewrite first_half_eq. unfold toy_done. rewrite Hli, Hnc.
  change (negb (1 =? 1)) with false. cbv iota. rewrite Hb.
  unfold second_half, toy_done. proj. rewrite Hli.
  change (negb (2 =? 2)) with false. cbv iota.
  unfold t_read, tcfg. proj. rewrite Hsz, (toy_read_ok m' pc' Hpc').
  eexists. split; [reflexivity|].
  pose proof (Hmem' pc') as Hw'.
  assert (HU : U 16 (mget m' pc') = mget m' pc') by (unfold U; change (2 ^ 16) with 65536; lia).
  assert (Hp1 : (U12 (pc' + 1) - 1) mod 4096 = pc')
    by (unfold U12, U; change (2 ^ 12) with 4096; lia).
  split; [|split; [|split]].
  - constructor; proj; try assumption; try reflexivity.
    + unfold U12, U; change (2 ^ 12) with 4096; lia.
    + rewrite Hp1, HU. unfold maxpc_z. proj. rewrite Hmx. reflexivity.
  - unfold tabs. proj. rewrite Hp1. symmetry. exact Href.
  - proj. lia.
  - reflexivity.
Qed.

Lemma toy_step_refines_lemma m s s' o : TInv m s -> toy_step s = (s', o) ->
  o = TNone /\ TInv m s' /\ tabs s' = ref_step m (tabs s).
Proof.
  intros Inv Hs. destruct (toy_done s) eqn:Hd.
  - rewrite (toy_step_done_noop s Hd (inv_nc _ _ Inv)) in Hs. injection Hs as <- <-.
    split; [reflexivity|]. split; [exact Inv|].
    unfold ref_step. rewrite <- (halted_of_done m s Inv), Hd. reflexivity.
  - destruct (toy_step_not_done m s Inv Hd) as (s2 & Hs2 & Inv2 & Hr & _).
    rewrite Hs2 in Hs. injection Hs as <- <-. auto.
Qed.

(* when done: the model step and the reference step are both the identity *)
Lemma toy_step_done_both m s : TInv m s -> toy_done s = true ->
  toy_step s = (s, TNone) /\ ref_step m (tabs s) = tabs s.
Proof.
  intros Inv Hd. split; [apply toy_step_done_noop; [exact Hd | exact (inv_nc _ _ Inv)]|].
  unfold ref_step. rewrite <- (halted_of_done m s Inv), Hd. reflexivity.
Qed.

(* every executed instruction costs two cycles and counts once *)
Lemma toy_step_costs_lemma m s : TInv m s -> toy_done s = false ->
  t_cycles (fst (toy_step s)) = t_cycles s + 2 /\ t_icount (fst (toy_step s)) = t_icount s + 1.
Proof.
  intros Inv Hd. destruct (toy_step_not_done m s Inv Hd) as (s2 & Hs2 & _ & _ & Hc & Hi).
  rewrite Hs2. cbn [fst]. auto.
Qed.

(** * Runs *)
Fixpoint toy_steps (n : nat) (s : tstate) : tstate :=
  match n with O => s | S k => toy_steps k (fst (toy_step s)) end.

Lemma toy_steps_done n s : toy_done s = true -> t_nextcycle s = 1 -> toy_steps n s = s.
Proof.
  intros Hd Hn. induction n as [|k IH]; cbn [toy_steps]; [reflexivity|].
  rewrite (toy_step_done_noop s Hd Hn). cbn [fst]. exact IH.
Qed.

Lemma toy_steps_add n d s : toy_steps (n + d) s = toy_steps d (toy_steps n s).
Proof.
  revert s. induction n as [|k IH]; intros s; cbn [toy_steps Nat.add]; [reflexivity|]. apply IH.
Qed.

Lemma toy_steps_ref m n s : TInv m s ->
  TInv m (toy_steps n s) /\ tabs (toy_steps n s) = ref_run n m (tabs s).
Proof.
  revert s. induction n as [|k IH]; intros s Inv; cbn [toy_steps ref_run]; [auto|].
  destruct (toy_step s) as [s' o] eqn:Hs.
  destruct (toy_step_refines_lemma m s s' o Inv Hs) as (_ & Inv' & Hr).
  cbn [fst]. rewrite <- Hr. apply IH. exact Inv'.
Qed.

Lemma toy_run_steps m n s : TInv m s ->
  toy_run n s = (toy_steps n s, TNone, toy_done (toy_steps n s)).
Proof.
  revert s. induction n as [|k IH]; intros s Inv; cbn [toy_run toy_steps]; [reflexivity|].
  destruct (toy_done s) eqn:Hd.
  - rewrite (toy_step_done_noop s Hd (inv_nc _ _ Inv)). cbn [fst].
    rewrite (toy_steps_done k s Hd (inv_nc _ _ Inv)), Hd. reflexivity.
  - destruct (toy_step_not_done m s Inv Hd) as (s2 & Hs2 & Inv2 & _).
    rewrite Hs2. cbn [fst]. apply IH. exact Inv2.
Qed.

Lemma toy_run_eq_ref_lemma m s n : TInv m s ->
  TInv m (toy_steps n s) /\
  tabs (toy_steps n s) = ref_run n m (tabs s) /\
  toy_run n s = (toy_steps n s, TNone, ref_halted m (ref_run n m (tabs s))) /\
  (toy_done (toy_steps n s) = true ->
   forall n', (n <= n')%nat -> toy_run n' s = (toy_steps n s, TNone, true)).
Proof.
  intros Inv. destruct (toy_steps_ref m n s Inv) as [Invn Hr].
  split; [exact Invn|]. split; [exact Hr|]. split.
  - rewrite (toy_run_steps m n s Inv), <- Hr, (halted_of_done m _ Invn). reflexivity.
  - intros Hd n' Hle. rewrite (toy_run_steps m n' s Inv).
    replace n' with (n + (n' - n))%nat by lia. rewrite toy_steps_add.
    rewrite (toy_steps_done _ _ Hd (inv_nc _ _ Invn)), Hd. reflexivity.
Qed.

Lemma toy_cycles_lemma m s n : TInv m s -> t_cycles s = 2 * t_icount s ->
  t_cycles (toy_steps n s) = 2 * t_icount (toy_steps n s).
Proof.
  revert s. induction n as [|k IH]; intros s Inv Hc; cbn [toy_steps]; [exact Hc|].
  destruct (toy_done s) eqn:Hd.
  - rewrite (toy_step_done_noop s Hd (inv_nc _ _ Inv)). cbn [fst]. apply IH; assumption.
  - destruct (toy_step_not_done m s Inv Hd) as (s2 & Hs2 & Inv2 & _ & Hcy & Hic).
    rewrite Hs2. cbn [fst]. apply IH; [exact Inv2 | lia].
Qed.

(* the instruction counter counts exactly the reference machine's executed instructions *)
Lemma toy_icount_lemma m s n : TInv m s ->
  t_icount (toy_steps n s) = r_count (ref_run n m (tabs s)).
Proof.
  intros Inv. destruct (toy_steps_ref m n s Inv) as [_ Hr]. rewrite <- Hr. reflexivity.
Qed.

(** * Named consequences *)
(* the fetched word at the reference pc *)
Definition cur_word (s : tstate) : Z := mget (t_mem s) ((t_pc s - 1) mod 4096).

Lemma ref_step_unfold m s : TInv m s -> toy_done s = false ->
  0 <= cur_word s < 65536 /\ ref_halted m (tabs s) = false /\
  next_pc (r_pc (tabs s)) = t_pc s.
Proof.
  intros Inv Hd. split; [apply (inv_mem _ _ Inv)|]. split.
  - rewrite <- (halted_of_done m s Inv). exact Hd.
  - pose proof (inv_pc _ _ Inv). unfold tabs, next_pc. cbn [r_pc]. lia.
Qed.

Lemma brz_lemma m s : TInv m s -> toy_done s = false -> cur_word s / 4096 = 2 ->
  let s' := fst (toy_step s) in
  (t_accu s = 0 -> r_pc (tabs s') = cur_word s mod 4096 /\ t_bcount s' = t_bcount s + 1) /\
  (t_accu s <> 0 -> r_pc (tabs s') = next_pc (r_pc (tabs s)) /\ t_bcount s' = t_bcount s) /\
  (t_bcount s' = t_bcount s + 1 <-> t_accu s = 0) /\
  t_accu s' = t_accu s /\ t_mem s' = t_mem s.
Proof.
  intros Inv Hd Hop s'.
  destruct (toy_step_not_done m s Inv Hd) as (s2 & Hs2 & Inv2 & Hr & _).
  assert (Es : s' = s2) by (unfold s'; rewrite Hs2; reflexivity). rewrite Es. clear Es s'.
  destruct (ref_step_unfold m s Inv Hd) as (Hw & Hh & Hnp).
  assert (Hb : t_bcount s2 = r_branches (tabs s2)) by reflexivity.
  assert (Ha : t_accu s2 = r_acc (tabs s2)) by reflexivity.
  assert (Hme : t_mem s2 = r_mem (tabs s2)) by reflexivity.
  rewrite Hb, Ha, Hme, Hr. unfold ref_step. rewrite Hh.
  unfold cur_word in *. cbn [tabs r_pc r_mem r_acc r_count r_branches] in *. cbv zeta.
  rewrite Hop. cbv iota.
  destruct (t_accu s =? 0) eqn:Ez; cbn [r_pc r_branches r_acc r_mem]; repeat split; intros; lia.
Qed.

Lemma pc_wraps_lemma m s : TInv m s -> toy_done s = false -> r_pc (tabs s) = 4095 ->
  (cur_word s / 4096 <> 2 \/ t_accu s <> 0) ->
  r_pc (tabs (fst (toy_step s))) = 0 /\ t_pc (fst (toy_step s)) = 1.
Proof.
  intros Inv Hd Hp Hnb.
  destruct (toy_step_not_done m s Inv Hd) as (s2 & Hs2 & Inv2 & Hr & _).
  rewrite Hs2. cbn [fst].
  destruct (ref_step_unfold m s Inv Hd) as (Hw & Hh & Hnp).
  assert (Hpc2 : r_pc (tabs s2) = 0).
  { rewrite Hr. unfold ref_step. rewrite Hh. cbv zeta.
    unfold next_pc. unfold cur_word in *. cbn [tabs r_pc r_mem r_acc] in *.
    set (w := mget (t_mem s) ((t_pc s - 1) mod 4096)) in *.
    rewrite Hp. change ((4095 + 1) mod 4096) with 0.
    assert (Hcases : w / 4096 = 0 \/ w / 4096 = 1 \/ w / 4096 = 2 \/ w / 4096 = 3 \/
                     w / 4096 = 4 \/ w / 4096 = 5 \/ w / 4096 = 6 \/ w / 4096 = 7 \/
                     w / 4096 = 8 \/ w / 4096 = 9 \/ w / 4096 = 10 \/ w / 4096 = 11 \/
                     w / 4096 = 12 \/ w / 4096 = 13 \/ w / 4096 = 14 \/ w / 4096 = 15) by lia.
    repeat match type of Hcases with _ \/ _ => destruct Hcases as [Hk|Hcases] end;
      try rename Hcases into Hk; rewrite Hk; cbv iota; try reflexivity.
    destruct (t_accu s =? 0) eqn:Ez; [lia | reflexivity]. }
  split; [exact Hpc2|].
  pose proof (inv_pc _ _ Inv2). unfold tabs in Hpc2. cbn [r_pc] in Hpc2. lia.
Qed.

Lemma opcode_alias_lemma m s : TInv m s -> toy_done s = false -> 12 <= cur_word s / 4096 ->
  t_loaded s = Some {| top := 12; taddr := cur_word s mod 4096 |} /\
  tabs (fst (toy_step s)) =
    {| r_acc := t_accu s; r_pc := next_pc (r_pc (tabs s)); r_mem := t_mem s;
       r_count := t_icount s + 1; r_branches := t_bcount s |}.
Proof.
  intros Inv Hd Hop.
  destruct (toy_step_not_done m s Inv Hd) as (s2 & Hs2 & Inv2 & Hr & _).
  rewrite Hs2. cbn [fst].
  destruct (ref_step_unfold m s Inv Hd) as (Hw & Hh & Hnp).
  split.
  - rewrite (inv_loaded _ _ Inv).
    unfold toy_done in Hd. rewrite (inv_loaded _ _ Inv) in Hd.
    destruct (_ <=? m) eqn:E; [|discriminate].
    unfold cur_word in *. rewrite toy_decode_nop by assumption. reflexivity.
  - rewrite Hr. unfold ref_step. rewrite Hh. cbv zeta.
    unfold cur_word in *. cbn [tabs r_pc r_mem r_acc r_count r_branches] in *.
    set (w := mget (t_mem s) ((t_pc s - 1) mod 4096)) in *.
    assert (Hcases : w / 4096 = 12 \/ w / 4096 = 13 \/ w / 4096 = 14 \/ w / 4096 = 15) by lia.
    repeat match type of Hcases with _ \/ _ => destruct Hcases as [Hk|Hcases] end;
      try rename Hcases into Hk; rewrite Hk; cbv iota; f_equal; lia.
Qed.

(** * Concrete witnesses *)
(* image: 0: STO 1   1: INC   (maxpc = 1); accumulator 0xA000 = the word for DEC.
   The state is what load_program leaves: pc pre-incremented to 1, instruction 0 already loaded. *)
Definition selfmod_state : tstate :=
  {| t_pc := 1; t_accu := 40960; t_mem := [(0, 1); (1, 36864)]; t_size := 4096;
     t_loaded := Some (toy_decode 1); t_maxpc := Some 1;
     t_cur := None; t_next := 0; t_vis := vis0; t_icount := 0; t_cycles := 0; t_bcount := 0;
     t_nextcycle := 1; t_started := false |}.

Lemma selfmod_state_inv : TInv 1 selfmod_state.
Proof.
  constructor; cbn [selfmod_state t_pc t_accu t_mem t_size t_loaded t_maxpc t_nextcycle];
    try reflexivity; try lia.
  apply mem16b_ok. reflexivity.
Qed.
