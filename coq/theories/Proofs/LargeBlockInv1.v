(* Proofs/LargeBlockInv1.v — copy of the corresponding part of Proofs/CacheInv.v for cache geometries
   WITHOUT the bound bbits <= 12 ([cfg_ok] below, [geom_ok] of Proofs/LargeBlockArith.v): the data
   cache invariant, the logical contents and the master lemmas of the accesses, with the side
   condition "block base >= 2^14" where the original used "address >= 2^14" (the two coincide
   for bbits <= 12).  Same definition and lemma names as in CacheInv.v; do not import both. *)
From Coq Require Import Lia ZifyBool.
From ArchSim Require Import Model.Base Model.Mem Model.Cache Spec.Policy
  Proofs.WordLemmas Proofs.MapLemmas Proofs.C10Proofs Proofs.CacheArith Proofs.LargeBlockArith.
Open Scope Z_scope.
Ltac Zify.zify_post_hook ::= Z.to_euclidean_division_equations.
Local Arguments Z.mul : simpl never.
Local Arguments Z.add : simpl never.
Local Arguments Z.sub : simpl never.
Local Arguments Z.pow : simpl never.
Local Arguments Z.div : simpl never.
Local Arguments Z.modulo : simpl never.
Local Arguments Z.land : simpl never.
Local Arguments Z.lor : simpl never.
Local Arguments Z.lnot : simpl never.
Local Arguments Z.shiftl : simpl never.
Local Arguments Z.shiftr : simpl never.
Local Arguments Z.of_nat : simpl never.
Local Arguments Z.to_nat : simpl never.

(** * Definitions *)
Definition cfg_ok (c : ccfg) : Prop :=
  0 <= ibits c /\ 0 <= bbits c /\ ibits c + bbits c + 2 <= 32 /\ 1 <= assoc c /\
  (plru c = true -> exists k : nat, assoc c = 2 ^ Z.of_nat k).

Lemma cfg_geom c : cfg_ok c -> geom_ok (ibits c) (bbits c).
Proof. intros (H1 & H2 & H3 & _). repeat split; lia. Qed.

(* policy state well-formed for its kind *)
Definition pol_ok (c : ccfg) (p : pol) : Prop :=
  match p with
  | LRU o => NoDup o /\ (forall x, In x o <-> 0 <= x < assoc c)
  | PLRU a bits => plru c = true /\ a = assoc c /\ length bits = Z.to_nat (assoc c - 1)
  end.

(* block i-th set: dirty iff valid; a valid block has 2^bbits 32-bit words, its address is the
   block-aligned address whose decoding gives its tag and this set index, and it lies inside
   the data range [2^14, 2^32) *)
Definition block_ok (c : ccfg) (i : Z) (b : cblock Z) : Prop :=
  dirty b = valid b /\
  (valid b = true ->
     Z.of_nat (length (vals b)) = 2 ^ bbits c /\
     (forall j, 0 <= j < 2 ^ bbits c -> 0 <= nthZ (vals b) j 0 < 4294967296) /\
     0 <= baddr b < 4294967296 /\
     da_tag (decode_addr (ibits c) (bbits c) (baddr b)) = btag b /\
     da_idx (decode_addr (ibits c) (bbits c) (baddr b)) = i /\
     da_balign (decode_addr (ibits c) (bbits c) (baddr b)) = baddr b /\
     16384 <= baddr b).

Definition matches (b : cblock Z) (t : Z) : bool := valid b && (btag b =? t).

(* at most one valid block per tag *)
Definition uniq (bl : list (cblock Z)) : Prop :=
  forall bi bj, 0 <= bi < Z.of_nat (length bl) -> 0 <= bj < Z.of_nat (length bl) ->
    valid (nthZ bl bi empty_block) = true -> valid (nthZ bl bj empty_block) = true ->
    btag (nthZ bl bi empty_block) = btag (nthZ bl bj empty_block) -> bi = bj.

Definition set_ok (c : ccfg) (i : Z) (s : cset Z) : Prop :=
  Z.of_nat (length (blocks s)) = assoc c /\ pol_ok c (policy s) /\
  (forall bi, 0 <= bi < assoc c -> block_ok c i (nthZ (blocks s) bi empty_block)) /\
  uniq (blocks s).

Definition bytes_ok (m : zmap) : Prop := forall k, 0 <= mget m k < 256.

Definition SInvC (c : cache Z) (m : zmap) : Prop :=
  cfg_ok (cfg c) /\ Z.of_nat (length (sets c)) = 2 ^ ibits (cfg c) /\
  (forall i, 0 <= i < 2 ^ ibits (cfg c) -> set_ok (cfg c) i (get_set c i)) /\
  bytes_ok m.

(* the resident block holding address a, if any *)
Definition lookup (bl : list (cblock Z)) (tag : Z) : option (cblock Z) :=
  match find_block bl tag 0 with
  | Some bi => Some (nthZ bl bi empty_block)
  | None => None
  end.

Definition res_block (c : cache Z) (a : Z) : option (cblock Z) :=
  lookup (blocks (get_set c (da_idx (cdecode c a)))) (da_tag (cdecode c a)).

Definition logicalC (c : cache Z) (m : zmap) (a : Z) : Z :=
  match res_block c a with
  | Some b => byte_of (nthZ (vals b) (da_boff (cdecode c a)) 0) (da_byoff (cdecode c a))
  | None => mget m a
  end.

Definition in32b (a : Z) : Prop := 0 <= a < 4294967296.

Definition WTInvC (c : cache Z) (m : zmap) : Prop := forall a, in32b a -> mget m a = logicalC c m a.
Definition CInvC (c : cache Z) (m : zmap) (wt : bool) : Prop :=
  SInvC c m /\ (wt = true -> WTInvC c m).
Definition FlatC (f : zmap) (c : cache Z) (m : zmap) : Prop :=
  forall a, in32b a -> mget f a = logicalC c m a.

Definition SInv (d : dcache) : Prop := SInvC (dc d) (lower d).
Definition logical (d : dcache) (a : Z) : Z := logicalC (dc d) (lower d) a.
Definition WTInv (d : dcache) : Prop := forall a, 0 <= a < 4294967296 -> mget (lower d) a = logical d a.
Definition CInv (d : dcache) : Prop := SInv d /\ (wthrough d = true -> WTInv d).
Definition Flat (f : zmap) (d : dcache) : Prop :=
  forall a, 0 <= a < 4294967296 -> mget f a = logical d a.

(* the definition of [logical], spelled out as in the property text *)
Lemma logical_unfold d a :
  logical d a =
  let da := cdecode (dc d) a in
  let s := get_set (dc d) (da_idx da) in
  match find_block (blocks s) (da_tag da) 0 with
  | Some bi => byte_of (nthZ (vals (nthZ (blocks s) bi empty_block)) (da_boff da) 0) (da_byoff da)
  | None => mget (lower d) a
  end.
Proof.
  unfold logical, logicalC, res_block, lookup. cbv zeta.
  destruct (find_block _ _ 0); reflexivity.
Qed.

(** * find_block / lookup *)
Lemma find_block_Some : forall (bl : list (cblock Z)) t i j, find_block bl t i = Some j ->
  i <= j < i + Z.of_nat (length bl) /\ matches (nthZ bl (j - i) empty_block) t = true.
Proof.
  induction bl as [|b bl IH]; intros t i j H; cbn [find_block] in H; [discriminate|].
  fold (matches b t) in H. destruct (matches b t) eqn:E.
  - injection H as <-. cbn [length]. split; [lia|]. replace (i - i) with 0 by lia. exact E.
  - apply IH in H. destruct H as [H1 H2]. cbn [length]. split; [lia|].
    rewrite nthZ_cons by lia. replace (j - i - 1) with (j - (i + 1)) by lia. exact H2.
Qed.

Lemma find_block_None : forall (bl : list (cblock Z)) t i, find_block bl t i = None ->
  forall k, 0 <= k < Z.of_nat (length bl) -> matches (nthZ bl k empty_block) t = false.
Proof.
  induction bl as [|b bl IH]; intros t i H k Hk; cbn [length] in Hk; [lia|].
  cbn [find_block] in H. fold (matches b t) in H. destruct (matches b t) eqn:E; [discriminate|].
  destruct (Z.eq_dec k 0) as [->|Hne]; [exact E|].
  rewrite nthZ_cons by lia. apply (IH t (i + 1) H). lia.
Qed.

Lemma matches_true b t : matches b t = true <-> valid b = true /\ btag b = t.
Proof. unfold matches. rewrite andb_true_iff, Z.eqb_eq. tauto. Qed.

Lemma find_block_uniq bl t k : uniq bl -> 0 <= k < Z.of_nat (length bl) ->
  matches (nthZ bl k empty_block) t = true -> find_block bl t 0 = Some k.
Proof.
  intros Hu Hk Hm. destruct (find_block bl t 0) as [j|] eqn:E.
  - apply find_block_Some in E. destruct E as [Hj Hmj]. replace (j - 0) with j in Hmj by lia.
    apply matches_true in Hm. apply matches_true in Hmj.
    f_equal. apply Hu; try lia; try tauto.
  - rewrite (find_block_None bl t 0 E k Hk) in Hm. discriminate.
Qed.

Lemma lookup_hit bl t k : uniq bl -> 0 <= k < Z.of_nat (length bl) ->
  matches (nthZ bl k empty_block) t = true -> lookup bl t = Some (nthZ bl k empty_block).
Proof. intros Hu Hk Hm. unfold lookup. rewrite (find_block_uniq bl t k Hu Hk Hm). reflexivity. Qed.

Lemma lookup_miss bl t :
  (forall k, 0 <= k < Z.of_nat (length bl) -> matches (nthZ bl k empty_block) t = false) ->
  lookup bl t = None.
Proof.
  intros H. unfold lookup. destruct (find_block bl t 0) as [j|] eqn:E; [|reflexivity].
  apply find_block_Some in E. destruct E as [Hj Hm]. replace (j - 0) with j in Hm by lia.
  rewrite H in Hm by lia. discriminate.
Qed.

Lemma lookup_Some bl t b : lookup bl t = Some b ->
  exists k, 0 <= k < Z.of_nat (length bl) /\ b = nthZ bl k empty_block /\ matches b t = true /\
            find_block bl t 0 = Some k.
Proof.
  unfold lookup. destruct (find_block bl t 0) as [j|] eqn:E; [|discriminate].
  intros H. injection H as <-. pose proof (find_block_Some bl t 0 j E) as [Hj Hm].
  replace (j - 0) with j in Hm by lia. exists j. repeat split; try lia; assumption.
Qed.

Lemma lookup_None bl t : lookup bl t = None ->
  find_block bl t 0 = None /\
  forall k, 0 <= k < Z.of_nat (length bl) -> matches (nthZ bl k empty_block) t = false.
Proof.
  unfold lookup. destruct (find_block bl t 0) as [j|] eqn:E; [discriminate|].
  intros _. split; [reflexivity|]. apply (find_block_None bl t 0 E).
Qed.

(** * Policies *)
Lemma pol_victim_range c p : cfg_ok c -> pol_ok c p -> 0 <= pol_victim p < assoc c.
Proof.
  intros (_ & _ & _ & Ha & Hp) Hok. destruct p as [o|a bits]; cbn [pol_ok] in Hok.
  - destruct Hok as [_ Hin]. cbn [pol_victim]. apply Hin.
    destruct o as [|x o]; [exfalso; apply (proj2 (Hin 0)); lia |]. left. reflexivity.
  - destruct Hok as (Hpl & -> & _). destruct (Hp Hpl) as [k Hk]. rewrite Hk.
    apply (plru_tree_refines_proof k bits).
Qed.

Lemma pol_access_ok c p i : pol_ok c p -> 0 <= i < assoc c -> pol_ok c (pol_access p i).
Proof.
  intros Hok Hi. destruct p as [o|a bits]; cbn [pol_ok pol_access] in *.
  - destruct Hok as [Hnd Hin]. split.
    + apply NoDup_snoc; [apply remove_first_NoDup; exact Hnd|].
      rewrite remove_first_In_iff by exact Hnd. tauto.
    + intros x. rewrite in_app_iff, remove_first_In_iff by exact Hnd. cbn [In]. rewrite Hin.
      destruct (Z.eq_dec x i); [subst; tauto | split; [intros [[H _]|[H|[]]]; [exact H | lia] | tauto]].
  - destruct Hok as (Hpl & Ha & Hlen). repeat split; try assumption.
    rewrite access_loop_length. exact Hlen.
Qed.

Lemma zrange_from_In s n x : In x (zrange_from s n) <-> s <= x < s + Z.of_nat n.
Proof. apply zrange_In. Qed.

Lemma pol_init_ok c : cfg_ok c -> pol_ok c (pol_init (plru c) (assoc c)).
Proof.
  intros (_ & _ & _ & Ha & _). unfold pol_init. destruct (plru c) eqn:E; cbn [pol_ok].
  - repeat split; try assumption. apply repeat_length.
  - split; [apply zrange_NoDup|]. intros x. rewrite zrange_In. lia.
Qed.

(** * Sets of a cache *)
Definition touch (c : cache Z) (i bi : Z) : cache Z :=
  put_set Z c i {| blocks := blocks (get_set c i); policy := pol_access (policy (get_set c i)) bi |}.
Definition install (c : cache Z) (i bi : Z) (nb : cblock Z) : cache Z :=
  put_set Z c i {| blocks := set_nthZ (blocks (get_set c i)) bi nb;
                   policy := pol_access (policy (get_set c i)) bi |}.
Definition mkblock (da : daddr) (v : list Z) : cblock Z :=
  {| valid := true; dirty := true; btag := da_tag da; baddr := da_balign da; vals := v |}.

Lemma cache_read_block_eq (c : cache Z) da :
  cache_read_block c da =
  match find_block (blocks (get_set c (da_idx da))) (da_tag da) 0 with
  | Some bi => (Some (vals (nthZ (blocks (get_set c (da_idx da))) bi empty_block)), touch c (da_idx da) bi)
  | None => (None, c)
  end.
Proof. reflexivity. Qed.

Lemma cache_write_block_eq (c : cache Z) da v :
  cache_write_block c da v =
  match find_block (blocks (get_set c (da_idx da))) (da_tag da) 0 with
  | None =>
      let bi := pol_victim (policy (get_set c (da_idx da))) in
      let old := nthZ (blocks (get_set c (da_idx da))) bi empty_block in
      (false, (if dirty old then Some (baddr old, vals old) else None),
       install c (da_idx da) bi (mkblock da v))
  | Some bi => (true, None, install c (da_idx da) bi (mkblock da v))
  end.
Proof. reflexivity. Qed.

Lemma get_put_set (c : cache Z) i s j : 0 <= i < Z.of_nat (length (sets c)) -> 0 <= j ->
  get_set (put_set Z c i s) j = if j =? i then s else get_set c j.
Proof. intros Hi Hj. unfold get_set, put_set. cbn [sets]. apply nthZ_set_nthZ; assumption. Qed.

Lemma get_touch (c : cache Z) i bi j : 0 <= i < Z.of_nat (length (sets c)) -> 0 <= j ->
  blocks (get_set (touch c i bi) j) = blocks (get_set c j).
Proof.
  intros Hi Hj. unfold touch. rewrite get_put_set by assumption.
  destruct (Z.eqb_spec j i) as [->|]; reflexivity.
Qed.

Lemma get_install (c : cache Z) i bi nb j : 0 <= i < Z.of_nat (length (sets c)) -> 0 <= j ->
  blocks (get_set (install c i bi nb) j) =
  if j =? i then set_nthZ (blocks (get_set c i)) bi nb else blocks (get_set c j).
Proof.
  intros Hi Hj. unfold install. rewrite get_put_set by assumption.
  destruct (Z.eqb_spec j i) as [->|]; reflexivity.
Qed.

(** * Structural invariant: preservation by the elementary updates *)
Lemma sinv_cfg c m : SInvC c m -> cfg_ok (cfg c).
Proof. intros H; apply H. Qed.
Lemma sinv_geom c m : SInvC c m -> geom_ok (ibits (cfg c)) (bbits (cfg c)).
Proof. intros H; apply cfg_geom; apply H. Qed.
Lemma sinv_set c m i : SInvC c m -> 0 <= i < 2 ^ ibits (cfg c) -> set_ok (cfg c) i (get_set c i).
Proof. intros H; apply H. Qed.
Lemma sinv_bytes c m : SInvC c m -> bytes_ok m.
Proof. intros H; apply H. Qed.
Lemma sinv_idx c m a : SInvC c m -> 0 <= da_idx (cdecode c a) < 2 ^ ibits (cfg c).
Proof.
  intros H. unfold cdecode.
  destruct (decode_spec (ibits (cfg c)) (bbits (cfg c)) a (sinv_geom c m H)) as (_ & _ & _ & Hi & _).
  exact Hi.
Qed.

Lemma sinv_lower c m m' : SInvC c m -> bytes_ok m' -> SInvC c m'.
Proof. intros (H1 & H2 & H3 & _) Hb. exact (conj H1 (conj H2 (conj H3 Hb))). Qed.

Lemma sinv_touch c m i bi : SInvC c m -> 0 <= i < 2 ^ ibits (cfg c) -> 0 <= bi < assoc (cfg c) ->
  SInvC (touch c i bi) m.
Proof.
  intros (H1 & H2 & H3 & H4) Hi Hbi. unfold SInvC. change (cfg (touch c i bi)) with (cfg c).
  split; [exact H1|]. split.
  { unfold touch, put_set. cbn [sets]. rewrite set_nthZ_length. exact H2. }
  split; [|exact H4]. intros j Hj. unfold touch. rewrite get_put_set by lia.
  destruct (Z.eqb_spec j i) as [->|Hne]; [|apply H3; exact Hj].
  destruct (H3 i Hi) as (S1 & S2 & S3 & S4). unfold set_ok. cbn [blocks policy].
  split; [exact S1|]. split; [apply pol_access_ok; assumption|]. split; assumption.
Qed.

Definition no_other (bl : list (cblock Z)) (bi t : Z) : Prop :=
  forall bj, 0 <= bj < Z.of_nat (length bl) -> bj <> bi -> matches (nthZ bl bj empty_block) t = false.

Lemma sinv_install c m i bi nb : SInvC c m ->
  0 <= i < 2 ^ ibits (cfg c) -> 0 <= bi < assoc (cfg c) ->
  block_ok (cfg c) i nb -> valid nb = true ->
  no_other (blocks (get_set c i)) bi (btag nb) ->
  SInvC (install c i bi nb) m.
Proof.
  intros (H1 & H2 & H3 & H4) Hi Hbi Hnb Hv Hno. unfold SInvC.
  change (cfg (install c i bi nb)) with (cfg c).
  split; [exact H1|]. split.
  { unfold install, put_set. cbn [sets]. rewrite set_nthZ_length. exact H2. }
  split; [|exact H4]. intros j Hj. unfold install. rewrite get_put_set by lia.
  destruct (Z.eqb_spec j i) as [->|Hne]; [|apply H3; exact Hj].
  destruct (H3 i Hi) as (S1 & S2 & S3 & S4). unfold set_ok. cbn [blocks policy].
  set (bl := blocks (get_set c i)) in *.
  split; [rewrite set_nthZ_length; exact S1|].
  split; [apply pol_access_ok; assumption|].
  split.
  - intros bj Hbj. rewrite nthZ_set_nthZ by lia.
    destruct (Z.eqb_spec bj bi); [exact Hnb | apply S3; exact Hbj].
  - intros x y. rewrite set_nthZ_length. intros Hx Hy.
    rewrite !nthZ_set_nthZ by lia.
    destruct (Z.eqb_spec x bi) as [->|Nx]; destruct (Z.eqb_spec y bi) as [->|Ny]; intros Vx Vy E.
    + reflexivity.
    + exfalso. pose proof (Hno y Hy Ny) as Hm.
      assert (matches (nthZ bl y empty_block) (btag nb) = true) by (apply matches_true; split; [exact Vy | symmetry; exact E]).
      congruence.
    + exfalso. pose proof (Hno x Hx Nx) as Hm.
      assert (matches (nthZ bl x empty_block) (btag nb) = true) by (apply matches_true; split; [exact Vx | exact E]).
      congruence.
    + apply S4; assumption.
Qed.

(** * The resident-block function after the elementary updates *)
Lemma res_touch c m i bi a : SInvC c m -> 0 <= i < 2 ^ ibits (cfg c) ->
  res_block (touch c i bi) a = res_block c a.
Proof.
  intros H Hi. unfold res_block. change (cdecode (touch c i bi) a) with (cdecode c a).
  pose proof (sinv_idx c m a H) as Hidx. destruct H as (_ & H2 & _).
  rewrite get_touch by lia. reflexivity.
Qed.

Section Install.
  Variables (c : cache Z) (m : zmap) (i bi : Z) (nb : cblock Z).
  Hypothesis HS : SInvC c m.
  Hypothesis Hi : 0 <= i < 2 ^ ibits (cfg c).
  Hypothesis Hbi : 0 <= bi < assoc (cfg c).
  Hypothesis Hnb : block_ok (cfg c) i nb.
  Hypothesis Hv : valid nb = true.
  Hypothesis Hno : no_other (blocks (get_set c i)) bi (btag nb).

  Let bl := blocks (get_set c i).
  Let old := nthZ bl bi empty_block.

  Lemma install_len : Z.of_nat (length bl) = assoc (cfg c).
  Proof. exact (proj1 (sinv_set c m i HS Hi)). Qed.

  Lemma install_uniq_new : uniq (set_nthZ bl bi nb).
  Proof.
    pose proof (sinv_install c m i bi nb HS Hi Hbi Hnb Hv Hno) as H.
    pose proof (sinv_set _ _ i H Hi) as (_ & _ & _ & Hu).
    change (cfg (install c i bi nb)) with (cfg c) in Hu.
    rewrite get_install in Hu by (destruct HS as (_ & H2 & _); lia).
    rewrite Z.eqb_refl in Hu. exact Hu.
  Qed.

  Lemma res_install_same a :
    da_idx (cdecode c a) = i -> da_tag (cdecode c a) = btag nb ->
    res_block (install c i bi nb) a = Some nb.
  Proof.
    intros Ei Et. unfold res_block. change (cdecode (install c i bi nb) a) with (cdecode c a).
    rewrite Ei, Et. rewrite get_install by (destruct HS as (_ & H2 & _); lia).
    rewrite Z.eqb_refl. fold bl. pose proof install_len as Hlen.
    rewrite (lookup_hit (set_nthZ bl bi nb) (btag nb) bi).
    - rewrite nthZ_set_nthZ_eq by lia. reflexivity.
    - apply install_uniq_new.
    - rewrite set_nthZ_length. lia.
    - rewrite nthZ_set_nthZ_eq by lia. apply matches_true. split; [exact Hv | reflexivity].
  Qed.

  Lemma res_install_other a :
    ~ (da_idx (cdecode c a) = i /\ da_tag (cdecode c a) = btag nb) ->
    res_block (install c i bi nb) a =
    if (da_idx (cdecode c a) =? i) && matches old (da_tag (cdecode c a)) then None else res_block c a.
  Proof.
    intros Hne. unfold res_block. change (cdecode (install c i bi nb) a) with (cdecode c a).
    pose proof (sinv_idx c m a HS) as Hidx.
    rewrite get_install by (destruct HS as (_ & H2 & _); lia).
    destruct (Z.eqb_spec (da_idx (cdecode c a)) i) as [Ei|Ni]; cbn [andb]; [|reflexivity].
    rewrite Ei. fold bl. set (t := da_tag (cdecode c a)) in *.
    assert (Nt: t <> btag nb) by tauto.
    pose proof install_len as Hlen.
    pose proof (sinv_set c m i HS Hi) as (_ & _ & _ & Hu). fold bl in Hu.
    assert (Hnbm: matches nb t = false).
    { unfold matches. rewrite Hv. cbn [andb]. apply Z.eqb_neq. congruence. }
    destruct (matches old t) eqn:Eo.
    - apply lookup_miss. intros k. rewrite set_nthZ_length. intros Hk.
      rewrite nthZ_set_nthZ by lia. destruct (Z.eqb_spec k bi) as [->|Nk]; [exact Hnbm|].
      destruct (matches (nthZ bl k empty_block) t) eqn:Ek; [|reflexivity].
      exfalso. apply Nk. apply matches_true in Ek. apply matches_true in Eo. unfold old in Eo.
      apply Hu; try lia; try tauto.
    - destruct (lookup bl t) as [b|] eqn:El.
      + apply lookup_Some in El. destruct El as (k & Hk & -> & Hm & _).
        assert (Nk: k <> bi) by (intros ->; unfold old in Eo; congruence).
        rewrite (lookup_hit (set_nthZ bl bi nb) t k).
        * rewrite nthZ_set_nthZ_neq by lia. reflexivity.
        * apply install_uniq_new.
        * rewrite set_nthZ_length. lia.
        * rewrite nthZ_set_nthZ_neq by lia. exact Hm.
      + apply lookup_None in El. destruct El as [_ Hall].
        apply lookup_miss. intros k. rewrite set_nthZ_length. intros Hk.
        rewrite nthZ_set_nthZ by lia. destruct (Z.eqb_spec k bi); [exact Hnbm | apply Hall; exact Hk].
  Qed.
End Install.

(** * Blocks and addresses *)
Lemma in32b_mod a : in32b a -> a mod 4294967296 = a.
Proof. unfold in32b. intros. apply Z.mod_small. lia. Qed.

Lemma blk_addr c m i b a : SInvC c m -> block_ok (cfg c) i b -> valid b = true ->
  (da_idx (cdecode c a) = i /\ da_tag (cdecode c a) = btag b) <-> da_balign (cdecode c a) = baddr b.
Proof.
  intros HS [_ Hb] Hv. destruct (Hb Hv) as (_ & _ & _ & Ht & Hi & Hba & _).
  unfold cdecode. pose proof (same_block_iff _ _ a (baddr b) (sinv_geom c m HS)) as H. cbv zeta in H.
  rewrite Ht, Hi, Hba in H. tauto.
Qed.

Lemma blk_range c m i b a : SInvC c m -> block_ok (cfg c) i b -> valid b = true -> in32b a ->
  (baddr b <= a < baddr b + bsize (bbits (cfg c))) <-> da_balign (cdecode c a) = baddr b.
Proof.
  intros HS [_ Hb] Hv Ha. destruct (Hb Hv) as (_ & _ & _ & Ht & Hi & Hba & _).
  unfold cdecode. pose proof (in_block_iff _ _ (baddr b) a (sinv_geom c m HS)) as H. cbv zeta in H.
  rewrite Hba, (in32b_mod a Ha) in H. exact H.
Qed.

(* offsets of an address inside its block *)
Lemma blk_off c m a : SInvC c m -> in32b a ->
  let da := cdecode c a in
  a = da_balign da + 4 * da_boff da + da_byoff da /\
  0 <= da_boff da < 2 ^ bbits (cfg c) /\ 0 <= da_byoff da < 4 /\
  (a - da_balign da) / 4 = da_boff da /\ (a - da_balign da) mod 4 = da_byoff da /\
  0 <= da_balign da /\ da_balign da + bsize (bbits (cfg c)) <= 4294967296 /\
  (16384 <= da_balign da -> 16384 <= a).
Proof.
  intros HS Ha. cbv zeta. unfold cdecode.
  destruct (decode_spec _ _ a (sinv_geom c m HS)) as (Hx & Hbo & Hby & _ & _ & _ & H0 & Hhi & H14).
  rewrite (in32b_mod a Ha) in *. repeat split; try lia.
Qed.

Lemma balign_in32 c m a : SInvC c m -> in32b (da_balign (cdecode c a)).
Proof.
  intros HS. unfold cdecode, in32b.
  destruct (decode_spec _ _ a (sinv_geom c m HS)) as (_ & _ & _ & _ & _ & _ & H0 & Hhi & _).
  pose proof (bsize_pos (bbits (cfg c)) ltac:(destruct (sinv_geom c m HS); lia)). lia.
Qed.

Lemma decode_balign c m a : SInvC c m ->
  let da := cdecode c a in let db := cdecode c (da_balign da) in
  da_tag db = da_tag da /\ da_idx db = da_idx da /\ da_balign db = da_balign da.
Proof.
  intros HS. cbv zeta. pose proof (sinv_geom c m HS) as G. unfold cdecode.
  pose proof (balign_in32 c m a HS) as Hin. unfold cdecode in Hin.
  assert (E: da_balign (decode_addr (ibits (cfg c)) (bbits (cfg c))
               (da_balign (decode_addr (ibits (cfg c)) (bbits (cfg c)) a))) =
             da_balign (decode_addr (ibits (cfg c)) (bbits (cfg c)) a)).
  { apply (in_block_iff _ _ a _ G). rewrite (in32b_mod _ Hin).
    pose proof (bsize_pos (bbits (cfg c)) ltac:(destruct G; lia)). lia. }
  pose proof (proj2 (same_block_iff _ _ _ a G) E) as [Et Ei]. repeat split; assumption.
Qed.

Lemma mkblock_ok c m a v : SInvC c m ->
  16384 <= da_balign (cdecode c a) ->
  Z.of_nat (length v) = 2 ^ bbits (cfg c) ->
  (forall j, 0 <= j < 2 ^ bbits (cfg c) -> 0 <= nthZ v j 0 < 4294967296) ->
  block_ok (cfg c) (da_idx (cdecode c a)) (mkblock (cdecode c a) v).
Proof.
  intros HS Hlo Hlen Hw. split; [reflexivity|]. intros _. cbn [mkblock vals baddr btag].
  destruct (decode_balign c m a HS) as (Et & Ei & Eb). pose proof (balign_in32 c m a HS) as Hin.
  unfold cdecode in *. repeat split; try assumption; try apply Hw; try apply Hin; assumption.
Qed.

Lemma logical_byte c m a : SInvC c m -> 0 <= logicalC c m a < 256.
Proof.
  intros HS. unfold logicalC. destruct (res_block c a); [apply byte_of_range | apply (sinv_bytes c m HS)].
Qed.

(* a resident block is well-formed, valid, and is the block of the address *)
Lemma res_block_Some c m a b : SInvC c m -> res_block c a = Some b ->
  valid b = true /\ block_ok (cfg c) (da_idx (cdecode c a)) b /\ btag b = da_tag (cdecode c a) /\
  baddr b = da_balign (cdecode c a) /\
  exists k, 0 <= k < assoc (cfg c) /\ b = nthZ (blocks (get_set c (da_idx (cdecode c a)))) k empty_block.
Proof.
  intros HS Hr. unfold res_block in Hr. apply lookup_Some in Hr.
  destruct Hr as (k & Hk & -> & Hm & _). apply matches_true in Hm. destruct Hm as [Hv Ht].
  pose proof (sinv_set c m _ HS (sinv_idx c m a HS)) as (Hlen & _ & Hb & _).
  rewrite Hlen in Hk. specialize (Hb k Hk).
  split; [exact Hv|]. split; [exact Hb|]. split; [exact Ht|]. split.
  - symmetry. apply (blk_addr c m _ _ a HS Hb Hv). split; [reflexivity | symmetry; exact Ht].
  - exists k. split; [exact Hk | reflexivity].
Qed.

Lemma res_block_of c m i k a : SInvC c m -> 0 <= i < 2 ^ ibits (cfg c) -> 0 <= k < assoc (cfg c) ->
  valid (nthZ (blocks (get_set c i)) k empty_block) = true ->
  da_balign (cdecode c a) = baddr (nthZ (blocks (get_set c i)) k empty_block) ->
  res_block c a = Some (nthZ (blocks (get_set c i)) k empty_block).
Proof.
  intros HS Hi Hk Hv Hba. pose proof (sinv_set c m i HS Hi) as (Hlen & _ & Hb & Hu).
  apply (blk_addr c m i _ a HS (Hb k Hk) Hv) in Hba. destruct Hba as [Ei Et].
  unfold res_block. rewrite Ei. apply lookup_hit; [exact Hu | lia |].
  apply matches_true. split; [exact Hv | symmetry; exact Et].
Qed.

(** * Logical contents after the elementary updates *)
Lemma logical_touch c m i bi a : SInvC c m -> 0 <= i < 2 ^ ibits (cfg c) ->
  logicalC (touch c i bi) m a = logicalC c m a.
Proof.
  intros HS Hi. unfold logicalC. rewrite (res_touch c m i bi a HS Hi).
  change (cdecode (touch c i bi) a) with (cdecode c a). reflexivity.
Qed.

Lemma logical_lower c m m' a :
  logicalC c m' a = match res_block c a with Some _ => logicalC c m a | None => mget m' a end.
Proof. unfold logicalC. destruct (res_block c a); reflexivity. Qed.

Section InstallLogical.
  Variables (c : cache Z) (m : zmap) (i bi : Z) (nb : cblock Z).
  Hypothesis HS : SInvC c m.
  Hypothesis Hi : 0 <= i < 2 ^ ibits (cfg c).
  Hypothesis Hbi : 0 <= bi < assoc (cfg c).
  Hypothesis Hnb : block_ok (cfg c) i nb.
  Hypothesis Hv : valid nb = true.
  Hypothesis Hno : no_other (blocks (get_set c i)) bi (btag nb).

  Let old := nthZ (blocks (get_set c i)) bi empty_block.

  (* an address not resident after the install was not resident before, or lies in the
     displaced block *)
  Lemma res_install_None a : res_block (install c i bi nb) a = None ->
    da_balign (cdecode c a) <> baddr nb /\
    (res_block c a = None \/
     (valid old = true /\ da_balign (cdecode c a) = baddr old /\ res_block c a = Some old)).
  Proof.
    intros Hr.
    assert (Hne: da_balign (cdecode c a) <> baddr nb).
    { intros E. apply (blk_addr c m i nb a HS Hnb Hv) in E. destruct E as [Ei Et].
      rewrite (res_install_same c m i bi nb HS Hi Hbi Hnb Hv Hno a Ei Et) in Hr. discriminate. }
    split; [exact Hne|].
    rewrite (res_install_other c m i bi nb HS Hi Hbi Hnb Hv Hno a) in Hr.
    2:{ intros E. apply Hne. apply (blk_addr c m i nb a HS Hnb Hv). exact E. }
    fold old in Hr.
    destruct ((da_idx (cdecode c a) =? i) && matches old (da_tag (cdecode c a))) eqn:E; [|left; exact Hr].
    right. apply andb_true_iff in E. destruct E as [Ei Em]. apply Z.eqb_eq in Ei.
    apply matches_true in Em. destruct Em as [Hvo Et].
    pose proof (sinv_set c m i HS Hi) as (_ & _ & Hb & _).
    assert (Hba: da_balign (cdecode c a) = baddr old).
    { apply (blk_addr c m i old a HS (Hb bi Hbi) Hvo). split; [exact Ei | symmetry; exact Et]. }
    split; [exact Hvo|]. split; [exact Hba|].
    apply (res_block_of c m i bi a HS Hi Hbi Hvo Hba).
  Qed.

  Lemma logical_install m' :
    (forall a, in32b a -> res_block (install c i bi nb) a = None -> mget m' a = logicalC c m a) ->
    forall a, in32b a ->
    logicalC (install c i bi nb) m' a =
    if da_balign (cdecode c a) =? baddr nb
    then byte_of (nthZ (vals nb) (da_boff (cdecode c a)) 0) (da_byoff (cdecode c a))
    else logicalC c m a.
  Proof.
    intros Hm' a Ha. unfold logicalC at 1.
    change (cdecode (install c i bi nb) a) with (cdecode c a).
    destruct (Z.eqb_spec (da_balign (cdecode c a)) (baddr nb)) as [E|Hne].
    - apply (blk_addr c m i nb a HS Hnb Hv) in E. destruct E as [Ei Et].
      rewrite (res_install_same c m i bi nb HS Hi Hbi Hnb Hv Hno a Ei Et). reflexivity.
    - destruct (res_block (install c i bi nb) a) as [b|] eqn:Er; [|apply Hm'; assumption].
      rewrite (res_install_other c m i bi nb HS Hi Hbi Hnb Hv Hno a) in Er.
      2:{ intros E. apply Hne. apply (blk_addr c m i nb a HS Hnb Hv). exact E. }
      destruct ((da_idx (cdecode c a) =? i) && _); [discriminate|].
      unfold logicalC. rewrite Er. reflexivity.
  Qed.
End InstallLogical.

(** * Scenarios on (cache, lower memory) *)
Definition vals_ok (c : cache Z) (v : list Z) : Prop :=
  Z.of_nat (length v) = 2 ^ bbits (cfg c) /\
  (forall j, 0 <= j < 2 ^ bbits (cfg c) -> 0 <= nthZ v j 0 < 4294967296).

Lemma find_hit_facts c m a bi : SInvC c m ->
  find_block (blocks (get_set c (da_idx (cdecode c a)))) (da_tag (cdecode c a)) 0 = Some bi ->
  let old := nthZ (blocks (get_set c (da_idx (cdecode c a)))) bi empty_block in
  0 <= bi < assoc (cfg c) /\ valid old = true /\ btag old = da_tag (cdecode c a) /\
  block_ok (cfg c) (da_idx (cdecode c a)) old /\ baddr old = da_balign (cdecode c a) /\
  16384 <= da_balign (cdecode c a) /\ vals_ok c (vals old) /\
  no_other (blocks (get_set c (da_idx (cdecode c a)))) bi (da_tag (cdecode c a)) /\
  res_block c a = Some old.
Proof.
  intros HS Hf. cbv zeta.
  pose proof (sinv_set c m _ HS (sinv_idx c m a HS)) as (Hlen & _ & Hb & Hu).
  pose proof (find_block_Some _ _ _ _ Hf) as [Hbi Hm]. replace (bi - 0) with bi in Hm by lia.
  apply matches_true in Hm. destruct Hm as [Hv Ht]. rewrite Hlen in Hbi.
  assert (Hbi': 0 <= bi < assoc (cfg c)) by lia. pose proof (Hb bi Hbi') as Hok.
  assert (Hba: da_balign (cdecode c a) = baddr (nthZ (blocks (get_set c (da_idx (cdecode c a)))) bi empty_block)).
  { apply (blk_addr c m _ _ a HS Hok Hv). split; [reflexivity | symmetry; exact Ht]. }
  destruct Hok as [Hd Hok']. pose proof (Hok' Hv) as (L1 & L2 & _ & _ & _ & _ & L14).
  split; [exact Hbi'|]. split; [exact Hv|]. split; [exact Ht|]. split; [split; assumption|].
  split; [symmetry; exact Hba|]. split; [rewrite Hba; exact L14|]. split; [split; assumption|].
  split.
  - intros bj Hbj Hne. destruct (matches _ _) eqn:E; [|reflexivity]. exfalso. apply Hne.
    apply matches_true in E. destruct E as [Vj Tj]. apply Hu; try lia; try assumption.
  - unfold res_block, lookup. rewrite Hf. reflexivity.
Qed.

Lemma hit_update c m a bi v : SInvC c m ->
  find_block (blocks (get_set c (da_idx (cdecode c a)))) (da_tag (cdecode c a)) 0 = Some bi ->
  vals_ok c v ->
  let c' := install c (da_idx (cdecode c a)) bi (mkblock (cdecode c a) v) in
  SInvC c' m /\
  forall a', in32b a' ->
    logicalC c' m a' =
    if da_balign (cdecode c a') =? da_balign (cdecode c a)
    then byte_of (nthZ v (da_boff (cdecode c a')) 0) (da_byoff (cdecode c a'))
    else logicalC c m a'.
Proof.
  intros HS Hf [Hlen Hw]. cbv zeta.
  destruct (find_hit_facts c m a bi HS Hf) as (Hbi & Hvo & Hto & Hoko & Hbao & H14 & _ & Hno & _).
  pose proof (sinv_idx c m a HS) as Hi.
  pose proof (mkblock_ok c m a v HS H14 Hlen Hw) as Hnb.
  split; [apply sinv_install; try assumption; reflexivity|].
  apply (logical_install c m _ bi _ HS Hi Hbi Hnb eq_refl Hno m).
  intros a' Ha' Hr.
  destruct (res_install_None c m _ bi _ HS Hi Hbi Hnb eq_refl Hno a' Hr) as [Hne [Hn|(_ & E & _)]].
  - unfold logicalC. rewrite Hn. reflexivity.
  - exfalso. apply Hne. cbn [mkblock baddr]. rewrite E. exact Hbao.
Qed.

(* writing a valid block back: lower memory takes the logical contents on the block's range
   and keeps everything else *)
Lemma writeback_ok c m i bi : SInvC c m -> 0 <= i < 2 ^ ibits (cfg c) -> 0 <= bi < assoc (cfg c) ->
  let old := nthZ (blocks (get_set c i)) bi empty_block in
  valid old = true ->
  let m' := write_words m (baddr old) (vals old) in
  bytes_ok m' /\
  forall a, in32b a ->
    mget m' a = if da_balign (cdecode c a) =? baddr old then logicalC c m a else mget m a.
Proof.
  intros HS Hi Hbi. cbv zeta. intros Hv.
  set (old := nthZ (blocks (get_set c i)) bi empty_block) in *.
  pose proof (sinv_set c m i HS Hi) as (_ & _ & Hb & _). pose proof (Hb bi Hbi) as Hok. fold old in Hok.
  pose proof Hok as [_ Hok']. destruct (Hok' Hv) as (L1 & L2 & L3 & _ & _ & L6 & L14).
  pose proof (sinv_geom c m HS) as G.
  pose proof (bsize_eq (bbits (cfg c)) ltac:(destruct G; lia)) as HB.
  assert (Hhi: baddr old + bsize (bbits (cfg c)) <= 4294967296).
  { pose proof (blk_off c m (baddr old) HS L3) as H. cbv zeta in H. unfold cdecode in H.
    rewrite L6 in H. lia. }
  assert (W: forall z, mget (write_words m (baddr old) (vals old)) z =
             if (baddr old <=? z) && (z <? baddr old + 4 * Z.of_nat (length (vals old)))
             then byte_of (nthZ (vals old) ((z - baddr old) / 4) 0) ((z - baddr old) mod 4) else mget m z).
  { apply write_words_loc; lia. }
  split.
  - intros z. rewrite W. destruct (_ && _); [apply byte_of_range | apply (sinv_bytes c m HS)].
  - intros a Ha. rewrite W. rewrite L1, <- HB.
    destruct (Z.eqb_spec (da_balign (cdecode c a)) (baddr old)) as [E|Hne].
    + pose proof (proj2 (blk_range c m i old a HS Hok Hv Ha) E) as Hr.
      replace ((baddr old <=? a) && (a <? baddr old + bsize (bbits (cfg c)))) with true by lia.
      unfold logicalC. rewrite (res_block_of c m i bi a HS Hi Hbi Hv E). fold old.
      pose proof (blk_off c m a HS Ha) as H. cbv zeta in H. destruct H as (_ & _ & _ & O1 & O2 & _).
      rewrite <- E, O1, O2. reflexivity.
    + assert (~ (baddr old <= a < baddr old + bsize (bbits (cfg c)))).
      { intros Hr. apply Hne. apply (blk_range c m i old a HS Hok Hv Ha). exact Hr. }
      replace ((baddr old <=? a) && (a <? baddr old + bsize (bbits (cfg c)))) with false by lia.
      reflexivity.
Qed.

(* filling the victim way on a miss, given a new lower memory m' that holds the old logical
   contents wherever the new cache has no block *)
Lemma fill c m a v m' : SInvC c m ->
  find_block (blocks (get_set c (da_idx (cdecode c a)))) (da_tag (cdecode c a)) 0 = None ->
  16384 <= da_balign (cdecode c a) -> vals_ok c v ->
  let bi := pol_victim (policy (get_set c (da_idx (cdecode c a)))) in
  let old := nthZ (blocks (get_set c (da_idx (cdecode c a)))) bi empty_block in
  let c' := install c (da_idx (cdecode c a)) bi (mkblock (cdecode c a) v) in
  bytes_ok m' ->
  (forall a', in32b a' -> res_block c a' = None -> mget m' a' = mget m a') ->
  (valid old = true -> forall a', in32b a' -> da_balign (cdecode c a') = baddr old ->
     mget m' a' = logicalC c m a') ->
  0 <= bi < assoc (cfg c) /\ SInvC c' m' /\
  forall a', in32b a' ->
    logicalC c' m' a' =
    if da_balign (cdecode c a') =? da_balign (cdecode c a)
    then byte_of (nthZ v (da_boff (cdecode c a')) 0) (da_byoff (cdecode c a'))
    else logicalC c m a'.
Proof.
  intros HS Hf H14 [Hlen Hw]. cbv zeta. intros Hb' Hkeep Hold.
  pose proof (sinv_idx c m a HS) as Hi.
  pose proof (sinv_set c m _ HS Hi) as (Hl & Hp & _ & _).
  pose proof (pol_victim_range _ _ (sinv_cfg c m HS) Hp) as Hbi.
  pose proof (mkblock_ok c m a v HS H14 Hlen Hw) as Hnb.
  assert (Hno: no_other (blocks (get_set c (da_idx (cdecode c a))))
                 (pol_victim (policy (get_set c (da_idx (cdecode c a))))) (da_tag (cdecode c a))).
  { intros bj Hbj _. apply (find_block_None _ _ _ Hf). exact Hbj. }
  split; [exact Hbi|].
  assert (HS': SInvC (install c (da_idx (cdecode c a)) (pol_victim (policy (get_set c (da_idx (cdecode c a)))))
                        (mkblock (cdecode c a) v)) m).
  { apply sinv_install; try assumption; reflexivity. }
  split; [apply (sinv_lower _ m m' HS' Hb')|].
  apply (logical_install c m _ _ _ HS Hi Hbi Hnb eq_refl Hno m').
  intros a' Ha' Hr.
  destruct (res_install_None c m _ _ _ HS Hi Hbi Hnb eq_refl Hno a' Hr) as [Hne [Hn|(Vo & E & _)]].
  - unfold logicalC. rewrite Hn. apply Hkeep; assumption.
  - apply Hold; assumption.
Qed.

Lemma miss_block c m a a' : SInvC c m ->
  find_block (blocks (get_set c (da_idx (cdecode c a)))) (da_tag (cdecode c a)) 0 = None ->
  da_balign (cdecode c a') = da_balign (cdecode c a) -> res_block c a' = None.
Proof.
  intros HS Hf E. unfold cdecode in E. apply (same_block_iff _ _ a' a (sinv_geom c m HS)) in E.
  destruct E as [Et Ei]. unfold res_block, lookup, cdecode. rewrite Et, Ei. unfold cdecode in Hf.
  rewrite Hf. reflexivity.
Qed.

Lemma fill_wb c m a v : SInvC c m ->
  find_block (blocks (get_set c (da_idx (cdecode c a)))) (da_tag (cdecode c a)) 0 = None ->
  16384 <= da_balign (cdecode c a) -> vals_ok c v ->
  let bi := pol_victim (policy (get_set c (da_idx (cdecode c a)))) in
  let old := nthZ (blocks (get_set c (da_idx (cdecode c a)))) bi empty_block in
  let c' := install c (da_idx (cdecode c a)) bi (mkblock (cdecode c a) v) in
  let m' := if dirty old then write_words m (baddr old) (vals old) else m in
  SInvC c' m' /\
  forall a', in32b a' ->
    logicalC c' m' a' =
    if da_balign (cdecode c a') =? da_balign (cdecode c a)
    then byte_of (nthZ v (da_boff (cdecode c a')) 0) (da_byoff (cdecode c a'))
    else logicalC c m a'.
Proof.
  intros HS Hf H14 Hv. cbv zeta.
  pose proof (sinv_idx c m a HS) as Hi.
  pose proof (sinv_set c m _ HS Hi) as (_ & Hp & Hb & _).
  pose proof (pol_victim_range _ _ (sinv_cfg c m HS) Hp) as Hbi.
  set (bi := pol_victim (policy (get_set c (da_idx (cdecode c a))))) in *.
  set (old := nthZ (blocks (get_set c (da_idx (cdecode c a)))) bi empty_block).
  pose proof (Hb bi Hbi) as Hok. fold old in Hok. pose proof Hok as [Hd _].
  destruct (dirty old) eqn:Ed.
  - symmetry in Hd. destruct (writeback_ok c m _ bi HS Hi Hbi Hd) as [W1 W2]. fold old in W1, W2.
    apply (fill c m a v _ HS Hf H14 Hv W1).
    + intros a' Ha' Hn. rewrite (W2 a' Ha').
      destruct (Z.eqb_spec (da_balign (cdecode c a')) (baddr old)) as [E|]; [|reflexivity].
      fold bi in E. fold old in E.
      rewrite (res_block_of c m _ bi a' HS Hi Hbi Hd E) in Hn. discriminate.
    + fold bi. fold old. intros _ a' Ha' E. rewrite (W2 a' Ha').
      rewrite (proj2 (Z.eqb_eq _ _) E). reflexivity.
  - apply (fill c m a v m HS Hf H14 Hv (sinv_bytes c m HS)).
    + intros; reflexivity.
    + fold bi. fold old. intros Hvo. congruence.
Qed.

Lemma fill_wt c m a v : SInvC c m -> WTInvC c m ->
  find_block (blocks (get_set c (da_idx (cdecode c a)))) (da_tag (cdecode c a)) 0 = None ->
  16384 <= da_balign (cdecode c a) -> vals_ok c v ->
  let bi := pol_victim (policy (get_set c (da_idx (cdecode c a)))) in
  let c' := install c (da_idx (cdecode c a)) bi (mkblock (cdecode c a) v) in
  SInvC c' m /\
  forall a', in32b a' ->
    logicalC c' m a' =
    if da_balign (cdecode c a') =? da_balign (cdecode c a)
    then byte_of (nthZ v (da_boff (cdecode c a')) 0) (da_byoff (cdecode c a'))
    else logicalC c m a'.
Proof.
  intros HS HW Hf H14 Hv. cbv zeta.
  apply (fill c m a v m HS Hf H14 Hv (sinv_bytes c m HS)).
  - intros; reflexivity.
  - intros _ a' Ha' _. apply HW. exact Ha'.
Qed.

(* fetching a block from lower memory *)
Lemma read_block_lower c m a : SInvC c m -> 16384 <= da_balign (cdecode c a) ->
  exists v, read_words m (da_balign (cdecode c a)) (Z.to_nat (2 ^ bbits (cfg c))) = Ok v /\
    vals_ok c v /\
    forall a', in32b a' -> da_balign (cdecode c a') = da_balign (cdecode c a) ->
      byte_of (nthZ v (da_boff (cdecode c a')) 0) (da_byoff (cdecode c a')) = mget m a'.
Proof.
  intros HS H14. pose proof (sinv_geom c m HS) as G.
  pose proof (bsize_eq (bbits (cfg c)) ltac:(destruct G; lia)) as HB.
  pose proof (p2pos (bbits (cfg c)) ltac:(destruct G; lia)) as HP.
  pose proof (sinv_bytes c m HS) as Hb.
  assert (Hhi: da_balign (cdecode c a) + bsize (bbits (cfg c)) <= 4294967296).
  { unfold cdecode. destruct (decode_spec _ _ a G) as (_ & _ & _ & _ & _ & _ & _ & H & _). exact H. }
  destruct (read_words_loc m (Z.to_nat (2 ^ bbits (cfg c))) (da_balign (cdecode c a)))
    as (v & Hr & Hlen & Hnth); [exact H14 | lia | intros; apply Hb |].
  exists v. split; [exact Hr|]. split; [split|].
  - lia.
  - intros j Hj. rewrite Hnth by lia. change 4294967296 with (2 ^ (8 * Z.of_nat 4)).
    apply le_bytes_range. intros; apply Hb.
  - intros a' Ha' E. pose proof (blk_off c m a' HS Ha') as H. cbv zeta in H.
    destruct H as (Hx & Hbo & Hby & _). rewrite Hnth by lia.
    rewrite byte_of_le_bytes; [| intros; apply Hb | change (Z.of_nat 4) with 4; lia].
    f_equal. rewrite <- E. lia.
Qed.

Lemma read_block_lower_bad c m a : SInvC c m -> da_balign (cdecode c a) < 16384 ->
  read_words m (da_balign (cdecode c a)) (Z.to_nat (2 ^ bbits (cfg c))) = Err (aerr (da_balign (cdecode c a))).
Proof.
  intros HS Hlt. pose proof (sinv_geom c m HS) as G.
  pose proof (p2pos (bbits (cfg c)) ltac:(destruct G; lia)) as HP.
  pose proof (balign_in32 c m a HS) as Hin. unfold in32b in Hin.
  apply read_words_bad; lia.
Qed.

