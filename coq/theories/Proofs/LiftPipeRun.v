(* Proofs/LiftPipeRun.v — one cycle and whole runs of the five-stage pipeline with any data cache
   and any instruction cache against the pipeline on flat memory without instruction cache:
   equal latches and control registers, [sim]-related architectural states, up to the first cache
   rejection of a word-crossing access in the MEM stage. *)
From Coq Require Import Lia ZifyBool.
From ArchSim Require Import Spec.RefCache.
From ArchSim Require Import Model.Base Model.Mem Model.Cache Model.Fmt Model.RV Model.Single
  Model.RVSplit Model.Pipe
  Proofs.WordLemmas Proofs.CacheArith Proofs.CacheInv Proofs.C03Proofs
  Proofs.LiftFlat Proofs.LiftAccess Proofs.LiftSim Proofs.LiftEcall Proofs.LiftSingle Proofs.LiftPipe.
Open Scope Z_scope.
Local Arguments Z.mul : simpl never.
Local Arguments Z.add : simpl never.
Local Arguments Z.sub : simpl never.
Local Arguments Z.of_nat : simpl never.
Local Arguments Z.to_nat : simpl never.

Definition step_agree (g : mcfg) (mi : latch) (s' t' : st) (of of' : option fault) : Prop :=
  sim s' t' /\ of = option_map (fmap g) of' /\
  (forall ff, of' = Some ff ->
     f_err ff = EOther 7 \/ f_instr ff = IEcall \/ exists z, mi = Some z /\ slot_rejects g z = None) /\
  (of = None -> forall z, mi = Some z -> slot_rejects g z = None).

Lemma sim_pipe_step p t p' of : sim (pst p) t -> pipe_step p = (p', of) ->
  ms_cfg (ms (pst p')) = ms_cfg (ms (pst p)) /\
  ((exists t' of', pipe_step (with_pst p t) = (with_pst p' t', of') /\
      step_agree (ms_cfg (ms (pst p))) (mem_input p) (pst p') t' of of') \/
   stages_reject (ms_cfg (ms (pst p))) (mem_input p) of).
Proof.
  intros S0 H. unfold pipe_step in *.
  set (p0 := {| pst := with_cycles (pst p) (cycles (pst p) + 1); lat := lat p; stalled := stalled p;
                saved := saved p; hazards := hazards p |}) in *.
  cbn [pst with_pst lat stalled saved hazards].
  change {| pst := with_cycles t (cycles t + 1); lat := lat p; stalled := stalled p; saved := saved p;
            hazards := hazards p |} with (with_pst p0 (with_cycles t (cycles t + 1))).
  assert (S1 : sim (pst p0) (with_cycles t (cycles t + 1))) by (apply sim_cycles_l, sim_cycles_r; exact S0).
  destruct (run_stages p0) as [[next s1] o1] eqn:Hrs.
  destruct (sim_run_stages p0 _ next s1 o1 S1 Hrs) as (next' & t1 & o1' & Hrs' & Hc & Hres).
  change (ms_cfg (ms (pst p0))) with (ms_cfg (ms (pst p))) in *.
  change (mem_input p0) with (mem_input p) in *.
  destruct Hres as [(<- & S' & Eo & Htag & Hnr)|Hrej].
  2:{ assert (Eo : exists f, o1 = Some f) by (destruct Hrej as (z & e & _ & _ & ->); eexists; reflexivity).
      destruct Eo as [f ->]. injection H as <- <-. cbn [pst]. split; [exact Hc|]. right. exact Hrej. }
  rewrite Hrs'. cbn [lat stalled saved hazards with_pst].
  change (stalled p0) with (stalled p) in *. change (saved p0) with (saved p) in *.
  change (lat p0) with (lat p) in *. change (hazards p0) with (hazards p) in *.
  destruct o1' as [f1'|]; cbn [option_map] in Eo; subst o1.
  { injection H as <- <-. cbn [pst]. split; [exact Hc|]. left. exists t1, (Some f1').
    split; [reflexivity|]. split; [exact S'|]. split; [reflexivity|]. split; [exact Htag|]. intros E; discriminate. }
  (* no fault: the control part is the same computation on both sides *)
  set (ns := new_stall next (stalled p)) in *.
  assert (Hst : exists stl s2 t2,
     (match ns with Some i => (Some (i, 3), with_stalls s1 (stalls s1 + 1)) | None => (stalled p, s1) end) = (stl, s2) /\
     (match ns with Some i => (Some (i, 3), with_stalls t1 (stalls t1 + 1)) | None => (stalled p, t1) end) = (stl, t2) /\
     sim s2 t2 /\ ms s2 = ms s1).
  { destruct ns as [i|]; eexists; eexists; eexists; (split; [reflexivity|]); (split; [reflexivity|]).
    - split; [|reflexivity]. apply sim_with_stalls; [exact S' | rewrite (sm_stalls _ _ S'); reflexivity].
    - split; [exact S' | reflexivity]. }
  destruct Hst as (stl & s2 & t2 & E1 & E2 & S2 & Hms2). rewrite E1 in H. rewrite E2. clear E1 E2.
  match type of H with (let '(stl2, sv2) := ?X in _) = _ => destruct X as [stl2 sv2] end.
  destruct (first_flush next) as [[i a]|].
  - match type of H with (let '(stl3, sv3) := ?X in _) = _ => destruct X as [stl3 sv3] end.
    injection H as <- <-. cbn [pst]. split; [cbn [with_pc with_flushes ms]; rewrite Hms2; exact Hc|].
    left. eexists; exists None. split; [reflexivity|]. split.
    + apply sim_with_pc. apply sim_with_flushes; [exact S2 | rewrite (sm_flushes _ _ S2); reflexivity].
    + split; [reflexivity|]. split; [intros ff E; discriminate | exact Hnr].
  - injection H as <- <-. cbn [pst]. split; [rewrite Hms2; exact Hc|].
    left. eexists; exists None. split; [reflexivity|]. split; [exact S2|].
    split; [reflexivity|]. split; [intros ff E; discriminate | exact Hnr].
Qed.

(** * Runs *)
Lemma sim_pipe_done p t : sim (pst p) t -> pipe_done (with_pst p t) = pipe_done p.
Proof.
  intros S. unfold pipe_done, pipe_empty. cbn [with_pst pst lat].
  rewrite <- (sm_exit _ _ S), <- (sim_has_instr _ _ S). reflexivity.
Qed.

(* the MEM stage's slot is a load/store crossing a word boundary, rejected by the data cache *)
Definition pipe_rejects (p : pstate) (f : fault) : Prop :=
  exists z e, mem_input p = Some z /\ slot_rejects (ms_cfg (ms (pst p))) z = Some e /\
              f = mkfault (sl_addr z) (sl_instr z) e.

(* addresses retired (latch 4 after each step); as Proofs/PipeInv.v, repeated to avoid the import *)
Fixpoint ptrace (fuel : nat) (p : pstate) : list Z :=
  match fuel with
  | O => []
  | S k => if pipe_done p then []
           else match pipe_step p with
                | (_, Some _) => []
                | (p', None) => match lat_at (lat p') 4 with Some x => [sl_addr x] | None => [] end
                                ++ ptrace k p'
                end
  end.

Definition prun_goal (n : nat) (p : pstate) (t : st) : Prop :=
  match pipe_run n p with
  | (p', PDone) => exists t', pipe_run n (with_pst p t) = (with_pst p' t', PDone) /\ sim (pst p') t' /\
                              ptrace n (with_pst p t) = ptrace n p
  | (p', POutOfFuel) => exists t', pipe_run n (with_pst p t) = (with_pst p' t', POutOfFuel) /\
                                   sim (pst p') t' /\ ptrace n (with_pst p t) = ptrace n p
  | (p', PFaulted f) =>
      (exists t' ff, pipe_run n (with_pst p t) = (with_pst p' t', PFaulted ff) /\
                     f = fmap (ms_cfg (ms (pst p))) ff /\ sim (pst p') t' /\
                     ptrace n (with_pst p t) = ptrace n p) \/
      (exists k pk tk, (k < n)%nat /\ pipe_run k p = (pk, POutOfFuel) /\
         pipe_run k (with_pst p t) = (with_pst pk tk, POutOfFuel) /\ sim (pst pk) tk /\
         pipe_rejects pk f)
  end.

Lemma with_pst_id p : with_pst p (pst p) = p.
Proof. destruct p; reflexivity. Qed.

Lemma sim_pipe_run n : forall p t, sim (pst p) t -> prun_goal n p t.
Proof.
  induction n as [|n IH]; intros p t Hsim; unfold prun_goal; cbn [pipe_run ptrace];
    rewrite (sim_pipe_done p t Hsim).
  - destruct (pipe_done p); (exists t; split; [reflexivity|]; split; [exact Hsim | reflexivity]).
  - destruct (pipe_done p) eqn:Hd.
    { exists t. split; [reflexivity|]. split; [exact Hsim | reflexivity]. }
    destruct (pipe_step p) as [p1 of] eqn:Hs.
    destruct (sim_pipe_step p t p1 of Hsim Hs) as [Hcfg [(t1 & of' & Ht & S1 & Eo & _ & _)|Hrej]].
    2:{ destruct Hrej as (z & e & Hz & Hr & ->). right. exists 0%nat, p, t. split; [lia|].
        cbn [pipe_run]. rewrite (sim_pipe_done p t Hsim), Hd. split; [reflexivity|]. split; [reflexivity|].
        split; [exact Hsim|]. exists z, e. split; [exact Hz|]. split; [exact Hr | reflexivity]. }
    rewrite Ht. destruct of' as [ff|]; cbn [option_map] in Eo; subst of.
    + left. exists t1, ff. split; [reflexivity|]. split; [reflexivity|]. split; [exact S1 | reflexivity].
    + specialize (IH p1 t1 S1). unfold prun_goal in IH. cbn [with_pst lat].
      destruct (pipe_run n p1) as [p' [|f|]].
      * destruct IH as (t' & R & S' & Tr). exists t'. split; [exact R|]. split; [exact S'|]. rewrite Tr. reflexivity.
      * destruct IH as [(t' & ff & R & E & S' & Tr)|(k & pk & tk & Hk & R1 & R2 & Sk & Rej)].
        -- left. exists t', ff. split; [exact R|]. split; [rewrite <- Hcfg; exact E|]. split; [exact S'|].
           rewrite Tr. reflexivity.
        -- right. exists (S k), pk, tk. split; [lia|]. cbn [pipe_run].
           rewrite (sim_pipe_done p t Hsim), Hd, Hs, Ht. split; [exact R1|]. split; [exact R2|].
           split; [exact Sk | exact Rej].
      * destruct IH as (t' & R & S' & Tr). exists t'. split; [exact R|]. split; [exact S'|]. rewrite Tr. reflexivity.
Qed.

(** * The statements about [flatten] *)
(* equal latches and control registers, same architectural state, same stall/flush counters *)
Definition same_pipe (p q : pstate) : Prop :=
  lat p = lat q /\ stalled p = stalled q /\ saved p = saved q /\ hazards p = hazards q /\
  same_arch (pst p) (pst q) /\ stalls (pst p) = stalls (pst q) /\ flushes (pst p) = flushes (pst q).

Definition pflatten (p : pstate) : pstate := with_pst p (flatten (pst p)).

Lemma same_pipe_with_pst p t : sim (pst p) t -> same_pipe p (with_pst p t).
Proof.
  intros S. unfold same_pipe. cbn [with_pst lat stalled saved hazards pst].
  repeat (split; [reflexivity|]). split; [apply sim_same_arch; exact S|].
  split; [apply (sm_stalls _ _ S) | apply (sm_flushes _ _ S)].
Qed.

Lemma pipe_step_lift p : cache_ok (pst p) ->
  let '(p', of) := pipe_step p in
  let '(q', of') := pipe_step (pflatten p) in
  cache_ok (pst p') /\ ms_cfg (ms (pst p')) = ms_cfg (ms (pst p)) /\
  match of with
  | None => of' = None /\ same_pipe p' q'
  | Some f => (exists ff, of' = Some ff /\ f = fmap (ms_cfg (ms (pst p))) ff /\ same_pipe p' q') \/
              pipe_rejects p f
  end.
Proof.
  intros Hok. pose proof (sim_flatten _ Hok) as S0. unfold pflatten.
  destruct (pipe_step p) as [p' of] eqn:Hs.
  destruct (sim_pipe_step p _ p' of S0 Hs) as [Hcfg [(t' & of' & Ht & S1 & Eo & _ & _)|Hrej]].
  - rewrite Ht. split; [apply (sim_cache_ok _ _ S1)|]. split; [exact Hcfg|].
    destruct of' as [ff|]; cbn [option_map] in Eo; subst of.
    + left. exists ff. split; [reflexivity|]. split; [reflexivity|]. apply same_pipe_with_pst. exact S1.
    + split; [reflexivity|]. apply same_pipe_with_pst. exact S1.
  - destruct (pipe_step (with_pst p (flatten (pst p)))) as [q' of'].
    destruct Hrej as (z & e & Hz & Hr & ->).
    (* the state after a rejected step is still cache_ok: it is sim-related to SOME flat state *)
    assert (Hok' : cache_ok (pst p')).
    { unfold pipe_step in Hs.
      set (p0 := {| pst := with_cycles (pst p) (cycles (pst p) + 1); lat := lat p; stalled := stalled p;
                    saved := saved p; hazards := hazards p |}) in *.
      destruct (run_stages p0) as [[next s1] o1] eqn:Hrs.
      assert (S1 : sim (pst p0) (with_cycles (flatten (pst p)) (cycles (flatten (pst p)) + 1)))
        by (apply sim_cycles_l, sim_cycles_r; exact S0).
      destruct o1 as [f1|].
      - injection Hs as <- _. cbn [pst].
        clear Hz Hr. revert Hrs. unfold run_stages. cbn [pst p0].
        change (regs_for p0) with (regs_for p).
        destruct (match stalled p0 with Some _ => (lat_at (lat p0) 0, with_cycles (pst p) (cycles (pst p) + 1))
                  | None => stage_if (with_cycles (pst p) (cycles (pst p) + 1)) end) as [n0 sa] eqn:Eif.
        assert (Sa : exists ta, sim sa ta).
        { change (stalled p0) with (stalled p) in Eif. destruct (stalled p).
          - injection Eif as _ <-. eexists. exact S1.
          - destruct (sim_stage_if _ _ n0 sa S1 Eif) as (ta & _ & Sa & _). eexists. exact Sa. }
        destruct Sa as [ta Sa].
        destruct (stage_wb (regs_for p 4) 3 sa) as [[n4 sb] o4] eqn:Ewb.
        destruct (sim_stage_wb _ _ sa ta n4 sb o4 Sa Ewb) as (tb & _ & Sb & _).
        destruct o4; [intros E; injection E as _ <- _; apply (sim_cache_ok _ _ Sb)|].
        destruct (stage_ex (regs_for p 2) 1 sb) as [[n2 sc] o2] eqn:Eex.
        destruct (sim_stage_ex _ _ sb tb n2 sc o2 Sb Eex) as (tc & o2' & _ & Sc & _).
        destruct o2; [intros E; injection E as _ <- _; apply (sim_cache_ok _ _ Sc)|].
        destruct (stage_mem (regs_for p 3) 2 sc) as [[n3 sd] o3] eqn:Emem.
        destruct (sim_stage_mem _ _ sc tc n3 sd o3 Sc Emem) as (n3' & td & o3' & _ & _ & Hres).
        assert (Sd : exists tx, sim sd tx).
        { destruct (lat_at (regs_for p 3) 2) as [x|].
          - destruct (slot_rejects (ms_cfg (ms sc)) x); [exists tc; tauto | exists td; tauto].
          - exists td. tauto. }
        destruct Sd as [tx Sd]. destruct o3; intros E; injection E as _ <- _; apply (sim_cache_ok _ _ Sd).
      - exfalso. clear - Hs.
        destruct (match new_stall next (stalled p0) with Some i => (Some (i, 3), with_stalls s1 (stalls s1 + 1))
                  | None => (stalled p0, s1) end) as [stl s2].
        cbv zeta in Hs.
        match type of Hs with (let '(stl2, sv2) := ?X in _) = _ => destruct X as [stl2 sv2] end.
        destruct (first_flush next) as [[i a]|].
        + match type of Hs with (let '(stl3, sv3) := ?X in _) = _ => destruct X as [stl3 sv3] end. discriminate.
        + discriminate. }
    split; [exact Hok'|]. split; [exact Hcfg|]. right. exists z, e. split; [exact Hz|]. split; [exact Hr | reflexivity].
Qed.

Lemma pipe_run_lift n p : cache_ok (pst p) ->
  match pipe_run n p with
  | (p', PDone) => exists q', pipe_run n (pflatten p) = (q', PDone) /\ same_pipe p' q' /\
                              cache_ok (pst p') /\ ptrace n (pflatten p) = ptrace n p
  | (p', POutOfFuel) => exists q', pipe_run n (pflatten p) = (q', POutOfFuel) /\ same_pipe p' q' /\
                                   cache_ok (pst p') /\ ptrace n (pflatten p) = ptrace n p
  | (p', PFaulted f) =>
      (exists q' ff, pipe_run n (pflatten p) = (q', PFaulted ff) /\ f = fmap (ms_cfg (ms (pst p))) ff /\
                     same_pipe p' q' /\ ptrace n (pflatten p) = ptrace n p) \/
      (exists k pk qk, (k < n)%nat /\ pipe_run k p = (pk, POutOfFuel) /\
         pipe_run k (pflatten p) = (qk, POutOfFuel) /\ same_pipe pk qk /\ pipe_rejects pk f)
  end.
Proof.
  intros Hok. pose proof (sim_pipe_run n p _ (sim_flatten _ Hok)) as H. unfold prun_goal in H.
  unfold pflatten. destruct (pipe_run n p) as [p' [|f|]].
  - destruct H as (t' & R & S' & Tr). eexists. split; [exact R|]. split; [apply same_pipe_with_pst; exact S'|].
    split; [apply (sim_cache_ok _ _ S') | exact Tr].
  - destruct H as [(t' & ff & R & E & S' & Tr)|(k & pk & tk & Hk & R1 & R2 & Sk & Rej)].
    + left. eexists; exists ff. split; [exact R|]. split; [exact E|]. split; [apply same_pipe_with_pst; exact S' | exact Tr].
    + right. exists k, pk. eexists. split; [exact Hk|]. split; [exact R1|]. split; [exact R2|].
      split; [apply same_pipe_with_pst; exact Sk | exact Rej].
  - destruct H as (t' & R & S' & Tr). eexists. split; [exact R|]. split; [apply same_pipe_with_pst; exact S'|].
    split; [apply (sim_cache_ok _ _ S') | exact Tr].
Qed.

(* from the initial state of any configuration against the plain machine *)
Lemma pipe_run_on_off n hz p c wt pen ic : cfg_ok c -> Z.of_nat (length p) <= 1073741824 ->
  match ic with Some (g, ipen) => 0 <= ibits g /\ 0 <= bbits g | None => True end ->
  let s := init_st p (MCache (dcache_init c wt pen)) (mk_icache ic) in
  let t := init_st p (MFlat []) None in
  match pipe_run n (pipe_init s hz) with
  | (p', PDone) => exists q', pipe_run n (pipe_init t hz) = (q', PDone) /\ same_pipe p' q' /\
                              ptrace n (pipe_init t hz) = ptrace n (pipe_init s hz)
  | (p', POutOfFuel) => exists q', pipe_run n (pipe_init t hz) = (q', POutOfFuel) /\ same_pipe p' q' /\
                                   ptrace n (pipe_init t hz) = ptrace n (pipe_init s hz)
  | (p', PFaulted f) =>
      (exists q' ff, pipe_run n (pipe_init t hz) = (q', PFaulted ff) /\ f = fmap (Some (c, wt)) ff /\
                     same_pipe p' q' /\ ptrace n (pipe_init t hz) = ptrace n (pipe_init s hz)) \/
      (exists k pk qk, (k < n)%nat /\ pipe_run k (pipe_init s hz) = (pk, POutOfFuel) /\
         pipe_run k (pipe_init t hz) = (qk, POutOfFuel) /\ same_pipe pk qk /\ pipe_rejects pk f)
  end.
Proof.
  intros Hc Hl Hi. cbv zeta.
  set (s := init_st p (MCache (dcache_init c wt pen)) (mk_icache ic)).
  set (t := init_st p (MFlat []) None).
  pose proof (sim_pipe_run n (pipe_init s hz) t (sim_init p c wt pen ic Hc Hl Hi)) as H. unfold prun_goal in H.
  change (with_pst (pipe_init s hz) t) with (pipe_init t hz) in H.
  destruct (pipe_run n (pipe_init s hz)) as [p' [|f|]].
  - destruct H as (t' & R & S' & Tr). eexists. split; [exact R|]. split; [apply same_pipe_with_pst; exact S' | exact Tr].
  - destruct H as [(t' & ff & R & E & S' & Tr)|(k & pk & tk & Hk & R1 & R2 & Sk & Rej)].
    + left. eexists; exists ff. split; [exact R|]. split; [exact E|]. split; [apply same_pipe_with_pst; exact S' | exact Tr].
    + right. exists k, pk. eexists. split; [exact Hk|]. split; [exact R1|]. split; [exact R2|].
      split; [apply same_pipe_with_pst; exact Sk | exact Rej].
  - destruct H as (t' & R & S' & Tr). eexists. split; [exact R|]. split; [apply same_pipe_with_pst; exact S' | exact Tr].
Qed.
