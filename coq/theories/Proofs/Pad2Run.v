(* Pad2Run.v — property C08, the padding clause, part 2: from the step simulation (Pad2Sim.v) to
   runs, the "iff" on termination, and the corollary for the flag-off PIPELINE:
   the flag-off pipeline run of [pad2 P] yields the registers, memory, output and exit code of the
   single-cycle run of P ([dep_free_pad2] + [flagoff_refines_single]). *)
From Coq Require Import Lia ZifyBool.
From ArchSim Require Import Model.Base Model.Mem Model.Cache Model.Fmt Model.RV Model.Single
  Model.RVSplit Model.Pipe Proofs.WordLemmas Proofs.C01Step Proofs.SplitExec Proofs.PipeLaws Proofs.PipeShape
  Proofs.PipeInv Proofs.PipeInvStraight Proofs.FlagOffDep Proofs.FlagOffSim Proofs.FlagOffRefine Proofs.Pad2Sim.
Open Scope Z_scope.

Local Arguments Z.mul : simpl never.
Local Arguments Z.add : simpl never.
Local Arguments Z.sub : simpl never.

Definition Rdone (t t' : st) : Prop :=
  aeq t t' /\ (pc t' = 3 * pc t \/ (exitc t <> None /\ pc t' = 3 * pc t - 8)).

Lemma Rp_done s s' : Rp s s' -> single_done s' = single_done s.
Proof.
  intros [A Hpc HP _ _ _]. destruct A as (_ & _ & _ & He & _).
  unfold single_done, has_instr. rewrite He, HP, Hpc, instr_at_pad2.
  destruct (instr_at (prog (im s)) (pc s)); reflexivity.
Qed.

Lemma pcost_done k t : single_done t = true -> pcost k t = O.
Proof. intros H. destruct k; cbn [pcost]; [reflexivity|]. rewrite H. reflexivity. Qed.

Theorem pad_run n : forall s s', Rp s s' ->
  match single_run n s with
  | (t, Done) => exists t', single_run (pcost n s) s' = (t', Done) /\ Rdone t t'
  | (t, Faulted f) => exists t', single_run (pcost n s) s' = (t', Faulted (scale_fault f)) /\
                        regs t' = regs t /\ ms t' = ms t /\ out t' = out t
  | (t, OutOfFuel) => exists t', single_run (pcost n s) s' = (t', OutOfFuel) /\ Rp t t'
  end.
Proof.
  induction n as [|k IH]; intros s s' R; pose proof (Rp_done s s' R) as Hdd.
  - cbn [single_run pcost]. rewrite Hdd. destruct (single_done s).
    + exists s'. split; [reflexivity|]. split; [apply R|left; apply R].
    + exists s'. split; [reflexivity|exact R].
  - cbn [single_run pcost]. destruct (single_done s) eqn:Hd.
    + exists s'. cbn [single_run]. rewrite Hdd. split; [reflexivity|]. split; [apply R|left; apply R].
    + pose proof (pad_step s s' R Hd) as Hst.
      destruct (single_pipeline_step s) as [t [f|]].
      * destruct Hst as (t' & Hs' & Hd' & Hr). exists t'. cbn [single_run]. rewrite Hd', Hs'. split; [reflexivity|exact Hr].
      * destruct Hst as (t' & Hrun & A & HRp & Hex). rewrite Hrun.
        destruct (exitc t) as [c|] eqn:Et.
        -- assert (Hdt : single_done t = true) by (unfold single_done; rewrite Et; reflexivity).
           destruct (single_run_done k t Hdt) as [-> _]. rewrite (pcost_done k t Hdt).
           exists t'. cbn [single_run]. unfold single_done at 1. pose proof A as (A1 & A2 & A3 & A4 & A5).
           rewrite A4, Et. split; [reflexivity|]. split; [exact A|].
           right. split; [rewrite Et; discriminate|]. apply Hex. discriminate.
        -- apply IH. apply HRp. reflexivity.
Qed.

(** * Termination: iff *)
Lemma run_stable_done m : forall j s t, single_run m s = (t, Done) -> single_run (m + j) s = (t, Done).
Proof.
  induction m as [|m IH]; intros j s t; cbn [single_run Nat.add].
  - destruct (single_done s) eqn:Hd; intros H; [|discriminate H]. injection H as <-. apply (single_run_done j s Hd).
  - destruct (single_done s); [intros H; exact H|].
    destruct (single_pipeline_step s) as [u [f|]]; [intros H; discriminate H|]. apply IH.
Qed.
Lemma run_stable_fault m : forall j s t f, single_run m s = (t, Faulted f) -> single_run (m + j) s = (t, Faulted f).
Proof.
  induction m as [|m IH]; intros j s t f; cbn [single_run Nat.add].
  - destruct (single_done s); intros H; discriminate H.
  - destruct (single_done s); [intros H; discriminate H|].
    destruct (single_pipeline_step s) as [u [g|]]; [intros H; exact H|]. apply IH.
Qed.

Lemma pcost_ge n : forall s, snd (single_run n s) = OutOfFuel -> (n <= pcost n s)%nat.
Proof.
  induction n as [|k IH]; intros s; cbn [single_run pcost]; [lia|].
  destruct (single_done s) eqn:Hd; [intros H; discriminate H|].
  unfold step_cost. destruct (not_done_parts s Hd) as (_ & i & Hi). rewrite Hi.
  destruct (single_pipeline_step s) as [t [f|]]; [intros H; discriminate H|]. intros H. specialize (IH t H).
  destruct (exitc t); [lia|]. destruct (redirects i s); lia.
Qed.

Theorem pad_iff s s' : Rp s s' ->
  ((exists n t, single_run n s = (t, Done)) <-> (exists m t', single_run m s' = (t', Done))) /\
  ((exists n t f, single_run n s = (t, Faulted f)) <-> (exists m t' f', single_run m s' = (t', Faulted f'))).
Proof.
  intros R.
  assert (Hcase : forall m, match single_run m s with
            | (t, Done) => exists t', single_run (pcost m s) s' = (t', Done)
            | (t, Faulted f) => exists t', single_run (pcost m s) s' = (t', Faulted (scale_fault f))
            | (t, OutOfFuel) => (exists t', single_run (pcost m s) s' = (t', OutOfFuel)) /\ (m <= pcost m s)%nat
            end).
  { intros m. pose proof (pad_run m s s' R) as H. pose proof (pcost_ge m s) as Hg.
    destruct (single_run m s) as [t [|f|]]; cbn [snd] in Hg.
    - destruct H as (t' & H & _). eauto.
    - destruct H as (t' & H & _). eauto.
    - destruct H as (t' & H & _). split; [eauto|apply Hg; reflexivity]. }
  split; split.
  - intros (n & t & H). specialize (Hcase n). rewrite H in Hcase. destruct Hcase as [t' Ht']. eauto.
  - intros (m & t' & H). specialize (Hcase m). destruct (single_run m s) as [t [|f|]] eqn:E; [exists m, t; exact E| |].
    + destruct Hcase as [u Hu]. pose proof (run_stable_done m (pcost m s) _ _ H) as H1.
      pose proof (run_stable_fault _ m _ _ _ Hu) as H2. rewrite Nat.add_comm in H2. rewrite H1 in H2. discriminate H2.
    + destruct Hcase as [[u Hu] Hge]. pose proof (run_stable_done m (pcost m s - m) _ _ H) as H1.
      replace (m + (pcost m s - m))%nat with (pcost m s) in H1 by lia. rewrite H1 in Hu. discriminate Hu.
  - intros (n & t & f & H). specialize (Hcase n). rewrite H in Hcase. destruct Hcase as [t' Ht']. eauto.
  - intros (m & t' & f' & H). specialize (Hcase m). destruct (single_run m s) as [t [|f|]] eqn:E; [|exists m, t, f; exact E|].
    + destruct Hcase as [u Hu]. pose proof (run_stable_fault m (pcost m s) _ _ _ H) as H1.
      pose proof (run_stable_done _ m _ _ Hu) as H2. rewrite Nat.add_comm in H2. rewrite H1 in H2. discriminate H2.
    + destruct Hcase as [[u Hu] Hge]. pose proof (run_stable_fault m (pcost m s - m) _ _ _ H) as H1.
      replace (m + (pcost m s - m))%nat with (pcost m s) in H1 by lia. rewrite H1 in Hu. discriminate Hu.
Qed.

(** * The padded initial state *)
Definition pad_st (s : st) : st :=
  {| pc := 3 * pc s; regs := regs s; ms := ms s; im := {| prog := pad2 (prog (im s)); icc := None |};
     out := out s; exitc := exitc s; icount := icount s; bcount := bcount s; pcount := pcount s;
     cycles := cycles s; stalls := stalls s; flushes := flushes s |}.

Lemma pad2_wf_instrs P : Forall wf_instr P -> forallb padable_instr P = true -> Forall wf_instr (pad2 P).
Proof.
  unfold pad2. induction 1 as [|i t Hi Ht IH]; cbn [forallb flat_map app]; [constructor|].
  intros H. apply Bool.andb_true_iff in H. destruct H as [H1 H2].
  constructor; [apply padable_wf_scale; assumption|]. constructor; [apply wf_nop|]. constructor; [apply wf_nop|apply IH; exact H2].
Qed.

Lemma padable_parts P : padable P = true ->
  forallb padable_instr P = true /\ 3 * Z.of_nat (length P) <= 4096 /\ Forall (fun i => supported i = true) P.
Proof.
  unfold padable. intros H. apply Bool.andb_true_iff in H. destruct H as [H1 H2].
  split; [exact H1|]. split; [lia|]. apply Forall_forall. intros i Hi. rewrite forallb_forall in H1.
  apply padable_supported, H1, Hi.
Qed.

Lemma Rp_init s : wf s -> padable (prog (im s)) = true -> -699050 < pc s < 1431655765 -> Rp s (pad_st s).
Proof.
  intros W Hp Hpc. destruct (padable_parts _ Hp) as (H1 & H2 & _).
  constructor; try assumption; try reflexivity; [repeat split|].
  destruct W as [Wr Wm Wf Wn Wpc Wp Wl]. constructor; cbn [pad_st regs ms im pc prog icc]; try assumption.
  - reflexivity.
  - lia.
  - apply pad2_wf_instrs; assumption.
  - rewrite pad2_length. lia.
Qed.

Lemma pad2_supported P : Forall (fun i => supported i = true) P -> Forall (fun i => supported i = true) (pad2 P).
Proof. apply pad2_Forall; [reflexivity|]. intros i. destruct i; intros H; try discriminate H; reflexivity. Qed.

(** * The corollary: the flag-off pipeline on the padded program computes what P computes *)
Theorem pad2_flagoff_lem n s : wf s -> padable (prog (im s)) = true -> -699050 < pc s < 1431655765 ->
  match single_run n s with
  | (t, Done) => exists c p, pipe_run c (pipe_init (pad_st s) false) = (p, PDone) /\
      regs (pst p) = regs t /\ ms (pst p) = ms t /\ out (pst p) = out t /\ exitc (pst p) = exitc t /\
      bcount (pst p) = bcount t /\ pcount (pst p) = pcount t
  | (t, Faulted f) => exists c p, pipe_run c (pipe_init (pad_st s) false) = (p, PFaulted (scale_fault f)) /\
      regs (pst p) = regs t /\ ms (pst p) = ms t /\ out (pst p) = out t
  | (_, OutOfFuel) => True
  end.
Proof.
  intros W Hp Hpc. pose proof (Rp_init s W Hp Hpc) as R. destruct (padable_parts _ Hp) as (_ & _ & Hsup).
  pose proof (pad_run n s (pad_st s) R) as Hrun.
  pose proof (flagoff_refines_single (pad2 (prog (im s))) (pad_st s) (pcost n s)
                (pad2_supported _ Hsup) (rp_wf' _ _ R) eq_refl (dep_free_pad2 _)) as Hpipe.
  destruct (single_run n s) as [t [|f|]]; [| |exact Logic.I].
  - destruct Hrun as (t' & Hr & (A1 & A2 & A3 & A4 & A5 & A6) & _). rewrite Hr in Hpipe.
    destruct Hpipe as (c & p & _ & Hp1 & (B1 & B2 & B3 & B4 & B5 & B6 & _) & _).
    exists c, p. split; [exact Hp1|]. repeat split; congruence.
  - destruct Hrun as (t' & Hr & A1 & A2 & A3). rewrite Hr in Hpipe.
    destruct Hpipe as (c & p & _ & Hp1 & B1 & B2 & B3).
    exists c, p. split; [exact Hp1|]. repeat split; congruence.
Qed.

(* with [Rp] spelled out for the statement file *)
Lemma pad_run_init n s : wf s -> padable (prog (im s)) = true -> -699050 < pc s < 1431655765 ->
  match single_run n s with
  | (t, Done) => exists t', single_run (pcost n s) (pad_st s) = (t', Done) /\ Rdone t t'
  | (t, Faulted f) => exists t', single_run (pcost n s) (pad_st s) = (t', Faulted (scale_fault f)) /\
                        regs t' = regs t /\ ms t' = ms t /\ out t' = out t
  | (t, OutOfFuel) => exists t', single_run (pcost n s) (pad_st s) = (t', OutOfFuel) /\ Rp t t'
  end.
Proof. intros W Hp Hpc. apply pad_run. apply Rp_init; assumption. Qed.

Lemma pad_iff_init s : wf s -> padable (prog (im s)) = true -> -699050 < pc s < 1431655765 ->
  ((exists n t, single_run n s = (t, Done)) <-> (exists m t', single_run m (pad_st s) = (t', Done))) /\
  ((exists n t f, single_run n s = (t, Faulted f)) <-> (exists m t' f', single_run m (pad_st s) = (t', Faulted f'))).
Proof. intros W Hp Hpc. apply pad_iff. apply Rp_init; assumption. Qed.

Lemma Rp_spelled s s' : Rp s s' ->
  regs s' = regs s /\ ms s' = ms s /\ out s' = out s /\ exitc s' = exitc s /\ bcount s' = bcount s /\
  pcount s' = pcount s /\ pc s' = 3 * pc s /\ prog (im s') = pad2 (prog (im s)) /\ wf s /\ wf s'.
Proof.
  intros [(a & b & c & d & e & f) g h i j _].
  split; [exact a|]. split; [exact b|]. split; [exact c|]. split; [exact d|]. split; [exact e|]. split; [exact f|].
  split; [exact g|]. split; [exact h|]. split; [exact i|exact j].
Qed.
