(* FlagOffDwb.v — property C08, phase B, part 4: the delayed-write-back reference machine
   (the Gallina counterpart of [delayed_wb] in harness/sched.py), definitions and basic facts.

   [delayed_wb] interprets the program in order; instruction k reads its sources at its decode
   cycle D_k and sees the register writes with write-back cycle W_j <= D_k, where the schedule is
   D_k = D_(k-1) + 1, + 3 more after a redirecting instruction (taken branch, jal, jalr: three
   flushed slots), an ecall that finds an instruction one or two slots ahead drains (two extra
   slots in front of it) and reads a7 / a0 when it fires.  Every writer has W_j = D_j + 3 (an
   ecall writes x0 only), so "W_j <= D_k" is "j is at least three SLOTS ahead of k", slots being
   instructions and bubbles.  The machine below is that interpreter with the cycle numbers
   eliminated: it keeps the in-order state [lt] (all writes applied), the register file one slot
   ago [lr1] and two slots ago [lr2]; an instruction executes from the operand view [lr2]; a
   bubble ([bub]) shifts the history without executing anything.

   vstate v t   t with its register file replaced by the view v
   vstep v t    the single-cycle step of t with operands read from v: everything (memory, output,
                pc, counters, fault) as [single_pipeline_step (vstate v t)], the destination
                register (if any) written into the registers of t  — the Python code sets the
                registers to the view, steps, and records [after[dst]]
   lstep / bub  one instruction / one bubble on (lt, lr1, lr2)
   dwb_step     one instruction with the bubbles the schedule puts around it
   dwb_run      the in-order run; result: final state (all writes applied) and run end *)
From Coq Require Import Lia ZifyBool.
From ArchSim Require Import Model.Base Model.Mem Model.Cache Model.Fmt Model.RV Model.Single
  Model.RVSplit Model.Pipe Proofs.PipeInv.
Open Scope Z_scope.

Definition vstate (v : zmap) (t : st) : st := with_regs t v.

Record lag := mkLag { lt : st; lr1 : zmap; lr2 : zmap }.

Definition uview (L : lag) : st := vstate (lr2 L) (lt L).

Definition cur_wreg (t : st) : option Z :=
  match instr_at (prog (im t)) (pc t) with Some i => write_reg i | None => None end.

(* the registers of t with the destination of the current instruction taken from u' *)
Definition commit_regs (t u' : st) : zmap :=
  match cur_wreg t with
  | Some rd => if (0 <? rd) && (rd <? 32) then mset (regs t) rd (mget (regs u') rd) else regs t
  | None => regs t
  end.

Definition vstep (v : zmap) (t : st) : st * option fault :=
  let r := single_pipeline_step (vstate v t) in
  (with_regs (fst r) (match snd r with None => commit_regs t (fst r) | Some _ => regs t end), snd r).

Definition lstep (L : lag) : lag * option fault :=
  let r := vstep (lr2 L) (lt L) in
  ({| lt := fst r; lr1 := regs (lt L); lr2 := lr1 L |}, snd r).
Definition bub (L : lag) : lag := {| lt := lt L; lr1 := regs (lt L); lr2 := lr1 L |}.
Definition lnxt (L : lag) : lag := fst (lstep L).
Definition advL (l : latch) (L : lag) : lag := if nonempty l then lnxt L else bub L.

(** * The in-order run *)
(* [do1] / [do2]: the slot one / two positions ahead of the next instruction holds an instruction *)
Record dwb := mkDwb { dl : lag; do1 : bool; do2 : bool }.

Definition dbub (d : dwb) : dwb := {| dl := bub (dl d); do1 := false; do2 := do1 d |}.

Definition dwb_step (d : dwb) : dwb * option fault :=
  let t := lt (dl d) in
  match instr_at (prog (im t)) (pc t) with
  | None => (d, None)
  | Some i =>
      (* an ecall waits until the two slots ahead of it are empty *)
      let d1 := if is_ecall i && (do1 d || do2 d) then dbub (dbub d) else d in
      let red := redirects i (uview (dl d1)) in
      let r := lstep (dl d1) in
      let d2 := {| dl := fst r; do1 := true; do2 := do1 d1 |} in
      (match snd r with
       | Some _ => d2
       | None => if red then dbub (dbub (dbub d2)) else d2     (* three flushed slots *)
       end, snd r)
  end.

Definition dwb_init (s : st) : dwb :=
  {| dl := {| lt := s; lr1 := regs s; lr2 := regs s |}; do1 := false; do2 := false |}.

Fixpoint dwb_run_from (fuel : nat) (d : dwb) : st * run_end :=
  match fuel with
  | O => (lt (dl d), if single_done (lt (dl d)) then Done else OutOfFuel)
  | S k =>
      if single_done (lt (dl d)) then (lt (dl d), Done)
      else match dwb_step d with
           | (d', Some f) => (lt (dl d'), Faulted f)
           | (d', None) => dwb_run_from k d'
           end
  end.
Definition dwb_run (fuel : nat) (s : st) : st * run_end := dwb_run_from fuel (dwb_init s).

(* the pcs at which the reference machine executed an instruction *)
Fixpoint dwb_trace_from (fuel : nat) (d : dwb) : list Z :=
  match fuel with
  | O => []
  | S k =>
      if single_done (lt (dl d)) then []
      else match dwb_step d with
           | (_, Some _) => []
           | (d', None) => pc (lt (dl d)) :: dwb_trace_from k d'
           end
  end.
Definition dwb_trace (fuel : nat) (s : st) : list Z := dwb_trace_from fuel (dwb_init s).
