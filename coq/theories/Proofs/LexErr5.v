(* LexErr5.v — the causes of a syntax error reported after tokenisation (on token lines of the tokenizer). *)
From Coq Require Import String.
From Coq Require Import ZArith List Bool Lia ZifyBool.
From ArchSim Require Import Model.Base Model.Mem Model.Cache Model.Fmt Model.RV Model.Toy Model.Asm Model.Lex
  Proofs.C04Proofs Proofs.C14Proofs Proofs.C15Proofs Proofs.LexErr1 Proofs.LexErr2 Proofs.LexErr3 Proofs.LexErr4.
Import ListNotations.
Open Scope Z_scope.

(* pseudo-instructions are always replaced by generated instructions *)
Lemma expand_one_pseudo vars ln i bs : expand_one vars ln (BIns i) = POk bs ->
  k_mn i = 54 \/ k_mn i = 56 \/ (k_mn i = 55 /\ k_var i <> None) -> Forall safe_gen bs.
Proof.
  intros H C. pose proof (expand_one_gen vars ln (BIns i) bs H) as G. unfold expand_one in H.
  assert (K : forall b', In b' bs -> b' <> BIns i).
  { destruct C as [E|[E|[E Hv]]]; rewrite E in H.
    - change (54 =? MN_LI) with true in H. cbv iota in H.
      destruct (k_rd i) as [rd|]; [|discriminate]. destruct (k_imm i) as [s|]; [|discriminate].
      destruct (py_int0 s) as [imm|]; [|discriminate]. destruct (hi_lo imm) as [hi lo].
      destruct ((imm >? 2047) || (imm <? -2048)); inversion H; subst; intros b' Hb X;
        repeat (destruct Hb as [<-|Hb]; [inversion X as [X']; apply (f_equal k_mn) in X'; rewrite E in X'; discriminate X'|]);
        destruct Hb.
    - change (56 =? MN_LI) with false in H. change (is_load_mn 56 || (56 =? MN_LA)) with false in H.
      change (is_store_mn 56) with false in H. change (56 =? MN_MV) with true in H. cbv iota in H.
      destruct (k_rd i) as [rd|]; [|discriminate]. destruct (k_rs i) as [rs|]; [|discriminate].
      inversion H; subst. intros b' Hb X.
      repeat (destruct Hb as [<-|Hb]; [inversion X as [X']; apply (f_equal k_mn) in X'; rewrite E in X'; discriminate X'|]);
        destruct Hb.
    - change (55 =? MN_LI) with false in H. change (is_load_mn 55 || (55 =? MN_LA)) with true in H. cbv iota in H.
      destruct (k_var i) as [v|]; [|congruence].
      destruct (var_address vars v ln) as [a|]; [|discriminate]. destruct (k_reg1 i) as [r|]; [|discriminate].
      destruct (hi_lo a) as [hi lo]. change (is_load_mn 55) with false in H. cbv iota in H.
      inversion H; subst. intros b' Hb X.
      repeat (destruct Hb as [<-|Hb]; [inversion X as [X']; apply (f_equal k_mn) in X'; rewrite E in X'; discriminate X'|]);
        destruct Hb. }
  rewrite Forall_forall in *. intros b' Hb. destruct (G b' Hb) as [X|X]; [exfalso; exact (K b' Hb X)|exact X].
Qed.

(** * the phases *)
Lemma instantiate_syntax text : forall lb a ln, instantiate text lb a = PErr (PSyntax ln) ->
  exists b, In (ln, EBody b) text /\
    (b = BOther \/ exists i a', b = BIns i /\ instantiate_one i lb a' ln = PErr (PSyntax ln)).
Proof.
  induction text as [|[l0 en] t IH]; intros lb a ln H; cbn [instantiate] in H; [discriminate|].
  assert (R : forall a', instantiate t lb a' = PErr (PSyntax ln) ->
            exists b, In (ln, EBody b) ((l0, en) :: t) /\
              (b = BOther \/ exists i a'', b = BIns i /\ instantiate_one i lb a'' ln = PErr (PSyntax ln))).
  { intros a' H'. destruct (IH _ _ _ H') as (b & Hin & Hb). exists b. split; [right; exact Hin|exact Hb]. }
  destruct en as [n|b]; [eapply R, H|]. destruct b as [k|i|].
  - destruct (k =? 0).
    + apply pbind_err in H as [H|(x & _ & H)]; [eapply R, H|discriminate].
    + destruct (k =? 1); [|eapply R, H]. apply pbind_err in H as [H|(x & _ & H)]; [eapply R, H|discriminate].
  - apply pbind_err in H as [H|(x & _ & H)].
    + destruct (inst_one_syntax _ _ _ _ _ H) as [<- _]. exists (BIns i). split; [left; reflexivity|].
      right. exists i, a. split; [reflexivity|exact H].
    + apply pbind_err in H as [H|(y & _ & H)]; [eapply R, H|discriminate].
  - inversion H; subst. exists BOther. split; [left; reflexivity|left; reflexivity].
Qed.

Lemma expand_all_in vars text : forall text2, expand_all vars text = POk text2 ->
  forall ln b, In (ln, EBody b) text2 ->
    exists b0 bs, In (ln, EBody b0) text /\ expand_one vars ln b0 = POk bs /\ In b bs.
Proof.
  induction text as [|[l0 en] t IH]; intros text2 H ln b Hin; cbn [expand_all] in H.
  - inversion H; subst. destruct Hin.
  - destruct en as [n|b1].
    + destruct (expand_all vars t) as [r|] eqn:Er; [|discriminate]. inversion H; subst.
      destruct Hin as [Hin|Hin]; [discriminate|].
      destruct (IH _ eq_refl _ _ Hin) as (b0 & bs & H1 & H2 & H3). exists b0, bs. split; [right; exact H1|]. split; assumption.
    + destruct (expand_one vars l0 b1) as [bs1|] eqn:E1; [|discriminate].
      destruct (expand_all vars t) as [r|] eqn:Er; [|discriminate]. inversion H; subst.
      apply in_app_or in Hin as [Hin|Hin].
      * apply in_map_iff in Hin. destruct Hin as (b' & Hb & Hb'). inversion Hb; subst.
        exists b1, bs1. split; [left; reflexivity|]. split; assumption.
      * destruct (IH _ eq_refl _ _ Hin) as (b0 & bs & H1 & H2 & H3). exists b0, bs. split; [right; exact H1|]. split; assumption.
Qed.

Lemma expand_all_syntax vars text : forall ln, expand_all vars text = PErr (PSyntax ln) ->
  exists b0, In (ln, EBody b0) text /\ expand_one vars ln b0 = PErr (PSyntax ln).
Proof.
  induction text as [|[l0 en] t IH]; intros ln H; cbn [expand_all] in H; [discriminate|].
  assert (R : expand_all vars t = PErr (PSyntax ln) ->
            exists b0, In (ln, EBody b0) ((l0, en) :: t) /\ expand_one vars ln b0 = PErr (PSyntax ln)).
  { intros H'. destruct (IH _ H') as (b0 & Hin & Hb). exists b0. split; [right; exact Hin|exact Hb]. }
  destruct en as [n|b1].
  - destruct (expand_all vars t) as [r|e]; [discriminate|]. inversion H; subst. apply R. reflexivity.
  - destruct (expand_one vars l0 b1) as [bs1|e1] eqn:E1.
    + destruct (expand_all vars t) as [r|e]; [discriminate|]. inversion H; subst. apply R. reflexivity.
    + inversion H; subst. destruct (expand_one_syntax _ _ _ _ E1) as [<- _].
      exists b1. split; [left; reflexivity|exact E1].
Qed.

Definition is_instr_or_label (rl : rline) : Prop :=
  match rl with RInstr _ _ | RLabelDecl _ => True | _ => False end.
Lemma split_inline_in text0 : forall ln b, In (ln, EBody b) (fst (split_inline text0)) ->
  exists rl, In (ln, rl) text0 /\ ((exists il, rl = RInstr il b) \/ (b = BOther /\ ~ is_instr_or_label rl)).
Proof.
  induction text0 as [|[l0 rl0] t IH]; intros ln b Hin; cbn [split_inline] in Hin; [destruct Hin|].
  destruct (split_inline t) as [es labs] eqn:Es. cbn [fst] in IH.
  assert (R : In (ln, EBody b) es -> exists rl, In (ln, rl) ((l0, rl0) :: t) /\
                ((exists il, rl = RInstr il b) \/ (b = BOther /\ ~ is_instr_or_label rl))).
  { intros H'. destruct (IH _ _ H') as (rl & H1 & H2). exists rl. split; [right; exact H1|exact H2]. }
  destruct rl0 as [d|n ty v|n s|n v|n|[il|] b0]; cbn [fst] in Hin; destruct Hin as [Hin|Hin]; try (apply R, Hin);
    try discriminate; inversion Hin; subst.
  - exists (RDirective d). split; [left; reflexivity|]. right. split; [reflexivity|intros []].
  - exists (RVarDecl n ty v). split; [left; reflexivity|]. right. split; [reflexivity|intros []].
  - exists (RStrDecl n s). split; [left; reflexivity|]. right. split; [reflexivity|intros []].
  - exists (RZeroDecl n v). split; [left; reflexivity|]. right. split; [reflexivity|intros []].
  - exists (RInstr (Some il) b). split; [left; reflexivity|]. left. exists (Some il). reflexivity.
  - exists (RInstr None b). split; [left; reflexivity|]. left. exists None. reflexivity.
Qed.

(** * data segment *)
Definition rline_literals (rl : rline) : list str :=           (* read with int(text, 0) *)
  match rl with RVarDecl _ _ vals => vals | RInstr _ (BIns i) => itok_literals i | _ => [] end.
Definition rline_counts (rl : rline) : list str :=             (* read with int(text): .zero count, array index *)
  match rl with RZeroDecl _ v => [v] | RInstr _ (BIns i) => itok_index i | _ => [] end.
Definition literal_rejected (rl : rline) : Prop :=
  (exists s, In s (rline_literals rl) /\ py_int0 s = None) \/ (exists s, In s (rline_counts rl) /\ py_int10 s = None).

Lemma write_data_syntax data : forall m a vars ln, write_data data m a vars = PErr (PSyntax ln) ->
  exists rl, In (ln, rl) data /\ literal_rejected rl.
Proof.
  induction data as [|[l0 l] t IH]; intros m a vars ln H; cbn [write_data] in H; [discriminate|].
  assert (R : forall m' a' v', write_data t m' a' v' = PErr (PSyntax ln) ->
            exists rl, In (ln, rl) ((l0, l) :: t) /\ literal_rejected rl).
  { intros m' a' v' H'. destruct (IH _ _ _ _ H') as (rl & Hin & X). exists rl. split; [right; exact Hin|exact X]. }
  cbv zeta in H. destruct l as [d|name ty vals|name s|name v|name|il b]; try discriminate H.
  - destruct (var_lookup vars name); [discriminate H|].
    destruct (if ty =? 0 then (8, 1) else if ty =? 1 then (16, 2) else (32, 4)) as [nbits stride].
    destruct (write_vals m nbits stride (align4 a) vals l0) as [[m' a']|e'] eqn:Ew.
    + destruct (a' >? data_limit); [discriminate H|eapply R, H].
    + inversion H; subst. destruct (write_vals_err _ _ _ _ _ _ _ Ew) as [[Hc (v & Hv & Hn)]|[x Hx]]; [|discriminate Hx].
      inversion Hc; subst. exists (RVarDecl name ty vals). split; [left; reflexivity|]. left. exists v. split; assumption.
  - destruct (var_lookup vars name); [discriminate H|].
    destruct (write_chars m (align4 a) (strip_quotes s)) as [[m' a']|e'] eqn:Ew.
    + destruct (dwrite m' 8 a' 0) as [m''|e''] eqn:Ed.
      * destruct (a' + 1 >? data_limit); [discriminate H|eapply R, H].
      * inversion H; subst. destruct (dwrite_err _ _ _ _ _ Ed) as [x Hx]. discriminate Hx.
    + inversion H; subst. destruct (write_chars_err _ _ _ _ Ew) as [x Hx]. discriminate Hx.
  - destruct (var_lookup vars name); [discriminate H|].
    destruct (py_int10 v) as [n|] eqn:Ep.
    + destruct (align4 a + 4 * n >? data_limit); [discriminate H|eapply R, H].
    + inversion H; subst. exists (RZeroDecl name v). split; [left; reflexivity|]. right. exists v. split; [left; reflexivity|exact Ep].
Qed.

(** * the assembler *)
Definition misplaced (toks : list (Z * rline)) (ln : Z) (rl : rline) : Prop :=
  ~ is_instr_or_label rl /\ exists data text, segment rdir_of toks = POk (data, text) /\ In (ln, rl) text.

Lemma assemble_syntax_cause toks m ln :
  rv_tokens_wf toks -> toks_mn toks -> assemble toks m = PErr (PSyntax ln) ->
  exists rl, In (ln, rl) toks /\ (literal_rejected rl \/ misplaced toks ln rl).
Proof.
  intros W M. unfold assemble. intros H.
  destruct (segment rdir_of toks) as [[data text0]|e0] eqn:Es; cbn [pbind] in H.
  2:{ injection H as ->. destruct (seg_dir _ _ Es) as (l & x & d & Hc & _). discriminate Hc. }
  destruct (seg_ok_incl _ _ _ _ _ Es) as [Hd Ht].
  pose proof (split_inline_in text0) as SI.
  destruct (split_inline text0) as [text1 inlabs]. cbn [fst] in SI.
  destruct (write_data data m 16384 []) as [[m' vars]|e1] eqn:Ew; cbn [pbind] in H.
  2:{ injection H as ->. destruct (write_data_syntax _ _ _ _ _ Ew) as (rl & Hin & X). exists rl. split; [apply Hd, Hin|left; exact X]. }
  (* an entry of the original text at line ln *)
  assert (Orig : forall b0, In (ln, EBody b0) text1 ->
            (exists il, In (ln, RInstr il b0) toks) \/
            (b0 = BOther /\ exists rl, In (ln, rl) toks /\ misplaced toks ln rl)).
  { intros b0 Hin. destruct (SI _ _ Hin) as (rl & Hr & [[il ->]|[-> Hm]]).
    - left. exists il. apply Ht, Hr.
    - right. split; [reflexivity|]. exists rl. split; [apply Ht, Hr|]. split; [exact Hm|]. exists data, text0. split; [exact Es|exact Hr]. }
  destruct (expand_all vars text1) as [text2|e2] eqn:Ex; cbn [pbind] in H.
  2:{ injection H as ->. destruct (expand_all_syntax _ _ _ Ex) as (b0 & Hin & He).
      destruct (expand_one_syntax _ _ _ _ He) as [_ (i & -> & s & Hs)].
      destruct (Orig _ Hin) as [[il Hil]|[Hc _]]; [|discriminate Hc].
      exists (RInstr il (BIns i)). split; [exact Hil|]. left. destruct Hs as [Hs|Hs]; [left|right]; exists s; exact Hs. }
  destruct (rv_labels text2 inlabs 0 [] None) as [labels|e3] eqn:El; cbn [pbind] in H.
  2:{ injection H as ->. destruct (label_errors_lem _ _ _ El) as (l & Hc & _). discriminate Hc. }
  destruct (instantiate text2 labels 0) as [ins|e4] eqn:Ei; cbn [pbind] in H.
  2:{ injection H as ->. destruct (instantiate_syntax _ _ _ _ Ei) as (b & Hin & Hb).
      destruct (expand_all_in _ _ _ Ex _ _ Hin) as (b0 & bs & Hin0 & He & Hbs).
      pose proof (expand_one_gen _ _ _ _ He) as G. rewrite Forall_forall in G. specialize (G _ Hbs).
      destruct Hb as [->|(i & a' & -> & Hi)].
      - (* a non-instruction line among the instructions *)
        destruct G as [<-|(i & Hc & _)]; [|discriminate Hc].
        destruct (Orig _ Hin0) as [[il Hil]|[_ (rl & Hr & Hm)]].
        + exfalso. exact (M _ _ _ Hil).
        + exists rl. split; [exact Hr|right; exact Hm].
      - destruct G as [<-|Sg]; [|exfalso; exact (safe_gen_no_syntax _ Sg i labels a' ln ln eq_refl Hi)].
        destruct (Orig _ Hin0) as [[il Hil]|[Hc _]]; [|discriminate Hc].
        exists (RInstr il (BIns i)). split; [exact Hil|]. left.
        destruct (inst_one_syntax _ _ _ _ _ Hi) as [_ [Hm|(s & Hs & Hn)]]; [|left; exists s; split; assumption].
        exfalso. destruct (M _ _ _ Hil) as [Mr Mv]. unfold in_instruction_map in Hm.
        assert (C : k_mn i = 54 \/ k_mn i = 56 \/ (k_mn i = 55 /\ k_var i <> None)).
        { assert (k_mn i = 54 \/ k_mn i = 55 \/ k_mn i = 56) as [E|[E|E]] by lia; [left; exact E| |right; left; exact E].
          right. right. split; [exact E|apply Mv, E]. }
        pose proof (expand_one_pseudo _ _ _ _ He C) as Fs. rewrite Forall_forall in Fs.
        exact (safe_gen_no_syntax _ (Fs _ Hbs) i labels a' ln ln eq_refl Hi). }
  destruct (4 * Z.of_nat (List.length ins) >? imem_limit); discriminate.
Qed.

(** * on source text *)
Lemma rv_load_text_syntax s ls s' ln img : rv_load_text s ls = (s', Some (PSyntax ln), img) ->
  (exists l, nth_line ls ln l /\ lex_line l = LexSyntax /\
             forall k' l', k' < ln -> nth_line ls k' l' -> lex_line l' <> LexSyntax) \/
  (all_lex ls /\ exists toks l rl, lex_text ls = LTOk toks /\ nth_line ls ln l /\ lexes_to l rl /\ In (ln, rl) toks /\
     (literal_rejected rl \/ misplaced toks ln rl)).
Proof.
  intros H. unfold rv_load_text in H. destruct (lex_text ls) as [toks|k] eqn:El.
  - right. destruct (lex_text_ok ls toks El) as [A B]. split; [exact A|].
    unfold rv_load in H. destruct (assemble toks _) as [[m' im]|e] eqn:Ea; inversion H; subst.
    destruct (assemble_syntax_cause _ _ _ (lex_text_wf _ _ El) (lex_text_mn _ _ El) Ea) as (rl & Hin & C).
    destruct (B _ _ Hin) as (l & Hn & Hl). exists toks, l, rl. split; [reflexivity|]. split; [exact Hn|]. split; [exact Hl|]. split; [exact Hin|exact C].
  - left. inversion H; subst. exact (lex_text_err ls ln El).
Qed.

(** * closed examples: every outcome class *)
Definition S (x : string) : str := codes x.
Definition st0 : st := init_st [II ADDI 1 1 1] (MFlat [(16384, 7)]) None.
Definition outcome (ls : list str) : option perr := snd (fst (rv_load_text st0 ls)).

Example ex_outcomes :
  outcome [S "nop"; S "add x1, x2"; S "li x1,"] = Some (PSyntax 2) /\                 (* first line the grammar rejects *)
  outcome [S "nop"; S "  # c"; S "li x1, 007"] = Some (PSyntax 3) /\                 (* literal int(text, 0) rejects *)
  outcome [S ".data"; S "z: .zero 1"; S ".text"; S "lw x1, z[0x]"] = Some (PSyntax 4) /\   (* lexical: 0x is no index *)
  outcome [S "nop"; S "v: .word 1"] = Some (PSyntax 2) /\                              (* a declaration among the instructions *)
  outcome [S "beq x1, x2, nowhere"] = Some (PLabel 1) /\
  outcome [S "beq x1, x2, 3"] = Some (POdd 1) /\
  outcome [S "a: nop"; S "a:"] = Some (PDupLabel 2) /\
  outcome [S ".text"; S "nop"; S ".text"] = Some (PDirective 3) /\
  outcome [S ".data"; S "nop"] = Some (PDataSyntax 2) /\
  outcome [S ".data"; S "v: .word 1"; S "v: .byte 2"] = Some (PDataDup 3) /\
  outcome [S "la x1, v"] = Some (PVariable 1) /\
  outcome [S ".data"; S "z: .zero 1073741824"] = Some (PMemSize 1073741824) /\
  outcome [S ".data"; S "z: .zero 1073737728"; S "b: .byte 1"] = Some (PMemAddr 0) /\      (* the address wraps *)
  outcome [S ".data"; S "v: .word -1, 0x10"; S ".text"; S "main: lw a0, v[1]"; S "jal x0, main"] = None.
Proof. vm_compute. repeat split; reflexivity. Qed.

(* after a failed load: both memories reset, no image *)
Example ex_frame :
  rv_load_text st0 [S "add x1, x2"] = (reset_state st0, Some (PSyntax 1), None) /\
  ms (reset_state st0) = MFlat [] /\ prog (im (reset_state st0)) = [].
Proof. vm_compute. repeat split; reflexivity. Qed.
