(* FlagOffEcallStall.v — property C08, phase B, part 11: one cycle of the flag-off pipeline
   while it is stalled at EX (the drain of an ecall, countdown 2 and 1), and the last cycle of an
   exiting ecall.  Port of [step_stall2_e] / [exiting_step] (PipeInvEcall.v) to the lag chain: a
   bubble in front of the waiting ecall is absorbed by its settled pre-state
   ([advE_bub], [preE_bub]), so the chain behind it does not move while the pipeline drains. *)
From Coq Require Import Lia ZifyBool.
From ArchSim Require Import Model.Base Model.Mem Model.Cache Model.Fmt Model.RV Model.Single
  Model.RVSplit Model.Pipe Proofs.WordLemmas Proofs.C01Step Proofs.SplitExec Proofs.C02Split
  Proofs.PipeLaws Proofs.PipeShape Proofs.PipeInv Proofs.PipeInvBase Proofs.PipeInvStages
  Proofs.PipeInvStraight Proofs.PipeInvControl Proofs.PipeInvEcall
  Proofs.FlagOffSim Proofs.FlagOffDwb Proofs.FlagOffInv Proofs.FlagOffEcallInv Proofs.FlagOffEcallNormal.
Open Scope Z_scope.

Local Arguments Z.mul : simpl never.
Local Arguments Z.add : simpl never.
Local Arguments Z.sub : simpl never.
Local Arguments Z.of_nat : simpl never.

Section Stall.
Variable P : list instr.
Hypothesis Hsup : Forall (fun i => supported i = true) P.

Lemma estep_stall2 p L l0 l1 l2 l3 l4 dead d : EInvAt P p L l0 l1 l2 l3 l4 dead ->
  stalled p = Some (2, d) -> estep_goal P p L l0 l1 l2 l3.
Proof.
  intros [Hl Sh Hz HPp HPs WL Hexs Hd D1 L3 L2 L1 L0 HF Hrg Hms Hbc Hpcn Hout Hexc Hic Hfd] Hst.
  unfold estep_goal.
  pose proof (shape_step no_icache p no_icache_faithful Sh) as Sh'.
  destruct (shape_at p _ _ _ _ _ Sh Hl) as (K0 & K1 & K2 & K3 & K4 & KM). rewrite HPp in *.
  rewrite Hst in KM. unfold ModeInv in KM. destruct (saved p) as [svl|] eqn:Hsv; [|contradiction].
  destruct KM as [Hd12 [(Habs & _)|(_ & m0 & y1 & x2 & -> & Hsk0 & -> & Hsk1 & _ & _ & Hd2 & Hd1)]];
    [discriminate Habs|].
  destruct Hsk1 as (Hy1i & Hy1s & Hy1f & Hy1e & Hx2i & Hx2a & Hf1 & Hf2 & Hf3 & Hf4 & Hf5 & Hf6).
  rewrite (pipe_step_stall2 p _ _ _ _ _ d Hl Hst) in *. unfold run_stall2, sv_at in *. rewrite Hz, Hsv in *.
  change (lat_at [m0; Some y1] 0) with m0 in *. change (lat_at [m0; Some y1] 1) with (Some y1) in *.
  destruct (wb_stageL P Hsup (preE l3 L) l3 (bumped (pst p)) ltac:(rewrite lt_preE; exact HPs) L3 (wfL_preE _ _ WL)
              ltac:(rewrite lt_preE; exact Hexs) ltac:(rewrite lt_preE; exact Hrg))
    as (s2 & HWB & Hf4' & Hr2 & Hm2 & Ho2 & Hb2 & Hp2 & He2 & Hpc2 & Him2 & Hi2 & WL2 & HP2 & Hex2).
  rewrite lt_preE in Hi2. change (advL l3 (preE l3 L)) with (advE l3 L) in *.
  rewrite HWB in *. clear HWB. unfold bumped in *. stf.
  set (L' := advE l3 L) in *.
  assert (Hec2 : is_ec (Some x2) = true) by (rewrite is_ec_some, Hx2i; reflexivity).
  (* the stalled ecall in latch 2 *)
  assert (Hfd2 : fired (Some x2) = false) by (rewrite Hfd, Hst; reflexivity).
  cbn [fired] in Hfd2. assert (Hx2s : sl_stall x2 = true) by (destruct (sl_stall x2); [reflexivity|discriminate Hfd2]).
  set (t2 := uview (preE (Some x2) L')) in *.
  cbn [lv] in L2. destruct (L2 Logic.I) as (Wt & Hon2 & HE2 & Hbar2 & Hpl2).
  pose proof Hon2 as (Hxt & Hat & Hit).
  destruct (onp_pc P _ _ _ Hon2) as [Hit' Hat'].
  unfold Eok in HE2. rewrite Hx2s, Hx2i in HE2. destruct HE2 as [_ HE2]. rewrite Hx2i in Hit, Hit'.
  assert (HPt2 : prog (im t2) = P) by (change (prog (im (lt (preE (Some x2) L'))) = P); rewrite lt_preE; exact HP2).
  assert (Hdf : dfields y1 (dsl t2 IEcall)).
  { rewrite HE2 in Hx2a, Hf1, Hf2, Hf3, Hf4, Hf5, Hf6.
    cbn [ex_slot sl_addr sl_ra1 sl_ra2 sl_rd1 sl_rd2 sl_imm sl_wreg] in Hx2a, Hf1, Hf2, Hf3, Hf4, Hf5, Hf6.
    unfold dfields. rewrite Hy1i. csplit; try reflexivity; symmetry; assumption. }
  assert (Hflx2 : flush_of (Some x2) = None) by (rewrite HE2; reflexivity).
  assert (Hout2 : out s2 = out (lt L')).
  { rewrite Ho2, Hout. cbn [fired]. rewrite Hx2s. reflexivity. }
  assert (Hms2 : ms s2 = ms (lt L')) by congruence.
  assert (Hbusy : ex_busy y1 (Some x2) l3 = nonempty l3).
  { unfold ex_busy. rewrite Hy1s. reflexivity. }
  set (n1 := id_on false m0 l1 (Some x2) s2) in *. set (n4 := option_map wb_slot l3) in *.
  assert (Hs4 : has_stall n4 = false) by (subst n4; destruct l3; reflexivity).
  assert (Hne1 : nonempty n1 = nonempty l1).
  { subst n1. rewrite nonempty_id_on. destruct m0, l1; cbn in Hsk0 |- *; tauto. }
  assert (HE1 : is_ec n1 = is_ec l1).
  { subst n1. destruct m0 as [m|], l1 as [x1|]; cbn in Hsk0; try contradiction; [|reflexivity].
    rewrite id_on_some. destruct Hsk0 as (_ & Hi0 & _). cbn [is_ec id_slot sl_instr]. rewrite Hi0. reflexivity. }
  assert (Hfl1 : flush_of n1 = None) by apply id_on_flags.
  assert (Hs1 : has_stall n1 = false) by apply nohaz_id_no_stall.
  destruct (L0ok_flags _ _ K0) as [Hs0 Hf0].
  set (X1 := advE (Some x2) L') in *.
  assert (HD1' : Dsh_latch n1).
  { subst n1. destruct m0; [rewrite id_on_some; apply id_slot_Dsh|exact Logic.I]. }
  assert (Ha1 : advE n1 X1 = advE l1 X1) by (apply advE_eq; assumption).
  assert (Hp1 : preE n1 X1 = preE l1 X1) by (apply preE_eq; exact HE1).
  destruct Hd12 as [-> | ->].
  { (* countdown 2: an older instruction is still in latch 3; the ecall waits *)
    rewrite (ex_on_ecall y1 (Some x2) l3 s2 Hy1i) in *. rewrite Hbusy in *.
    destruct l3 as [x3|]; [|exfalso; apply Hd2; reflexivity]. cbn [nonempty] in *.
    rewrite (ex_slot_ext _ _ _ _ _ _ _ Hdf), <- HE2 in *.
    cbn [finish]. cbn [finish fst] in Sh'.
    assert (Hf2' : flush_of (Some x2) = None) by (rewrite HE2; reflexivity).
    pose proof (post_stalled p l0 n1 (Some x2) None n4 s2 2 2 _ Hst Hsv (or_introl eq_refl) (or_intror eq_refl)
                  Hs0 eq_refl Hs4 ltac:(intros H; discriminate H) Hf0 Hfl1 Hf4') as HPOST.
    cbv zeta in HPOST. cbn [flush_of] in HPOST. cbn [flush_of] in Hf2'. rewrite Hf2' in HPOST.
    destruct (post_fields p [l0; n1; Some x2; None; n4] s2) as (Fr & Fm & Fo & Fe & Fi & Fb & Fp & Fim & _).
    pose proof (post_hazards p [l0; n1; Some x2; None; n4] s2) as Hhz'. rewrite Hz in Hhz'.
    assert (Hns1 : nost1 (post p [l0; n1; Some x2; None; n4] s2)).
    { apply nost1_post; [intros d H; rewrite Hst in H; discriminate H|].
      rewrite Hst. rewrite new_stall_ignored_2; [discriminate|exact Hs0|reflexivity|exact Hs4]. }
    match goal with |- context [post p ?nx s2] => set (p' := post p nx s2) in * end.
    change (post p [l0; n1; Some x2; None; n4] s2) with p' in HPOST, Fr, Fm, Fo, Fe, Fi, Fb, Fp, Fim, Hhz', Hns1.
    destruct HPOST as (Hlat' & Hpc' & Hstl'). change (2 =? 1) with false in Hstl'. cbv iota in Hstl'.
    assert (Hpb : preE (Some x2) (advE None L') = preE (Some x2) L') by (rewrite advE_none; apply preE_bub; exact Hec2).
    assert (Hab : advE (Some x2) (advE None L') = X1) by (rewrite advE_none; apply advE_bub; exact Hec2).
    split; [|split; [|split; [|split]]].
    - left. exists l0, n1, (Some x2), None, n4, dead. constructor; try assumption; try lia; try congruence.
      + exact Logic.I.
      + rewrite Hpb. fold t2. cbn [lv]. intros _. unfold Eok. rewrite Hx2s, Hx2i. csplit; try assumption; try reflexivity.
        rewrite Hx2i in Hbar2. exact Hbar2. rewrite Hx2i in Hpl2. exact Hpl2.
      + rewrite Hab, Hp1.
        apply (lv_map P _ _ _ _ _ _ _ _ _ L1); try tauto.
        subst n1. destruct m0 as [m|], l1 as [x1|]; cbn in Hsk0; try contradiction; [|exact Logic.I].
        rewrite id_on_some. destruct Hsk0 as (_ & Hi0 & Ha0).
        split; [cbn [id_slot sl_instr]; congruence|]. split; [cbn [id_slot sl_addr]; congruence|].
        intros _ _ _ _ Hstl. rewrite Hstl' in Hstl. discriminate Hstl.
      + rewrite Hab, Ha1. intros H0. cbv zeta. destruct (HF H0) as (a & b & c & e).
        csplit; try assumption. congruence.
      + rewrite advE_none. cbn [bub lt]. congruence.
      + rewrite advE_none. cbn [bub lt]. congruence.
      + rewrite advE_none. cbn [bub lt]. congruence.
      + cbn [fired]. rewrite Hx2s. cbn [negb]. rewrite advE_none. cbn [bub lt]. congruence.
      + rewrite Hstl'. cbn [fired]. rewrite Hx2s. reflexivity.
    - rewrite Hlat'. reflexivity.
    - intros H; discriminate H.
    - exact Hns1.
    - eapply (EHold _ _ _ _ _ _ n1 x2 n4); try assumption.
      unfold has_instr. rewrite Fim, Him2. rewrite Hpc', Hpc2. reflexivity. }
  (* countdown 1: everything older has retired; the ecall fires *)
  subst n4. pose proof (Hd1 eq_refl) as Hl3. subst l3. clear Hd1 Hd2. cbn [nonempty option_map] in *.
  rewrite Hx2i in Hbar2, Hpl2.
  assert (Hrt : regs s2 = regs t2).
  { change (regs t2) with (lr2 (preE (Some x2) L')). unfold preE. rewrite Hec2. rewrite Hr2. reflexivity. }
  assert (Hmt : ms s2 = ms t2) by (change (ms t2) with (ms (lt (preE (Some x2) L'))); rewrite lt_preE; exact Hms2).
  assert (Hot : out s2 = out t2) by (change (out t2) with (out (lt (preE (Some x2) L'))); rewrite lt_preE; exact Hout2).
  pose proof (ecall_fire P t2 y1 (Some x2) None s2 Wt Hxt HPt2 Hit Hdf Hrt Hmt Hot Hbusy) as HFIRE.
  destruct (ex_on (Some y1) (Some x2) None s2) as [[n2 s3] [e|]] eqn:HEXeq.
  { destruct HFIRE as (tm & Hss & F1 & F2 & F3).
    cbn [finish fst snd faulted pst fault_at fault_of lat_at nthZ nth Z.to_nat].
    rewrite Hy1i. replace (sl_addr y1) with (pc t2) by congruence.
    unfold estep. rewrite (normE_preE P _ _ x2 eq_refl HP2 Hon2). fold t2. rewrite (lstep_fault _ _ _ Hss).
    eexists. split; [reflexivity|].
    split; [unfold single_done, has_instr; rewrite Hex2, HP2, Hit'; reflexivity|].
    split; [left; reflexivity|]. cbn [lt regs ms out with_regs].
    pose proof (ex_on_law _ _ _ _ _ _ _ HEXeq) as (_ & Hr3 & _).
    split; [rewrite Hr3, Hr2, lt_preE; reflexivity|]. split; assumption. }
  destruct HFIRE as (x2' & Hx2' & HE' & Hi' & Ha' & Hst' & G1 & G2 & G3 & G4 & G5 & G6 & G7 & G8 & Hout3 & Hok & Hcase).
  subst n2.
  assert (Hec2' : is_ec (Some x2') = true) by (rewrite is_ec_some, Hi'; reflexivity).
  assert (Hpb : preE (Some x2') (advE None L') = preE (Some x2) L').
  { rewrite advE_none, (preE_bub _ _ Hec2'). apply preE_eq. congruence. }
  assert (Hab : advE (Some x2') (advE None L') = X1).
  { rewrite advE_none, (advE_bub _ _ Hec2'). apply advE_eq; [reflexivity|congruence]. }
  assert (Hon' : onp P t2 x2') by (unfold onp; rewrite Hi', Ha'; repeat split; assumption).
  assert (HoX1 : out (lt X1) = out (nxt t2)) by (subst X1; rewrite advE_out; reflexivity).
  assert (HrX1 : lr2 X1 = regs (lt L')).
  { subst X1. unfold advE. rewrite lr2_adv. unfold preE. rewrite Hec2. reflexivity. }
  cbn [finish]. cbn [finish fst] in Sh'.
  pose proof (post_stalled p l0 n1 (Some x2') None None s3 2 1 _ Hst Hsv (or_intror eq_refl) (or_intror eq_refl)
                Hs0 eq_refl eq_refl ltac:(intros H; discriminate H) Hf0 Hfl1 eq_refl) as HPOST.
  cbv zeta in HPOST. cbn [flush_of] in HPOST.
  destruct (post_fields p [l0; n1; Some x2'; None; None] s3) as (Fr & Fm & Fo & Fe & Fi & Fb & Fp & Fim & _).
  pose proof (post_hazards p [l0; n1; Some x2'; None; None] s3) as Hhz'. rewrite Hz in Hhz'.
  assert (Hns1 : nost1 (post p [l0; n1; Some x2'; None; None] s3)).
  { apply nost1_post; [intros d H; rewrite Hst in H; discriminate H|].
    rewrite Hst. rewrite new_stall_ignored_2; [discriminate|exact Hs0|reflexivity|reflexivity]. }
  match goal with |- context [post p ?nx s3] => set (p' := post p nx s3) in * end.
  change (post p [l0; n1; Some x2'; None; None] s3) with p' in HPOST, Fr, Fm, Fo, Fe, Fi, Fb, Fp, Fim, Hhz', Hns1.
  assert (Hprog' : prog (im (pst p')) = P) by (rewrite Fim, G8, Him2; exact HPp).
  assert (HL2' : forall dd : nat, ((dd = 3%nat -> ~ plain t2 IEcall) /\ (dd <> 3%nat -> plain t2 IEcall)) ->
            lv P True (dd = 3%nat) (uview (preE (Some x2') (advE None L'))) (Some x2') Eok).
  { intros dd [Hb Hp]. rewrite Hpb. fold t2. cbn [lv]. intros _. rewrite Hi'. csplit; assumption. }
  destruct Hcase as [(Hfl & Hpl) | (c' & Hfl & Hxn)]; rewrite Hfl in HPOST;
    destruct HPOST as (Hlat' & Hpc' & Hstl'); cbn in Hstl'.
  - (* the ecall has printed: the pipeline resumes *)
    split; [|split; [|split; [|split]]].
    + left. exists l0, n1, (Some x2'), None, None, dead. constructor; try assumption; try lia.
      * apply HL2'. split; assumption.
      * rewrite Hab, Hp1.
        apply (lv_map P _ _ _ _ _ _ _ _ _ L1); try tauto.
        subst n1. destruct m0 as [m|], l1 as [x1|]; cbn in Hsk0; try contradiction; [|exact Logic.I].
        rewrite id_on_some. destruct Hsk0 as (_ & Hi0 & Ha0).
        split; [cbn [id_slot sl_instr]; congruence|]. split; [cbn [id_slot sl_addr]; congruence|].
        intros _ Wt1 (_ & Hax & _) _ _.
        assert (Haym : sl_addr m = pc (uview (preE (Some x1) X1))) by congruence.
        destruct (is_ecall (sl_instr m)) eqn:Ey.
        -- rewrite <- Hi0 in Ey. rewrite Hi0 in Ey.
           apply Dok_ecall; [apply is_ecall_true; exact Ey|exact Wt1| |exact Haym].
           rewrite Hr2. apply (wf_r _ (proj1 WL2)).
        -- apply id_operands_exact; [|exact Haym].
           change (regs s2 = lr2 (preE (Some x1) X1)). unfold preE. rewrite is_ec_some, Hi0, Ey.
           rewrite HrX1. exact Hr2.
      * rewrite Hab, Ha1. exact L0.
      * rewrite Hab, Ha1. intros H0. cbv zeta. destruct (HF H0) as (fa & fb & fc & fe).
        csplit; try assumption. congruence.
      * rewrite Fr, G1. exact Hr2.
      * rewrite advE_none. cbn [bub lt]. congruence.
      * rewrite advE_none. cbn [bub lt]. congruence.
      * rewrite advE_none. cbn [bub lt]. congruence.
      * cbn [fired]. rewrite Hst'. cbn [negb]. rewrite Hab, HoX1. congruence.
      * congruence.
      * rewrite Hstl'. cbn [fired nonempty]. rewrite Hst'. reflexivity.
    + rewrite Hlat'. reflexivity.
    + intros _. unfold mu4, dcount. rewrite Hlat', Hl, Hst, Hstl'. lat5. cbn. lia.
    + exact Hns1.
    + eapply (EHold _ _ _ _ _ _ n1 x2' None); try assumption.
      unfold has_instr. rewrite Fim, G8, Him2. rewrite Hpc', G7, Hpc2. reflexivity.
  - (* the ecall exits: flush from latch 2 *)
    split; [|split; [|split; [|split]]].
    + left. exists None, None, (Some x2'), None, None, 3%nat. constructor; try assumption; try lia.
      * apply HL2'. split; [|intros H; exfalso; apply H; reflexivity].
        intros _ (_ & Hx & _). rewrite Hxn in Hx. discriminate Hx.
      * cbn [lv]. lia.
      * cbn [lv]. lia.
      * rewrite Fr, G1. exact Hr2.
      * rewrite advE_none. cbn [bub lt]. congruence.
      * rewrite advE_none. cbn [bub lt]. congruence.
      * rewrite advE_none. cbn [bub lt]. congruence.
      * cbn [fired]. rewrite Hst'. cbn [negb]. rewrite Hab, HoX1. congruence.
      * congruence.
      * rewrite Hstl'. cbn [fired nonempty]. rewrite Hst'. reflexivity.
    + rewrite Hlat'. reflexivity.
    + intros _. unfold mu4, dcount. rewrite Hlat', Hl, Hst, Hstl'. lat5. cbn. lia.
    + exact Hns1.
    + eapply (EExFlush _ _ _ _ _ _ x2' None); [exact Hlat'|exact Hi'|cbn [flush_of]; rewrite Hfl; discriminate|reflexivity|right; exact Hec2].
Qed.

(** * One step in any mode *)
Lemma estep_any p L l0 l1 l2 l3 l4 dead : EInvAt P p L l0 l1 l2 l3 l4 dead -> nost1 p ->
  pipe_done p = false -> estep_goal P p L l0 l1 l2 l3.
Proof.
  intros I Hns Hnd. pose proof (ev_shape _ _ _ _ _ _ _ _ _ I) as Sh.
  destruct (shape_mode_cases no_icache p Sh) as [Hst|(k & d & Hst & [-> | ->])].
  - eapply estep_normal; eassumption.
  - exfalso. exact (Hns d Hst).
  - eapply estep_stall2; eassumption.
Qed.

Lemma lstep_ok M : snd (single_pipeline_step (uview M)) = None -> lstep M = (lnxt M, None).
Proof.
  intros Hok. unfold lnxt. destruct (lstep M) as [L1 o] eqn:E. cbn [fst].
  assert (Ho : o = snd (single_pipeline_step (uview M))) by (unfold lstep, vstep in E; injection E as _ <-; reflexivity).
  rewrite Ho, Hok. reflexivity.
Qed.

(** * The last cycle of an exiting ecall *)
Lemma eexiting_step p L : EExiting P p L ->
  pipe_done p = false /\ single_done (lt L) = false /\
  exists L1, estep L = (L1, None) /\ single_done (lt L1) = true /\
  exists p', pipe_step p = (p', None) /\ pipe_done p' = true /\ arch_agree p' (lt L1) /\
             some_addr (lat_at (lat p') 4) = [pc (lt L)].
Proof.
  intros (l0 & x3 & l4 & Hl & Sh & Hz & Hst & HPp & HPs & WL & Hexs & Hon & HM & Hok & Hexn &
          Hrg & Hms & Hbc & Hpcn & Hout & Hexc & Hic).
  set (M := preE (Some x3) L) in *. set (t := uview M) in *.
  destruct (onp_pc P _ _ _ Hon) as [Hi Ha].
  assert (WM : wfL M) by (apply wfL_preE; exact WL).
  assert (HexM : exitc (lt M) = None) by (subst M; rewrite lt_preE; exact Hexs).
  assert (HiM : instr_at (prog (im (lt M))) (pc (lt M)) = Some (sl_instr x3)) by (subst M; rewrite lt_preE, HPs; exact Hi).
  assert (Hnd : single_done (lt L) = false) by (unfold single_done, has_instr; rewrite Hexs, HPs, Hi; reflexivity).
  split.
  { unfold pipe_done, pipe_empty. rewrite Hexc, Hl. lat5. cbn [nonempty orb negb andb].
    rewrite !Bool.orb_true_r. reflexivity. }
  split; [exact Hnd|].
  exists (lnxt M). split.
  { unfold estep. rewrite (normE_preE P _ _ x3 eq_refl HPs Hon). fold M. apply lstep_ok. exact Hok. }
  assert (Hexl : exitc (lt (lnxt M)) = exitc (nxt t)) by reflexivity.
  split.
  { unfold single_done. rewrite Hexl. destruct (exitc (nxt t)); [reflexivity|congruence]. }
  rewrite (pipe_step_normal p _ _ _ _ _ Hl Hst). unfold run_normal. rewrite Hz.
  destruct (if_stage P (bumped (pst p)) (sh_im _ _ Sh) HPp)
    as (n0 & s1 & HIF & Hr1 & Hm1 & Ho1 & He1 & Hi1 & Hb1 & Hp1 & HP1 & Hnc1 & Hs0 & Hf0 & Hn0).
  rewrite HIF. clear HIF. unfold bumped in *. stf.
  destruct HM as (e & te & tm & He & Hm).
  pose proof (instr_supported P Hsup _ _ Hi) as Hs.
  pose proof (wfL_uview M WM) as Wt.
  destruct (nxt_fields t _ Wt HexM HiM Hs _ _ _ _ He Hm) as (_ & _ & _ & _ & Hexn' & _ & _ & Hicn & _).
  destruct (lnxt_regs M _ WM HexM HiM Hs _ _ _ _ s1 He Hm ltac:(subst M; rewrite lt_preE; congruence)) as [_ HrL].
  destruct (wb_never_faults t _ _ _ _ _ _ s1 Hs He Hm) as [s2 Hw]. rewrite Hw.
  rewrite ex_on_none, mem_on_none. cbn [finish].
  pose proof (wb_on_regs _ _ _ _ Hw) as Hr2. pose proof (wb_on_exitc _ _ _ _ Hw) as Hx2.
  pose proof (wb_on_law _ _ _ _ _ Hw) as (_ & Hms2 & Hout2 & Hbc2 & Hpcn2 & _ & Hic2).
  eexists. split; [reflexivity|].
  match goal with |- context [post p ?nx s2] => destruct (post_fields p nx s2)
    as (Fr & Fm & Fo & Fe & Fi & Fb & Fp & _); pose proof (post_lat p nx s2) as Flat end.
  assert (Hx3 : exists c, sl_exit x3 = Some c).
  { rewrite Hexn' in Hexn. destruct (sl_exit x3) as [c|]; [exists c; reflexivity|congruence]. }
  destruct Hx3 as [c Hx3]. rewrite Hx3 in *.
  split; [unfold pipe_done; rewrite Fe, Hx2; reflexivity|].
  split.
  { unfold arch_agree. rewrite Fr, Fm, Fo, Fe, Fi, Fb, Fp. cbn [nonempty] in Hic2.
    change (advE (Some x3) L) with (lnxt M) in *.
    change (icount (lt (lnxt M))) with (icount (nxt t)).
    change (icount t) with (icount (lt M)) in Hicn. subst M. rewrite lt_preE in Hicn.
    csplit; try congruence; try lia. }
  rewrite Flat.
  rewrite first_flush_5 by (assumption || apply id_on_flags).
  cbn [flush_of wb_slot sl_flush]. unfold wb_flush. rewrite Hx3.
  change (Z.to_nat 4) with 4%nat. cbn [clear_prefix]. lat5. cbn [some_addr wb_slot sl_addr]. rewrite Ha. reflexivity.
Qed.

End Stall.
