(* LexText1.v — the lines of str.splitlines() lie in the domain of the RISC-V lexer; C15 for whole texts. *)
From Coq Require Import ZArith List Bool Lia ZifyBool.
From ArchSim Require Import Model.Base Model.Mem Model.Cache Model.Fmt Model.RV Model.Toy Model.Asm.
From ArchSim Require Model.ToyLex.
From ArchSim Require Import Model.Lex Model.LexText Proofs.C15Proofs Proofs.LexErr2 Proofs.LexErr3 Proofs.LexErr5.
Import ListNotations.
Open Scope Z_scope.

Lemma linebreak_same c : ToyLex.is_linebreak c = Lex.is_linebreak c.
Proof. unfold ToyLex.is_linebreak, ToyLex.in_range, Lex.is_linebreak. lia. Qed.

Definition okc (c : Z) : bool := negb (Lex.is_linebreak c).
Lemma pieces_ok_n : forall n s, (List.length s <= n)%nat ->
  forallb okc (fst (ToyLex.pieces s)) = true /\ Forall (fun l => forallb okc l = true) (snd (ToyLex.pieces s)).
Proof.
  induction n as [|n IHn]; intros s Hlen; [destruct s; [split; [reflexivity|constructor]|cbn in Hlen; lia]|].
  assert (IH : forall s', (List.length s' < List.length s)%nat ->
            forallb okc (fst (ToyLex.pieces s')) = true /\ Forall (fun l => forallb okc l = true) (snd (ToyLex.pieces s')))
    by (intros s' H'; apply IHn; lia).
  clear IHn Hlen. destruct s as [|c r]; [split; [reflexivity|constructor]|]. cbn [List.length] in IH. cbn [ToyLex.pieces].
  destruct (c =? 13) eqn:E13.
  - destruct r as [|c2 r']; [split; [reflexivity|repeat constructor]|].
    destruct (c2 =? 10).
    + destruct (IH r') as [H1 H2]; [cbn; lia|]. destruct (ToyLex.pieces r') as [h t]. cbn [fst snd] in *. split; [reflexivity|constructor; assumption].
    + destruct (IH (c2 :: r')) as [H1 H2]; [cbn; lia|]. destruct (ToyLex.pieces (c2 :: r')) as [h t]. cbn [fst snd] in *.
      split; [reflexivity|constructor; assumption].
  - destruct (ToyLex.is_linebreak c) eqn:Eb.
    + destruct (IH r) as [H1 H2]; [lia|]. destruct (ToyLex.pieces r) as [h t]. cbn [fst snd] in *. split; [reflexivity|constructor; assumption].
    + destruct (IH r) as [H1 H2]; [lia|]. destruct (ToyLex.pieces r) as [h t]. cbn [fst snd forallb] in *.
      split; [|exact H2]. unfold okc at 1. rewrite <- linebreak_same, Eb. exact H1.
Qed.
Lemma pieces_ok s : forallb okc (fst (ToyLex.pieces s)) = true /\ Forall (fun l => forallb okc l = true) (snd (ToyLex.pieces s)).
Proof. apply (pieces_ok_n (List.length s)). lia. Qed.
Lemma drop_last_empty_forall (P : str -> Prop) l : Forall P l -> Forall P (ToyLex.drop_last_empty l).
Proof.
  induction 1 as [|x l Hx Hl IH]; [constructor|]. cbn [ToyLex.drop_last_empty].
  destruct l as [|y t]; [destruct x; [constructor|constructor; [exact Hx|constructor]]|constructor; [exact Hx|exact IH]].
Qed.

(* for EVERY text: no line of splitlines contains a line-boundary character *)
Lemma splitlines_no_linebreak text : Forall (fun l => forallb okc l = true) (ToyLex.splitlines text).
Proof.
  unfold ToyLex.splitlines. destruct (pieces_ok text) as [H1 H2]. destruct (ToyLex.pieces text) as [h t]. cbn [fst snd] in *.
  apply drop_last_empty_forall. constructor; assumption.
Qed.

(* the characters of the lines are characters of the text *)
Lemma pieces_incl_n : forall n s c, (List.length s <= n)%nat ->
  (In c (fst (ToyLex.pieces s)) \/ exists l, In l (snd (ToyLex.pieces s)) /\ In c l) -> In c s.
Proof.
  induction n as [|n IHn]; intros s c Hlen; [destruct s; [cbn; intros [[]|(l & [] & _)]|cbn in Hlen; lia]|].
  assert (IH : forall s' c', (List.length s' < List.length s)%nat ->
            (In c' (fst (ToyLex.pieces s')) \/ exists l, In l (snd (ToyLex.pieces s')) /\ In c' l) -> In c' s')
    by (intros s' c' H'; apply IHn; lia).
  clear IHn Hlen. destruct s as [|c0 r]; [cbn; intros [[]|(l & [] & _)]|]. cbn [List.length] in IH. cbn [ToyLex.pieces].
  destruct (c0 =? 13).
  - destruct r as [|c2 r']; [cbn; intros [[]|(l & [<-|[]] & [])]|].
    destruct (c2 =? 10).
    + specialize (IH r' c ltac:(cbn; lia)). destruct (ToyLex.pieces r') as [h t]. cbn [fst snd] in *.
      intros [[]|(l & [<-|Hl] & Hc)]; right; right; apply IH; [left; exact Hc|right; exists l; split; assumption].
    + specialize (IH (c2 :: r') c ltac:(cbn; lia)). destruct (ToyLex.pieces (c2 :: r')) as [h t]. cbn [fst snd] in *.
      intros [[]|(l & [<-|Hl] & Hc)]; right; apply IH; [left; exact Hc|right; exists l; split; assumption].
  - destruct (ToyLex.is_linebreak c0).
    + specialize (IH r c ltac:(lia)). destruct (ToyLex.pieces r) as [h t]. cbn [fst snd] in *.
      intros [[]|(l & [<-|Hl] & Hc)]; right; apply IH; [left; exact Hc|right; exists l; split; assumption].
    + specialize (IH r c ltac:(lia)). destruct (ToyLex.pieces r) as [h t]. cbn [fst snd] in *.
      intros [[<-|Hc]|(l & Hl & Hc)]; [left; reflexivity|right; apply IH; left; exact Hc|right; apply IH; right; exists l; split; assumption].
Qed.
Lemma pieces_incl s c : (In c (fst (ToyLex.pieces s)) \/ exists l, In l (snd (ToyLex.pieces s)) /\ In c l) -> In c s.
Proof. apply (pieces_incl_n (List.length s)). lia. Qed.
Lemma drop_last_empty_in l x : In x (ToyLex.drop_last_empty l) -> In x l.
Proof.
  induction l as [|y t IH]; [intros []|]. cbn [ToyLex.drop_last_empty].
  destruct t as [|z t']; [destruct y; [intros []|intros H; exact H]|].
  intros [<-|H]; [left; reflexivity|right; apply IH, H].
Qed.
Lemma splitlines_chars text l c : In l (ToyLex.splitlines text) -> In c l -> In c text.
Proof.
  unfold ToyLex.splitlines. intros Hl Hc. apply pieces_incl. destruct (ToyLex.pieces text) as [h t]. cbn [fst snd].
  apply drop_last_empty_in in Hl. destruct Hl as [<-|Hl]; [left; exact Hc|right; exists l; split; assumption].
Qed.

(* G3: for every text of code points (numbers >= 0) all lines are in the lexer's domain *)
Lemma splitlines_in_domain_lem text : forallb (fun c => 0 <=? c) text = true ->
  Forall (fun l => lex_domain l = true) (rv_lines text).
Proof.
  intros Hn. unfold rv_lines. pose proof (splitlines_no_linebreak text) as H. rewrite Forall_forall in *.
  intros l Hl. specialize (H l Hl). unfold lex_domain. rewrite forallb_forall in *. intros c Hc.
  specialize (H c Hc). unfold okc in H. rewrite H, andb_true_r. apply Hn. eapply splitlines_chars; eassumption.
Qed.

(** C15 for whole texts *)
Lemma whole_typed s text :
  match snd (fst (rv_load_program_text s text)) with
  | None => True
  | Some (PUncaught _) => False
  | Some (PMemSize w) => w = data_limit / 4
  | Some (PMemAddr _) => True
  | Some (PSyntax ln) | Some (PLabel ln) | Some (POdd ln) | Some (PDupLabel ln) | Some (PDirective ln)
  | Some (PDataSyntax ln) | Some (PDataDup ln) | Some (PVariable ln) => 1 <= ln <= Z.of_nat (List.length (rv_lines text))
  end.
Proof. apply rv_load_text_typed. Qed.
Lemma whole_line s text s' e img : rv_load_program_text s text = (s', Some e, img) ->
  match e with
  | PSyntax ln =>
      (exists l, nth_line (rv_lines text) ln l /\ lex_line l = LexSyntax /\
                 forall k' l', k' < ln -> nth_line (rv_lines text) k' l' -> lex_line l' <> LexSyntax) \/
      (all_lex (rv_lines text) /\ lexes_ok (rv_lines text) ln)
  | PLabel ln | POdd ln | PDupLabel ln | PVariable ln => all_lex (rv_lines text) /\ lexes_ok (rv_lines text) ln
  | PDirective ln => all_lex (rv_lines text) /\ exists l d names, nth_line (rv_lines text) ln l /\
                       lex_line l = LexOk (NDirective d) /\ lexes_to l (snd (intern_line names (NDirective d)))
  | PDataSyntax ln => all_lex (rv_lines text) /\ exists l rl, nth_line (rv_lines text) ln l /\ lexes_to l rl /\ ~ is_decl rl
  | PDataDup ln => all_lex (rv_lines text) /\ exists l rl, nth_line (rv_lines text) ln l /\ lexes_to l rl /\ is_decl rl
  | PMemSize w => all_lex (rv_lines text) /\ w = data_limit / 4
  | PMemAddr _ => all_lex (rv_lines text)
  | PUncaught _ => False
  end.
Proof. apply rv_load_text_line. Qed.
Lemma whole_syntax s text s' ln img : rv_load_program_text s text = (s', Some (PSyntax ln), img) ->
  (exists l, nth_line (rv_lines text) ln l /\ lex_line l = LexSyntax /\
             forall k' l', k' < ln -> nth_line (rv_lines text) k' l' -> lex_line l' <> LexSyntax) \/
  (all_lex (rv_lines text) /\ exists toks l rl, lex_text (rv_lines text) = LTOk toks /\ nth_line (rv_lines text) ln l /\
     lexes_to l rl /\ In (ln, rl) toks /\ (literal_rejected rl \/ misplaced toks ln rl)).
Proof. apply rv_load_text_syntax. Qed.
Lemma whole_frame s text s' o img : rv_load_program_text s text = (s', o, img) ->
  match o with
  | Some e => s' = reset_state s /\ img = None
  | None => exists toks im, lex_text (rv_lines text) = LTOk toks /\ rv_tokens_wf toks /\ img = Some im /\
                            rv_load s toks = (s', None, Some im)
  end.
Proof. apply rv_load_text_frame. Qed.

(** closed examples: the boundaries of str.splitlines() *)
Definition st0 : st := init_st [] (MFlat []) None.
Example ex_lines :
  rv_lines ([110;111;112; 13;10; 110;111;112; 11; 12; 110;111;112; 133; 8232; 110;111;112; 13]) =
  [[110;111;112]; [110;111;112]; []; [110;111;112]; []; [110;111;112]].
Proof. vm_compute. reflexivity. Qed.
(* "nop\r\nadd x1, x2\x0bnop": the error is on line 2; "nop\x0b\x0cadd x1": line 3; one line separator at the end adds no line *)
Example ex_whole :
  snd (fst (rv_load_program_text st0 ([110;111;112;13;10] ++ [97;100;100;32;120;49;44;32;120;50] ++ [11;110;111;112]))) = Some (PSyntax 2) /\
  snd (fst (rv_load_program_text st0 ([110;111;112;11;12] ++ [97;100;100;32;120;49]))) = Some (PSyntax 3) /\
  snd (fst (rv_load_program_text st0 ([110;111;112;8233]))) = None /\
  List.length (rv_lines [110;111;112;8233]) = 1%nat.
Proof. vm_compute. repeat split; reflexivity. Qed.
