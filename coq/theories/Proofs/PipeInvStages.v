(* PipeInvStages.v — what each pipeline stage does to an on-path slot, in terms of the
   single-cycle states of the invariant (PipeInv.v).  General: any program of supported
   instructions. *)
From Coq Require Import Lia ZifyBool.
From ArchSim Require Import Model.Base Model.Mem Model.Cache Model.Fmt Model.RV Model.Single
  Model.RVSplit Model.Pipe Proofs.WordLemmas Proofs.C01Step Proofs.SplitExec Proofs.C02Split
  Proofs.PipeLaws Proofs.PipeShape Proofs.PipeInv Proofs.PipeInvBase.
Open Scope Z_scope.

Ltac Zify.zify_post_hook ::= Z.to_euclidean_division_equations.
Local Arguments Z.mul : simpl never.
Local Arguments Z.add : simpl never.
Local Arguments Z.sub : simpl never.
Local Arguments Z.div : simpl never.
Local Arguments Z.modulo : simpl never.
Local Arguments Z.land : simpl never.
Local Arguments Z.shiftl : simpl never.
Local Arguments Z.shiftr : simpl never.
Local Arguments Z.pow : simpl never.

(* split conjunctions only (never records such as [wf]) *)
Ltac csplit := repeat match goal with |- _ /\ _ => split end.

Lemma adv_ne l l' t : nonempty l = nonempty l' -> adv l t = adv l' t.
Proof. unfold adv. intros ->. reflexivity. Qed.
Lemma adv_none t : adv None t = t. Proof. reflexivity. Qed.
Lemma adv_some x t : adv (Some x) t = nxt t. Proof. reflexivity. Qed.

Section Stages.
Variable P : list instr.
Hypothesis Hsup : Forall (fun i => supported i = true) P.

Lemma instr_at_In a i : instr_at P a = Some i -> In i P.
Proof.
  unfold instr_at. destruct (_ && _); [|discriminate]. apply nth_error_In.
Qed.
Lemma instr_supported a i : instr_at P a = Some i -> supported i = true.
Proof. intros H. rewrite Forall_forall in Hsup. apply Hsup. eapply instr_at_In; eauto. Qed.

(** * WB *)
Lemma wb_stage s l3 s1 : prog (im s) = P -> lv3 P s l3 -> wf s -> exitc s = None ->
  regs s1 = regs s ->
  exists s2, wb_on l3 s1 = (option_map wb_slot l3, s2, None) /\
    flush_of (option_map wb_slot l3) = None /\
    regs s2 = regs (adv l3 s) /\ ms s2 = ms s1 /\ out s2 = out s1 /\ bcount s2 = bcount s1 /\
    pcount s2 = pcount s1 /\ exitc s2 = exitc s1 /\ pc s2 = pc s1 /\ im s2 = im s1 /\
    icount s2 - icount s1 = icount (adv l3 s) - icount s /\
    wf (adv l3 s) /\ prog (im (adv l3 s)) = P /\ exitc (adv l3 s) = None.
Proof.
  intros HP L3 W Hex Hr. destruct l3 as [x3|].
  2:{ exists s1. rewrite wb_on_none. cbn [option_map flush_of adv nonempty]. csplit; try assumption; try reflexivity; lia. }
  cbn [lv3] in L3. destruct L3 as (_ & (_ & Ha & Hi) & (e & te & tm & He & Hm) & Hok & Hex1).
  rewrite <- HP in Hi. pose proof (instr_supported _ _ ltac:(rewrite <- HP; exact Hi)) as Hs.
  destruct (nxt_fields s _ W Hex Hi Hs _ _ _ _ He Hm) as (_ & Hrg & _ & _ & Hexn & _ & _ & Hic & _).
  destruct (wb_never_faults s _ _ _ _ _ _ s1 Hs He Hm) as [s2 Hw]. exists s2.
  assert (Hx3 : sl_exit x3 = None).
  { rewrite Hexn in Hex1. destruct (sl_exit x3); [discriminate|reflexivity]. }
  pose proof (wb_on_regs _ _ _ _ Hw) as Hr2. pose proof (wb_on_exitc _ _ _ _ Hw) as Hx2.
  pose proof (wb_on_law _ _ _ _ _ Hw) as ((Hpc & Him & _) & Hms & Hout & Hbc & Hpcn & _ & Hic2).
  pose proof (mem_on_law _ _ _ _ _ Hm) as (_ & Hr3 & _).
  pose proof (ex_on_law _ _ _ _ _ _ _ He) as (_ & Hr4 & _).
  destruct (wf_nxt s _ W Hex Hi) as [Wn Hpn].
  cbn [option_map adv nonempty flush_of wb_slot sl_flush]. split; [exact Hw|].
  split; [unfold wb_flush; rewrite Hx3; reflexivity|].
  split; [rewrite Hr2, Hrg; apply wb_regs_ext; rewrite Hr, Hr3, Hr4; reflexivity|].
  rewrite Hx3 in Hx2. cbn [nonempty] in Hic2.
  csplit; try assumption; try congruence. lia.
Qed.



(** * EX never changes a flat memory *)
Lemma read_cstring_flat f : forall s m a acc, ms s = MFlat m -> snd (read_cstring f s a acc) = s.
Proof.
  induction f as [|f IH]; intros s m a acc Hm; cbn [read_cstring]; [reflexivity|].
  rewrite (st_read_flat s m) by exact Hm.
  destruct (mem_read rv_memcfg m 8 a) as [b|e]; [|reflexivity].
  destruct (b =? 0); [reflexivity|]. eapply IH; eauto.
Qed.
Lemma process_ecall_flat s m : ms s = MFlat m -> snd (process_ecall s) = s.
Proof.
  intros Hm. unfold process_ecall.
  repeat match goal with |- context [if ?c then _ else _] => destruct c end; try reflexivity.
  pose proof (read_cstring_flat (cstring_fuel s) s m (rget s 10) [] Hm) as H.
  destruct (read_cstring _ _ _ _) as [[t|e] s1]; cbn [snd] in *; exact H.
Qed.
Lemma ex_on_ms_flat x l2 l3 s m n s1 e : ms s = MFlat m -> ex_on x l2 l3 s = (n, s1, e) -> ms s1 = ms s.
Proof.
  intros Hm. destruct x as [y|]; [rewrite ex_on_some|rewrite ex_on_none; intros H; inv H; reflexivity].
  destruct (alu_compute _ _ _) as [[cmp res]|e0]; [|intros H; inv H; reflexivity].
  destruct (is_ecall _); [|intros H; inv H; reflexivity].
  destruct (ex_busy _ _ _); [intros H; inv H; reflexivity|].
  pose proof (process_ecall_flat s m Hm) as Hp.
  destruct (process_ecall s) as [[[t|c]|e0] s2]; cbn [snd] in Hp; subst s2; intros H; inv H; reflexivity.
Qed.

(** * MEM *)
Lemma mem_stage (bar : Prop) t l2 s3 n3 s4 oe : prog (im t) = P -> lv P True bar t l2 Eok ->
  fired l2 = nonempty l2 -> ms s3 = ms t -> mem_on l2 s3 = (n3, s4, oe) ->
  regs s4 = regs s3 /\ out s4 = out s3 /\ exitc s4 = exitc s3 /\ icount s4 = icount s3 /\
  pc s4 = pc s3 /\ im s4 = im s3 /\
  match oe with
  | Some e => exists x2 tm, l2 = Some x2 /\
       single_pipeline_step t = (tm, Some (mkfault (sl_addr x2) (sl_instr x2) e)) /\
       ms s4 = ms tm /\ regs tm = regs t
  | None =>
       nonempty n3 = nonempty l2 /\ ms s4 = ms (adv l2 t) /\ has_stall n3 = false /\
       bcount s4 - bcount s3 = bcount (adv l2 t) - bcount t /\
       pcount s4 - pcount s3 = pcount (adv l2 t) - pcount t /\
       match l2, n3 with
       | Some x2, Some x3 =>
           Mok t x3 /\ sl_instr x3 = sl_instr x2 /\ sl_addr x3 = sl_addr x2 /\
           sl_flush x3 = mem_flush x2 /\ sl_exit x3 = sl_exit x2 /\
           snd (single_pipeline_step t) = None /\
           exitc (nxt t) = match sl_exit x3 with Some c => Some c | None => None end /\
           pc (nxt t) = match sl_flush x3 with Some a => a | None => pc t + 4 end
       | None, None => True
       | _, _ => False
       end
  end.
Proof.
  intros HP L2 Hf Hms Hm.
  pose proof (mem_on_law _ _ _ _ _ Hm) as ((Hpc & Him & _) & Hrg & Hout & Hex & Hic & Hbc & Hpcn).
  do 6 (split; [assumption|]).
  destruct l2 as [x2|].
  2:{ rewrite mem_on_none in Hm. inv Hm. cbn [adv nonempty has_stall]. csplit; first [reflexivity | lia | assumption | exact Logic.I]. }
  cbn [lv] in L2. destruct (L2 Logic.I) as (W & (Hext & Ha & Hi) & He & _).
  cbn [fired nonempty] in Hf. unfold Eok in He. destruct (sl_stall x2); [discriminate Hf|].
  destruct He as [te He]. rewrite <- HP in Hi. pose proof (instr_supported _ _ ltac:(rewrite <- HP; exact Hi)) as Hs.
  destruct (wf_flat _ (wf_pre t W)) as [m Hfl].
  pose proof (ex_on_ms_flat _ _ _ _ _ _ _ _ Hfl He) as Hmte.
  pose proof (ex_on_law _ _ _ _ _ _ _ He) as (_ & Hrte & _ & _ & Hbte & Hpte & _).
  assert (Hms' : ms s3 = ms te) by (rewrite Hmte, Hms; reflexivity).
  destruct (mem_on_cong _ _ _ _ _ _ Hms' Hm) as (tm & Hm' & Hmtm).
  destruct oe as [e|].
  - exists x2, tm. split; [reflexivity|]. rewrite Ha.
    split; [exact (stages_mem_fault t _ W Hi Hs _ _ _ _ _ He Hm')|]. split; [symmetry; exact Hmtm|].
    pose proof (mem_on_law _ _ _ _ _ Hm') as (_ & Hr5 & _). rewrite Hr5, Hrte. reflexivity.
  - pose proof (mem_on_shape _ _ _ _ Hm) as [rd ->].
    destruct (nxt_fields t _ W Hext Hi Hs _ _ _ _ He Hm') as (Hok & _ & Hmn & _ & Hexn & Hbn & Hpn & _ & Hpcn2).
    pose proof (mem_on_law _ _ _ _ _ Hm') as (_ & _ & _ & _ & _ & Hbc' & Hpcn').
    cbn [adv nonempty has_stall mem_slot sl_stall].
    split; [reflexivity|]. split; [congruence|]. split; [reflexivity|].
    change (bcount (pre t)) with (bcount t) in Hbte. change (pcount (pre t)) with (pcount t) in Hpte.
    split; [lia|]. split; [lia|].
    split; [exists x2, te, tm; split; [exact He|exact Hm']|].
    csplit; try reflexivity; assumption.
Qed.


(** * EX of anything but an ecall *)
Lemma ex_stage x1 l2 l3 s : Dsh x1 -> supported (sl_instr x1) = true -> is_ecall (sl_instr x1) = false ->
  exists x2, ex_on (Some x1) l2 l3 s = (Some x2, s, None) /\
    sl_instr x2 = sl_instr x1 /\ sl_addr x2 = sl_addr x1 /\
    sl_stall x2 = false /\ sl_flush x2 = None /\ sl_exit x2 = None /\
    forall t, Dok t x1 -> Eok t x2.
Proof.
  intros (s0 & b & Hx) Hs Hec.
  assert (Hex : exists x2, ex_on (Some x1) l2 l3 s = (Some x2, s, None) /\
            sl_instr x2 = sl_instr x1 /\ sl_addr x2 = sl_addr x1 /\
            sl_stall x2 = false /\ sl_flush x2 = None /\ sl_exit x2 = None).
  { rewrite ex_on_some, Hec.
    remember (sl_instr x1) as i eqn:Ei. remember (sl_addr x1) as a eqn:Ea.
    assert (Hal : exists cmp res, alu_compute i (ex_in1 x1) (ex_in2 x1) = Ok (cmp, res)).
    { rewrite Hx. destruct i; try discriminate Hs; try discriminate Hec; cbn; do 2 eexists; reflexivity. }
    destruct Hal as (cmp & res & ->). eexists. split; [reflexivity|].
    cbn [ex_slot sl_instr sl_addr sl_stall sl_flush sl_exit]. rewrite <- Ei, <- Ea. repeat split. }
  destruct Hex as (x2 & He & Hi2 & Ha2 & Hst2 & Hf2 & Hx2). exists x2.
  do 6 (split; [assumption|]).
  intros t [b' Hd]. unfold Eok. rewrite Hst2, Hi2.
  rewrite Hd in He. rewrite (ex_on_nonecall _ b' l2 l3 s (pre t)) in He by exact Hec.
  destruct (ex_on (Some (dsl t (sl_instr x1))) None None (pre t)) as [[n te] oe] eqn:E.
  cbn [fst snd] in He. injection He as -> ->.
  pose proof (ex_on_nonecall_state (dsl t (sl_instr x1)) _ _ _ _ Hec E) as ->. exists (pre t). reflexivity.
Qed.


(** * ID *)
(* an on-path slot whose single-cycle step does not fault *)
Definition okl (t : st) (l : latch) : Prop :=
  match l with
  | None => True
  | Some x => wf t /\ onp P t x /\ snd (single_pipeline_step t) = None
  end.

Lemma adv_regs_other t l r : prog (im t) = P -> okl t l -> r = 0 \/ latch_wreg l <> Some r ->
  mget (regs (adv l t)) r = mget (regs t) r.
Proof.
  intros HP Hl Hr. destruct l as [x|]; [|reflexivity].
  destruct Hl as (W & (Hex & _ & Hi) & Hok). cbn [adv nonempty latch_wreg] in *.
  rewrite <- HP in Hi. apply (nxt_regs_other t (sl_instr x) W Hi); try assumption.
  apply (instr_supported (pc t)). rewrite <- HP. exact Hi.
Qed.

Lemma id_stall_false i w1 w2 s r : id_stall true i w1 w2 s = false ->
  rf_ra1 i s = Some r \/ rf_ra2 i s = Some r -> (r = 0 \/ w1 <> Some r) /\ (r = 0 \/ w2 <> Some r).
Proof.
  unfold id_stall. cbn [andb]. intros H Hr. apply Bool.orb_false_iff in H. destruct H as [H1 H2].
  split; eapply hazard_with_false; eauto.
Qed.

(* a decode that raises no stall signal has read the operands of its own pre-state *)
Lemma id_operands t2 l2 l1 y s2 :
  prog (im t2) = P -> prog (im (adv l2 t2)) = P ->
  regs s2 = regs t2 -> okl t2 l2 -> okl (adv l2 t2) l1 ->
  sl_addr y = pc (adv l1 (adv l2 t2)) ->
  id_stall true (sl_instr y) (latch_wreg l1) (latch_wreg l2) s2 = false ->
  Dok (adv l1 (adv l2 t2)) (id_slot true y (latch_wreg l1) (latch_wreg l2) s2).
Proof.
  intros HP2 HP1 Hr O2 O1 Ha Hst. unfold Dok. eexists.
  change (sl_instr (id_slot true y (latch_wreg l1) (latch_wreg l2) s2)) with (sl_instr y).
  apply id_slot_agree; [|exact Ha].
  intros r Hra. destruct (id_stall_false _ _ _ _ _ Hst Hra) as [H1 H2].
  unfold rget. rewrite (adv_regs_other _ l1 r HP1 O1 H1), (adv_regs_other _ l2 r HP2 O2 H2).
  rewrite Hr. reflexivity.
Qed.

(* the same when nothing older is in flight between the registers read and the slot *)
Lemma id_operands_exact t y hz w1 w2 s2 : regs s2 = regs t -> sl_addr y = pc t ->
  Dok t (id_slot hz y w1 w2 s2).
Proof.
  intros Hr Ha. unfold Dok. eexists.
  change (sl_instr (id_slot hz y w1 w2 s2)) with (sl_instr y).
  apply id_slot_agree; [|exact Ha]. intros r _. unfold rget. rewrite Hr. reflexivity.
Qed.

Lemma id_slot_Dsh hz y w1 w2 s : Dsh (id_slot hz y w1 w2 s).
Proof. exists s, (id_stall hz (sl_instr y) w1 w2 s). reflexivity. Qed.


(** * A plain step goes to the sequential successor *)
Lemma behavior_pc i s : redirects i s = false -> pc (fst (behavior i s)) = pc s.
Proof.
  intros Hr. destruct i; cbn [behavior redirects] in *; try discriminate Hr; try reflexivity;
    cbn [fst]; rewrite ?pc_rset; try reflexivity.
  - match goal with |- context [st_read ?a ?b ?c ?d] =>
      destruct (st_read a b c d) as [[v|e] s'] eqn:E end;
      apply st_read_mframe, mframe_pc in E; cbn [fst]; rewrite ?pc_rset; exact E.
  - destruct (process_ecall s) as [[[t|c]|e] s'] eqn:E;
      apply process_ecall_mframe, mframe_pc in E; cbn [fst]; exact E.
  - match goal with |- context [st_write ?a ?b ?c ?d ?g] =>
      destruct (st_write a b c d g) as [[e|] s'] eqn:E end;
      apply st_write_mframe, mframe_pc in E; cbn [fst]; exact E.
  - rewrite Hr. reflexivity.
Qed.

Lemma plain_pc t i : wf t -> instr_at (prog (im t)) (pc t) = Some i -> plain t i -> pc (nxt t) = pc t + 4.
Proof.
  intros W Hi (Hok & _ & Hr). unfold nxt in *. rewrite (sstep_eq t i W Hi) in *.
  pose proof (behavior_pc i (pre t) Hr) as Hp.
  destruct (behavior i (pre t)) as [s2 [e|]]; [discriminate Hok|]. cbn [fst] in *. stf.
  rewrite Hp. reflexivity.
Qed.

(** * IF *)
Lemma if_stage s0 : no_icache (im s0) -> prog (im s0) = P ->
  exists n0 s1, stage_if s0 = (n0, s1) /\
    regs s1 = regs s0 /\ ms s1 = ms s0 /\ out s1 = out s0 /\ exitc s1 = exitc s0 /\
    icount s1 = icount s0 /\ bcount s1 = bcount s0 /\ pcount s1 = pcount s0 /\
    prog (im s1) = P /\ no_icache (im s1) /\ has_stall n0 = false /\ flush_of n0 = None /\
    match n0 with
    | None => pc s1 = pc s0 /\ instr_at P (pc s0) = None
    | Some x => pc s1 = pc s0 + 4 /\ sl_addr x = pc s0 /\ instr_at P (pc s0) = Some (sl_instr x) /\
                x = slot_if (sl_instr x) (sl_addr x)
    end.
Proof.
  intros Hic HP. destruct (stage_if s0) as [n0 s1] eqn:HIF. exists n0, s1. split; [reflexivity|].
  pose proof (stage_if_flags _ _ _ HIF) as [Hs0 Hf0].
  destruct (stage_if_ok no_icache _ _ _ no_icache_faithful Hic HIF) as (Hic1 & Hp1 & H0 & Hne & _).
  apply stage_if_law in HIF.
  destruct HIF as (Hrg & Hms & Hout & Hex & Hicn & Hbc & Hpcn & _ & _ & _ & _ & _ & _ & Hcase).
  do 7 (split; [assumption|]). split; [congruence|]. do 3 (split; [assumption|]).
  unfold has_instr in Hne. rewrite HP in *.
  destruct Hcase as [[-> Hpc]|(i & -> & Hpc & _)].
  - split; [exact Hpc|]. cbn [nonempty] in Hne. destruct (instr_at P (pc s0)); [discriminate|reflexivity].
  - destruct H0 as [R E]. unfold real in R. cbn [slot_if sl_addr sl_instr] in *.
    repeat split; assumption.
Qed.


Lemma plain_dec t i : plain t i \/ ~ plain t i.
Proof.
  unfold plain. destruct (snd (single_pipeline_step t)); [right; intros [H _]; discriminate|].
  destruct (exitc (nxt t)); [right; intros (_ & H & _); discriminate|].
  destruct (redirects i t); [right; intros (_ & _ & H); discriminate|]. left; repeat split.
Qed.

(* a decode stall needs an older instruction in latch 1 or 2 *)
Lemma has_stall_id_needs hz l0 l1 l2 s : has_stall (id_on hz l0 l1 l2 s) = true ->
  nonempty l0 = true /\ (nonempty l1 = true \/ nonempty l2 = true).
Proof.
  destruct l0 as [y|]; [|discriminate]. rewrite id_on_some. cbn [has_stall id_slot sl_stall nonempty].
  unfold id_stall. intros H. split; [reflexivity|].
  destruct l1 as [x1|]; [left; reflexivity|]. destruct l2 as [x2|]; [right; reflexivity|].
  cbn [latch_wreg hazard_with orb] in H. rewrite Bool.andb_false_r in H. discriminate.
Qed.


(** * Moving a slot description from one latch to the next *)
Definition same_slot (t : st) (live' : Prop) (C C' : slot -> Prop) (l n : latch) : Prop :=
  match l, n with
  | Some x, Some y => sl_instr y = sl_instr x /\ sl_addr y = sl_addr x /\
                      (live' -> wf t -> onp P t x -> C x -> C' y)
  | None, None => True
  | _, _ => False
  end.

Lemma lv_map (live bar live' bar' : Prop) t l n (C C' : st -> slot -> Prop) :
  lv P live bar t l C -> (live' -> live) -> (bar' -> bar) -> (live' -> bar -> bar') ->
  same_slot t live' (C t) (C' t) l n -> lv P live' bar' t n C'.
Proof.
  intros L Hl Hb Hb' S. destruct l as [x|], n as [y|]; cbn [same_slot] in S; try contradiction.
  - destruct S as (Hi & Ha & HC). cbn [lv] in *. intros Hlv'.
    destruct (L (Hl Hlv')) as (W & Hon & Hc & Hbar & Hpl). pose proof Hon as (Hex & Hax & Hix).
    split; [exact W|]. split; [unfold onp; rewrite Hi, Ha; repeat split; assumption|].
    split; [apply HC; assumption|]. rewrite Hi. split.
    + intros B'. apply Hbar. apply Hb. exact B'.
    + intros NB'. apply Hpl. intros B. apply NB'. apply Hb'; assumption.
  - cbn [lv] in *. intros B'. apply L. apply Hb. exact B'.
Qed.

Lemma nonempty_id_on hz l0 l1 l2 s : nonempty (id_on hz l0 l1 l2 s) = nonempty l0.
Proof. destruct l0; [rewrite id_on_some|]; reflexivity. Qed.

Lemma same_slot_nonempty t lv' C C' l n : same_slot t lv' C C' l n -> nonempty n = nonempty l.
Proof. destruct l, n; cbn; tauto. Qed.


(** * The slot IF has just fetched *)
Lemma new_fetch dead tF n0 pc0 pc1 :
  (dead = 0%nat -> wf tF /\ prog (im tF) = P /\ exitc tF = None /\ pc0 = pc tF) ->
  match n0 with
  | Some x => pc1 = pc0 + 4 /\ sl_addr x = pc0 /\ instr_at P pc0 = Some (sl_instr x)
  | None => pc1 = pc0
  end ->
  exists dead', ((dead <> 0%nat /\ dead' = S dead) \/ (dead = 0%nat /\ (dead' <= 1)%nat)) /\
    lv P (dead' <= 1)%nat (dead' = 1%nat) tF n0 (fun _ _ => True) /\
    (dead' = 0%nat -> wf (adv n0 tF) /\ prog (im (adv n0 tF)) = P /\ exitc (adv n0 tF) = None /\
                      pc1 = pc (adv n0 tF)).
Proof.
  intros HF Hn0. destruct dead as [|d].
  2:{ exists (S (S d)). split; [left; split; [discriminate|reflexivity]|].
      split; [|intros H; discriminate H]. destruct n0; cbn [lv]; intros H; lia. }
  destruct (HF eq_refl) as (W & HP & Hex & Hpc). destruct n0 as [x|].
  2:{ exists 0%nat. split; [right; split; [reflexivity|lia]|]. split; [cbn [lv]; lia|].
      intros _. cbn [adv nonempty]. csplit; try assumption. congruence. }
  destruct Hn0 as (Hp1 & Ha & Hi). rewrite Hpc in Ha, Hi.
  assert (Hon : onp P tF x) by (repeat split; assumption).
  pose proof Hi as Hi'. rewrite <- HP in Hi'.
  destruct (plain_dec tF (sl_instr x)) as [Hpl|Hnp].
  - exists 0%nat. split; [right; split; [reflexivity|lia]|]. split.
    + cbn [lv]. intros _. split; [exact W|]. split; [exact Hon|]. split; [exact Logic.I|].
      split; [intros H; discriminate H|intros _; exact Hpl].
    + intros _. cbn [adv nonempty]. destruct (wf_nxt tF _ W Hex Hi') as [Wn Hpn].
      split; [exact Wn|]. split; [congruence|]. split; [apply Hpl|].
      rewrite (plain_pc tF _ W Hi' Hpl). lia.
  - exists 1%nat. split; [right; split; [reflexivity|lia]|]. split; [|intros H; discriminate H].
    cbn [lv]. intros _. split; [exact W|]. split; [exact Hon|]. split; [exact Logic.I|].
    split; [intros _; exact Hnp|intros H; exfalso; apply H; reflexivity].
Qed.

Lemma adv_prog t l : prog (im t) = P -> wf t ->
  match l with Some x => onp P t x | None => True end ->
  prog (im (adv l t)) = P /\ wf (adv l t).
Proof.
  intros HP W Hl. destruct l as [x|]; [|split; assumption]. destruct Hl as (Hex & _ & Hi).
  rewrite <- HP in Hi. destruct (wf_nxt t _ W Hex Hi) as [Wn Hpn]. cbn [adv nonempty].
  split; [congruence|exact Wn].
Qed.


(** * The pipeline is done exactly when the single-cycle machine is *)
Lemma done_iff p s l0 l1 l2 l3 l4 dead : InvAt P p s l0 l1 l2 l3 l4 dead ->
  pipe_done p = single_done s.
Proof.
  intros [Hl Sh Hz HPp HPs W Hexs Hd D1 L3 L2 L1 L0 HF Hrg Hms Hbc Hpcn Hout Hexc Hic].
  unfold pipe_done, single_done, pipe_empty, has_instr. rewrite Hexc, Hexs, Hl, HPp, HPs. lat5.
  assert (Hon : forall x, onp P s x -> instr_at P (pc s) <> None).
  { intros x (_ & _ & Hi). rewrite Hi. discriminate. }
  destruct l3 as [x3|]; cbn [nonempty orb negb andb adv lv3] in *.
  { rewrite Bool.orb_true_r. cbn [negb andb]. destruct L3 as (_ & Ho & _).
    apply Hon in Ho. destruct (instr_at P (pc s)); [reflexivity|congruence]. }
  destruct l2 as [x2|]; cbn [nonempty orb negb andb adv lv] in *.
  { rewrite Bool.orb_true_r. cbn [negb andb]. destruct (L2 Logic.I) as (_ & Ho & _).
    apply Hon in Ho. destruct (instr_at P (pc s)); [reflexivity|congruence]. }
  destruct l1 as [x1|]; cbn [nonempty orb negb andb adv lv] in *.
  { rewrite Bool.orb_true_r. cbn [negb andb]. destruct (L1 ltac:(lia)) as (_ & Ho & _).
    apply Hon in Ho. destruct (instr_at P (pc s)); [reflexivity|congruence]. }
  destruct l0 as [x0|]; cbn [nonempty orb negb andb adv lv] in *.
  { destruct (L0 ltac:(lia)) as (_ & Ho & _).
    apply Hon in Ho. destruct (instr_at P (pc s)); [reflexivity|congruence]. }
  assert (H0 : dead = 0%nat) by lia. destruct (HF H0) as (_ & _ & _ & Hpc). rewrite Hpc. reflexivity.
Qed.

(* the architectural state of an empty pipeline *)
Lemma inv_empty_agree p s l0 l1 l4 dead : InvAt P p s l0 l1 None None l4 dead -> arch_agree p s.
Proof.
  intros [Hl Sh Hz HPp HPs W Hexs Hd D1 L3 L2 L1 L0 HF Hrg Hms Hbc Hpcn Hout Hexc Hic].
  cbn [adv nonempty fired] in *. unfold arch_agree. rewrite Hexc, Hexs. repeat split; assumption.
Qed.


Lemma done_empty p s l0 l1 l2 l3 l4 dead : InvAt P p s l0 l1 l2 l3 l4 dead ->
  single_done s = true -> l3 = None /\ l2 = None.
Proof.
  intros [Hl Sh Hz HPp HPs W Hexs Hd D1 L3 L2 L1 L0 HF Hrg Hms Hbc Hpcn Hout Hexc Hic] Hdone.
  unfold single_done, has_instr in Hdone. rewrite Hexs, HPs in Hdone.
  assert (Hon : forall x, onp P s x -> False).
  { intros x (_ & _ & Hi). rewrite Hi in Hdone. discriminate. }
  destruct l3 as [x3|]; [exfalso; destruct L3 as (_ & Ho & _); eauto|].
  split; [reflexivity|]. cbn [adv nonempty] in L2.
  destruct l2 as [x2|]; [exfalso; destruct (L2 Logic.I) as (_ & Ho & _); eauto|reflexivity].
Qed.

End Stages.
