(* FlagOffSim.v — property C08, phase B, part 2: for a [dep_free_weak] program the pipeline with
   hazard detection OFF runs in lock step with the pipeline with hazard detection ON.

   [erase p]   p with the hazards flag switched off and the (then meaningless) decode-stage stall
               flag of latch 1 / skid register 1 cleared
   [K P p]     invariant of the flag-ON pipeline on a dep_free_weak program P: [Shape], the
               in-flight slots of latches 0,1,2 sit at consecutive addresses, the next fetch
               address follows latch 0, and the pipeline is never stalled at ID
   [erase_step]  under K, [pipe_step (erase p)] = [erase] of [pipe_step p], and K is kept. *)
From Coq Require Import Lia ZifyBool.
From ArchSim Require Import Model.Base Model.Mem Model.Cache Model.Fmt Model.RV Model.Single
  Model.RVSplit Model.Pipe Proofs.PipeLaws Proofs.PipeShape Proofs.PipeInv Proofs.FlagOffDep.
Open Scope Z_scope.

Local Arguments Z.mul : simpl never.
Local Arguments Z.add : simpl never.
Local Arguments Z.sub : simpl never.

(** * Erasing the decode-stage stall flag *)
Definition un (l : latch) : latch := option_map (fun x => set_stall x false) l.
Definition clr1 (l : list latch) : list latch :=
  match l with a :: b :: t => a :: un b :: t | _ => l end.
Definition erase (p : pstate) : pstate :=
  {| pst := pst p; lat := clr1 (lat p); stalled := stalled p;
     saved := option_map clr1 (saved p); hazards := false |}.

Lemma un_nonempty l : nonempty (un l) = nonempty l. Proof. destruct l; reflexivity. Qed.
Lemma un_flush l : flush_of (un l) = flush_of l. Proof. destruct l; reflexivity. Qed.
Lemma un_wreg l : latch_wreg (un l) = latch_wreg l. Proof. destruct l; reflexivity. Qed.
Lemma un_stall l : has_stall (un l) = false. Proof. destruct l; reflexivity. Qed.
Lemma un_mark l : mark_saved (un l) = un (mark_saved l). Proof. destruct l; reflexivity. Qed.
Lemma un_fault l e : fault_at (un l) e = fault_at l e. Proof. destruct l; reflexivity. Qed.
Lemma un_idem l : has_stall l = false -> un l = l.
Proof. destruct l as [x|]; [|reflexivity]. cbn [has_stall un option_map]. intros H. destruct x; cbn in *. subst. reflexivity. Qed.

Lemma un_ex x l2 l3 s : ex_on (un x) l2 l3 s = ex_on x l2 l3 s.
Proof. destruct x as [y|]; [|reflexivity]. cbn [un option_map]. rewrite !ex_on_some. reflexivity. Qed.

Lemma un_id hz x a b a' b' s : id_on false x a b s = un (id_on hz x a' b' s).
Proof. destruct x as [y|]; [|reflexivity]. rewrite !id_on_some. reflexivity. Qed.

(** the stages on erased latches *)
Definition er3 (r : list latch * st * option fault) : list latch * st * option fault :=
  let '(next, s, f) := r in (clr1 next, s, f).

Lemma run_normal_erase l0 l1 l2 l3 s :
  run_normal false l0 (un l1) l2 l3 s = er3 (run_normal true l0 l1 l2 l3 s).
Proof.
  unfold run_normal.
  destruct (stage_if s) as [n0 s1]. destruct (wb_on l3 s1) as [[n4 s2] [e|]]; [reflexivity|].
  rewrite un_ex, (un_id true l0 (un l1) l2 l1 l2).
  destruct (ex_on l1 l2 l3 s2) as [[n2 s3] [e|]]; [rewrite un_fault; reflexivity|].
  destruct (mem_on l2 s3) as [[n3 s4] [e|]]; reflexivity.
Qed.

Lemma run_stall2_erase m0 y1 l0 l1 l2 l3 s :
  run_stall2 false m0 (un y1) l0 (un l1) l2 l3 s = er3 (run_stall2 true m0 y1 l0 l1 l2 l3 s).
Proof.
  unfold run_stall2.
  destruct (wb_on l3 s) as [[n4 s2] [e|]]; [reflexivity|].
  rewrite un_ex, (un_id true m0 (un l1) l2 l1 l2).
  destruct (ex_on y1 l2 l3 s2) as [[n2 s3] [e|]]; [rewrite un_fault|]; reflexivity.
Qed.

(** * [post] on erased latches *)
Lemma clr1_first_flush next : first_flush (clr1 next) = first_flush next.
Proof.
  destruct next as [|a [|b t]]; try reflexivity. unfold first_flush, clr1.
  replace (flush_of (lat_at (a :: un b :: t) 1)) with (flush_of (lat_at (a :: b :: t) 1))
    by (symmetry; apply (un_flush b)). reflexivity.
Qed.

Lemma clr1_clear_prefix next n : clear_prefix (clr1 next) n = clr1 (clear_prefix next n).
Proof. destruct next as [|a [|b t]], n as [|[|n]]; reflexivity. Qed.

Lemma clr1_saved l n : map mark_saved (firstn n (clr1 l)) = clr1 (map mark_saved (firstn n l)).
Proof. destruct l as [|a [|b t]], n as [|[|n]]; try reflexivity. cbn [clr1 firstn map]. rewrite un_mark. reflexivity. Qed.

Lemma post_erase p next s : new_stall (clr1 next) (stalled p) = new_stall next (stalled p) ->
  post (erase p) (clr1 next) s = erase (post p next s).
Proof.
  intros Hn. unfold post, stall_part, flush_part. cbn [erase stalled saved lat hazards].
  rewrite Hn, clr1_first_flush.
  destruct (new_stall next (stalled p)) as [i|]; cbv beta iota zeta.
  - change (3 - 1 =? 0) with false. cbv iota.
    destruct (saved p) as [sv|]; cbn [option_map]; rewrite ?clr1_saved;
      destruct (first_flush next) as [[j a]|]; try reflexivity;
      rewrite clr1_clear_prefix; destruct (i <? j); reflexivity.
  - destruct (stalled p) as [[k d]|].
    + destruct (saved p) as [sv|]; cbn [option_map]; rewrite ?clr1_saved; destruct (d - 1 =? 0);
        destruct (first_flush next) as [[j a]|]; try reflexivity;
        rewrite clr1_clear_prefix; try reflexivity; destruct (k <? j); reflexivity.
    + destruct (first_flush next) as [[j a]|]; [rewrite clr1_clear_prefix|]; reflexivity.
Qed.

Lemma finish_erase p r :
  (forall next s, r = (next, s, None) -> new_stall (clr1 next) (stalled p) = new_stall next (stalled p)) ->
  finish (erase p) (er3 r) = (erase (fst (finish p r)), snd (finish p r)).
Proof.
  destruct r as [[next s] [f|]]; intros H; cbn [er3 finish fst snd]; [reflexivity|].
  rewrite post_erase by (apply (H next s); reflexivity). reflexivity.
Qed.

(** * The invariant *)
Definition adj (a b : latch) : Prop :=
  match a, b with Some x, Some y => sl_addr y + 4 = sl_addr x | _, _ => True end.
Definition pcn (a : latch) (pc0 : Z) : Prop :=
  match a with Some x => pc0 = sl_addr x + 4 | None => True end.
Definition J (p : pstate) : Prop :=
  pcn (lat_at (lat p) 0) (pc (pst p)) /\ adj (lat_at (lat p) 0) (lat_at (lat p) 1) /\
  adj (lat_at (lat p) 1) (lat_at (lat p) 2).
Definition nost1 (p : pstate) : Prop := forall d, stalled p <> Some (1, d).

Record K (P : list instr) (p : pstate) : Prop := mkK {
  k_hz : hazards p = true;
  k_sh : Shape no_icache p;
  k_prog : prog (im (pst p)) = P;
  k_j : J p;
  k_ns : nost1 p }.

Lemma K_init P s : icc (im s) = None -> prog (im s) = P -> K P (pipe_init s true).
Proof.
  intros Hic HP. constructor; cbn [pipe_init hazards pst]; try assumption; try reflexivity.
  - apply shape_init. exact Hic.
  - repeat split.
  - intros d H; discriminate H.
Qed.

(** * Generic facts about [post] *)
Lemma J_post p next s n0 n1 n2 n3 n4 : next = [n0; n1; n2; n3; n4] ->
  flush_of n0 = None -> flush_of n1 = None ->
  pcn n0 (pc s) -> adj n0 n1 -> adj n1 n2 -> J (post p next s).
Proof.
  intros -> F0 F1 Hp A01 A12. unfold J. rewrite post_lat, post_pst. unfold flush_st.
  destruct (first_flush [n0; n1; n2; n3; n4]) as [[i a]|] eqn:Hff.
  - rewrite first_flush_5 in Hff by assumption.
    assert (Hi : i = 2 \/ i = 3 \/ i = 4).
    { destruct (flush_of n4); [inv Hff; auto|]. destruct (flush_of n3); [inv Hff; auto|].
      destruct (flush_of n2); inv Hff; auto. }
    destruct Hi as [->|[->| ->]]; repeat split.
  - lat5. unfold stall_st. destruct (new_stall _ _); stf; repeat split; assumption.
Qed.

Lemma nost1_post p next s : nost1 p -> new_stall next (stalled p) <> Some 1 -> nost1 (post p next s).
Proof.
  intros Hn Hs d. destruct (stall_part (stalled p) (saved p) (lat p) next s) as [[stl2 sv2] s1] eqn:E.
  destruct (post_stalled_saved p next s _ _ _ E) as [-> _].
  unfold stall_part in E. destruct (new_stall next (stalled p)) as [i|].
  - cbv beta iota zeta in E. change (3 - 1 =? 0) with false in E. cbv iota in E.
    injection E as <- _ _. destruct (flush_cancels next i); [discriminate|].
    intros H. injection H as -> _. apply Hs; reflexivity.
  - destruct (stalled p) as [[k d0]|] eqn:Est; cbv beta iota zeta in E.
    + destruct (d0 - 1 =? 0); injection E as <- _ _; [discriminate|].
      destruct (flush_cancels next k); [discriminate|]. intros H. injection H as -> _. exact (Hn d0 Est).
    + injection E as <- _ _. discriminate.
Qed.

(** * What the stages do to addresses *)
Lemma run_normal_pc hz l0 l1 l2 l3 s0 next s f : run_normal hz l0 l1 l2 l3 s0 = (next, s, f) ->
  match lat_at next 0 with
  | Some x => sl_addr x = pc s0 /\ pc s = pc s0 + 4
  | None => pc s = pc s0
  end.
Proof.
  unfold run_normal. destruct (stage_if s0) as [n0 s1] eqn:HIF.
  apply stage_if_law in HIF. destruct HIF as (_ & _ & _ & _ & _ & _ & _ & _ & _ & _ & _ & _ & _ & HIF).
  assert (G : forall t, pc t = pc s1 ->
            match n0 with Some x => sl_addr x = pc s0 /\ pc t = pc s0 + 4 | None => pc t = pc s0 end).
  { intros t Ht. destruct HIF as [[-> E]|(i & -> & E & _)]; [congruence|]. cbn [slot_if sl_addr]. split; congruence. }
  destruct (wb_on l3 s1) as [[n4 s2] e4] eqn:HWB. apply wb_on_law in HWB. destruct HWB as ((P2 & _) & _).
  destruct e4 as [e|]; [intros H; inv H; lat5; apply G; exact P2|].
  destruct (ex_on l1 l2 l3 s2) as [[n2 s3] e2] eqn:HEX. apply ex_on_law in HEX. destruct HEX as ((P3 & _) & _).
  destruct e2 as [e|]; [intros H; inv H; apply G; congruence|].
  destruct (mem_on l2 s3) as [[n3 s4] e3] eqn:HMEM. apply mem_on_law in HMEM. destruct HMEM as ((P4 & _) & _).
  destruct e3 as [e|]; intros H; inv H; apply G; congruence.
Qed.

Lemma run_normal_id hz l0 l1 l2 l3 s0 next s : run_normal hz l0 l1 l2 l3 s0 = (next, s, None) ->
  exists s2, lat_at next 1 = id_on hz l0 l1 l2 s2.
Proof.
  unfold run_normal. destruct (stage_if s0) as [n0 s1].
  destruct (wb_on l3 s1) as [[n4 s2] [e|]]; [intros H; nofault H|].
  destruct (ex_on l1 l2 l3 s2) as [[n2 s3] [e|]]; [intros H; nofault H|].
  destruct (mem_on l2 s3) as [[n3 s4] [e|]]; [intros H; nofault H|].
  intros H. inv H. exists s2. reflexivity.
Qed.

(** * The key fact: on a dep_free_weak program the interlock never fires *)
Lemma no_id_stall P l0 l1 l2 s : dep_free_weak P = true ->
  L0ok P l0 -> L1ok P l1 -> L2ok P l2 -> adj l0 l1 -> adj l1 l2 ->
  no101 (nonempty l0) (nonempty l1) (nonempty l2) ->
  has_stall (id_on true l0 l1 l2 s) = false.
Proof.
  intros HD H0 H1 H2 A01 A12 N. destruct l0 as [x|]; [|reflexivity].
  rewrite id_on_some. cbn [has_stall id_slot sl_stall]. unfold id_stall. cbn [andb].
  destruct H0 as [Rx _]. unfold real in Rx.
  destruct (dep_free_adjacent false P _ _ (match l1 with Some y => sl_instr y | None => IFence end) HD Rx) as [D1 _].
  destruct (dep_free_adjacent false P _ _ (match l2 with Some y => sl_instr y | None => IFence end) HD Rx) as [_ D2].
  apply Bool.orb_false_iff. split.
  - destruct l1 as [y|]; [|reflexivity]. cbn [latch_wreg]. destruct H1 as [Ry _]. unfold real in Ry.
    cbn [adj] in A01. apply (dep_ok_no_hazard false). apply D1.
    replace (sl_addr x - 4) with (sl_addr y) by lia. exact Ry.
  - destruct l2 as [z|]; [|reflexivity]. cbn [latch_wreg]. destruct H2 as [Rz _]. unfold real in Rz.
    destruct l1 as [y|]; [|discriminate N]. cbn [adj] in A01, A12.
    apply (dep_ok_no_hazard false). apply D2.
    replace (sl_addr x - 8) with (sl_addr z) by lia. exact Rz.
Qed.

(** * One step *)
Definition step_goal (P : list instr) (p : pstate) : Prop :=
  pipe_step (erase p) = (erase (fst (pipe_step p)), snd (pipe_step p)) /\
  (snd (pipe_step p) = None -> K P (fst (pipe_step p))).

Lemma idrel_adj x n b : idrel x n -> adj x b -> adj n b.
Proof.
  unfold idrel, adj. destruct x as [y|], n as [z|]; try contradiction; [|trivial].
  intros [_ Ha]. destruct b; [rewrite Ha|]; trivial.
Qed.
Lemma idrel_exrel_adj l2 l3 x n y m : idrel x n -> exrel l2 l3 y m -> adj x y -> adj n m.
Proof.
  unfold idrel, exrel, adj. destruct x as [x|], n as [n|]; try contradiction; [|trivial].
  destruct y as [y|], m as [m|]; try contradiction; [|trivial].
  intros [_ Ha] (_ & Hb & _). rewrite Ha, Hb. trivial.
Qed.

Section Step.
Variable P : list instr.
Hypothesis HD : dep_free_weak P = true.

Lemma K_step_normal p : K P p -> stalled p = None -> step_goal P p.
Proof.
  intros [Hhz Sh HP [Jp [J01 J12]] Hns] Hs.
  pose proof (shape_step no_icache p no_icache_faithful Sh) as Sh'.
  pose proof (prog_constant p) as HP'.
  destruct (shape_elim _ _ Sh) as (l0 & l1 & l2 & l3 & l4 & Hl & Him & H0 & H1 & H2 & H3 & H4 & Hm).
  rewrite Hl in Jp, J01, J12. lat5h Jp. lat5h J01. lat5h J12.
  rewrite Hs in Hm. unfold ModeInv in Hm. destruct (saved p) as [svl|] eqn:Hsv; [contradiction|].
  destruct Hm as (N1 & N2 & N3).
  assert (Hle : lat (erase p) = [l0; un l1; l2; l3; l4]) by (cbn [erase lat]; rewrite Hl; reflexivity).
  unfold step_goal.
  rewrite (pipe_step_normal (erase p) _ _ _ _ _ Hle Hs). cbn [erase pst hazards]. rewrite run_normal_erase.
  rewrite (pipe_step_normal p _ _ _ _ _ Hl Hs) in *. rewrite Hhz in *.
  destruct (run_normal true l0 l1 l2 l3 (bumped (pst p))) as [[next s] f] eqn:Hr.
  destruct (run_normal_ok _ _ _ _ _ _ (bumped (pst p)) _ _ _ no_icache_faithful Him H0 H1 H2 H3 Hr) as (_ & _ & _ & Hok).
  pose proof (run_normal_pc _ _ _ _ _ _ _ _ _ Hr) as Hpc.
  change (prog (im (bumped (pst p)))) with (prog (im (pst p))) in *.
  change (pc (bumped (pst p))) with (pc (pst p)) in *.
  destruct f as [f|].
  { split; [apply finish_erase; intros ? ? E; discriminate E|]. cbn [finish snd]. intros E; discriminate E. }
  destruct (Hok eq_refl) as (n0 & n1 & n2 & n3 & n4 & -> & H0' & H1' & H2' & H3' & H4' & Ho0 & Ho1 & Ho2 & Ho3 & Hid & Hex).
  clear Hok. lat5h Hpc.
  pose proof (L0ok_flags _ _ H0') as [Hs0 Hf0]. pose proof (L3ok_flags _ _ H3') as Hs3.
  pose proof (L4ok_flags _ _ H4') as Hs4. pose proof (L1ok_flags _ _ H1') as Hf1.
  (* the interlock does not fire *)
  assert (Hs1 : has_stall n1 = false).
  { destruct (run_normal_id _ _ _ _ _ _ _ _ Hr) as [s2 E]. lat5h E. rewrite E.
    rewrite HP in *. eapply no_id_stall; eassumption. }
  assert (Hn1 : un n1 = n1) by (apply un_idem; exact Hs1).
  assert (Hns' : new_stall [n0; n1; n2; n3; n4] (stalled p) <> Some 1).
  { rewrite new_stall_5 by assumption. rewrite Hs1. destruct (has_stall n2 && above (stalled p) 2); discriminate. }
  split.
  - apply finish_erase. intros next' s' E. inv E. cbn [clr1]. rewrite Hn1. reflexivity.
  - intros _. cbn [finish fst] in *. constructor.
    + rewrite post_hazards. exact Hhz.
    + exact Sh'.
    + rewrite HP'. exact HP.
    + eapply J_post; [reflexivity|assumption|assumption|..].
      * destruct n0 as [x|]; [|exact Logic.I]. cbn [pcn]. lia.
      * destruct n0 as [x|]; [|exact Logic.I]. destruct Hpc as [Hx _].
        unfold idrel in Hid. destruct l0 as [y|], n1 as [z|]; try contradiction; [|exact Logic.I].
        cbn [adj pcn] in *. destruct Hid as [_ Ha]. lia.
      * eapply idrel_exrel_adj; eassumption.
    + apply nost1_post; assumption.
Qed.

Lemma K_step_stall2 p d : K P p -> stalled p = Some (2, d) -> step_goal P p.
Proof.
  intros [Hhz Sh HP [Jp [J01 J12]] Hns] Hs.
  pose proof (shape_step no_icache p no_icache_faithful Sh) as Sh'.
  pose proof (prog_constant p) as HP'.
  destruct (shape_elim _ _ Sh) as (l0 & l1 & l2 & l3 & l4 & Hl & Him & H0 & H1 & H2 & H3 & H4 & Hm).
  rewrite Hl in Jp, J01, J12. lat5h Jp. lat5h J01. lat5h J12.
  rewrite Hs in Hm. unfold ModeInv in Hm. destruct (saved p) as [svl|] eqn:Hsv; [|contradiction].
  destruct Hm as [Hd [(Hk & _)|(_ & m0 & y1 & x2 & -> & Sk0 & -> & Sk1 & N1 & N2 & Hd2 & Hd1)]]; [discriminate Hk|].
  assert (Hle : lat (erase p) = [l0; un l1; Some x2; l3; l4]) by (cbn [erase lat]; rewrite Hl; reflexivity).
  assert (Hsv0 : sv_at p 0 = m0) by (unfold sv_at; rewrite Hsv; reflexivity).
  assert (Hsv1 : sv_at p 1 = Some y1) by (unfold sv_at; rewrite Hsv; reflexivity).
  assert (Hse0 : sv_at (erase p) 0 = m0) by (unfold sv_at; cbn [erase saved]; rewrite Hsv; reflexivity).
  assert (Hse1 : sv_at (erase p) 1 = un (Some y1)) by (unfold sv_at; cbn [erase saved]; rewrite Hsv; reflexivity).
  unfold step_goal.
  rewrite (pipe_step_stall2 (erase p) _ _ _ _ _ d Hle Hs). rewrite Hse0, Hse1.
  cbn [erase pst hazards]. rewrite run_stall2_erase.
  rewrite (pipe_step_stall2 p _ _ _ _ _ d Hl Hs) in *. rewrite Hhz, Hsv0, Hsv1 in *.
  destruct (run_stall2 true m0 (Some y1) l0 l1 (Some x2) l3 (bumped (pst p))) as [[next s] f] eqn:Hr.
  assert (R0 : match m0 with Some m => real (prog (im (pst p))) m | None => True end).
  { unfold skid0 in Sk0. destruct m0 as [m|]; [|exact Logic.I]. destruct l1 as [x|]; [|contradiction].
    destruct Sk0 as (_ & Hi & Ha). destruct H1 as [Rx _]. unfold real in *. rewrite <- Ha, <- Hi. exact Rx. }
  pose proof Sk1 as (Iy & Sy & Fy & Ey & Ix & Ax & _).
  assert (R1 : real (prog (im (pst p))) y1).
  { destruct H2 as [Rx _]. unfold real in *. rewrite <- Ax, Iy, <- Ix. exact Rx. }
  destruct (run_stall2_ok true m0 (Some y1) l0 l1 (Some x2) l3 (bumped (pst p)) next s f R0 R1 H3 Hr)
    as (Hpc & Hims & Hok).
  change (pc (bumped (pst p))) with (pc (pst p)) in *.
  change (prog (im (bumped (pst p)))) with (prog (im (pst p))) in *.
  destruct f as [f|].
  { split; [apply finish_erase; intros ? ? E; discriminate E|]. cbn [finish snd]. intros E; discriminate E. }
  destruct (Hok eq_refl) as (n1 & n2 & n4 & -> & H1' & H2' & H4' & Hid & Hex & Ho2 & _). clear Hok.
  pose proof (L0ok_flags _ _ H0) as [Hs0 Hf0]. pose proof (L4ok_flags _ _ H4') as Hs4.
  pose proof (L1ok_flags _ _ H1') as Hf1.
  assert (Hig : forall a, new_stall [l0; a; n2; None; n4] (stalled p) = None).
  { intros a. rewrite Hs. apply new_stall_ignored_2; [exact Hs0|reflexivity|exact Hs4]. }
  split.
  - apply finish_erase. intros next' s' E. inv E. cbn [clr1]. rewrite !Hig. reflexivity.
  - intros _. cbn [finish fst] in *. constructor.
    + rewrite post_hazards. exact Hhz.
    + exact Sh'.
    + rewrite HP'. exact HP.
    + eapply J_post; [reflexivity|assumption|assumption|..].
      * rewrite Hpc. exact Jp.
      * (* latch 1 is the re-decoded skid copy of latch 1 *)
        unfold skid0, idrel, adj in *. destruct m0 as [m|], l1 as [x|], n1 as [z|]; try contradiction;
          try (destruct l0; exact Logic.I).
        destruct Sk0 as (_ & _ & Ha). destruct Hid as [_ Hb]. destruct l0 as [w|]; [|exact Logic.I]. lia.
      * unfold skid0, idrel, exrel, adj in *. destruct m0 as [m|], l1 as [x|], n1 as [z|]; try contradiction;
          try exact Logic.I.
        destruct n2 as [z2|]; [|exact Logic.I].
        destruct Sk0 as (_ & _ & Ha). destruct Hid as [_ Hb]. destruct Hex as (_ & Hc & _). lia.
    + apply nost1_post; [exact Hns|]. rewrite Hig. discriminate.
Qed.

Theorem erase_step p : K P p -> step_goal P p.
Proof.
  intros HK. pose proof (k_sh _ _ HK) as Sh. pose proof (k_ns _ _ HK) as Hns.
  destruct (shape_mode_cases no_icache p Sh) as [Hs|(k & d & Hs & [-> | ->])].
  - apply K_step_normal; assumption.
  - exfalso. exact (Hns d Hs).
  - eapply K_step_stall2; eassumption.
Qed.

End Step.
