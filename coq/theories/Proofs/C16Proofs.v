(* C16Proofs.v — read-only inspection never changes a later result.
   1. an op language (actions interleaved with inspections) over any machine; erasing the
      inspections changes neither the final state nor any action result, and every inspection
      returns the getter applied to the state the preceding actions reached;
   2. each modelled view depends only on the named sub-components of the state;
   3. the one stateful display path (SingleStage re-reads a loaded address through the memory
      system with update_statistics = False) is neutral: for flat memory by the model, for the
      cached memory systems under the re-read idempotence of property C09 (explicit hypothesis).
   In the model an inspection is a pure function of the state BY CONSTRUCTION; that the Python
   getters are pure is what the correspondence harness checks (model op 70).  What is proved here
   is the algebra on top of it, and item 3, which is about a step(), not about a getter. *)
From Coq Require Import Lia ZifyBool.
From ArchSim Require Import Model.Base Model.Mem Model.Cache Model.Fmt Model.RV Model.Single
  Model.RVSplit Model.Pipe Model.Toy Model.Asm Proofs.C13Proofs.
Open Scope Z_scope.

Local Arguments Z.mul : simpl never.
Local Arguments Z.add : simpl never.
Local Arguments Z.sub : simpl never.
Local Arguments Z.pow : simpl never.
Local Arguments Z.div : simpl never.
Local Arguments Z.modulo : simpl never.

(* ------------------------------------------------------------------------------------------ *)
(** * 1. Inspection erasure, for any machine *)
(* (the op type is called [iopn]: [iop] is the immediate-operation type of Model/RV.v) *)
Inductive iopn (A G : Type) := Do (a : A) | Inspect (k : G).
Arguments Do {A G} a. Arguments Inspect {A G} k.
Inductive ores (R G V : Type) := RAct (r : R) | RView (k : G) (v : V).
Arguments RAct {R G V} r. Arguments RView {R G V} k v.

Definition is_act {A G} (o : iopn A G) : bool := match o with Do _ => true | Inspect _ => false end.

Fixpoint act_results {R G V} (l : list (ores R G V)) : list R :=
  match l with
  | [] => []
  | RAct x :: t => x :: act_results t
  | RView _ _ :: t => act_results t
  end.

Section Erasure.
  Variables (S A R G V : Type).
  Variable act : A -> S -> S * R.         (* a state-changing call and what it returns *)
  Variable view : G -> S -> V.            (* a getter: a function of the state, state unchanged *)

  Fixpoint run_iops (ops : list (iopn A G)) (s : S) : S * list (ores R G V) :=
    match ops with
    | [] => (s, [])
    | Do a :: r =>
        let '(s', x) := act a s in
        let '(sf, l) := run_iops r s' in (sf, RAct x :: l)
    | Inspect k :: r =>
        let '(sf, l) := run_iops r s in (sf, RView k (view k s) :: l)
    end.

  Lemma inspect_erasure_gen ops : forall s,
    fst (run_iops ops s) = fst (run_iops (filter is_act ops) s) /\
    act_results (snd (run_iops ops s)) = act_results (snd (run_iops (filter is_act ops) s)).
  Proof.
    induction ops as [|o r IH]; intros s; [split; reflexivity|].
    destruct o as [a|k]; cbn [filter is_act run_iops].
    - destruct (act a s) as [s' x]. specialize (IH s').
      destruct (run_iops r s') as [sf l]. destruct (run_iops (filter is_act r) s') as [sf' l'].
      cbn [fst snd act_results] in *. destruct IH as [-> ->]. split; reflexivity.
    - specialize (IH s). destruct (run_iops r s) as [sf l]. cbn [fst snd act_results] in *.
      exact IH.
  Qed.

  (* the n-th result, if it is an inspection, is the getter of the n-th op applied to the state
     reached by the ACTIONS among the first n ops *)
  Lemma inspect_sound_gen ops : forall s n k v,
    nth_error (snd (run_iops ops s)) n = Some (RView k v) ->
    nth_error ops n = Some (Inspect k) /\
    v = view k (fst (run_iops (filter is_act (firstn n ops)) s)).
  Proof.
    induction ops as [|o r IH]; intros s n k v H.
    - destruct n; discriminate.
    - destruct o as [a|k0]; cbn [run_iops] in H.
      + destruct (act a s) as [s' x] eqn:Ha. destruct (run_iops r s') as [sf l] eqn:Hr.
        cbn [snd] in H. destruct n as [|n']; cbn [nth_error] in H; [discriminate|].
        assert (H' : nth_error (snd (run_iops r s')) n' = Some (RView k v)) by (rewrite Hr; exact H).
        destruct (IH s' n' k v H') as [H1 H2]. split; [exact H1|].
        cbn [firstn filter is_act run_iops]. rewrite Ha.
        destruct (run_iops (filter is_act (firstn n' r)) s') as [sf' l'] eqn:Hr'.
        cbn [fst] in *. exact H2.
      + destruct (run_iops r s) as [sf l] eqn:Hr. cbn [snd] in H.
        destruct n as [|n']; cbn [nth_error] in H.
        * injection H as <- <-. split; reflexivity.
        * assert (H' : nth_error (snd (run_iops r s)) n' = Some (RView k v)) by (rewrite Hr; exact H).
          destruct (IH s n' k v H') as [H1 H2]. split; [exact H1|].
          cbn [firstn filter is_act]. exact H2.
  Qed.

  (* and the action results are those of the actions alone, whatever is inspected in between *)
  Lemma interleavings_agree_gen ops1 ops2 s : filter is_act ops1 = filter is_act ops2 ->
    fst (run_iops ops1 s) = fst (run_iops ops2 s) /\
    act_results (snd (run_iops ops1 s)) = act_results (snd (run_iops ops2 s)).
  Proof.
    intros H. destruct (inspect_erasure_gen ops1 s) as [A1 B1].
    destruct (inspect_erasure_gen ops2 s) as [A2 B2]. rewrite A1, B1, A2, B2, H. split; reflexivity.
  Qed.

  (* repeating an inspection any number of times in place changes nothing either *)
  Lemma inspect_repeat_gen k n r s :
    fst (run_iops (repeat (Inspect k) n ++ r) s) = fst (run_iops r s) /\
    act_results (snd (run_iops (repeat (Inspect k) n ++ r) s)) = act_results (snd (run_iops r s)).
  Proof.
    apply interleavings_agree_gen. induction n as [|m IH]; [reflexivity|exact IH].
  Qed.
End Erasure.
Arguments run_iops {S A R G V} act view ops s.

(* ------------------------------------------------------------------------------------------ *)
(** * 2. The modelled getters *)
Definition repr4 : Type := str * str * str * str.

(* get_register_entries: reg_repr of the 32 registers *)
Definition reg_table_of (r : zmap) : list repr4 :=
  map (fun i => n_bit_repr 32 (mget r i)) (zrange_from 0 32).

(* get_data_memory_entries: wordwise_repr of the LOWER memory (cache memory systems expose the
   backing memory's representation), sorted, ((address, hex address), representations) *)
Definition mem_table_of (m : zmap) : res (list (Z * str * repr4)) :=
  match mem_repr rv_memcfg m 32 with
  | Ok rows => Ok (map (fun av : Z * Z =>
                          (fst av, [48; 120] ++ fmt_pad 16 8 (fst av), n_bit_repr 32 (snd av))) rows)
  | Err e => Err e
  end.

(* get_instruction_memory_entries: ((address, hex), text, stage); the stage column is the index
   of the last pipeline register holding that address (five-stage), absent for single-cycle
   (the single model carries no latch) *)
Fixpoint listing_from (a : Z) (p : list instr) (stage : Z -> option Z)
  : list (Z * str * str * option Z) :=
  match p with
  | [] => []
  | i :: t => (a, [48; 120] ++ fmt_pad 16 8 a, instr_repr i, stage a) :: listing_from (a + 4) t stage
  end.

Definition holds (l : list latch) (i a : Z) : bool :=
  match lat_at l i with Some x => sl_addr x =? a | None => false end.
Definition stage_of (l : list latch) (a : Z) : option Z :=
  if holds l 4 a then Some 4 else if holds l 3 a then Some 3 else if holds l 2 a then Some 2
  else if holds l 1 a then Some 1 else if holds l 0 a then Some 0 else None.

(* get_data_cache_stats / get_instruction_cache_stats: hits, accesses, last_hit *)
Definition dstats_of (m : memsys) : option (Z * Z * bool) :=
  match m with MFlat _ => None | MCache d => Some (hits d, accesses d, lasthit d) end.
Definition istats_of (i : imem) : option (Z * Z * bool) :=
  match icc i with None => None | Some c => Some (ihits c, iaccesses c, ilasthit c) end.

Definition has_instrs_of (p : list instr) : bool := match p with [] => false | _ => true end.

Inductive getter := GRegs | GMem | GInstrs | GDStats | GIStats | GOut | GExit | GDone | GHasInstr.

Inductive rview :=
| VRegs (t : list repr4)
| VMem (t : res (list (Z * str * repr4)))
| VInstrs (t : list (Z * str * str * option Z))
| VStats (x : option (Z * Z * bool))
| VOut (o : str)
| VExit (c : option Z)
| VBool (b : bool).

Definition single_view (k : getter) (s : st) : rview :=
  match k with
  | GRegs => VRegs (reg_table_of (regs s))
  | GMem => VMem (mem_table_of (ms_lower (ms s)))
  | GInstrs => VInstrs (listing_from 0 (prog (im s)) (fun _ => None))
  | GDStats => VStats (dstats_of (ms s))
  | GIStats => VStats (istats_of (im s))
  | GOut => VOut (out s)
  | GExit => VExit (exitc s)
  | GDone => VBool (single_done s)
  | GHasInstr => VBool (has_instrs_of (prog (im s)))
  end.

Definition pipe_view (k : getter) (p : pstate) : rview :=
  match k with
  | GInstrs => VInstrs (listing_from 0 (prog (im (pst p))) (stage_of (lat p)))
  | GDone => VBool (pipe_done p)
  | _ => single_view k (pst p)
  end.

(* the state-changing calls *)
Inductive rv_act := Step | Run (fuel : nat) | Load (t : list (Z * rline)).
Inductive rv_res :=
| RStep (continue : bool) (f : option fault)
| RRun (e : run_end)
| RLoad (e : option perr) (img : option image).

Definition of_prun (e : prun_end) : run_end :=
  match e with PDone => Done | PFaulted f => Faulted f | POutOfFuel => OutOfFuel end.

Definition single_act (a : rv_act) (s : st) : st * rv_res :=
  match a with
  | Step => let '(c, s', f) := single_sim_step s in (s', RStep c f)
  | Run n => let '(s', e) := single_run n s in (s', RRun e)
  | Load t => let '(s', e, img) := rv_load s t in (s', RLoad e img)
  end.

Definition pipe_act (a : rv_act) (p : pstate) : pstate * rv_res :=
  match a with
  | Step => let '(c, p', f) := pipe_sim_step p in (p', RStep c f)
  | Run n => let '(p', e) := pipe_run n p in (p', RRun (of_prun e))
  | Load t => let '(p', e, img) := pipe_load p t in (p', RLoad e img)
  end.

Definition single_ops := run_iops single_act single_view.
Definition pipe_ops := run_iops pipe_act pipe_view.

(* TOY *)
Inductive tgetter := TGRegs | TGMem | TGDone | TGHasInstr.
Inductive tview := TVRegs (t : list repr4) | TVMem (t : res (list trow)) | TVBool (b : bool).
Definition toy_view (k : tgetter) (s : tstate) : tview :=
  match k with
  | TGRegs => TVRegs (toy_register_reprs s)
  | TGMem => TVMem (toy_memory_table s)
  | TGDone => TVBool (toy_done s)
  | TGHasInstr => TVBool (toy_has_instructions s)
  end.

Inductive toy_act_t := TStep | TFirst | TSecond | TSingle | TRun (fuel : nat) | TLoad (t : list (Z * tline)).
Inductive toy_res := TRCall (o : toutcome) (continue : bool) | TRLoad (e : option perr).
Definition toy_act (a : toy_act_t) (s : tstate) : tstate * toy_res :=
  match a with
  | TStep => let '(s', o) := toy_step s in (s', TRCall o (negb (toy_done s')))
  | TFirst => let '(s', o) := first_half s in (s', TRCall o (negb (toy_done s')))
  | TSecond => let '(s', o) := second_half s in (s', TRCall o (negb (toy_done s')))
  | TSingle => let '(s', o) := toy_single s in (s', TRCall o (negb (toy_done s')))
  | TRun n => let '(s', o, fin) := toy_run n s in (s', TRCall o (negb fin))
  | TLoad t => let '(s', e) := toy_load s t in (s', TRLoad e)
  end.
Definition toy_ops := run_iops toy_act toy_view.

(** instances of the erasure theorems *)
Lemma inspect_erasure_single_lemma ops s :
  fst (single_ops ops s) = fst (single_ops (filter is_act ops) s) /\
  act_results (snd (single_ops ops s)) = act_results (snd (single_ops (filter is_act ops) s)).
Proof. apply inspect_erasure_gen. Qed.
Lemma inspect_erasure_pipe_lemma ops p :
  fst (pipe_ops ops p) = fst (pipe_ops (filter is_act ops) p) /\
  act_results (snd (pipe_ops ops p)) = act_results (snd (pipe_ops (filter is_act ops) p)).
Proof. apply inspect_erasure_gen. Qed.
Lemma inspect_erasure_toy_lemma ops s :
  fst (toy_ops ops s) = fst (toy_ops (filter is_act ops) s) /\
  act_results (snd (toy_ops ops s)) = act_results (snd (toy_ops (filter is_act ops) s)).
Proof. apply inspect_erasure_gen. Qed.

Lemma inspect_sound_single_lemma ops s n k v :
  nth_error (snd (single_ops ops s)) n = Some (RView k v) ->
  nth_error ops n = Some (Inspect k) /\
  v = single_view k (fst (single_ops (filter is_act (firstn n ops)) s)).
Proof. apply inspect_sound_gen. Qed.
Lemma inspect_sound_pipe_lemma ops p n k v :
  nth_error (snd (pipe_ops ops p)) n = Some (RView k v) ->
  nth_error ops n = Some (Inspect k) /\
  v = pipe_view k (fst (pipe_ops (filter is_act (firstn n ops)) p)).
Proof. apply inspect_sound_gen. Qed.
Lemma inspect_sound_toy_lemma ops s n k v :
  nth_error (snd (toy_ops ops s)) n = Some (RView k v) ->
  nth_error ops n = Some (Inspect k) /\
  v = toy_view k (fst (toy_ops (filter is_act (firstn n ops)) s)).
Proof. apply inspect_sound_gen. Qed.

Lemma interleavings_agree_single_lemma ops1 ops2 s : filter is_act ops1 = filter is_act ops2 ->
  fst (single_ops ops1 s) = fst (single_ops ops2 s) /\
  act_results (snd (single_ops ops1 s)) = act_results (snd (single_ops ops2 s)).
Proof. apply interleavings_agree_gen. Qed.
Lemma interleavings_agree_pipe_lemma ops1 ops2 p : filter is_act ops1 = filter is_act ops2 ->
  fst (pipe_ops ops1 p) = fst (pipe_ops ops2 p) /\
  act_results (snd (pipe_ops ops1 p)) = act_results (snd (pipe_ops ops2 p)).
Proof. apply interleavings_agree_gen. Qed.
Lemma interleavings_agree_toy_lemma ops1 ops2 s : filter is_act ops1 = filter is_act ops2 ->
  fst (toy_ops ops1 s) = fst (toy_ops ops2 s) /\
  act_results (snd (toy_ops ops1 s)) = act_results (snd (toy_ops ops2 s)).
Proof. apply interleavings_agree_gen. Qed.

(** each view depends only on the named components *)
Lemma views_depend_only_on_single_lemma s1 s2 :
  (regs s1 = regs s2 -> single_view GRegs s1 = single_view GRegs s2) /\
  (ms_lower (ms s1) = ms_lower (ms s2) -> single_view GMem s1 = single_view GMem s2) /\
  (prog (im s1) = prog (im s2) ->
     single_view GInstrs s1 = single_view GInstrs s2 /\
     single_view GHasInstr s1 = single_view GHasInstr s2) /\
  (dstats_of (ms s1) = dstats_of (ms s2) -> single_view GDStats s1 = single_view GDStats s2) /\
  (istats_of (im s1) = istats_of (im s2) -> single_view GIStats s1 = single_view GIStats s2) /\
  (out s1 = out s2 -> single_view GOut s1 = single_view GOut s2) /\
  (exitc s1 = exitc s2 -> single_view GExit s1 = single_view GExit s2) /\
  (exitc s1 = exitc s2 -> prog (im s1) = prog (im s2) -> pc s1 = pc s2 ->
     single_view GDone s1 = single_view GDone s2).
Proof.
  cbn [single_view].
  split; [intros ->; reflexivity|]. split; [intros ->; reflexivity|].
  split; [intros ->; split; reflexivity|]. split; [intros ->; reflexivity|].
  split; [intros ->; reflexivity|]. split; [intros ->; reflexivity|].
  split; [intros ->; reflexivity|].
  intros He Hp Hc. unfold single_done, has_instr. rewrite He, Hp, Hc. reflexivity.
Qed.

Lemma views_depend_only_on_pipe_lemma p1 p2 :
  (forall k, k <> GInstrs -> k <> GDone -> pipe_view k p1 = single_view k (pst p1)) /\
  (prog (im (pst p1)) = prog (im (pst p2)) -> lat p1 = lat p2 ->
     pipe_view GInstrs p1 = pipe_view GInstrs p2) /\
  (exitc (pst p1) = exitc (pst p2) -> prog (im (pst p1)) = prog (im (pst p2)) ->
   pc (pst p1) = pc (pst p2) -> lat p1 = lat p2 -> pipe_view GDone p1 = pipe_view GDone p2).
Proof.
  split; [|split].
  - intros k H1 H2. destruct k; try reflexivity; congruence.
  - cbn [pipe_view]. intros -> ->. reflexivity.
  - cbn [pipe_view]. intros He Hp Hc Hl. unfold pipe_done, pipe_empty, has_instr.
    rewrite He, Hp, Hc, Hl. reflexivity.
Qed.

Lemma views_depend_only_on_toy_lemma s1 s2 :
  (t_accu s1 = t_accu s2 -> t_pc s1 = t_pc s2 -> t_loaded s1 = t_loaded s2 ->
   t_maxpc s1 = t_maxpc s2 -> toy_view TGRegs s1 = toy_view TGRegs s2) /\
  (t_mem s1 = t_mem s2 -> t_size s1 = t_size s2 -> t_maxpc s1 = t_maxpc s2 ->
   t_cur s1 = t_cur s2 -> t_nextcycle s1 = t_nextcycle s2 ->
   toy_view TGMem s1 = toy_view TGMem s2) /\
  (t_loaded s1 = t_loaded s2 -> toy_view TGDone s1 = toy_view TGDone s2) /\
  (t_maxpc s1 = t_maxpc s2 -> toy_view TGHasInstr s1 = toy_view TGHasInstr s2).
Proof.
  cbn [toy_view]. split; [|split; [|split]].
  - intros H1 H2 H3 H4. unfold toy_register_reprs, toy_has_instructions.
    rewrite H1, H2, H3, H4. reflexivity.
  - intros H1 H2 H3 H4 H5. unfold toy_memory_table, tcfg. rewrite H1, H2, H3, H4, H5. reflexivity.
  - intros H. unfold toy_done. rewrite H. reflexivity.
  - intros H. unfold toy_has_instructions. rewrite H. reflexivity.
Qed.

(* ------------------------------------------------------------------------------------------ *)
(** * 3. The display re-read inside the single-cycle step *)

(* SingleStage.behavior without the re-read *)
Definition single_stage_nr (s : st) : st * option fault :=
  if has_instr (im s) (pc s) then
    let s0 := with_icount s (icount s + 1) in
    let a := pc s0 in
    match fetch s0 a with
    | (None, s1) => (s1, None)
    | (Some i, s1) =>
        match behavior i s1 with
        | (s2, Some e) => (s2, Some {| f_addr := a; f_instr := i; f_err := e |})
        | (s2, None) => (with_pc s2 (pc s2 + 4), None)
        end
    end
  else (s, None).

(* re-read idempotence of the data cache in use, if there is one (vacuous for flat memory) *)
Definition idem_at (m : memsys) : Prop :=
  forall d, m = MCache d -> forall nb a v d1 p,
    dc_read d nb a true = (Ok v, d1, p) -> dc_read d1 nb a false = (Ok v, d1, 0).

Lemma idem_at_flat m : idem_at (MFlat m).
Proof. intros d H. discriminate. Qed.

(** memory accesses see the address modulo 2^32 only *)
Lemma two32_nz : 2 ^ 32 <> 0.
Proof. change (2 ^ 32) with 4294967296. lia. Qed.

Lemma U32_add_l x y : U32 (U32 x + y) = U32 (x + y).
Proof. unfold U32, U. apply Z.add_mod_idemp_l. exact two32_nz. Qed.

Lemma U32_shift a b i : U32 a = U32 b -> U32 (a + i) = U32 (b + i).
Proof. intros H. rewrite <- (U32_add_l a), H. apply U32_add_l. Qed.

Lemma read_cell_mod m a b : U32 a = U32 b -> read_cell rv_memcfg m a = read_cell rv_memcfg m b.
Proof.
  unfold read_cell, eff_addr. cbn [aovf alen rv_memcfg]. unfold U32, U. intros ->. reflexivity.
Qed.

Lemma read_mult_mod m a b : U32 a = U32 b -> forall k i acc,
  read_mult rv_memcfg m a k i acc = read_mult rv_memcfg m b k i acc.
Proof.
  intros H k. induction k as [|k IH]; intros i acc; cbn [read_mult]; [reflexivity|].
  rewrite (read_cell_mod m (a + i) (b + i) (U32_shift a b i H)).
  destruct (read_cell rv_memcfg m (b + i)); [apply IH|reflexivity].
Qed.

Lemma mem_read_mod m nb a b : U32 a = U32 b -> mem_read rv_memcfg m nb a = mem_read rv_memcfg m nb b.
Proof. intros H. unfold mem_read. rewrite (read_mult_mod m a b H). reflexivity. Qed.

Lemma dc_read_mod d nb a b c : U32 a = U32 b -> dc_read d nb a c = dc_read d nb b c.
Proof. intros H. unfold dc_read, cdecode, decode_addr. rewrite H. reflexivity. Qed.

Lemma st_read_mod s nb a b c : U32 a = U32 b -> st_read s nb a c = st_read s nb b c.
Proof.
  intros H. unfold st_read, ms_read. destruct (ms s) as [m|d].
  - rewrite (mem_read_mod m nb a b H). reflexivity.
  - rewrite (dc_read_mod d nb a b c H). reflexivity.
Qed.

(** register writes commute with memory reads *)
Lemma st_read_rset s nb a c r s1 rd x : st_read s nb a c = (r, s1) ->
  st_read (rset s rd x) nb a c = (r, rset s1 rd x).
Proof.
  unfold st_read, rset. destruct (ms_read (ms s) nb a c) as [[r' m'] p] eqn:E.
  intros H. injection H as <- <-. cbn [regs with_cycles with_ms].
  destruct ((0 <? rd) && (rd <? 32)); [|rewrite E; reflexivity].
  cbn [ms cycles with_regs]. rewrite E. reflexivity.
Qed.

Lemma ms_rset s rd x : ms (rset s rd x) = ms s.
Proof. unfold rset. destruct (_ && _); reflexivity. Qed.

(* the uncounted re-read of an address just read (counted) returns the same value and leaves
   the WHOLE state unchanged *)
Lemma st_reread s nb a v s' : idem_at (ms s) -> st_read s nb a true = (Ok v, s') ->
  st_read s' nb a false = (Ok v, s').
Proof.
  intros Hid. unfold st_read. destruct (ms s) as [m|d] eqn:Hms.
  - cbn [ms_read]. intros H. injection H as H1 <-. cbn [ms with_cycles with_ms ms_read].
    rewrite H1. f_equal. unfold with_cycles, with_ms.
    cbn [pc regs ms im out exitc icount bcount pcount cycles stalls flushes]. f_equal. lia.
  - cbn [ms_read]. destruct (dc_read d nb a true) as [[r d1] p] eqn:E.
    intros H. injection H as -> <-. cbn [ms with_cycles with_ms ms_read].
    rewrite (Hid d eq_refl nb a v d1 p E). f_equal. unfold with_cycles, with_ms.
    cbn [pc regs ms im out exitc icount bcount pcount cycles stalls flushes]. f_equal. lia.
Qed.

(* generalises C01Step.load_reread: no well-formedness, any memory system with idempotent
   re-reads; the address of the re-read is computed on the pre-state with an extra UInt32 cast *)
Lemma reread_after_load_lemma o rd rs1 imm s1 s2 : idem_at (ms s1) ->
  behavior (ILoad o rd rs1 imm) s1 = (s2, None) ->
  exists v, st_read s2 (load_bits o) (load_addr_pre (ILoad o rd rs1 imm) s1) false = (Ok v, s2).
Proof.
  intros Hid Hb. cbn [behavior] in Hb.
  destruct (st_read s1 (load_bits o) (rget s1 rs1 + imm) true) as [[v|e] s'] eqn:E; [|discriminate].
  injection Hb as <-. exists v. cbn [load_addr_pre].
  rewrite (st_read_mod _ _ (U32 (rget s1 rs1) + imm) (rget s1 rs1 + imm) false (U32_add_l _ _)).
  apply st_read_rset. exact (st_reread s1 _ _ v s' Hid E).
Qed.

Lemma fetch_ms s a oi s1 : fetch s a = (oi, s1) -> ms s1 = ms s /\ regs s1 = regs s.
Proof.
  unfold fetch. destruct (im_read (im s) a) as [[oi' im'] p]. intros H. injection H as _ <-.
  split; reflexivity.
Qed.

Lemma single_stage_nr_eq s : idem_at (ms s) -> single_stage s = single_stage_nr s.
Proof.
  intros Hid. unfold single_stage, single_stage_nr.
  destruct (has_instr (im s) (pc s)); [|reflexivity].
  destruct (fetch _ _) as [[i|] s1] eqn:Hf; [|reflexivity].
  destruct (fetch_ms _ _ _ _ Hf) as [Hms1 _]. cbn [ms with_icount] in Hms1.
  destruct (behavior i s1) as [s2 [e|]] eqn:Hb; [reflexivity|].
  destruct i; try reflexivity.
  rewrite <- Hms1 in Hid.
  destruct (reread_after_load_lemma _ _ _ _ _ _ Hid Hb) as [v Hv]. rewrite Hv. reflexivity.
Qed.

(* flat memory: proved from the model alone *)
Lemma reread_neutral_in_step_lemma s m : ms s = MFlat m ->
  single_stage s = single_stage_nr s /\
  single_pipeline_step s = single_stage_nr (with_cycles s (cycles s + 1)).
Proof.
  intros H. split.
  - apply single_stage_nr_eq. rewrite H. apply idem_at_flat.
  - unfold single_pipeline_step. apply single_stage_nr_eq. cbn [ms with_cycles]. rewrite H.
    apply idem_at_flat.
Qed.

Lemma reread_after_load_flat_lemma o rd rs1 imm s1 s2 m : ms s1 = MFlat m ->
  behavior (ILoad o rd rs1 imm) s1 = (s2, None) ->
  exists v, st_read s2 (load_bits o) (load_addr_pre (ILoad o rd rs1 imm) s1) false = (Ok v, s2).
Proof. intros H. apply reread_after_load_lemma. rewrite H. apply idem_at_flat. Qed.

(* cached memory: under the re-read idempotence of the data cache (property C09,
   Props/C09.v [reread_neutral]: forall d nbits a counted r d1 p, DInv d ->
   dc_read d nbits a counted = (r, d1, p) -> dc_read d1 nbits a false = (r, d1, 0)),
   stated here as a hypothesis so that this file does not depend on C09Proofs.v *)
Section CachedReread.
  Hypothesis Hidem : forall d nb a v d1 p,
    dc_read d nb a true = (Ok v, d1, p) -> dc_read d1 nb a false = (Ok v, d1, 0).

  Lemma idem_at_any m : idem_at m.
  Proof. intros d _. apply Hidem. Qed.

  Lemma single_step_no_reread_lemma s :
    single_stage s = single_stage_nr s /\
    single_pipeline_step s = single_stage_nr (with_cycles s (cycles s + 1)).
  Proof.
    split; [|unfold single_pipeline_step]; apply single_stage_nr_eq; apply idem_at_any.
  Qed.

  (* exactly one state-changing data-cache access per load: the memory system after the step is
     the one the single COUNTED read of [behavior] leaves, and the cycle penalty is its penalty *)
  Lemma load_one_access_lemma s o rd rs1 imm s1 d s' :
    has_instr (im s) (pc s) = true ->
    fetch (with_icount (with_cycles s (cycles s + 1)) (icount s + 1)) (pc s)
      = (Some (ILoad o rd rs1 imm), s1) ->
    ms s = MCache d ->
    single_pipeline_step s = (s', None) ->
    exists v d1 p,
      dc_read d (load_bits o) (rget s rs1 + imm) true = (Ok v, d1, p) /\
      ms s' = MCache d1 /\ cycles s' = cycles s1 + p /\
      regs s' = regs (rset s rd (load_ext o v)).
  Proof.
    intros Hh Hf Hms Hs. destruct (single_step_no_reread_lemma s) as [_ E]. rewrite E in Hs.
    unfold single_stage_nr in Hs. cbn [im pc with_cycles with_icount cycles icount] in Hs.
    rewrite Hh in Hs. cbn [pc with_icount] in Hs. cbn [with_cycles with_icount] in Hf.
    unfold with_icount, with_cycles in Hf, Hs.
    cbn [pc regs ms im out exitc icount bcount pcount cycles stalls flushes] in Hf, Hs.
    rewrite Hf in Hs. destruct (fetch_ms _ _ _ _ Hf) as [Hms1 Hr1]. cbn [ms regs] in Hms1, Hr1.
    cbn [behavior] in Hs. unfold st_read in Hs. rewrite Hms1, Hms in Hs. cbn [ms_read] in Hs.
    unfold rget in Hs. rewrite Hr1 in Hs. fold (rget s rs1) in Hs.
    destruct (dc_read d (load_bits o) (rget s rs1 + imm) true) as [[[v|e] d1] p]; [|discriminate].
    injection Hs as <-. exists v, d1, p. split; [reflexivity|].
    cbn [ms cycles regs with_pc]. rewrite ms_rset. cbn [ms cycles regs with_cycles with_ms].
    split; [reflexivity|]. unfold rset. destruct ((0 <? rd) && (rd <? 32)).
    - cbn [cycles regs with_regs with_cycles with_ms]. rewrite Hr1. split; reflexivity.
    - cbn [cycles regs with_regs with_cycles with_ms]. rewrite Hr1. split; reflexivity.
  Qed.
End CachedReread.
