(* SchedOffFullRun.v — timing with hazard detection OFF, all supported programs (ecall included),
   part 3: along the simulation of Proofs/FlagOffEcallSim.v the next instruction of the reference
   run retires at step t + 1 + mu4 p. *)
From Coq Require Import Lia ZifyBool Wf_nat.
From ArchSim Require Import Model.Base Model.Mem Model.Cache Model.Fmt Model.RV Model.Single
  Model.RVSplit Model.Pipe Proofs.WordLemmas Proofs.C01Step Proofs.SplitExec Proofs.C02Split
  Proofs.PipeLaws Proofs.PipeShape Proofs.PipeInv Proofs.PipeInvBase Proofs.PipeInvStages
  Proofs.PipeInvStraight Proofs.PipeInvControl Proofs.PipeInvEcall Proofs.PipeRefine Proofs.FlagOffSim
  Proofs.FlagOffDwb Proofs.FlagOffInv Proofs.FlagOffStraight Proofs.FlagOffControl
  Proofs.FlagOffEcallInv Proofs.FlagOffEcallNormal Proofs.FlagOffEcallStall Proofs.FlagOffEcallSim
  Proofs.SchedDefs Proofs.SchedRec Proofs.SchedStep Proofs.SchedLink Proofs.SchedOffDefs Proofs.SchedOffDwb
  Proofs.SchedOffRun Proofs.SchedOffFullStep Proofs.SchedOffFullMu.
Open Scope Z_scope.

Local Arguments Z.of_nat : simpl never.
Local Arguments Z.add : simpl never.
Local Arguments Z.sub : simpl never.
Local Arguments Z.mul : simpl never.

(** * The hazard-free schedule as a running sum (ecall included) *)
(* write-back cycles behind an instruction e1 that wrote back at cycle w *)
Fixpoint woe (w : nat) (e1 : event) (evs : list event) : list nat :=
  match evs with
  | [] => []
  | e :: tl => let w' := (w + (if ev_redirect e1 then 4 else if ev_ecall e then 3 else 1))%nat in
               w' :: woe w' e tl
  end.
Definition wlist (w : nat) (evs : list event) : list nat :=
  match evs with [] => [] | e :: tl => w :: woe w e tl end.

Lemma xgo_woe evs : forall x1 e1 p2,
  map (fun x => (x + 2)%nat) (xgo (Some (x1, nosrc e1)) p2 (map nosrc evs)) = woe (x1 + 2) e1 evs.
Proof.
  induction evs as [|e tl IH]; intros x1 e1 p2; cbn [map xgo woe]; [reflexivity|].
  assert (Hx : xnext (Some (x1, nosrc e1)) p2 (nosrc e) =
               (x1 + (if ev_redirect e1 then 4 else if ev_ecall e then 3 else 1))%nat).
  { cbn [xnext nosrc ev_redirect ev_ecall]. destruct (ev_redirect e1); [reflexivity|].
    rewrite dst_in_nosrc. cbn [orb].
    replace (match p2 with Some (x2, e2) => dst_in e2 (nosrc e) && (x2 + 1 =? x1)%nat | None => false end) with false
      by (destruct p2 as [[x2 e2]|]; [rewrite dst_in_nosrc|]; reflexivity).
    destruct (ev_ecall e); lia. }
  rewrite Hx. rewrite (IH _ e _).
  replace (x1 + (if ev_redirect e1 then 4 else if ev_ecall e then 3 else 1) + 2)%nat
    with (x1 + 2 + (if ev_redirect e1 then 4 else if ev_ecall e then 3 else 1))%nat by lia.
  reflexivity.
Qed.

Theorem schedule_off_wlist evs : schedule_off evs = wlist 5 evs.
Proof.
  rewrite schedule_off_nosrc, schedule_xsched. unfold xsched.
  destruct evs as [|e tl]; [reflexivity|]. cbn [map xgo xnext wlist]. f_equal.
  exact (xgo_woe tl 3 e None).
Qed.

Section Run.
Variable P : list instr.
Hypothesis Hsup : Forall (fun i => supported i = true) P.

(** * The events of the reference run *)
Fixpoint lage_events (fuel : nat) (M : lag) : list event :=
  match fuel with
  | O => []
  | S k => if single_done (lt M) then []
           else match estep M with
                | (_, Some _) => []
                | (M', None) => ev_of (uview (normE M)) :: lage_events k (after_red (cur_redE M) M')
                end
  end.

Lemma lage_events_done n M : single_done (lt M) = true -> lage_events n M = [].
Proof. intros H. destruct n; cbn [lage_events]; [|rewrite H]; reflexivity. Qed.
Lemma lage_events_step k M M' : single_done (lt M) = false -> estep M = (M', None) ->
  lage_events (S k) M = ev_of (uview (normE M)) :: lage_events k (after_red (cur_redE M) M').
Proof. intros H E. cbn [lage_events]. rewrite H, E. reflexivity. Qed.
Lemma lage_events_norm n M M2 : normE M = normE M2 -> lage_events n M = lage_events n M2.
Proof.
  intros H. pose proof (normE_lt _ _ H) as Hlt.
  destruct n as [|k]; cbn [lage_events]; [reflexivity|]. unfold estep, cur_redE. rewrite H, Hlt. reflexivity.
Qed.
(* the head of the event list of a reference state that is not done *)
Lemma lage_events_head n M : single_done (lt M) = false ->
  lage_events n M = [] \/ exists tl, lage_events n M = ev_of (uview (normE M)) :: tl.
Proof.
  intros H. destruct n as [|k]; [left; reflexivity|]. cbn [lage_events]. rewrite H.
  destruct (estep M) as [M' [f|]]; [left; reflexivity|right; eexists; reflexivity].
Qed.

Lemma ev_ecall_next M : single_done (lt M) = false -> ev_ecall (ev_of (uview (normE M))) = next_ec M.
Proof.
  intros H. unfold single_done, has_instr in H. destruct (exitc (lt M)); [discriminate H|].
  unfold ev_of, next_ec. change (prog (im (uview (normE M)))) with (prog (im (lt (normE M)))).
  change (pc (uview (normE M))) with (pc (lt (normE M))). rewrite lt_normE.
  destruct (instr_at (prog (im (lt M))) (pc (lt M))); [reflexivity|discriminate H].
Qed.

(* write-back of latch 3 raises no flush while the invariant holds *)
Lemma einv_noflush4 p L l0 l1 l2 l3 l4 dead : EInvAt P p L l0 l1 l2 l3 l4 dead ->
  flush_of (option_map wb_slot l3) = None.
Proof.
  intros I. pose proof (ev_l3 _ _ _ _ _ _ _ _ _ I) as L3.
  destruct (wb_stageL P Hsup (preE l3 L) l3 (lt L)) as (s2 & _ & Hf & _); try assumption.
  - rewrite lt_preE. apply (ev_progs _ _ _ _ _ _ _ _ _ I).
  - apply wfL_preE. apply (ev_wf _ _ _ _ _ _ _ _ _ I).
  - rewrite lt_preE. apply (ev_exit_s _ _ _ _ _ _ _ _ _ I).
  - rewrite lt_preE. reflexivity.
Qed.

(** * The goal *)
Definition tgoal (n : nat) (M : lag) (p : pstate) (t : nat) : Prop :=
  match lage_run n M with
  | (s', Done) => exists c p', pipe_run c p = (p', PDone) /\ pipe_run_steps c p = c /\
      pipe_retire_from t c p =
        combine (lage_trace n M) (wlist (t + 1 + Z.to_nat (mu4 p)) (lage_events n M)) /\
      (t + c)%nat = last (wlist (t + 1 + Z.to_nat (mu4 p)) (lage_events n M)) t
  | _ => True
  end.

(* the invariant of the simulation, with the drain discipline [Qd] *)
Definition EInvQ (p : pstate) (M : lag) : Prop :=
  exists L l0 l1 l2 l3 l4 dead, EInvAt P p L l0 l1 l2 l3 l4 dead /\ PatE p l0 l1 l2 l3 /\
    RelE M L p l0 l1 l2 l3 /\ Qd p l2 l3.

Lemma tdone n M p t : EInvQ p M -> single_done (lt M) = true -> tgoal n M p t.
Proof.
  intros (L & l0 & l1 & l2 & l3 & l4 & dead & I & _ & HR & _) Hd. unfold tgoal.
  pose proof (RelE_lt _ _ _ _ _ _ _ HR) as Hlt.
  destruct (lage_run_done n M Hd) as [-> ->]. rewrite (lage_events_done n M Hd).
  exists 0%nat, p. cbn [pipe_run pipe_run_steps pipe_retire_from combine wlist last].
  rewrite (edone_iff P _ _ _ _ _ _ _ _ I), <- Hlt, Hd. repeat split. lia.
Qed.

(* the last cycle of an exiting ecall *)
Lemma texiting n M p t : EExitP P p M -> tgoal n M p t.
Proof.
  intros (L & E & HN). pose proof E as (l0 & x3 & l4 & Hlat & Sh & _ & Hst & _).
  destruct (eexiting_step P Hsup p L E) as (Hpd & Hsd & L1 & Hes & Hsd1 & p' & Hps & Hpd' & _ & Htr).
  pose proof (normE_lt _ _ HN) as Hlt. unfold tgoal. rewrite <- Hlt in Hsd.
  destruct n as [|k]; [cbn [lage_run]; rewrite Hsd; exact Logic.I|].
  assert (HesM : estep M = (L1, None)) by (unfold estep in *; rewrite HN; exact Hes).
  destruct (lage_run_step k M _ Hsd HesM) as [-> ->]. rewrite (lage_events_step k M _ Hsd HesM).
  assert (Hd1 : single_done (lt (after_red (cur_redE M) L1)) = true) by (rewrite lt_after_red; exact Hsd1).
  destruct (lage_run_done k _ Hd1) as [-> ->]. rewrite (lage_events_done k _ Hd1).
  assert (Hmu : mu4 p = 0) by (rewrite (mu4_lat p _ _ _ _ _ Hlat); reflexivity).
  exists 1%nat, p'. cbn [pipe_run pipe_run_steps pipe_retire_from]. rewrite Hpd, Hps, Hpd', Hmu.
  destruct (lat_at (lat p') 4) as [x|]; [|discriminate Htr]. cbn [some_addr] in Htr. injection Htr as Ha.
  cbn [some_ret app wlist woe combine last]. rewrite Ha, Hlt. change (Z.to_nat 0) with 0%nat.
  split; [reflexivity|]. split; [reflexivity|]. split; [do 2 f_equal; lia|lia].
Qed.

Lemma woe_wlist w e evs w2 :
  (forall e' tl, evs = e' :: tl -> w2 = (w + (if ev_redirect e then 4 else if ev_ecall e' then 3 else 1))%nat) ->
  woe w e evs = wlist w2 evs.
Proof. destruct evs as [|e' tl]; intros H; [reflexivity|]. cbn [woe wlist]. rewrite (H e' tl eq_refl). reflexivity. Qed.

Lemma last_cons_indep (a : nat) l d d' : l <> [] -> last (a :: l) d = last l d'.
Proof. intros H. destruct l as [|b l]; [congruence|]. change (last (a :: b :: l) d) with (last (b :: l) d). apply last_indep. discriminate. Qed.

(** * The simulation with retire steps *)
Lemma tsimE n : forall M p t, EInvQ p M -> tgoal n M p t.
Proof.
  induction n as [|k IHk]; intros M p t Hinv.
  { destruct (single_done (lt M)) eqn:Hd; [apply tdone; assumption|].
    unfold tgoal. cbn [lage_run]. rewrite Hd. exact Logic.I. }
  remember (Z.to_nat (mu4 p)) as m eqn:Hm. revert p t Hinv Hm.
  induction m as [m IHm] using lt_wf_ind. intros p t Hinv Hm.
  destruct (single_done (lt M)) eqn:Hd; [apply tdone; assumption|].
  destruct Hinv as (L & l0 & l1 & l2 & l3 & l4 & dead & I & HPat & HR & HQ).
  pose proof (RelE_lt _ _ _ _ _ _ _ HR) as Hlt.
  pose proof (ev_shape _ _ _ _ _ _ _ _ _ I) as Sh. pose proof (mu4_bounds p Sh) as Hmu.
  pose proof (ev_progs _ _ _ _ _ _ _ _ _ I) as HPs. pose proof (ev_progp _ _ _ _ _ _ _ _ _ I) as HPp.
  pose proof (ev_lat _ _ _ _ _ _ _ _ _ I) as Hlat. pose proof (ev_hz _ _ _ _ _ _ _ _ _ I) as Hz.
  pose proof (einv_noflush4 _ _ _ _ _ _ _ _ I) as Hf4.
  assert (Hpd : pipe_done p = false) by (rewrite (edone_iff P _ _ _ _ _ _ _ _ I), <- Hlt; exact Hd).
  assert (HRM : normE M = normE (leadb [nonempty l3; nonempty l2; nonempty l1; nonempty l0] L)).
  { destruct HR as [HR|(_ & E3 & E2 & E1 & E0 & Ef)]; [exact HR|]. exfalso.
    unfold pipe_done, pipe_empty in Hpd.
    rewrite (ev_exitc _ _ _ _ _ _ _ _ _ I), Hlat in Hpd. lat5h Hpd.
    rewrite E3, E2, E1, E0, Ef in Hpd. discriminate Hpd. }
  pose proof HPat as (Hns & Hflc & _).
  pose proof (estep_any P Hsup _ _ _ _ _ _ _ _ I Hns Hpd) as Hstep. unfold estep_goal in Hstep.
  assert (H3 : forall x3, l3 = Some x3 -> estep M = (advE l3 L, None) /\ sl_addr x3 = pc (lt M) /\
                cur_redE M = has_flush l3 /\ ev_redirect (ev_of (uview (normE M))) = has_flush l3).
  { intros x3 E. subst l3. pose proof (ev_l3 _ _ _ _ _ _ _ _ _ I) as L3.
    pose proof L3 as (Wu & Hon & _ & Hok & Hxn). destruct (onp_pc P _ _ _ Hon) as [Hi Ha].
    cbn [nonempty leadb] in HRM. rewrite (normE_preE P _ _ x3 eq_refl HPs Hon) in HRM.
    split; [unfold estep; rewrite HRM, advE_some; apply lstep_ok; exact Hok|].
    split; [congruence|].
    assert (HPt : prog (im (uview (preE (Some x3) L))) = P).
    { change (prog (im (lt (preE (Some x3) L))) = P). rewrite lt_preE. exact HPs. }
    assert (Hcr : cur_redE M = has_flush (Some x3)).
    { unfold cur_redE. rewrite Hlt, HPs, Hi, HRM.
      pose proof (flush_redirects_t P Hsup _ x3 HPt L3) as H. unfold has_flush.
      destruct (flush_of (Some x3)); destruct (redirects (sl_instr x3) (uview (preE (Some x3) L))); try reflexivity.
      - destruct H as [_ H]. discriminate (H eq_refl).
      - destruct H as [H _]. discriminate (H eq_refl). }
    split; [exact Hcr|]. rewrite <- Hcr. rewrite HRM.
    assert (Hi' : instr_at (prog (im (uview (preE (Some x3) L)))) (pc (uview (preE (Some x3) L))) = Some (sl_instr x3)).
    { rewrite HPt, pc_uview_preE. exact Hi. }
    unfold ev_of. rewrite Hi'.
    rewrite (ev_redirect_eq _ _ Wu Hi' (sup_at P Hsup _ _ Hi) Hok), Hxn. cbn [is_some]. rewrite Bool.orb_false_r.
    unfold cur_redE. rewrite Hlt, HPs, Hi, HRM. reflexivity. }
  assert (Hboth : forall j M' q t', (EInvQ q M' \/ EExitP P q M') ->
            (EInvQ q M' -> tgoal j M' q t') ->
            tgoal j M' q t' /\ 0 <= mu4 q <= 4 /\ exitc (pst q) = None /\
            (single_done (lt M') = false -> pipe_done q = false)).
  { intros j M' q t' [Hq|Hq] Hrec.
    - split; [apply Hrec; exact Hq|]. destruct Hq as (Lq & ? & ? & ? & ? & ? & ? & Iq & _ & HRq & _).
      split; [apply mu4_bounds; apply (ev_shape _ _ _ _ _ _ _ _ _ Iq)|].
      split; [apply (ev_exitc _ _ _ _ _ _ _ _ _ Iq)|].
      intros Hnd. rewrite (edone_iff P _ _ _ _ _ _ _ _ Iq), <- (RelE_lt _ _ _ _ _ _ _ HRq). exact Hnd.
    - split; [apply texiting; exact Hq|]. destruct Hq as (Lq & Eq & _).
      destruct (eexiting_step P Hsup q Lq Eq) as (Hqd & _).
      destruct Eq as (? & ? & ? & _ & Shq & _ & _ & _ & _ & _ & _ & _ & _ & _ & _ & _ & _ & _ & _ & _ & Hxq & _).
      split; [apply mu4_bounds; exact Shq|]. split; [exact Hxq|]. intros _. exact Hqd. }
  assert (Hnext : forall p', pipe_step p = (p', None) ->
            (EInv P p' (advE l3 L) \/ EExiting P p' (advE l3 L)) -> nost1 p' ->
            emove p p' l0 l1 l2 l3 ->
            EInvQ p' (match l3 with None => M | Some _ => after_red (has_flush l3) (advE l3 L) end) \/
            EExitP P p' (match l3 with None => M | Some _ => after_red (has_flush l3) (advE l3 L) end)).
  { intros p' Hps' [(m0 & m1 & m2 & m3 & m4 & dd & I')|E'] Hns' Hmv.
    - left. exists (advE l3 L), m0, m1, m2, m3, m4, dd.
      pose proof (ev_lat _ _ _ _ _ _ _ _ _ I') as Hl'.
      split; [exact I'|]. split; [eapply PatE_step; eassumption|].
      split; [|apply (Qd_step P p p' _ _ _ _ _ _ _ _ _ _ Sh HPp Hlat Hz Hns Hf4 Hps' Hl')].
      eapply RelE_next; try eassumption.
      intros E3 x E2 Hix. subst m3 m2.
      pose proof (ev_l2 _ _ _ _ _ _ _ _ _ I') as L2'. cbn [lv] in L2'. destruct (L2' Logic.I) as (_ & Hon & _).
      destruct (onp_pc P _ _ _ Hon) as [Hi _]. rewrite advE_none in Hi.
      unfold next_ec. rewrite (ev_progs _ _ _ _ _ _ _ _ _ I'). change (pc (lt (bub (advE l3 L)))) with (pc (lt (advE l3 L))) in Hi.
      rewrite Hi, Hix. reflexivity.
    - right. exists (advE l3 L). split; [exact E'|].
      destruct E' as (k0 & x3' & k4 & Hl' & _).
      assert (HRn : RelE (match l3 with None => M | Some _ => after_red (has_flush l3) (advE l3 L) end)
                      (advE l3 L) p' k0 None None (Some x3')).
      { eapply RelE_next; try eassumption. intros H; discriminate H. }
      destruct HRn as [H|(_ & H & _)]; [exact H|discriminate H]. }
  destruct (pipe_step p) as [p' [f|]] eqn:Hps.
  - (* the step faults: the reference run does not end Done *)
    destruct Hstep as (Lm & Hss & Hnd & Hinfo & _).
    destruct l3 as [x3|].
    + destruct (H3 x3 eq_refl) as (Hs3 & _ & Hred & _). unfold tgoal.
      destruct (lage_run_step k M _ Hd Hs3) as [-> _].
      assert (Hnr : has_flush (Some x3) = false).
      { unfold has_flush. destruct (flush_of (Some x3)) eqn:F; [|reflexivity]. exfalso.
        destruct (Hflc ltac:(discriminate)) as (E2 & _).
        destruct Hinfo as [Hl2|(_ & H & _)]; [rewrite E2 in Hl2; discriminate Hl2|discriminate H]. }
      rewrite Hred, Hnr. cbn [after_red].
      destruct k as [|k']; [cbn [lage_run]; rewrite Hnd; exact Logic.I|].
      rewrite (lage_run_fault k' _ _ _ Hnd Hss). exact Logic.I.
    + rewrite advE_none in *.
      assert (HnM : normE M = normE (bub L)).
      { cbn [nonempty] in HRM. destruct Hinfo as [Hl2|(E2 & _ & He1)].
        - rewrite Hl2 in HRM. exact HRM.
        - subst l2. destruct l1 as [x1|]; [|discriminate He1].
          pose proof (ev_dead _ _ _ _ _ _ _ _ _ I) as Hdd.
          pose proof (ev_l2 _ _ _ _ _ _ _ _ _ I) as L2. cbn [lv] in L2.
          pose proof (ev_l1 _ _ _ _ _ _ _ _ _ I) as L1. cbn [lv] in L1.
          destruct (L1 ltac:(lia)) as (_ & Hon & _). destruct (onp_pc P _ _ _ Hon) as [Hi _].
          assert (Hnec : next_ec L = true).
          { unfold next_ec. rewrite HPs.
            change (pc (lt (advE None (advE None L)))) with (pc (lt L)) in Hi. rewrite Hi. exact He1. }
          rewrite (normE_leadb_ec _ L Hnec) in HRM. rewrite HRM. symmetry. apply (normE_ec (bub L) Hnec). }
      assert (HssM : estep M = (Lm, Some f)) by (unfold estep in *; rewrite HnM; exact Hss).
      unfold tgoal. rewrite (lage_run_fault k _ _ _ Hd HssM). exact Logic.I.
  - destruct Hstep as (Hinv' & Hl4 & Hmu' & Hns' & Hmv).
    pose proof (Hnext p' eq_refl Hinv' Hns' Hmv) as HinvP'.
    destruct l3 as [x3|]; cbn [option_map] in *.
    + (* the slot of latch 3 retires at step t + 1 *)
      destruct (H3 x3 eq_refl) as (Hs3 & Ha3 & Hred & Hev).
      set (M' := after_red (has_flush (Some x3)) (advE (Some x3) L)) in *.
      destruct (Hboth k M' p' (S t) HinvP' (IHk M' p' (S t))) as (Hrec & Hmu4 & Hx' & Hnd').
      assert (Hmu0 : mu4 p = 0) by (rewrite (mu4_lat p _ _ _ _ _ Hlat); reflexivity).
      unfold tgoal in *. destruct (lage_run_step k M _ Hd Hs3) as [-> ->].
      rewrite (lage_events_step k M _ Hd Hs3), Hred. fold M'.
      destruct (lage_run k M') as [s' [|f|]] eqn:Hrun'; [|exact Logic.I|exact Logic.I].
      destruct Hrec as (c & p'' & Hrun & Hsteps & Hret & Hlast). exists (S c), p''.
      cbn [pipe_run pipe_run_steps pipe_retire_from]. rewrite Hpd, Hps, Hl4, Hsteps.
      split; [exact Hrun|]. split; [reflexivity|].
      cbn [some_ret wb_slot sl_addr app wlist combine]. rewrite Hmu0, Hret, Ha3. change (Z.to_nat 0) with 0%nat.
      assert (Hw : woe (t + 1 + 0) (ev_of (uview (normE M))) (lage_events k M') =
                   wlist (S t + 1 + Z.to_nat (mu4 p')) (lage_events k M')).
      { apply woe_wlist. intros e' tl Hev'.
        destruct (single_done (lt M')) eqn:Hd'; [rewrite (lage_events_done k M' Hd') in Hev'; discriminate Hev'|].
        destruct (lage_events_head k M' Hd') as [E|[tl' E]]; rewrite E in Hev'; [discriminate Hev'|].
        injection Hev' as <- _.
        destruct (mu4_step_some P p p' _ _ _ _ _ Sh HPp Hlat Hz Hns Hf4 HPat HQ Hps Hx' (Hnd' eq_refl)) as [Hmup Hl2].
        rewrite Hmup, Hev, (ev_ecall_next M' Hd').
        destruct (has_flush (Some x3)) eqn:Hfl3; [change (Z.to_nat 3) with 3%nat; lia|].
        (* the next instruction is the slot of latch 2 *)
        assert (Hne : next_ec M' = is_ec l2).
        { specialize (Hl2 eq_refl). destruct l2 as [x2|]; [|discriminate Hl2].
          pose proof (ev_l2 _ _ _ _ _ _ _ _ _ I) as L2. cbn [lv] in L2. destruct (L2 Logic.I) as (_ & Hon & _).
          destruct (onp_pc P _ _ _ Hon) as [Hi _].
          pose proof (ev_l3 _ _ _ _ _ _ _ _ _ I) as (_ & Hon3 & _).
          destruct (wfL_advE P L (Some x3) (ev_wf _ _ _ _ _ _ _ _ _ I) HPs (ev_exit_s _ _ _ _ _ _ _ _ _ I) Hon3) as [_ HP'].
          unfold next_ec, M'. cbn [after_red]. rewrite HP', Hi. reflexivity. }
        rewrite Hne. destruct (is_ec l2); [change (Z.to_nat 2) with 2%nat|change (Z.to_nat 0) with 0%nat]; lia. }
      rewrite Hw. split; [do 2 f_equal; lia|].
      replace (t + S c)%nat with (S t + c)%nat by lia. rewrite Hlast.
      destruct (lage_events k M') as [|e' tl'] eqn:Ee; [cbn [wlist last]; lia|].
      symmetry. apply last_cons_indep. discriminate.
    + (* nothing retires *)
      assert (Hmu1 : mu4 p' = mu4 p - 1)
        by (apply (mu4_step_none P p p' _ _ _ _ Sh HPp Hlat Hz Hns (ev_exitc _ _ _ _ _ _ _ _ _ I) Hpd Hps)).
      assert (Hrec : tgoal (S k) M p' (S t) /\ 0 <= mu4 p' <= 4 /\ exitc (pst p') = None /\
                     (single_done (lt M) = false -> pipe_done p' = false)).
      { apply Hboth; [exact HinvP'|]. intros Hq. apply (IHm (Z.to_nat (mu4 p'))); [|exact Hq|reflexivity].
        destruct Hq as (? & ? & ? & ? & ? & ? & ? & Iq & _).
        pose proof (mu4_bounds p' (ev_shape _ _ _ _ _ _ _ _ _ Iq)). lia. }
      destruct Hrec as (Hrec & Hmu4 & _). unfold tgoal in *.
      destruct (lage_run (S k) M) as [s' [|f|]] eqn:HrunM; [|exact Logic.I|exact Logic.I].
      destruct Hrec as (c & p'' & Hrun & Hsteps & Hret & Hlast). exists (S c), p''.
      cbn [pipe_run pipe_run_steps pipe_retire_from]. rewrite Hpd, Hps, Hl4, Hsteps.
      split; [exact Hrun|]. split; [reflexivity|]. cbn [some_ret app].
      replace (t + 1 + Z.to_nat (mu4 p))%nat with (S t + 1 + Z.to_nat (mu4 p'))%nat by lia.
      split; [exact Hret|]. replace (t + S c)%nat with (S t + c)%nat by lia. rewrite Hlast.
      assert (Hne : lage_events (S k) M <> []).
      { cbn [lage_run lage_events] in *. rewrite Hd in *. destruct (estep M) as [M1 [g|]]; [discriminate HrunM|discriminate]. }
      destruct (lage_events (S k) M) as [|e evs']; [congruence|]. apply last_indep. discriminate.
Qed.

End Run.

(** * [dwb_events] are the events of this run *)
Lemma dwb_ev_norm d i : Dset d -> instr_at (prog (im (lt (dl d)))) (pc (lt (dl d))) = Some i ->
  dwb_ev d = ev_of (uview (normE (dl d))).
Proof.
  intros [H1 H2] Hi. unfold dwb_ev, normE, next_ec. rewrite Hi. cbv zeta. f_equal. f_equal.
  destruct (is_ecall i); [|reflexivity]. cbn [andb].
  destruct (do1 d) eqn:E1; [reflexivity|]. destruct (do2 d) eqn:E2; [reflexivity|].
  cbn [orb]. symmetry. apply settle_settled; [apply H1; reflexivity|apply H2; reflexivity].
Qed.

Lemma dwb_events_all n : forall d, Dset d -> dwb_events_from n d = lage_events n (dl d).
Proof.
  induction n as [|k IH]; intros d HD; cbn [dwb_events_from lage_events]; [reflexivity|].
  destruct (single_done (lt (dl d))) eqn:Hd; [reflexivity|].
  unfold single_done, has_instr in Hd. destruct (exitc (lt (dl d))) eqn:Hex; [discriminate Hd|].
  destruct (instr_at (prog (im (lt (dl d)))) (pc (lt (dl d)))) as [i|] eqn:Hi; [|discriminate Hd].
  rewrite (dwb_ev_norm d i HD Hi).
  destruct (dwb_step_estep d i HD Hi) as (d' & -> & HD' & Hdl).
  destruct (estep (dl d)) as [M' [f|]]; cbn [fst snd] in *; [reflexivity|].
  rewrite (IH d' HD'), Hdl. reflexivity.
Qed.

(** * The theorem: every supported program, ecall included *)
Theorem flagoff_schedule_lem P s n s' :
  Forall (fun i => supported i = true) P -> wf s -> prog (im s) = P ->
  dwb_run n s = (s', Done) ->
  exists c p,
    pipe_run c (pipe_init s false) = (p, PDone) /\
    pipe_run_steps c (pipe_init s false) = c /\
    pipe_retire c (pipe_init s false) = combine (dwb_trace n s) (schedule_off (dwb_events n s)) /\
    c = total_cycles (schedule_off (dwb_events n s)) /\
    cycles (pst p) = cycles s + Z.of_nat c.
Proof.
  intros HS W HP Hrun. unfold dwb_run, dwb_trace, dwb_events in *.
  destruct (dwb_run_all n (dwb_init s) (Dset_init s)) as [Er Et]. rewrite Er in Hrun. rewrite Et.
  rewrite (dwb_events_all n (dwb_init s) (Dset_init s)). change (dl (dwb_init s)) with (lag_init s) in *.
  rewrite schedule_off_wlist. unfold total_cycles.
  assert (Hcyc : forall c p, pipe_run c (pipe_init s false) = (p, PDone) ->
            pipe_run_steps c (pipe_init s false) = c -> cycles (pst p) = cycles s + Z.of_nat c).
  { intros c p Hr Hs. destruct (wf_flat s W) as [mm Hm].
    pose proof (pipe_run_cycles_flat c (pipe_init s false) mm Hm (wf_noic s W)) as Hc.
    rewrite Hr, Hs in Hc. exact Hc. }
  destruct (exitc s) as [c0|] eqn:Hex.
  - assert (Hd : single_done (lt (lag_init s)) = true) by (unfold single_done; cbn [lag_init lt]; rewrite Hex; reflexivity).
    destruct (lage_run_done n _ Hd) as [_ ->]. rewrite (lage_events_done n _ Hd).
    assert (Hpd : pipe_done (pipe_init s false) = true) by (unfold pipe_done; cbn [pipe_init pst]; rewrite Hex; reflexivity).
    exists 0%nat, (pipe_init s false). unfold pipe_retire. cbn [pipe_run pipe_run_steps pipe_retire_from]. rewrite Hpd.
    repeat split. cbn [pipe_init pst]. lia.
  - assert (HI : EInvQ P (pipe_init s false) (lag_init s)).
    { destruct (einv_init P s W HP Hex) as (l0 & l1 & l2 & l3 & l4 & dead & I).
      exists (lag_init s), l0, l1, l2, l3, l4, dead. split; [exact I|].
      pose proof (ev_lat _ _ _ _ _ _ _ _ _ I) as Hl. cbn [pipe_init lat] in Hl. injection Hl as <- <- <- <- <-.
      split; [|split; [left; reflexivity|intros H; discriminate H]].
      split; [intros d H; discriminate H|]. cbv zeta. cbn [nonempty flush_of].
      split; [intros H; exfalso; apply H; reflexivity|]. intros _ _. destruct (has_instr _ _); reflexivity. }
    pose proof (tsimE P HS n _ _ 0%nat HI) as H. unfold tgoal in H. rewrite Hrun in H.
    assert (Hmu : mu4 (pipe_init s false) = 4) by reflexivity. rewrite Hmu in H.
    change (0 + 1 + Z.to_nat 4)%nat with 5%nat in H.
    destruct H as (c & p & Hr & Hs & Hret & Hlast). exists c, p.
    split; [exact Hr|]. split; [exact Hs|]. split; [exact Hret|]. split; [exact Hlast|].
    apply Hcyc; assumption.
Qed.
Print Assumptions flagoff_schedule_lem.
