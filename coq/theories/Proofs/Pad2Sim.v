(* Pad2Sim.v — property C08, the padding clause: [pad2 P] (two canonical nops behind every
   instruction, branch / jal offsets scaled by 3; Proofs/FlagOffDep.v) computes in single-cycle
   mode what P computes, for programs that do not depend on absolute code addresses.

   padable_instr i   supported, not jalr, not auipc; a jal has rd = x0 (no link value); the
                     scaled offset 3 * imm still fits the branch / jal immediate field
   padable P         all instructions padable and 3 * |P| <= 4096 (the program memory)
   Rp s s'           s' is s with the padded program and the pc scaled by 3: registers, memory
                     system, output, exit code, branch and call counters equal
   step_cost s       padded steps for one step of P: 1 if the step faults, exits or redirects
                     (taken branch, jal: the two nops behind it are jumped over), 3 otherwise
   pcost n s         the sum along the run of P *)
From Coq Require Import Lia ZifyBool.
From ArchSim Require Import Model.Base Model.Mem Model.Cache Model.Fmt Model.RV Model.Single
  Model.RVSplit Model.Pipe Proofs.WordLemmas Proofs.C01Step Proofs.SplitExec Proofs.PipeLaws Proofs.PipeShape
  Proofs.PipeInv Proofs.PipeInvBase Proofs.PipeInvStages Proofs.PipeInvStraight Proofs.PipeInvEcall
  Proofs.FlagOffDep.
Open Scope Z_scope.

Ltac Zify.zify_post_hook ::= Z.to_euclidean_division_equations.
Local Arguments Z.mul : simpl never.
Local Arguments Z.add : simpl never.
Local Arguments Z.sub : simpl never.
Local Arguments Z.div : simpl never.
Local Arguments Z.modulo : simpl never.

(** * The side condition *)
Definition padable_instr (i : instr) : bool :=
  match i with
  | IJalr _ _ _ | IAuipc _ _ | IEbreak | IFence | ICsr _ _ _ _ | ICsri _ _ _ _ => false
  | IJal rd imm _ => (rd =? 0) && (-1048576 <=? 3 * imm) && (3 * imm <? 1048576)
  | IBranch _ _ _ imm => (-4096 <=? 3 * imm) && (3 * imm <? 4096)
  | _ => true
  end.
Definition padable (P : list instr) : bool :=
  forallb padable_instr P && (3 * Z.of_nat (length P) <=? 4096).

Lemma padable_supported i : padable_instr i = true -> supported i = true.
Proof. destruct i; intros H; try discriminate H; reflexivity. Qed.

Lemma padable_wf_scale i : padable_instr i = true -> wf_instr i -> wf_instr (scale3 i).
Proof. destruct i; intros H W; try discriminate H; cbn [scale3 wf_instr padable_instr] in *; try exact W; intuition lia. Qed.

Lemma wf_nop : wf_instr nop. Proof. cbn. unfold reg_ok. lia. Qed.

(** * The padded program, by address *)
Lemma pad2_nth P : forall k,
  nth_error (pad2 P) (3 * k) = option_map scale3 (nth_error P k) /\
  (nth_error P k <> None -> nth_error (pad2 P) (3 * k + 1) = Some nop /\ nth_error (pad2 P) (3 * k + 2) = Some nop).
Proof.
  unfold pad2. induction P as [|i t IH]; intros k.
  - cbn [flat_map]. destruct k; cbn; (split; [reflexivity|intros H; exfalso; apply H; reflexivity]).
  - cbn [flat_map app]. destruct k as [|k].
    + cbn. split; [reflexivity|]. intros _. split; reflexivity.
    + replace (3 * S k)%nat with (S (S (S (3 * k))))%nat by lia.
      replace (S (S (S (3 * k))) + 1)%nat with (S (S (S (3 * k + 1))))%nat by lia.
      replace (S (S (S (3 * k))) + 2)%nat with (S (S (S (3 * k + 2))))%nat by lia.
      cbn [nth_error]. apply IH.
Qed.

Lemma instr_at_pad2 P a : instr_at (pad2 P) (3 * a) = option_map scale3 (instr_at P a).
Proof.
  unfold instr_at. rewrite pad2_length.
  destruct ((0 <=? a) && (a mod 4 =? 0) && (a / 4 <? Z.of_nat (length P))) eqn:E.
  - assert (H : (0 <=? 3 * a) && ((3 * a) mod 4 =? 0) && (3 * a / 4 <? Z.of_nat (3 * length P)) = true) by lia.
    rewrite H. replace (Z.to_nat (3 * a / 4)) with (3 * Z.to_nat (a / 4))%nat by lia. apply pad2_nth.
  - assert (H : (0 <=? 3 * a) && ((3 * a) mod 4 =? 0) && (3 * a / 4 <? Z.of_nat (3 * length P)) = false) by lia.
    rewrite H. reflexivity.
Qed.

Lemma instr_at_pad2_nop P a i j : instr_at P a = Some i -> j = 4 \/ j = 8 -> instr_at (pad2 P) (3 * a + j) = Some nop.
Proof.
  unfold instr_at. rewrite pad2_length.
  destruct ((0 <=? a) && (a mod 4 =? 0) && (a / 4 <? Z.of_nat (length P))) eqn:E; [|discriminate].
  intros Hi Hj.
  assert (H : (0 <=? 3 * a + j) && ((3 * a + j) mod 4 =? 0) && ((3 * a + j) / 4 <? Z.of_nat (3 * length P)) = true) by lia.
  rewrite H. destruct (pad2_nth P (Z.to_nat (a / 4))) as [_ Hn].
  destruct (Hn ltac:(rewrite Hi; discriminate)) as [H1 H2].
  destruct Hj as [-> | ->].
  - replace (Z.to_nat ((3 * a + 4) / 4)) with (3 * Z.to_nat (a / 4) + 1)%nat by lia. exact H1.
  - replace (Z.to_nat ((3 * a + 8) / 4)) with (3 * Z.to_nat (a / 4) + 2)%nat by lia. exact H2.
Qed.

(** * States that agree on the architectural components *)
Definition aeq (s s' : st) : Prop :=
  regs s' = regs s /\ ms s' = ms s /\ out s' = out s /\ exitc s' = exitc s /\
  bcount s' = bcount s /\ pcount s' = pcount s.

Lemma aeq_rset s s' r v : aeq s s' -> aeq (rset s r v) (rset s' r v) /\
  pc (rset s r v) = pc s /\ pc (rset s' r v) = pc s'.
Proof.
  intros (Hr & Hm & Ho & He & Hb & Hp). unfold rset. destruct ((0 <? r) && (r <? 32)).
  - unfold aeq. cbn. rewrite Hr. repeat split; assumption.
  - repeat split; assumption.
Qed.

(* one instruction on agreeing states, the pc scaled by 3 *)
Lemma beh_sim i s s' m : aeq s s' -> ms s = MFlat m -> pc s' = 3 * pc s -> padable_instr i = true ->
  snd (behavior (scale3 i) s') = snd (behavior i s) /\
  aeq (fst (behavior i s)) (fst (behavior (scale3 i) s')) /\
  pc (fst (behavior (scale3 i) s')) + 4 =
    (if redirects i s then 3 * (pc (fst (behavior i s)) + 4) else 3 * pc (fst (behavior i s)) + 4).
Proof.
  intros A Hm Hpc Hp. pose proof A as (Hr & Hms & Ho & He & Hb & Hpn).
  assert (Hg : forall r, rget s' r = rget s r) by (intros r; unfold rget; rewrite Hr; reflexivity).
  assert (Hm' : ms s' = MFlat m) by congruence.
  destruct i; try discriminate Hp; cbn [scale3 behavior redirects].
  - (* R *) rewrite !Hg. destruct (aeq_rset s s' rd (r_behavior o (rget s rs1) (rget s rs2)) A) as (A' & P1 & P2).
    cbn [fst snd]. rewrite P1, P2. split; [reflexivity|]. split; [exact A'|lia].
  - rewrite !Hg. destruct (aeq_rset s s' rd (i_behavior o (rget s rs1) imm) A) as (A' & P1 & P2).
    cbn [fst snd]. rewrite P1, P2. split; [reflexivity|]. split; [exact A'|lia].
  - rewrite !Hg. destruct (aeq_rset s s' rd (sh_behavior o (rget s rs1) imm) A) as (A' & P1 & P2).
    cbn [fst snd]. rewrite P1, P2. split; [reflexivity|]. split; [exact A'|lia].
  - (* load *) rewrite !Hg, (st_read_flat s m), (st_read_flat s' m) by assumption.
    destruct (mem_read rv_memcfg m (load_bits o) (rget s rs1 + imm)) as [v|e]; cbn [fst snd].
    + destruct (aeq_rset s s' rd (load_ext o v) A) as (A' & P1 & P2). rewrite P1, P2.
      split; [reflexivity|]. split; [exact A'|lia].
    + split; [reflexivity|]. split; [exact A|lia].
  - (* ecall *)
    pose proof (process_ecall_cong s' s m Hr Hm' Hm) as Hc.
    pose proof (process_ecall_flat s m Hm) as F1. pose proof (process_ecall_flat s' m Hm') as F2.
    destruct (process_ecall s) as [r1 t1], (process_ecall s') as [r2 t2]. cbn [fst snd] in *. subst r2 t1 t2.
    destruct r1 as [[t|c]|e]; cbn [fst snd]; (split; [reflexivity|]); (split; [|cbn; lia]).
    + unfold aeq. cbn. rewrite Ho. repeat split; assumption.
    + unfold aeq. cbn. repeat split; assumption.
    + exact A.
  - (* store *) rewrite !Hg, (st_write_flat s m), (st_write_flat s' m) by assumption.
    destruct (mem_write rv_memcfg m (store_bits o) (U32 (rget s rs1 + U32 imm)) (U (store_bits o) (rget s rs2))) as [m2 [e|]];
      cbn [fst snd]; (split; [reflexivity|]); (split; [unfold aeq; cbn; repeat split; assumption|cbn; lia]).
  - (* branch *) rewrite !Hg. destruct (b_cond o (rget s rs1) (rget s rs2)); cbn [fst snd].
    + split; [reflexivity|]. split; [unfold aeq; cbn; rewrite Hb; repeat split; assumption|cbn; lia].
    + split; [reflexivity|]. split; [exact A|lia].
  - (* lui *) destruct (aeq_rset s s' rd (U32 (Z.shiftl imm 12)) A) as (A' & P1 & P2).
    cbn [fst snd]. rewrite P1, P2. split; [reflexivity|]. split; [exact A'|lia].
  - (* jal with rd = x0: no link value *)
    assert (Hrd : rd = 0) by (cbn [padable_instr] in Hp; lia). subst rd.
    unfold rset. cbn [andb]. change (0 <? 0) with false. cbn [andb fst snd].
    split; [reflexivity|]. split; [unfold aeq; cbn; rewrite Hpn; repeat split; assumption|cbn; lia].
Qed.

(** * The relation between the run of P and the run of [pad2 P] *)
Record Rp (s s' : st) : Prop := mkRp {
  rp_aeq : aeq s s';
  rp_pc : pc s' = 3 * pc s;
  rp_prog : prog (im s') = pad2 (prog (im s));
  rp_wf : wf s;
  rp_wf' : wf s';
  rp_pad : forallb padable_instr (prog (im s)) = true }.

Definition scale_fault (f : fault) : fault :=
  {| f_addr := 3 * f_addr f; f_instr := scale3 (f_instr f); f_err := f_err f |}.

Definition step_cost (s : st) : nat :=
  match single_pipeline_step s with
  | (_, Some _) => 1
  | (t, None) =>
      match exitc t with
      | Some _ => 1
      | None => match instr_at (prog (im s)) (pc s) with
                | Some i => if redirects i s then 1 else 3
                | None => 0
                end
      end
  end%nat.

Fixpoint pcost (n : nat) (s : st) : nat :=
  match n with
  | O => O
  | S k => if single_done s then O
           else match single_pipeline_step s with
                | (_, Some _) => 1
                | (t, None) => step_cost s + pcost k t
                end
  end%nat.

Lemma aeq_refl s : aeq s s. Proof. repeat split. Qed.
Lemma aeq_trans a b c : aeq a b -> aeq b c -> aeq a c.
Proof. unfold aeq. intuition congruence. Qed.

Lemma forallb_at (f : instr -> bool) P a i : forallb f P = true -> instr_at P a = Some i -> f i = true.
Proof.
  intros H Hi. rewrite forallb_forall in H. apply H. unfold instr_at in Hi.
  destruct (_ && _); [|discriminate]. eapply nth_error_In; eauto.
Qed.

Lemma not_done_parts s : single_done s = false ->
  exitc s = None /\ exists i, instr_at (prog (im s)) (pc s) = Some i.
Proof.
  unfold single_done, has_instr. destruct (exitc s); [discriminate|].
  destruct (instr_at (prog (im s)) (pc s)) as [i|]; [|discriminate]. intros _. split; [reflexivity|eauto].
Qed.

Lemma done_parts s i : exitc s = None -> instr_at (prog (im s)) (pc s) = Some i -> single_done s = false.
Proof. intros He Hi. unfold single_done, has_instr. rewrite He, Hi. reflexivity. Qed.

(* one nop *)
Lemma nop_step u : wf u -> exitc u = None -> instr_at (prog (im u)) (pc u) = Some nop ->
  exists u', single_pipeline_step u = (u', None) /\ single_done u = false /\ aeq u u' /\
    pc u' = pc u + 4 /\ prog (im u') = prog (im u) /\ wf u'.
Proof.
  intros W He Hi. pose proof (done_parts u nop He Hi) as Hd.
  destruct (step_refines u W Hd) as (_ & _ & W' & HP'). cbv zeta in *.
  rewrite (sstep_eq u nop W Hi) in *. cbn [nop behavior] in *. unfold rset in *.
  change ((0 <? 0) && (0 <? 32)) with false in *. cbv iota in *. cbn [fst snd] in *.
  eexists. split; [reflexivity|]. split; [exact Hd|]. split; [repeat split|].
  split; [reflexivity|]. split; assumption.
Qed.

Lemma redirects_pre i s : redirects i (pre s) = redirects i s.
Proof. destruct i; reflexivity. Qed.

Lemma exit_only_ecall i s : supported i = true -> exitc s = None -> exitc (fst (behavior i s)) <> None ->
  redirects i s = false.
Proof.
  intros Hs He Hx. destruct (is_ecall i) eqn:Ec; [apply is_ecall_true in Ec; subst i; reflexivity|].
  exfalso. apply Hx. assert (Hn : PipeInvControl.noecall i = true) by (unfold PipeInvControl.noecall; rewrite Hs, Ec; reflexivity).
  destruct (PipeInvControl.behavior_noecall i s Hn) as [_ H]. congruence.
Qed.

(** * One step of P = the padded instruction, then the two nops unless it faults, exits or jumps *)
Lemma pad_step s s' : Rp s s' -> single_done s = false ->
  match single_pipeline_step s with
  | (t, Some f) => exists t', single_pipeline_step s' = (t', Some (scale_fault f)) /\ single_done s' = false /\
                     regs t' = regs t /\ ms t' = ms t /\ out t' = out t
  | (t, None) => exists t', (forall k, single_run (step_cost s + k) s' = single_run k t') /\ aeq t t' /\
                     (exitc t = None -> Rp t t') /\ (exitc t <> None -> pc t' = 3 * pc t - 8)
  end.
Proof.
  intros [A Hpc HP W W' Hpad] Hd.
  destruct (not_done_parts s Hd) as (He & i & Hi).
  pose proof (forallb_at _ _ _ _ Hpad Hi) as Hpi. pose proof (padable_supported i Hpi) as Hsup.
  pose proof A as (Ar & Am & Ao & Ae & Ab & Ap).
  assert (Hi' : instr_at (prog (im s')) (pc s') = Some (scale3 i)) by (rewrite HP, Hpc, instr_at_pad2, Hi; reflexivity).
  assert (He' : exitc s' = None) by congruence.
  pose proof (done_parts s' _ He' Hi') as Hd'.
  destruct (step_refines s W Hd) as (_ & _ & Wt & HPt). destruct (step_refines s' W' Hd') as (_ & _ & Wt' & HPt').
  cbv zeta in *. unfold step_cost. rewrite Hi.
  rewrite (sstep_eq s i W Hi) in *. rewrite (sstep_eq s' (scale3 i) W' Hi') in *.
  destruct (wf_flat s W) as [m Hm].
  assert (Apre : aeq (pre s) (pre s')) by exact A.
  destruct (beh_sim i (pre s) (pre s') m Apre Hm Hpc Hpi) as (Hs & Ab' & Hpcb).
  rewrite redirects_pre in Hpcb.
  pose proof (exit_only_ecall i (pre s) Hsup He) as Hex. rewrite redirects_pre in Hex.
  destruct (behavior i (pre s)) as [b [e|]] eqn:Eb0; destruct (behavior (scale3 i) (pre s')) as [b' e'] eqn:Eb'; cbn [fst snd] in *; subst e'; cbv beta iota delta [fst snd] in HPt', Wt'.
  - (* fault *)
    eexists. split; [unfold scale_fault, mkfault; cbn [f_addr f_instr f_err]; rewrite Hpc; reflexivity|].
    split; [exact Hd'|]. destruct Ab' as (H1 & H2 & H3 & _). repeat split; assumption.
  - set (t := with_pc b (pc b + 4)) in *. set (t1 := with_pc b' (pc b' + 4)) in *.
    assert (At : aeq t t1) by exact Ab'.
    assert (Hst1 : single_pipeline_step s' = (t1, None)) by (rewrite (sstep_eq s' (scale3 i) W' Hi'), Eb'; reflexivity).
    assert (Hrun1 : forall k, single_run (1 + k) s' = single_run k t1).
    { intros k. apply (single_run_step k s' t1 Hd' Hst1). }
    change (exitc t) with (exitc b) in *.
    destruct (exitc b) as [c|] eqn:Eb.
    + (* exit *)
      exists t1. split; [exact Hrun1|]. split; [exact At|]. split; [intros H; discriminate H|].
      intros _. rewrite (Hex ltac:(discriminate)) in Hpcb. subst t t1. cbn [pc with_pc]. lia.
    + destruct (redirects i s) eqn:Er; rewrite ?Er in Hpcb.
      * (* taken branch / jal *)
        exists t1. split; [exact Hrun1|]. split; [exact At|]. split; [|intros H; exfalso; apply H; reflexivity].
        intros _. constructor; try assumption;
          subst t t1; cbn [pc im with_pc] in *; first [lia|congruence].
      * (* sequential: the two nops *)
        rewrite <- (redirects_pre i s) in Er. pose proof (behavior_pc i (pre s) Er) as Hpb. rewrite Eb0 in Hpb. cbn [fst] in Hpb.
        rewrite Hpb in Hpcb. change (pc (pre s)) with (pc s) in Hpcb.
        assert (Hpt1 : pc t1 = 3 * pc s + 4) by (subst t1; cbn [pc with_pc]; lia).
        assert (HPt1 : prog (im t1) = pad2 (prog (im s))) by (subst t1; cbn [im with_pc] in *; congruence).
        assert (Het1 : exitc t1 = None) by (destruct At as (_ & _ & _ & H & _); subst t; cbn [exitc with_pc] in *; congruence).
        destruct (nop_step t1 Wt' Het1 ltac:(rewrite HPt1, Hpt1; apply (instr_at_pad2_nop _ _ i); auto))
          as (t2 & Hs2 & Hd2 & A2 & Hp2 & HP2 & W2).
        assert (Het2 : exitc t2 = None) by (destruct A2 as (_ & _ & _ & H & _); congruence).
        destruct (nop_step t2 W2 Het2 ltac:(rewrite HP2, HPt1, Hp2, Hpt1; replace (3 * pc s + 4 + 4) with (3 * pc s + 8) by lia;
                    apply (instr_at_pad2_nop _ _ i); auto))
          as (t3 & Hs3 & Hd3 & A3 & Hp3 & HP3 & W3).
        exists t3. split.
        { intros k. change (3 + k)%nat with (S (S (S k))).
          rewrite (proj1 (single_run_step (S (S k)) s' t1 Hd' Hst1)).
          rewrite (proj1 (single_run_step (S k) t1 t2 Hd2 Hs2)).
          rewrite (proj1 (single_run_step k t2 t3 Hd3 Hs3)). reflexivity. }
        split; [exact (aeq_trans _ _ _ At (aeq_trans _ _ _ A2 A3))|].
        split; [|intros H; exfalso; apply H; reflexivity].
        intros _. constructor; try assumption;
          [exact (aeq_trans _ _ _ At (aeq_trans _ _ _ A2 A3))
          |subst t; cbn [pc with_pc]; rewrite Hpb; change (pc (pre s)) with (pc s); lia
          |subst t; cbn [im with_pc] in *; congruence
          |subst t; cbn [im with_pc] in *; congruence].
Qed.
