(* IndepRefPolicy.v — properties C09 / C11, spec independence: a reference cache whose
   replacement policy is the SPECIFICATION of Spec/Policy.v (LRU = the access history of the set,
   victim = the way that is [older] than every other; PLRU = the tree of direction bits), not the
   model's [pol_init]/[pol_access]/[pol_victim].  Tags only, no data.

   Part 1 (this file): the reference, self-contained — it restates the three-field address split
   and uses from Spec/Policy.v only [last_access], [ptree], [tree_init], [tree_victim],
   [tree_access] — and the refinement of the model's policy state by the specification state
   (from the theorems of property C10). *)
From Coq Require Import Lia ZifyBool.
From ArchSim Require Import Model.Base Model.Cache Spec.Policy Proofs.C10Proofs.
Open Scope Z_scope.

(** * The reference, over the specification policies *)
Record sgeom := { s_ibits : Z; s_bbits : Z; s_assoc : Z; s_plru : bool }.

(* address = tag | index (ibits) | word in block (bbits) | byte (2), modulo 2^32 *)
Definition s_idx (g : sgeom) (a : Z) : Z := ((a mod 2 ^ 32) / 2 ^ (s_bbits g + 2)) mod 2 ^ s_ibits g.
Definition s_tag (g : sgeom) (a : Z) : Z := (a mod 2 ^ 32) / 2 ^ (s_ibits g + s_bbits g + 2).

Inductive spol :=
| SLRU (n : Z) (h : list Z)          (* the ways accessed so far, oldest first *)
| SPLRU (d : nat) (t : ptree).       (* 2^d ways, the tree of direction bits *)

(* way i is replaced before way j (Spec/Policy.v, [older], as a boolean) *)
Definition olderb (h : list Z) (i j : Z) : bool :=
  match last_access h i, last_access h j with
  | None, None => i <? j
  | None, Some _ => true
  | Some _, None => false
  | Some a, Some b => (a <? b)%nat
  end.
(* the LRU victim: the way that is older than every other way *)
Definition lru_victim (n : Z) (h : list Z) : Z :=
  let ways := zrange_from 0 (Z.to_nat n) in
  match find (fun v => forallb (fun j => (j =? v) || olderb h v j) ways) ways with
  | Some v => v
  | None => 0
  end.

Definition spol_init (plru : bool) (n : Z) : spol :=
  if plru then SPLRU (Z.to_nat (Z.log2 n)) (tree_init (Z.to_nat (Z.log2 n))) else SLRU n [].
Definition spol_victim (p : spol) : Z :=
  match p with SLRU n h => lru_victim n h | SPLRU d t => tree_victim d t end.
Definition spol_access (p : spol) (k : Z) : spol :=
  match p with SLRU n h => SLRU n (h ++ [k]) | SPLRU d t => SPLRU d (tree_access d k t) end.

Record sset := { stags : list (option Z); spl : spol }.
Definition sdir := list sset.
Definition s_init_set (g : sgeom) : sset :=
  {| stags := repeat None (Z.to_nat (s_assoc g)); spl := spol_init (s_plru g) (s_assoc g) |}.
Definition s_init (g : sgeom) : sdir := repeat (s_init_set g) (Z.to_nat (2 ^ s_ibits g)).
Definition s_dummy : sset := {| stags := []; spl := SLRU 0 [] |}.

Fixpoint s_way (ways : list (option Z)) (tag : Z) (i : Z) : option Z :=
  match ways with
  | [] => None
  | Some t :: rest => if t =? tag then Some i else s_way rest tag (i + 1)
  | None :: rest => s_way rest tag (i + 1)
  end.
Definition s_lookup (r : sdir) (idx tag : Z) : bool :=
  match s_way (stags (nthZ r idx s_dummy)) tag 0 with Some _ => true | None => false end.

Definition s_set_touch (allocate : bool) (s : sset) (tag : Z) : sset :=
  match s_way (stags s) tag 0 with
  | Some w => {| stags := stags s; spl := spol_access (spl s) w |}
  | None =>
      if allocate then
        let v := spol_victim (spl s) in
        {| stags := set_nthZ (stags s) v (Some tag); spl := spol_access (spl s) v |}
      else s
  end.
Definition s_touch (allocate : bool) (r : sdir) (idx tag : Z) : sdir :=
  set_nthZ r idx (s_set_touch allocate (nthZ r idx s_dummy) tag).

(* what the reference sees of an operation *)
Inductive sacc := SRead (a : Z) (counted : bool) | SWrite (a : Z) (direct : bool).

(* hits, accesses, last access was a hit *)
Record scache := { sc_dir : sdir; sc_hits : Z; sc_acc : Z; sc_last : bool }.
Definition scache_init (g : sgeom) : scache := {| sc_dir := s_init g; sc_hits := 0; sc_acc := 0; sc_last := false |}.

Definition s_count (r : scache) (dir' : sdir) (hit : bool) : scache :=
  {| sc_dir := dir'; sc_hits := sc_hits r + (if hit then 1 else 0); sc_acc := sc_acc r + 1; sc_last := hit |}.
Definition s_keep (r : scache) (dir' : sdir) : scache :=
  {| sc_dir := dir'; sc_hits := sc_hits r; sc_acc := sc_acc r; sc_last := sc_last r |}.

(* wt: write-through / no-write-allocate (true) or write-back / write-allocate (false);
   result: new state and the cycles this operation adds *)
Definition s_step (g : sgeom) (wt : bool) (pen : Z) (r : scache) (x : sacc) : scache * Z :=
  match x with
  | SRead a counted =>
      let hit := s_lookup (sc_dir r) (s_idx g a) (s_tag g a) in
      let dir' := s_touch true (sc_dir r) (s_idx g a) (s_tag g a) in
      if counted then (s_count r dir' hit, if hit then 0 else pen) else (s_keep r dir', 0)
  | SWrite a true => (r, 0)
  | SWrite a false =>
      let hit := s_lookup (sc_dir r) (s_idx g a) (s_tag g a) in
      (s_count r (s_touch (negb wt) (sc_dir r) (s_idx g a) (s_tag g a)) hit, if hit then 0 else pen)
  end.

(* (hits, accesses, last-hit flag, penalty) after every operation *)
Fixpoint s_run (g : sgeom) (wt : bool) (pen : Z) (r : scache) (xs : list sacc) : list (Z * Z * bool * Z) :=
  match xs with
  | [] => []
  | x :: t => let '(r', p) := s_step g wt pen r x in
              (sc_hits r', sc_acc r', sc_last r', p) :: s_run g wt pen r' t
  end.

(** * The model's policy state refines the specification state *)
Definition Rpol (n : Z) (p : pol) (sp : spol) : Prop :=
  match sp with
  | SLRU n' h => n' = n /\ in_range n h /\ p = run (pol_init false n) h
  | SPLRU d t => n = 2 ^ Z.of_nat d /\ exists bits, p = PLRU n bits /\
                 length bits = Z.to_nat (n - 1) /\ heap_tree bits d 0 = t
  end.

Lemma zr_In s n x : In x (zrange_from s n) <-> s <= x < s + Z.of_nat n.
Proof.
  revert s. induction n as [|n IH]; intros s; cbn [zrange_from In]; [lia|]. rewrite IH. lia.
Qed.

Lemma olderb_older h i j : olderb h i j = true <-> older h i j.
Proof.
  unfold olderb, older. destruct (last_access h i), (last_access h j); try lia; split; auto; discriminate.
Qed.

Definition is_victim (n : Z) (h : list Z) (v : Z) : Prop :=
  0 <= v < n /\ forall j, 0 <= j < n -> j <> v -> older h v j.

Lemma model_victim_is_victim n h : 1 <= n -> in_range n h ->
  is_victim n h (pol_victim (run (pol_init false n) h)).
Proof.
  intros Hn Hr. destruct (lru_victim_proof n h Hn Hr) as (Hv & Hnone & Hall). cbv zeta in *.
  set (v := pol_victim (run (pol_init false n) h)) in *.
  split; [exact Hv|]. intros j Hj Hne. unfold older.
  destruct (last_access h v) as [a|] eqn:Ev.
  - assert (Hallacc : forall j, 0 <= j < n -> last_access h j <> None).
    { intros k Hk Hk'. destruct (Hnone (ex_intro _ k (conj Hk Hk'))) as [H _]. discriminate H. }
    destruct (Hall Hallacc j Hj Hne) as (a' & b & Ha & Hb & Hab). rewrite Hb. congruence.
  - destruct (last_access h j) as [b|] eqn:Ej; [exact Logic.I|].
    destruct (Hnone (ex_intro _ v (conj Hv Ev))) as [_ Hmin]. specialize (Hmin j Hj Ej). lia.
Qed.

Lemma victim_unique n h v v' : is_victim n h v -> is_victim n h v' -> v = v'.
Proof.
  intros [Hv Ho] [Hv' Ho']. destruct (Z.eq_dec v v') as [E|E]; [exact E|]. exfalso.
  destruct (older_strict_total_proof h v v') as (_ & Has & _).
  apply Has; [apply Ho; [exact Hv'|congruence]|apply Ho'; [exact Hv|congruence]].
Qed.

Lemma find_unique {A} (P : A -> bool) : forall l x, In x l -> P x = true ->
  (forall y, In y l -> P y = true -> y = x) -> find P l = Some x.
Proof.
  induction l as [|y t IH]; intros x Hin Hx Hu; [destruct Hin|]. cbn [find].
  destruct (P y) eqn:E.
  - f_equal. apply Hu; [left; reflexivity|exact E].
  - destruct Hin as [->|Hin]; [congruence|]. apply IH; [exact Hin|exact Hx|].
    intros z Hz. apply Hu. right. exact Hz.
Qed.

Lemma lru_victim_model n h : 1 <= n -> in_range n h ->
  lru_victim n h = pol_victim (run (pol_init false n) h).
Proof.
  intros Hn Hr. pose proof (model_victim_is_victim n h Hn Hr) as HV.
  set (v0 := pol_victim (run (pol_init false n) h)) in *.
  assert (Hchk : forall v, 0 <= v < n ->
            (forallb (fun j => (j =? v) || olderb h v j) (zrange_from 0 (Z.to_nat n)) = true <-> is_victim n h v)).
  { intros v Hv. rewrite forallb_forall. split.
    - intros H. split; [exact Hv|]. intros j Hj Hne.
      specialize (H j ltac:(apply zr_In; lia)). apply Bool.orb_true_iff in H.
      destruct H as [H|H]; [lia|apply olderb_older; exact H].
    - intros [_ H] j Hj. apply zr_In in Hj. destruct (Z.eq_dec j v) as [->|E]; [rewrite Z.eqb_refl; reflexivity|].
      apply Bool.orb_true_iff. right. apply olderb_older. apply H; lia. }
  unfold lru_victim.
  rewrite (find_unique _ _ v0); [reflexivity| | |].
  - apply zr_In. destruct HV as [H _]. lia.
  - apply Hchk; [apply HV|exact HV].
  - intros y Hy Hc. apply zr_In in Hy. symmetry. apply (victim_unique n h); [exact HV|].
    apply Hchk; [lia|exact Hc].
Qed.

Lemma Rpol_victim n p sp : 1 <= n -> Rpol n p sp -> pol_victim p = spol_victim sp /\ 0 <= pol_victim p < n.
Proof.
  intros Hn. destruct sp as [n' h|d t]; cbn [Rpol spol_victim].
  - intros (-> & Hr & ->). split; [symmetry; apply lru_victim_model; assumption|].
    apply (model_victim_is_victim n h Hn Hr).
  - intros (-> & bits & -> & Hl & <-).
    destruct (plru_tree_refines_proof d bits) as (Hv & Hrg & _). split; assumption.
Qed.

Lemma run_snoc p h k : run p (h ++ [k]) = pol_access (run p h) k.
Proof. unfold run. rewrite fold_left_app. reflexivity. Qed.

Lemma Rpol_access n p sp k : 0 <= k < n -> Rpol n p sp -> Rpol n (pol_access p k) (spol_access sp k).
Proof.
  intros Hk. destruct sp as [n' h|d t]; cbn [Rpol spol_access].
  - intros (-> & Hr & ->). split; [reflexivity|]. split; [|symmetry; apply run_snoc].
    unfold in_range in *. apply Forall_app. split; [exact Hr|]. constructor; [exact Hk|constructor].
  - intros (-> & bits & -> & Hl & <-).
    destruct (plru_tree_refines_proof d bits) as (_ & _ & Hacc).
    destruct (Hacc Hl k Hk) as (bits' & E & Hl' & Ht). split; [reflexivity|].
    exists bits'. split; [exact E|]. split; [congruence|exact Ht].
Qed.

Lemma Rpol_init plru n : 1 <= n -> (plru = true -> exists k : nat, n = 2 ^ Z.of_nat k) ->
  Rpol n (pol_init plru n) (spol_init plru n).
Proof.
  intros Hn Hp. unfold spol_init. destruct plru; cbn [Rpol].
  - destruct (Hp eq_refl) as [k ->]. rewrite Z.log2_pow2 by lia. rewrite Nat2Z.id.
    split; [reflexivity|]. destruct (plru_run_proof k [] ltac:(constructor)) as (bits & E & Hl & Ht & _).
    exists bits. cbn [run fold_left] in E, Ht. split; [exact E|]. split; [exact Hl|exact Ht].
  - split; [reflexivity|]. split; [constructor|reflexivity].
Qed.

(* adequacy of the computable LRU victim: it is THE way that is older than every other way *)
Lemma lru_victim_oldest n h : 1 <= n -> in_range n h ->
  is_victim n h (lru_victim n h) /\ forall v, is_victim n h v -> v = lru_victim n h.
Proof.
  intros Hn Hr. rewrite (lru_victim_model n h Hn Hr). pose proof (model_victim_is_victim n h Hn Hr) as HV.
  split; [exact HV|]. intros v Hv. apply (victim_unique n h); assumption.
Qed.

Lemma Rpol_refines n p sp : 1 <= n -> Rpol n p sp ->
  (pol_victim p = spol_victim sp /\ 0 <= pol_victim p < n) /\
  (forall k, 0 <= k < n -> Rpol n (pol_access p k) (spol_access sp k)).
Proof. intros Hn H. split; [apply Rpol_victim; assumption|]. intros k Hk. apply Rpol_access; assumption. Qed.
