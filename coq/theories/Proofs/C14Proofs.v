(* C14Proofs.v — property C14: the text printed for an instruction (instr_repr) re-assembles, at
   the same address, to the same instruction.  The tokenisation of the printed text is
   [repr_tokens] (Model/Asm.v); [render] below prints a token record back in the canonical
   spelling, which shows that [repr_tokens i] carries exactly the operand strings of
   [instr_repr i]. *)
From Coq Require Import Lia ZifyBool.
From ArchSim Require Import Model.Base Model.Mem Model.Cache Model.Fmt Model.RV Model.Toy Model.Asm
  Proofs.C04Proofs.
Open Scope Z_scope.

Ltac Zify.zify_post_hook ::= Z.to_euclidean_division_equations.
Local Arguments Z.mul : simpl never.
Local Arguments Z.add : simpl never.
Local Arguments Z.sub : simpl never.
Local Arguments Z.pow : simpl never.
Local Arguments Z.div : simpl never.
Local Arguments Z.modulo : simpl never.
Local Arguments Z.land : simpl never.
Local Arguments Z.of_nat : simpl never.

(** * Vocabulary *)

Definition enc_reg (r : Z) : Prop := 0 <= r < 32.

(* the operand ranges of the instruction formats; for jal the printed operand is the absolute
   target [abs] = imm + address, so the address matters (even, as every instruction address) *)
Definition encodable_at (a : Z) (i : instr) : Prop :=
  match i with
  | IR _ rd rs1 rs2 => enc_reg rd /\ enc_reg rs1 /\ enc_reg rs2
  | II _ rd rs1 imm | ILoad _ rd rs1 imm | IJalr rd rs1 imm =>
      enc_reg rd /\ enc_reg rs1 /\ -2048 <= imm < 2048
  | ISh _ rd rs1 imm => enc_reg rd /\ enc_reg rs1 /\ 0 <= imm < 32
  | IStore _ rs1 rs2 imm => enc_reg rs1 /\ enc_reg rs2 /\ -2048 <= imm < 2048
  | IBranch _ rs1 rs2 imm => enc_reg rs1 /\ enc_reg rs2 /\ -4096 <= imm < 4096 /\ imm mod 2 = 0
  | ILui rd imm | IAuipc rd imm => enc_reg rd /\ -524288 <= imm < 524288
  | IJal rd imm abs =>
      enc_reg rd /\ -1048576 <= imm < 1048576 /\ imm mod 2 = 0 /\ abs = imm + a /\
      a mod 2 = 0 /\ 0 <= a < 4294967296
  | IEcall | IEbreak => True
  | IFence => False
  | ICsr _ rd csr rs1 => enc_reg rd /\ enc_reg rs1 /\ 0 <= csr < 4096
  | ICsri _ rd csr u => enc_reg rd /\ 0 <= csr < 4096 /\ 0 <= u < 32
  end.

Fixpoint encodable_from (a : Z) (l : list instr) : Prop :=
  match l with
  | [] => True
  | i :: t => encodable_at a i /\ encodable_from (a + 4) t
  end.

(* the text entries of a printed listing, with arbitrary line numbers *)
Definition listing_text (lns : list Z) (l : list instr) : list (Z * tentry) :=
  combine lns (map (fun i => EBody (repr_tokens i)) l).

(* canonical spelling of a token record: mnemonic, blank, operands separated by ", ",
   memory form imm(reg) for loads and stores *)
Definition render_reg (r : regtok) : str := match r with RX d => 120 :: d | RAbi s => s end.
Definition opt_reg (r : option regtok) : str := match r with Some t => render_reg t | None => [] end.
Definition opt_str (s : option str) : str := match s with Some t => t | None => [] end.

Definition render_itok (t : itok) : str :=
  let mn := k_mn t in
  let m := mn_name mn in
  if mn <=? 17 then                                              (* add x1, x2, x3 *)
    m ++ [32] ++ opt_reg (k_rd t) ++ sep ++ opt_reg (k_rs1 t) ++ sep ++ opt_reg (k_rs2 t)
  else if ((27 <=? mn) && (mn <=? 31)) || ((34 <=? mn) && (mn <=? 36)) then   (* lw x1, 4(x2) *)
    m ++ [32] ++ opt_reg (k_reg1 t) ++ sep ++ opt_str (k_imm t) ++ [40] ++ opt_reg (k_reg2 t) ++ [41]
  else if mn <=? 42 then                                         (* addi x1, x2, 3 / beq x1, x2, 8 *)
    m ++ [32] ++ opt_reg (k_reg1 t) ++ sep ++ opt_reg (k_reg2 t) ++ sep ++ opt_str (k_imm t)
  else if mn <=? 45 then                                         (* lui x1, 5 / jal x1, 16 *)
    m ++ [32] ++ opt_reg (k_rd t) ++ sep ++ opt_str (k_imm t)
  else if mn <=? 50 then                                         (* csrrw x1, 0x300, x2 *)
    m ++ [32] ++ opt_reg (k_rd t) ++ sep ++ opt_str (k_csr t) ++ sep ++ opt_reg (k_rs1 t)
  else                                                           (* csrrwi x1, 0x300, 5 *)
    m ++ [32] ++ opt_reg (k_rd t) ++ sep ++ opt_str (k_csr t) ++ sep ++ opt_str (k_uimm t).

Definition render (b : tbody) : str :=
  match b with
  | BStr k => if k =? 0 then mn_name 33 else if k =? 1 then mn_name 46 else [110; 111; 112]
  | BIns t => render_itok t
  | BOther => []
  end.

(** * Proofs *)

Lemma need_reg_xtok r ln : 0 <= r -> need_reg (Some (xtok r)) ln = POk r.
Proof.
  intros H. apply need_reg_some. unfold xtok. cbn [reg_num]. rewrite digits_value_str_dec by exact H.
  reflexivity.
Qed.
Lemma need_int_str_dec z ln : Z.abs z <= 2 ^ 40 -> need_int (Some (str_dec z)) ln = POk z.
Proof. intros H. apply need_int_some. apply py_int0_str_dec. exact H. Qed.
Lemma need_int_py_hex c ln : 0 <= c -> need_int (Some (py_hex c)) ln = POk c.
Proof. intros H. apply need_int_some. apply py_int0_py_hex. exact H. Qed.

Ltac small40 := change (2 ^ 40) with 1099511627776; lia.

Ltac regs_ints :=
  cbn [k_mn k_rd k_rs1 k_rs2 k_reg1 k_reg2 k_rs k_imm k_csr k_uimm k_offset k_label k_var tok_rri tok_u];
  rewrite ?need_reg_xtok by lia;
  rewrite ?need_int_str_dec by small40;
  rewrite ?need_int_py_hex by lia;
  cbn [pbind].

Lemma reassemble_lem : forall a i labels ln, encodable_at a i ->
  match repr_tokens i with
  | BIns t => instantiate_one t labels a ln = POk i
  | BStr k => (k = 0 /\ i = IEcall) \/ (k = 1 /\ i = IEbreak)
  | BOther => False
  end.
Proof.
  intros a i labels ln H. unfold enc_reg in *.
  destruct i as [o rd rs1 rs2|o rd rs1 imm|o rd rs1 imm|o rd rs1 imm|rd rs1 imm| | |o rs1 rs2 imm
                |o rs1 rs2 imm|rd imm|rd imm|rd imm ab| |o rd csr rs1|o rd csr u];
    cbn [encodable_at] in H; unfold enc_reg in H; cbn [repr_tokens].
  - (* R *) destruct o; cbn [instr_mn]; (rewrite inst_R by (cbn [k_mn]; lia)); regs_ints; reflexivity.
  - (* I *) destruct o; cbn [instr_mn]; (rewrite inst_I by (cbn [k_mn tok_rri]; lia)); regs_ints;
      cbn [mk iop_of_mn]; rewrite sext12_small by lia; reflexivity.
  - (* shifts *) destruct o; cbn [instr_mn]; (rewrite inst_Sh by (cbn [k_mn tok_rri]; lia)); regs_ints;
      cbn [mk shop_of_mn]; rewrite land31_small by lia; reflexivity.
  - (* loads *) destruct o; cbn [instr_mn]; (rewrite inst_Load by (cbn [k_mn tok_rri]; lia)); regs_ints;
      cbn [mk lop_of_mn]; rewrite sext12_small by lia; reflexivity.
  - (* jalr *) cbn [instr_mn]. rewrite inst_Jalr by reflexivity. regs_ints.
    cbn [mk]. rewrite sext12_small by lia. reflexivity.
  - left. split; reflexivity.
  - right. split; reflexivity.
  - (* stores *) destruct o; cbn [instr_mn]; (rewrite inst_Store by (cbn [k_mn tok_rri]; lia)); regs_ints;
      cbn [mk sop_of_mn]; rewrite sext12_small by lia; reflexivity.
  - (* branches *) destruct H as (H1 & H2 & H3 & H4).
    destruct o; cbn [instr_mn]; (rewrite inst_Branch by (cbn [k_mn tok_rri]; lia));
      unfold label_or_imm; regs_ints; (replace (imm mod 2 =? 0) with true by lia); regs_ints;
      cbn [mk bop_of_mn]; rewrite sext13_small by lia; reflexivity.
  - (* lui *) cbn [instr_mn]. rewrite inst_U by (cbn [k_mn tok_u]; lia). regs_ints.
    cbn [mk Z.eqb Pos.eqb]. rewrite sext20_small by lia. reflexivity.
  - (* auipc *) cbn [instr_mn]. rewrite inst_U by (cbn [k_mn tok_u]; lia). regs_ints.
    cbn [mk Z.eqb Pos.eqb]. rewrite sext20_small by lia. reflexivity.
  - (* jal: the printed operand is absolute *)
    destruct H as (H1 & H2 & H3 & H4 & H5 & H6). subst ab.
    cbn [instr_mn]. rewrite inst_Jal by reflexivity. unfold label_or_imm. cbv zeta. regs_ints.
    replace ((imm + a) mod 2 =? 0) with true by lia. regs_ints.
    cbn [mk]. replace (imm + a - a) with imm by lia. rewrite sext21_small by lia. reflexivity.
  - exact H.
  - (* csr *) destruct o; cbn [instr_mn]; (rewrite inst_Csr by (cbn [k_mn]; lia)); regs_ints; reflexivity.
  - (* csri *) destruct o; cbn [instr_mn]; (rewrite inst_Csri by (cbn [k_mn]; lia)); regs_ints;
      cbn [mk csriop_of_mn]; rewrite land31_small by lia; reflexivity.
Qed.

Lemma repr_tokens_faithful_lem : forall i, i <> IFence -> instr_repr i = render (repr_tokens i).
Proof.
  intros i Hi. destruct i; try (destruct o); try reflexivity. exfalso; apply Hi; reflexivity.
Qed.

(* the operand strings themselves: every register is printed as xN, every immediate in decimal,
   csr numbers in hexadecimal *)
Lemma listing_fixpoint_gen : forall l a lns labels,
  encodable_from a l -> length lns = length l ->
  instantiate (listing_text lns l) labels a = POk l.
Proof.
  unfold listing_text. induction l as [|i t IH]; intros a lns labels He Hl.
  - destruct lns; reflexivity.
  - destruct lns as [|ln lns]; [discriminate Hl|]. cbn [length] in Hl.
    destruct He as [Hi Ht]. cbn [map combine].
    pose proof (reassemble_lem a i labels ln Hi) as R.
    assert (IH' := IH (a + 4) lns labels Ht ltac:(lia)).
    destruct (repr_tokens i) as [k|tk|].
    + destruct R as [[-> ->]|[-> ->]]; cbn [instantiate Z.eqb Pos.eqb]; rewrite IH'; reflexivity.
    + cbn [instantiate]. rewrite R. cbn [pbind]. rewrite IH'. reflexivity.
    + destruct R.
Qed.

Lemma listing_fixpoint_lem : forall l lns labels,
  encodable_from 0 l -> length lns = length l ->
  instantiate (listing_text lns l) labels 0 = POk l.
Proof. intros l lns labels. apply listing_fixpoint_gen. Qed.

(* [encodable_from] spelled out: instruction number k sits at address 4k *)
Lemma encodable_from_nth : forall l a,
  encodable_from a l <->
  (forall k i, nth_error l k = Some i -> encodable_at (a + 4 * Z.of_nat k) i).
Proof.
  induction l as [|x t IH]; intros a; cbn [encodable_from].
  - split; [|intros _; exact Logic.I]. intros _ k i H. destruct k; discriminate H.
  - split.
    + intros [Hx Ht] k i Hk. destruct k as [|k]; cbn [nth_error] in Hk.
      * injection Hk as <-. replace (a + 4 * Z.of_nat 0) with a by lia. exact Hx.
      * replace (a + 4 * Z.of_nat (S k)) with (a + 4 + 4 * Z.of_nat k) by lia.
        apply (proj1 (IH (a + 4)) Ht). exact Hk.
    + intros H. split.
      * replace a with (a + 4 * Z.of_nat 0) by lia. apply H. reflexivity.
      * apply IH. intros k i Hk.
        replace (a + 4 + 4 * Z.of_nat k) with (a + 4 * Z.of_nat (S k)) by lia. apply H. exact Hk.
Qed.

(* the statement in the shape of Props/C14.v *)
Lemma reassemble_match : forall a i labels ln, encodable_at a i ->
  match repr_tokens i with
  | BIns t => instantiate_one t labels a ln = POk i
  | BStr 0 => i = IEcall
  | BStr 1 => i = IEbreak
  | _ => False
  end.
Proof.
  intros a i labels ln H. pose proof (reassemble_lem a i labels ln H) as R.
  destruct (repr_tokens i) as [k|t|]; [|exact R|exact R].
  destruct R as [[-> ->]|[-> ->]]; reflexivity.
Qed.
