(* Proofs/C11Proofs.v — the instruction cache (Model/RV.v: icache, im_read, im_reset) is
   transparent and its counters are those of the reference cache of Spec/RefCache.v.
   The generic cache lemmas come from C09Proofs.v. *)
From Coq Require Import Lia ZifyBool.
From ArchSim Require Import Model.Base Model.Mem Model.Cache Model.RV Spec.RefCache
  Proofs.WordLemmas Proofs.C10Proofs Proofs.C09Proofs.
Open Scope Z_scope.
Ltac Zify.zify_post_hook ::= Z.to_euclidean_division_equations.
Local Arguments Z.mul : simpl never.
Local Arguments Z.add : simpl never.
Local Arguments Z.sub : simpl never.
Local Arguments Z.pow : simpl never.
Local Arguments Z.div : simpl never.
Local Arguments Z.modulo : simpl never.
Local Arguments Z.land : simpl never.
Local Arguments Z.shiftl : simpl never.
Local Arguments Z.shiftr : simpl never.
Local Arguments Z.of_nat : simpl never.
Local Arguments Z.to_nat : simpl never.

(** * Lists *)
Lemma nth_error_set_nth {A} (l : list A) p x i y :
  nth_error (set_nth l p x) i = Some y ->
  (i = p /\ y = x /\ (p < length l)%nat) \/ (i <> p /\ nth_error l i = Some y).
Proof.
  revert p i; induction l as [|z t IH]; intros p i H.
  - destruct p; cbn [set_nth] in H; destruct i; discriminate.
  - destruct p as [|p], i as [|i]; cbn [set_nth nth_error length] in *.
    + injection H as <-. left. repeat split. lia.
    + right. split; [lia | exact H].
    + right. split; [lia | exact H].
    + apply IH in H. destruct H as [(-> & -> & Hp)|(Hne & H)]; [left; repeat split; lia | right; split; [lia | exact H]].
Qed.

Lemma In_set_nth {A} (l : list A) p x y : In y (set_nth l p x) -> y = x \/ In y l.
Proof.
  revert p; induction l as [|z t IH]; intros p H.
  - destruct p; destruct H.
  - destruct p as [|p]; cbn [set_nth In] in *.
    + destruct H as [<-|H]; auto.
    + destruct H as [<-|H]; [auto|]. apply IH in H. destruct H; auto.
Qed.

Lemma nth_error_nth_in {A} (l : list A) p d : (p < length l)%nat -> nth_error l p = Some (nth p l d).
Proof.
  revert p; induction l as [|z t IH]; intros p Hp; cbn [length] in Hp; [lia|].
  destruct p as [|p]; cbn [nth_error nth]; [reflexivity|]. apply IH. lia.
Qed.

(** * Address arithmetic *)
Lemma decode_balign g a : 0 <= ibits g -> 0 <= bbits g ->
  let da := decode_addr (ibits g) (bbits g) a in
  da_balign da = block_base g (da_tag da) (da_idx da).
Proof.
  intros Hi Hb da. subst da. unfold decode_addr, block_base. cbn [da_balign da_tag da_idx].
  rewrite !shr_div by lia. rewrite shl_mul by lia. rewrite land_ones_mod by lia.
  replace (2 + bbits g) with (bbits g + 2) by lia.
  replace (ibits g + bbits g + 2) with ((bbits g + 2) + ibits g) by lia.
  rewrite (Z.pow_add_r 2 (bbits g + 2) (ibits g)) by lia.
  assert (H1 : 0 < 2 ^ (bbits g + 2)) by (apply Z.pow_pos_nonneg; lia).
  assert (H2 : 0 < 2 ^ ibits g) by (apply Z.pow_pos_nonneg; lia).
  assert (H0 : 0 <= U32 a) by (unfold U32, U; apply Z.mod_pos_bound; reflexivity).
  set (Q := 2 ^ (bbits g + 2)) in *. set (R := 2 ^ ibits g) in *.
  rewrite <- Z.div_div by lia. f_equal.
  pose proof (Z.div_mod (U32 a / Q) R ltac:(lia)) as E. lia.
Qed.

(* an aligned 32-bit address is its block address plus four times its word offset *)
Lemma decode_recompose g a : 0 <= bbits g -> a mod 4 = 0 -> 0 <= a < 2 ^ 32 ->
  let da := decode_addr (ibits g) (bbits g) a in
  a = da_balign da + 4 * da_boff da /\ 0 <= da_boff da < 2 ^ bbits g.
Proof.
  intros Hb Ha Hr da. subst da. unfold decode_addr. cbn [da_balign da_boff].
  assert (HU : U32 a = a) by (unfold U32, U; apply Z.mod_small; exact Hr). rewrite HU.
  rewrite !shr_div by lia. rewrite shl_mul by lia. rewrite land_ones_mod by lia.
  assert (HP : 0 < 2 ^ bbits g) by (apply Z.pow_pos_nonneg; lia).
  rewrite Z.pow_add_r by lia.
  change (2 ^ 2) with 4. set (P := 2 ^ bbits g) in *.
  split; [|apply Z.mod_pos_bound; exact HP].
  rewrite <- Z.div_div by lia.
  pose proof (Z.div_mod a 4 ltac:(lia)) as E1.
  pose proof (Z.div_mod (a / 4) P ltac:(lia)) as E2.
  rewrite Ha in E1. nia.
Qed.

Lemma iread_block_length p a n : length (iread_block p a n) = n.
Proof. revert a; induction n as [|n IH]; intros a; cbn [iread_block length]; [reflexivity | rewrite IH; reflexivity]. Qed.

Lemma iread_block_nth p n : forall a k, (k < n)%nat ->
  nth k (iread_block p a n) None = instr_at p (a + 4 * Z.of_nat k).
Proof.
  induction n as [|n IH]; intros a k Hk; [lia|]. cbn [iread_block].
  destruct k as [|k]; cbn [nth].
  - f_equal. lia.
  - rewrite IH by lia. f_equal. lia.
Qed.

(** * One fetch, explicitly *)
Definition iblock_words (c : icache) : nat := Z.to_nat (2 ^ bbits (cfg (ic c))).

Definition icache_upd (c : icache) (c1 : cache (option instr)) (hit : bool) : icache :=
  {| ic := c1; ipenalty := ipenalty c; ihits := ihits c + (if hit then 1 else 0);
     iaccesses := iaccesses c + 1; ilasthit := hit |}.

Lemma im_read_none im a : icc im = None -> im_read im a = (instr_at (prog im) a, im, 0).
Proof. unfold im_read. intros ->. reflexivity. Qed.

Lemma im_read_hit im c a w : icc im = Some c -> lookup_of (ic c) (cdecode (ic c) a) = Some w ->
  let da := cdecode (ic c) a in
  im_read im a =
    (nthZ (vals (nthZ (blocks (get_set (ic c) (da_idx da))) w empty_block)) (da_boff da) None,
     {| prog := prog im; icc := Some (icache_upd c (snd (cache_read_block (ic c) da)) true) |}, 0).
Proof.
  intros Hc El da. unfold im_read. rewrite Hc. subst da. rewrite (read_block_hit _ _ _ El). reflexivity.
Qed.

Lemma im_read_miss im c a : icc im = Some c -> lookup_of (ic c) (cdecode (ic c) a) = None ->
  let da := cdecode (ic c) a in
  let v := iread_block (prog im) (da_balign da) (iblock_words c) in
  im_read im a =
    (nthZ v (da_boff da) None,
     {| prog := prog im; icc := Some (icache_upd c (snd (cache_write_block (ic c) da v)) false) |},
     ipenalty c).
Proof.
  intros Hc El da v. unfold im_read. rewrite Hc. subst v da. rewrite (read_block_miss _ _ El).
  fold (iblock_words c). rewrite (write_block_miss _ _ _ El). reflexivity.
Qed.

(** * 1. The invariant *)
Lemma iinv_none p : IInv {| prog := p; icc := None |}.
Proof. exact Logic.I. Qed.

Lemma iinv_init_proof g pen p : 0 <= ibits g -> 0 <= bbits g ->
  IInv {| prog := p; icc := Some (icache_init g pen) |}.
Proof.
  intros Hi Hb. unfold IInv. cbn [icc icache_init ic cache_init cfg sets prog].
  split; [exact Hi|]. split; [exact Hb|]. intros i s b Hs Hin Hv. exfalso.
  apply nth_error_In, repeat_spec in Hs. subst s. cbn [empty_set blocks] in Hin.
  apply repeat_spec in Hin. subst b. discriminate.
Qed.

Lemma prog_im_read im a : prog (snd (fst (im_read im a))) = prog im.
Proof.
  unfold im_read. destruct (icc im) as [c|]; [|reflexivity].
  destruct (cache_read_block (ic c) (cdecode (ic c) a)) as [[v|] c']; [reflexivity|].
  destruct (cache_write_block _ _ _) as [[h dsp] c2]. reflexivity.
Qed.

Lemma iinv_step_proof im a : IInv im -> IInv (snd (fst (im_read im a))).
Proof.
  intros Hinv. destruct (icc im) as [c|] eqn:Hc.
  2:{ rewrite (im_read_none _ _ Hc). exact Hinv. }
  unfold IInv in Hinv. rewrite Hc in Hinv. destruct Hinv as (Hi & Hb & Hblk).
  set (da := cdecode (ic c) a).
  destruct (lookup_of (ic c) da) as [w|] eqn:El.
  - rewrite (im_read_hit _ _ _ _ Hc El). fold da. cbn [fst snd]. unfold IInv. cbn [icc prog icache_upd ic].
    rewrite cfg_read_block. split; [exact Hi|]. split; [exact Hb|].
    rewrite (read_block_hit _ _ _ El). cbn [snd put_set sets]. intros i s b Hs Hin Hv.
    apply nth_error_set_nth in Hs. destruct Hs as [(-> & -> & Hlt)|(_ & Hs)].
    + cbn [blocks] in Hin. apply (Hblk (Z.to_nat (da_idx da)) (get_set (ic c) (da_idx da)) b); auto.
      unfold get_set, nthZ. apply nth_error_nth_in. exact Hlt.
    + apply (Hblk i s b); auto.
  - rewrite (im_read_miss _ _ _ Hc El). fold da. cbn [fst snd]. unfold IInv. cbn [icc prog icache_upd ic].
    rewrite cfg_write_block. split; [exact Hi|]. split; [exact Hb|].
    rewrite (write_block_miss _ _ _ El). cbn [snd put_set sets]. intros i s b Hs Hin Hv.
    apply nth_error_set_nth in Hs. destruct Hs as [(-> & -> & Hlt)|(_ & Hs)].
    + cbn [blocks] in Hin. apply In_set_nth in Hin. destruct Hin as [->|Hin].
      * unfold new_block. cbn [baddr btag vals]. split; [|reflexivity].
        pose proof (decode_balign (cfg (ic c)) a Hi Hb) as Hba. cbv zeta in Hba. fold (cdecode (ic c) a) in Hba.
        fold da in Hba. rewrite Hba. f_equal. rewrite Z2Nat.id; [reflexivity|].
        unfold da, cdecode, decode_addr. cbn [da_idx]. rewrite land_ones_mod by lia.
        apply Z.mod_pos_bound. apply Z.pow_pos_nonneg; lia.
      * apply (Hblk (Z.to_nat (da_idx da)) (get_set (ic c) (da_idx da)) b); auto.
        unfold get_set, nthZ. apply nth_error_nth_in. exact Hlt.
    + apply (Hblk i s b); auto.
Qed.

(** * 2. Transparency *)
Lemma ifetch_transparent_proof im a : IInv im -> a mod 4 = 0 -> 0 <= a < 2 ^ 32 ->
  fst (fst (im_read im a)) = instr_at (prog im) a.
Proof.
  intros Hinv Ha Hr. destruct (icc im) as [c|] eqn:Hc.
  2:{ rewrite (im_read_none _ _ Hc). reflexivity. }
  unfold IInv in Hinv. rewrite Hc in Hinv. destruct Hinv as (Hi & Hb & Hblk).
  set (da := cdecode (ic c) a).
  destruct (decode_recompose (cfg (ic c)) a Hb Ha Hr) as [Hrec Hoff]. fold (cdecode (ic c) a) in Hrec, Hoff.
  fold da in Hrec, Hoff.
  assert (Hget : forall base, nthZ (iread_block (prog im) base (iblock_words c)) (da_boff da) None
                              = instr_at (prog im) (base + 4 * da_boff da)).
  { intros base. unfold nthZ, iblock_words. rewrite iread_block_nth by lia. f_equal. lia. }
  destruct (lookup_of (ic c) da) as [w|] eqn:El.
  - rewrite (im_read_hit _ _ _ _ Hc El). fold da. cbn [fst].
    pose proof (hit_in_range _ _ _ _ El) as Hlt.
    pose proof El as Hf. apply find_block_range in Hf. destruct Hf as (Hw0 & Hwlt & Hvt).
    rewrite Z.sub_0_r in *. destruct (Hvt empty_block) as [Hv Ht].
    set (s := get_set (ic c) (da_idx da)) in *.
    set (b := nthZ (blocks s) w empty_block). fold (nthZ (blocks s) w empty_block) in Hv, Ht. fold b in Hv, Ht.
    destruct (Hblk (Z.to_nat (da_idx da)) s b) as [Hba Hvals]; auto.
    { unfold s, get_set, nthZ. apply nth_error_nth_in. exact Hlt. }
    { unfold b, nthZ. apply nth_In. exact Hwlt. }
    rewrite Hvals. fold (iblock_words c). rewrite Hget. f_equal.
    symmetry. rewrite Hrec at 1. f_equal. rewrite Hba, Ht.
    pose proof (decode_balign (cfg (ic c)) a Hi Hb) as Hbal. cbv zeta in Hbal.
    fold (cdecode (ic c) a) in Hbal. fold da in Hbal. rewrite Hbal. f_equal. symmetry.
    apply Z2Nat.id. unfold da, cdecode, decode_addr. cbn [da_idx]. rewrite land_ones_mod by lia.
    apply Z.mod_pos_bound. apply Z.pow_pos_nonneg; lia.
  - rewrite (im_read_miss _ _ _ Hc El). fold da. cbn [fst]. rewrite Hget. f_equal. lia.
Qed.

(** * 3. Counters *)
Lemma icache_counters_proof im c a : icc im = Some c ->
  let g := cfg (ic c) in
  0 <= ibits g -> 0 <= bbits g ->
  let hit := ref_lookup (abs_dir (ic c)) (ref_idx g a) (ref_tag g a) in
  exists c', icc (snd (fst (im_read im a))) = Some c' /\
    iaccesses c' = iaccesses c + 1 /\ ihits c' = ihits c + (if hit then 1 else 0) /\
    ilasthit c' = hit /\ snd (im_read im a) = (if hit then 0 else ipenalty c) /\
    abs_dir (ic c') = ref_touch true (abs_dir (ic c)) (ref_idx g a) (ref_tag g a) /\
    cfg (ic c') = g /\ ipenalty c' = ipenalty c.
Proof.
  intros Hc g Hi Hb hit. subst hit.
  rewrite <- (decode_idx g a Hi Hb), <- (decode_tag g a Hi Hb). subst g. fold (cdecode (ic c) a).
  set (da := cdecode (ic c) a). rewrite <- lookup_of_ref.
  destruct (lookup_of (ic c) da) as [w|] eqn:El; cbn [hitb].
  - rewrite (im_read_hit _ _ _ _ Hc El). fold da. cbn [fst snd icc].
    eexists. split; [reflexivity|]. cbn [icache_upd iaccesses ihits ilasthit ic ipenalty].
    repeat split; [|apply cfg_read_block].
    destruct (cache_read_block (ic c) da) as [ob c'] eqn:Er.
    destruct (read_block_abs _ _ _ _ Er) as (Ha & _). cbn [snd]. rewrite Ha. symmetry.
    apply ref_touch_hit. rewrite <- lookup_of_ref, El. reflexivity.
  - rewrite (im_read_miss _ _ _ Hc El). fold da. cbn [fst snd icc].
    eexists. split; [reflexivity|]. cbn [icache_upd iaccesses ihits ilasthit ic ipenalty].
    repeat split; [|apply cfg_write_block]. apply write_block_miss_abs. exact El.
Qed.

(* one fetch is one counted allocating read of the reference *)
Lemma im_read_sim im c a : icc im = Some c ->
  let g := cfg (ic c) in
  0 <= ibits g -> 0 <= bbits g ->
  exists c', icc (snd (fst (im_read im a))) = Some c' /\
    cfg (ic c') = g /\ ipenalty c' = ipenalty c /\
    ref_fetch g (ipenalty c) (iref_of c) a = (iref_of c', snd (im_read im a)).
Proof.
  intros Hc g Hi Hb.
  destruct (icache_counters_proof im c a Hc Hi Hb) as (c' & Hc' & Hacc & Hh & Hl & Hp & Ha & Hcfg & Hpen).
  exists c'. split; [exact Hc'|]. split; [exact Hcfg|]. split; [exact Hpen|].
  subst g. rewrite Hp. unfold ref_fetch, ref_step, iref_of, icounters_of, count, miss_penalty.
  cbn [r_dir r_cnt c_hits c_accesses c_lasthit]. rewrite Ha, Hacc, Hh, Hl. reflexivity.
Qed.

Lemma icache_run_proof addrs : forall im c, icc im = Some c ->
  let g := cfg (ic c) in
  0 <= ibits g -> 0 <= bbits g ->
  im_counters im addrs = map fst (ref_fetch_run g (ipenalty c) (iref_of c) addrs) /\
  map snd (im_run im addrs) = map snd (ref_fetch_run g (ipenalty c) (iref_of c) addrs) /\
  exists c', icc (im_after im addrs) = Some c' /\
    iaccesses c' = iaccesses c + Z.of_nat (length addrs) /\
    cfg (ic c') = g /\ ipenalty c' = ipenalty c.
Proof.
  induction addrs as [|a t IH]; intros im c Hc g Hi Hb.
  - cbn [im_counters im_run im_after map length]. split; [reflexivity|]. split; [reflexivity|].
    exists c. repeat split; [exact Hc | lia].
  - destruct (im_read_sim im c a Hc Hi Hb) as (c' & Hc' & Hcfg & Hpen & Hsim).
    destruct (icache_counters_proof im c a Hc Hi Hb) as (c'' & Hc'' & Hacc & _).
    rewrite Hc' in Hc''. injection Hc'' as <-.
    fold g in Hcfg. assert (Hi' : 0 <= ibits (cfg (ic c'))) by (rewrite Hcfg; exact Hi).
    assert (Hb' : 0 <= bbits (cfg (ic c'))) by (rewrite Hcfg; exact Hb).
    destruct (IH _ _ Hc' Hi' Hb') as (IH1 & IH2 & c2 & Hc2 & Hacc2 & Hcfg2 & Hpen2).
    rewrite Hcfg, Hpen in IH1, IH2.
    unfold ref_fetch_run in *. cbn [im_counters im_run im_after map ref_run length].
    unfold ref_fetch in Hsim. fold g in Hsim. rewrite Hsim.
    destruct (im_read im a) as [[i im'] p] eqn:Er. cbn [fst snd] in *.
    rewrite Hc'. cbn [map fst snd r_cnt iref_of]. rewrite IH1, IH2.
    split; [reflexivity|]. split; [reflexivity|]. exists c2. split; [exact Hc2|].
    split; [lia|]. split; congruence.
Qed.

(** * 4. Reset *)
Lemma im_reset_eq im :
  im_reset im = {| prog := [];
                   icc := option_map (fun c => icache_init (cfg (ic c)) (ipenalty c)) (icc im) |}.
Proof. unfold im_reset. destruct (icc im); reflexivity. Qed.

Lemma load_resets_icache_proof g pen p addrs : 0 <= ibits g -> 0 <= bbits g ->
  im_reset (im_after {| prog := p; icc := Some (icache_init g pen) |} addrs) =
    {| prog := []; icc := Some (icache_init g pen) |}.
Proof.
  intros Hi Hb.
  destruct (icache_run_proof addrs {| prog := p; icc := Some (icache_init g pen) |} (icache_init g pen)
              eq_refl Hi Hb) as (_ & _ & c' & Hc' & _ & Hcfg & Hpen).
  rewrite im_reset_eq, Hc'. cbn [option_map]. rewrite Hcfg, Hpen. reflexivity.
Qed.

Lemma im_reset_none p addrs :
  im_reset (im_after {| prog := p; icc := None |} addrs) = {| prog := []; icc := None |}.
Proof.
  assert (H : im_after {| prog := p; icc := None |} addrs = {| prog := p; icc := None |}).
  { induction addrs as [|a t IH]; cbn [im_after]; [reflexivity|].
    rewrite (im_read_none {| prog := p; icc := None |} a eq_refl). exact IH. }
  rewrite H. reflexivity.
Qed.

Lemma prog_im_after im addrs : prog (im_after im addrs) = prog im.
Proof.
  revert im; induction addrs as [|a t IH]; intros im; cbn [im_after]; [reflexivity|].
  rewrite IH. apply prog_im_read.
Qed.

Lemma iinv_after im addrs : IInv im -> IInv (im_after im addrs).
Proof.
  revert im; induction addrs as [|a t IH]; intros im H; cbn [im_after]; [exact H|].
  apply IH. apply iinv_step_proof. exact H.
Qed.

(** * 5. Histories of fetches *)
Definition fetchable (a : Z) : Prop := a mod 4 = 0 /\ 0 <= a < 2 ^ 32.

Lemma fetch_history_transparent_proof addrs : forall im, IInv im -> Forall fetchable addrs ->
  map fst (im_run im addrs) = map (instr_at (prog im)) addrs.
Proof.
  induction addrs as [|a t IH]; intros im Hinv Hf; [reflexivity|].
  inversion Hf as [|x l [Ha Hr] Ht]; subst x l.
  pose proof (ifetch_transparent_proof im a Hinv Ha Hr) as H1.
  pose proof (iinv_step_proof im a Hinv) as H2.
  pose proof (prog_im_read im a) as H3.
  cbn [im_run map]. destruct (im_read im a) as [[i im'] p] eqn:Er. cbn [fst snd map] in *.
  rewrite (IH im' H2 Ht), H3, H1. reflexivity.
Qed.

(** * Packaged statements for Props/C11.v *)
Lemma IInv_meaning_proof : forall im,
  IInv im <->
  match icc im with
  | None => True
  | Some c =>
      let g := cfg (ic c) in
      0 <= ibits g /\ 0 <= bbits g /\
      forall (i : nat) s b, nth_error (sets (ic c)) i = Some s -> In b (blocks s) -> valid b = true ->
        baddr b = (btag b * 2 ^ ibits g + Z.of_nat i) * 2 ^ (bbits g + 2) /\
        vals b = iread_block (prog im) (baddr b) (Z.to_nat (2 ^ bbits g))
  end.
Proof. intros im. reflexivity. Qed.

Lemma iread_block_meaning_proof p a n :
  length (iread_block p a n) = n /\
  forall k, (k < n)%nat -> nth k (iread_block p a n) None = instr_at p (a + 4 * Z.of_nat k).
Proof. split; [apply iread_block_length | intros k Hk; apply iread_block_nth; exact Hk]. Qed.

Lemma iref_of_init g pen : iref_of (icache_init g pen) = rcache_init g.
Proof. unfold iref_of, rcache_init, icounters_of, icache_init. cbn [ic ihits iaccesses ilasthit]. rewrite abs_dir_init. reflexivity. Qed.

Lemma icache_init_run_proof g pen p addrs : 0 <= ibits g -> 0 <= bbits g ->
  let im := {| prog := p; icc := Some (icache_init g pen) |} in
  im_counters im addrs = map fst (ref_fetch_run g pen (rcache_init g) addrs) /\
  map snd (im_run im addrs) = map snd (ref_fetch_run g pen (rcache_init g) addrs) /\
  exists c', icc (im_after im addrs) = Some c' /\ iaccesses c' = Z.of_nat (length addrs).
Proof.
  intros Hi Hb im.
  destruct (icache_run_proof addrs im (icache_init g pen) eq_refl Hi Hb) as (H1 & H2 & c' & Hc' & Hacc & _).
  rewrite iref_of_init in H1, H2. cbn [icache_init ic cache_init cfg ipenalty iaccesses] in H1, H2, Hacc.
  split; [exact H1|]. split; [exact H2|]. exists c'. split; [exact Hc' | lia].
Qed.
