(* LexErr3.v — property C15 for RISC-V on arbitrary text: outcomes of Lex.rv_load_text are typed, name a line of
   the text, and leave the reset state. *)
From Coq Require Import String.
From Coq Require Import ZArith List Bool Lia ZifyBool.
From ArchSim Require Import Model.Base Model.Mem Model.Cache Model.Fmt Model.RV Model.Toy Model.Asm Model.Lex
  Proofs.C04Proofs Proofs.C15Proofs Proofs.LexErr1 Proofs.LexErr2.
Import ListNotations.
Open Scope Z_scope.

Definition is_decl (rl : rline) : Prop :=
  match rl with RVarDecl _ _ _ | RStrDecl _ _ | RZeroDecl _ _ => True | _ => False end.

(** * _segment: a directive error names a directive line *)
Lemma seg_loop_dir rest : forall de te data text e,
  segment_loop rline rdir_of rest de te data text = PErr e ->
  exists ln x d, e = PDirective ln /\ In (ln, x) rest /\ rdir_of x = Some d.
Proof.
  induction rest as [|[ln x] t IH]; intros de te data text e H; cbn [segment_loop] in H; [discriminate|].
  assert (G : forall de te data text, segment_loop rline rdir_of t de te data text = PErr e ->
              exists ln0 x0 d, e = PDirective ln0 /\ In (ln0, x0) ((ln, x) :: t) /\ rdir_of x0 = Some d).
  { intros de' te' d' t' H'. destruct (IH _ _ _ _ _ H') as (l0 & x0 & d0 & He & Hin & Hd).
    exists l0, x0, d0. split; [exact He|]. split; [right; exact Hin|exact Hd]. }
  destruct (rdir_of x) as [d|] eqn:Ed; [|eapply G, H].
  destruct (d =? 1).
  - destruct de.
    + inversion H; subst. exists ln, x, d. split; [reflexivity|]. split; [left; reflexivity|exact Ed].
    + destruct (split_at_line rline ln text []) as [before after]. eapply G, H.
  - destruct te.
    + inversion H; subst. exists ln, x, d. split; [reflexivity|]. split; [left; reflexivity|exact Ed].
    + destruct (split_at_line rline ln data []) as [before after]. eapply G, H.
Qed.
Lemma seg_dir toks e : segment rdir_of toks = PErr e ->
  exists ln x d, e = PDirective ln /\ In (ln, x) toks /\ rdir_of x = Some d.
Proof.
  destruct toks as [|[ln x] t]; [discriminate|]. cbn [segment]. intros H.
  assert (G : forall de te data text, segment_loop rline rdir_of t de te data text = PErr e ->
              exists ln0 x0 d, e = PDirective ln0 /\ In (ln0, x0) ((ln, x) :: t) /\ rdir_of x0 = Some d).
  { intros de' te' d' t' H'. destruct (seg_loop_dir _ _ _ _ _ _ H') as (l0 & x0 & d0 & He & Hin & Hd).
    exists l0, x0, d0. split; [exact He|]. split; [right; exact Hin|exact Hd]. }
  destruct (rdir_of x) as [[|[q|q|]|q]|]; eapply G, H.
Qed.

(** * _write_data: which line, and the size error carries the size of the address space in words *)
Lemma write_data_cause data : forall m a vars e, write_data data m a vars = PErr e ->
  (exists x, e = PMemAddr x) \/ e = PMemSize (data_limit / 4) \/
  exists ln rl, In (ln, rl) data /\
    ((e = PDataDup ln /\ is_decl rl) \/ (e = PDataSyntax ln /\ ~ is_decl rl) \/ (e = PSyntax ln /\ is_decl rl)).
Proof.
  induction data as [|[ln l] t IH]; intros m a vars e H; cbn [write_data] in H; [discriminate|].
  assert (Rest : forall m' a' v', write_data t m' a' v' = PErr e ->
            (exists x, e = PMemAddr x) \/ e = PMemSize (data_limit / 4) \/
            exists ln0 rl, In (ln0, rl) ((ln, l) :: t) /\
              ((e = PDataDup ln0 /\ is_decl rl) \/ (e = PDataSyntax ln0 /\ ~ is_decl rl) \/ (e = PSyntax ln0 /\ is_decl rl))).
  { intros m' a' v' H'. destruct (IH _ _ _ _ H') as [X|[X|(l0 & rl & Hin & X)]]; [left; exact X|right; left; exact X|].
    right. right. exists l0, rl. split; [right; exact Hin|exact X]. }
  cbv zeta in H.
  destruct l as [d|name ty vals|name s|name v|name|il b].
  - inversion H; subst. right. right. exists ln, (RDirective d). split; [left; reflexivity|]. right. left. split; [reflexivity|intros []].
  - destruct (var_lookup vars name).
    + inversion H; subst. right. right. exists ln, (RVarDecl name ty vals). split; [left; reflexivity|]. left. split; [reflexivity|exact Logic.I].
    + destruct (if ty =? 0 then (8, 1) else if ty =? 1 then (16, 2) else (32, 4)) as [nbits stride].
      destruct (write_vals m nbits stride (align4 a) vals ln) as [[m' a']|e'] eqn:Ew.
      * destruct (a' >? data_limit); [inversion H; subst; right; left; reflexivity|eapply Rest, H].
      * inversion H; subst. destruct (write_vals_err _ _ _ _ _ _ _ Ew) as [[-> _]|X]; [|left; exact X].
        right. right. exists ln, (RVarDecl name ty vals). split; [left; reflexivity|]. right. right. split; [reflexivity|exact Logic.I].
  - destruct (var_lookup vars name).
    + inversion H; subst. right. right. exists ln, (RStrDecl name s). split; [left; reflexivity|]. left. split; [reflexivity|exact Logic.I].
    + destruct (write_chars m (align4 a) (strip_quotes s)) as [[m' a']|e'] eqn:Ew.
      * destruct (dwrite m' 8 a' 0) as [m''|e''] eqn:Ed.
        -- destruct (a' + 1 >? data_limit); [inversion H; subst; right; left; reflexivity|eapply Rest, H].
        -- inversion H; subst. left. eapply dwrite_err, Ed.
      * inversion H; subst. left. eapply write_chars_err, Ew.
  - destruct (var_lookup vars name).
    + inversion H; subst. right. right. exists ln, (RZeroDecl name v). split; [left; reflexivity|]. left. split; [reflexivity|exact Logic.I].
    + destruct (py_int10 v) as [n|].
      * destruct (align4 a + 4 * n >? data_limit); [inversion H; subst; right; left; reflexivity|eapply Rest, H].
      * inversion H; subst. right. right. exists ln, (RZeroDecl name v). split; [left; reflexivity|]. right. right. split; [reflexivity|exact Logic.I].
  - inversion H; subst. right. right. exists ln, (RLabelDecl name). split; [left; reflexivity|]. right. left. split; [reflexivity|intros []].
  - inversion H; subst. right. right. exists ln, (RInstr il b). split; [left; reflexivity|]. right. left. split; [reflexivity|intros []].
Qed.

(** * the assembler: per constructor, what the error names *)
Definition cause (toks : list (Z * rline)) (e : perr) : Prop :=
  match e with
  | PDirective ln => exists x d, In (ln, x) toks /\ rdir_of x = Some d
  | PDataSyntax ln => exists rl, In (ln, rl) toks /\ ~ is_decl rl
  | PDataDup ln => exists rl, In (ln, rl) toks /\ is_decl rl
  | PMemSize w => w = data_limit / 4
  | PMemAddr _ => True
  | PUncaught _ => False
  | PSyntax ln | PLabel ln | POdd ln | PDupLabel ln | PVariable ln => In ln (map fst toks)
  end.

Lemma in_fst {A} (l : list (Z * A)) ln x : In (ln, x) l -> In ln (map fst l).
Proof. intros H. change ln with (fst (ln, x)). apply in_map, H. Qed.

Lemma assemble_cause toks m e : rv_tokens_wf toks -> assemble toks m = PErr e -> cause toks e.
Proof.
  intros W. unfold assemble. intros H.
  destruct (segment rdir_of toks) as [[data text0]|e0] eqn:Es; cbn [pbind] in H.
  2:{ injection H as <-. destruct (seg_dir _ _ Es) as (ln & x & d & -> & Hin & Hd). exists x, d. split; assumption. }
  destruct (seg_ok_incl _ _ _ _ _ Es) as [Hd Ht].
  pose proof (split_inline_lines text0) as Hl1.
  assert (Hwf1: Forall entry_wf (fst (split_inline text0))).
  { apply split_inline_wf. intros ln il i Hin. apply (W ln il i). apply Ht. exact Hin. }
  destruct (split_inline text0) as [text1 inlabs]. cbn [fst] in Hl1, Hwf1.
  assert (L1: forall ln, In ln (map fst text1) -> In ln (map fst toks)).
  { intros ln Hin. rewrite Hl1 in Hin. apply (incl_lines _ _ Ht). exact Hin. }
  destruct (write_data data m 16384 []) as [[m' vars]|e1] eqn:Ew; cbn [pbind] in H.
  2:{ injection H as <-. destruct (write_data_cause _ _ _ _ _ Ew) as [[x ->]|[->|(ln & rl & Hin & He)]];
        [exact Logic.I|reflexivity|].
      apply Hd in Hin. destruct He as [[-> Hx]|[[-> Hx]|[-> Hx]]]; cbn [cause].
      - exists rl. split; assumption.
      - exists rl. split; assumption.
      - eapply in_fst, Hin. }
  destruct (expand_all vars text1) as [text2|e2] eqn:Ex; cbn [pbind] in H.
  2:{ injection H as <-. destruct (expand_all_err _ _ _ Ex) as (ln & Hin & He).
      apply L1 in Hin. unfold expand_err in He. destruct He as [->|[->|[-> Hw]]]; cbn [cause]; try exact Hin.
      apply Hw, Hwf1. }
  assert (L2: forall ln, In ln (map fst text2) -> In ln (map fst toks)).
  { intros ln Hin. apply L1. eapply expand_all_lines; eassumption. }
  destruct (rv_labels text2 inlabs 0 [] None) as [labels|e3] eqn:El; cbn [pbind] in H.
  2:{ injection H as <-. destruct (label_errors_lem _ _ _ El) as (ln & -> & Hin). apply L2, Hin. }
  destruct (instantiate text2 labels 0) as [ins|e4] eqn:Ei; cbn [pbind] in H.
  2:{ injection H as <-. destruct (instantiate_err _ _ _ _ Ei) as (ln & Hin & He).
      apply L2 in Hin. unfold inst_err in He. destruct He as [->|[->|[->|[-> Hw]]]]; cbn [cause]; try exact Hin.
      apply Hw. split; [eapply expand_all_wf; [exact Hwf1|exact Ex]|eapply expand_all_plain; exact Ex]. }
  destruct (4 * Z.of_nat (List.length ins) >? imem_limit); [|discriminate].
  injection H as <-. exact Logic.I.
Qed.

(** * the three theorems *)
Definition reset_state (s : st) : st := with_im (with_ms s (ms_reset (ms s))) (im_reset (im s)).
Definition perr_line (e : perr) : option Z :=
  match e with
  | PSyntax l | PLabel l | POdd l | PDupLabel l | PDirective l | PDataSyntax l | PDataDup l | PVariable l
  | PUncaught l => Some l
  | PMemSize _ | PMemAddr _ => None
  end.

Lemma rv_load_text_cases s ls :
  (exists k, lex_text ls = LTSyntax k /\ rv_load_text s ls = (reset_state s, Some (PSyntax k), None)) \/
  (exists toks, lex_text ls = LTOk toks /\ rv_tokens_wf toks /\ rv_load_text s ls = rv_load s toks /\
     ((exists s' img, rv_load s toks = (s', None, Some img)) \/
      (exists e, rv_load s toks = (reset_state s, Some e, None) /\ cause toks e))).
Proof.
  unfold rv_load_text. destruct (lex_text ls) as [toks|k] eqn:E.
  - right. exists toks. split; [reflexivity|]. pose proof (lex_text_wf ls toks E) as W. split; [exact W|].
    split; [reflexivity|]. unfold rv_load. fold (reset_state s).
    destruct (assemble toks (ms (reset_state s))) as [[m' img]|e] eqn:Ea.
    + left. eexists. eexists. reflexivity.
    + right. exists e. split; [reflexivity|]. eapply assemble_cause; eassumption.
  - left. exists k. split; reflexivity.
Qed.

(* (1) typed outcomes *)
Lemma rv_load_text_typed s ls :
  match snd (fst (rv_load_text s ls)) with
  | None => True
  | Some (PUncaught _) => False
  | Some (PMemSize w) => w = data_limit / 4
  | Some (PMemAddr _) => True
  | Some (PSyntax ln) | Some (PLabel ln) | Some (POdd ln) | Some (PDupLabel ln) | Some (PDirective ln)
  | Some (PDataSyntax ln) | Some (PDataDup ln) | Some (PVariable ln) => 1 <= ln <= Z.of_nat (List.length ls)
  end.
Proof.
  destruct (rv_load_text_cases s ls) as [(k & El & ->)|(toks & El & W & -> & [(s' & img & ->)|(e & -> & C)])];
    cbn [fst snd]; [|exact Logic.I|].
  - destruct (lex_text_err ls k El) as (l & Hn & _). eapply nth_line_range, Hn.
  - destruct (lex_text_ok ls toks El) as [_ B].
    assert (R : forall ln, In ln (map fst toks) -> 1 <= ln <= Z.of_nat (List.length ls)).
    { intros ln Hin. apply in_map_iff in Hin. destruct Hin as ([k rl] & <- & Hin).
      destruct (B _ _ Hin) as (l & Hn & _). eapply nth_line_range, Hn. }
    destruct e; cbn [cause] in C; try (apply R, C); try exact C; try exact Logic.I.
    + destruct C as (x & d & Hin & _). eapply R, in_fst, Hin.
    + destruct C as (rl & Hin & _). eapply R, in_fst, Hin.
    + destruct C as (rl & Hin & _). eapply R, in_fst, Hin.
Qed.

(* (2) the named line *)
Definition lexes_ok (ls : list str) (ln : Z) : Prop :=
  exists l rl, nth_line ls ln l /\ lexes_to l rl.
Lemma rv_load_text_line s ls s' e img : rv_load_text s ls = (s', Some e, img) ->
  match e with
  | PSyntax ln =>
      (exists l, nth_line ls ln l /\ lex_line l = LexSyntax /\
                 forall k' l', k' < ln -> nth_line ls k' l' -> lex_line l' <> LexSyntax) \/
      (all_lex ls /\ lexes_ok ls ln)
  | PLabel ln | POdd ln | PDupLabel ln | PVariable ln => all_lex ls /\ lexes_ok ls ln
  | PDirective ln => all_lex ls /\ exists l d names, nth_line ls ln l /\ lex_line l = LexOk (NDirective d) /\
                       lexes_to l (snd (intern_line names (NDirective d)))
  | PDataSyntax ln => all_lex ls /\ exists l rl, nth_line ls ln l /\ lexes_to l rl /\ ~ is_decl rl
  | PDataDup ln => all_lex ls /\ exists l rl, nth_line ls ln l /\ lexes_to l rl /\ is_decl rl
  | PMemSize w => all_lex ls /\ w = data_limit / 4
  | PMemAddr _ => all_lex ls
  | PUncaught _ => False
  end.
Proof.
  intros H.
  destruct (rv_load_text_cases s ls) as [(k & El & E)|(toks & El & W & E & [(s1 & img1 & E1)|(e1 & E1 & C)])];
    rewrite E in H; try rewrite E1 in H; inversion H; subst.
  - left. exact (lex_text_err ls k El).
  - destruct (lex_text_ok ls toks El) as [A B].
    assert (R : forall ln, In ln (map fst toks) -> lexes_ok ls ln).
    { intros ln Hin. apply in_map_iff in Hin. destruct Hin as ([k rl] & <- & Hin).
      destruct (B _ _ Hin) as (l & Hn & Hl). exists l, rl. split; assumption. }
    destruct e; cbn [cause] in C; try (split; [exact A|apply R, C]); try exact C.
    + right. split; [exact A|apply R, C].
    + destruct C as (x & d & Hin & Hd). split; [exact A|]. destruct (B _ _ Hin) as (l & Hn & Hl).
      destruct x; try discriminate Hd. destruct Hl as (nl & names & Hl & Ei).
      destruct nl as [dd|n ty v|n ss|n v|n|il0 b]; cbn [intern_line] in Ei;
        try (destruct (intern names n) as [t' k]; discriminate Ei).
      * cbn [snd] in Ei. inversion Ei; subst. exists l, dd, names. split; [exact Hn|]. split; [exact Hl|].
        exists (NDirective dd), names. split; [exact Hl|reflexivity].
      * destruct (intern_opt names il0) as [t1 il']. destruct b; [discriminate Ei|].
        destruct (intern_tok t1 i) as [t2 i']. discriminate Ei.
    + destruct C as (rl & Hin & Hd). split; [exact A|]. destruct (B _ _ Hin) as (l & Hn & Hl). exists l, rl. auto.
    + destruct C as (rl & Hin & Hd). split; [exact A|]. destruct (B _ _ Hin) as (l & Hn & Hl). exists l, rl. auto.
    + split; [exact A|exact C].
    + exact A.
Qed.

(* (3) frame *)
Lemma rv_load_text_frame s ls s' o img : rv_load_text s ls = (s', o, img) ->
  match o with
  | Some e => s' = reset_state s /\ img = None
  | None => exists toks im, lex_text ls = LTOk toks /\ rv_tokens_wf toks /\ img = Some im /\
                            rv_load s toks = (s', None, Some im)
  end.
Proof.
  intros H.
  destruct (rv_load_text_cases s ls) as [(k & El & E)|(toks & El & W & E & [(s1 & img1 & E1)|(e1 & E1 & C)])];
    rewrite E in H; try rewrite E1 in H; inversion H; subst.
  - split; reflexivity.
  - exists toks, img1. split; [exact El|]. split; [exact W|]. split; [reflexivity|exact E1].
  - split; reflexivity.
Qed.
