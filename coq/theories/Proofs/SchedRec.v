(* SchedRec.v — the documented recurrence ([schedule], history-indexed) equals its two-instruction
   window form ([xsched], [X]); elementary facts about [X].  Pure list reasoning: nothing here
   mentions the pipeline. *)
From Coq Require Import Lia ZifyBool.
From ArchSim Require Import Model.Base Model.Mem Model.Cache Model.Fmt Model.RV Model.Single
  Model.RVSplit Model.Pipe Proofs.PipeLaws Proofs.PipeShape Proofs.PipeInv Proofs.SchedDefs.
Open Scope nat_scope.

(** * History discipline: execute cycles strictly decreasing towards the past *)
Definition below (b : nat) (l : list row) : Prop := Forall (fun r => r_X r < b) l.
Fixpoint sorted (l : list row) : Prop :=
  match l with [] => True | r :: t => below (r_X r) t /\ sorted t end.

Definition Hrel (hist : list row) (p1 p2 : option (nat * event)) : Prop :=
  sorted hist /\
  match hist with
  | [] => p1 = None /\ p2 = None
  | r1 :: rest => p1 = Some (r_X r1, r_ev r1) /\ r_D r1 + 1 <= r_X r1 /\
                  match rest with [] => p2 = None | r2 :: _ => p2 = Some (r_X r2, r_ev r2) end
  end.

Lemma existsb_none {A} (f : A -> bool) l : Forall (fun r => f r = false) l -> existsb f l = false.
Proof. induction 1 as [|r t Hr _ IH]; cbn [existsb]; [reflexivity|]. rewrite Hr, IH. reflexivity. Qed.

Lemma below_weaken b b' l : below b l -> b <= b' -> below b' l.
Proof. unfold below. intros H Hb. eapply Forall_impl; [|exact H]. cbn beta. intros r Hr. lia. Qed.

(* rows with X + 1 < d cannot raise the decode hazard; rows with X + 2 < x0 cannot hold an ecall *)
Lemma haz_far e d l : below (d - 1) l ->
  existsb (fun r => dst_in (r_ev r) e && ((r_X r =? d) || (r_X r + 1 =? d))) l = false.
Proof.
  intros H. apply existsb_none. eapply Forall_impl; [|exact H]. cbn beta. intros r Hr.
  replace ((r_X r =? d) || (r_X r + 1 =? d)) with false by lia. apply Bool.andb_false_r.
Qed.
Lemma busy_far x0 l : below (x0 - 2) l ->
  existsb (fun r => (r_X r + 1 =? x0) || (r_X r + 2 =? x0)) l = false.
Proof.
  intros H. apply existsb_none. eapply Forall_impl; [|exact H]. cbn beta. intros r Hr. lia.
Qed.

Lemma row_next_x hist p1 p2 e : Hrel hist p1 p2 ->
  let r := row_next hist e in
  r_ev r = e /\ r_X r = xnext p1 p2 e /\ r_D r + 1 <= r_X r /\ below (r_X r) hist.
Proof.
  intros [Hs Hh]. destruct hist as [|r1 rest].
  { destruct Hh as [-> ->]. cbn. rewrite Bool.andb_false_r. cbn. repeat split; try lia. constructor. }
  destruct Hh as (-> & HD & H2). destruct Hs as [Hb1 Hs2].
  unfold row_next. cbn [xnext existsb r_ev r_D r_X].
  set (X1 := r_X r1) in *. set (D1 := r_D r1) in *.
  destruct (ev_redirect (r_ev r1)) eqn:Hred.
  - (* after a redirect: nothing is near enough *)
    replace (Nat.max (X1 + 1 + 2) X1) with (X1 + 3) by lia.
    replace ((X1 =? X1 + 3) || (X1 + 1 =? X1 + 3)) with false by lia. rewrite Bool.andb_false_r. cbn [orb].
    rewrite (haz_far e (X1 + 3) rest) by (eapply below_weaken; [exact Hb1|lia]).
    replace ((X1 + 1 =? X1 + 3 + 1) || (X1 + 2 =? X1 + 3 + 1)) with false by lia. cbn [orb].
    rewrite (busy_far (X1 + 3 + 1) rest) by (eapply below_weaken; [exact Hb1|lia]).
    rewrite Bool.andb_false_r. cbn [r_ev r_D r_X]. repeat split; try lia.
    constructor; [fold X1; lia|eapply below_weaken; [exact Hb1|lia]].
  - replace (Nat.max (D1 + 1) X1) with X1 by lia.
    replace ((X1 =? X1) || (X1 + 1 =? X1)) with true by lia. rewrite Bool.andb_true_r.
    (* the hazard test sees r1 and, if adjacent, r2 only *)
    assert (Hhz : existsb (fun r => dst_in (r_ev r) e && ((r_X r =? X1) || (r_X r + 1 =? X1))) rest =
                  match p2 with Some (x2, e2) => dst_in e2 e && (x2 + 1 =? X1) | None => false end).
    { destruct rest as [|r2 rest']; [subst p2; reflexivity|]. subst p2. cbn [existsb].
      inversion Hb1 as [|? ? Hr2 Hb1']; subst. destruct Hs2 as [Hb2 _].
      rewrite (haz_far e X1 rest') by (eapply below_weaken; [exact Hb2|fold X1 in Hr2; lia]).
      rewrite Bool.orb_false_r. fold X1 in Hr2. replace (r_X r2 =? X1) with false by lia. reflexivity. }
    rewrite Hhz. clear Hhz.
    set (haz := dst_in (r_ev r1) e || match p2 with Some (x2, e2) => dst_in e2 e && (x2 + 1 =? X1) | None => false end).
    assert (Hbz : forall d, d = (if haz then X1 + 2 else X1) ->
              ((X1 + 1 =? d + 1) || (X1 + 2 =? d + 1)) ||
              existsb (fun r => (r_X r + 1 =? d + 1) || (r_X r + 2 =? d + 1)) rest = negb haz).
    { intros d ->. destruct haz.
      - rewrite (busy_far (X1 + 2 + 1) rest) by (eapply below_weaken; [exact Hb1|lia]). cbn [negb]. lia.
      - cbn [negb]. replace (X1 + 1 =? X1 + 1) with true by lia. reflexivity. }
    rewrite (Hbz _ eq_refl). clear Hbz.
    destruct haz; cbn [negb r_ev r_D r_X]; rewrite ?Bool.andb_false_r, ?Bool.andb_true_r.
    + repeat split; try lia. constructor; [fold X1; lia|eapply below_weaken; [exact Hb1|lia]].
    + destruct (ev_ecall e); cbn [r_ev r_D r_X]; (repeat split; try lia;
        constructor; [fold X1; lia|eapply below_weaken; [exact Hb1|lia]]).
Qed.

Lemma sched_go_xgo evs : forall hist p1 p2, Hrel hist p1 p2 ->
  sched_go hist evs = map (fun x => x + 2) (xgo p1 p2 evs).
Proof.
  induction evs as [|e tl IH]; intros hist p1 p2 H; cbn [sched_go xgo map]; [reflexivity|].
  destruct (row_next_x hist p1 p2 e H) as (He & Hx & HD & Hb). cbv zeta in *.
  rewrite Hx. f_equal. apply IH. rewrite <- Hx.
  destruct H as [Hs Hh]. split; [cbn [sorted]; split; assumption|].
  rewrite He. split; [reflexivity|]. split; [exact HD|].
  destruct hist as [|r1 rest]; [apply Hh|]. apply Hh.
Qed.

Theorem schedule_xsched evs : schedule evs = map (fun x => x + 2) (xsched evs).
Proof. apply sched_go_xgo. split; [exact Logic.I|split; reflexivity]. Qed.

(** * The window form as a function of the index *)
Section Stream.
Variable ev : nat -> event.

Definition prev1 (k : nat) : option (nat * event) :=
  match k with O => None | S i => Some (X ev i, ev i) end.
Definition prev2 (k : nat) : option (nat * event) :=
  match k with S (S h) => Some (X ev h, ev h) | _ => None end.

Lemma X_unfold k : X ev k = xnext (prev1 k) (prev2 k) (ev k).
Proof. destruct k as [|[|h]]; reflexivity. Qed.

Lemma xgo_X m : forall k, xgo (prev1 k) (prev2 k) (map ev (seq k m)) = map (X ev) (seq k m).
Proof.
  induction m as [|m IH]; intros k; cbn [seq map xgo]; [reflexivity|].
  rewrite <- X_unfold. f_equal.
  change (Some (X ev k, ev k)) with (prev1 (S k)).
  replace (prev1 k) with (prev2 (S k)) by (destruct k; reflexivity). apply IH.
Qed.

Theorem xsched_X N : xsched (map ev (seq 0 N)) = map (X ev) (seq 0 N).
Proof. exact (xgo_X N 0). Qed.

(* the hazard of instruction i+1: its first predecessor, or its second if that one executed
   in the cycle just before the first *)
Definition hazard (i : nat) : bool :=
  dst_in (ev i) (ev (S i)) ||
  match i with O => false | S h => dst_in (ev h) (ev (S i)) && (X ev h + 1 =? X ev i) end.

Lemma X_0 : X ev 0 = 3. Proof. reflexivity. Qed.
Lemma X_red i : ev_redirect (ev i) = true -> X ev (S i) = X ev i + 4.
Proof. intros H. rewrite (X_unfold (S i)). cbn [prev1 xnext]. rewrite H. reflexivity. Qed.
Lemma X_seq i : ev_redirect (ev i) = false ->
  X ev (S i) = X ev i + 1 + (if hazard i then 2 else if ev_ecall (ev (S i)) then 2 else 0).
Proof.
  intros H. rewrite (X_unfold (S i)). cbn [prev1 xnext]. rewrite H. unfold hazard.
  destruct i as [|h]; reflexivity.
Qed.

Lemma X_lt i : X ev i < X ev (S i).
Proof.
  destruct (ev_redirect (ev i)) eqn:H; [rewrite (X_red i H); lia|rewrite (X_seq i H)].
  destruct (hazard i); [lia|]. destruct (ev_ecall _); lia.
Qed.
Lemma X_le_S i : X ev (S i) <= X ev i + 4.
Proof.
  destruct (ev_redirect (ev i)) eqn:H; [rewrite (X_red i H); lia|rewrite (X_seq i H)].
  destruct (hazard i); [lia|]. destruct (ev_ecall _); lia.
Qed.
Lemma X_mono i j : i <= j -> X ev i + (j - i) <= X ev j.
Proof.
  induction 1 as [|j Hij IH]; [lia|]. pose proof (X_lt j). lia.
Qed.
Lemma X_ge3 i : 3 + i <= X ev i.
Proof. pose proof (X_mono 0 i ltac:(lia)). rewrite X_0 in H. lia. Qed.

End Stream.
Arguments X : simpl never.

(* [X] looks at the stream only up to its index *)
Lemma X_ext ev ev' : forall n, (forall j, j <= n -> ev j = ev' j) -> forall j, j <= n -> X ev j = X ev' j.
Proof.
  intros n He. induction j as [j IH] using lt_wf_ind. intros Hj.
  rewrite !X_unfold. destruct j as [|[|h]]; cbn [prev1 prev2].
  - reflexivity.
  - rewrite (IH 0), !He by lia. reflexivity.
  - rewrite (IH (S h)), (IH h), !He by lia. reflexivity.
Qed.
