(* Proofs/C03Proofs.v — property C03: the cached memory is transparent.
   Everything is derived from the master lemmas of CacheInv.v:
     dc_read_ok, dc_write_ok (write_post), dc_write_direct_ok, cinv_init_proof. *)
From Coq Require Import Lia ZifyBool.
From ArchSim Require Import Model.Base Model.Mem Model.Cache
  Proofs.WordLemmas Proofs.MapLemmas Proofs.CacheArith Proofs.CacheInv.
Open Scope Z_scope.
Ltac Zify.zify_post_hook ::= Z.to_euclidean_division_equations.
Local Arguments Z.mul : simpl never.
Local Arguments Z.add : simpl never.
Local Arguments Z.sub : simpl never.
Local Arguments Z.pow : simpl never.
Local Arguments Z.div : simpl never.
Local Arguments Z.modulo : simpl never.
Local Arguments Z.of_nat : simpl never.
Local Arguments Z.to_nat : simpl never.

(** * Vocabulary of the statements *)
(* the access [a, a + nbits/8) stays inside one 32-bit word *)
Definition in_word (nbits a : Z) : Prop := (a mod 4294967296) mod 4 + nbits / 8 <= 4.
Definition cross_word (nbits a : Z) : Prop := (a mod 4294967296) mod 4 + nbits / 8 > 4.

Lemma kof_div nbits : okw nbits -> Z.of_nat (kof nbits) = nbits / 8.
Proof. intros [-> | [-> | ->]]; reflexivity. Qed.

Lemma in_word_k d nbits a : CInv d -> okw nbits ->
  (in_word nbits a <-> da_byoff (cdecode (dc d) a) + Z.of_nat (kof nbits) <= 4) /\
  (cross_word nbits a <-> da_byoff (cdecode (dc d) a) + Z.of_nat (kof nbits) > 4).
Proof.
  intros HC Hw. unfold in_word, cross_word. rewrite (byoff_eq _ _ a (cinv_sinv d HC)), (kof_div nbits Hw).
  split; reflexivity.
Qed.

(* a flat memory that agrees with a well-formed cache holds bytes at every address *)
Lemma flat_bytes f d a : CInv d -> Flat f d -> 0 <= a < 4294967296 -> 0 <= mget f a < 256.
Proof. intros HC HF Ha. rewrite (HF a Ha). apply (logical_byte _ _ a (cinv_sinv d HC)). Qed.

Lemma flat_same f d d' : Flat f d -> same_logical d d' -> Flat f d'.
Proof. intros HF SL a Ha. rewrite (SL a Ha). apply HF. exact Ha. Qed.

(** * 1. The invariant: initial state, steps *)
Lemma cinv_step_read_proof d nbits a counted r d' p : CInv d ->
  dc_read d nbits a counted = (r, d', p) -> CInv d' /\ wthrough d' = wthrough d /\ cfg (dc d') = cfg (dc d).
Proof.
  intros HC H. unfold dc_read in H.
  destruct (dc_read_block d (cdecode (dc d) a)) as [rb d1] eqn:Hrb.
  destruct (dc_read_block_ok d a rb d1 HC Hrb) as (HC1 & Hwt1 & Hcfg1 & _ & _).
  destruct rb as [[blk hit]|e].
  - pose proof (core_stats d1 hit counted) as Hcore.
    destruct (if counted then upd_stats d1 hit else (d1, 0)) as [d2 pen] eqn:Est. cbn [fst] in Hcore.
    apply pair_eq in H. destruct H as [H _]. apply pair_eq in H. destruct H as [_ <-].
    split; [apply (core_cinv d1 d2 Hcore HC1)|].
    destruct Hcore as (E1 & _ & E3). rewrite E3, E1. split; assumption.
  - apply pair_eq in H. destruct H as [H _]. apply pair_eq in H. destruct H as [_ <-].
    split; [exact HC1 | split; assumption].
Qed.

Lemma cinv_step_write_proof d nbits a v e d' p : CInv d -> okw nbits -> 0 <= v < 2 ^ nbits ->
  dc_write d nbits a v false = (e, d', p) -> CInv d' /\ wthrough d' = wthrough d /\ cfg (dc d') = cfg (dc d).
Proof.
  intros HC Hw Hv H. destruct (dc_write_ok d nbits a v e d' p HC Hw Hv H) as (H1 & H2 & H3 & _).
  split; [exact H1 | split; assumption].
Qed.

(* direct writes: the guard is "inside one word and the block of a is not resident"
   (write-through), nothing at all for write-back *)
Lemma cinv_step_direct_proof d nbits a v e d' p : CInv d -> okw nbits ->
  (wthrough d = true -> in_word nbits a /\ cache_contains (dc d) (cdecode (dc d) a) = false) ->
  dc_write d nbits a v true = (e, d', p) -> CInv d'.
Proof.
  intros HC Hw Hg H. destruct (wthrough d) eqn:Hwt.
  - destruct (Hg eq_refl) as [Hin Hnc].
    assert (Hres: res_block (dc d) a = None).
    { unfold cache_contains in Hnc. unfold res_block, lookup.
      destruct (find_block _ _ 0); [discriminate | reflexivity]. }
    apply (proj1 (in_word_k d nbits a HC Hw)) in Hin.
    apply (dc_write_direct_ok d nbits a v e d' p HC Hw Hin Hres H).
  - apply (cinv_direct_wb d nbits a v e d' p HC Hwt H).
Qed.

(** * 2. Reads are transparent *)
Lemma read_transparent_proof d f nbits a counted v d' p : CInv d -> Flat f d -> okw nbits ->
  dc_read d nbits a counted = (Ok v, d', p) ->
  mem_read rv_memcfg f nbits a = Ok v /\ Flat f d' /\ CInv d'.
Proof.
  intros HC HF Hw H. pose proof (cinv_sinv d HC) as HS.
  destruct (dc_read_ok d nbits a counted _ d' p HC Hw H) as (HC' & _ & _ & SL & Rin & Rlow & Rcross).
  split; [|split; [apply (flat_same f d d' HF SL) | exact HC']].
  destruct (inword_range _ _ a HS) as (_ & Ho & Hfit & _).
  destruct (Z_le_gt_dec 16384 (a mod 4294967296)) as [Hlo|Hlt]; [|specialize (Rlow ltac:(lia)); discriminate].
  destruct (Z_le_gt_dec (da_byoff (cdecode (dc d) a) + Z.of_nat (kof nbits)) 4) as [Hin|Hc];
    [|specialize (Rcross Hc Hlo); discriminate].
  specialize (Rin Hin Hlo). injection Rin as ->.
  destruct (mem_read_inword f nbits a Hw) as [Rok _]; [rewrite <- (byoff_eq _ _ a HS); exact Hin|].
  rewrite Rok.
  - f_equal. apply le_bytes_ext. intros j Hj. apply HF. lia.
  - exact Hlo.
  - intros j Hj. apply (flat_bytes f d _ HC HF). lia.
Qed.

(** * 3. Writes are transparent *)
Lemma flat_after_write f d d' nbits a v : okw nbits -> Flat f d ->
  in_word nbits a -> 16384 <= a mod 4294967296 ->
  (forall a', in32b a' ->
     logical d' a' = if (a mod 4294967296 <=? a') && (a' <? a mod 4294967296 + Z.of_nat (kof nbits))
                     then byte_of v (a' - a mod 4294967296) else logical d a') ->
  snd (mem_write rv_memcfg f nbits a v) = None /\ Flat (fst (mem_write rv_memcfg f nbits a v)) d'.
Proof.
  intros Hw HF Hin Hlo L. unfold in_word in Hin. rewrite <- (kof_div nbits Hw) in Hin.
  destruct (mem_write_inword f nbits a v Hw) as [Wok _]; [exact Hin|].
  destruct (Wok Hlo) as [We Wm]. split; [exact We|].
  intros a' Ha'. rewrite Wm, (L a' Ha'). destruct (_ && _); [reflexivity | apply HF; exact Ha'].
Qed.

Lemma write_transparent_proof d f nbits a v d' p : CInv d -> Flat f d -> okw nbits -> 0 <= v < 2 ^ nbits ->
  dc_write d nbits a v false = (None, d', p) ->
  mem_write rv_memcfg f nbits a v = (fst (mem_write rv_memcfg f nbits a v), None) /\
  Flat (fst (mem_write rv_memcfg f nbits a v)) d' /\ CInv d'.
Proof.
  intros HC HF Hw Hv H.
  destruct (dc_write_ok d nbits a v _ d' p HC Hw Hv H) as (HC' & _ & _ & Win & Wlow & Wcross).
  destruct (in_word_k d nbits a HC Hw) as [Kin Kcross].
  destruct (Z_le_gt_dec (da_byoff (cdecode (dc d) a) + Z.of_nat (kof nbits)) 4) as [Hin|Hc].
  2:{ destruct (Wcross Hc) as (_ & e0 & E & _). discriminate. }
  destruct (Z_le_gt_dec 16384 (a mod 4294967296)) as [Hlo|Hlt].
  2:{ destruct (Wlow Hin ltac:(lia)) as [E _]. discriminate. }
  destruct (Win Hin Hlo) as [_ L].
  destruct (flat_after_write f d d' nbits a v Hw HF (proj2 Kin Hin) Hlo L) as [We HF'].
  split; [|split; assumption].
  destruct (mem_write rv_memcfg f nbits a v) as [f' e']. cbn [fst snd] in *. rewrite We. reflexivity.
Qed.

(** * 4. Direct writes (parser preload), block not resident *)
Lemma direct_write_transparent_proof d f nbits a v d' p : CInv d -> Flat f d -> okw nbits ->
  in_word nbits a -> cache_contains (dc d) (cdecode (dc d) a) = false ->
  dc_write d nbits a v true = (None, d', p) ->
  mem_write rv_memcfg f nbits a v = (fst (mem_write rv_memcfg f nbits a v), None) /\
  Flat (fst (mem_write rv_memcfg f nbits a v)) d' /\ CInv d'.
Proof.
  intros HC HF Hw Hin Hnc H.
  assert (Hres: res_block (dc d) a = None).
  { unfold cache_contains in Hnc. unfold res_block, lookup.
    destruct (find_block _ _ 0); [discriminate | reflexivity]. }
  pose proof (proj1 (proj1 (in_word_k d nbits a HC Hw)) Hin) as Hin'.
  destruct (dc_write_direct_ok d nbits a v _ d' p HC Hw Hin' Hres H) as (HC' & _ & _ & Wok & Wbad).
  destruct (Z_le_gt_dec 16384 (a mod 4294967296)) as [Hlo|Hlt].
  2:{ destruct (Wbad ltac:(lia)) as [E _]. discriminate. }
  destruct (Wok Hlo) as [_ L].
  destruct (flat_after_write f d d' nbits a v Hw HF Hin Hlo L) as [We HF'].
  split; [|split; assumption].
  destruct (mem_write rv_memcfg f nbits a v) as [f' e']. cbn [fst snd] in *. rewrite We. reflexivity.
Qed.

(** * 5. A rejected access leaves every stored value unchanged *)
Lemma read_preserves_proof d f nbits a counted r d' p : CInv d -> Flat f d -> okw nbits ->
  dc_read d nbits a counted = (r, d', p) -> Flat f d' /\ same_logical d d'.
Proof.
  intros HC HF Hw H.
  destruct (dc_read_ok d nbits a counted r d' p HC Hw H) as (_ & _ & _ & SL & _).
  split; [apply (flat_same f d d' HF SL) | exact SL].
Qed.

Lemma rejected_write_preserves_proof d f nbits a v e d' p : CInv d -> Flat f d -> okw nbits ->
  0 <= v < 2 ^ nbits ->
  dc_write d nbits a v false = (Some e, d', p) -> Flat f d' /\ same_logical d d' /\ CInv d'.
Proof.
  intros HC HF Hw Hv H.
  destruct (dc_write_ok d nbits a v _ d' p HC Hw Hv H) as (HC' & _ & _ & Win & Wlow & Wcross).
  assert (SL: same_logical d d').
  { destruct (Z_le_gt_dec (da_byoff (cdecode (dc d) a) + Z.of_nat (kof nbits)) 4) as [Hin|Hc].
    - destruct (Z_le_gt_dec 16384 (a mod 4294967296)) as [Hlo|Hlt].
      + destruct (Win Hin Hlo) as [E _]. discriminate.
      + apply (Wlow Hin ltac:(lia)).
    - apply (Wcross Hc). }
  split; [apply (flat_same f d d' HF SL)|]. split; assumption.
Qed.

(** * 6. Accesses across a word boundary are rejected; in-word accesses never see EOffset *)
Lemma cross_word_read_rejected_proof d nbits a counted r d' p : CInv d -> okw nbits ->
  cross_word nbits a -> dc_read d nbits a counted = (r, d', p) ->
  exists e, r = Err e /\
    (16384 <= a mod 4294967296 -> e = EOffset ((a mod 4294967296) mod 4) (4 - nbits / 8)).
Proof.
  intros HC Hw Hc H. pose proof (cinv_sinv d HC) as HS.
  destruct (dc_read_ok d nbits a counted r d' p HC Hw H) as (_ & _ & _ & _ & _ & Rlow & Rcross).
  apply (proj2 (in_word_k d nbits a HC Hw)) in Hc.
  rewrite <- (byoff_eq _ _ a HS), <- (kof_div nbits Hw).
  destruct (Z_le_gt_dec 16384 (a mod 4294967296)) as [Hlo|Hlt].
  - eexists. split; [apply (Rcross Hc Hlo) | intros _; reflexivity].
  - eexists. split; [apply Rlow; lia | intros Hge; exfalso; lia].
Qed.

Lemma cross_word_write_rejected_proof d nbits a v e d' p : CInv d -> okw nbits -> 0 <= v < 2 ^ nbits ->
  cross_word nbits a -> dc_write d nbits a v false = (e, d', p) ->
  exists e0, e = Some e0 /\
    (16384 <= a mod 4294967296 -> e0 = EOffset ((a mod 4294967296) mod 4) (4 - nbits / 8)).
Proof.
  intros HC Hw Hv Hc H. pose proof (cinv_sinv d HC) as HS.
  destruct (dc_write_ok d nbits a v e d' p HC Hw Hv H) as (_ & _ & _ & _ & _ & Wcross).
  apply (proj2 (in_word_k d nbits a HC Hw)) in Hc.
  rewrite <- (byoff_eq _ _ a HS), <- (kof_div nbits Hw).
  destruct (Wcross Hc) as (_ & e0 & E & Ee). exists e0. split; assumption.
Qed.

Lemma in_word_read_no_offset_error_proof d nbits a counted r d' p : CInv d -> okw nbits ->
  in_word nbits a -> dc_read d nbits a counted = (r, d', p) ->
  forall off mx, r <> Err (EOffset off mx).
Proof.
  intros HC Hw Hin H off mx.
  destruct (dc_read_ok d nbits a counted r d' p HC Hw H) as (_ & _ & _ & _ & Rin & Rlow & _).
  apply (proj1 (in_word_k d nbits a HC Hw)) in Hin.
  destruct (Z_le_gt_dec 16384 (a mod 4294967296)) as [Hlo|Hlt].
  - rewrite (Rin Hin Hlo). discriminate.
  - rewrite (Rlow ltac:(lia)). discriminate.
Qed.

Lemma in_word_write_no_offset_error_proof d nbits a v e d' p : CInv d -> okw nbits -> 0 <= v < 2 ^ nbits ->
  in_word nbits a -> dc_write d nbits a v false = (e, d', p) ->
  forall off mx, e <> Some (EOffset off mx).
Proof.
  intros HC Hw Hv Hin H off mx.
  destruct (dc_write_ok d nbits a v e d' p HC Hw Hv H) as (_ & _ & _ & Win & Wlow & _).
  apply (proj1 (in_word_k d nbits a HC Hw)) in Hin.
  destruct (Z_le_gt_dec 16384 (a mod 4294967296)) as [Hlo|Hlt].
  - destruct (Win Hin Hlo) as [-> _]. discriminate.
  - destruct (Wlow Hin ltac:(lia)) as [-> _]. discriminate.
Qed.

(** * 7. Address errors agree (in-word accesses) *)
(* flat: the error names the first byte address; cached: a read miss / write-back write miss names
   the block-aligned address (the block fetch fails), a write-through write names the address *)
Lemma range_error_read_proof d f nbits a counted r d' p : CInv d -> Flat f d -> okw nbits ->
  in_word nbits a -> dc_read d nbits a counted = (r, d', p) ->
  (a mod 4294967296 < 16384 <->
   mem_read rv_memcfg f nbits a = Err (EAddr (a mod 4294967296) 16384 4294967295 false)) /\
  (a mod 4294967296 < 16384 <->
   r = Err (EAddr (da_balign (cdecode (dc d) a)) 16384 4294967295 false)) /\
  ((exists e, mem_read rv_memcfg f nbits a = Err e) <-> (exists e, r = Err e)).
Proof.
  intros HC HF Hw Hin H. pose proof (cinv_sinv d HC) as HS.
  destruct (dc_read_ok d nbits a counted r d' p HC Hw H) as (_ & _ & _ & _ & Rin & Rlow & _).
  pose proof (proj1 (proj1 (in_word_k d nbits a HC Hw)) Hin) as Hin'.
  destruct (inword_range _ _ a HS) as (_ & Ho & Hfit & _).
  destruct (mem_read_inword f nbits a Hw) as [Rok Rbad]; [rewrite <- (byoff_eq _ _ a HS); exact Hin'|].
  destruct (Z_le_gt_dec 16384 (a mod 4294967296)) as [Hlo|Hlt].
  - rewrite (Rin Hin' Hlo). rewrite Rok; [| exact Hlo | intros j Hj; apply (flat_bytes f d _ HC HF); lia].
    split; [split; [lia | discriminate]|]. split; [split; [lia | discriminate]|].
    split; intros [e E]; discriminate.
  - rewrite (Rlow ltac:(lia)), (Rbad ltac:(lia)). unfold aerr.
    split; [split; [reflexivity | lia]|]. split; [split; [reflexivity | lia]|].
    split; intros _; eexists; reflexivity.
Qed.

Lemma range_error_write_proof d f nbits a v e d' p : CInv d -> Flat f d -> okw nbits -> 0 <= v < 2 ^ nbits ->
  in_word nbits a -> dc_write d nbits a v false = (e, d', p) ->
  (a mod 4294967296 < 16384 <->
   snd (mem_write rv_memcfg f nbits a v) = Some (EAddr (a mod 4294967296) 16384 4294967295 false)) /\
  (a mod 4294967296 < 16384 <->
   e = Some (EAddr (if wthrough d then a mod 4294967296 else da_balign (cdecode (dc d) a))
               16384 4294967295 false)) /\
  (snd (mem_write rv_memcfg f nbits a v) = None <-> e = None).
Proof.
  intros HC HF Hw Hv Hin H. pose proof (cinv_sinv d HC) as HS.
  destruct (dc_write_ok d nbits a v e d' p HC Hw Hv H) as (_ & _ & _ & Win & Wlow & _).
  pose proof (proj1 (proj1 (in_word_k d nbits a HC Hw)) Hin) as Hin'.
  destruct (mem_write_inword f nbits a v Hw) as [Wok Wbad]; [rewrite <- (byoff_eq _ _ a HS); exact Hin'|].
  destruct (Z_le_gt_dec 16384 (a mod 4294967296)) as [Hlo|Hlt].
  - destruct (Win Hin' Hlo) as [-> _]. destruct (Wok Hlo) as [-> _].
    split; [split; [lia | discriminate]|]. split; [split; [lia | discriminate]|]. tauto.
  - destruct (Wlow Hin' ltac:(lia)) as [-> _]. rewrite (Wbad ltac:(lia)). cbn [snd]. unfold aerr.
    split; [split; [reflexivity | lia]|]. split; [split; [reflexivity | lia]|].
    split; discriminate.
Qed.

(** * 8. Histories *)
Inductive op :=
| ORead (nbits a : Z) (counted : bool)
| OWrite (nbits a v : Z).

(* what a program can observe of one access *)
Inductive obs := OVal (v : Z) | ODone | OFail.

Definition op_wf (o : op) : Prop :=
  match o with
  | ORead nbits _ _ => okw nbits
  | OWrite nbits _ v => okw nbits /\ 0 <= v < 2 ^ nbits
  end.
Definition op_in_word (o : op) : Prop :=
  match o with
  | ORead nbits a _ => in_word nbits a
  | OWrite nbits a _ => in_word nbits a
  end.

Definition cache_step (d : dcache) (o : op) : obs * dcache :=
  match o with
  | ORead nbits a counted =>
      let '(r, d', _) := dc_read d nbits a counted in
      (match r with Ok v => OVal v | Err _ => OFail end, d')
  | OWrite nbits a v =>
      let '(e, d', _) := dc_write d nbits a v false in
      (match e with None => ODone | Some _ => OFail end, d')
  end.

(* the uncached simulator *)
Definition flat_step (f : zmap) (o : op) : obs * zmap :=
  match o with
  | ORead nbits a _ =>
      (match mem_read rv_memcfg f nbits a with Ok v => OVal v | Err _ => OFail end, f)
  | OWrite nbits a v =>
      let '(f', e) := mem_write rv_memcfg f nbits a v in
      (match e with None => ODone | Some _ => OFail end, f')
  end.

(* the reference for arbitrary histories: the uncached simulator plus the rule that an access
   crossing a word boundary is rejected and changes nothing *)
Definition crossb (o : op) : bool :=
  match o with
  | ORead nbits a _ => (a mod 4294967296) mod 4 + nbits / 8 >? 4
  | OWrite nbits a _ => (a mod 4294967296) mod 4 + nbits / 8 >? 4
  end.
Definition ref_step (f : zmap) (o : op) : obs * zmap :=
  if crossb o then (OFail, f) else flat_step f o.

Fixpoint run {S} (step : S -> op -> obs * S) (s : S) (ops : list op) : list obs * S :=
  match ops with
  | [] => ([], s)
  | o :: t => let '(x, s') := step s o in let '(xs, s'') := run step s' t in (x :: xs, s'')
  end.

Lemma crossb_spec o : (crossb o = true <-> ~ op_in_word o).
Proof. destruct o; cbn [crossb op_in_word]; unfold in_word; lia. Qed.

Lemma step_sim_proof d f o : CInv d -> Flat f d -> op_wf o ->
  fst (cache_step d o) = fst (ref_step f o) /\
  CInv (snd (cache_step d o)) /\ Flat (snd (ref_step f o)) (snd (cache_step d o)) /\
  wthrough (snd (cache_step d o)) = wthrough d /\ cfg (dc (snd (cache_step d o))) = cfg (dc d).
Proof.
  intros HC HF Hwf. pose proof (cinv_sinv d HC) as HS. unfold ref_step.
  destruct o as [nbits a counted | nbits a v]; cbn [op_wf] in Hwf.
  - (* read *)
    cbn [cache_step flat_step].
    destruct (dc_read d nbits a counted) as [[r d'] p] eqn:H. cbn [fst snd].
    destruct (cinv_step_read_proof d nbits a counted r d' p HC H) as (HC' & Hwt' & Hcfg').
    destruct (read_preserves_proof d f nbits a counted r d' p HC HF Hwf H) as [HF' _].
    destruct (crossb (ORead nbits a counted)) eqn:Ec; cbn [fst snd].
    + split; [|exact (conj HC' (conj HF' (conj Hwt' Hcfg')))].
      assert (Hc: cross_word nbits a) by (cbn [crossb] in Ec; unfold cross_word; lia).
      destruct (cross_word_read_rejected_proof d nbits a counted r d' p HC Hwf Hc H) as (e & -> & _).
      reflexivity.
    + split; [|exact (conj HC' (conj HF' (conj Hwt' Hcfg')))].
      assert (Hin: in_word nbits a) by (cbn [crossb] in Ec; unfold in_word; lia).
      destruct r as [v|e].
      * destruct (read_transparent_proof d f nbits a counted v d' p HC HF Hwf H) as [-> _]. reflexivity.
      * destruct (range_error_read_proof d f nbits a counted _ d' p HC HF Hwf Hin H) as (_ & _ & [_ R]).
        destruct R as [e' ->]; [eexists; reflexivity | reflexivity].
  - (* write *)
    destruct Hwf as [Hw Hv]. cbn [cache_step flat_step].
    destruct (dc_write d nbits a v false) as [[e d'] p] eqn:H. cbn [fst snd].
    destruct (cinv_step_write_proof d nbits a v e d' p HC Hw Hv H) as (HC' & Hwt' & Hcfg').
    destruct (crossb (OWrite nbits a v)) eqn:Ec; cbn [fst snd].
    + assert (Hc: cross_word nbits a) by (cbn [crossb] in Ec; unfold cross_word; lia).
      destruct (cross_word_write_rejected_proof d nbits a v e d' p HC Hw Hv Hc H) as (e0 & -> & _).
      destruct (rejected_write_preserves_proof d f nbits a v e0 d' p HC HF Hw Hv H) as (HF' & _ & _).
      split; [reflexivity | exact (conj HC' (conj HF' (conj Hwt' Hcfg')))].
    + assert (Hin: in_word nbits a) by (cbn [crossb] in Ec; unfold in_word; lia).
      destruct e as [e0|].
      * destruct (rejected_write_preserves_proof d f nbits a v e0 d' p HC HF Hw Hv H) as (HF' & _ & _).
        destruct (range_error_write_proof d f nbits a v _ d' p HC HF Hw Hv Hin H) as (Rf & Rc & Rn).
        assert (Hlt: a mod 4294967296 < 16384).
        { destruct (Z_le_gt_dec 16384 (a mod 4294967296)) as [Hlo|]; [|lia]. exfalso.
          destruct (dc_write_ok d nbits a v _ d' p HC Hw Hv H) as (_ & _ & _ & Win & _).
          destruct (Win (proj1 (proj1 (in_word_k d nbits a HC Hw)) Hin) Hlo) as [E _]. discriminate. }
        destruct (mem_write_inword f nbits a v Hw) as [_ Wbad];
          [unfold in_word in Hin; rewrite (kof_div nbits Hw); exact Hin|].
        rewrite (Wbad Hlt). cbn [fst snd]. split; [reflexivity | exact (conj HC' (conj HF' (conj Hwt' Hcfg')))].
      * destruct (write_transparent_proof d f nbits a v d' p HC HF Hw Hv H) as (E & HF' & _).
        rewrite E. cbn [fst snd]. split; [reflexivity | exact (conj HC' (conj HF' (conj Hwt' Hcfg')))].
Qed.

Lemma run_sim_proof : forall ops d f, CInv d -> Flat f d -> Forall op_wf ops ->
  fst (run cache_step d ops) = fst (run ref_step f ops) /\
  CInv (snd (run cache_step d ops)) /\
  Flat (snd (run ref_step f ops)) (snd (run cache_step d ops)) /\
  wthrough (snd (run cache_step d ops)) = wthrough d /\
  cfg (dc (snd (run cache_step d ops))) = cfg (dc d).
Proof.
  induction ops as [|o t IH]; intros d f HC HF Hall; cbn [run].
  - cbn [fst snd]. split; [reflexivity|]. split; [exact HC|]. split; [exact HF|]. split; reflexivity.
  - inversion Hall as [|? ? Ho Ht]; subst.
    destruct (step_sim_proof d f o HC HF Ho) as (E1 & HC1 & HF1 & W1 & G1).
    destruct (cache_step d o) as [x d1]. destruct (ref_step f o) as [y f1]. cbn [fst snd] in *.
    destruct (IH d1 f1 HC1 HF1 Ht) as (E2 & HC2 & HF2 & W2 & G2).
    destruct (run cache_step d1 t) as [xs d2]. destruct (run ref_step f1 t) as [ys f2]. cbn [fst snd] in *.
    subst. rewrite W2, G2. split; [reflexivity|]. split; [exact HC2|]. split; [exact HF2|]. split; assumption.
Qed.

Lemma run_ref_flat : forall ops f, Forall op_in_word ops -> run ref_step f ops = run flat_step f ops.
Proof.
  induction ops as [|o t IH]; intros f Hall; cbn [run]; [reflexivity|].
  inversion Hall as [|? ? Ho Ht]; subst.
  assert (E: ref_step f o = flat_step f o).
  { unfold ref_step. destruct (crossb o) eqn:Ec; [|reflexivity].
    apply crossb_spec in Ec. contradiction. }
  rewrite E. destruct (flat_step f o) as [y f1]. rewrite (IH f1 Ht). reflexivity.
Qed.

Lemma history_transparent_proof ops d f : CInv d -> Flat f d ->
  Forall op_wf ops -> Forall op_in_word ops ->
  fst (run cache_step d ops) = fst (run flat_step f ops) /\
  CInv (snd (run cache_step d ops)) /\
  Flat (snd (run flat_step f ops)) (snd (run cache_step d ops)).
Proof.
  intros HC HF Hwf Hin. rewrite <- (run_ref_flat ops f Hin).
  destruct (run_sim_proof ops d f HC HF Hwf) as (H1 & H2 & H3 & _). split; [exact H1|]. split; assumption.
Qed.

Lemma history_from_init_proof c wt pen m ops : cfg_ok c -> bytes_ok m ->
  Forall op_wf ops -> Forall op_in_word ops ->
  fst (run cache_step (upd_lower (dcache_init c wt pen) m) ops) = fst (run flat_step m ops).
Proof.
  intros Hc Hm Hwf Hin. destruct (cinv_init_lower_proof c wt pen m Hc Hm) as [HC HF].
  apply (history_transparent_proof ops _ m HC HF Hwf Hin).
Qed.

Lemma history_all_from_init_proof c wt pen m ops : cfg_ok c -> bytes_ok m -> Forall op_wf ops ->
  fst (run cache_step (upd_lower (dcache_init c wt pen) m) ops) = fst (run ref_step m ops).
Proof.
  intros Hc Hm Hwf. destruct (cinv_init_lower_proof c wt pen m Hc Hm) as [HC HF].
  apply (run_sim_proof ops _ m HC HF Hwf).
Qed.

(** * The statements of the property text, both access kinds together *)
Lemma cinv_step_proof :
  (forall d nbits a counted r d' p, CInv d -> dc_read d nbits a counted = (r, d', p) -> CInv d') /\
  (forall d nbits a v e d' p, CInv d -> okw nbits -> 0 <= v < 2 ^ nbits ->
     dc_write d nbits a v false = (e, d', p) -> CInv d') /\
  (forall d nbits a v e d' p, CInv d -> okw nbits ->
     (wthrough d = true -> in_word nbits a /\ cache_contains (dc d) (cdecode (dc d) a) = false) ->
     dc_write d nbits a v true = (e, d', p) -> CInv d').
Proof.
  split; [|split].
  - intros d nbits a counted r d' p HC H. apply (cinv_step_read_proof d nbits a counted r d' p HC H).
  - intros d nbits a v e d' p HC Hw Hv H. apply (cinv_step_write_proof d nbits a v e d' p HC Hw Hv H).
  - exact cinv_step_direct_proof.
Qed.

Lemma rejected_preserves_proof : forall d f nbits a, CInv d -> Flat f d -> okw nbits ->
  (forall counted e d' p, dc_read d nbits a counted = (Err e, d', p) -> Flat f d' /\ CInv d') /\
  (forall v e d' p, 0 <= v < 2 ^ nbits -> dc_write d nbits a v false = (Some e, d', p) ->
     Flat f d' /\ CInv d').
Proof.
  intros d f nbits a HC HF Hw. split.
  - intros counted e d' p H. split.
    + apply (read_preserves_proof d f nbits a counted _ d' p HC HF Hw H).
    + apply (cinv_step_read_proof d nbits a counted _ d' p HC H).
  - intros v e d' p Hv H.
    destruct (rejected_write_preserves_proof d f nbits a v e d' p HC HF Hw Hv H) as (H1 & _ & H3).
    split; assumption.
Qed.

Lemma cross_word_rejected_proof : forall d nbits a, CInv d -> okw nbits -> cross_word nbits a ->
  (forall counted r d' p, dc_read d nbits a counted = (r, d', p) -> exists e, r = Err e) /\
  (forall v e d' p, 0 <= v < 2 ^ nbits -> dc_write d nbits a v false = (e, d', p) -> exists e0, e = Some e0).
Proof.
  intros d nbits a HC Hw Hc. split.
  - intros counted r d' p H.
    destruct (cross_word_read_rejected_proof d nbits a counted r d' p HC Hw Hc H) as (e & E & _).
    exists e. exact E.
  - intros v e d' p Hv H.
    destruct (cross_word_write_rejected_proof d nbits a v e d' p HC Hw Hv Hc H) as (e0 & E & _).
    exists e0. exact E.
Qed.

Lemma in_word_not_offset_error_proof : forall d nbits a, CInv d -> okw nbits -> in_word nbits a ->
  (forall counted r d' p off mx, dc_read d nbits a counted = (r, d', p) -> r <> Err (EOffset off mx)) /\
  (forall v e d' p off mx, 0 <= v < 2 ^ nbits -> dc_write d nbits a v false = (e, d', p) ->
     e <> Some (EOffset off mx)).
Proof.
  intros d nbits a HC Hw Hin. split.
  - intros counted r d' p off mx H.
    apply (in_word_read_no_offset_error_proof d nbits a counted r d' p HC Hw Hin H).
  - intros v e d' p off mx Hv H.
    apply (in_word_write_no_offset_error_proof d nbits a v e d' p HC Hw Hv Hin H).
Qed.

Lemma range_error_agrees_proof : forall d f nbits a, CInv d -> Flat f d -> okw nbits -> in_word nbits a ->
  (forall counted r d' p, dc_read d nbits a counted = (r, d', p) ->
     ((exists e, mem_read rv_memcfg f nbits a = Err e) <-> (exists e, r = Err e))) /\
  (forall v e d' p, 0 <= v < 2 ^ nbits -> dc_write d nbits a v false = (e, d', p) ->
     ((exists e0, snd (mem_write rv_memcfg f nbits a v) = Some e0) <-> (exists e0, e = Some e0))).
Proof.
  intros d f nbits a HC HF Hw Hin. split.
  - intros counted r d' p H. apply (range_error_read_proof d f nbits a counted r d' p HC HF Hw Hin H).
  - intros v e d' p Hv H.
    destruct (range_error_write_proof d f nbits a v e d' p HC HF Hw Hv Hin H) as (_ & _ & [N1 N2]).
    split; intros [e0 E].
    + destruct e as [e1|]; [exists e1; reflexivity|]. rewrite (N2 eq_refl) in E. discriminate.
    + destruct (snd (mem_write rv_memcfg f nbits a v)) as [e1|]; [exists e1; reflexivity|].
      rewrite (N1 eq_refl) in E. discriminate.
Qed.

Lemma ref_step_meaning_proof : forall f o,
  (op_in_word o -> ref_step f o = flat_step f o) /\ (~ op_in_word o -> ref_step f o = (OFail, f)).
Proof.
  intros f o. unfold ref_step. pose proof (crossb_spec o) as H.
  destruct (crossb o); split; intros Hx; try reflexivity; exfalso; [apply (proj1 H eq_refl Hx) |].
  destruct H as [_ H]. specialize (H Hx). discriminate.
Qed.

Lemma byte_of_meaning_proof : forall w o, byte_of w o = (w / 2 ^ (8 * o)) mod 256.
Proof. reflexivity. Qed.

Lemma in_word_meaning_proof : forall nbits a,
  (in_word nbits a <-> (a mod 4294967296) mod 4 + nbits / 8 <= 4) /\
  (cross_word nbits a <-> (a mod 4294967296) mod 4 + nbits / 8 > 4).
Proof. intros; split; reflexivity. Qed.

Lemma flat_meaning_proof : forall f d,
  Flat f d <-> (forall a, 0 <= a < 4294967296 -> mget f a = logical d a).
Proof. intros; reflexivity. Qed.
