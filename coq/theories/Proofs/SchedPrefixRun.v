(* SchedPrefixRun.v — prefixes of the pipeline run against the documented schedule: runs that make
   c steps without fault (no assumption that the program terminates) and runs that end in a fault. *)
From Coq Require Import Lia ZifyBool.
From ArchSim Require Import Model.Base Model.Mem Model.Cache Model.Fmt Model.RV Model.Single
  Model.RVSplit Model.Pipe Proofs.WordLemmas Proofs.C01Step Proofs.SplitExec Proofs.C02Split
  Proofs.PipeLaws Proofs.PipeShape Proofs.PipeInv Proofs.PipeInvBase Proofs.PipeInvStages
  Proofs.PipeInvStraight Proofs.PipeInvControl Proofs.PipeInvEcall Proofs.PipeRefine Proofs.SchedDefs Proofs.SchedRec
  Proofs.SchedStep Proofs.SchedInv Proofs.SchedLink Proofs.SchedMain Proofs.SchedPrefixFault Proofs.SchedPrefixLink.
Open Scope Z_scope.

Local Arguments Z.of_nat : simpl never.
Local Arguments Z.add : simpl never.
Local Arguments Z.sub : simpl never.

Section Run.
Variable P : list instr.
Hypothesis Hsup : Forall (fun i => supported i = true) P.
Variable s0 : st.
Variable N : nat.
Hypothesis HN1 : forall j, (j < N)%nat ->
  single_done (sigma j s0) = false /\ snd (single_pipeline_step (sigma j s0)) = None.
Variable BN : bool.
Hypothesis HNb : BN = true ->
  single_done (sigma N s0) = false /\ snd (single_pipeline_step (sigma N s0)) <> None.

Notation Jp := (J' P s0 N BN).
Notation evM := (evm s0 N BN).
Notation fstep := (fault_step s0 N BN).
Notation inR := (inr N BN).
Definition retire_m (j : nat) : Z * nat := (pc (sigma j s0), (X evM j + 2)%nat).

(** * c steps without fault *)
Lemma run_nofault c : forall t p k, Jp t p k -> inR k ->
  (BN = false -> (k + 6 + c <= N)%nat) -> (BN = true -> (t + c < fstep)%nat) ->
  exists p' m, pipe_run c p = (p', POutOfFuel) /\ pipe_run_steps c p = c /\
    pipe_retire_from t c p = map retire_m (seq k m) /\ Jp (t + c) p' (k + m) /\ inR (k + m) /\
    (k + m <= N)%nat.
Proof.
  induction c as [|c IH]; intros t p k HJ Hk Hk6 Hf.
  - destruct (J'_step P Hsup s0 N HN1 BN HNb t p k HJ Hk ltac:(intros E; specialize (Hk6 E); lia)) as [Hnd _].
    exists p, 0%nat. cbn [pipe_run pipe_run_steps pipe_retire_from seq map]. rewrite Hnd, !Nat.add_0_r.
    repeat split; try assumption. unfold inr in Hk. destruct BN; lia.
  - destruct (J'_step P Hsup s0 N HN1 BN HNb t p k HJ Hk ltac:(intros E; specialize (Hk6 E); lia)) as [Hnd Hst].
    cbn [pipe_run pipe_run_steps pipe_retire_from]. rewrite Hnd.
    destruct (pipe_step p) as [p1 [f|]] eqn:Hps.
    { destruct Hst as (EB & _ & Hfs & _). specialize (Hf EB). lia. }
    destruct Hst as [(Hl4 & HJ1)|(x & Hl4 & Ha & Ht & Hlt & HJ1)]; rewrite Hl4; cbn [some_ret app].
    + destruct (IH (S t) p1 k HJ1 Hk ltac:(intros E; specialize (Hk6 E); lia) ltac:(intros E; specialize (Hf E); lia))
        as (p' & m & Hr & Hs & Hret & HJ' & Hk' & Hle).
      exists p', m. replace (t + S c)%nat with (S t + c)%nat by lia.
      split; [exact Hr|]. split; [rewrite Hs; reflexivity|]. split; [exact Hret|]. split; [exact HJ'|]. split; assumption.
    + assert (Hk1 : inR (S k)).
      { unfold inr in *. destruct BN; [lia|specialize (Hk6 eq_refl); lia]. }
      destruct (IH (S t) p1 (S k) HJ1 Hk1 ltac:(intros E; specialize (Hk6 E); lia) ltac:(intros E; specialize (Hf E); lia))
        as (p' & m & Hr & Hs & Hret & HJ' & Hk' & Hle).
      exists p', (S m). replace (t + S c)%nat with (S t + c)%nat by lia. replace (k + S m)%nat with (S k + m)%nat by lia.
      split; [exact Hr|]. split; [rewrite Hs; reflexivity|].
      split; [rewrite Hret; cbn [seq map]; unfold retire_m at 2; rewrite Ha, Ht; reflexivity|].
      split; [exact HJ'|]. split; assumption.
Qed.

(** * A run that ends in a fault *)
Lemma run_fault c : BN = true -> forall t p k pf f, Jp t p k -> inR k -> pipe_run c p = (pf, PFaulted f) ->
  exists m, pipe_retire_from t c p = map retire_m (seq k m) /\ ((k + m)%nat = N \/ S (k + m) = N) /\
    (t + pipe_run_steps c p)%nat = fstep /\ icount (pst pf) = icount (sigma N s0) /\
    (exists tm, single_pipeline_step (sigma N s0) = (tm, Some f)) /\
    (* nothing else has retired: instruction k + m would write back at or after the fault *)
    (fstep <= X evM (k + m) + 2)%nat /\ ((0 < k + m)%nat -> (X evM (k + m - 1) + 2 < fstep)%nat).
Proof.
  intros EB. induction c as [|c IH]; intros t p k pf f HJ Hk Hrun; cbn [pipe_run pipe_run_steps pipe_retire_from] in *.
  { destruct (pipe_done p); discriminate Hrun. }
  destruct (pipe_done p) eqn:Hd; [discriminate Hrun|].
  destruct (J'_step P Hsup s0 N HN1 BN HNb t p k HJ Hk ltac:(intros E; congruence)) as [_ Hst].
  destruct (pipe_step p) as [p1 [g|]] eqn:Hps.
  - injection Hrun as <- <-. destruct Hst as (_ & Hs & Hfs & Hic & HkN).
    exists 0%nat. cbn [seq map]. rewrite Nat.add_0_r.
    split; [reflexivity|]. split; [exact HkN|]. split; [lia|]. split; [exact Hic|]. split; [exact Hs|].
    assert (HkNT : (k < NT N BN)%nat) by (unfold NT; rewrite EB; cbn [b2n]; destruct HkN; lia).
    pose proof (J'_bound P s0 N BN t p k HJ HkNT). split; [lia|].
    intros Hk0. pose proof (J'_retired P s0 N BN t p k HJ Hk0). lia.
  - destruct Hst as [(Hl4 & HJ1)|(x & Hl4 & Ha & Ht & Hlt & HJ1)]; rewrite Hl4; cbn [some_ret app].
    + destruct (IH (S t) p1 k pf f HJ1 Hk Hrun) as (m & Hret & Hm & Hs & Hrest).
      exists m. split; [exact Hret|]. split; [exact Hm|]. split; [lia|exact Hrest].
    + assert (Hk1 : inR (S k)) by (unfold inr; rewrite EB; lia).
      destruct (IH (S t) p1 (S k) pf f HJ1 Hk1 Hrun) as (m & Hret & Hm & Hs & Hrest).
      exists (S m). rewrite Hret. cbn [seq map]. unfold retire_m at 2. rewrite Ha, Ht.
      replace (k + S m)%nat with (S k + m)%nat by lia. split; [reflexivity|]. split; [exact Hm|]. split; [lia|exact Hrest].
Qed.

(* marking instruction N as redirecting does not move any execute cycle up to N *)
Lemma xnext_mark p1 p2 e : xnext p1 p2 (mark e) = xnext p1 p2 e.
Proof. reflexivity. Qed.

Lemma X_evm j : (j <= N)%nat -> X evM j = X (ev s0) j.
Proof.
  induction j as [j IH] using lt_wf_ind. intros Hj. rewrite !X_unfold.
  assert (He : forall i, (i < N)%nat -> evM i = ev s0 i).
  { intros i Hi. unfold evm. replace (i =? N)%nat with false by lia. rewrite Bool.andb_false_r. reflexivity. }
  assert (Hx : xnext (prev1 evM j) (prev2 evM j) (evM j) = xnext (prev1 evM j) (prev2 evM j) (ev s0 j)).
  { unfold evm at 3. destruct (BN && (j =? N)%nat); [apply xnext_mark|reflexivity]. }
  rewrite Hx. destruct j as [|[|h]]; cbn [prev1 prev2].
  - reflexivity.
  - rewrite (IH 0%nat), He by lia. reflexivity.
  - rewrite (IH (S h)), (IH h), !He by lia. reflexivity.
Qed.

End Run.

(** * Lists: the retirements up to a cycle are a prefix of the schedule *)
Lemma filter_all {A} (f : A -> bool) l : (forall x, In x l -> f x = true) -> filter f l = l.
Proof.
  induction l as [|a l IH]; intros H; cbn [filter]; [reflexivity|].
  rewrite (H a (or_introl eq_refl)), IH; [reflexivity|]. intros x Hx. apply H. right. exact Hx.
Qed.

Lemma filter_seq_lt m M : (m <= M)%nat -> filter (fun j => (j <? m)%nat) (seq 0 M) = seq 0 m.
Proof.
  revert m. induction M as [|M IH]; intros m Hm.
  - assert (m = 0)%nat by lia. subst m. reflexivity.
  - rewrite seq_S, filter_app. cbn [filter Nat.add].
    destruct (Nat.eq_dec m (S M)) as [->|Hne].
    + replace (M <? S M)%nat with true by lia. rewrite filter_all.
      * rewrite seq_S. reflexivity.
      * intros j Hj. apply in_seq in Hj. lia.
    + replace (M <? m)%nat with false by lia. rewrite app_nil_r. apply IH. lia.
Qed.

Lemma filter_map {A B} (f : A -> B) (q : B -> bool) l :
  filter q (map f l) = map f (filter (fun x => q (f x)) l).
Proof.
  induction l as [|a l IH]; cbn [map filter]; [reflexivity|]. destruct (q (f a)); cbn [map]; rewrite IH; reflexivity.
Qed.

(* a list indexed by 0..M-1 whose second components select exactly the indices below m *)
Lemma filter_sched {A} (a : nat -> A) (g : nat -> nat) (q : nat -> bool) m M : (m <= M)%nat ->
  (forall j, (j < M)%nat -> q (g j) = (j <? m)%nat) ->
  filter (fun aw => q (snd aw)) (map (fun j => (a j, g j)) (seq 0 M)) = map (fun j => (a j, g j)) (seq 0 m).
Proof.
  intros Hm Hq. rewrite filter_map. cbn [snd]. f_equal. rewrite <- (filter_seq_lt m M Hm).
  apply filter_ext_in. intros j Hj. apply in_seq in Hj. apply Hq. lia.
Qed.
