(* C17Proofs.v — the displayed numerals denote the value; the memory table is exact. *)
From Coq Require Import Lia ZifyBool ZArith List Bool Sorted Permutation.
From ArchSim Require Import Model.Base Model.Mem Model.Fmt Spec.Numerals Proofs.WordLemmas.
Import ListNotations.
Open Scope Z_scope.

Ltac Zify.zify_post_hook ::= Z.to_euclidean_division_equations.
Local Arguments Z.mul : simpl never.
Local Arguments Z.add : simpl never.
Local Arguments Z.sub : simpl never.
Local Arguments Z.pow : simpl never.
Local Arguments Z.div : simpl never.
Local Arguments Z.modulo : simpl never.
Local Arguments Z.land : simpl never.
Local Arguments Z.of_nat : simpl never.
Local Arguments Z.to_nat : simpl never.

(** * 1. Digits *)

Lemma digit_val_char d : 0 <= d < 16 -> digit_val (digit_char d) = Some d.
Proof.
  intros Hd. unfold digit_val, digit_char. destruct (d <? 10) eqn:E.
  - replace ((48 <=? 48 + d) && (48 + d <=? 57)) with true by lia. f_equal; lia.
  - replace ((48 <=? 55 + d) && (55 + d <=? 57)) with false by lia.
    replace ((65 <=? 55 + d) && (55 + d <=? 70)) with true by lia. f_equal; lia.
Qed.

Lemma digit_char_range d : 0 <= d < 16 -> 48 <= digit_char d <= 70.
Proof. intros Hd. unfold digit_char. destruct (d <? 10) eqn:E; lia. Qed.

Lemma digit_char_zero d : 0 <= d < 16 -> digit_char d = 48 -> d = 0.
Proof. intros Hd. unfold digit_char. destruct (d <? 10) eqn:E; lia. Qed.

(* value of a digit list, least significant first *)
Fixpoint val_lsf (base : Z) (l : list Z) : Z :=
  match l with
  | [] => 0
  | d :: t => d + base * val_lsf base t
  end.

Lemma horner_app base acc s c :
  horner base acc (s ++ [c]) =
  match horner base acc s with
  | Some a =>
      match digit_val c with
      | Some d => if d <? base then Some (a * base + d) else None
      | None => None
      end
  | None => None
  end.
Proof.
  revert acc; induction s as [|x s IH]; intros acc; cbn [app horner].
  - destruct (digit_val c) as [d|]; [destruct (d <? base)|]; reflexivity.
  - destruct (digit_val x) as [d|]; [destruct (d <? base)|]; auto.
Qed.

Definition digits_ok (base : Z) (l : list Z) : Prop := Forall (fun d => 0 <= d < base) l.

Lemma horner_digits base l : 2 <= base <= 16 -> digits_ok base l ->
  horner base 0 (map digit_char (rev l)) = Some (val_lsf base l).
Proof.
  intros Hb H; induction H as [|d l Hd Hl IH]; cbn [rev map val_lsf].
  - reflexivity.
  - rewrite map_app; cbn [map]. rewrite horner_app, IH, digit_val_char by lia.
    replace (d <? base) with true by lia. f_equal; lia.
Qed.

Lemma digits_lsf_spec base : 2 <= base -> forall fuel z, 0 <= z < 2 ^ Z.of_nat fuel ->
  digits_ok base (digits_lsf base fuel z) /\ val_lsf base (digits_lsf base fuel z) = z.
Proof.
  intros Hb; induction fuel as [|f IH]; intros z Hz.
  - cbn [digits_lsf val_lsf]. change (2 ^ Z.of_nat 0) with 1 in Hz. split; [constructor | lia].
  - cbn [digits_lsf]. destruct (z <? base) eqn:E.
    + cbn [val_lsf]. split; [repeat constructor; lia | lia].
    + assert (Hq : 0 <= z / base < 2 ^ Z.of_nat f).
      { rewrite Nat2Z.inj_succ, Z.pow_succ_r in Hz by lia.
        assert (HP : 0 < 2 ^ Z.of_nat f) by (apply Z.pow_pos_nonneg; lia).
        split; [apply Z.div_pos; lia | apply Z.div_lt_upper_bound; nia]. }
      destruct (IH _ Hq) as [IH1 IH2]. cbn [val_lsf]. rewrite IH2.
      split; [constructor; [lia | exact IH1] | lia].
Qed.

(* the most significant digit of a positive number is not 0 *)
Lemma digits_lsf_msd base : 2 <= base -> forall fuel z, 0 < z < 2 ^ Z.of_nat fuel ->
  exists l d, digits_lsf base fuel z = l ++ [d] /\ 0 < d.
Proof.
  intros Hb; induction fuel as [|f IH]; intros z Hz.
  - change (2 ^ Z.of_nat 0) with 1 in Hz. lia.
  - cbn [digits_lsf]. destruct (z <? base) eqn:E.
    + exists [], z. split; [reflexivity | lia].
    + assert (Hq : 0 < z / base < 2 ^ Z.of_nat f).
      { rewrite Nat2Z.inj_succ, Z.pow_succ_r in Hz by lia.
        assert (HP : 0 < 2 ^ Z.of_nat f) by (apply Z.pow_pos_nonneg; lia).
        split; [apply Z.div_str_pos; lia | apply Z.div_lt_upper_bound; nia]. }
      destruct (IH _ Hq) as (l & d & Hl & Hd). rewrite Hl.
      exists (z mod base :: l), d. split; [reflexivity | exact Hd].
Qed.

Lemma digits_lsf_length base : 2 <= base -> forall fuel z k,
  0 <= z < base ^ Z.of_nat k -> (1 <= k)%nat -> (length (digits_lsf base fuel z) <= k)%nat.
Proof.
  intros Hb; induction fuel as [|f IH]; intros z k Hz Hk; cbn [digits_lsf].
  - cbn [length]. lia.
  - destruct (z <? base) eqn:E; cbn [length]; [lia|].
    destruct k as [|k]; [lia|]. destruct k as [|k].
    + change (base ^ Z.of_nat 1) with (base ^ 1) in Hz. rewrite Z.pow_1_r in Hz. lia.
    + apply le_n_S. apply IH; [|lia].
      rewrite (Nat2Z.inj_succ (S k)), Z.pow_succ_r in Hz by lia.
      assert (HP : 0 < base ^ Z.of_nat (S k)) by (apply Z.pow_pos_nonneg; lia).
      split; [apply Z.div_pos; lia | apply Z.div_lt_upper_bound; lia].
Qed.

Lemma digits_lsf_nonempty base f z : digits_lsf base (S f) z <> [].
Proof. cbn [digits_lsf]. destruct (z <? base); discriminate. Qed.

(* the fuel used by [nat_digits] suffices *)
Lemma fuel_ok z : 0 <= z -> 0 <= z < 2 ^ Z.of_nat (S (Z.to_nat (Z.log2 z))).
Proof.
  intros Hz. rewrite Nat2Z.inj_succ, Z2Nat.id by apply Z.log2_nonneg.
  destruct (Z.eq_dec z 0) as [->|Hn]; [cbn; lia|].
  pose proof (Z.log2_spec z). lia.
Qed.

Lemma of_digits_horner base s : s <> [] -> of_digits base s = horner base 0 s.
Proof. destruct s; [congruence | reflexivity]. Qed.

Lemma fmt_nat_nonempty base z : fmt_nat base z <> [].
Proof.
  unfold fmt_nat, nat_digits. intros H. apply (f_equal (@length Z)) in H.
  rewrite map_length, rev_length in H.
  pose proof (digits_lsf_nonempty base (Z.to_nat (Z.log2 z)) z) as Hne.
  destruct (digits_lsf base (S (Z.to_nat (Z.log2 z))) z); [congruence | discriminate].
Qed.

Lemma fmt_nat_roundtrip_lem base z : 2 <= base <= 16 -> 0 <= z ->
  of_digits base (fmt_nat base z) = Some z /\
  (z = 0 -> fmt_nat base z = [48]) /\
  (0 < z -> exists c t, fmt_nat base z = c :: t /\ c <> 48).
Proof.
  intros Hb Hz. split; [|split].
  - rewrite of_digits_horner by apply fmt_nat_nonempty.
    unfold fmt_nat, nat_digits.
    destruct (digits_lsf_spec base (proj1 Hb) _ z (fuel_ok z Hz)) as [H1 H2].
    rewrite horner_digits by assumption. f_equal; exact H2.
  - intros ->. unfold fmt_nat, nat_digits. change (Z.log2 0) with 0. change (Z.to_nat 0) with O.
    cbn [digits_lsf]. replace (0 <? base) with true by lia. reflexivity.
  - intros Hpos. unfold fmt_nat, nat_digits.
    destruct (digits_lsf_spec base (proj1 Hb) _ z (fuel_ok z Hz)) as [H1 _].
    destruct (digits_lsf_msd base (proj1 Hb) _ z (conj Hpos (proj2 (fuel_ok z Hz)))) as (l & d & Hl & Hd).
    rewrite Hl in *. rewrite rev_app_distr. cbn [rev app map].
    exists (digit_char d), (map digit_char (rev l)). split; [reflexivity|].
    intros Hc. unfold digits_ok in H1. rewrite Forall_app in H1. destruct H1 as [_ H1].
    inversion H1 as [|x y Hx Hy]; subst. apply digit_char_zero in Hc; lia.
Qed.

(* every character of fmt_nat is a digit character *)
Lemma fmt_nat_chars base z : 2 <= base <= 16 -> 0 <= z ->
  Forall (fun c => 48 <= c <= 70) (fmt_nat base z).
Proof.
  intros Hb Hz. unfold fmt_nat, nat_digits.
  destruct (digits_lsf_spec base (proj1 Hb) _ z (fuel_ok z Hz)) as [H1 _].
  apply Forall_forall. intros c Hc. apply in_map_iff in Hc. destruct Hc as (d & <- & Hd).
  apply in_rev in Hd. unfold digits_ok in H1. rewrite Forall_forall in H1.
  apply digit_char_range. specialize (H1 _ Hd). lia.
Qed.

Lemma fmt_nat_length base z k : 2 <= base -> 0 <= z < base ^ Z.of_nat k -> (1 <= k)%nat ->
  (1 <= length (fmt_nat base z) <= k)%nat.
Proof.
  intros Hb Hz Hk. split.
  - pose proof (fmt_nat_nonempty base z). destruct (fmt_nat base z); [congruence | cbn [length]; lia].
  - unfold fmt_nat, nat_digits. rewrite map_length, rev_length.
    apply digits_lsf_length; assumption.
Qed.

(** * 2. Signed decimal strings *)

Lemma parse_dec_str_dec z : parse_dec (str_dec z) = Some z.
Proof.
  unfold str_dec, fmt_int. destruct (z <? 0) eqn:E.
  - unfold parse_dec. change (45 =? 45) with true.
    destruct (fmt_nat_roundtrip_lem 10 (- z)) as [H _]; [lia | lia |]. rewrite H.
    cbn [option_map]. f_equal; lia.
  - destruct (fmt_nat_roundtrip_lem 10 z) as [H _]; [lia | lia |].
    pose proof (fmt_nat_chars 10 z) as Hc.
    destruct (fmt_nat 10 z) as [|c t] eqn:Ef; [discriminate|].
    unfold parse_dec. assert (Hc' : 48 <= c <= 70).
    { specialize (Hc ltac:(lia) ltac:(lia)). inversion Hc; assumption. }
    replace (c =? 45) with false by lia. exact H.
Qed.

(** * 3. Padding *)

Lemma horner_pad base k s : 0 < base -> horner base 0 (repeat 48 k ++ s) = horner base 0 s.
Proof.
  intros Hb. induction k as [|k IH]; cbn [repeat app horner]; [reflexivity|].
  change (digit_val 48) with (Some 0). cbv beta iota. replace (0 <? base) with true by lia.
  replace (0 * base + 0) with 0 by lia. exact IH.
Qed.

Lemma fmt_pad_spec base w z : 2 <= base <= 16 -> 0 <= z ->
  of_digits base (fmt_pad base w z) = Some z /\ Forall (fun c => c <> 32) (fmt_pad base w z).
Proof.
  intros Hb Hz. unfold fmt_pad, pad_left. split.
  - rewrite of_digits_horner.
    + rewrite horner_pad by lia. rewrite <- of_digits_horner by apply fmt_nat_nonempty.
      apply fmt_nat_roundtrip_lem; assumption.
    + intros H. apply app_eq_nil in H. destruct H as [_ H]. exact (fmt_nat_nonempty _ _ H).
  - apply Forall_app. split.
    + apply Forall_forall. intros c Hc. apply repeat_spec in Hc. lia.
    + pose proof (fmt_nat_chars base z Hb Hz) as H. rewrite Forall_forall in *.
      intros c Hc. specialize (H c Hc). lia.
Qed.

Lemma fmt_pad_length base w z : 2 <= base -> 1 <= w -> 0 <= z < base ^ w ->
  Z.of_nat (length (fmt_pad base w z)) = w.
Proof.
  intros Hb Hw Hz. unfold fmt_pad, pad_left. rewrite app_length, repeat_length.
  pose proof (fmt_nat_length base z (Z.to_nat w) Hb) as H.
  rewrite Z2Nat.id in H by lia. specialize (H Hz ltac:(lia)). lia.
Qed.

(** * 4. Grouping *)

Definition nospace (s : list Z) : Prop := Forall (fun c => c <> 32) s.

Lemma ungroup_app a b : ungroup (a ++ b) = ungroup a ++ ungroup b.
Proof. unfold ungroup. induction a as [|x a IH]; cbn [app filter]; [reflexivity|].
  destruct (negb (x =? 32)); cbn [app]; congruence. Qed.

Lemma ungroup_rev s : ungroup (rev s) = rev (ungroup s).
Proof.
  induction s as [|x s IH]; [reflexivity|]. cbn [rev]. rewrite ungroup_app, IH.
  unfold ungroup; cbn [filter]. destruct (negb (x =? 32)); cbn [rev app]; [reflexivity|].
  apply app_nil_r.
Qed.

Lemma nospace_rev s : nospace s -> nospace (rev s).
Proof. unfold nospace. rewrite !Forall_forall. intros H c Hc. apply H. apply in_rev. exact Hc. Qed.

Lemma ungroup_group_rev g : forall t k, nospace t -> ungroup (group_rev g k t) = t.
Proof.
  induction t as [|c t IH]; intros k Hns; [reflexivity|].
  inversion Hns as [|x y Hc Ht]; subst. cbn [group_rev].
  destruct (Nat.eqb k g); unfold ungroup; cbn [filter].
  - change (32 =? 32) with true. cbn [negb]. replace (c =? 32) with false by lia. cbn [negb].
    f_equal. apply IH; assumption.
  - replace (c =? 32) with false by lia. cbn [negb]. f_equal. apply IH; assumption.
Qed.

Lemma group_rev_no_last g : forall t k a, nospace t -> group_rev g k t <> a ++ [32].
Proof.
  induction t as [|c t IH]; intros k a Hns; cbn [group_rev].
  - destruct a; discriminate.
  - inversion Hns as [|x y Hc Ht]; subst. destruct (Nat.eqb k g).
    + destruct a as [|x [|y a]]; cbn [app]; intros H; inversion H; subst; try congruence.
      eapply IH; eassumption.
    + destruct a as [|x a]; cbn [app]; intros H; inversion H; subst; try congruence.
      eapply IH; eassumption.
Qed.

Lemma group_rev_no_double g : forall t k a b, nospace t -> group_rev g k t <> a ++ 32 :: 32 :: b.
Proof.
  induction t as [|c t IH]; intros k a b Hns; cbn [group_rev].
  - destruct a; discriminate.
  - inversion Hns as [|x y Hc Ht]; subst. destruct (Nat.eqb k g).
    + destruct a as [|x [|y a]]; cbn [app]; intros H; inversion H; subst; try congruence.
      eapply IH; eassumption.
    + destruct a as [|x a]; cbn [app]; intros H; inversion H; subst; try congruence.
      eapply IH; eassumption.
Qed.

Lemma mod_plus_self x G : 0 < G -> (x + G) mod G = x mod G.
Proof. intros HG. replace (x + G) with (x + 1 * G) by lia. apply Z_mod_plus_full. Qed.

Lemma group_rev_pos g : (1 <= g)%nat -> forall t k p, nospace t -> (k <= g)%nat ->
  (p < length (group_rev g k t))%nat ->
  (nth p (group_rev g k t) 0 = 32 <-> (Z.of_nat p + Z.of_nat k + 1) mod (Z.of_nat g + 1) = 0).
Proof.
  intros Hg. set (G := Z.of_nat g + 1). assert (HG : 1 < G) by (unfold G; lia).
  induction t as [|c t IH]; intros k p Hns Hk Hp; cbn [group_rev] in *.
  - cbn [length] in Hp. lia.
  - inversion Hns as [|x y Hc Ht]; subst. destruct (Nat.eqb k g) eqn:E.
    + apply Nat.eqb_eq in E; subst k. destruct p as [|[|p]]; cbn [nth].
      * replace (Z.of_nat 0 + Z.of_nat g + 1) with (0 + G) by (unfold G; lia).
        rewrite mod_plus_self by lia. rewrite Z.mod_small by lia. tauto.
      * replace (Z.of_nat 1 + Z.of_nat g + 1) with (1 + G) by (unfold G; lia).
        rewrite mod_plus_self by lia. rewrite Z.mod_small by lia. split; [congruence | lia].
      * cbn [length] in Hp. rewrite IH by (try assumption; lia).
        replace (Z.of_nat (S (S p)) + Z.of_nat g + 1) with (Z.of_nat p + Z.of_nat 1 + 1 + G)
          by (unfold G; lia).
        rewrite mod_plus_self by lia. tauto.
    + apply Nat.eqb_neq in E. destruct p as [|p]; cbn [nth].
      * rewrite Z.mod_small by (unfold G; lia). split; [congruence | lia].
      * cbn [length] in Hp. rewrite IH by (try assumption; lia).
        replace (Z.of_nat p + Z.of_nat (S k) + 1) with (Z.of_nat (S p) + Z.of_nat k + 1) by lia.
        tauto.
Qed.

Lemma rev_double a b : rev (a ++ 32 :: 32 :: b) = rev b ++ 32 :: 32 :: rev a.
Proof. rewrite rev_app_distr. cbn [rev]. rewrite <- !app_assoc. reflexivity. Qed.

Lemma grouping_lem g s : (1 <= g)%nat -> nospace s ->
  ungroup (groupify g s) = s /\ well_grouped g (groupify g s).
Proof.
  intros Hg Hns. pose proof (nospace_rev s Hns) as Hr. unfold groupify.
  set (t := rev s) in *. split; [|split; [|split; [|split]]].
  - rewrite ungroup_rev, ungroup_group_rev by assumption. apply rev_involutive.
  - (* no leading space *)
    intros b H. apply (f_equal (@rev Z)) in H. rewrite rev_involutive in H. cbn [rev] in H.
    revert H. apply group_rev_no_last. assumption.
  - (* no trailing space *)
    intros a H. apply (f_equal (@rev Z)) in H. rewrite rev_involutive, rev_app_distr in H.
    cbn [rev app] in H. destruct t as [|c t']; [discriminate|].
    cbn [group_rev] in H. replace (Nat.eqb 0 g) with false in H
      by (symmetry; apply Nat.eqb_neq; lia).
    inversion Hr as [|x y Hc Ht]; subst. inversion H; congruence.
  - (* no doubled space *)
    intros a b H. apply (f_equal (@rev Z)) in H. rewrite rev_involutive, rev_double in H.
    revert H. apply group_rev_no_double. assumption.
  - intros p Hp. rewrite rev_involutive. rewrite rev_length in Hp.
    rewrite group_rev_pos by (try assumption; lia).
    replace (Z.of_nat p + Z.of_nat 0 + 1) with (Z.of_nat p + 1) by lia. tauto.
Qed.

(** * 5. The four strings of [n_bit_repr] *)

Lemma pow16_cdiv n : 1 <= n -> 2 ^ n <= 16 ^ cdiv n 4 /\ 1 <= cdiv n 4 /\ cdiv n 4 = (n + 3) / 4.
Proof.
  intros Hn. unfold cdiv. replace (n + 4 - 1) with (n + 3) by lia.
  split; [|split; [lia | reflexivity]].
  change 16 with (2 ^ 4). rewrite <- Z.pow_mul_r by lia. apply Z.pow_le_mono_r; lia.
Qed.

Lemma repr_u n v : 1 <= n -> Z.land v (2 ^ n - 1) = v mod 2 ^ n /\ 0 <= v mod 2 ^ n < 2 ^ n.
Proof.
  intros Hn. split; [apply land_ones_mod; lia|]. apply Z.mod_pos_bound. apply Z.pow_pos_nonneg; lia.
Qed.

Lemma bin_denotes_lem n v : 1 <= n ->
  let '(b, ud, h, sd) := n_bit_repr n v in
  of_digits 2 (ungroup b) = Some (v mod 2 ^ n) /\ Z.of_nat (length (ungroup b)) = n.
Proof.
  intros Hn. unfold n_bit_repr. destruct (repr_u n v Hn) as [-> Hu]. cbv zeta.
  destruct (fmt_pad_spec 2 n (v mod 2 ^ n)) as [H1 H2]; [lia | lia |].
  destruct (grouping_lem 8 _ ltac:(lia) H2) as [-> _].
  split; [exact H1 | apply fmt_pad_length; lia].
Qed.

Lemma hex_denotes_lem n v : 1 <= n ->
  let '(b, ud, h, sd) := n_bit_repr n v in
  of_digits 16 (ungroup h) = Some (v mod 2 ^ n) /\ Z.of_nat (length (ungroup h)) = (n + 3) / 4.
Proof.
  intros Hn. unfold n_bit_repr. destruct (repr_u n v Hn) as [-> Hu]. cbv zeta.
  destruct (fmt_pad_spec 16 (cdiv n 4) (v mod 2 ^ n)) as [H1 H2]; [lia | lia |].
  destruct (grouping_lem 2 _ ltac:(lia) H2) as [-> _].
  destruct (pow16_cdiv n Hn) as (Hp & Hc & Hc').
  split; [exact H1 |]. rewrite <- Hc'. apply fmt_pad_length; lia.
Qed.

Lemma udec_denotes_lem n v : 1 <= n ->
  let '(b, ud, h, sd) := n_bit_repr n v in parse_dec ud = Some (v mod 2 ^ n).
Proof.
  intros Hn. unfold n_bit_repr. destruct (repr_u n v Hn) as [-> Hu]. cbv zeta.
  apply parse_dec_str_dec.
Qed.

Lemma sdec_denotes_lem n v : 1 <= n ->
  let '(b, ud, h, sd) := n_bit_repr n v in
  parse_dec sd = Some (let u := v mod 2 ^ n in if u <? 2 ^ (n - 1) then u else u - 2 ^ n).
Proof.
  intros Hn. unfold n_bit_repr. destruct (repr_u n v Hn) as [-> Hu]. cbv zeta.
  rewrite parse_dec_str_dec. f_equal.
  destruct (v mod 2 ^ n >=? 2 ^ (n - 1)) eqn:E1; destruct (v mod 2 ^ n <? 2 ^ (n - 1)) eqn:E2;
    try reflexivity; lia.
Qed.

(* the signed reading is the model's own [I n] (two's complement) and lies in the n-bit range *)
Lemma twos_range n v : 1 <= n ->
  let u := v mod 2 ^ n in
  let s := if u <? 2 ^ (n - 1) then u else u - 2 ^ n in
  s = I n v /\ - 2 ^ (n - 1) <= s < 2 ^ (n - 1) /\ s mod 2 ^ n = v mod 2 ^ n.
Proof.
  intros Hn. cbv zeta. destruct (repr_u n v Hn) as [_ Hu].
  assert (Hp : 2 ^ n = 2 * 2 ^ (n - 1)).
  { replace n with (Z.succ (n - 1)) at 1 by lia. apply Z.pow_succ_r. lia. }
  split; [reflexivity|]. set (u := v mod 2 ^ n) in *.
  destruct (u <? 2 ^ (n - 1)) eqn:E.
  - split; [lia|]. apply Z.mod_small. lia.
  - split; [lia|]. replace (u - 2 ^ n) with (u + (-1) * 2 ^ n) by lia.
    rewrite Z_mod_plus_full. apply Z.mod_small. lia.
Qed.

Lemma repr_grouping_lem n v : 1 <= n ->
  let '(b, ud, h, sd) := n_bit_repr n v in
  well_grouped 8 b /\ well_grouped 2 h /\ ungroup ud = ud /\ ungroup sd = sd.
Proof.
  intros Hn. unfold n_bit_repr. destruct (repr_u n v Hn) as [-> Hu]. cbv zeta.
  destruct (fmt_pad_spec 2 n (v mod 2 ^ n)) as [_ H2]; [lia | lia |].
  destruct (fmt_pad_spec 16 (cdiv n 4) (v mod 2 ^ n)) as [_ H16]; [lia | lia |].
  split; [apply grouping_lem; [lia | exact H2]|].
  split; [apply grouping_lem; [lia | exact H16]|].
  assert (Hd : forall z, ungroup (str_dec z) = str_dec z).
  { intros z. unfold str_dec, fmt_int.
    assert (Hf : forall y, 0 <= y -> ungroup (fmt_nat 10 y) = fmt_nat 10 y).
    { intros y Hy. pose proof (fmt_nat_chars 10 y ltac:(lia) Hy) as Hc.
      induction Hc as [|c l Hc Hl IH]; [reflexivity|]. unfold ungroup in *. cbn [filter].
      replace (c =? 32) with false by lia. cbn [negb]. f_equal. exact IH. }
    destruct (z <? 0) eqn:E; [|apply Hf; lia].
    unfold ungroup at 1. cbn [filter]. change (45 =? 32) with false. cbn [negb].
    f_equal. apply Hf. lia. }
  split; apply Hd.
Qed.

Lemma to_hex_str_lem v n : 1 <= n -> 0 <= v < 2 ^ n ->
  of_digits 16 (to_hex_str v n) = Some v /\ Z.of_nat (length (to_hex_str v n)) = (n + 3) / 4.
Proof.
  intros Hn Hv. unfold to_hex_str. destruct (pow16_cdiv n Hn) as (Hp & Hc & Hc').
  split; [apply fmt_pad_spec; lia|]. rewrite <- Hc'. apply fmt_pad_length; lia.
Qed.

(** * 6. The data-memory table *)

Lemma mget_opt_none l k : mget_opt l k = None -> ~ In k (map fst l).
Proof.
  induction l as [|[k' v] l IH]; cbn [mget_opt map In fst]; [tauto|].
  destruct (k' =? k) eqn:E; [discriminate|]. intros H [Hk | Hk]; [lia | exact (IH H Hk)].
Qed.

Lemma mget_opt_some l k v : mget_opt l k = Some v -> In k (map fst l).
Proof.
  induction l as [|[k' v'] l IH]; cbn [mget_opt map In fst]; [discriminate|].
  destruct (k' =? k) eqn:E; [left; lia | right; auto].
Qed.

Lemma mem_repr_aux_inv c m nbits : forall keys seen rows,
  mem_repr_aux c m nbits keys seen = Ok rows ->
  NoDup (map fst seen) ->
  (forall a v, In (a, v) seen -> mem_read c m nbits a = Ok v) ->
  NoDup (map fst rows) /\
  (forall a v, In (a, v) rows -> mem_read c m nbits a = Ok v) /\
  (forall a, In a (map fst rows) <->
     In a (map fst seen) \/ exists k, In k keys /\ a = k - k mod (nbits / cw c)).
Proof.
  induction keys as [|k t IH]; intros seen rows H Hnd Hval; cbn [mem_repr_aux] in H.
  - inversion H; subst rows. split; [assumption|]. split; [assumption|].
    intros a. split; [tauto|]. intros [Ha | (k & [] & _)]. exact Ha.
  - cbv zeta in H. set (al := k - k mod (nbits / cw c)) in *.
    destruct (mget_opt seen al) as [v0|] eqn:E.
    + destruct (IH _ _ H Hnd Hval) as (R1 & R2 & R3). split; [assumption|]. split; [assumption|].
      intros a. rewrite R3. split.
      * intros [Ha | (k' & Hk' & Ha)]; [tauto|]. right. exists k'. split; [right|]; assumption.
      * intros [Ha | (k' & [Hk' | Hk'] & Ha)]; [tauto | | right; exists k'; tauto].
        subst k'. fold al in Ha. subst a. left. eapply mget_opt_some; eassumption.
    + destruct (mem_read c m nbits al) as [v|e] eqn:R; [|discriminate].
      assert (Hnd' : NoDup (map fst (seen ++ [(al, v)]))).
      { rewrite map_app. cbn [map fst]. apply Permutation_NoDup with (al :: map fst seen).
        - apply Permutation_cons_append.
        - constructor; [apply mget_opt_none; assumption | assumption]. }
      assert (Hval' : forall a v', In (a, v') (seen ++ [(al, v)]) -> mem_read c m nbits a = Ok v').
      { intros a v' Hin. apply in_app_or in Hin. destruct Hin as [Hin | [Hin | []]]; [auto|].
        inversion Hin; subst. exact R. }
      destruct (IH _ _ H Hnd' Hval') as (R1 & R2 & R3). split; [assumption|]. split; [assumption|].
      intros a. rewrite R3. rewrite map_app, in_app_iff. cbn [map fst In]. split.
      * intros [[Ha | [Ha | []]] | (k' & Hk' & Ha)].
        -- tauto.
        -- right. exists k. split; [left; reflexivity | subst a; reflexivity].
        -- right. exists k'. split; [right|]; assumption.
      * intros [Ha | (k' & [Hk' | Hk'] & Ha)]; [tauto | | right; exists k'; tauto].
        subst k'. fold al in Ha. subst a. tauto.
Qed.

(** insertion sort *)
Lemma pinsert_perm x l : Permutation (pinsert x l) (x :: l).
Proof.
  induction l as [|y t IH]; cbn [pinsert]; [apply Permutation_refl|].
  destruct (fst x <=? fst y); [apply Permutation_refl|].
  eapply perm_trans; [apply perm_skip; exact IH | apply perm_swap].
Qed.

Lemma psort_perm l : Permutation (psort l) l.
Proof.
  induction l as [|x l IH]; cbn [psort fold_right]; [constructor|].
  eapply perm_trans; [apply pinsert_perm | apply perm_skip; exact IH].
Qed.

Lemma map_fst_pinsert x l : map fst (pinsert x l) = zinsert (fst x) (map fst l).
Proof.
  induction l as [|y t IH]; cbn [pinsert zinsert map]; [reflexivity|].
  destruct (fst x <=? fst y); cbn [map]; congruence.
Qed.

Lemma map_fst_psort l : map fst (psort l) = zsort (map fst l).
Proof.
  induction l as [|x l IH]; cbn [psort zsort fold_right map]; [reflexivity|].
  fold (psort l). rewrite map_fst_pinsert, IH. reflexivity.
Qed.

Lemma zinsert_in x l y : In y (zinsert x l) <-> y = x \/ In y l.
Proof.
  induction l as [|z t IH]; cbn [zinsert In]; [intuition|].
  destruct (x <=? z); cbn [In]; [intuition|]. rewrite IH. intuition.
Qed.

Lemma zinsert_sorted x l : StronglySorted Z.le l -> StronglySorted Z.le (zinsert x l).
Proof.
  induction 1 as [|y t Hs IH Hf]; cbn [zinsert].
  - constructor; constructor.
  - destruct (x <=? y) eqn:E.
    + constructor; [constructor; assumption|]. constructor; [lia|].
      rewrite Forall_forall in *. intros z Hz. specialize (Hf z Hz). lia.
    + constructor; [exact IH|]. rewrite Forall_forall in *. intros z Hz.
      apply zinsert_in in Hz. destruct Hz as [-> | Hz]; [lia | auto].
Qed.

Lemma zsort_sorted l : StronglySorted Z.le (zsort l).
Proof.
  induction l as [|x l IH]; cbn [zsort fold_right]; [constructor|].
  apply zinsert_sorted. exact IH.
Qed.

Lemma sorted_nodup_strict l : StronglySorted Z.le l -> NoDup l -> StronglySorted Z.lt l.
Proof.
  induction 1 as [|y t Hs IH Hf]; intros Hnd; [constructor|].
  inversion Hnd as [|y' t' Hni Hnd']; subst. constructor; [auto|].
  rewrite Forall_forall in *. intros z Hz. specialize (Hf z Hz).
  assert (z <> y) by (intros ->; contradiction). lia.
Qed.

Lemma mem_table_exact_lem c m nbits rows : mem_repr c m nbits = Ok rows ->
  (forall a, In a (map fst rows) <-> exists k, In k (mkeys m) /\ a = k - k mod (nbits / cw c)) /\
  StronglySorted Z.lt (map fst rows) /\
  (forall a v, In (a, v) rows -> mem_read c m nbits a = Ok v).
Proof.
  unfold mem_repr. destruct (mem_repr_aux c m nbits (mkeys m) []) as [l|e] eqn:E; [|discriminate].
  intros H; inversion H; subst rows; clear H.
  destruct (mem_repr_aux_inv c m nbits _ _ _ E) as (R1 & R2 & R3);
    [constructor | intros a v [] |].
  pose proof (psort_perm l) as HP.
  split; [|split].
  - intros a. transitivity (In a (map fst l)).
    + split; apply Permutation_in;
        [apply Permutation_map, HP | apply Permutation_sym, Permutation_map, HP].
    + rewrite R3. cbn [map In]. tauto.
  - apply sorted_nodup_strict.
    + rewrite map_fst_psort. apply zsort_sorted.
    + eapply Permutation_NoDup; [apply Permutation_sym, Permutation_map, HP | exact R1].
  - intros a v Hin. apply R2. eapply Permutation_in; eassumption.
Qed.

(** when no read can fail: the address window is a whole number of units and (if addresses
    wrap) fits in the address length; the written keys lie inside the window *)
Definition cfg_aligned (c : memcfg) (n : Z) : Prop :=
  0 < n /\ 0 <= alo c /\ alo c mod n = 0 /\ ahi c mod n = 0 /\
  (aovf c = true -> ahi c <= 2 ^ alen c).

Definition keys_in_range (c : memcfg) (m : zmap) : Prop :=
  forall k, In k (mkeys m) -> alo c <= k < ahi c.

Lemma read_mult_ok c m a : forall k i acc,
  (forall j, i <= j < i + Z.of_nat k -> in_range c (eff_addr c (a + j)) = true) ->
  exists v, read_mult c m a k i acc = Ok v.
Proof.
  induction k as [|k IH]; intros i acc H; cbn [read_mult].
  - eexists; reflexivity.
  - unfold read_cell. rewrite H by lia. apply IH. intros j Hj. apply H. lia.
Qed.

Lemma aligned_window lo hi n k j : 0 < n -> lo mod n = 0 -> hi mod n = 0 ->
  lo <= k < hi -> 0 <= j < n -> lo <= k - k mod n + j < hi.
Proof.
  intros Hn Hlo Hhi Hk Hj.
  assert (E1 : k - k mod n = n * (k / n)) by (pose proof (Z.div_mod k n); lia).
  assert (E2 : lo = n * (lo / n)) by (pose proof (Z.div_mod lo n); lia).
  assert (E3 : hi = n * (hi / n)) by (pose proof (Z.div_mod hi n); lia).
  assert (L1 : lo / n <= k / n) by (apply Z.div_le_mono; lia).
  assert (L2 : k / n < hi / n) by (apply Z.div_lt_upper_bound; lia).
  rewrite E1. nia.
Qed.

Lemma mem_read_ok c m nbits k : cfg_aligned c (nbits / cw c) -> alo c <= k < ahi c ->
  exists v, mem_read c m nbits (k - k mod (nbits / cw c)) = Ok v.
Proof.
  intros (Hn & Hlo0 & Hlo & Hhi & Hov) Hk. unfold mem_read, ncells.
  set (n := nbits / cw c) in *.
  destruct (read_mult_ok c m (k - k mod n) (Z.to_nat n) 0 0) as [v Hv].
  - intros j Hj. rewrite Z2Nat.id in Hj by lia.
    pose proof (aligned_window (alo c) (ahi c) n k j Hn Hlo Hhi Hk ltac:(lia)) as Hw.
    assert (He : eff_addr c (k - k mod n + j) = k - k mod n + j).
    { unfold eff_addr. destruct (aovf c) eqn:Eo; [|reflexivity].
      specialize (Hov eq_refl). apply Z.mod_small. lia. }
    rewrite He. unfold in_range. lia.
  - rewrite Hv. eexists; reflexivity.
Qed.

Lemma mem_repr_aux_ok c m nbits : forall keys seen,
  (forall k, In k keys -> exists v, mem_read c m nbits (k - k mod (nbits / cw c)) = Ok v) ->
  exists rows, mem_repr_aux c m nbits keys seen = Ok rows.
Proof.
  induction keys as [|k t IH]; intros seen H; cbn [mem_repr_aux].
  - eexists; reflexivity.
  - cbv zeta. destruct (mget_opt seen (k - k mod (nbits / cw c))).
    + apply IH. intros k' Hk'. apply H. right; assumption.
    + destruct (H k (or_introl eq_refl)) as [v ->]. apply IH.
      intros k' Hk'. apply H. right; assumption.
Qed.

Lemma mem_table_total_lem c m nbits : cfg_aligned c (nbits / cw c) -> keys_in_range c m ->
  exists rows, mem_repr c m nbits = Ok rows.
Proof.
  intros Hc Hk. unfold mem_repr.
  destruct (mem_repr_aux_ok c m nbits (mkeys m) []) as [rows ->].
  - intros k Hin. apply mem_read_ok; [assumption | apply Hk; assumption].
  - eexists; reflexivity.
Qed.

Lemma rv_aligned nbits : nbits = 8 \/ nbits = 16 \/ nbits = 32 ->
  cfg_aligned rv_memcfg (nbits / cw rv_memcfg).
Proof.
  intros [-> | [-> | ->]]; unfold cfg_aligned; cbn [cw alo ahi aovf alen rv_memcfg];
    (split; [reflexivity|]); (split; [discriminate|]); (split; [reflexivity|]);
    (split; [reflexivity|]); intros _; discriminate.
Qed.

(* keys stay in range under every write the model can perform *)
Lemma mset_keys m k v x : In x (mkeys (mset m k v)) -> x = k \/ In x (mkeys m).
Proof.
  unfold mkeys. induction m as [|[k' v'] t IH]; cbn [mset map fst In]; [intuition|].
  destruct (k' =? k) eqn:E; cbn [map fst In]; [intuition lia|]. intuition.
Qed.

Lemma write_mult_keys c : forall k m a i v,
  keys_in_range c m -> keys_in_range c (fst (write_mult c m a k i v)).
Proof.
  induction k as [|k IH]; intros m a i v Hk; cbn [write_mult]; [exact Hk|].
  unfold write_cell. destruct (in_range c (eff_addr c (a + i))) eqn:E; [|exact Hk].
  apply IH. intros x Hx. apply mset_keys in Hx. destruct Hx as [-> | Hx]; [|auto].
  unfold in_range in E. lia.
Qed.

Lemma mem_write_keys c m nbits a v :
  keys_in_range c m -> keys_in_range c (fst (mem_write c m nbits a v)).
Proof. apply write_mult_keys. Qed.

Lemma rv_word_table_lem m : (forall k, In k (mkeys m) -> 16384 <= k < 4294967296) ->
  exists rows, mem_repr rv_memcfg m 32 = Ok rows /\
  (forall a, In a (map fst rows) <-> exists k, In k (mkeys m) /\ a = k - k mod 4) /\
  StronglySorted Z.lt (map fst rows) /\
  (forall a v, In (a, v) rows -> mem_read rv_memcfg m 32 a = Ok v).
Proof.
  intros Hk.
  destruct (mem_table_total_lem rv_memcfg m 32 (rv_aligned 32 ltac:(tauto)) Hk) as [rows Hr].
  exists rows. split; [exact Hr|]. exact (mem_table_exact_lem rv_memcfg m 32 rows Hr).
Qed.
