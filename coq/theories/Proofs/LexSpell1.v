(* LexSpell1.v — the assembler (Model/Asm.v) depends on register tokens only through reg_num and on literals only
   through int(): relations on token lines, _segment, inline labels, data segment. *)
From Coq Require Import ZArith List Bool Lia.
From ArchSim Require Import Model.Base Model.Mem Model.Cache Model.Fmt Model.RV Model.Toy Model.Asm.
Import ListNotations.
Open Scope Z_scope.

(** * the relations *)
Definition reg_eq (a b : regtok) : Prop := reg_num a = reg_num b.
Definition orel {A} (R : A -> A -> Prop) (a b : option A) : Prop :=
  match a, b with Some x, Some y => R x y | None, None => True | _, _ => False end.
Definition lit0_eq (a b : str) : Prop := py_int0 a = py_int0 b.        (* fields read with int(text, 0) *)
Definition lit10_eq (a b : str) : Prop := py_int10 a = py_int10 b.     (* fields read with int(text) *)
Definition var_eq (a b : Z * option str) : Prop := fst a = fst b /\ orel lit10_eq (snd a) (snd b).

Definition itok_rel (i j : itok) : Prop :=
  k_mn i = k_mn j /\
  orel reg_eq (k_rd i) (k_rd j) /\ orel reg_eq (k_rs1 i) (k_rs1 j) /\ orel reg_eq (k_rs2 i) (k_rs2 j) /\
  orel reg_eq (k_reg1 i) (k_reg1 j) /\ orel reg_eq (k_reg2 i) (k_reg2 j) /\ orel reg_eq (k_rs i) (k_rs j) /\
  orel lit0_eq (k_imm i) (k_imm j) /\ orel lit0_eq (k_csr i) (k_csr j) /\ orel lit0_eq (k_uimm i) (k_uimm j) /\
  orel lit0_eq (k_offset i) (k_offset j) /\
  k_label i = k_label j /\ orel var_eq (k_var i) (k_var j).
Definition tbody_rel (a b : tbody) : Prop :=
  match a, b with
  | BStr k, BStr k' => k = k'
  | BIns i, BIns j => itok_rel i j
  | BOther, BOther => True
  | _, _ => False
  end.
Definition rline_rel (a b : rline) : Prop :=
  match a, b with
  | RDirective d, RDirective d' => d = d'
  | RVarDecl n ty v, RVarDecl n' ty' v' => n = n' /\ ty = ty' /\ Forall2 lit0_eq v v'
  | RStrDecl n s, RStrDecl n' s' => n = n' /\ s = s'
  | RZeroDecl n v, RZeroDecl n' v' => n = n' /\ lit10_eq v v'
  | RLabelDecl n, RLabelDecl n' => n = n'
  | RInstr il b, RInstr il' b' => il = il' /\ tbody_rel b b'
  | _, _ => False
  end.
Definition tentry_rel (a b : tentry) : Prop :=
  match a, b with
  | ELabel n, ELabel n' => n = n'
  | EBody x, EBody y => tbody_rel x y
  | _, _ => False
  end.
Definition lrel {A} (R : A -> A -> Prop) (p q : Z * A) : Prop := fst p = fst q /\ R (snd p) (snd q).
Definition toks_rel := Forall2 (lrel rline_rel).
Definition text_rel := Forall2 (lrel tentry_rel).

Definition pres_rel {A} (R : A -> A -> Prop) (x y : pres A) : Prop :=
  match x, y with POk a, POk b => R a b | PErr e, PErr e' => e = e' | _, _ => False end.

Lemma orel_refl {A} (R : A -> A -> Prop) : (forall x, R x x) -> forall o, orel R o o.
Proof. intros H [x|]; cbn; auto. Qed.
Lemma itok_rel_refl i : itok_rel i i.
Proof.
  unfold itok_rel. repeat split; try (apply orel_refl; intros x; reflexivity).
  apply orel_refl. intros [n idx]. split; [reflexivity|]. apply orel_refl. intros x; reflexivity.
Qed.
Lemma tbody_rel_refl b : tbody_rel b b.
Proof. destruct b; cbn; auto. apply itok_rel_refl. Qed.
Lemma Forall2_refl {A} (R : A -> A -> Prop) : (forall x, R x x) -> forall l, Forall2 R l l.
Proof. intros H l. induction l; constructor; auto. Qed.
Lemma rline_rel_refl r : rline_rel r r.
Proof.
  destruct r; cbn; auto. - repeat split. apply Forall2_refl. intros x; reflexivity. - split; reflexivity.
  - split; [reflexivity|apply tbody_rel_refl].
Qed.

Lemma Forall2_rev {A} (R : A -> A -> Prop) l l' : Forall2 R l l' -> Forall2 R (rev l) (rev l').
Proof.
  induction 1 as [|x y l l' Hxy _ IH]; [constructor|]. cbn [rev]. apply Forall2_app; [exact IH|].
  constructor; [exact Hxy|constructor].
Qed.

(** * _segment *)
Section Seg.
  Variable A : Type.
  Variable R : A -> A -> Prop.
  Variable dir_of : A -> option Z.
  Hypothesis Rdir : forall x y, R x y -> dir_of x = dir_of y.
  Notation LR := (Forall2 (lrel R)).

  Lemma split_at_line_rel ln : forall l l' acc acc', LR l l' -> LR acc acc' ->
    LR (fst (split_at_line A ln l acc)) (fst (split_at_line A ln l' acc')) /\
    LR (snd (split_at_line A ln l acc)) (snd (split_at_line A ln l' acc')).
  Proof.
    induction l as [|[k x] t IH]; intros l' acc acc' H Ha; inversion H as [|p [k' y] t1 t' Hp Ht]; subst; cbn [split_at_line].
    - split; [apply Forall2_rev, Ha|constructor].
    - destruct Hp as [Hk Hx]. cbn [fst snd] in Hk, Hx. subst k'. destruct (k =? ln).
      + split; [apply Forall2_rev, Ha|exact Ht].
      + apply IH; [exact Ht|]. constructor; [split; [reflexivity|exact Hx]|exact Ha].
  Qed.

  Definition pair_rel (p q : list (Z * A) * list (Z * A)) : Prop := LR (fst p) (fst q) /\ LR (snd p) (snd q).

  Lemma segment_loop_rel : forall rest rest' de te data data' text text',
    LR rest rest' -> LR data data' -> LR text text' ->
    pres_rel pair_rel (segment_loop A dir_of rest de te data text) (segment_loop A dir_of rest' de te data' text').
  Proof.
    induction rest as [|[ln x] t IH]; intros rest' de te data data' text text' H Hd Ht;
      inversion H as [|p [ln' y] t1 t' Hp Hr]; subst; cbn [segment_loop].
    - split; assumption.
    - destruct Hp as [Hk Hx]. cbn [fst snd] in Hk, Hx. subst ln'. rewrite <- (Rdir _ _ Hx).
      destruct (dir_of x) as [d|]; [|apply IH; assumption].
      destruct (d =? 1).
      + destruct de; [reflexivity|].
        destruct (split_at_line_rel ln text text' [] [] Ht (Forall2_nil _)) as [S1 S2].
        destruct (split_at_line A ln text []) as [b1 a1], (split_at_line A ln text' []) as [b2 a2]. cbn [fst snd] in S1, S2.
        apply IH; assumption.
      + destruct te; [reflexivity|].
        destruct (split_at_line_rel ln data data' [] [] Hd (Forall2_nil _)) as [S1 S2].
        destruct (split_at_line A ln data []) as [b1 a1], (split_at_line A ln data' []) as [b2 a2]. cbn [fst snd] in S1, S2.
        apply IH; assumption.
  Qed.

  Lemma segment_rel l l' : LR l l' -> pres_rel pair_rel (segment dir_of l) (segment dir_of l').
  Proof.
    intros H. destruct H as [|[ln x] [ln' y] t t' Hp Ht]; [split; constructor|].
    destruct Hp as [Hk Hx]. cbn [fst snd] in Hk, Hx. subst ln'. cbn [segment]. rewrite <- (Rdir _ _ Hx).
    destruct (dir_of x) as [[|[q|q|]|q]|]; apply segment_loop_rel; try assumption; try constructor; try assumption;
      split; [reflexivity|exact Hx].
  Qed.
End Seg.

Lemma rline_rel_dir x y : rline_rel x y -> rdir_of x = rdir_of y.
Proof. destruct x, y; cbn; intros H; try contradiction; try reflexivity. subst. reflexivity. Qed.

(** * inline labels *)
Lemma split_inline_rel t t' : toks_rel t t' ->
  text_rel (fst (split_inline t)) (fst (split_inline t')) /\ snd (split_inline t) = snd (split_inline t').
Proof.
  induction 1 as [|[ln x] [ln' y] t t' Hp _ IH]; [split; [constructor|reflexivity]|].
  destruct Hp as [Hk Hx]. cbn [fst snd] in Hk, Hx. subst ln'. cbn [split_inline].
  destruct (split_inline t) as [es labs], (split_inline t') as [es' labs']. cbn [fst snd] in IH. destruct IH as [IH1 IH2]. subst labs'.
  assert (G : forall e e', tentry_rel e e' ->
            text_rel ((ln, e) :: es) ((ln, e') :: es')) by (intros e e' He; constructor; [split; [reflexivity|exact He]|exact IH1]).
  destruct x as [d|n ty v|n s|n v|n|il b], y as [d'|n' ty' v'|n' s'|n' v'|n'|il' b']; cbn in Hx; try contradiction; cbn [fst snd].
  - split; [apply G; exact Logic.I|reflexivity].
  - split; [apply G; exact Logic.I|reflexivity].
  - split; [apply G; exact Logic.I|reflexivity].
  - split; [apply G; exact Logic.I|reflexivity].
  - subst n'. split; [apply G; reflexivity|reflexivity].
  - destruct Hx as [<- Hb]. destruct il; cbn [fst snd]; (split; [apply G; exact Hb|reflexivity]).
Qed.
