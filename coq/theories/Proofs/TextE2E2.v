(* TextE2E2.v — a one-line text: from the lexer's result to the loaded program; li from source text. *)
From Coq Require Import String.
From Coq Require Import ZArith List Bool Lia ZifyBool.
From ArchSim Require Import Model.Base Model.Mem Model.Cache Model.Fmt Model.RV Model.Single Model.Toy Model.Asm.
From ArchSim Require Model.ToyLex.
From ArchSim Require Import Model.Lex Model.LexText Proofs.C01Step Proofs.C05Proofs Proofs.LexErr3 Proofs.LexText1 Proofs.TextE2E1.
Import ListNotations.
Open Scope Z_scope.

(** * a text that is one line *)
Lemma pieces_one l : forallb okc l = true -> ToyLex.pieces l = (l, []).
Proof.
  induction l as [|c l IH]; intros H; [reflexivity|]. cbn [forallb] in H. apply andb_true_iff in H as [Hc Hl].
  cbn [ToyLex.pieces]. unfold okc in Hc. rewrite <- linebreak_same in Hc.
  assert (E13 : (c =? 13) = false).
  { destruct (c =? 13) eqn:E; [|reflexivity]. apply Z.eqb_eq in E. subst. discriminate Hc. }
  rewrite E13. destruct (ToyLex.is_linebreak c); [discriminate|]. rewrite (IH Hl). reflexivity.
Qed.
Lemma rv_lines_one l : forallb okc l = true -> l <> [] -> rv_lines l = [l].
Proof. intros H Hn. unfold rv_lines, ToyLex.splitlines. rewrite (pieces_one l H). destruct l; [congruence|reflexivity]. Qed.

(** * the assembler on one instruction line without names *)
Lemma rv_labels_bodies ln bs : forall addr last,
  rv_labels (map (fun b' => (ln, EBody b')) bs) [] addr [] last = POk [].
Proof. induction bs as [|b bs IH]; intros addr last; [reflexivity|]. cbn [map rv_labels mget_opt]. apply IH. Qed.

Lemma assemble_single ln i m ins :
  assemble_line [] [] 0 ln (BIns i) = POk ins -> 4 * Z.of_nat (List.length ins) <= imem_limit ->
  assemble [(ln, RInstr None (BIns i))] m = POk (m, {| i_instrs := ins; i_labels := []; i_vars := [] |}).
Proof.
  unfold assemble_line, assemble. intros H Hl. cbn [segment rdir_of segment_loop pbind split_inline write_data expand_all].
  destruct (expand_one [] ln (BIns i)) as [bs|]; [|discriminate]. cbn [pbind]. rewrite app_nil_r, rv_labels_bodies. cbn [pbind].
  rewrite H. cbn [pbind]. destruct (4 * Z.of_nat (List.length ins) >? imem_limit) eqn:E; [lia|reflexivity].
Qed.

(* interning a token record without names *)
Definition itok_of (t : ntok) : itok :=
  {| k_mn := n_mn t; k_rd := n_rd t; k_rs1 := n_rs1 t; k_rs2 := n_rs2 t; k_reg1 := n_reg1 t; k_reg2 := n_reg2 t;
     k_rs := n_rs t; k_imm := n_imm t; k_csr := n_csr t; k_uimm := n_uimm t; k_offset := n_offset t;
     k_label := None; k_var := None |}.
Lemma lex_text_one l t : n_label t = None -> n_var t = None -> lex_line l = LexOk (NInstr None (NIns t)) ->
  lex_text [l] = LTOk [(1, RInstr None (BIns (itok_of t)))].
Proof.
  intros H1 H2 Hl. unfold lex_text. cbn [lex_lines]. rewrite Hl. cbn [intern_line intern_opt]. unfold intern_tok.
  rewrite H1, H2. reflexivity.
Qed.

(* the loaded state *)
Definition loaded (s : st) (ins : list instr) : st :=
  with_im (with_ms (reset_state s) (ms (reset_state s))) {| prog := ins; icc := icc (im (reset_state s)) |}.
Lemma load_one s text l t ins :
  rv_lines text = [l] -> n_label t = None -> n_var t = None -> lex_line l = LexOk (NInstr None (NIns t)) ->
  assemble_line [] [] 0 1 (BIns (itok_of t)) = POk ins -> 4 * Z.of_nat (List.length ins) <= imem_limit ->
  rv_load_program_text s text = (loaded s ins, None, Some {| i_instrs := ins; i_labels := []; i_vars := [] |}).
Proof.
  intros Hl H1 H2 Hx Ha Hn. unfold rv_load_program_text, rv_load_text. rewrite Hl, (lex_text_one l t H1 H2 Hx).
  unfold rv_load. fold (reset_state s). rewrite (assemble_single 1 _ _ ins Ha Hn). reflexivity.
Qed.
Lemma loaded_facts s ins : regs (loaded s ins) = regs s /\ pc (loaded s ins) = pc s /\ exitc (loaded s ins) = exitc s /\ prog (im (loaded s ins)) = ins /\ (icc (im s) = None -> icc (im (loaded s ins)) = None).
Proof. destruct s as [? ? ? [p c] ? ? ? ? ? ? ? ?]; cbn. repeat split. intros ->. reflexivity. Qed.

(** * li *)
Lemma rget_A s t k : A s t -> rget s k = rget t k.   Proof. apply A_rget. Qed.

Lemma li_run s text l rt lit r c n :
  rv_lines text = [l] -> lex_line l = LexOk (NInstr None (NIns (tok_rd_imm MN_LI rt lit))) ->
  reg_num rt = Some r -> 0 < r < 32 -> py_int0 lit = Some c ->
  wf_regs (regs s) -> pc s = 0 -> exitc s = None -> icc (im s) = None -> (2 <= n)%nat ->
  exists s1 img, rv_load_program_text s text = (s1, None, Some img) /\ snd (single_run n s1) = Done /\ rget (fst (single_run n s1)) r = c mod 2 ^ 32 /\ (forall k, k <> r -> rget (fst (single_run n s1)) k = rget s k) /\ List.length (i_instrs img) = (if (-2048 <=? c) && (c <=? 2047) then 1%nat else 2%nat).
Proof.
  intros Hl Hx Hr Hr32 Hc Hw Hpc He Hic Hn.
  set (t := tok_rd_imm MN_LI rt lit).
  destruct (li_correct_lem [] [] 0 1 (itok_of t) rt lit c r (loaded s []) eq_refl eq_refl eq_refl Hc Hr Hr32)
    as (ins & Ha & Hins & Hl1 & Hl2 & Hex).
  { destruct (loaded_facts s []) as (E & _). rewrite E. exact Hw. }
  assert (Hlen : 4 * Z.of_nat (List.length ins) <= imem_limit).
  { unfold imem_limit. destruct ((-2048 <=? c) && (c <=? 2047)); subst ins; cbn; lia. }
  exists (loaded s ins), {| i_instrs := ins; i_labels := []; i_vars := [] |}.
  split; [apply (load_one s text l t ins Hl eq_refl eq_refl Hx Ha Hlen)|].
  destruct (loaded_facts s ins) as (Lr & Lpc & Lex & Lp & Lic). specialize (Lic Hic).
  assert (HA0 : A (loaded s ins) (loaded s [])).
  { destruct s as [? ? ? [p cc] ? ? ? ? ? ? ? ?]; split; reflexivity. }
  assert (Fin : forall u, A u (rset (loaded s []) r (c mod 2 ^ 32)) ->
            rget u r = c mod 2 ^ 32 /\ forall k, k <> r -> rget u k = rget s k).
  { intros u Hu. destruct (rset_meaning_lem (loaded s []) r (c mod 2 ^ 32)) as (R1 & R2 & _).
    split; [rewrite (rget_A _ _ r Hu); apply R1, Hr32|].
    intros k Hk. rewrite (rget_A _ _ k Hu), (R2 k Hk). unfold rget. destruct (loaded_facts s []) as (E & _). rewrite E. reflexivity. }
  cbn [i_instrs]. destruct ((-2048 <=? c) && (c <=? 2047)) eqn:Esmall; subst ins.
  - (* one instruction *)
    destruct n as [|n]; [lia|].
    destruct (pure_step (mk (II ADDI r 0 c)) (loaded s _) (loaded s []) n HA0) as (s' & R & HA' & Hnone & Hex' & Him & Hpc');
      [rewrite Lex; exact He|exact Lic|rewrite Lp, Lpc, Hpc; reflexivity|exact Logic.I|].
    rewrite R. rewrite run_end; [|exact Hex'|rewrite Him, Lp, Hpc', Lpc, Hpc; reflexivity].
    cbn [fst snd]. split; [reflexivity|]. cbn [exec_list] in Hex.
    destruct (behavior (mk (II ADDI r 0 c)) (loaded s [])) as [b1 [e1|]] eqn:Eb; [cbn in Hnone; discriminate|].
    cbn [fst] in HA'. inversion Hex; subst b1. destruct (Fin s' HA') as [F1 F2]. repeat split; assumption.
  - destruct n as [|[|n]]; try lia.
    set (i1 := mk (ILui r (fst (hi_lo c)))) in *. set (i2 := mk (II ADDI r r (snd (hi_lo c)))) in *.
    assert (P1 : pure i1) by exact Logic.I. assert (P2 : pure i2) by exact Logic.I.
    destruct (pure_step i1 (loaded s [i1; i2]) (loaded s []) (Datatypes.S n) HA0) as (s' & R & HA' & Hnone & Hex' & Him & Hpc');
      [rewrite Lex; exact He|exact Lic|rewrite Lp, Lpc, Hpc; reflexivity|exact P1|].
    rewrite R.
    destruct (pure_step i2 s' (fst (behavior i1 (loaded s []))) n HA') as (s'' & R2 & HA'' & Hnone2 & Hex'' & Him2 & Hpc'');
      [exact Hex'|rewrite Him; exact Lic|rewrite Him, Lp, Hpc', Lpc, Hpc; reflexivity|exact P2|].
    rewrite R2. rewrite run_end; [|exact Hex''|rewrite Him2, Him, Lp, Hpc'', Hpc', Lpc, Hpc; reflexivity].
    cbn [fst snd]. split; [reflexivity|]. cbn [exec_list] in Hex.
    destruct (behavior i1 (loaded s [])) as [b1 [e1|]] eqn:Eb1; [cbn in Hnone; discriminate|]. cbn [fst] in *.
    destruct (behavior i2 b1) as [b2 [e2|]] eqn:Eb2; [cbn in Hnone2; discriminate|]. cbn [fst] in *.
    inversion Hex; subst b2. destruct (Fin s'' HA'') as [F1 F2]. repeat split; assumption.
Qed.
