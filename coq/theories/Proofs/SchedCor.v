(* SchedCor.v — consequences of the timing theorem (SchedMain.v):
   1. the cycle count in closed form: n + 4 + 3 * (redirects followed by an instruction)
      + 2 * (interlock / drain stalls);
   2. straight-line programs (R/I/shift/lui/auipc/load/store): n + 4 + 2 * (decode interlocks),
      the interlocks counted on the program text; n + 4 when no instruction reads a register
      written by one of its two predecessors. *)
From Coq Require Import Lia ZifyBool.
From ArchSim Require Import Model.Base Model.Mem Model.Cache Model.Fmt Model.RV Model.Single
  Model.RVSplit Model.Pipe Proofs.WordLemmas Proofs.C01Step Proofs.SplitExec Proofs.C02Split
  Proofs.PipeLaws Proofs.PipeShape Proofs.PipeInv Proofs.PipeInvBase Proofs.PipeInvStages
  Proofs.PipeInvStraight Proofs.PipeInvControl Proofs.PipeInvEcall Proofs.SchedDefs Proofs.SchedRec
  Proofs.SchedStep Proofs.SchedInv Proofs.SchedLink Proofs.SchedMain.
Open Scope nat_scope.

(** * 1. The cycle count in closed form *)
(* the predecessor redirects: the successor pays 3 extra cycles *)
Definition redb (p1 : option (nat * event)) : bool :=
  match p1 with Some (_, e1) => ev_redirect e1 | None => false end.
(* the successor of a non-redirecting instruction pays 2 extra cycles: it reads the destination of
   its predecessor, or of the instruction before if that one executed in the cycle just before the
   predecessor (distance 2), or it is an ecall (which waits until its predecessor has left MEM) *)
Definition stallb (p1 p2 : option (nat * event)) (e : event) : bool :=
  match p1 with
  | None => false
  | Some (x1, e1) =>
      negb (ev_redirect e1) &&
      (dst_in e1 e || match p2 with Some (x2, e2) => dst_in e2 e && (x2 + 1 =? x1) | None => false end
       || ev_ecall e)
  end.

Lemma xnext_gap p1 p2 e :
  xnext p1 p2 e = match p1 with
                  | None => 3
                  | Some (x1, _) => x1 + 1 + 3 * b2n (redb p1) + 2 * b2n (stallb p1 p2 e)
                  end.
Proof.
  destruct p1 as [[x1 e1]|]; [|reflexivity]. cbn [xnext redb stallb].
  destruct (ev_redirect e1); cbn [negb andb b2n]; [lia|].
  destruct (dst_in e1 e || _); cbn [orb b2n]; [lia|]. destruct (ev_ecall e); cbn [b2n]; lia.
Qed.

(* (number of paid redirects, number of stalls) along the recurrence *)
Fixpoint pen (p1 p2 : option (nat * event)) (evs : list event) : nat * nat :=
  match evs with
  | [] => (0, 0)
  | e :: tl => let x := xnext p1 p2 e in
               let rs := pen (Some (x, e)) p1 tl in
               (b2n (redb p1) + fst rs, b2n (stallb p1 p2 e) + snd rs)
  end.
Definition redirects_paid (evs : list event) : nat := fst (pen None None evs).
Definition stalls_paid (evs : list event) : nat := snd (pen None None evs).

Definition xbase (p1 : option (nat * event)) : nat := match p1 with Some (x1, _) => x1 | None => 2 end.

Lemma last_xgo evs : evs <> [] -> forall p1 p2 d,
  last (xgo p1 p2 evs) d =
  xbase p1 + length evs + 3 * fst (pen p1 p2 evs) + 2 * snd (pen p1 p2 evs).
Proof.
  induction evs as [|e tl IH]; intros Hne p1 p2 d; [congruence|].
  destruct tl as [|e' tl'].
  - cbn [xgo last pen fst snd length]. rewrite xnext_gap.
    destruct p1 as [[x1 e1]|]; cbn [xbase redb stallb b2n]; lia.
  - specialize (IH ltac:(discriminate) (Some (xnext p1 p2 e, e)) p1 d).
    remember (e' :: tl') as tl eqn:Etl.
    assert (Hl : last (xgo p1 p2 (e :: tl)) d = last (xgo (Some (xnext p1 p2 e, e)) p1 tl) d).
    { rewrite Etl. reflexivity. }
    rewrite Hl, IH. cbn [pen fst snd length xbase]. rewrite (xnext_gap p1 p2 e).
    destruct p1 as [[x1 e1]|]; cbn [xbase redb stallb b2n]; lia.
Qed.

Lemma last_map {A B} (f : A -> B) l d d' : l <> [] -> last (map f l) d = f (last l d').
Proof.
  induction l as [|a l IH]; intros H; [congruence|]. destruct l as [|b l]; [reflexivity|].
  change (last (map f (a :: b :: l)) d) with (last (map f (b :: l)) d).
  change (last (a :: b :: l) d') with (last (b :: l) d'). apply IH. discriminate.
Qed.

Lemma xgo_length evs : forall p1 p2, length (xgo p1 p2 evs) = length evs.
Proof. induction evs as [|e tl IH]; intros p1 p2; cbn [xgo length]; [reflexivity|rewrite IH; reflexivity]. Qed.

(* the last write-back cycle of the documented schedule *)
Theorem total_cycles_formula evs : evs <> [] ->
  total_cycles (schedule evs) = length evs + 4 + 3 * redirects_paid evs + 2 * stalls_paid evs.
Proof.
  intros Hne. unfold total_cycles. rewrite schedule_xsched.
  assert (Hx : xsched evs <> []).
  { intros E. apply (f_equal (@length nat)) in E. unfold xsched in E. rewrite xgo_length in E.
    destruct evs; [congruence|discriminate E]. }
  rewrite (last_map (fun x => x + 2) (xsched evs) 0 0 Hx). unfold xsched.
  rewrite (last_xgo evs Hne None None 0). unfold redirects_paid, stalls_paid. cbn [xbase]. lia.
Qed.

(** * 2. Straight-line programs: the interlocks can be read off the program text *)
Definition ins (P : list instr) (j : nat) : instr := nth j P IFence.
(* instruction j waits in decode: it reads the destination of instruction j-1, or of instruction
   j-2 when j-1 did not itself wait (else j-2 is already three cycles ahead) *)
Fixpoint stb (P : list instr) (j : nat) : bool :=
  match j with
  | O => false
  | S i => reads (ins P (S i)) (write_reg (ins P i)) ||
           match i with
           | O => false
           | S h => reads (ins P (S i)) (write_reg (ins P h)) && negb (stb P i)
           end
  end.
Fixpoint interlocks_upto (P : list instr) (j : nat) : nat :=
  match j with O => 0 | S i => interlocks_upto P i + b2n (stb P (S i)) end.
Definition interlocks (P : list instr) : nat := interlocks_upto P (length P - 1).

(* no instruction reads a register written by one of its two predecessors *)
Definition no_near_raw (P : list instr) : Prop :=
  forall j, reads (ins P (S j)) (write_reg (ins P j)) = false /\
            reads (ins P (S (S j))) (write_reg (ins P j)) = false.

Lemma no_near_raw_stb P : no_near_raw P -> forall j, stb P j = false.
Proof.
  intros H [|i]; [reflexivity|]. cbn [stb]. rewrite (proj1 (H i)). cbn [orb].
  destruct i as [|h]; [reflexivity|]. rewrite (proj2 (H h)). reflexivity.
Qed.
Lemma no_near_raw_interlocks P : no_near_raw P -> interlocks P = 0.
Proof.
  intros H. unfold interlocks. induction (length P - 1) as [|i IH]; cbn [interlocks_upto]; [reflexivity|].
  rewrite IH, (no_near_raw_stb P H). reflexivity.
Qed.

Lemma sigma_S' j s : sigma (S j) s = nxt (sigma j s).
Proof. replace (S j) with (j + 1) by apply Nat.add_1_r. rewrite sigma_add. reflexivity. Qed.

Lemma instr_at_idx P j : instr_at P (4 * Z.of_nat j) = nth_error P j.
Proof.
  unfold instr_at. replace (4 * Z.of_nat j / 4)%Z with (Z.of_nat j) by (rewrite Z.mul_comm, Z.div_mul; lia).
  replace ((4 * Z.of_nat j) mod 4 =? 0)%Z with true.
  2:{ rewrite Z.mul_comm, Z.mod_mul by lia. reflexivity. }
  replace (0 <=? 4 * Z.of_nat j)%Z with true by lia. cbn [andb]. rewrite Nat2Z.id.
  destruct (Z.of_nat j <? Z.of_nat (length P))%Z eqn:E; [reflexivity|].
  symmetry. apply nth_error_None. lia.
Qed.

Section StraightRun.
Variable P : list instr.
Hypothesis HS : Forall (fun i => straight i = true) P.
Variable s : st.
Hypothesis W : wf s.
Hypothesis HP : prog (im s) = P.
Hypothesis Hpc : pc s = 0%Z.
Hypothesis Hex : exitc s = None.
Variable N : nat.
Hypothesis H1 : forall j, j < N ->
  single_done (sigma j s) = false /\ snd (single_pipeline_step (sigma j s)) = None.
Hypothesis H2 : single_done (sigma N s) = true.

Lemma straight_states j : j <= N ->
  wf (sigma j s) /\ prog (im (sigma j s)) = P /\ exitc (sigma j s) = None /\
  pc (sigma j s) = (4 * Z.of_nat j)%Z.
Proof.
  induction j as [|j IH]; intros Hj.
  - cbn [sigma]. split; [exact W|]. split; [exact HP|]. split; [exact Hex|]. rewrite Hpc. reflexivity.
  - destruct (IH ltac:(lia)) as (Wj & HPj & Hxj & Hpj). destruct (H1 j ltac:(lia)) as [Hnd Hok].
    rewrite sigma_S'.
    assert (Hi : exists i, instr_at P (pc (sigma j s)) = Some i).
    { unfold single_done, has_instr in Hnd. rewrite Hxj, HPj in Hnd.
      destruct (instr_at P (pc (sigma j s))) as [i|]; [eauto|discriminate Hnd]. }
    destruct Hi as [i Hi].
    pose proof (plain_straight P HS _ i Wj HPj Hxj Hi Hok) as Hpl.
    pose proof Hi as Hi'. rewrite <- HPj in Hi'.
    destruct (wf_nxt _ i Wj Hxj Hi') as [Wn Hpn].
    split; [exact Wn|]. split; [congruence|]. split; [apply Hpl|].
    rewrite (plain_pc _ i Wj Hi' Hpl), Hpj. lia.
Qed.

Lemma straight_N : N = length P.
Proof.
  destruct (straight_states N ltac:(lia)) as (_ & HPn & Hxn & Hpn).
  pose proof H2 as Hd. unfold single_done, has_instr in Hd. rewrite Hxn, HPn, Hpn, instr_at_idx in Hd.
  assert (Hge : length P <= N).
  { destruct (nth_error P N) eqn:E; [discriminate Hd|]. apply nth_error_None in E. exact E. }
  destruct (Nat.eq_dec N (length P)) as [|NE]; [assumption|exfalso].
  assert (Hlt : length P < N) by lia.
  destruct (straight_states (length P) ltac:(lia)) as (_ & HPl & Hxl & Hpl).
  destruct (H1 (length P) Hlt) as [Hnd _]. unfold single_done, has_instr in Hnd.
  rewrite Hxl, HPl, Hpl, instr_at_idx in Hnd.
  assert (E : nth_error P (length P) = None) by (apply nth_error_None; lia). rewrite E in Hnd. discriminate Hnd.
Qed.

Lemma straight_ev j : j < N -> ev s j = ev_instr (ins P j) (sigma j s) /\
  ev_redirect (ev s j) = false /\ ev_ecall (ev s j) = false.
Proof.
  intros Hj. destruct (straight_states j ltac:(lia)) as (Wj & HPj & Hxj & Hpj).
  destruct (H1 j Hj) as [Hnd Hok].
  assert (Hi : instr_at P (pc (sigma j s)) = Some (ins P j)).
  { rewrite Hpj, instr_at_idx. unfold ins. apply nth_error_nth'. rewrite <- straight_N. exact Hj. }
  assert (He : ev s j = ev_instr (ins P j) (sigma j s)) by (unfold ev, ev_of; rewrite HPj, Hi; reflexivity).
  pose proof (str_at P HS _ _ Hi) as Hst.
  split; [exact He|]. rewrite He. split.
  - assert (Hi' : instr_at (prog (im (sigma j s))) (pc (sigma j s)) = Some (ins P j)) by (rewrite HPj; exact Hi).
    apply (plain_iff_redirect _ _ Wj Hi' (straight_supported _ Hst) Hok).
    apply (plain_straight P HS _ _ Wj HPj Hxj Hi Hok).
  - cbn [ev_instr ev_ecall]. apply straight_not_ecall. exact Hst.
Qed.

(* the execute cycle of instruction j: one per cycle plus two per interlock so far *)
Lemma straight_X j : j < N -> X (ev s) j = 3 + j + 2 * interlocks_upto P j /\
  (forall i, S i = j -> (X (ev s) i + 1 =? X (ev s) j) = negb (stb P j)).
Proof.
  induction j as [|i IH]; intros Hj.
  - split; [rewrite X_0; reflexivity|intros i Hi; discriminate Hi].
  - destruct (IH ltac:(lia)) as [Hx Hg]. destruct (straight_ev i ltac:(lia)) as (Hei & Hri & _).
    destruct (straight_ev (S i) Hj) as (Hes & _ & Hcs).
    rewrite (X_seq (ev s) i Hri), Hcs.
    assert (Hhz : hazard (ev s) i = stb P (S i)).
    { unfold hazard. cbn [stb]. rewrite Hei, Hes, dst_in_reads. f_equal.
      destruct i as [|h]; [reflexivity|]. destruct (straight_ev h ltac:(lia)) as (Heh & _).
      rewrite Heh, dst_in_reads. rewrite (Hg h eq_refl). reflexivity. }
    rewrite Hhz. cbn [interlocks_upto]. split.
    + destruct (stb P (S i)); cbn [b2n]; lia.
    + intros i' Hi'. injection Hi' as ->. destruct (stb P (S i)); cbn [negb]; lia.
Qed.

End StraightRun.

(** * The corollaries on the pipeline *)
Local Arguments Z.of_nat : simpl never.
Local Arguments Z.add : simpl never.
Local Arguments Z.mul : simpl never.

Theorem pipe_cycle_count_lem P s n s' :
  Forall (fun i => supported i = true) P -> wf s -> prog (im s) = P ->
  single_run n s = (s', Done) -> single_events n s <> [] ->
  let evs := single_events n s in
  let c := length evs + 4 + 3 * redirects_paid evs + 2 * stalls_paid evs in
  exists p, pipe_run c (pipe_init s true) = (p, PDone) /\ cycles (pst p) = (cycles s + Z.of_nat c)%Z.
Proof.
  intros HS W HP Hrun Hne evs c.
  destruct (pipe_schedule_lem P s n s' HS W HP Hrun) as (c' & p & Hr & _ & Hc & Hcy).
  rewrite (total_cycles_formula _ Hne) in Hc. fold evs in Hc. fold c in Hc. subst c'.
  exists p. split; assumption.
Qed.

Theorem straight_cycles_lem P s n s' :
  Forall (fun i => straight i = true) P -> wf s -> prog (im s) = P -> pc s = 0%Z -> exitc s = None ->
  P <> [] -> single_run n s = (s', Done) ->
  let c := length P + 4 + 2 * interlocks P in
  exists p, pipe_run c (pipe_init s true) = (p, PDone) /\
    cycles (pst p) = (cycles s + Z.of_nat c)%Z /\
    pipe_retire c (pipe_init s true) =
    map (fun j => ((4 * Z.of_nat j)%Z, j + 5 + 2 * interlocks_upto P j)) (seq 0 (length P)).
Proof.
  intros HS W HP Hpc Hex Hne Hrun c.
  assert (Hsup : Forall (fun i => supported i = true) P).
  { eapply Forall_impl; [|exact HS]. intros i. apply straight_supported. }
  destruct (pipe_schedule_lem P s n s' Hsup W HP Hrun) as (c' & p & Hr & Hret & Hc & Hcy).
  destruct (run_states n s s' Hrun) as (N & _ & H1 & H2 & Ht & He).
  pose proof (straight_N P HS s W HP Hpc Hex N H1 H2) as HN.
  rewrite (schedule_events n s N He) in Hc, Hret. rewrite Ht, combine_map in Hret. unfold total_cycles in Hc.
  assert (HNpos : exists m, N = S m).
  { destruct N as [|m]; [|eauto]. destruct P; [congruence|discriminate HN]. }
  destruct HNpos as [m Hm]. rewrite Hm in Hc. rewrite (last_map_seq (fun j => X (ev s) j + 2) m) in Hc.
  destruct (straight_X P HS s W HP Hpc Hex N H1 H2 m ltac:(lia)) as [Hxm _].
  assert (Hcc : c' = c).
  { subst c. rewrite Hc. unfold interlocks. rewrite <- HN, Hm. replace (S m - 1) with m by lia. lia. }
  clear Hc. rewrite Hcc in Hr, Hret, Hcy. exists p. split; [exact Hr|]. split; [exact Hcy|].
  rewrite Hret, <- HN. apply map_ext_in. intros j Hj. apply in_seq in Hj.
  destruct (straight_states P HS s W HP Hpc Hex N H1 j ltac:(lia)) as (_ & _ & _ & Hpj).
  destruct (straight_X P HS s W HP Hpc Hex N H1 H2 j ltac:(lia)) as [Hxj _].
  rewrite Hpj, Hxj. f_equal. lia.
Qed.

Corollary straight_n_plus_4_lem P s n s' :
  Forall (fun i => straight i = true) P -> no_near_raw P ->
  wf s -> prog (im s) = P -> pc s = 0%Z -> exitc s = None -> P <> [] -> single_run n s = (s', Done) ->
  exists p, pipe_run (length P + 4) (pipe_init s true) = (p, PDone) /\
    cycles (pst p) = (cycles s + Z.of_nat (length P) + 4)%Z /\
    pipe_retire (length P + 4) (pipe_init s true) =
    map (fun j => ((4 * Z.of_nat j)%Z, j + 5)) (seq 0 (length P)).
Proof.
  intros HS Hraw W HP Hpc Hex Hne Hrun.
  destruct (straight_cycles_lem P s n s' HS W HP Hpc Hex Hne Hrun) as (p & Hr & Hcy & Hret).
  rewrite (no_near_raw_interlocks P Hraw) in Hr, Hcy, Hret. rewrite Nat.mul_0_r, Nat.add_0_r in Hr, Hcy, Hret.
  exists p. split; [exact Hr|]. split; [rewrite Hcy; lia|]. rewrite Hret.
  apply map_ext. intros j. f_equal.
  assert (Hz : forall i, interlocks_upto P i = 0).
  { induction i as [|i IH]; cbn [interlocks_upto]; [reflexivity|].
    rewrite IH, (no_near_raw_stb P Hraw). reflexivity. }
  rewrite Hz. lia.
Qed.
Print Assumptions straight_n_plus_4_lem.
Print Assumptions pipe_cycle_count_lem.

(** * Helpers for closed examples *)
Lemma wf_init P : Forall wf_instr P -> (Z.of_nat (length P) <= 4096)%Z -> wf (init_st P (MFlat []) None).
Proof.
  intros HP Hl. constructor; cbn [init_st regs ms im pc prog icc ms_lower].
  - split; [intros k; change (mget [] k) with 0%Z; unfold in32; lia|reflexivity].
  - intros k. change (mget [] k) with 0%Z. lia.
  - exists []. reflexivity.
  - reflexivity.
  - lia.
  - exact HP.
  - exact Hl.
Qed.

Definition no_near_raw_b (P : list instr) : bool :=
  forallb (fun j => negb (reads (ins P (S j)) (write_reg (ins P j))) &&
                    negb (reads (ins P (S (S j))) (write_reg (ins P j)))) (seq 0 (length P)).
Lemma no_near_raw_check P : no_near_raw_b P = true -> no_near_raw P.
Proof.
  intros H j. destruct (Nat.lt_ge_cases j (length P)) as [Hj|Hj].
  - unfold no_near_raw_b in H. rewrite forallb_forall in H. specialize (H j ltac:(apply in_seq; lia)).
    apply Bool.andb_true_iff in H. destruct H as [Ha Hb].
    apply Bool.negb_true_iff in Ha, Hb. split; assumption.
  - assert (E : ins P j = IFence) by (unfold ins; apply nth_overflow; exact Hj). rewrite E.
    split; reflexivity.
Qed.

(* the hypotheses of the timing theorem for a closed program started from the initial state *)
Definition demo_hyps (P : list instr) (n : nat) : Prop :=
  let s := init_st P (MFlat []) None in
  Forall (fun i => supported i = true) P /\ wf s /\ prog (im s) = P /\ snd (single_run n s) = Done.
Lemma demo_hyps_intro P n : Forall wf_instr P -> forallb supported P = true ->
  (length P <=? 4096)%nat = true -> snd (single_run n (init_st P (MFlat []) None)) = Done ->
  demo_hyps P n.
Proof.
  intros Hw Hs Hl Hd. split; [rewrite forallb_forall in Hs; apply Forall_forall; exact Hs|].
  split; [apply wf_init; [exact Hw|apply Nat.leb_le in Hl; lia]|]. split; [reflexivity|exact Hd].
Qed.


(** * The schedule as an explicit gap law on the write-back cycles *)
Lemma map_nth_seq {A} (l : list A) d : map (fun j => nth j l d) (seq 0 (length l)) = l.
Proof.
  induction l as [|a l IH]; cbn [length seq map nth]; [reflexivity|].
  f_equal. rewrite <- seq_shift, map_map. exact IH.
Qed.

Lemma schedule_nth evs d :
  schedule evs = map (fun j => X (fun j => nth j evs d) j + 2) (seq 0 (length evs)).
Proof.
  rewrite schedule_xsched. rewrite <- (map_nth_seq evs d) at 1. rewrite xsched_X, map_map. reflexivity.
Qed.

Lemma nth_map_seq (f : nat -> nat) n k d0 : k < n -> nth k (map f (seq 0 n)) d0 = f k.
Proof.
  intros H. rewrite (nth_indep (map f (seq 0 n)) d0 (f 0)) by (rewrite map_length, seq_length; exact H).
  rewrite (map_nth f (seq 0 n) 0 k). rewrite seq_nth by exact H. reflexivity.
Qed.

Section Gap.
Variables (evs : list event) (d : event).
Let e (k : nat) : event := nth k evs d.
Let Wc (k : nat) : nat := nth k (schedule evs) 0.

Lemma Wc_X k : k < length evs -> Wc k = X e k + 2.
Proof.
  intros Hk. unfold Wc. rewrite (schedule_nth evs d). apply (nth_map_seq (fun j => X e j + 2)). exact Hk.
Qed.

Lemma schedule_first_lem : 0 < length evs -> Wc 0 = 5.
Proof. intros H. rewrite (Wc_X 0 H), X_0. reflexivity. Qed.

Lemma schedule_gap_lem j : S j < length evs ->
  Wc (S j) = Wc j +
    (if ev_redirect (e j) then 4
     else if dst_in (e j) (e (S j)) ||
             match j with O => false | S h => dst_in (e h) (e (S j)) && (Wc h + 1 =? Wc j) end then 3
     else if ev_ecall (e (S j)) then 3 else 1).
Proof.
  intros Hj. rewrite (Wc_X (S j) Hj), (Wc_X j ltac:(lia)).
  destruct (ev_redirect (e j)) eqn:Hr; [rewrite (X_red e j Hr); lia|].
  rewrite (X_seq e j Hr). unfold hazard.
  assert (Hh : match j with O => false | S h => dst_in (e h) (e (S j)) && (X e h + 1 =? X e j) end =
               match j with O => false | S h => dst_in (e h) (e (S j)) && (Wc h + 1 =? X e j + 2) end).
  { destruct j as [|h]; [reflexivity|]. rewrite (Wc_X h ltac:(lia)).
    apply f_equal. generalize (X e h) (X e (S h)). intros a b. destruct (a + 1 =? b) eqn:E; lia. }
  rewrite Hh. destruct (dst_in (e j) (e (S j)) || _); [lia|]. destruct (ev_ecall (e (S j))); lia.
Qed.
End Gap.

Lemma schedule_first_lem0 evs : 0 < length evs -> nth 0 (schedule evs) 0 = 5.
Proof. destruct evs as [|e0 tl]; [cbn; lia|]. apply (schedule_first_lem (e0 :: tl) e0). Qed.
