(* SchedPrefixFault.v — which stage raises a fault of the hazard-detecting pipeline, from a state in
   the simulation invariant [InvAt] (Proofs/PipeInv.v): MEM on the fired non-ecall slot of latch 2,
   or EX on an ecall that fires (latches 2 and 3 empty; or the last cycle of its drain).  The
   retire counter of the faulted state has counted the slot of latch 3 (WB runs before MEM and EX
   within a cycle).  Skeletons as in SchedStep.v / PipeInvEcall.v. *)
From Coq Require Import Lia ZifyBool.
From ArchSim Require Import Model.Base Model.Mem Model.Cache Model.Fmt Model.RV Model.Single
  Model.RVSplit Model.Pipe Proofs.WordLemmas Proofs.C01Step Proofs.SplitExec Proofs.C02Split
  Proofs.PipeLaws Proofs.PipeShape Proofs.PipeInv Proofs.PipeInvBase Proofs.PipeInvStages
  Proofs.PipeInvStraight Proofs.PipeInvControl Proofs.PipeInvEcall Proofs.SchedDefs Proofs.SchedStep.
Open Scope Z_scope.

Ltac Zify.zify_post_hook ::= Z.to_euclidean_division_equations.
Local Arguments Z.mul : simpl never.
Local Arguments Z.add : simpl never.
Local Arguments Z.sub : simpl never.
Local Arguments Z.of_nat : simpl never.

(* H : finish p (…, Some f0) = (p', Some f): the faulted state *)
Ltac ff H :=
  cbn [finish] in H;
  match type of H with
  | context [fault_at ?x ?e] =>
      let K := fresh in
      pose proof (fault_at_not_none x e) as K; destruct (fault_at x e); [|congruence]
  end.

Definition fault_kind (p : pstate) (l1 l2 l3 : latch) : Prop :=
  (nonempty l2 = true /\ fired l2 = true /\ ecall_in l2 = false /\
   (stalled p = None \/ exists d, stalled p = Some (1, d))) \/
  (stalled p = None /\ l2 = None /\ l3 = None /\ ecall_in l1 = true) \/
  (stalled p = Some (2, 1) /\ l3 = None /\ nonempty l2 = true /\ ecall_in l2 = true).

Section Fault.
Variable P : list instr.
Hypothesis Hsup : Forall (fun i => supported i = true) P.

Lemma mem_fault_not_ecall x2 s n s' e : mem_on (Some x2) s = (n, s', Some e) -> is_ecall (sl_instr x2) = false.
Proof.
  intros H. destruct (is_ecall (sl_instr x2)) eqn:E; [|reflexivity]. apply is_ecall_true in E.
  rewrite (mem_on_ecall x2 s E) in H. discriminate H.
Qed.

Lemma ctl_fault_normal p s l0 l1 l2 l3 l4 dead p' f : InvAt P p s l0 l1 l2 l3 l4 dead ->
  stalled p = None -> pipe_step p = (p', Some f) ->
  icount (pst p') = icount (pst p) + (if nonempty l3 then 1 else 0) /\ fault_kind p l1 l2 l3.
Proof.
  intros [Hl Sh Hz HPp HPs W Hexs Hd D1 L3 L2 L1 L0 HF Hrg Hms Hbc Hpcn Hout Hexc Hic Hfd] Hst Hps.
  rewrite (pipe_step_normal p _ _ _ _ _ Hl Hst) in Hps. unfold run_normal in Hps. rewrite Hz in Hps.
  destruct (if_stage P (bumped (pst p)) (sh_im _ _ Sh) HPp)
    as (n0 & s1 & HIF & Hr1 & Hm1 & Ho1 & He1 & Hi1 & Hb1 & Hp1 & HP1 & Hnc1 & Hs0 & Hf0 & Hn0).
  rewrite HIF in Hps. clear HIF.
  destruct (wb_stage P Hsup s l3 s1 HPs L3 W Hexs ltac:(rewrite Hr1; exact Hrg))
    as (s2 & HWB & Hf4 & Hr2 & Hm2 & Ho2 & Hb2 & Hp2 & He2 & Hpc2 & Him2 & Hi2 & W2 & HP2 & Hex2).
  pose proof (wb_on_law _ _ _ _ _ HWB) as (_ & _ & _ & _ & _ & _ & Hic2).
  rewrite HWB in Hps. clear HWB. unfold bumped in *. stf.
  destruct (shape_at p _ _ _ _ _ Sh Hl) as (K0 & K1 & K2 & K3 & K4 & KM). rewrite HPp in *.
  assert (Hfd2 : fired l2 = nonempty l2) by (rewrite Hfd, Hst; reflexivity).
  destruct (ex_on l1 l2 l3 s2) as [[n2 s3] [e|]] eqn:HE.
  { (* EX raises: an ecall that fires *)
    pose proof (ex_on_law _ _ _ _ _ _ _ HE) as (_ & _ & _ & Hic3 & _).
    ff Hps. injection Hps as <- _. cbn [faulted pst]. split; [lia|]. right; left.
    destruct l1 as [x1|]; [|rewrite ex_on_none in HE; discriminate HE].
    destruct (is_ecall (sl_instr x1)) eqn:Hec.
    - pose proof HE as HE'. rewrite (ex_on_ecall x1 l2 l3 s2 (is_ecall_true _ Hec)) in HE'.
      destruct (ex_busy x1 l2 l3) eqn:Hb; [discriminate HE'|].
      unfold ex_busy in Hb. destruct K1 as (_ & _ & Hsv & _). rewrite Hsv in Hb.
      destruct l2, l3; try discriminate Hb. repeat split; try assumption.
    - destruct K1 as (R & _). destruct (ex_stage x1 l2 l3 s2 D1 (sup_at P Hsup _ _ R) Hec) as (x2 & He' & _).
      rewrite He' in HE. discriminate HE. }
  pose proof (ex_on_law _ _ _ _ _ _ _ HE) as (_ & _ & _ & Hic3 & _).
  destruct (mem_on l2 s3) as [[n3 s4] [e|]] eqn:HM; [|cbn [finish] in Hps; discriminate Hps].
  pose proof (mem_on_law _ _ _ _ _ HM) as (_ & _ & _ & _ & Hic4 & _).
  ff Hps. injection Hps as <- _. cbn [faulted pst]. split; [lia|]. left.
  destruct l2 as [x2|]; [|rewrite mem_on_none in HM; discriminate HM].
  split; [reflexivity|]. split; [exact Hfd2|]. split; [exact (mem_fault_not_ecall _ _ _ _ _ HM)|left; exact Hst].
Qed.

Lemma ctl_fault_stall1 p s l0 l1 l2 l3 l4 dead d p' f : InvAt P p s l0 l1 l2 l3 l4 dead ->
  stalled p = Some (1, d) -> pipe_step p = (p', Some f) ->
  icount (pst p') = icount (pst p) + (if nonempty l3 then 1 else 0) /\ fault_kind p l1 l2 l3.
Proof.
  intros [Hl Sh Hz HPp HPs W Hexs Hd D1 L3 L2 L1 L0 HF Hrg Hms Hbc Hpcn Hout Hexc Hic Hfd] Hst Hps.
  rewrite (pipe_step_stall1 p _ _ _ _ _ d Hl Hst) in Hps. unfold run_stall1 in Hps.
  destruct (wb_stage P Hsup s l3 (bumped (pst p)) HPs L3 W Hexs Hrg) as (s2 & HWB & _).
  pose proof (wb_on_law _ _ _ _ _ HWB) as (_ & _ & _ & _ & _ & _ & Hic2).
  rewrite HWB in Hps. clear HWB. unfold bumped in *. stf.
  assert (Hfd2 : fired l2 = nonempty l2) by (rewrite Hfd, Hst; reflexivity).
  destruct (mem_on l2 s2) as [[n3 s4] [e|]] eqn:HM; [|cbn [finish] in Hps; discriminate Hps].
  pose proof (mem_on_law _ _ _ _ _ HM) as (_ & _ & _ & _ & Hic4 & _).
  ff Hps. injection Hps as <- _. cbn [faulted pst]. split; [lia|]. left.
  destruct l2 as [x2|]; [|rewrite mem_on_none in HM; discriminate HM].
  split; [reflexivity|]. split; [exact Hfd2|]. split; [exact (mem_fault_not_ecall _ _ _ _ _ HM)|].
  right. exists d. exact Hst.
Qed.

Lemma ctl_fault_stall2 p s l0 l1 l2 l3 l4 dead d p' f : InvAt P p s l0 l1 l2 l3 l4 dead ->
  stalled p = Some (2, d) -> pipe_step p = (p', Some f) ->
  icount (pst p') = icount (pst p) + (if nonempty l3 then 1 else 0) /\ fault_kind p l1 l2 l3.
Proof.
  intros [Hl Sh Hz HPp HPs W Hexs Hd D1 L3 L2 L1 L0 HF Hrg Hms Hbc Hpcn Hout Hexc Hic Hfd] Hst Hps.
  destruct (shape_at p _ _ _ _ _ Sh Hl) as (K0 & K1 & K2 & K3 & K4 & KM). rewrite HPp in *.
  rewrite Hst in KM. unfold ModeInv in KM. destruct (saved p) as [svl|] eqn:Hsv; [|contradiction].
  destruct KM as [Hd12 [(Habs & _)|(_ & m0 & y1 & x2 & -> & Hsk0 & -> & Hsk1 & _ & _ & Hd2 & Hd1)]];
    [discriminate Habs|].
  destruct Hsk1 as (Hy1i & Hy1s & _ & _ & Hx2i & _).
  rewrite (pipe_step_stall2 p _ _ _ _ _ d Hl Hst) in Hps. unfold run_stall2, sv_at in Hps. rewrite Hsv in Hps.
  change (lat_at [m0; Some y1] 0) with m0 in Hps. change (lat_at [m0; Some y1] 1) with (Some y1) in Hps.
  destruct (wb_stage P Hsup s l3 (bumped (pst p)) HPs L3 W Hexs Hrg) as (s2 & HWB & _).
  pose proof (wb_on_law _ _ _ _ _ HWB) as (_ & _ & _ & _ & _ & _ & Hic2).
  rewrite HWB in Hps. clear HWB. unfold bumped in *. stf.
  destruct (ex_on (Some y1) (Some x2) l3 s2) as [[n2 s3] [e|]] eqn:HE; [|cbn [finish] in Hps; discriminate Hps].
  pose proof (ex_on_law _ _ _ _ _ _ _ HE) as (_ & _ & _ & Hic3 & _).
  ff Hps. injection Hps as <- _. cbn [faulted pst]. split; [lia|]. right; right.
  rewrite (ex_on_ecall y1 (Some x2) l3 s2 Hy1i) in HE.
  destruct (ex_busy y1 (Some x2) l3) eqn:Hb; [discriminate HE|].
  unfold ex_busy in Hb. rewrite Hy1s in Hb. destruct l3 as [x3|]; [discriminate Hb|].
  assert (Hdd : d = 1) by (destruct Hd12 as [-> | ->]; [exfalso; apply Hd2; reflexivity|reflexivity]).
  subst d. repeat split; try assumption. cbn [ecall_in]. rewrite Hx2i. reflexivity.
Qed.

Lemma ctl_fault p s l0 l1 l2 l3 l4 dead p' f : InvAt P p s l0 l1 l2 l3 l4 dead ->
  pipe_step p = (p', Some f) ->
  icount (pst p') = icount (pst p) + (if nonempty l3 then 1 else 0) /\ fault_kind p l1 l2 l3.
Proof.
  intros IV Hps. pose proof (iv_shape _ _ _ _ _ _ _ _ _ IV) as Sh.
  destruct (shape_mode_cases no_icache p Sh) as [Hst|(k & d & Hst & [-> | ->])].
  - eapply ctl_fault_normal; eassumption.
  - eapply ctl_fault_stall1; eassumption.
  - eapply ctl_fault_stall2; eassumption.
Qed.

End Fault.
