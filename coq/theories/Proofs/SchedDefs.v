(* SchedDefs.v — vocabulary of the TIMING theorem of property C07 (definitions and closed
   validations only).

     event            what the documented schedule needs to know about one dynamic instruction
     ev_of t          the event of the instruction the single-cycle machine executes from state t
     single_events    the events of the single-cycle run (same traversal as [single_trace])
     schedule         the documented recurrence (harness/sched.py, [schedule]), literally: the
                      rows D,X of all earlier instructions are kept and searched
     xsched           the same recurrence reduced to a window of two instructions (proved equal
                      in SchedRec.v); it only carries the execute cycles X
     pipe_retire      (address in latch 4, 1-based step index) for every step of [pipe_run]
                      after which latch 4 is occupied *)
From Coq Require Import Lia ZifyBool.
From ArchSim Require Import Model.Base Model.Mem Model.Cache Model.Fmt Model.RV Model.Single
  Model.RVSplit Model.Pipe Proofs.PipeLaws Proofs.PipeShape Proofs.PipeInv.
Open Scope Z_scope.

(** * Events *)
Record event := {
  ev_addr : Z;
  ev_srcs : list Z;          (* source registers the decode stage reads, x0 dropped *)
  ev_dst : option Z;         (* destination register; None for "none or x0" *)
  ev_redirect : bool;        (* taken branch, jal, jalr, exiting ecall *)
  ev_ecall : bool }.

Definition nz (o : option Z) : list Z :=
  match o with Some r => if r =? 0 then [] else [r] | None => [] end.
Definition nzo (o : option Z) : option Z :=
  match o with Some r => if r =? 0 then None else Some r | None => None end.

Definition is_jump (i : instr) : bool :=
  match i with IJal _ _ _ | IJalr _ _ _ => true | _ => false end.
Definition is_some {A} (o : option A) : bool := match o with Some _ => true | None => false end.

(* sched.py, single_dynamic_trace: sources from access_register_file on the pre-state,
   destination from get_write_register, redirect = branch counter moved, or jal/jalr, or the
   exit code is set after the step *)
Definition ev_instr (i : instr) (t : st) : event :=
  {| ev_addr := pc t;
     ev_srcs := nz (rf_ra1 i t) ++ nz (rf_ra2 i t);
     ev_dst := nzo (write_reg i);
     ev_redirect := negb (bcount (nxt t) =? bcount t) || is_jump i || is_some (exitc (nxt t));
     ev_ecall := is_ecall i |}.
Definition ev_of (t : st) : event :=
  match instr_at (prog (im t)) (pc t) with
  | Some i => ev_instr i t
  | None => {| ev_addr := pc t; ev_srcs := []; ev_dst := None; ev_redirect := false; ev_ecall := false |}
  end.

Fixpoint single_events (fuel : nat) (s : st) : list event :=
  match fuel with
  | O => []
  | S k => if single_done s then []
           else match single_pipeline_step s with
                | (_, Some _) => []
                | (s', None) => ev_of s :: single_events k s'
                end
  end.

(** * The documented recurrence, literally *)
Record row := { r_ev : event; r_D : nat; r_X : nat }.     (* M = X + 1, W = X + 2 *)

Definition mem_z (r : Z) (l : list Z) : bool := existsb (Z.eqb r) l.
(* tr[j]["dst"] and tr[j]["dst"] in i["srcs"] *)
Definition dst_in (ej e : event) : bool :=
  match ev_dst ej with Some r => mem_z r (ev_srcs e) | None => false end.

Definition row_next (hist : list row) (e : event) : row :=
  let d0 := match hist with
            | [] => 2
            | r :: _ => if ev_redirect (r_ev r) then (r_X r + 1) + 2 else r_D r + 1
            end%nat in
  let d1 := match hist with [] => d0 | r :: _ => Nat.max d0 (r_X r) end in
  let haz := existsb (fun r => dst_in (r_ev r) e && ((r_X r =? d1)%nat || (r_X r + 1 =? d1)%nat)) hist in
  let d := (if haz then d1 + 2 else d1)%nat in
  let x0 := (d + 1)%nat in
  let x := (if ev_ecall e && existsb (fun r => (r_X r + 1 =? x0)%nat || (r_X r + 2 =? x0)%nat) hist
            then x0 + 2 else x0)%nat in
  {| r_ev := e; r_D := d; r_X := x |}.

(* [hist]: the rows of all earlier instructions, most recent first *)
Fixpoint sched_go (hist : list row) (evs : list event) : list nat :=
  match evs with
  | [] => []
  | e :: tl => let r := row_next hist e in (r_X r + 2)%nat :: sched_go (r :: hist) tl
  end.
(* the write-back cycle of every dynamic instruction *)
Definition schedule (evs : list event) : list nat := sched_go [] evs.

(** * The same recurrence with a window of two instructions: execute cycles only *)
Definition xnext (p1 p2 : option (nat * event)) (e : event) : nat :=
  match p1 with
  | None => 3
  | Some (x1, e1) =>
      if ev_redirect e1 then x1 + 4
      else
        let haz := dst_in e1 e ||
                   match p2 with Some (x2, e2) => dst_in e2 e && (x2 + 1 =? x1)%nat | None => false end in
        x1 + 1 + (if haz then 2 else if ev_ecall e then 2 else 0)
  end%nat.

Fixpoint xgo (p1 p2 : option (nat * event)) (evs : list event) : list nat :=
  match evs with
  | [] => []
  | e :: tl => let x := xnext p1 p2 e in x :: xgo (Some (x, e)) p1 tl
  end.
Definition xsched (evs : list event) : list nat := xgo None None evs.

(* the execute cycle as a function of the index, for an event stream [ev : nat -> event] *)
Fixpoint X (ev : nat -> event) (j : nat) : nat :=
  match j with
  | O => 3
  | S i =>
      xnext (Some (X ev i, ev i))
            (match i with O => None | S h => Some (X ev h, ev h) end) (ev (S i))
  end.

(** * What the pipeline does *)
Definition some_ret (l : latch) (t : nat) : list (Z * nat) :=
  match l with Some x => [(sl_addr x, t)] | None => [] end.
(* [t]: number of steps already made *)
Fixpoint pipe_retire_from (t : nat) (fuel : nat) (p : pstate) : list (Z * nat) :=
  match fuel with
  | O => []
  | S k => if pipe_done p then []
           else match pipe_step p with
                | (_, Some _) => []
                | (p', None) => some_ret (lat_at (lat p') 4) (S t) ++ pipe_retire_from (S t) k p'
                end
  end.
Definition pipe_retire (fuel : nat) (p : pstate) : list (Z * nat) := pipe_retire_from 0 fuel p.

(* total number of cycles of the documented pipeline: the last write-back cycle *)
Definition total_cycles (ws : list nat) : nat := last ws 0%nat.

(** * Validation of the definitions on closed programs (before anything is proved) *)
Definition zn (l : list (Z * Z)) : list (Z * nat) := map (fun ab => (fst ab, Z.to_nat (snd ab))) l.
Definition sched_demo (P : list instr) : list (Z * nat) * list (Z * nat) * list nat * Z :=
  let s := init_st P (MFlat []) None in
  let evs := single_events 100 s in
  (pipe_retire 200 (pipe_init s true), combine (single_trace 100 s) (schedule evs),
   map (fun x => (x + 2)%nat) (xsched evs),
   cycles (pst (fst (pipe_run 200 (pipe_init s true))))).

(* the program of Props/C02Refine.v: hazards, store/load, taken branch, jal, printing and
   exiting ecall *)
Example sched_demo_c02 :
  sched_demo [ II ADDI 10 0 5; II ADDI 17 0 1; IEcall; IBranch BEQ 0 0 8; II ADDI 1 0 1;
               ILui 6 16; IR ADD 2 10 10; IStore SW 6 2 4; ILoad LW 3 6 4; IR ADD 4 3 3;
               IJal 5 8 0; II ADDI 1 0 7; II ADDI 17 0 10; IEcall; II ADDI 1 0 9 ] =
  let r := zn [(0, 5); (4, 6); (8, 9); (12, 10); (20, 14); (24, 15); (28, 18); (32, 19); (36, 22);
            (40, 23); (48, 27); (52, 30)] in
  (r, r, map snd r, 30).
Proof. vm_compute. reflexivity. Qed.

(* RAW hazards at distance 1, 2 and 3 *)
Example sched_demo_raw1 : sched_demo [II ADDI 1 0 1; II ADDI 2 1 1] =
  (zn [(0, 5); (4, 8)], zn [(0, 5); (4, 8)], [5; 8]%nat, 8).
Proof. vm_compute. reflexivity. Qed.
Example sched_demo_raw2 : sched_demo [II ADDI 1 0 1; II ADDI 3 0 1; II ADDI 2 1 1] =
  (zn [(0, 5); (4, 6); (8, 9)], zn [(0, 5); (4, 6); (8, 9)], [5; 6; 9]%nat, 9).
Proof. vm_compute. reflexivity. Qed.
Example sched_demo_raw3 : sched_demo [II ADDI 1 0 1; II ADDI 3 0 1; II ADDI 4 0 1; II ADDI 2 1 1] =
  (zn [(0, 5); (4, 6); (8, 7); (12, 8)], zn [(0, 5); (4, 6); (8, 7); (12, 8)], [5; 6; 7; 8]%nat, 8).
Proof. vm_compute. reflexivity. Qed.

(* taken and not-taken branch, jalr, hazards on the link register, exiting ecall
   (cross-checked against harness/sched.py: identical retire list, 26 cycles) *)
Example sched_demo_control :
  sched_demo [II ADDI 1 0 1; IBranch BNE 1 0 8; II ADDI 2 0 1; II ADDI 3 0 1; IBranch BEQ 1 0 8;
              II ADDI 4 3 1; IJalr 5 0 32; II ADDI 1 0 1; II ADDI 6 5 0; II ADDI 17 0 10;
              II ADDI 7 5 0; IEcall] =
  let r := zn [(0, 5); (4, 8); (12, 12); (16, 13); (20, 16); (24, 17); (32, 21); (36, 22); (40, 23);
            (44, 26)] in
  (r, r, map snd r, 26).
Proof. vm_compute. reflexivity. Qed.

(* ecall after producers, back-to-back ecalls, ecall after jal, exiting ecall *)
Example sched_demo_ecall :
  sched_demo [II ADDI 17 0 1; II ADDI 10 0 65; IEcall; IEcall; II ADDI 10 10 1; IEcall; IJal 1 8 0;
              IEcall; IEcall; II ADDI 17 0 10; IEcall; II ADDI 3 0 3] =
  let r := zn [(0, 5); (4, 6); (8, 9); (12, 12); (16, 13); (20, 16); (24, 17); (32, 21); (36, 22);
            (40, 25)] in
  (r, r, map snd r, 25).
Proof. vm_compute. reflexivity. Qed.

(* a branch to pc+4, jal to the next instruction, jal out of the program *)
Example sched_demo_jumps :
  sched_demo [IBranch BEQ 0 0 4; II ADDI 1 0 1; IJal 0 4 0; II ADDI 1 1 1; IJal 0 100 0] =
  let r := zn [(0, 5); (4, 9); (8, 10); (12, 14); (16, 15)] in (r, r, map snd r, 15).
Proof. vm_compute. reflexivity. Qed.

Example sched_demo_empty : sched_demo [] = ([], [], [], 0).
Proof. vm_compute. reflexivity. Qed.
