(* Proofs/Lift2Sched.v — property C07 with caches, per instruction: the value of the cycle counter
   at the step at which each instruction retires.  The schedule theorem of Proofs/SchedCache.v
   gives the retire STEP of every instruction; the cycle law summed over the prefix run gives the
   cycle counter at that step. *)
From Coq Require Import Lia ZifyBool.
From ArchSim Require Import Spec.RefCache.
From ArchSim Require Import Model.Base Model.Mem Model.Cache Model.Fmt Model.RV Model.Single
  Model.RVSplit Model.Pipe
  Proofs.C01Step Proofs.SplitExec Proofs.PipeLaws Proofs.PipeInv
  Proofs.LiftSim Proofs.LiftRefine Proofs.SchedDefs Proofs.SchedCache.
Open Scope Z_scope.
Local Arguments Z.mul : simpl never.
Local Arguments Z.add : simpl never.
Local Arguments Z.sub : simpl never.
Local Arguments Z.of_nat : simpl never.

(* every entry (a, w) of the retire list: the prefix run of w steps makes exactly w steps and ends
   with the instruction of address a in latch 4 *)
Lemma retire_prefix fuel : forall t p a w, In (a, w) (pipe_retire_from t fuel p) ->
  exists j, w = (t + j)%nat /\ (1 <= j <= fuel)%nat /\ pipe_run_steps j p = j /\
    exists x, lat_at (lat (fst (pipe_run j p))) 4 = Some x /\ sl_addr x = a.
Proof.
  induction fuel as [|k IH]; intros t p a w Hin; cbn [pipe_retire_from] in Hin; [destruct Hin|].
  destruct (pipe_done p) eqn:Hd; [destruct Hin|].
  destruct (pipe_step p) as [p' [f|]] eqn:Hs; [destruct Hin|].
  apply in_app_or in Hin. destruct Hin as [Hin|Hin].
  - unfold some_ret in Hin. destruct (lat_at (lat p') 4) as [x|] eqn:Hx; [|destruct Hin].
    destruct Hin as [E|[]]. injection E as <- <-. exists 1%nat. split; [lia|]. split; [lia|].
    cbn [pipe_run_steps pipe_run]. rewrite Hd, Hs. split; [reflexivity|].
    exists x. destruct (pipe_done p'); cbn [fst]; split; (exact Hx || reflexivity).
  - destruct (IH (S t) p' a w Hin) as (j & -> & Hj & Hst & x & Hx & Ha).
    exists (S j). split; [lia|]. split; [lia|]. cbn [pipe_run_steps pipe_run]. rewrite Hd, Hs, Hst.
    split; [reflexivity|]. exists x. split; assumption.
Qed.

Theorem pipe_retire_cycles_lem s n s' :
  cwf s -> Forall (fun i => supported i = true) (prog (im s)) ->
  single_run n s = (s', Done) ->
  forall k a w, nth_error (combine (single_trace n s) (schedule (single_events n s))) k = Some (a, w) ->
    let pw := fst (pipe_run w (pipe_init s true)) in
    (1 <= w <= total_cycles (schedule (single_events n s)))%nat /\
    pipe_run_steps w (pipe_init s true) = w /\
    (exists x, lat_at (lat pw) 4 = Some x /\ sl_addr x = a) /\
    cycles (pst pw) = cycles s + Z.of_nat w
                      + ipen s * ((iacc (pst pw) - iacc s) - (ihit (pst pw) - ihit s))
                      + dpen s * ((dacc (pst pw) - dacc s) - (dhit (pst pw) - dhit s)).
Proof.
  intros HW HS Hrun k a w Hk. cbv zeta.
  destruct (pipe_schedule_caches_lem s n s' HW HS Hrun) as (c & p & _ & _ & Hret & Hc & _).
  rewrite <- Hret in Hk. apply nth_error_In in Hk. unfold pipe_retire in Hk.
  destruct (retire_prefix c 0%nat _ a w Hk) as (j & -> & Hj & Hst & Hx). cbn [Nat.add].
  split; [rewrite <- Hc; exact Hj|]. split; [exact Hst|]. split; [exact Hx|].
  pose proof (pipe_run_cycles_gen j (pipe_init s true)) as Hg. cbv zeta in Hg.
  change (pst (pipe_init s true)) with s in Hg. rewrite Hst in Hg. exact Hg.
Qed.
Print Assumptions pipe_retire_cycles_lem.
