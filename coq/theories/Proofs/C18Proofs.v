(* C18Proofs.v — the flat memory model (Model/Mem.v) against the abstract store (Spec/FlatMem.v) *)
From Coq Require Import Lia ZifyBool.
From ArchSim Require Import Model.Base Model.Mem Spec.FlatMem Proofs.WordLemmas Proofs.MapLemmas.
Open Scope Z_scope.
Ltac Zify.zify_post_hook ::= Z.to_euclidean_division_equations.
Local Arguments Z.mul : simpl never.
Local Arguments Z.add : simpl never.
Local Arguments Z.sub : simpl never.
Local Arguments Z.pow : simpl never.
Local Arguments Z.div : simpl never.
Local Arguments Z.modulo : simpl never.
Local Arguments Z.land : simpl never.
Local Arguments Z.shiftl : simpl never.
Local Arguments Z.shiftr : simpl never.
Local Arguments Z.of_nat : simpl never.

(** * Arithmetic *)
Lemma p2pos n : 0 <= n -> 0 < 2 ^ n.
Proof. intros; apply Z.pow_pos_nonneg; lia. Qed.

Lemma pow_S w k : 0 <= w -> 2 ^ (w * Z.of_nat (S k)) = 2 ^ (w * Z.of_nat k) * 2 ^ w.
Proof.
  intros Hw. rewrite Nat2Z.inj_succ. unfold Z.succ.
  rewrite Z.mul_add_distr_l, Z.mul_1_r, Z.pow_add_r by nia. reflexivity.
Qed.

Lemma pow_0 w : 2 ^ (w * Z.of_nat 0) = 1.
Proof. change (Z.of_nat 0) with 0. rewrite Z.mul_0_r. reflexivity. Qed.

Lemma digit_range w v i : 0 <= w -> 0 <= digit w v i < 2 ^ w.
Proof. intros Hw. unfold digit. apply Z.mod_pos_bound. apply p2pos; assumption. Qed.

Lemma digit_0 w v : digit w v 0 = v mod 2 ^ w.
Proof. unfold digit. rewrite pow_0, Z.div_1_r. reflexivity. Qed.

Lemma digit_shift w v i : 0 <= w -> digit w (v / 2 ^ w) i = digit w v (S i).
Proof.
  intros Hw. unfold digit. rewrite pow_S by assumption.
  rewrite Z.div_div; [| pose proof (p2pos w Hw); lia | apply p2pos; nia].
  rewrite (Z.mul_comm (2 ^ w)). reflexivity.
Qed.

(* (v mod (P*Q*R) / P) mod Q = (v / P) mod Q *)
Lemma mod_div_mod v P Q R : 0 < P -> 0 < Q -> 0 < R ->
  ((v mod (P * (Q * R))) / P) mod Q = (v / P) mod Q.
Proof.
  intros HP HQ HR.
  rewrite (Z.rem_mul_r v P (Q * R)) by nia.
  rewrite (Z.mul_comm P), Z.div_add by lia.
  rewrite (Z.div_small (v mod P)) by (apply Z.mod_pos_bound; lia).
  rewrite Z.add_0_l.
  rewrite (Z.rem_mul_r (v / P) Q R) by lia.
  rewrite (Z.mul_comm Q), Z.mod_add by lia.
  apply Z.mod_mod; lia.
Qed.

Lemma digit_mod w v k i : 0 <= w -> (i < k)%nat ->
  digit w (v mod 2 ^ (w * Z.of_nat k)) i = digit w v i.
Proof.
  intros Hw Hik. unfold digit.
  replace (w * Z.of_nat k) with (w * Z.of_nat i + (w + w * Z.of_nat (k - S i))) by nia.
  rewrite !Z.pow_add_r by nia.
  apply mod_div_mod; apply p2pos; nia.
Qed.

(** * Structure of [touched], [first_bad], [ngood] *)
Lemma touched_S c a k : touched c a (S k) = eff c a :: touched c (a + 1) k.
Proof.
  unfold touched. cbn [seq map]. change (Z.of_nat 0) with 0. rewrite Z.add_0_r. f_equal.
  rewrite <- seq_shift, map_map. apply map_ext. intros i.
  rewrite Nat2Z.inj_succ. f_equal. lia.
Qed.

Lemma touched_length c a k : length (touched c a k) = k.
Proof. unfold touched. rewrite map_length, seq_length. reflexivity. Qed.

Lemma touched_In c a k x :
  In x (touched c a k) <-> exists i, (i < k)%nat /\ x = eff c (a + Z.of_nat i).
Proof.
  unfold touched. rewrite in_map_iff. split.
  - intros (i & <- & Hi). apply in_seq in Hi. exists i. split; [lia | reflexivity].
  - intros (i & Hi & ->). exists i. split; [reflexivity | apply in_seq; lia].
Qed.

Lemma ngood_S c a k :
  ngood c a (S k) = if validb c (eff c a) then S (ngood c (a + 1) k) else O.
Proof. unfold ngood. rewrite touched_S. reflexivity. Qed.

Lemma first_bad_S c a k :
  first_bad c a (S k) = if validb c (eff c a) then first_bad c (a + 1) k else Some (eff c a).
Proof.
  unfold first_bad. rewrite touched_S. cbn [find].
  destruct (validb c (eff c a)); reflexivity.
Qed.

Lemma validb_valid c x : validb c x = true <-> valid c x.
Proof. unfold validb, valid. lia. Qed.

(* [ngood] and [first_bad] describe the same position *)
Lemma ngood_spec c : forall k a,
  (ngood c a k <= k)%nat /\
  (forall j, (j < ngood c a k)%nat -> validb c (eff c (a + Z.of_nat j)) = true) /\
  ((ngood c a k < k)%nat -> validb c (eff c (a + Z.of_nat (ngood c a k))) = false) /\
  first_bad c a k =
    (if (ngood c a k <? k)%nat then Some (eff c (a + Z.of_nat (ngood c a k))) else None).
Proof.
  induction k as [|k IH]; intros a.
  - unfold ngood, first_bad. cbn. repeat split; intros; lia.
  - rewrite ngood_S, first_bad_S. destruct (validb c (eff c a)) eqn:Hv.
    + destruct (IH (a + 1)) as (H1 & H2 & H3 & H4). set (n := ngood c (a + 1) k) in *.
      repeat split.
      * lia.
      * intros j Hj. destruct j as [|j].
        -- change (Z.of_nat 0) with 0. rewrite Z.add_0_r. exact Hv.
        -- rewrite Nat2Z.inj_succ. replace (a + Z.succ (Z.of_nat j)) with (a + 1 + Z.of_nat j) by lia.
           apply H2. lia.
      * intros Hn. rewrite Nat2Z.inj_succ.
        replace (a + Z.succ (Z.of_nat n)) with (a + 1 + Z.of_nat n) by lia. apply H3. lia.
      * rewrite H4. rewrite Nat2Z.inj_succ.
        replace (a + Z.succ (Z.of_nat n)) with (a + 1 + Z.of_nat n) by lia.
        change (S n <? S k)%nat with (n <? k)%nat. reflexivity.
    + repeat split.
      * lia.
      * intros j Hj. lia.
      * intros _. change (Z.of_nat 0) with 0. rewrite Z.add_0_r. exact Hv.
      * change (Z.of_nat 0) with 0. rewrite Z.add_0_r. reflexivity.
Qed.

Lemma first_bad_none c a k :
  first_bad c a k = None <-> forall i, (i < k)%nat -> valid c (eff c (a + Z.of_nat i)).
Proof.
  destruct (ngood_spec c k a) as (H1 & H2 & H3 & H4). split.
  - intros Hn i Hi. apply validb_valid. apply H2.
    rewrite H4 in Hn. destruct (Nat.ltb_spec (ngood c a k) k); [discriminate | lia].
  - intros Hall. rewrite H4. destruct (Nat.ltb_spec (ngood c a k) k) as [Hlt|Hge]; [|reflexivity].
    specialize (H3 Hlt). specialize (Hall _ Hlt). apply validb_valid in Hall. congruence.
Qed.

Lemma first_bad_some c a k b :
  first_bad c a k = Some b <->
  exists i, (i < k)%nat /\ b = eff c (a + Z.of_nat i) /\ ~ valid c b /\
            forall j, (j < i)%nat -> valid c (eff c (a + Z.of_nat j)).
Proof.
  destruct (ngood_spec c k a) as (H1 & H2 & H3 & H4). split.
  - intros Hs. rewrite H4 in Hs. destruct (Nat.ltb_spec (ngood c a k) k) as [Hlt|Hge]; [|discriminate].
    injection Hs as <-. exists (ngood c a k). refine (conj _ (conj _ (conj _ _))).
    + exact Hlt.
    + reflexivity.
    + intros Hv. apply validb_valid in Hv. rewrite (H3 Hlt) in Hv. discriminate.
    + intros j Hj. apply validb_valid. apply H2. exact Hj.
  - intros (i & Hi & -> & Hbad & Hpre).
    assert (Hn : ngood c a k = i).
    { destruct (lt_eq_lt_dec (ngood c a k) i) as [[Hlt|Heq]|Hgt].
      - exfalso. assert (Hlt' : (ngood c a k < k)%nat) by lia.
        specialize (H3 Hlt'). specialize (Hpre _ Hlt). apply validb_valid in Hpre. congruence.
      - exact Heq.
      - exfalso. apply Hbad. apply validb_valid. apply H2. exact Hgt. }
    rewrite H4, Hn. destruct (Nat.ltb_spec i k); [reflexivity | lia].
Qed.

Lemma first_bad_none_ngood c a k : first_bad c a k = None -> ngood c a k = k.
Proof.
  destruct (ngood_spec c k a) as (H1 & _ & _ & H4). rewrite H4.
  destruct (Nat.ltb_spec (ngood c a k) k); [discriminate | lia].
Qed.

Lemma first_bad_some_ngood c a k b :
  first_bad c a k = Some b -> (ngood c a k < k)%nat /\ b = eff c (a + Z.of_nat (ngood c a k)).
Proof.
  destruct (ngood_spec c k a) as (H1 & _ & _ & H4). rewrite H4.
  destruct (Nat.ltb_spec (ngood c a k) k); [|discriminate].
  intros Hs. injection Hs as <-. split; [assumption | reflexivity].
Qed.

(** * [le_compose] *)
Lemma le_compose_head f w a k : 0 <= w ->
  le_compose f w a (S k) = f a + 2 ^ w * le_compose f w (a + 1) k.
Proof.
  intros Hw. induction k as [|k IH].
  - cbn [le_compose]. rewrite pow_0. change (Z.of_nat 0) with 0. rewrite Z.add_0_r. ring.
  - change (le_compose f w a (S (S k)))
      with (le_compose f w a (S k) + f (a + Z.of_nat (S k)) * 2 ^ (w * Z.of_nat (S k))).
    rewrite IH. cbn [le_compose]. rewrite pow_S by assumption.
    rewrite Nat2Z.inj_succ. replace (a + Z.succ (Z.of_nat k)) with (a + 1 + Z.of_nat k) by lia.
    ring.
Qed.

Lemma le_compose_ext f g w a k :
  (forall i, (i < k)%nat -> f (a + Z.of_nat i) = g (a + Z.of_nat i)) ->
  le_compose f w a k = le_compose g w a k.
Proof.
  induction k as [|k IH]; intros H; cbn [le_compose]; [reflexivity|].
  rewrite IH by (intros; apply H; lia). rewrite H by lia. reflexivity.
Qed.

Lemma le_compose_range f w a k : 0 <= w ->
  (forall i, (i < k)%nat -> 0 <= f (a + Z.of_nat i) < 2 ^ w) ->
  0 <= le_compose f w a k < 2 ^ (w * Z.of_nat k).
Proof.
  intros Hw. induction k as [|k IH]; intros H; cbn [le_compose].
  - rewrite pow_0. lia.
  - rewrite pow_S by assumption.
    assert (IH' := IH (fun i Hi => H i (Nat.lt_lt_succ_r _ _ Hi))).
    assert (Hk := H k (Nat.lt_succ_diag_r k)).
    assert (HP : 0 < 2 ^ (w * Z.of_nat k)) by (apply p2pos; nia).
    set (P := 2 ^ (w * Z.of_nat k)) in *. set (Q := 2 ^ w) in *. nia.
Qed.

(* composing the digits of v gives v back, truncated *)
Lemma le_compose_digits f w a v k : 0 <= w ->
  (forall i, (i < k)%nat -> f (a + Z.of_nat i) = digit w v i) ->
  le_compose f w a k = v mod 2 ^ (w * Z.of_nat k).
Proof.
  intros Hw. induction k as [|k IH]; intros H; cbn [le_compose].
  - rewrite pow_0. rewrite Z.mod_1_r. reflexivity.
  - rewrite IH by (intros; apply H; lia). rewrite H by lia. unfold digit.
    rewrite pow_S by assumption.
    rewrite (Z.rem_mul_r v (2 ^ (w * Z.of_nat k)) (2 ^ w));
      [ring | pose proof (p2pos (w * Z.of_nat k)); nia | apply p2pos; assumption].
Qed.

(** * [upd_cells] *)
Lemma upd_cells_ext c f g a v k x :
  (forall y, f y = g y) -> upd_cells c f a v k x = upd_cells c g a v k x.
Proof.
  intros H. induction k as [|k IH]; cbn [upd_cells]; [apply H|].
  rewrite IH. reflexivity.
Qed.

Lemma upd_cells_head c f a v k x : 0 <= cw c ->
  upd_cells c f a v (S k) x =
  upd_cells c (fun y => if y =? eff c a then digit (cw c) v 0 else f y) (a + 1) (v / 2 ^ cw c) k x.
Proof.
  intros Hw. induction k as [|k IH].
  - cbn [upd_cells]. change (Z.of_nat 0) with 0. rewrite Z.add_0_r. reflexivity.
  - change (upd_cells c f a v (S (S k)) x)
      with (if x =? eff c (a + Z.of_nat (S k)) then digit (cw c) v (S k)
            else upd_cells c f a v (S k) x).
    rewrite IH. cbn [upd_cells]. rewrite digit_shift by assumption.
    rewrite Nat2Z.inj_succ. replace (a + Z.succ (Z.of_nat k)) with (a + 1 + Z.of_nat k) by lia.
    reflexivity.
Qed.

(* a cell that is not among the first n touched ones keeps its value *)
Lemma upd_cells_other c f a v n x :
  (forall i, (i < n)%nat -> x <> eff c (a + Z.of_nat i)) -> upd_cells c f a v n x = f x.
Proof.
  induction n as [|n IH]; intros H; cbn [upd_cells]; [reflexivity|].
  destruct (Z.eqb_spec x (eff c (a + Z.of_nat n))) as [E|E].
  - exfalso. apply (H n); [lia | exact E].
  - apply IH. intros i Hi. apply H. lia.
Qed.

(* the i-th touched cell receives digit i — provided no later touched cell coincides with it *)
Lemma upd_cells_hit c f a v n i :
  (i < n)%nat ->
  (forall j, (i < j < n)%nat -> eff c (a + Z.of_nat i) <> eff c (a + Z.of_nat j)) ->
  upd_cells c f a v n (eff c (a + Z.of_nat i)) = digit (cw c) v i.
Proof.
  induction n as [|n IH]; intros Hi Hd; [lia|]. cbn [upd_cells].
  destruct (Z.eqb_spec (eff c (a + Z.of_nat i)) (eff c (a + Z.of_nat n))) as [E|E].
  - destruct (Nat.eq_dec i n) as [->|Hne]; [reflexivity|].
    exfalso. apply (Hd n); [lia | exact E].
  - destruct (Nat.eq_dec i n) as [->|Hne]; [congruence|].
    apply IH; [lia|]. intros j Hj. apply Hd. lia.
Qed.

(* in general: every cell either keeps its value or holds a digit of v written at a
   touched address equal to it *)
Lemma upd_cells_cases c f a v n x :
  upd_cells c f a v n x = f x \/
  exists i, (i < n)%nat /\ x = eff c (a + Z.of_nat i) /\ upd_cells c f a v n x = digit (cw c) v i.
Proof.
  induction n as [|n IH]; cbn [upd_cells]; [left; reflexivity|].
  destruct (Z.eqb_spec x (eff c (a + Z.of_nat n))) as [E|E].
  - right. exists n. repeat split; [lia | exact E].
  - destruct IH as [IH | (i & Hi & Hx & Hv)]; [left; exact IH|].
    right. exists i. repeat split; [lia | exact Hx | exact Hv].
Qed.

Lemma upd_cells_wf c f a v n : 0 <= cw c -> fun_wf c f -> fun_wf c (upd_cells c f a v n).
Proof.
  intros Hw Hf x. destruct (upd_cells_cases c f a v n x) as [-> | (i & _ & _ & ->)].
  - apply Hf.
  - apply digit_range; assumption.
Qed.

Lemma upd_cells_digits_ext c f a v1 v2 n x :
  (forall i, (i < n)%nat -> digit (cw c) v1 i = digit (cw c) v2 i) ->
  upd_cells c f a v1 n x = upd_cells c f a v2 n x.
Proof.
  induction n as [|n IH]; intros H; cbn [upd_cells]; [reflexivity|].
  rewrite H by lia. rewrite IH by (intros; apply H; lia). reflexivity.
Qed.

(** * The model's cell accessors in terms of the spec vocabulary *)
Lemma read_cell_eq c m a :
  read_cell c m a = if validb c (eff c a) then Ok (cells m (eff c a)) else Err (flat_err c (eff c a)).
Proof. reflexivity. Qed.

Lemma write_cell_eq c m a v :
  write_cell c m a v = if validb c (eff c a) then Ok (mset m (eff c a) v) else Err (flat_err c (eff c a)).
Proof. reflexivity. Qed.

Lemma cells_mset m e d y : cells (mset m e d) y = if y =? e then d else cells m y.
Proof. unfold cells. rewrite mget_mset, Z.eqb_sym. reflexivity. Qed.

Lemma ncells_mul c k : 0 < cw c -> ncells c (cw c * Z.of_nat k) = k.
Proof.
  intros Hw. unfold ncells. rewrite Z.mul_comm, Z.div_mul by lia. apply Nat2Z.id.
Qed.

(** * Reads *)
Lemma read_mult_gen c m a : 0 <= cw c -> forall k i acc,
  (forall j, (j < k)%nat -> 0 <= cells m (eff c (a + i + Z.of_nat j)) < 2 ^ cw c) ->
  0 <= i -> 0 <= acc < 2 ^ (cw c * i) ->
  read_mult c m a k i acc =
  match first_bad c (a + i) k with
  | None => Ok (acc + 2 ^ (cw c * i) * le_compose (fun x => cells m (eff c x)) (cw c) (a + i) k)
  | Some b => Err (flat_err c b)
  end.
Proof.
  intros Hw. induction k as [|k IH]; intros i acc Hc Hi Hacc.
  - cbn [read_mult]. unfold first_bad, touched. cbn [seq map find le_compose].
    rewrite Z.mul_0_r, Z.add_0_r. reflexivity.
  - cbn [read_mult]. rewrite read_cell_eq, first_bad_S.
    destruct (validb c (eff c (a + i))) eqn:Hv; [|reflexivity].
    assert (Hc0 := Hc O (Nat.lt_0_succ k)). change (Z.of_nat 0) with 0 in Hc0.
    rewrite Z.add_0_r in Hc0.
    assert (HP : 0 < 2 ^ (cw c * i)) by (apply p2pos; nia).
    assert (HQ : 0 < 2 ^ cw c) by (apply p2pos; assumption).
    assert (Hpow : 2 ^ (cw c * (i + 1)) = 2 ^ (cw c * i) * 2 ^ cw c).
    { rewrite Z.mul_add_distr_l, Z.mul_1_r, Z.pow_add_r by nia. reflexivity. }
    rewrite (Z.mul_comm i (cw c)).
    rewrite lor_add_disjoint; [| nia | assumption | lia].
    rewrite IH.
    + replace (a + (i + 1)) with (a + i + 1) by lia.
      destruct (first_bad c (a + i + 1) k); [reflexivity|].
      rewrite le_compose_head by assumption. rewrite Hpow. f_equal. ring.
    + intros j Hj. replace (a + (i + 1) + Z.of_nat j) with (a + i + Z.of_nat (S j))
        by (rewrite Nat2Z.inj_succ; lia).
      apply Hc. lia.
    + lia.
    + rewrite Hpow. set (P := 2 ^ (cw c * i)) in *. set (Q := 2 ^ cw c) in *.
      set (x := cells m (eff c (a + i))) in *. nia.
Qed.

(* touched cells hold cw-bit values: enough for a read to be the little-endian sum *)
Definition touched_wf (c : memcfg) (m : zmap) (a : Z) (k : nat) : Prop :=
  forall j, (j < k)%nat -> 0 <= cells m (eff c (a + Z.of_nat j)) < 2 ^ cw c.

Lemma mem_read_touched c m k nbits a :
  0 < cw c -> nbits = cw c * Z.of_nat k -> touched_wf c m a k ->
  mem_read c m nbits a = flat_read c (cells m) k a.
Proof.
  intros Hw -> Hm. unfold mem_read, flat_read. rewrite ncells_mul by assumption.
  rewrite (read_mult_gen c m a) with (k := k); [| lia | | lia | rewrite Z.mul_0_r; cbn; lia].
  - rewrite Z.add_0_r. destruct (first_bad c a k); [reflexivity|].
    rewrite Z.mul_0_r. change (2 ^ 0) with 1. rewrite Z.add_0_l, Z.mul_1_l.
    f_equal. unfold U. apply Z.mod_small.
    apply le_compose_range; [lia | exact Hm].
  - intros j Hj. rewrite Z.add_0_r. apply Hm. exact Hj.
Qed.

Lemma flat_read_range c f k a v :
  0 <= cw c -> (forall j, (j < k)%nat -> 0 <= f (eff c (a + Z.of_nat j)) < 2 ^ cw c) ->
  flat_read c f k a = Ok v -> 0 <= v < 2 ^ (cw c * Z.of_nat k).
Proof.
  intros Hw Hf. unfold flat_read. destruct (first_bad c a k); [discriminate|].
  intros H. injection H as <-. apply le_compose_range; assumption.
Qed.

Lemma flat_read_ext c f g k a :
  (forall x, f x = g x) -> flat_read c f k a = flat_read c g k a.
Proof.
  intros H. unfold flat_read. destruct (first_bad c a k); [reflexivity|].
  f_equal. apply le_compose_ext. intros; apply H.
Qed.

(* 2. read_spec *)
Lemma read_spec_proof c m k nbits a :
  0 < cw c -> nbits = cw c * Z.of_nat k -> cells_wf c m ->
  mem_read c m nbits a = flat_read c (cells m) k a /\
  (forall v, mem_read c m nbits a = Ok v -> 0 <= v < 2 ^ nbits).
Proof.
  intros Hw Hn Hm.
  assert (E : mem_read c m nbits a = flat_read c (cells m) k a).
  { apply mem_read_touched; [assumption | assumption | intros j _; apply Hm]. }
  split; [exact E|]. intros v Hv. rewrite E in Hv. subst nbits.
  eapply flat_read_range; [lia | | exact Hv]. intros j _; apply Hm.
Qed.

(* the two outcomes of a read, spelled out *)
Lemma read_ok_proof c m k nbits a :
  0 < cw c -> nbits = cw c * Z.of_nat k -> cells_wf c m ->
  (forall i, (i < k)%nat -> valid c (eff c (a + Z.of_nat i))) ->
  mem_read c m nbits a = Ok (le_compose (fun x => cells m (eff c x)) (cw c) a k).
Proof.
  intros Hw Hn Hm Hall. destruct (read_spec_proof c m k nbits a Hw Hn Hm) as [-> _].
  unfold flat_read. apply first_bad_none in Hall. rewrite Hall. reflexivity.
Qed.

Lemma read_err_proof c m k nbits a i :
  0 < cw c -> nbits = cw c * Z.of_nat k -> cells_wf c m ->
  (i < k)%nat -> ~ valid c (eff c (a + Z.of_nat i)) ->
  (forall j, (j < i)%nat -> valid c (eff c (a + Z.of_nat j))) ->
  mem_read c m nbits a = Err (EAddr (eff c (a + Z.of_nat i)) (alo c) (ahi c - 1) false).
Proof.
  intros Hw Hn Hm Hi Hbad Hpre. destruct (read_spec_proof c m k nbits a Hw Hn Hm) as [-> _].
  unfold flat_read.
  assert (Hs : first_bad c a k = Some (eff c (a + Z.of_nat i))).
  { apply first_bad_some. exists i. auto. }
  rewrite Hs. reflexivity.
Qed.

(** * Writes *)
Lemma write_mult_gen c a : 0 <= cw c -> forall k m i value,
  (forall x, cells (fst (write_mult c m a k i value)) x =
             upd_cells c (cells m) (a + i) value (ngood c (a + i) k) x) /\
  snd (write_mult c m a k i value) = option_map (flat_err c) (first_bad c (a + i) k).
Proof.
  intros Hw. induction k as [|k IH]; intros m i value.
  - cbn [write_mult fst snd]. unfold ngood, first_bad, touched. cbn. split; reflexivity.
  - cbn [write_mult]. rewrite write_cell_eq, ngood_S, first_bad_S.
    destruct (validb c (eff c (a + i))) eqn:Hv.
    + destruct (IH (mset m (eff c (a + i)) (Z.land value (2 ^ cw c - 1))) (i + 1)
                   (Z.shiftr value (cw c))) as [IH1 IH2].
      replace (a + (i + 1)) with (a + i + 1) in IH1, IH2 by lia.
      split; [|exact IH2].
      intros x. rewrite IH1. rewrite upd_cells_head by assumption.
      rewrite shr_div by assumption.
      apply upd_cells_ext. intros y.
      rewrite cells_mset, land_ones_mod, digit_0 by assumption. reflexivity.
    + cbn [fst snd upd_cells option_map]. split; reflexivity.
Qed.

(* the written map depends on the value only through its first k digits *)
Lemma write_mult_digits_ext c a : 0 <= cw c -> forall k m i v1 v2,
  (forall j, (j < k)%nat -> digit (cw c) v1 j = digit (cw c) v2 j) ->
  write_mult c m a k i v1 = write_mult c m a k i v2.
Proof.
  intros Hw. induction k as [|k IH]; intros m i v1 v2 H; cbn [write_mult]; [reflexivity|].
  rewrite !land_ones_mod by assumption. rewrite <- !digit_0. rewrite (H O) by lia.
  destruct (write_cell c m (a + i) (digit (cw c) v2 0)); [|reflexivity].
  apply IH. intros j Hj. rewrite !shr_div by assumption. rewrite !digit_shift by assumption.
  apply H. lia.
Qed.

(* 3. write_spec *)
Lemma write_spec_proof c m k nbits a v :
  0 < cw c -> nbits = cw c * Z.of_nat k ->
  (forall x, cells (fst (mem_write c m nbits a v)) x = fst (flat_write c (cells m) k a v) x) /\
  snd (mem_write c m nbits a v) = snd (flat_write c (cells m) k a v) /\
  mem_write c m nbits a (v mod 2 ^ nbits) = mem_write c m nbits a v.
Proof.
  intros Hw ->. unfold mem_write, flat_write. rewrite ncells_mul by assumption. cbn [fst snd].
  destruct (write_mult_gen c a (Z.lt_le_incl _ _ Hw) k m 0 v) as [H1 H2].
  rewrite Z.add_0_r in H1, H2. refine (conj H1 (conj H2 _)).
  apply write_mult_digits_ext; [lia|]. intros j Hj. apply digit_mod; [lia | exact Hj].
Qed.

(* success: exactly when every touched effective address is in range; then all k digits land *)
Lemma write_ok_proof c m k nbits a v :
  0 < cw c -> nbits = cw c * Z.of_nat k ->
  (forall i, (i < k)%nat -> valid c (eff c (a + Z.of_nat i))) ->
  snd (mem_write c m nbits a v) = None /\
  forall x, cells (fst (mem_write c m nbits a v)) x = upd_cells c (cells m) a v k x.
Proof.
  intros Hw Hn Hall. destruct (write_spec_proof c m k nbits a v Hw Hn) as (H1 & H2 & _).
  apply first_bad_none in Hall. unfold flat_write in H1, H2. cbn [fst snd] in H1, H2.
  rewrite Hall in H2. rewrite (first_bad_none_ngood _ _ _ Hall) in H1. split; assumption.
Qed.

(* failure: the error names the first bad effective address, the i cells before it are
   written (Python raises in the middle of the loop), nothing else changes *)
Lemma write_err_proof c m k nbits a v i :
  0 < cw c -> nbits = cw c * Z.of_nat k ->
  (i < k)%nat -> ~ valid c (eff c (a + Z.of_nat i)) ->
  (forall j, (j < i)%nat -> valid c (eff c (a + Z.of_nat j))) ->
  snd (mem_write c m nbits a v) = Some (EAddr (eff c (a + Z.of_nat i)) (alo c) (ahi c - 1) false) /\
  forall x, cells (fst (mem_write c m nbits a v)) x = upd_cells c (cells m) a v i x.
Proof.
  intros Hw Hn Hi Hbad Hpre. destruct (write_spec_proof c m k nbits a v Hw Hn) as (H1 & H2 & _).
  assert (Hs : first_bad c a k = Some (eff c (a + Z.of_nat i))).
  { apply first_bad_some. exists i. auto. }
  unfold flat_write in H1, H2. cbn [fst snd] in H1, H2. rewrite Hs in H2.
  destruct (first_bad_some_ngood _ _ _ _ Hs) as [Hlt He].
  assert (Hn' : ngood c a k = i).
  { destruct (ngood_spec c k a) as (_ & G2 & G3 & _).
    destruct (lt_eq_lt_dec (ngood c a k) i) as [[L|E]|G]; [| exact E |].
    - exfalso. specialize (G3 Hlt). specialize (Hpre _ L). apply validb_valid in Hpre. congruence.
    - exfalso. apply Hbad. apply validb_valid. apply G2. exact G. }
  rewrite Hn' in H1. split; [exact H2 | exact H1].
Qed.

Lemma write_fails_iff_proof c m k nbits a v :
  0 < cw c -> nbits = cw c * Z.of_nat k ->
  (snd (mem_write c m nbits a v) = None <->
   forall i, (i < k)%nat -> valid c (eff c (a + Z.of_nat i))).
Proof.
  intros Hw Hn. destruct (write_spec_proof c m k nbits a v Hw Hn) as (_ & H2 & _).
  rewrite H2. unfold flat_write. cbn [snd]. rewrite <- first_bad_none.
  destruct (first_bad c a k); cbn [option_map]; split; intros; congruence.
Qed.

(* 1. cells_wf *)
Lemma cells_wf_write_proof c m nbits a v :
  0 <= cw c -> cells_wf c m -> cells_wf c (fst (mem_write c m nbits a v)).
Proof.
  intros Hw Hm x. unfold mem_write.
  destruct (write_mult_gen c a Hw (ncells c nbits) m 0 v) as [H1 _]. rewrite H1.
  apply upd_cells_wf; [assumption | exact Hm].
Qed.

(* 4. outside_entirely_unchanged *)
Lemma outside_unchanged_proof c m nbits a v :
  ~ valid c (eff c a) ->
  fst (mem_write c m nbits a v) = m /\
  ((0 < ncells c nbits)%nat ->
   mem_write c m nbits a v = (m, Some (EAddr (eff c a) (alo c) (ahi c - 1) false))).
Proof.
  intros Hbad. unfold mem_write. destruct (ncells c nbits) as [|k].
  - split; [reflexivity | lia].
  - cbn [write_mult]. rewrite write_cell_eq, Z.add_0_r.
    destruct (validb c (eff c a)) eqn:Hv; [apply validb_valid in Hv; contradiction|].
    split; reflexivity.
Qed.

Lemma all_outside_unchanged_proof c m nbits a v :
  (forall x, In x (touched c a (ncells c nbits)) -> ~ valid c x) ->
  fst (mem_write c m nbits a v) = m.
Proof.
  intros H. unfold mem_write. destruct (ncells c nbits) as [|k] eqn:E; [reflexivity|].
  fold (mem_write c m nbits a v) in *.
  replace (write_mult c m a (S k) 0 v) with (mem_write c m nbits a v)
    by (unfold mem_write; rewrite E; reflexivity).
  apply outside_unchanged_proof. apply H. rewrite touched_S. left. reflexivity.
Qed.

(* an access touching an effective address below alo (or anywhere out of range) is an error *)
Lemma touch_invalid_errors_proof c m k nbits a v i :
  0 < cw c -> nbits = cw c * Z.of_nat k -> cells_wf c m ->
  (i < k)%nat -> ~ valid c (eff c (a + Z.of_nat i)) ->
  exists b, ~ valid c b /\ In b (touched c a k) /\
            mem_read c m nbits a = Err (EAddr b (alo c) (ahi c - 1) false) /\
            snd (mem_write c m nbits a v) = Some (EAddr b (alo c) (ahi c - 1) false).
Proof.
  intros Hw Hn Hm Hi Hbad.
  destruct (first_bad c a k) as [b|] eqn:Hfb.
  - pose proof Hfb as Hfb'. apply first_bad_some in Hfb' as (i0 & Hi0 & Hb & Hnv & _).
    exists b. refine (conj Hnv (conj _ (conj _ _))).
    + apply touched_In. exists i0. split; assumption.
    + destruct (read_spec_proof c m k nbits a Hw Hn Hm) as [-> _]. unfold flat_read.
      rewrite Hfb. reflexivity.
    + destruct (write_spec_proof c m k nbits a v Hw Hn) as (_ & -> & _). unfold flat_write.
      cbn [snd]. rewrite Hfb. reflexivity.
  - exfalso. apply Hbad. exact (proj1 (first_bad_none c a k) Hfb i Hi).
Qed.

(** * Write histories *)
Lemma flat_step_ext c f g w x : (forall y, f y = g y) -> flat_step c f w x = flat_step c g w x.
Proof.
  destruct w as [[nbits a] v]. intros H. unfold flat_step, flat_write. cbn [fst].
  apply upd_cells_ext. exact H.
Qed.

Lemma flat_run_ext c ws : forall f g x, (forall y, f y = g y) -> flat_run c f ws x = flat_run c g ws x.
Proof.
  induction ws as [|w ws IH]; intros f g x H; cbn [flat_run fold_left]; [apply H|].
  apply (IH (flat_step c f w) (flat_step c g w)). intros y. apply flat_step_ext. exact H.
Qed.

Lemma mem_step_refines c m w x : 0 <= cw c -> cells (mem_step c m w) x = flat_step c (cells m) w x.
Proof.
  intros Hw. destruct w as [[nbits a] v]. unfold mem_step, flat_step, flat_write, mem_write. cbn [fst].
  destruct (write_mult_gen c a Hw (ncells c nbits) m 0 v) as [H1 _]. rewrite H1, Z.add_0_r.
  reflexivity.
Qed.

Lemma mem_step_wf c m w : 0 <= cw c -> cells_wf c m -> cells_wf c (mem_step c m w).
Proof. intros Hw Hm. destruct w as [[nbits a] v]. apply cells_wf_write_proof; assumption. Qed.

Lemma mem_run_wf c ws : 0 <= cw c -> forall m, cells_wf c m -> cells_wf c (mem_run c m ws).
Proof.
  intros Hw. induction ws as [|w ws IH]; intros m Hm; cbn [mem_run fold_left]; [exact Hm|].
  apply IH. apply mem_step_wf; assumption.
Qed.

(* 5. flat_refines: the map after any history is the abstract store after the same history *)
Lemma flat_refines_proof c ws : 0 <= cw c -> forall m x,
  cells (mem_run c m ws) x = flat_run c (cells m) ws x.
Proof.
  intros Hw. induction ws as [|w ws IH]; intros m x; cbn [mem_run flat_run fold_left]; [reflexivity|].
  fold (mem_run c (mem_step c m w) ws). fold (flat_run c (flat_step c (cells m) w) ws).
  rewrite IH. apply flat_run_ext. intros y. apply mem_step_refines. exact Hw.
Qed.

Lemma read_after_writes_proof c ws m k nbits a :
  0 < cw c -> nbits = cw c * Z.of_nat k -> cells_wf c m ->
  mem_read c (mem_run c m ws) nbits a = flat_read c (flat_run c (cells m) ws) k a.
Proof.
  intros Hw Hn Hm.
  destruct (read_spec_proof c (mem_run c m ws) k nbits a Hw Hn) as [-> _].
  - apply mem_run_wf; [lia | exact Hm].
  - apply flat_read_ext. intros x. apply flat_refines_proof. lia.
Qed.

Lemma cells_nil x : cells [] x = 0.
Proof. reflexivity. Qed.
Lemma cells_wf_nil c : 0 <= cw c -> cells_wf c [].
Proof. intros Hw x. rewrite cells_nil. pose proof (p2pos _ Hw). lia. Qed.

Lemma read_after_writes_empty_proof c ws k nbits a :
  0 < cw c -> nbits = cw c * Z.of_nat k ->
  mem_read c (mem_run c [] ws) nbits a = flat_read c (flat_run c (fun _ => 0) ws) k a.
Proof.
  intros Hw Hn. rewrite (read_after_writes_proof c ws [] k nbits a Hw Hn) by (apply cells_wf_nil; lia).
  apply flat_read_ext. intros x. apply flat_run_ext. intros y. apply cells_nil.
Qed.

(* what the abstract history means: the last request decides, earlier ones show through
   exactly where the last one did not write *)
Lemma flat_run_snoc c f ws w x : flat_run c f (ws ++ [w]) x = flat_step c (flat_run c f ws) w x.
Proof. unfold flat_run. rewrite fold_left_app. reflexivity. Qed.

Lemma flat_step_other c f w x : ~ writes_cell c w x -> flat_step c f w x = f x.
Proof.
  destruct w as [[nbits a] v]. unfold writes_cell, flat_step, flat_write. cbn [fst]. intros H.
  apply upd_cells_other. intros i Hi E. apply H. exists i. split; assumption.
Qed.

Lemma flat_step_hit c f nbits a v i :
  (i < ngood c a (ncells c nbits))%nat ->
  (forall j, (i < j < ngood c a (ncells c nbits))%nat ->
             eff c (a + Z.of_nat i) <> eff c (a + Z.of_nat j)) ->
  flat_step c f (nbits, a, v) (eff c (a + Z.of_nat i)) = digit (cw c) v i.
Proof. intros Hi Hd. unfold flat_step, flat_write. cbn [fst]. apply upd_cells_hit; assumption. Qed.

Lemma never_written_default c ws : forall f x,
  (forall w, In w ws -> ~ writes_cell c w x) -> flat_run c f ws x = f x.
Proof.
  induction ws as [|w ws IH]; intros f x H; cbn [flat_run fold_left]; [reflexivity|].
  fold (flat_run c (flat_step c f w) ws). rewrite IH by (intros w' Hin; apply H; right; exact Hin).
  apply flat_step_other. apply H. left. reflexivity.
Qed.

(* corollary: read_own_write *)
Lemma read_own_write_proof c m k nbits a v :
  0 < cw c -> nbits = cw c * Z.of_nat k -> distinct_eff c a k ->
  snd (mem_write c m nbits a v) = None ->
  mem_read c (fst (mem_write c m nbits a v)) nbits a = Ok (v mod 2 ^ nbits).
Proof.
  intros Hw Hn Hd Hok.
  destruct (write_spec_proof c m k nbits a v Hw Hn) as (H1 & H2 & _).
  unfold flat_write in H1, H2. cbn [fst snd] in H1, H2. rewrite Hok in H2.
  assert (Hfb : first_bad c a k = None) by (destruct (first_bad c a k); [discriminate | reflexivity]).
  rewrite (first_bad_none_ngood _ _ _ Hfb) in H1.
  set (m' := fst (mem_write c m nbits a v)) in *.
  assert (Hcell : forall i, (i < k)%nat -> cells m' (eff c (a + Z.of_nat i)) = digit (cw c) v i).
  { intros i Hi. rewrite H1. apply upd_cells_hit; [exact Hi|].
    intros j Hj. apply Hd. lia. }
  rewrite (mem_read_touched c m' k nbits a Hw Hn).
  - unfold flat_read. rewrite Hfb. f_equal. rewrite Hn.
    apply le_compose_digits; [lia | exact Hcell].
  - intros j Hj. rewrite Hcell by exact Hj. apply digit_range. lia.
Qed.

(* distinctness of the touched effective addresses *)
Lemma distinct_eff_noovf c a k : aovf c = false -> distinct_eff c a k.
Proof. intros Ho i j Hij. unfold eff. rewrite Ho. lia. Qed.

Lemma distinct_eff_ovf c a k : 0 <= alen c -> Z.of_nat k <= 2 ^ alen c -> distinct_eff c a k.
Proof.
  intros Hl Hk i j Hij. unfold eff. destruct (aovf c); [|lia].
  assert (HP : 0 < 2 ^ alen c) by (apply p2pos; assumption).
  set (P := 2 ^ alen c) in *. intros E.
  assert (H0 : (Z.of_nat j - Z.of_nat i) mod P = 0).
  { replace (Z.of_nat j - Z.of_nat i) with ((a + Z.of_nat j) - (a + Z.of_nat i)) by lia.
    rewrite Zminus_mod, E, Z.sub_diag. apply Z.mod_0_l. lia. }
  rewrite Z.mod_small in H0 by lia. lia.
Qed.

(** * 6. wrap-around / no wrap-around *)
Lemma eff_wrap c a j : aovf c = true -> eff c (a + 2 ^ alen c * j) = eff c a.
Proof.
  intros Ho. unfold eff. rewrite Ho.
  destruct (Z.eq_dec (2 ^ alen c) 0) as [E|E].
  - rewrite E, Z.mul_0_l, Z.add_0_r. reflexivity.
  - rewrite (Z.mul_comm _ j). apply Z.mod_add. exact E.
Qed.

Lemma read_cell_wrap c m a j i : aovf c = true ->
  read_cell c m (a + 2 ^ alen c * j + i) = read_cell c m (a + i).
Proof.
  intros Ho. rewrite !read_cell_eq.
  replace (a + 2 ^ alen c * j + i) with (a + i + 2 ^ alen c * j) by ring.
  rewrite eff_wrap by assumption. reflexivity.
Qed.

Lemma write_cell_wrap c m a j i v : aovf c = true ->
  write_cell c m (a + 2 ^ alen c * j + i) v = write_cell c m (a + i) v.
Proof.
  intros Ho. rewrite !write_cell_eq.
  replace (a + 2 ^ alen c * j + i) with (a + i + 2 ^ alen c * j) by ring.
  rewrite eff_wrap by assumption. reflexivity.
Qed.

Lemma read_mult_wrap c m a j : aovf c = true -> forall k i acc,
  read_mult c m (a + 2 ^ alen c * j) k i acc = read_mult c m a k i acc.
Proof.
  intros Ho. induction k as [|k IH]; intros i acc; cbn [read_mult]; [reflexivity|].
  rewrite read_cell_wrap by assumption. destruct (read_cell c m (a + i)); [apply IH | reflexivity].
Qed.

Lemma write_mult_wrap c a j : aovf c = true -> forall k m i v,
  write_mult c m (a + 2 ^ alen c * j) k i v = write_mult c m a k i v.
Proof.
  intros Ho. induction k as [|k IH]; intros m i v; cbn [write_mult]; [reflexivity|].
  rewrite write_cell_wrap by assumption.
  destruct (write_cell c m (a + i) _); [apply IH | reflexivity].
Qed.

Lemma wraps_proof c m nbits a j v : aovf c = true ->
  mem_read c m nbits (a + 2 ^ alen c * j) = mem_read c m nbits a /\
  mem_write c m nbits (a + 2 ^ alen c * j) v = mem_write c m nbits a v.
Proof.
  intros Ho. unfold mem_read, mem_write.
  rewrite read_mult_wrap, write_mult_wrap by assumption. split; reflexivity.
Qed.

Lemma eff_mod_proof c a : aovf c = true -> 0 <= alen c -> 0 <= eff c a < 2 ^ alen c.
Proof. intros Ho Hl. unfold eff. rewrite Ho. apply Z.mod_pos_bound. apply p2pos. exact Hl. Qed.

(** * RISC-V instance: byte cells, 32-bit addresses, wrap-around, range [2^14, 2^32) *)
Lemma rv_cw_pos : 0 < cw rv_memcfg. Proof. reflexivity. Qed.

Lemma rv_width_k nbits : rv_width nbits -> nbits = cw rv_memcfg * Z.of_nat (rv_k nbits).
Proof. intros [-> | [-> | [-> | ->]]]; reflexivity. Qed.

Lemma rv_k_le nbits : rv_width nbits -> (rv_k nbits <= 8)%nat.
Proof. intros [-> | [-> | [-> | ->]]]; cbv; lia. Qed.

Lemma rv_eff a : eff rv_memcfg a = a mod 4294967296.
Proof. reflexivity. Qed.
Lemma rv_valid x : valid rv_memcfg x <-> 16384 <= x < 4294967296.
Proof. reflexivity. Qed.

Lemma rv_cells_wf_proof m nbits a v :
  cells_wf rv_memcfg m -> cells_wf rv_memcfg (fst (mem_write rv_memcfg m nbits a v)).
Proof. apply cells_wf_write_proof. cbv; discriminate. Qed.

Lemma rv_read_spec_proof m nbits a : rv_width nbits -> cells_wf rv_memcfg m ->
  mem_read rv_memcfg m nbits a = flat_read rv_memcfg (cells m) (rv_k nbits) a /\
  (forall v, mem_read rv_memcfg m nbits a = Ok v -> 0 <= v < 2 ^ nbits).
Proof. intros Hn. apply read_spec_proof; [exact rv_cw_pos | apply rv_width_k; exact Hn]. Qed.

Lemma rv_write_spec_proof m nbits a v : rv_width nbits ->
  (forall x, cells (fst (mem_write rv_memcfg m nbits a v)) x =
             fst (flat_write rv_memcfg (cells m) (rv_k nbits) a v) x) /\
  snd (mem_write rv_memcfg m nbits a v) = snd (flat_write rv_memcfg (cells m) (rv_k nbits) a v) /\
  mem_write rv_memcfg m nbits a (v mod 2 ^ nbits) = mem_write rv_memcfg m nbits a v.
Proof. intros Hn. apply write_spec_proof; [exact rv_cw_pos | apply rv_width_k; exact Hn]. Qed.

Lemma rv_outside_unchanged_proof m nbits a v : rv_width nbits ->
  ~ (16384 <= a mod 4294967296 < 4294967296) ->
  mem_write rv_memcfg m nbits a v = (m, Some (EAddr (a mod 4294967296) 16384 4294967295 false)).
Proof.
  intros Hn Hbad.
  destruct (outside_unchanged_proof rv_memcfg m nbits a v) as [_ H]; [exact Hbad|].
  apply H. destruct Hn as [-> | [-> | [-> | ->]]]; cbv; lia.
Qed.

Lemma rv_read_after_writes_proof ws m nbits a : rv_width nbits -> cells_wf rv_memcfg m ->
  mem_read rv_memcfg (mem_run rv_memcfg m ws) nbits a =
  flat_read rv_memcfg (flat_run rv_memcfg (cells m) ws) (rv_k nbits) a.
Proof. intros Hn. apply read_after_writes_proof; [exact rv_cw_pos | apply rv_width_k; exact Hn]. Qed.

Lemma rv_distinct a k : (k <= 8)%nat -> distinct_eff rv_memcfg a k.
Proof.
  intros Hk. apply distinct_eff_ovf; [cbv; discriminate|].
  change (2 ^ alen rv_memcfg) with 4294967296. lia.
Qed.

Lemma rv_read_own_write_proof m nbits a v : rv_width nbits ->
  snd (mem_write rv_memcfg m nbits a v) = None ->
  mem_read rv_memcfg (fst (mem_write rv_memcfg m nbits a v)) nbits a = Ok (v mod 2 ^ nbits).
Proof.
  intros Hn. apply (read_own_write_proof rv_memcfg m (rv_k nbits));
    [exact rv_cw_pos | apply rv_width_k; exact Hn | apply rv_distinct, rv_k_le; exact Hn].
Qed.

Lemma rv_wraps_proof m nbits a j v :
  mem_read rv_memcfg m nbits (a + 4294967296 * j) = mem_read rv_memcfg m nbits a /\
  mem_write rv_memcfg m nbits (a + 4294967296 * j) v = mem_write rv_memcfg m nbits a v.
Proof. apply (wraps_proof rv_memcfg m nbits a j v). reflexivity. Qed.

(* any access touching an effective address below the first data address is an error *)
Lemma rv_below_first_errors_proof m nbits a v i : rv_width nbits -> cells_wf rv_memcfg m ->
  (i < rv_k nbits)%nat -> (a + Z.of_nat i) mod 4294967296 < 16384 ->
  exists b, ~ (16384 <= b < 4294967296) /\
            mem_read rv_memcfg m nbits a = Err (EAddr b 16384 4294967295 false) /\
            snd (mem_write rv_memcfg m nbits a v) = Some (EAddr b 16384 4294967295 false).
Proof.
  intros Hn Hm Hi Hlow.
  destruct (touch_invalid_errors_proof rv_memcfg m (rv_k nbits) nbits a v i)
    as (b & Hb & _ & Hr & Hwr);
    [exact rv_cw_pos | apply rv_width_k; exact Hn | exact Hm | exact Hi | | ].
  - rewrite rv_eff, rv_valid. lia.
  - exists b. rewrite rv_valid in Hb. auto.
Qed.

(** * TOY instance: 16-bit cells, addresses [0, size), no wrap-around *)
Lemma toy_cw_pos size : 0 < cw (toy_memcfg size). Proof. reflexivity. Qed.
Lemma toy_eff size a : eff (toy_memcfg size) a = a.
Proof. reflexivity. Qed.
Lemma toy_valid size x : valid (toy_memcfg size) x <-> 0 <= x < size.
Proof. reflexivity. Qed.
Lemma toy_16 size : 16 = cw (toy_memcfg size) * Z.of_nat 1.
Proof. reflexivity. Qed.

Lemma toy_cells_wf_proof size m nbits a v :
  cells_wf (toy_memcfg size) m -> cells_wf (toy_memcfg size) (fst (mem_write (toy_memcfg size) m nbits a v)).
Proof. apply cells_wf_write_proof. cbv; discriminate. Qed.

Lemma toy_read_spec_proof size m k nbits a : nbits = 16 * Z.of_nat k -> cells_wf (toy_memcfg size) m ->
  mem_read (toy_memcfg size) m nbits a = flat_read (toy_memcfg size) (cells m) k a /\
  (forall v, mem_read (toy_memcfg size) m nbits a = Ok v -> 0 <= v < 2 ^ nbits).
Proof. intros Hn. apply read_spec_proof; [apply toy_cw_pos | exact Hn]. Qed.

Lemma toy_write_spec_proof size m k nbits a v : nbits = 16 * Z.of_nat k ->
  (forall x, cells (fst (mem_write (toy_memcfg size) m nbits a v)) x =
             fst (flat_write (toy_memcfg size) (cells m) k a v) x) /\
  snd (mem_write (toy_memcfg size) m nbits a v) = snd (flat_write (toy_memcfg size) (cells m) k a v) /\
  mem_write (toy_memcfg size) m nbits a (v mod 2 ^ nbits) = mem_write (toy_memcfg size) m nbits a v.
Proof. intros Hn. apply write_spec_proof; [apply toy_cw_pos | exact Hn]. Qed.

(* the word accesses the TOY machine performs: one 16-bit cell *)
Lemma toy_word_proof size m a v : cells_wf (toy_memcfg size) m ->
  (0 <= a < size ->
     mem_read (toy_memcfg size) m 16 a = Ok (cells m a) /\
     snd (mem_write (toy_memcfg size) m 16 a v) = None /\
     forall x, cells (fst (mem_write (toy_memcfg size) m 16 a v)) x =
               if x =? a then v mod 65536 else cells m x) /\
  (~ (0 <= a < size) ->
     mem_read (toy_memcfg size) m 16 a = Err (EAddr a 0 (size - 1) false) /\
     mem_write (toy_memcfg size) m 16 a v = (m, Some (EAddr a 0 (size - 1) false))).
Proof.
  intros Hm. split.
  - intros Ha.
    assert (Hall : forall i, (i < 1)%nat -> valid (toy_memcfg size) (eff (toy_memcfg size) (a + Z.of_nat i))).
    { intros i Hi. rewrite toy_eff, toy_valid. lia. }
    split; [|split].
    + rewrite (read_ok_proof (toy_memcfg size) m 1 16 a (toy_cw_pos size) (toy_16 size) Hm Hall).
      f_equal. cbn [le_compose]. rewrite toy_eff, pow_0. change (Z.of_nat 0) with 0.
      rewrite Z.add_0_r. ring.
    + apply (write_ok_proof (toy_memcfg size) m 1 16 a v (toy_cw_pos size) (toy_16 size) Hall).
    + intros x.
      rewrite (proj2 (write_ok_proof (toy_memcfg size) m 1 16 a v (toy_cw_pos size) (toy_16 size) Hall)).
      cbn [upd_cells]. rewrite toy_eff, digit_0. change (Z.of_nat 0) with 0. rewrite Z.add_0_r.
      reflexivity.
  - intros Hbad. split.
    + rewrite (read_err_proof (toy_memcfg size) m 1 16 a O (toy_cw_pos size) (toy_16 size) Hm).
      * rewrite toy_eff. change (Z.of_nat 0) with 0. rewrite Z.add_0_r. reflexivity.
      * lia.
      * rewrite toy_eff, toy_valid. change (Z.of_nat 0) with 0. rewrite Z.add_0_r. exact Hbad.
      * intros j Hj. lia.
    + destruct (outside_unchanged_proof (toy_memcfg size) m 16 a v) as [_ H].
      * rewrite toy_eff, toy_valid. exact Hbad.
      * rewrite toy_eff in H. apply H. cbv. lia.
Qed.

(* no modulo: an address beyond the range is an error even if it is congruent to a valid one *)
Lemma toy_no_wrap_proof size m k nbits a v : nbits = 16 * Z.of_nat k -> (0 < k)%nat ->
  ~ (0 <= a < size) ->
  mem_read (toy_memcfg size) m nbits a = Err (EAddr a 0 (size - 1) false) /\
  mem_write (toy_memcfg size) m nbits a v = (m, Some (EAddr a 0 (size - 1) false)).
Proof.
  intros Hn Hk Hbad.
  assert (Hnc : ncells (toy_memcfg size) nbits = k).
  { rewrite Hn. apply (ncells_mul (toy_memcfg size) k). apply toy_cw_pos. }
  split.
  - unfold mem_read. rewrite Hnc. destruct k as [|k]; [lia|]. cbn [read_mult].
    rewrite read_cell_eq, toy_eff, Z.add_0_r.
    destruct (validb (toy_memcfg size) a) eqn:Hv; [|reflexivity].
    apply validb_valid in Hv. rewrite toy_valid in Hv. contradiction.
  - destruct (outside_unchanged_proof (toy_memcfg size) m nbits a v) as [_ H].
    + rewrite toy_eff, toy_valid. exact Hbad.
    + rewrite toy_eff in H. apply H. rewrite Hnc. exact Hk.
Qed.

Lemma toy_read_after_writes_proof size ws m k nbits a :
  nbits = 16 * Z.of_nat k -> cells_wf (toy_memcfg size) m ->
  mem_read (toy_memcfg size) (mem_run (toy_memcfg size) m ws) nbits a =
  flat_read (toy_memcfg size) (flat_run (toy_memcfg size) (cells m) ws) k a.
Proof. intros Hn. apply read_after_writes_proof; [apply toy_cw_pos | exact Hn]. Qed.

Lemma toy_read_own_write_proof size m k nbits a v : nbits = 16 * Z.of_nat k ->
  snd (mem_write (toy_memcfg size) m nbits a v) = None ->
  mem_read (toy_memcfg size) (fst (mem_write (toy_memcfg size) m nbits a v)) nbits a = Ok (v mod 2 ^ nbits).
Proof.
  intros Hn. apply (read_own_write_proof (toy_memcfg size) m k);
    [apply toy_cw_pos | exact Hn | apply distinct_eff_noovf; reflexivity].
Qed.

(** * Well-formed configurations: valid addresses are their own effective addresses *)
Lemma rv_cfg_wf : cfg_wf rv_memcfg.
Proof. unfold cfg_wf. cbn. repeat split; try lia; intros; reflexivity || discriminate. Qed.
Lemma toy_cfg_wf size : cfg_wf (toy_memcfg size).
Proof. unfold cfg_wf. cbn. repeat split; try lia; intros; discriminate. Qed.

Lemma eff_valid_id_proof c x : cfg_wf c -> valid c x -> eff c x = x.
Proof.
  intros (_ & Hl & Hlo & Hhi) [H1 H2]. unfold eff. destruct (aovf c); [|reflexivity].
  apply Z.mod_small. specialize (Hhi eq_refl). lia.
Qed.

(* an access whose raw addresses a .. a+k-1 are all valid reads the cells at exactly those *)
Lemma read_raw_proof c m k nbits a :
  cfg_wf c -> nbits = cw c * Z.of_nat k -> cells_wf c m ->
  (forall i, (i < k)%nat -> valid c (a + Z.of_nat i)) ->
  mem_read c m nbits a = Ok (le_compose (cells m) (cw c) a k).
Proof.
  intros Hc Hn Hm Hall. pose proof Hc as (Hw & _).
  rewrite (read_ok_proof c m k nbits a Hw Hn Hm).
  - f_equal. apply le_compose_ext. intros i Hi. rewrite eff_valid_id_proof; auto.
  - intros i Hi. rewrite eff_valid_id_proof; auto.
Qed.

Lemma toy_range_proof size x : size <= 4096 -> valid (toy_memcfg size) x ->
  0 <= x < 2 ^ alen (toy_memcfg size).
Proof. intros Hs [H1 H2]. change (2 ^ alen (toy_memcfg size)) with 4096. cbn in H1, H2. lia. Qed.
