(* Proofs/LiftSim.v — the abstraction [flatten] of a machine state to flat memory without
   instruction cache, the simulation relation [sim], and the simulation of the three ways the
   processors touch the memory systems: [st_read], [st_write], [fetch]. *)
From Coq Require Import Lia ZifyBool.
From ArchSim Require Import Spec.RefCache.
From ArchSim Require Import Model.Base Model.Mem Model.Cache Model.Fmt Model.RV Model.Single
  Proofs.WordLemmas Proofs.MapLemmas Proofs.CacheArith Proofs.CacheInv Proofs.C03Proofs
  Proofs.C11Proofs Proofs.C01Mem Proofs.C01Step Proofs.LiftFlat Proofs.LiftAccess.
Open Scope Z_scope.
Local Arguments Z.mul : simpl never.
Local Arguments Z.add : simpl never.
Local Arguments Z.sub : simpl never.
Local Arguments Z.pow : simpl never.
Local Arguments Z.div : simpl never.
Local Arguments Z.modulo : simpl never.
Local Arguments Z.of_nat : simpl never.
Local Arguments Z.to_nat : simpl never.

(** * Memory systems *)
Definition ms_logical (m : memsys) (a : Z) : Z :=
  match m with MFlat f => mget f a | MCache d => logical d a end.
Definition ms_ok (m : memsys) : Prop :=
  match m with MFlat f => bytes_ok f | MCache d => CInv d end.
Definition ms_flat (m : memsys) : zmap :=
  match m with MFlat f => f | MCache d => flat_of d end.
Definition mcfg := option (ccfg * bool).
Definition ms_cfg (m : memsys) : mcfg :=
  match m with MFlat _ => None | MCache d => Some (cfg (dc d), wthrough d) end.

(* t holds the logical contents of m in a flat byte memory *)
Definition msim (m mt : memsys) : Prop :=
  ms_ok m /\ exists f, mt = MFlat f /\ bytes_ok f /\ forall a, in32b a -> mget f a = ms_logical m a.

Lemma ms_flat_logical m a : ms_ok m -> in32b a -> mget (ms_flat m) a = ms_logical m a.
Proof. destruct m as [f|d]; cbn [ms_ok ms_flat ms_logical]; intros H Ha; [reflexivity | apply flat_of_get; assumption]. Qed.

Lemma ms_flat_bytes m : ms_ok m -> bytes_ok (ms_flat m).
Proof. destruct m as [f|d]; cbn [ms_ok ms_flat]; intros H; [exact H | apply flat_of_bytes; exact H]. Qed.

Lemma msim_flat m : ms_ok m -> msim m (MFlat (ms_flat m)).
Proof.
  intros H. split; [exact H|]. exists (ms_flat m). split; [reflexivity|]. split; [apply ms_flat_bytes; exact H|].
  intros a Ha. apply ms_flat_logical; assumption.
Qed.

(** * The abstraction *)
Definition flatten (s : st) : st :=
  {| pc := pc s; regs := regs s; ms := MFlat (ms_flat (ms s));
     im := {| prog := prog (im s); icc := None |};
     out := out s; exitc := exitc s; icount := icount s; bcount := bcount s; pcount := pcount s;
     cycles := cycles s; stalls := stalls s; flushes := flushes s |}.

(* the observable architectural state: everything but cycles and the cache directories/counters *)
Definition same_arch (s t : st) : Prop :=
  pc s = pc t /\ regs s = regs t /\ out s = out t /\ exitc s = exitc t /\
  icount s = icount t /\ bcount s = bcount t /\ pcount s = pcount t /\
  forall a, 0 <= a < 4294967296 -> ms_logical (ms s) a = ms_logical (ms t) a.

(* invariants of the (cached) machine state the lifting needs *)
Definition cache_ok (s : st) : Prop :=
  ms_ok (ms s) /\ IInv (im s) /\ Z.of_nat (length (prog (im s))) <= 1073741824.

Record sim (s t : st) : Prop := mkSim {
  sm_pc : pc s = pc t;
  sm_regs : regs s = regs t;
  sm_out : out s = out t;
  sm_exit : exitc s = exitc t;
  sm_ic : icount s = icount t;
  sm_bc : bcount s = bcount t;
  sm_pcn : pcount s = pcount t;
  sm_stalls : stalls s = stalls t;
  sm_flushes : flushes s = flushes t;
  sm_prog : prog (im s) = prog (im t);
  sm_noic : icc (im t) = None;
  sm_iinv : IInv (im s);
  sm_len : Z.of_nat (length (prog (im s))) <= 1073741824;
  sm_mem : msim (ms s) (ms t) }.

Lemma sim_flatten s : cache_ok s -> sim s (flatten s).
Proof.
  intros (Hm & Hi & Hl). constructor; cbn [flatten pc regs ms im out exitc icount bcount pcount stalls flushes prog icc];
    try reflexivity; try assumption. apply msim_flat. exact Hm.
Qed.

Lemma sim_same_arch s t : sim s t -> same_arch s t.
Proof.
  intros H. destruct H. repeat (split; [assumption|]).
  intros a Ha. destruct sm_mem0 as (_ & f & -> & _ & Hf). cbn [ms_logical]. symmetry. apply Hf. exact Ha.
Qed.

Lemma sim_cache_ok s t : sim s t -> cache_ok s.
Proof. intros H. destruct H. destruct sm_mem0 as [Hok _]. repeat split; assumption. Qed.

(** * Congruences: equal updates on both sides, cycle updates on either side *)
Ltac sim_crush :=
  match goal with
  | H : sim _ _ |- sim _ _ =>
      destruct H; constructor;
      cbn [pc regs ms im out exitc icount bcount pcount cycles stalls flushes
           with_pc with_regs with_ms with_im with_out with_exit with_icount with_bcount
           with_pcount with_cycles with_stalls with_flushes];
      try assumption; try congruence
  end.

Lemma sim_with_pc s t v : sim s t -> sim (with_pc s v) (with_pc t v).
Proof. intros H. sim_crush. Qed.
Lemma sim_with_pc2 s t v w : sim s t -> v = w -> sim (with_pc s v) (with_pc t w).
Proof. intros H ->. sim_crush. Qed.
Lemma sim_with_regs s t v : sim s t -> sim (with_regs s v) (with_regs t v).
Proof. intros H. sim_crush. Qed.
Lemma sim_with_out s t v w : sim s t -> v = w -> sim (with_out s v) (with_out t w).
Proof. intros H ->. sim_crush. Qed.
Lemma sim_with_exit s t v : sim s t -> sim (with_exit s v) (with_exit t v).
Proof. intros H. sim_crush. Qed.
Lemma sim_with_icount s t v w : sim s t -> v = w -> sim (with_icount s v) (with_icount t w).
Proof. intros H ->. sim_crush. Qed.
Lemma sim_with_bcount s t v w : sim s t -> v = w -> sim (with_bcount s v) (with_bcount t w).
Proof. intros H ->. sim_crush. Qed.
Lemma sim_with_pcount s t v w : sim s t -> v = w -> sim (with_pcount s v) (with_pcount t w).
Proof. intros H ->. sim_crush. Qed.
Lemma sim_with_stalls s t v w : sim s t -> v = w -> sim (with_stalls s v) (with_stalls t w).
Proof. intros H ->. sim_crush. Qed.
Lemma sim_with_flushes s t v w : sim s t -> v = w -> sim (with_flushes s v) (with_flushes t w).
Proof. intros H ->. sim_crush. Qed.
Lemma sim_cycles_l s t v : sim s t -> sim (with_cycles s v) t.
Proof. intros H. sim_crush. Qed.
Lemma sim_cycles_r s t v : sim s t -> sim s (with_cycles t v).
Proof. intros H. sim_crush. Qed.
Lemma sim_with_ms s t m mt : sim s t -> msim m mt -> sim (with_ms s m) (with_ms t mt).
Proof. intros H Hm. sim_crush. Qed.
Lemma sim_with_ms_l s t m : sim s t -> msim m (ms t) -> sim (with_ms s m) t.
Proof. intros H Hm. sim_crush. Qed.

Lemma sim_rget s t r : sim s t -> rget s r = rget t r.
Proof. intros H. unfold rget. rewrite (sm_regs _ _ H). reflexivity. Qed.

Lemma sim_rset s t r v w : sim s t -> v = w -> sim (rset s r v) (rset t r w).
Proof.
  intros H ->. unfold rset. destruct ((0 <? r) && (r <? 32)); [|exact H].
  rewrite (sm_regs _ _ H). apply sim_with_regs. exact H.
Qed.

(** * Error translation: the flat error, as the cache reports it (in-word accesses) *)
Definition emap (g : mcfg) (store : bool) (e : err) : err :=
  match g, e with
  | Some (c, wt), EAddr x lo hi false => if store && wt then e else EAddr (balign_of c x) lo hi false
  | _, _ => e
  end.
Definition rmap (g : mcfg) (r : res Z) : res Z :=
  match r with Ok v => Ok v | Err e => Err (emap g false e) end.

Lemma emap_none st e : emap None st e = e.
Proof. reflexivity. Qed.
Lemma rmap_none r : rmap None r = r.
Proof. destruct r; reflexivity. Qed.

(** * Unfolding st_read / st_write on a cached state *)
Lemma st_read_cached s d nbits a c r d' p : ms s = MCache d -> dc_read d nbits a c = (r, d', p) ->
  st_read s nbits a c = (r, with_cycles (with_ms s (MCache d')) (cycles s + p)).
Proof. intros Hm H. unfold st_read, ms_read. rewrite Hm, H. reflexivity. Qed.

Lemma st_write_cached s d nbits a v r d' p : ms s = MCache d -> dc_write d nbits a v false = (r, d', p) ->
  st_write s nbits a v false = (r, with_cycles (with_ms s (MCache d')) (cycles s + p)).
Proof. intros Hm H. unfold st_write, ms_write. rewrite Hm, H. reflexivity. Qed.

(** * Reads *)
Lemma sim_st_read s t nbits a c r s' : sim s t -> okw nbits -> st_read s nbits a c = (r, s') ->
  exists r', st_read t nbits a c = (r', t) /\ sim s' t /\ ms_cfg (ms s') = ms_cfg (ms s) /\
    (xw nbits a = false -> r = rmap (ms_cfg (ms s)) r') /\
    (xw nbits a = true ->
       match ms_cfg (ms s) with
       | None => r = r'
       | Some (g, wt) => exists e, cerr g wt false nbits a = Some e /\ r = Err e
       end).
Proof.
  intros S Hw H. pose proof (sm_mem _ _ S) as (Hok & f & Hmt & Hfb & Hf).
  rewrite (st_read_flat t f nbits a c Hmt). eexists. split; [reflexivity|].
  destruct (ms s) as [m|d] eqn:Hms.
  - (* flat on both sides *)
    rewrite (st_read_flat s m nbits a c Hms) in H. injection H as <- <-.
    assert (Hx : mext m f) by (intros x Hx; symmetry; apply Hf; exact Hx).
    rewrite (mem_read_ext m f nbits a Hx). rewrite ?Hms. cbn [ms_cfg]. rewrite rmap_none.
    split; [exact S|]. split; [reflexivity|]. split; intros _; reflexivity.
  - cbn [ms_ok ms_logical] in Hok, Hf.
    destruct (dc_read d nbits a c) as [[r0 d'] p] eqn:Hr.
    rewrite (st_read_cached s d nbits a c r0 d' p Hms Hr) in H. injection H as <- <-.
    assert (HF : Flat f d) by (intros x Hx; apply Hf; exact Hx).
    destruct (dc_read_exact d f nbits a c r0 d' p Hok HF Hw Hr) as (HC' & HF' & Hwt & Hcfg & Hres & Hlow).
    split.
    { apply sim_cycles_l. apply sim_with_ms_l; [exact S|]. split; [exact HC'|].
      exists f. split; [exact Hmt|]. split; [exact Hfb|]. intros x Hx. apply HF'. exact Hx. }
    split; [cbn [with_cycles with_ms ms ms_cfg]; rewrite Hwt, Hcfg; reflexivity|].
    cbn [ms_cfg]. unfold cerr in Hres. rewrite andb_false_l in Hres. split.
    + intros Hx. rewrite Hx in Hres. destruct (a mod 4294967296 <? 16384) eqn:Elo.
      * rewrite (Hlow Hx ltac:(lia)). rewrite Hres. cbn [rmap andb]. unfold CacheArith.aerr. cbn [emap andb].
        rewrite balign_of_mod. reflexivity.
      * destruct Hres as [-> [v Hv]]. rewrite Hv. reflexivity.
    + intros Hx. rewrite Hx in Hres. unfold cerr. rewrite andb_false_l, Hx.
      destruct (a mod 4294967296 <? 16384); eexists; (split; [reflexivity | exact Hres]).
Qed.

(** * Writes *)
Lemma sim_st_write s t nbits a v e s' : sim s t -> okw nbits -> 0 <= v < 2 ^ nbits ->
  st_write s nbits a v false = (e, s') ->
  exists e' t', st_write t nbits a v false = (e', t') /\ ms_cfg (ms s') = ms_cfg (ms s) /\
    (xw nbits a = false -> e = option_map (emap (ms_cfg (ms s)) true) e' /\ sim s' t') /\
    (xw nbits a = true ->
       match ms_cfg (ms s) with
       | None => e = e' /\ sim s' t'
       | Some (g, wt) => exists e0, cerr g wt true nbits a = Some e0 /\ e = Some e0 /\ sim s' t
       end).
Proof.
  intros S Hw Hv H. pose proof (sm_mem _ _ S) as (Hok & f & Hmt & Hfb & Hf).
  rewrite (st_write_flat t f nbits a v false Hmt). eexists. eexists. split; [reflexivity|].
  destruct (ms s) as [m|d] eqn:Hms.
  - rewrite (st_write_flat s m nbits a v false Hms) in H. injection H as <- <-.
    assert (Hx : mext m f) by (intros x Hx; symmetry; apply Hf; exact Hx).
    destruct (mem_write_ext m f nbits a v Hx) as [He Hm']. cbn [ms_ok] in Hok.
    assert (S' : sim (with_ms s (MFlat (fst (mem_write rv_memcfg m nbits a v))))
                     (with_ms t (MFlat (fst (mem_write rv_memcfg f nbits a v))))).
    { apply sim_with_ms; [exact S|]. split; [cbn [ms_ok]; apply mem_write_bytes; exact Hok|].
      eexists. split; [reflexivity|]. split; [apply mem_write_bytes; exact Hfb|].
      intros x Hx'. cbn [ms_logical]. symmetry. apply Hm'. exact Hx'. }
    cbn [ms_cfg with_ms ms]. split; [reflexivity|]. rewrite He. split; intros _.
    + split; [|exact S']. destruct (snd (mem_write rv_memcfg f nbits a v)); reflexivity.
    + split; [reflexivity | exact S'].
  - cbn [ms_ok ms_logical] in Hok, Hf.
    destruct (dc_write d nbits a v false) as [[e0 d'] p] eqn:Hr.
    rewrite (st_write_cached s d nbits a v e0 d' p Hms Hr) in H. injection H as <- <-.
    assert (HF : Flat f d) by (intros x Hx; apply Hf; exact Hx).
    destruct (dc_write_exact d f nbits a v e0 d' p Hok HF Hw Hv Hr) as (HC' & Hwt & Hcfg & He & Hres & Hlow).
    split; [cbn [with_cycles with_ms ms ms_cfg]; rewrite Hwt, Hcfg; reflexivity|].
    cbn [ms_cfg].
    assert (Skeep : Flat f d' -> sim (with_cycles (with_ms s (MCache d')) (cycles s + p)) t).
    { intros HF'. apply sim_cycles_l. apply sim_with_ms_l; [exact S|]. split; [exact HC'|].
      exists f. split; [exact Hmt|]. split; [exact Hfb|]. intros x Hx. apply HF'. exact Hx. }
    split.
    + intros Hx. unfold cerr in He. rewrite Hx in He.
      destruct (a mod 4294967296 <? 16384) eqn:Elo.
      * rewrite (Hlow Hx ltac:(lia)). cbn [snd fst option_map]. unfold CacheArith.aerr. cbn [emap].
        assert (E : e0 = Some (if wthrough d then EAddr (a mod 4294967296) 16384 4294967295 false
                               else EAddr (balign_of (cfg (dc d)) (a mod 4294967296)) 16384 4294967295 false)).
        { rewrite He. destruct (wthrough d); cbn [andb]; unfold CacheArith.aerr; [reflexivity|].
          rewrite balign_of_mod. reflexivity. }
        split; [rewrite E; cbn [andb]; destruct (wthrough d); reflexivity|].
        rewrite E in Hres. apply sim_cycles_l.
        assert (Ht : with_ms t (MFlat f) = t) by (rewrite <- Hmt; destruct t; reflexivity).
        rewrite Ht. apply sim_with_ms_l; [exact S|]. split; [exact HC'|].
        exists f. split; [exact Hmt|]. split; [exact Hfb|]. intros x Hx'. apply Hres. exact Hx'.
      * assert (E : e0 = None) by (rewrite He; destruct (true && wthrough d); reflexivity).
        rewrite E in Hres. destruct Hres as [Hn HF']. rewrite E, Hn. split; [reflexivity|].
        apply sim_cycles_l. apply sim_with_ms; [exact S|]. split; [exact HC'|].
        eexists. split; [reflexivity|]. split; [apply mem_write_bytes; exact Hfb|].
        intros x Hx'. apply HF'. exact Hx'.
    + intros Hx.
      assert (Ee : exists e1, e0 = Some e1).
      { rewrite He. unfold cerr. rewrite Hx.
        destruct (true && wthrough d); [eexists; reflexivity|].
        destruct (a mod 4294967296 <? 16384); eexists; reflexivity. }
      destruct Ee as [e1 ->]. exists e1. split; [symmetry; exact He|]. split; [reflexivity|].
      apply Skeep. exact Hres.
Qed.

(** * Instruction fetch *)
Lemma has_instr_range im a : has_instr im a = true ->
  0 <= a /\ a mod 4 = 0 /\ a / 4 < Z.of_nat (length (prog im)).
Proof.
  unfold has_instr, instr_at. destruct ((0 <=? a) && (a mod 4 =? 0) && (a / 4 <? Z.of_nat (length (prog im)))) eqn:E;
    [intros _; lia | discriminate].
Qed.

Lemma sim_has_instr s t : sim s t -> has_instr (im s) (pc s) = has_instr (im t) (pc t).
Proof. intros S. unfold has_instr. rewrite (sm_prog _ _ S), (sm_pc _ _ S). reflexivity. Qed.

Lemma sim_with_im_l s t im1 : sim s t -> prog im1 = prog (im s) -> IInv im1 -> sim (with_im s im1) t.
Proof. intros H Hp Hi. sim_crush; rewrite Hp; assumption. Qed.
Lemma sim_with_im_r s t : sim s t -> sim s (with_im t (im t)).
Proof. intros H. sim_crush. Qed.

Lemma sim_fetch s t a oi s1 : sim s t -> has_instr (im s) a = true -> fetch s a = (oi, s1) ->
  exists t1, fetch t a = (oi, t1) /\ sim s1 t1 /\ oi = instr_at (prog (im s)) a /\ ms s1 = ms s /\
             regs s1 = regs s /\ pc s1 = pc s.
Proof.
  intros S Hh H. unfold fetch in *. rewrite (im_read_none (im t) a (sm_noic _ _ S)).
  destruct (has_instr_range _ _ Hh) as (H0 & H4 & Hl). pose proof (sm_len _ _ S) as Hlen.
  assert (Ha : 0 <= a < 2 ^ 32) by (change (2 ^ 32) with 4294967296; lia).
  pose proof (ifetch_transparent_proof (im s) a (sm_iinv _ _ S) H4 Ha) as Hfetch.
  pose proof (iinv_step_proof (im s) a (sm_iinv _ _ S)) as Hinv.
  pose proof (prog_im_read (im s) a) as Hprog.
  destruct (im_read (im s) a) as [[oi0 im'] p]. cbn [fst snd] in *. injection H as <- <-.
  eexists. split; [rewrite Hfetch, (sm_prog _ _ S); reflexivity|].
  split; [|split; [exact Hfetch | repeat split]].
  apply sim_cycles_l, sim_cycles_r, sim_with_im_r, sim_with_im_l; assumption.
Qed.

(* one-sided version: the flat side does not move *)
Lemma sim_fetch_l s t a oi s1 : sim s t -> has_instr (im s) a = true -> fetch s a = (oi, s1) ->
  sim s1 t /\ oi = instr_at (prog (im s)) a /\ ms s1 = ms s /\ regs s1 = regs s /\ pc s1 = pc s.
Proof.
  intros S Hh H. unfold fetch in *.
  destruct (has_instr_range _ _ Hh) as (H0 & H4 & Hl). pose proof (sm_len _ _ S) as Hlen.
  assert (Ha : 0 <= a < 2 ^ 32) by (change (2 ^ 32) with 4294967296; lia).
  pose proof (ifetch_transparent_proof (im s) a (sm_iinv _ _ S) H4 Ha) as Hfetch.
  pose proof (iinv_step_proof (im s) a (sm_iinv _ _ S)) as Hinv.
  pose proof (prog_im_read (im s) a) as Hprog.
  destruct (im_read (im s) a) as [[oi0 im'] p]. cbn [fst snd] in *. injection H as <- <-.
  split; [|split; [exact Hfetch | repeat split]].
  apply sim_cycles_l, sim_with_im_l; assumption.
Qed.

Lemma fetch_flat t a : icc (im t) = None ->
  fetch t a = (instr_at (prog (im t)) a, with_cycles (with_im t (im t)) (cycles t + 0)).
Proof. intros H. unfold fetch. rewrite (im_read_none (im t) a H). reflexivity. Qed.
