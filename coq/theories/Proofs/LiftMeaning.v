(* Proofs/LiftMeaning.v — the vocabulary of the Lift* development spelled out (unfolding lemmas for
   the statement files Props/C03Programs.v, Props/C11Programs.v, Props/C02Caches.v). *)
From Coq Require Import Lia ZifyBool.
From ArchSim Require Import Spec.RefCache.
From ArchSim Require Import Model.Base Model.Mem Model.Cache Model.Fmt Model.RV Model.Single
  Model.RVSplit Model.Pipe
  Proofs.CacheArith Proofs.CacheInv Proofs.C03Proofs Proofs.C11Proofs Proofs.C01Step Proofs.SplitExec
  Proofs.LiftFlat Proofs.LiftAccess Proofs.LiftSim Proofs.LiftEcall Proofs.LiftSingle Proofs.LiftPipe
  Proofs.LiftPipeRun Proofs.LiftICache Proofs.LiftRefine.
Open Scope Z_scope.

Lemma cache_ok_meaning_lem s :
  cache_ok s <->
  match ms s with MFlat f => bytes_ok f | MCache d => CInv d end /\ IInv (im s) /\
  Z.of_nat (length (prog (im s))) <= 1073741824.
Proof. unfold cache_ok, ms_ok. reflexivity. Qed.

Lemma flatten_meaning_lem s :
  flatten s =
  {| pc := pc s; regs := regs s;
     ms := MFlat (match ms s with MFlat f => f | MCache d => flat_of d end);
     im := {| prog := prog (im s); icc := None |};
     out := out s; exitc := exitc s; icount := icount s; bcount := bcount s; pcount := pcount s;
     cycles := cycles s; stalls := stalls s; flushes := flushes s |}.
Proof. reflexivity. Qed.

Lemma same_arch_meaning_lem s t :
  same_arch s t <->
  pc s = pc t /\ regs s = regs t /\ out s = out t /\ exitc s = exitc t /\
  icount s = icount t /\ bcount s = bcount t /\ pcount s = pcount t /\
  forall a, 0 <= a < 4294967296 ->
    match ms s with MFlat f => mget f a | MCache d => logical d a end =
    match ms t with MFlat f => mget f a | MCache d => logical d a end.
Proof. unfold same_arch, ms_logical. reflexivity. Qed.

Lemma fmap_meaning_lem g f :
  fmap g f =
  {| f_addr := f_addr f; f_instr := f_instr f;
     f_err := match g, f_err f with
              | Some (c, wt), EAddr x lo hi false =>
                  if (match f_instr f with IStore _ _ _ _ => true | _ => false end) && wt then f_err f
                  else EAddr (da_balign (decode_addr (ibits c) (bbits c) x)) lo hi false
              | _, _ => f_err f
              end |}.
Proof. reflexivity. Qed.

Lemma single_rejects_meaning_lem s f :
  single_rejects s f <->
  exists i e, instr_at (prog (im s)) (pc s) = Some i /\ rejects (ms_cfg (ms s)) i s = Some e /\
              f = {| f_addr := pc s; f_instr := i; f_err := e |}.
Proof. reflexivity. Qed.

Lemma pflatten_meaning_lem p :
  pflatten p = {| pst := flatten (pst p); lat := lat p; stalled := stalled p; saved := saved p;
                  hazards := hazards p |}.
Proof. reflexivity. Qed.

Lemma same_pipe_meaning_lem p q :
  same_pipe p q <->
  lat p = lat q /\ stalled p = stalled q /\ saved p = saved q /\ hazards p = hazards q /\
  same_arch (pst p) (pst q) /\ stalls (pst p) = stalls (pst q) /\ flushes (pst p) = flushes (pst q).
Proof. reflexivity. Qed.

Lemma pipe_rejects_meaning_lem p f :
  pipe_rejects p f <->
  exists z e, lat_at (regs_for p 3) 2 = Some z /\
    match ms_cfg (ms (pst p)),
          match sl_instr z with
          | ILoad o _ _ _ => match sl_result z with Some a => Some (false, load_bits o, a) | None => None end
          | IStore o _ _ _ => match sl_result z, sl_rd2 z with
                              | Some a, Some _ => Some (true, store_bits o, a) | _, _ => None end
          | _ => None
          end with
    | Some (c, wt), Some (w, nb, a) => if xw nb a then cerr c wt w nb a else None
    | _, _ => None
    end = Some e /\
    f = {| f_addr := sl_addr z; f_instr := sl_instr z; f_err := e |}.
Proof. reflexivity. Qed.

Lemma xw_meaning_lem nb a : xw nb a = true <-> (a mod 4294967296) mod 4 + nb / 8 > 4.
Proof. unfold xw. lia. Qed.

Lemma cerr_meaning_lem c wt w nb a :
  cerr c wt w nb a =
  let x := a mod 4294967296 in
  if w && wt then
    if x mod 4 + nb / 8 >? 4 then Some (EOffset (x mod 4) (4 - nb / 8))
    else if x <? 16384 then Some (EAddr x 16384 4294967295 false) else None
  else
    if x <? 16384 then Some (EAddr (da_balign (decode_addr (ibits c) (bbits c) a)) 16384 4294967295 false)
    else if x mod 4 + nb / 8 >? 4 then Some (EOffset (x mod 4) (4 - nb / 8)) else None.
Proof. reflexivity. Qed.

Lemma flatten_flat_meaning_lem s m : ms s = MFlat m ->
  flatten s =
  {| pc := pc s; regs := regs s; ms := MFlat m; im := {| prog := prog (im s); icc := None |};
     out := out s; exitc := exitc s; icount := icount s; bcount := bcount s; pcount := pcount s;
     cycles := cycles s; stalls := stalls s; flushes := flushes s |}.
Proof. intros H. unfold flatten. rewrite H. reflexivity. Qed.

Lemma icache_ok_init_lem p m g ipen : bytes_ok m -> 0 <= ibits g -> 0 <= bbits g ->
  Z.of_nat (length p) <= 1073741824 ->
  cache_ok (init_st p (MFlat m) (Some (icache_init g ipen))).
Proof.
  intros Hm Hi Hb Hl. split; [exact Hm|]. split; [apply iinv_init_proof; assumption | exact Hl].
Qed.

(* vocabulary of the refinement theorem *)
Lemma cwf_meaning_lem s :
  cwf s <->
  wf_regs (regs s) /\ match ms s with MFlat f => bytes_ok f | MCache d => CInv d end /\ IInv (im s) /\
  -2097152 < pc s < 4294967296 /\ Forall wf_instr (prog (im s)) /\
  Z.of_nat (length (prog (im s))) <= 4096.
Proof. unfold cwf, ms_ok. reflexivity. Qed.

Lemma agree_log_meaning_lem p s :
  agree_log p s <->
  regs (pst p) = regs s /\ out (pst p) = out s /\ exitc (pst p) = exitc s /\
  bcount (pst p) = bcount s /\ pcount (pst p) = pcount s /\ icount (pst p) = icount s /\
  forall a, 0 <= a < 4294967296 ->
    match ms (pst p) with MFlat f => mget f a | MCache d => logical d a end =
    match ms s with MFlat f => mget f a | MCache d => logical d a end.
Proof. unfold agree_log, ms_logical. reflexivity. Qed.

Lemma fault_agree_meaning_lem p s :
  fault_agree p s <->
  regs (pst p) = regs s /\ out (pst p) = out s /\
  forall a, 0 <= a < 4294967296 ->
    match ms (pst p) with MFlat f => mget f a | MCache d => logical d a end =
    match ms s with MFlat f => mget f a | MCache d => logical d a end.
Proof. unfold fault_agree, ms_logical. reflexivity. Qed.

Lemma rejection_record_meaning_lem g f :
  rejection_record g f <-> exists s0, rejects g (f_instr f) s0 = Some (f_err f).
Proof. reflexivity. Qed.

(* initial states of every configuration satisfy the hypothesis *)
Lemma cwf_init_lem p c wt pen (ic : option (ccfg * Z)) :
  cfg_ok c -> Forall wf_instr p -> Z.of_nat (length p) <= 4096 ->
  match ic with Some (g, ipen) => 0 <= ibits g /\ 0 <= bbits g | None => True end ->
  cwf (init_st p (MCache (dcache_init c wt pen)) (mk_icache ic)).
Proof.
  intros Hc Hp Hl Hi.
  destruct (cache_ok_init_lem p c wt pen ic Hc ltac:(lia) Hi) as (Hm & Hii & _).
  unfold cwf, init_st. cbn [regs ms im pc prog].
  split; [split; [intros k; unfold mget; cbn; unfold WordLemmas.in32; lia | reflexivity]|].
  split; [exact Hm|]. split; [exact Hii|]. split; [lia|]. split; assumption.
Qed.

Lemma cwf_init_flat_lem p m (ic : option (ccfg * Z)) :
  bytes_ok m -> Forall wf_instr p -> Z.of_nat (length p) <= 4096 ->
  match ic with Some (g, ipen) => 0 <= ibits g /\ 0 <= bbits g | None => True end ->
  cwf (init_st p (MFlat m) (mk_icache ic)).
Proof.
  intros Hm Hp Hl Hi. unfold cwf, init_st. cbn [regs ms im pc prog ms_ok].
  split; [split; [intros k; unfold mget; cbn; unfold WordLemmas.in32; lia | reflexivity]|].
  split; [exact Hm|]. split; [|split; [lia|split; assumption]].
  destruct ic as [[g ipen]|]; [apply iinv_init_proof; tauto | apply iinv_none].
Qed.
