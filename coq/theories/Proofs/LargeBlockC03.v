(* Proofs/LargeBlockC03.v — cache transparency for geometries WITHOUT the bound bbits <= 12
   (finding D9), on top of Proofs/LargeBlockInv*.v.  The first part (vocabulary, invariant steps,
   [flat_after_write]) is copied from Proofs/C03Proofs.v; the rest is new: what is true beyond the
   bound.  Reads and write-back writes fetch the block, so they work iff the BLOCK BASE is
   >= 2^14; write-through writes do not fetch, so they work iff the ADDRESS is >= 2^14.
   Do not import together with CacheInv.v / C03Proofs.v (same names). *)
From Coq Require Import Lia ZifyBool.
From ArchSim Require Import Model.Base Model.Mem Model.Cache
  Proofs.WordLemmas Proofs.MapLemmas Proofs.CacheArith Proofs.LargeBlockArith
  Proofs.LargeBlockInv1 Proofs.LargeBlockInv2 Proofs.LargeBlockInv3.
Open Scope Z_scope.
Ltac Zify.zify_post_hook ::= Z.to_euclidean_division_equations.
Local Arguments Z.mul : simpl never.
Local Arguments Z.add : simpl never.
Local Arguments Z.sub : simpl never.
Local Arguments Z.pow : simpl never.
Local Arguments Z.div : simpl never.
Local Arguments Z.modulo : simpl never.
Local Arguments Z.of_nat : simpl never.
Local Arguments Z.to_nat : simpl never.

(** * Vocabulary of the statements *)
(* the access [a, a + nbits/8) stays inside one 32-bit word *)
Definition in_word (nbits a : Z) : Prop := (a mod 4294967296) mod 4 + nbits / 8 <= 4.
Definition cross_word (nbits a : Z) : Prop := (a mod 4294967296) mod 4 + nbits / 8 > 4.

Lemma kof_div nbits : okw nbits -> Z.of_nat (kof nbits) = nbits / 8.
Proof. intros [-> | [-> | ->]]; reflexivity. Qed.

Lemma in_word_k d nbits a : CInv d -> okw nbits ->
  (in_word nbits a <-> da_byoff (cdecode (dc d) a) + Z.of_nat (kof nbits) <= 4) /\
  (cross_word nbits a <-> da_byoff (cdecode (dc d) a) + Z.of_nat (kof nbits) > 4).
Proof.
  intros HC Hw. unfold in_word, cross_word. rewrite (byoff_eq _ _ a (cinv_sinv d HC)), (kof_div nbits Hw).
  split; reflexivity.
Qed.

(* a flat memory that agrees with a well-formed cache holds bytes at every address *)
Lemma flat_bytes f d a : CInv d -> Flat f d -> 0 <= a < 4294967296 -> 0 <= mget f a < 256.
Proof. intros HC HF Ha. rewrite (HF a Ha). apply (logical_byte _ _ a (cinv_sinv d HC)). Qed.

Lemma flat_same f d d' : Flat f d -> same_logical d d' -> Flat f d'.
Proof. intros HF SL a Ha. rewrite (SL a Ha). apply HF. exact Ha. Qed.

(** * 1. The invariant: initial state, steps *)
Lemma cinv_step_read_proof d nbits a counted r d' p : CInv d ->
  dc_read d nbits a counted = (r, d', p) -> CInv d' /\ wthrough d' = wthrough d /\ cfg (dc d') = cfg (dc d).
Proof.
  intros HC H. unfold dc_read in H.
  destruct (dc_read_block d (cdecode (dc d) a)) as [rb d1] eqn:Hrb.
  destruct (dc_read_block_ok d a rb d1 HC Hrb) as (HC1 & Hwt1 & Hcfg1 & _ & _).
  destruct rb as [[blk hit]|e].
  - pose proof (core_stats d1 hit counted) as Hcore.
    destruct (if counted then upd_stats d1 hit else (d1, 0)) as [d2 pen] eqn:Est. cbn [fst] in Hcore.
    apply pair_eq in H. destruct H as [H _]. apply pair_eq in H. destruct H as [_ <-].
    split; [apply (core_cinv d1 d2 Hcore HC1)|].
    destruct Hcore as (E1 & _ & E3). rewrite E3, E1. split; assumption.
  - apply pair_eq in H. destruct H as [H _]. apply pair_eq in H. destruct H as [_ <-].
    split; [exact HC1 | split; assumption].
Qed.

Lemma cinv_step_write_proof d nbits a v e d' p : CInv d -> okw nbits -> 0 <= v < 2 ^ nbits ->
  dc_write d nbits a v false = (e, d', p) -> CInv d' /\ wthrough d' = wthrough d /\ cfg (dc d') = cfg (dc d).
Proof.
  intros HC Hw Hv H. destruct (dc_write_ok d nbits a v e d' p HC Hw Hv H) as (H1 & H2 & H3 & _).
  split; [exact H1 | split; assumption].
Qed.

(* direct writes: the guard is "inside one word and the block of a is not resident"
   (write-through), nothing at all for write-back *)
Lemma cinv_step_direct_proof d nbits a v e d' p : CInv d -> okw nbits ->
  (wthrough d = true -> in_word nbits a /\ cache_contains (dc d) (cdecode (dc d) a) = false) ->
  dc_write d nbits a v true = (e, d', p) -> CInv d'.
Proof.
  intros HC Hw Hg H. destruct (wthrough d) eqn:Hwt.
  - destruct (Hg eq_refl) as [Hin Hnc].
    assert (Hres: res_block (dc d) a = None).
    { unfold cache_contains in Hnc. unfold res_block, lookup.
      destruct (find_block _ _ 0); [discriminate | reflexivity]. }
    apply (proj1 (in_word_k d nbits a HC Hw)) in Hin.
    apply (dc_write_direct_ok d nbits a v e d' p HC Hw Hin Hres H).
  - apply (cinv_direct_wb d nbits a v e d' p HC Hwt H).
Qed.

(** * 2. Writes: the flat memory after an accepted write (copied) *)
Lemma flat_after_write f d d' nbits a v : okw nbits -> Flat f d ->
  in_word nbits a -> 16384 <= a mod 4294967296 ->
  (forall a', in32b a' ->
     logical d' a' = if (a mod 4294967296 <=? a') && (a' <? a mod 4294967296 + Z.of_nat (kof nbits))
                     then byte_of v (a' - a mod 4294967296) else logical d a') ->
  snd (mem_write rv_memcfg f nbits a v) = None /\ Flat (fst (mem_write rv_memcfg f nbits a v)) d'.
Proof.
  intros Hw HF Hin Hlo L. unfold in_word in Hin. rewrite <- (kof_div nbits Hw) in Hin.
  destruct (mem_write_inword f nbits a v Hw) as [Wok _]; [exact Hin|].
  destruct (Wok Hlo) as [We Wm]. split; [exact We|].
  intros a' Ha'. rewrite Wm, (L a' Ha'). destruct (_ && _); [reflexivity | apply HF; exact Ha'].
Qed.

(** * 3. Beyond the bound: what is true for every geometry *)
Local Arguments Z.mul : simpl never.
Local Arguments Z.add : simpl never.
Local Arguments Z.sub : simpl never.
Local Arguments Z.pow : simpl never.
Local Arguments Z.div : simpl never.
Local Arguments Z.modulo : simpl never.
Local Arguments Z.of_nat : simpl never.
Local Arguments Z.to_nat : simpl never.

Lemma upd_dc_self d : upd_dc d (dc d) = d.
Proof. destruct d; reflexivity. Qed.

(* the block base never exceeds the address; for bbits <= 12 both are on the same side of 2^14 *)
Lemma balign_le d a : CInv d -> da_balign (cdecode (dc d) a) <= a mod 4294967296.
Proof.
  intros HC. destruct (inword_range _ _ a (cinv_sinv d HC)) as (Hx & Ho & _).
  pose proof (sinv_geom _ _ (cinv_sinv d HC)) as G. unfold cdecode in *.
  destruct (decode_spec _ _ a G) as (_ & Hbo & _). lia.
Qed.

Lemma small_blocks_same_side d a : CInv d -> bbits (cfg (dc d)) <= 12 ->
  (16384 <= a mod 4294967296 <-> 16384 <= da_balign (cdecode (dc d) a)).
Proof.
  intros HC Hb. pose proof (balign_le d a HC) as Hle. split; [|lia].
  intros Hx. apply decode_small; [apply (sinv_geom _ _ (cinv_sinv d HC)) | exact Hb | exact Hx].
Qed.

(* no block with base below 2^14 is ever resident *)
Lemma no_low_block_resident d a b : CInv d -> res_block (dc d) a = Some b ->
  16384 <= da_balign (cdecode (dc d) a).
Proof.
  intros HC Hr. destruct (res_block_Some _ _ a b (cinv_sinv d HC) Hr) as (Hv & [_ Hok] & _ & Hba & _).
  destruct (Hok Hv) as (_ & _ & _ & _ & _ & _ & H14). rewrite <- Hba. exact H14.
Qed.

(** ** (1) block base below 2^14: every read and every write-back write is refused, nothing changes *)
Lemma low_block_read_fails d nbits a counted : CInv d ->
  da_balign (cdecode (dc d) a) < 16384 ->
  dc_read d nbits a counted = (Err (aerr (da_balign (cdecode (dc d) a))), d, 0).
Proof.
  intros HC Hlt. unfold dc_read.
  destruct (dc_read_block d (cdecode (dc d) a)) as [rb d1] eqn:Hrb.
  destruct (dc_read_block_ok d a rb d1 HC Hrb) as (_ & _ & _ & _ & Hres).
  destruct rb as [[blk hit]|e]; [destruct Hres as [Hlo _]; lia|].
  destruct Hres as (_ & -> & ->). reflexivity.
Qed.

Lemma low_block_wb_write_fails d nbits a v : CInv d -> wthrough d = false ->
  da_balign (cdecode (dc d) a) < 16384 ->
  dc_write d nbits a v false = (Some (aerr (da_balign (cdecode (dc d) a))), d, 0).
Proof.
  intros HC Hwt Hlt. pose proof (cinv_sinv d HC) as HS.
  rewrite (dc_write_wb_eq d nbits a v Hwt). cbv zeta. rewrite cache_read_block_eq.
  destruct (find_block (blocks (get_set (dc d) (da_idx (cdecode (dc d) a)))) (da_tag (cdecode (dc d) a)) 0)
    as [bi|] eqn:Hf.
  - destruct (find_hit_facts _ _ a bi HS Hf) as (_ & _ & _ & _ & _ & Hge & _). exfalso. lia.
  - cbv beta iota. cbn [dc lower upd_dc]. unfold block_words. cbn [dc upd_dc].
    rewrite (read_block_lower_bad _ _ a HS Hlt). rewrite upd_dc_self. reflexivity.
Qed.

(** ** (2) reads: transparent exactly where the block base is >= 2^14 *)
Lemma read_large d f nbits a counted r d' p : CInv d -> Flat f d -> okw nbits -> in_word nbits a ->
  dc_read d nbits a counted = (r, d', p) ->
  CInv d' /\ Flat f d' /\
  (16384 <= da_balign (cdecode (dc d) a) -> r = mem_read rv_memcfg f nbits a /\ exists v, r = Ok v) /\
  (da_balign (cdecode (dc d) a) < 16384 -> r = Err (aerr (da_balign (cdecode (dc d) a)))).
Proof.
  intros HC HF Hw Hin H. pose proof (cinv_sinv d HC) as HS.
  destruct (dc_read_ok d nbits a counted r d' p HC Hw H) as (HC' & _ & _ & SL & Rin & Rlow & _).
  split; [exact HC'|]. split; [apply (flat_same f d d' HF SL)|]. split; [|exact Rlow].
  intros Hlo. apply (proj1 (proj1 (in_word_k d nbits a HC Hw))) in Hin.
  rewrite (Rin Hin Hlo). destruct (inword_range _ _ a HS) as (_ & Ho & Hfit & H14 & _).
  destruct (mem_read_inword f nbits a Hw) as [Rok _]; [rewrite <- (byoff_eq _ _ a HS); exact Hin|].
  rewrite Rok.
  - split; [|eexists; reflexivity]. f_equal. apply le_bytes_ext. intros j Hj. symmetry. apply HF. lia.
  - apply H14. exact Hlo.
  - intros j Hj. apply (flat_bytes f d _ HC HF). specialize (H14 Hlo). lia.
Qed.

(* an accepted read returns the flat value (no side condition: acceptance implies base >= 2^14) *)
Lemma read_transparent_large d f nbits a counted v d' p : CInv d -> Flat f d -> okw nbits ->
  dc_read d nbits a counted = (Ok v, d', p) ->
  mem_read rv_memcfg f nbits a = Ok v /\ Flat f d' /\ CInv d' /\ 16384 <= da_balign (cdecode (dc d) a).
Proof.
  intros HC HF Hw H. pose proof (cinv_sinv d HC) as HS.
  destruct (dc_read_ok d nbits a counted _ d' p HC Hw H) as (HC' & _ & _ & SL & Rin & Rlow & Rcross).
  destruct (Z_le_gt_dec 16384 (da_balign (cdecode (dc d) a))) as [Hlo|Hlt];
    [|specialize (Rlow ltac:(lia)); discriminate].
  destruct (Z_le_gt_dec (da_byoff (cdecode (dc d) a) + Z.of_nat (kof nbits)) 4) as [Hin|Hc];
    [|specialize (Rcross Hc Hlo); discriminate].
  assert (Hin' : in_word nbits a) by (apply (proj2 (proj1 (in_word_k d nbits a HC Hw))); exact Hin).
  destruct (read_large d f nbits a counted _ d' p HC HF Hw Hin' H) as (_ & HF' & Hok & _).
  destruct (Hok Hlo) as [E _]. split; [symmetry; exact E|]. split; [exact HF'|]. split; [exact HC' | exact Hlo].
Qed.

(** ** (2) writes: write-back fetches the block (base), write-through does not (address) *)
Definition wthreshold (d : dcache) (a : Z) : Z :=
  if wthrough d then a mod 4294967296 else da_balign (cdecode (dc d) a).

Lemma write_large d f nbits a v e d' p : CInv d -> Flat f d -> okw nbits -> 0 <= v < 2 ^ nbits ->
  in_word nbits a -> dc_write d nbits a v false = (e, d', p) ->
  CInv d' /\
  (16384 <= wthreshold d a ->
     e = None /\ snd (mem_write rv_memcfg f nbits a v) = None /\ Flat (fst (mem_write rv_memcfg f nbits a v)) d') /\
  (wthreshold d a < 16384 -> e = Some (aerr (wthreshold d a)) /\ Flat f d').
Proof.
  intros HC HF Hw Hv Hin H. pose proof (cinv_sinv d HC) as HS.
  destruct (dc_write_ok d nbits a v e d' p HC Hw Hv H) as (HC' & _ & _ & Win & Wlow & _).
  fold (wthreshold d a) in Win, Wlow.
  pose proof (proj1 (proj1 (in_word_k d nbits a HC Hw)) Hin) as Hin'.
  split; [exact HC'|]. split.
  - intros Hlo. destruct (Win Hin' Hlo) as [-> L]. split; [reflexivity|].
    assert (Hx : 16384 <= a mod 4294967296).
    { unfold wthreshold in Hlo. destruct (wthrough d); [exact Hlo|]. pose proof (balign_le d a HC). lia. }
    apply (flat_after_write f d d' nbits a v Hw HF Hin Hx L).
  - intros Hlt. destruct (Wlow Hin' Hlt) as [-> SL]. split; [reflexivity | apply (flat_same f d d' HF SL)].
Qed.

Lemma write_transparent_large d f nbits a v d' p : CInv d -> Flat f d -> okw nbits -> 0 <= v < 2 ^ nbits ->
  dc_write d nbits a v false = (None, d', p) ->
  snd (mem_write rv_memcfg f nbits a v) = None /\ Flat (fst (mem_write rv_memcfg f nbits a v)) d' /\ CInv d' /\
  16384 <= wthreshold d a.
Proof.
  intros HC HF Hw Hv H.
  destruct (dc_write_ok d nbits a v _ d' p HC Hw Hv H) as (HC' & _ & _ & Win & Wlow & Wcross).
  fold (wthreshold d a) in Win, Wlow, Wcross.
  destruct (in_word_k d nbits a HC Hw) as [Kin Kcross].
  destruct (Z_le_gt_dec (da_byoff (cdecode (dc d) a) + Z.of_nat (kof nbits)) 4) as [Hin|Hc].
  2:{ destruct (Wcross Hc) as (_ & e0 & E & _). discriminate. }
  destruct (Z_le_gt_dec 16384 (wthreshold d a)) as [Hlo|Hlt].
  2:{ destruct (Wlow Hin ltac:(lia)) as [E _]. discriminate. }
  destruct (write_large d f nbits a v None d' p HC HF Hw Hv (proj2 Kin Hin) H) as (_ & Hok & _).
  destruct (Hok Hlo) as (_ & E1 & E2). split; [exact E1|]. split; [exact E2|]. split; [exact HC' | exact Hlo].
Qed.

(** ** (3) the exact condition: an in-word, in-range access is answered as by flat memory iff the
       threshold quantity (block base; address for write-through writes) is >= 2^14 *)
Lemma read_iff d f nbits a counted : CInv d -> Flat f d -> okw nbits -> in_word nbits a ->
  16384 <= a mod 4294967296 ->
  (fst (fst (dc_read d nbits a counted)) = mem_read rv_memcfg f nbits a <->
   16384 <= da_balign (cdecode (dc d) a)).
Proof.
  intros HC HF Hw Hin Hx. destruct (dc_read d nbits a counted) as [[r d'] p] eqn:H. cbn [fst].
  destruct (read_large d f nbits a counted r d' p HC HF Hw Hin H) as (_ & _ & Hok & Hbad).
  split.
  - intros E. destruct (Z_le_gt_dec 16384 (da_balign (cdecode (dc d) a))) as [Hlo|Hlt]; [exact Hlo|].
    exfalso. rewrite (Hbad ltac:(lia)) in E.
    pose proof (cinv_sinv d HC) as HS.
    pose proof (proj1 (proj1 (in_word_k d nbits a HC Hw)) Hin) as Hin'.
    destruct (mem_read_inword f nbits a Hw) as [Rok _]; [rewrite <- (byoff_eq _ _ a HS); exact Hin'|].
    destruct (inword_range _ _ a HS) as (_ & Ho & Hfit & _).
    rewrite Rok in E; [discriminate | exact Hx |].
    intros j Hj. apply (flat_bytes f d _ HC HF). lia.
  - intros Hlo. apply (Hok Hlo).
Qed.

Lemma write_iff d f nbits a v : CInv d -> Flat f d -> okw nbits -> 0 <= v < 2 ^ nbits ->
  in_word nbits a -> 16384 <= a mod 4294967296 ->
  (fst (fst (dc_write d nbits a v false)) = snd (mem_write rv_memcfg f nbits a v) <->
   16384 <= wthreshold d a).
Proof.
  intros HC HF Hw Hv Hin Hx. destruct (dc_write d nbits a v false) as [[e d'] p] eqn:H. cbn [fst].
  destruct (write_large d f nbits a v e d' p HC HF Hw Hv Hin H) as (_ & Hok & Hbad).
  assert (Hflat : snd (mem_write rv_memcfg f nbits a v) = None).
  { unfold in_word in Hin. rewrite <- (kof_div nbits Hw) in Hin.
    destruct (mem_write_inword f nbits a v Hw Hin) as [Wok _]. apply (Wok Hx). }
  rewrite Hflat. split.
  - intros E. destruct (Z_le_gt_dec 16384 (wthreshold d a)) as [Hlo|Hlt]; [exact Hlo|].
    exfalso. destruct (Hbad ltac:(lia)) as [E' _]. rewrite E' in E. discriminate.
  - intros Hlo. apply (Hok Hlo).
Qed.

(** * 4. Names for the statement file (the definitions above shadow those of CacheInv.v) *)
Definition cfg_ok_large : ccfg -> Prop := cfg_ok.
Definition CInv_large : dcache -> Prop := CInv.
Definition Flat_large : zmap -> dcache -> Prop := Flat.
Definition logical_large : dcache -> Z -> Z := logical.
Definition block_base (d : dcache) (a : Z) : Z := da_balign (cdecode (dc d) a).

Lemma cfg_ok_large_eq c :
  cfg_ok_large c <->
  0 <= ibits c /\ 0 <= bbits c /\ ibits c + bbits c + 2 <= 32 /\ 1 <= assoc c /\
  (plru c = true -> exists k : nat, assoc c = 2 ^ Z.of_nat k).
Proof. reflexivity. Qed.

Lemma block_base_le d a : CInv_large d ->
  block_base d a <= a mod 4294967296 < block_base d a + 2 ^ (bbits (cfg (dc d)) + 2).
Proof.
  intros HC. pose proof (sinv_geom _ _ (cinv_sinv d HC)) as G. unfold block_base, cdecode.
  destruct (decode_spec _ _ a G) as (Hx & Hbo & Hby & _).
  pose proof (bsize_eq (bbits (cfg (dc d))) ltac:(destruct G as (_ & ? & _); lia)) as HB.
  unfold bsize in HB. rewrite HB. lia.
Qed.

Lemma block_base_aligned d a : CInv_large d ->
  exists q, 0 <= q /\ block_base d a = q * 2 ^ (bbits (cfg (dc d)) + 2).
Proof.
  intros HC. pose proof (sinv_geom _ _ (cinv_sinv d HC)) as G. unfold block_base, cdecode.
  destruct (decode_spec _ _ a G) as (_ & _ & _ & Hi & Ht & Hba & _).
  exists (da_tag (decode_addr (ibits (cfg (dc d))) (bbits (cfg (dc d))) a) * 2 ^ ibits (cfg (dc d)) +
          da_idx (decode_addr (ibits (cfg (dc d))) (bbits (cfg (dc d))) a)).
  split; [|exact Hba]. pose proof (p2pos (ibits (cfg (dc d))) ltac:(destruct G; lia)). nia.
Qed.


Lemma wthreshold_eq d a :
  wthreshold d a = if wthrough d then a mod 4294967296 else block_base d a.
Proof. reflexivity. Qed.

Lemma Flat_large_eq f d :
  Flat_large f d <-> (forall a, 0 <= a < 4294967296 -> mget f a = logical_large d a).
Proof. reflexivity. Qed.

Lemma cinv_init_large c wt pen : cfg_ok_large c -> CInv_large (dcache_init c wt pen).
Proof. exact (cinv_init_proof c wt pen). Qed.

Lemma cinv_init_lower_large c wt pen m : cfg_ok_large c -> bytes_ok m ->
  CInv_large (upd_lower (dcache_init c wt pen) m) /\ Flat_large m (upd_lower (dcache_init c wt pen) m).
Proof. exact (cinv_init_lower_proof c wt pen m). Qed.

Lemma cinv_step_read_large d nbits a counted r d' p : CInv_large d ->
  dc_read d nbits a counted = (r, d', p) ->
  CInv_large d' /\ wthrough d' = wthrough d /\ cfg (dc d') = cfg (dc d).
Proof. exact (cinv_step_read_proof d nbits a counted r d' p). Qed.

Lemma cinv_step_write_large d nbits a v e d' p : CInv_large d -> okw nbits -> 0 <= v < 2 ^ nbits ->
  dc_write d nbits a v false = (e, d', p) ->
  CInv_large d' /\ wthrough d' = wthrough d /\ cfg (dc d') = cfg (dc d).
Proof. exact (cinv_step_write_proof d nbits a v e d' p). Qed.

(* the invariant implies the geometry condition and is the invariant of CacheInv.v otherwise *)
Lemma cinv_large_cfg d : CInv_large d -> cfg_ok_large (cfg (dc d)).
Proof. intros HC. apply (sinv_cfg _ _ (cinv_sinv d HC)). Qed.

(** * 5. Packaged statements and the concrete geometries of the examples *)
Lemma block_base_meaning_lem d a : CInv_large d ->
  (exists q, 0 <= q /\ block_base d a = q * 2 ^ (bbits (cfg (dc d)) + 2)) /\
  block_base d a <= a mod 4294967296 < block_base d a + 2 ^ (bbits (cfg (dc d)) + 2).
Proof. intros HC. split; [apply block_base_aligned | apply block_base_le]; exact HC. Qed.

Lemma first_block_fails_lem d nbits a : CInv_large d -> block_base d a < 16384 ->
  (forall counted, dc_read d nbits a counted = (Err (EAddr (block_base d a) 16384 4294967295 false), d, 0)) /\
  (forall v, wthrough d = false ->
     dc_write d nbits a v false = (Some (EAddr (block_base d a) 16384 4294967295 false), d, 0)).
Proof.
  intros HC Hlt. split.
  - intros counted. apply (low_block_read_fails d nbits a counted HC Hlt).
  - intros v Hwt. apply (low_block_wb_write_fails d nbits a v HC Hwt Hlt).
Qed.

Definition g13 : ccfg := {| ibits := 0; bbits := 13; assoc := 1; plru := false |}.
Definition g14 : ccfg := {| ibits := 1; bbits := 14; assoc := 2; plru := true |}.

Lemma g13_ok : cfg_ok_large g13.
Proof. unfold cfg_ok_large, cfg_ok, g13. cbn. repeat split; try discriminate. Qed.
Lemma g14_ok : cfg_ok_large g14.
Proof. unfold cfg_ok_large, cfg_ok, g14. cbn. repeat split; try discriminate. intros _. exists 1%nat. reflexivity. Qed.

(* a write-through store into the block below the first data address is ACCEPTED (no block fetch):
   the lower memory receives the value, the block is still not resident, and the value cannot be
   read back through the cache *)
Lemma wt_store_below_base_refuted_lem :
  exists d a v, CInv_large d /\ wthrough d = true /\ okw 32 /\ in_word 32 a /\
    block_base d a < 16384 /\ res_block (dc d) a = None /\
    fst (fst (dc_write d 32 a v false)) = None /\
    let d' := snd (fst (dc_write d 32 a v false)) in
    mget (lower d') a = v /\ res_block (dc d') a = None /\
    fst (fst (dc_read d' 32 a true)) = Err (EAddr 0 16384 4294967295 false).
Proof.
  exists (dcache_init g13 true 0), 16384, 7.
  split; [apply cinv_init_large; exact g13_ok|]. split; [reflexivity|].
  split; [right; right; reflexivity|]. split; [unfold in_word; vm_compute; discriminate|].
  split; [vm_compute; reflexivity|]. split; [vm_compute; reflexivity|]. split; [vm_compute; reflexivity|].
  cbv zeta. split; [vm_compute; reflexivity|]. split; vm_compute; reflexivity.
Qed.
